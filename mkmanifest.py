#!/usr/bin/env python3
"""Regenerates MANIFEST.json from props/*.json (the per-property specs the driver reads)."""
import glob, json, os
V = os.path.dirname(os.path.abspath(__file__))
props = [json.loads(l)["id"] for l in open(os.path.join(V, "properties.jsonl")) if l.strip()]
checks, na = [], []
pending = json.load(open(os.path.join(V, "props", "_not_applicable.json"))) if os.path.exists(os.path.join(V, "props", "_not_applicable.json")) else {}
for pid in props:
    p = os.path.join(V, "props", pid + ".json")
    if not os.path.exists(p):
        na.append({"property_id": pid, "reason": pending.get(pid, "no check built yet in this framework (work in progress); not claimed")})
        continue
    s = json.load(open(p))
    checks.append({
        "property_id": pid,
        "quick_cmd": "./check %s --tier quick" % pid,
        "thorough_cmd": "./check %s --tier thorough" % pid,
        "evidence_file": "evidence/%s.json" % pid,
        "replay_cmd_template": "./check %s --replay {path}" % pid,
        "engine": "check",
        "level_claimed": {"category": s.get("level", "exploration"), "text": s.get("level_text", ""), "design_ref": s.get("design_ref", "DESIGN.md §2 " + pid)},
        "level_note": s.get("level_note", "; ".join(s.get("assumptions", []))),
        "technique": s.get("technique", "property-based testing (pgregory.net/rapid) against a reference model"),
    })
hooks = json.load(open(os.path.join(V, "hooks.json")))
m = {
    "version": 1,
    "setup_cmd": "./setup.sh",
    "hooks": hooks,
    "engines": [{"name": "check", "path": "check", "serves_properties": [c["property_id"] for c in checks],
                 "kind_free_text": "Python driver: go test -overlay builds of in-package rapid/fuzz harnesses (harness/<pkg>/) against /repo's working tree; kernsim = control/kern/tproxy.c compiled natively against a userspace BPF-helper shim (cshim/)"}],
    "checks": checks,
    "not_applicable": na,
    "notes": "Exit codes: 0 held, 1 violation (VIOLATION line), 2 harness/tooling/timeout. VERIF_SEED selects the rapid seed (0 is remapped to 1). known_findings.json lists genuine defects (known/fixed).",
}
json.dump(m, open(os.path.join(V, "MANIFEST.json"), "w"), indent=1)
print("checks:", [c["property_id"] for c in checks], "not_applicable:", [n["property_id"] for n in na])

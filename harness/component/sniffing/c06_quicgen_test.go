package sniffing

// C06 — generator of QUIC client first flights (package-agnostic: this file is also
// used, with the package clause rewritten, by harness/control). A ClientHello is cut
// into CRYPTO frames (split anywhere, reordered, overlapping, interleaved with
// PADDING/PING), packed into 1..n Initial packets with 1-4 byte packet numbers,
// coalesced, padded to >= 1200 bytes per datagram and optionally corrupted.

import (
	"bytes"
	"sort"

	"pgregory.net/rapid"
)

type c06Piece struct {
	Off  int
	Data []byte
}

type c06QuicPlan struct {
	Version   uint32
	DCID      []byte
	SCID      []byte
	Hello     []byte
	Want      string
	NoExt     bool // the hello has no extension block (shape of finding F-C06-4)
	Datagrams [][]byte
	// per datagram: CRYPTO ranges carried by its intact Initial packets
	Ranges    [][][2]int
	Corrupt   []string // per datagram: "" | "flip" | "trunc" | "random"
	Style     string   // "pool" (NewPacketSniffer(nil)+AppendData) | "ctor" (NewPacketSniffer(first))
	NPackets  int
	NFrames   int
	Reordered bool
	Overlap   bool
	Classes   []string
	Mutated   bool
	// history after the first flight (same parallel slices Datagrams/Ranges/Corrupt):
	Primary int      // number of datagrams of the first flight
	Events  []string // per datagram: "" | "endpoint_lost" (before it; only meaningful for handlePkt)
	Flight  []int    // per datagram: 0 = this connection, 1 = a second connection attempt on the same 5-tuple
	Compact bool     // the caller compacts the session after every final verdict, as handlePkt does
	Want2   string
	Hello2  []byte
}

// c06Covered reports whether [0,n) is covered by the union of the ranges.
func c06Covered(rs [][2]int, n int) bool {
	sort.Slice(rs, func(i, j int) bool { return rs[i][0] < rs[j][0] })
	end := 0
	for _, r := range rs {
		if r[0] > end {
			return false
		}
		if r[1] > end {
			end = r[1]
		}
	}
	return end >= n
}

func c06GenQuicPlan(t *rapid.T) *c06QuicPlan {
	p := &c06QuicPlan{}
	p.Version = rapid.SampledFrom([]uint32{c06QuicV1, c06QuicV1, c06QuicV1, c06QuicV2}).Draw(t, "version")
	dl := rapid.IntRange(8, 20).Draw(t, "dcidlen")
	if rapid.IntRange(0, 11).Draw(t, "shortdcid") == 0 {
		dl = rapid.IntRange(0, 7).Draw(t, "dcidlen_after_retry") // only legal after a Retry; keys still come from it
		p.Classes = append(p.Classes, "quic:dcid_lt8")
	}
	p.DCID = c06Bytes(t, "dcid", dl, dl)
	sl := rapid.SampledFrom([]int{0, 0, 8, 20, 5}).Draw(t, "scidlen")
	p.SCID = c06Bytes(t, "scid", sl, sl)
	var token []byte
	if rapid.IntRange(0, 4).Draw(t, "hastoken") == 0 {
		token = c06Bytes(t, "token", 1, 90)
		p.Classes = append(p.Classes, "quic:token")
	}
	if rapid.IntRange(0, 9).Draw(t, "realhello") == 0 {
		name := rapid.SampledFrom(c06RealNames).Draw(t, "realname")
		p.Hello, p.Want = c06RealQuicHello(name), name
		if len(p.Hello) < 50 {
			t.Fatalf("HARNESS BUG: crypto/tls produced no QUIC ClientHello")
		}
		p.Classes = append(p.Classes, "quic:hello_from_crypto_tls")
	} else {
		h := c06GenHello(t, true)
		p.Hello, p.Want, p.NoExt = h.HS, h.Want, h.NoExt
		p.Classes = append(p.Classes, h.Classes...)
	}
	n := len(p.Hello)

	// 1. cut the hello into pieces (no piece above 1000 bytes)
	ncuts := rapid.SampledFrom([]int{0, 0, 1, 2, 3, 5, 8}).Draw(t, "ncuts")
	cutset := map[int]bool{}
	for i := 0; i < ncuts && n > 1; i++ {
		c := rapid.IntRange(1, n-1).Draw(t, "cut")
		if rapid.IntRange(0, 3).Draw(t, "cutearly") == 0 {
			c = rapid.IntRange(1, min(n-1, 140)).Draw(t, "cutinhead")
		}
		cutset[c] = true
	}
	var cuts []int
	for c := range cutset {
		cuts = append(cuts, c)
	}
	sort.Ints(cuts)
	cuts = append(cuts, n)
	var pieces []c06Piece
	prev := 0
	for _, c := range cuts {
		for c-prev > 1000 {
			pieces = append(pieces, c06Piece{prev, p.Hello[prev : prev+1000]})
			prev += 1000
		}
		pieces = append(pieces, c06Piece{prev, p.Hello[prev:c]})
		prev = c
	}
	// 2. overlapping / duplicated extra pieces
	for i := rapid.SampledFrom([]int{0, 0, 0, 1, 2}).Draw(t, "noverlaps"); i > 0; i-- {
		a := rapid.IntRange(0, n-1).Draw(t, "ovstart")
		b := min(n, a+rapid.IntRange(1, 300).Draw(t, "ovlen"))
		pieces = append(pieces, c06Piece{a, p.Hello[a:b]})
		p.Overlap = true
	}
	// 3. order
	if len(pieces) > 1 && rapid.IntRange(0, 2).Draw(t, "reorder") != 0 {
		perm := rapid.Permutation(pieces).Draw(t, "pieceorder")
		for i := range perm {
			if perm[i].Off != pieces[i].Off {
				p.Reordered = true
			}
		}
		pieces = perm
	}
	p.NFrames = len(pieces)

	// 4. pack pieces into packets, packets into datagrams
	type pkt struct {
		frames  []byte
		ranges  [][2]int
		pn      uint64
		pnLen   int
		tokLen  int
		lenSz   int
		padding int
	}
	noise := func(label string) []byte {
		switch rapid.IntRange(0, 5).Draw(t, label) {
		case 0:
			return []byte{0x01} // PING
		case 1:
			return make([]byte, rapid.IntRange(1, 40).Draw(t, "padrun")) // PADDING run
		case 2:
			return []byte{0x00, 0x01, 0x00}
		}
		return nil
	}
	var pkts []*pkt
	cur := &pkt{}
	fill := rapid.SampledFrom([]int{1100, 1100, 600, 300, 120}).Draw(t, "packetfill")
	for _, pc := range pieces {
		f := c06CryptoFrame(uint64(pc.Off), pc.Data, rapid.SampledFrom([]int{0, 0, 0, 2, 4, 8}).Draw(t, "offsz"), rapid.SampledFrom([]int{0, 0, 2, 4}).Draw(t, "lensz"))
		if len(cur.frames) > 0 && len(cur.frames)+len(f) > fill {
			pkts = append(pkts, cur)
			cur = &pkt{}
		}
		cur.frames = append(cur.frames, noise("noisebefore")...)
		cur.frames = append(cur.frames, f...)
		cur.ranges = append(cur.ranges, [2]int{pc.Off, pc.Off + len(pc.Data)})
		if rapid.IntRange(0, 3).Draw(t, "closepacket") == 0 {
			cur.frames = append(cur.frames, noise("noiseafter")...)
			pkts = append(pkts, cur)
			cur = &pkt{}
		}
	}
	if len(cur.frames) > 0 {
		pkts = append(pkts, cur)
	}
	if rapid.IntRange(0, 9).Draw(t, "pingonlypacket") == 0 {
		// a packet without any CRYPTO frame (PING + PADDING only), anywhere in the flight
		at := rapid.IntRange(0, len(pkts)).Draw(t, "pingonlyat")
		pkts = append(pkts[:at], append([]*pkt{{frames: []byte{0x01, 0, 0, 0, 0}}}, pkts[at:]...)...)
		p.Classes = append(p.Classes, "quic:packet_without_crypto")
	}
	pn := uint64(rapid.IntRange(0, 3).Draw(t, "pn0"))
	for _, k := range pkts {
		k.pnLen = rapid.IntRange(1, 4).Draw(t, "pnlen")
		if k.pnLen == 4 && rapid.IntRange(0, 3).Draw(t, "bigpn") == 0 {
			pn += uint64(rapid.IntRange(1<<16, 1<<30).Draw(t, "pnjump"))
		}
		if k.pnLen < 4 && pn >= 1<<(8*uint(k.pnLen)) {
			k.pnLen = 4
		}
		k.pn = pn
		pn += uint64(rapid.IntRange(1, 3).Draw(t, "pnstep"))
		k.tokLen = rapid.SampledFrom([]int{0, 0, 2, 4}).Draw(t, "toklensz")
		k.lenSz = rapid.SampledFrom([]int{2, 2, 4, 8}).Draw(t, "lengthsz")
		for len(k.frames)+k.pnLen < 4 {
			k.frames = append(k.frames, 0)
		}
	}
	p.NPackets = len(pkts)
	seal := func(k *pkt, pad int, padAt int) []byte {
		pl := k.frames
		if pad > 0 {
			// padAt: 0 = before the frames, 1 = after them
			z := make([]byte, pad)
			if padAt == 0 {
				pl = append(z, k.frames...)
			} else {
				pl = append(append([]byte(nil), k.frames...), z...)
			}
		}
		b, _ := c06QuicSealInitial(c06QuicPacket{Version: p.Version, DCID: p.DCID, SCID: p.SCID, Token: token, TokLenSz: k.tokLen, LenSz: k.lenSz, PN: k.pn, PNLen: k.pnLen, Payload: pl})
		return b
	}
	for i := 0; i < len(pkts); {
		group := []*pkt{pkts[i]}
		i++
		if i < len(pkts) && rapid.IntRange(0, 3).Draw(t, "coalesce") == 0 && len(group[0].frames)+len(pkts[i].frames) < 1250 {
			group = append(group, pkts[i])
			i++
			p.Classes = append(p.Classes, "quic:coalesced_initials")
		}
		var dg []byte
		var rs [][2]int
		size := 0
		for _, k := range group {
			size += len(seal(k, 0, 0))
			rs = append(rs, k.ranges...)
		}
		target := rapid.SampledFrom([]int{1200, 1200, 1252, 1350, 1452}).Draw(t, "datagramsize")
		padMode := rapid.IntRange(0, 3).Draw(t, "padmode")
		padIdx := rapid.IntRange(0, len(group)-1).Draw(t, "padpacket")
		need := max(0, target-size)
		for j, k := range group {
			pad := 0
			if j == padIdx && padMode != 3 {
				pad = need
			}
			dg = append(dg, seal(k, pad, padMode%2)...)
		}
		if padMode == 3 && need > 0 {
			// pad the datagram with a coalesced 0-RTT / Handshake packet instead of PADDING frames
			body := c06Bytes(t, "coalescedother", 24, 24)
			hdrLen := 1 + 4 + 1 + len(p.DCID) + 1 + len(p.SCID) + 2
			if need > hdrLen+len(body) {
				body = append(body, bytes.Repeat([]byte{0x5a}, need-hdrLen-len(body))...)
			}
			dg = append(dg, c06QuicOtherLongPacket(p.Version, rapid.SampledFrom([]string{"0rtt", "handshake"}).Draw(t, "othertype"), p.DCID, p.SCID, body)...)
			p.Classes = append(p.Classes, "quic:padded_by_coalesced_packet")
		}
		p.Datagrams = append(p.Datagrams, dg)
		p.Ranges = append(p.Ranges, rs)
		p.Corrupt = append(p.Corrupt, "")
	}
	if len(p.Datagrams) > 1 && rapid.IntRange(0, 7).Draw(t, "retransmit") == 0 {
		i := rapid.IntRange(0, len(p.Datagrams)-1).Draw(t, "retransmitwhich")
		at := rapid.IntRange(0, len(p.Datagrams)).Draw(t, "retransmitat")
		ins := func(s [][]byte, v []byte) [][]byte { return append(s[:at:at], append([][]byte{v}, s[at:]...)...) }
		p.Datagrams = ins(p.Datagrams, append([]byte(nil), p.Datagrams[i]...))
		p.Ranges = append(p.Ranges[:at:at], append([][][2]int{p.Ranges[i]}, p.Ranges[at:]...)...)
		p.Corrupt = append(p.Corrupt[:at:at], append([]string{""}, p.Corrupt[at:]...)...)
		p.Classes = append(p.Classes, "quic:retransmitted_datagram")
	}
	// 5. negatives: corrupt one datagram or insert a random one
	if rapid.IntRange(0, 5).Draw(t, "negative") == 0 {
		p.Mutated = true
		i := rapid.IntRange(0, len(p.Datagrams)-1).Draw(t, "corruptwhich")
		switch kind := rapid.SampledFrom([]string{"flip", "flip", "trunc", "random", "hdrcut", "hdrcut"}).Draw(t, "corruptkind"); kind {
		case "hdrcut":
			cut := rapid.SampledFrom(c06HeaderCuts(p.Datagrams[i])).Draw(t, "primaryhdrcutat")
			p.Datagrams[i] = p.Datagrams[i][:cut]
			p.Ranges[i], p.Corrupt[i] = nil, "hdrcut"
		case "flip":
			d := append([]byte(nil), p.Datagrams[i]...)
			j := rapid.IntRange(0, len(d)-1).Draw(t, "flipbyte")
			if rapid.Bool().Draw(t, "flipinheader") {
				j = rapid.IntRange(0, min(len(d)-1, 60)).Draw(t, "flipheaderbyte")
			}
			d[j] ^= 1 << uint(rapid.IntRange(0, 7).Draw(t, "flipbit"))
			p.Datagrams[i], p.Ranges[i], p.Corrupt[i] = d, nil, "flip"
		case "trunc":
			p.Datagrams[i] = p.Datagrams[i][:rapid.IntRange(0, len(p.Datagrams[i])-1).Draw(t, "truncat")]
			p.Ranges[i], p.Corrupt[i] = nil, "trunc"
		case "random":
			d := c06Bytes(t, "randomdatagram", 0, 1300)
			if len(d) > 6 && rapid.Bool().Draw(t, "looksinitial") {
				d[0] = 0xc0 | d[0]&0x0f
				d[1], d[2], d[3], d[4] = 0, 0, 0, 1
			}
			p.Datagrams[i], p.Ranges[i], p.Corrupt[i] = d, nil, "random"
		}
		p.Classes = append(p.Classes, "quic:negative_"+p.Corrupt[i])
	}
	p.Style = rapid.SampledFrom([]string{"pool", "pool", "ctor"}).Draw(t, "style")
	p.Primary = len(p.Datagrams)
	p.Events = make([]string, len(p.Datagrams))
	p.Flight = make([]int, len(p.Datagrams))
	return p
}

// c06HeaderCuts returns every header-field boundary of the first long-header packet
// of d: after the flags byte, the version, the DCID length, inside and exactly after
// the DCID, the SCID length, the SCID, the token length, the token, the Length field
// and each possible end of the packet number.
func c06HeaderCuts(d []byte) []int {
	cuts := []int{1, 5, 6}
	if len(d) < 7 {
		return cuts
	}
	pos := 6
	dl := int(d[5])
	for k := 1; k <= dl; k++ {
		cuts = append(cuts, pos+k)
	}
	pos += dl
	if pos >= len(d) {
		return cuts
	}
	sl := int(d[pos])
	cuts = append(cuts, pos+1)
	pos += 1 + sl
	cuts = append(cuts, pos)
	rd := func() int {
		if pos >= len(d) {
			return -1
		}
		n := 1 << (d[pos] >> 6)
		if pos+n > len(d) {
			return -1
		}
		v := int(d[pos] & 0x3f)
		for i := 1; i < n; i++ {
			v = v<<8 | int(d[pos+i])
		}
		pos += n
		return v
	}
	tl := rd()
	if tl < 0 {
		return cuts
	}
	cuts = append(cuts, pos)
	if tl > 0 {
		cuts = append(cuts, pos+tl/2, pos+tl)
	}
	pos += tl
	if rd() < 0 {
		return cuts
	}
	cuts = append(cuts, pos-1, pos, pos+1, pos+2, pos+3, pos+4, pos+8, pos+19, pos+20)
	var out []int
	for _, c := range cuts {
		if c >= 1 && c < len(d) {
			out = append(out, c)
		}
	}
	return out
}

// c06GenContinuation extends the history of the flow beyond its first flight: the
// session lives on after its verdict (handlePkt compacts it and keeps it for 5 s),
// so retransmitted Initials, junk and a second connection attempt on the same
// 5-tuple reach it later — e.g. when the UDP endpoint was torn down in between.
func c06GenContinuation(t *rapid.T, p *c06QuicPlan, secondAttempt bool) {
	p.Compact = rapid.IntRange(0, 5).Draw(t, "compact") != 5
	var clean []int
	for i := 0; i < p.Primary; i++ {
		if p.Corrupt[i] == "" {
			clean = append(clean, i)
		}
	}
	add := func(d []byte, rs [][2]int, corrupt, event string, flight int) {
		p.Datagrams = append(p.Datagrams, d)
		p.Ranges = append(p.Ranges, rs)
		p.Corrupt = append(p.Corrupt, corrupt)
		p.Events = append(p.Events, event)
		p.Flight = append(p.Flight, flight)
	}
	for ph := rapid.SampledFrom([]int{0, 1, 1, 2, 2, 3}).Draw(t, "nphases"); ph > 0 && len(clean) > 0; ph-- {
		event := rapid.SampledFrom([]string{"endpoint_lost", "endpoint_lost", ""}).Draw(t, "phaseevent")
		kinds := []string{"retransmit_flight", "retransmit_flight", "retransmit_flight", "retransmit_one", "junk_trunc", "junk_random", "junk_flip", "junk_hdrcut", "junk_hdrcut"}
		if secondAttempt {
			kinds = append(kinds, "second_attempt")
		}
		kind := rapid.SampledFrom(kinds).Draw(t, "phasekind")
		p.Classes = append(p.Classes, "quic:cont_"+kind)
		if event != "" {
			p.Classes = append(p.Classes, "quic:cont_after_endpoint_lost")
		}
		switch kind {
		case "retransmit_flight":
			order := clean
			if rapid.IntRange(0, 3).Draw(t, "retransshuffle") == 3 {
				order = rapid.Permutation(clean).Draw(t, "retransorder")
			}
			for k, i := range order {
				ev := ""
				if k == 0 {
					ev = event
				}
				add(append([]byte(nil), p.Datagrams[i]...), p.Ranges[i], "", ev, 0)
			}
		case "retransmit_one":
			i := rapid.SampledFrom(clean).Draw(t, "retransone")
			add(append([]byte(nil), p.Datagrams[i]...), p.Ranges[i], "", event, 0)
		case "junk_trunc":
			d := p.Datagrams[clean[0]]
			add(append([]byte(nil), d[:rapid.IntRange(min(40, len(d)), len(d)-1).Draw(t, "junktrunc")]...), nil, "trunc", event, 0)
			p.Mutated = true
		case "junk_hdrcut":
			// an Initial cut at a header-field boundary, sent 1-3 times in a row
			d := p.Datagrams[rapid.SampledFrom(clean).Draw(t, "hdrcutwhich")]
			cut := rapid.SampledFrom(c06HeaderCuts(d)).Draw(t, "hdrcutat")
			for n, ev := rapid.IntRange(1, 3).Draw(t, "hdrcuttimes"), event; n > 0; n-- {
				add(append([]byte(nil), d[:cut]...), nil, "hdrcut", ev, 0)
				ev = ""
			}
			p.Mutated = true
		case "junk_random":
			add(c06Bytes(t, "junkrandom", 1, 1300), nil, "random", event, 0)
			p.Mutated = true
		case "junk_flip":
			d := append([]byte(nil), p.Datagrams[rapid.SampledFrom(clean).Draw(t, "junkflipwhich")]...)
			d[rapid.IntRange(min(60, len(d)-1), len(d)-1).Draw(t, "junkflipbyte")] ^= 0x10
			add(d, nil, "flip", event, 0)
			p.Mutated = true
		case "second_attempt":
			q := c06GenQuicPlan(t)
			p.Want2, p.Hello2 = q.Want, q.Hello
			for k := 0; k < q.Primary; k++ {
				ev := ""
				if k == 0 {
					ev = event
				}
				c := q.Corrupt[k]
				add(q.Datagrams[k], q.Ranges[k], c, ev, 1)
			}
			secondAttempt = false
		}
	}
}

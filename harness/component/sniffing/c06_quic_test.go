package sniffing

// C06 — datagram half: QUIC v1/v2 client Initials built by the independent encoder
// of c06_quicenc_test.go (CRYPTO frames split / reordered / overlapping / padded /
// spread over packets and datagrams) fed to the packet sniffer the way
// control.handlePkt does (pool-style: created empty, AppendData + SniffUdp per
// datagram, held while NeedMore, flushed on completion).

import (
	"bytes"
	"errors"
	"fmt"
	"runtime/debug"
	"testing"
	"time"

	"pgregory.net/rapid"
)

type c06QuicResult struct {
	FoundAt     int // index of the datagram whose SniffUdp returned the name (-1 = never)
	CompleteAt  int // index of the datagram that completes the ClientHello (-1 = never)
	Held        int // datagrams still withheld at the end
	Compactions int
	Outcome     string
	Excluded    []string
	NonTrivial  bool
}

// c06RunQuic feeds the datagrams like control.handlePkt and checks every step.
func c06RunQuic(p *c06QuicPlan, res *c06QuicResult) (fail string) {
	defer func() {
		if r := recover(); r != nil {
			fail = fmt.Sprintf("PANIC in sniffing code: %v\n%s", r, debug.Stack())
		}
	}()
	res.FoundAt, res.CompleteAt = -1, -1
	orig := make([][]byte, len(p.Datagrams))
	for i, d := range p.Datagrams {
		orig[i] = append([]byte(nil), d...)
	}
	v2Known := p.Version == c06QuicV2 && vkKnown("F-C06-1")
	if v2Known {
		res.Excluded = append(res.Excluded, "F-C06-1")
	}
	var s *Sniffer
	nfwd := 0 // datagrams handed to the relay so far (handlePkt copies them out of Data() at that moment)
	var covered [][2]int
	poisoned := false  // a corrupted datagram has been fed since the session was last fresh: no must-find
	skip, base := 1, 0 // Data()[skip+j-base] is ingress datagram j for j >= base (base moves with every compaction)
	for i, d := range p.Datagrams {
		if len(p.Flight) > i && p.Flight[i] != 0 {
			return "HARNESS: datagrams of a second connection belong to another session and are not generated for this unit"
		}
		if s == nil {
			if p.Style == "ctor" {
				s = NewPacketSniffer(d, 5*time.Second)
				skip = 0
			} else {
				s = NewPacketSniffer(nil, 5*time.Second)
				s.AppendData(d)
			}
		} else {
			s.AppendData(d)
		}
		name, err := s.SniffUdp()
		if p.Corrupt[i] != "" {
			poisoned = true
		}
		covered = append(covered, p.Ranges[i]...)
		complete := c06Covered(append([][2]int(nil), covered...), len(p.Hello))
		if complete && res.CompleteAt < base {
			res.CompleteAt = i
		}
		// result typing
		if err != nil && !IsSniffingError(err) {
			return fmt.Sprintf("datagram %d: SniffUdp error is not a sniffing error: %v", i, err)
		}
		if err != nil && name != "" {
			return fmt.Sprintf("datagram %d: SniffUdp returned both %q and %v", i, name, err)
		}
		// never a wrong name
		if name != "" && (p.Want == "" || !c06SameName(name, p.Want)) {
			return fmt.Sprintf("WRONG NAME at datagram %d: sniffed %q, the CRYPTO stream carries %q", i, name, p.Want)
		}
		if name != "" && res.FoundAt < 0 {
			res.FoundAt = i
		}
		if res.FoundAt >= 0 && (err != nil || name == "") {
			return fmt.Sprintf("datagram %d: name was found at datagram %d but SniffUdp now returns %q, %v", i, res.FoundAt, name, err)
		}
		// Data() is the ingress sequence since the last compaction, byte for byte
		data := s.Data()
		if len(data) != skip+i-base+1 {
			return fmt.Sprintf("datagram %d: Data() has %d entries, want %d (session fresh since datagram %d)", i, len(data), skip+i-base+1, base)
		}
		if skip == 1 && len(data[0]) != 0 {
			return fmt.Sprintf("datagram %d: Data()[0] of a pool-style sniffer has %d bytes, want the empty sentinel", i, len(data[0]))
		}
		for j := base; j <= i; j++ {
			if !bytes.Equal(data[skip+j-base], orig[j]) {
				k := 0
				for k < len(orig[j]) && k < len(data[skip+j-base]) && orig[j][k] == data[skip+j-base][k] {
					k++
				}
				return fmt.Sprintf("REPLAY: after sniffing datagram %d, Data()[%d] differs from ingress datagram %d at byte %d (len %d vs %d)", i, skip+j-base, j, k, len(data[skip+j-base]), len(orig[j]))
			}
		}
		if !bytes.Equal(d, orig[i]) {
			return fmt.Sprintf("datagram %d: the caller's input slice was modified", i)
		}
		// must find / must keep waiting (while everything fed to the fresh session is an intact Initial)
		if !poisoned && !v2Known {
			if complete && p.Want != "" && res.FoundAt < 0 {
				return fmt.Sprintf("MUST FIND: after datagram %d the CRYPTO stream (session fresh since datagram %d) holds the complete ClientHello (%d bytes, %d frames in %d packets, version %#x) carrying %q; got %q, %v",
					i, base, len(p.Hello), p.NFrames, p.NPackets, p.Version, p.Want, name, err)
			}
			if !complete && p.Want != "" && res.FoundAt < 0 && !s.NeedMore() {
				return fmt.Sprintf("GAVE UP: after datagram %d the ClientHello (carrying %q) is still incomplete but NeedMore() is false (err %v): handlePkt would stop waiting and route without the name", i, p.Want, err)
			}
		}
		// handlePkt: hold while NeedMore; otherwise hand on everything buffered, then the
		// current datagram, and compact the session (it lives on as light-weight flow state).
		if s.NeedMore() {
			continue
		}
		nfwd = i + 1
		if p.Compact {
			s.CompactPacketState()
			if dd := s.Data(); len(dd) != 1 || len(dd[0]) != 0 {
				return fmt.Sprintf("datagram %d: after CompactPacketState Data() has %d entries / %d bytes, want the empty sentinel", i, len(dd), len(dd[0]))
			}
			if s.NeedMore() {
				return fmt.Sprintf("datagram %d: NeedMore() is true right after CompactPacketState", i)
			}
			res.Compactions++
			base, skip, covered, poisoned = i+1, 1, nil, false
		}
	}
	res.Held = len(orig) - nfwd
	switch {
	case res.FoundAt >= 0:
		res.Outcome = "found"
	case v2Known:
		res.Outcome = "v2_not_recognised(known)"
	case poisoned:
		res.Outcome = "not_found_after_corruption"
	case p.Want == "":
		res.Outcome = "no_name_carried"
	default:
		res.Outcome = "incomplete"
	}
	// nothing may stay withheld once the outcome is final: the hello is complete, so
	// no further datagram can change the verdict.
	if !poisoned && !v2Known && res.CompleteAt >= base && res.Held > 0 {
		if p.Want == "" && vkKnown("F-C06-3") && !c06NoExclusion {
			res.Excluded = append(res.Excluded, "F-C06-3")
		} else if p.NoExt && vkKnown("F-C06-4") && !c06NoExclusion {
			res.Excluded = append(res.Excluded, "F-C06-4")
		} else {
			return fmt.Sprintf("WITHHELD: the ClientHello is complete after datagram %d (name carried: %q) but NeedMore() stays true: %d of %d datagrams are never handed to the relay",
				res.CompleteAt, p.Want, res.Held, len(p.Datagrams))
		}
	}
	if err := s.Close(); err != nil {
		return fmt.Sprintf("Close: %v", err)
	}
	_ = s.Close()
	res.NonTrivial = p.Mutated || p.NFrames >= 2 || len(p.Datagrams) >= 2
	return ""
}

func c06QuicSummary(p *c06QuicPlan, res *c06QuicResult) map[string]any {
	sizes := make([]int, len(p.Datagrams))
	for i, d := range p.Datagrams {
		sizes[i] = len(d)
	}
	return map[string]any{"version": fmt.Sprintf("%#x", p.Version), "dcid": fmt.Sprintf("%x", p.DCID), "want": p.Want, "hello_len": len(p.Hello),
		"frames": p.NFrames, "packets": p.NPackets, "datagram_sizes": sizes, "ranges": fmt.Sprint(p.Ranges), "corrupt": p.Corrupt, "style": p.Style,
		"reordered": p.Reordered, "overlap": p.Overlap, "found_at": res.FoundAt, "complete_at": res.CompleteAt, "held": res.Held, "outcome": res.Outcome}
}

func TestC06_Quic(t *testing.T) {
	rapid.Check(t, func(rt *rapid.T) {
		p := c06GenQuicPlan(rt)
		c06GenContinuation(rt, p, false)
		res := &c06QuicResult{}
		if fail := c06RunQuic(p, res); fail != "" {
			dg := ""
			for i, d := range p.Datagrams {
				dg += fmt.Sprintf("\n datagram %d (%d bytes): %x...", i, len(d), d[:min(len(d), 48)])
			}
			rt.Fatalf("%s\ncase: %v%s", fail, c06QuicSummary(p, res), dg)
		}
		for _, id := range res.Excluded {
			vkExcluded("C06.quic", id)
		}
		classes := append([]string{fmt.Sprintf("version:%#x", p.Version), "outcome:" + res.Outcome, "style:" + p.Style,
			fmt.Sprintf("datagrams:%d", min(len(p.Datagrams), 5)), fmt.Sprintf("frames:%d", min(p.NFrames, 6)), fmt.Sprintf("reordered:%v", p.Reordered),
			fmt.Sprintf("overlap:%v", p.Overlap), fmt.Sprintf("found_before_complete:%v", res.FoundAt >= 0 && (res.CompleteAt < 0 || res.FoundAt < res.CompleteAt)),
			fmt.Sprintf("dcidlen:%d", len(p.DCID)/4*4), fmt.Sprintf("compactions:%d", min(res.Compactions, 3)),
			fmt.Sprintf("history_after_first_flight:%d", min(len(p.Datagrams)-p.Primary, 4))}, p.Classes...)
		key := ""
		if res.NonTrivial {
			h := ""
			for _, d := range p.Datagrams {
				h += fmt.Sprintf("%x|", d[:min(len(d), 64)])
			}
			key = p.Style + h + fmt.Sprint(p.Ranges)
		}
		vkCase("C06.quic", key, func() any { return c06QuicSummary(p, res) }, classes...)
	})
}

// ---------------------------------------------------------------- findings

func c06RFCDatagram(version uint32, frames []byte) []byte {
	payload := append(append([]byte(nil), frames...), make([]byte, 1162-len(frames))...)
	pkt, _ := c06QuicSealInitial(c06QuicPacket{Version: version, DCID: c06MustHex("8394c8f03e515708"), PN: 2, PNLen: 4, LenSz: 2, Payload: payload})
	return pkt
}

// TestC06_Finding_FC061: the client Initial of RFC 9369 Appendix A.2 (QUIC v2,
// ClientHello with SNI example.com) taken verbatim from the RFC must be recognised.
func TestC06_Finding_FC061(t *testing.T) {
	for _, tc := range []struct {
		name string
		pkt  []byte
	}{{"RFC9001-A.2(v1)", c06MustHex(c06RFC9001ClientInitialHex)}, {"RFC9369-A.2(v2)", c06MustHex(c06RFC9369ClientInitialHex)}} {
		s := NewPacketSniffer(tc.pkt, time.Second)
		d, err := s.SniffUdp()
		likely := IsLikelyQuicInitialPacket(tc.pkt)
		_ = s.Close()
		v2 := tc.name == "RFC9369-A.2(v2)"
		ok := err == nil && d == "example.com" && likely
		known := vkKnown("F-C06-1")
		switch {
		case ok && v2 && known:
			t.Logf("F-C06-1 is listed as known but no longer reproduces")
		case ok:
		case v2 && known:
			t.Logf("F-C06-1 reproduced: %s -> %q, %v, IsLikelyQuicInitialPacket=%v", tc.name, d, err, likely)
			vkKnownReproduced("F-C06-1")
		default:
			t.Fatalf("%s: published client Initial (SNI example.com) is not recognised: got %q, %v, IsLikelyQuicInitialPacket=%v", tc.name, d, err, likely)
		}
		vkCase("C06.findings", "F-C06-1|"+tc.name, func() any {
			return map[string]any{"vector": tc.name, "name": d, "err": fmt.Sprint(err), "likely": likely}
		}, "F-C06-1:"+tc.name)
	}
}

// TestC06_Finding_FC063: a complete ClientHello that carries no server_name (the
// RFC 9001 A.2 hello with the SNI extension retyped to an unknown extension) in a
// single Initial. The verdict is final with this datagram, so the sniffer must not
// ask for more: handlePkt withholds every datagram while NeedMore() is true.
func TestC06_Finding_FC063(t *testing.T) {
	frame := c06MustHex(c06RFCClientHelloFrameHex)
	i := bytes.Index(frame, []byte("\x00\x00\x00\x10\x00\x0e\x00\x00\x0bexample.com"))
	if i < 0 {
		t.Fatal("HARNESS BUG: SNI extension not found in the RFC hello")
	}
	frame[i], frame[i+1] = 0xfa, 0xfa // server_name -> GREASE extension type, same body
	p := &c06QuicPlan{Version: c06QuicV1, DCID: c06MustHex("8394c8f03e515708"), Hello: frame[4:], Want: "", Style: "pool",
		Datagrams: [][]byte{c06RFCDatagram(c06QuicV1, frame)}, Ranges: [][][2]int{{{0, len(frame) - 4}}}, Corrupt: []string{""}, NFrames: 1, NPackets: 1}
	if r := c06RefHello(p.Hello); !r.WellFormed || r.HasName {
		t.Fatalf("HARNESS BUG: reference does not accept the SNI-less hello: %+v", r)
	}
	res := &c06QuicResult{}
	c06NoExclusion = true
	fail := c06RunQuic(p, res)
	c06NoExclusion = false
	known := vkKnown("F-C06-3")
	switch {
	case fail == "" && known:
		t.Logf("F-C06-3 is listed as known but no longer reproduces")
	case fail == "":
	case known && errors.Is(errWithheld(fail), errC06Withheld):
		t.Logf("F-C06-3 reproduced: %s", fail)
		vkKnownReproduced("F-C06-3")
	default:
		t.Fatalf("F-C06-3: %s", fail)
	}
	vkCase("C06.findings", "F-C06-3", func() any { return map[string]any{"finding": "F-C06-3", "result": fail} }, "F-C06-3")
}

var errC06Withheld = errors.New("withheld")

func errWithheld(fail string) error {
	if len(fail) >= 8 && fail[:8] == "WITHHELD" {
		return errC06Withheld
	}
	return errors.New(fail)
}

// TestC06_Finding_FC064: a complete, minimal ClientHello that ends after the
// compression methods (no extension block) in a single Initial. It can never yield
// a name, so the verdict is final and the sniffer must not ask for more.
func TestC06_Finding_FC064(t *testing.T) {
	body := append([]byte{3, 3}, make([]byte, 32)...)
	body = append(body, 0, 0, 2, 0x13, 0x01, 1, 0)
	hello := append([]byte{1, 0, 0, byte(len(body))}, body...)
	if r := c06RefHello(hello); !r.WellFormed || !r.NoExt {
		t.Fatalf("HARNESS BUG: reference does not accept the extension-less hello: %+v", r)
	}
	p := &c06QuicPlan{Version: c06QuicV1, DCID: c06MustHex("8394c8f03e515708"), Hello: hello, Want: "", NoExt: true, Style: "pool",
		Datagrams: [][]byte{c06RFCDatagram(c06QuicV1, c06CryptoFrame(0, hello, 0, 0))}, Ranges: [][][2]int{{{0, len(hello)}}}, Corrupt: []string{""}, NFrames: 1, NPackets: 1}
	res := &c06QuicResult{}
	c06NoExclusion = true
	fail := c06RunQuic(p, res)
	c06NoExclusion = false
	known := vkKnown("F-C06-4")
	switch {
	case fail == "" && known:
		t.Logf("F-C06-4 is listed as known but no longer reproduces")
	case fail == "":
	case known && errors.Is(errWithheld(fail), errC06Withheld):
		t.Logf("F-C06-4 reproduced: %s", fail)
		vkKnownReproduced("F-C06-4")
	default:
		t.Fatalf("F-C06-4: %s", fail)
	}
	vkCase("C06.findings", "F-C06-4", func() any {
		return map[string]any{"finding": "F-C06-4", "hello_hex": fmt.Sprintf("%x", hello), "result": fail}
	}, "F-C06-4")
}

package sniffing

// C06 — datagram half: QUIC v1/v2 client Initials built by the independent encoder
// of c06_quicenc_test.go (CRYPTO frames split / reordered / overlapping / padded /
// spread over packets and datagrams) fed to the packet sniffer the way
// control.handlePkt does (pool-style: created empty, AppendData + SniffUdp per
// datagram, held while NeedMore, flushed on completion).

import (
	"bytes"
	"errors"
	"fmt"
	"runtime/debug"
	"sort"
	"testing"
	"time"

	"pgregory.net/rapid"
)

type c06Piece struct {
	Off  int
	Data []byte
}

type c06QuicPlan struct {
	Version   uint32
	DCID      []byte
	SCID      []byte
	Hello     []byte
	Want      string
	Datagrams [][]byte
	// per datagram: CRYPTO ranges carried by its intact Initial packets
	Ranges    [][][2]int
	Corrupt   []string // per datagram: "" | "flip" | "trunc" | "random"
	Style     string   // "pool" (NewPacketSniffer(nil)+AppendData) | "ctor" (NewPacketSniffer(first))
	NPackets  int
	NFrames   int
	Reordered bool
	Overlap   bool
	Classes   []string
	Mutated   bool
}

// c06Covered reports whether [0,n) is covered by the union of the ranges.
func c06Covered(rs [][2]int, n int) bool {
	sort.Slice(rs, func(i, j int) bool { return rs[i][0] < rs[j][0] })
	end := 0
	for _, r := range rs {
		if r[0] > end {
			return false
		}
		if r[1] > end {
			end = r[1]
		}
	}
	return end >= n
}

func c06GenQuicPlan(t *rapid.T) *c06QuicPlan {
	p := &c06QuicPlan{}
	p.Version = rapid.SampledFrom([]uint32{c06QuicV1, c06QuicV1, c06QuicV1, c06QuicV2}).Draw(t, "version")
	dl := rapid.IntRange(8, 20).Draw(t, "dcidlen")
	if rapid.IntRange(0, 11).Draw(t, "shortdcid") == 0 {
		dl = rapid.IntRange(0, 7).Draw(t, "dcidlen_after_retry") // only legal after a Retry; keys still come from it
		p.Classes = append(p.Classes, "quic:dcid_lt8")
	}
	p.DCID = c06Bytes(t, "dcid", dl, dl)
	sl := rapid.SampledFrom([]int{0, 0, 8, 20, 5}).Draw(t, "scidlen")
	p.SCID = c06Bytes(t, "scid", sl, sl)
	var token []byte
	if rapid.IntRange(0, 4).Draw(t, "hastoken") == 0 {
		token = c06Bytes(t, "token", 1, 90)
		p.Classes = append(p.Classes, "quic:token")
	}
	if rapid.IntRange(0, 9).Draw(t, "realhello") == 0 {
		name := rapid.SampledFrom(c06RealNames).Draw(t, "realname")
		p.Hello, p.Want = c06RealQuicHello(name), name
		if len(p.Hello) < 50 {
			t.Fatalf("HARNESS BUG: crypto/tls produced no QUIC ClientHello")
		}
		p.Classes = append(p.Classes, "quic:hello_from_crypto_tls")
	} else {
		h := c06GenHello(t, true)
		p.Hello, p.Want = h.HS, h.Want
		p.Classes = append(p.Classes, h.Classes...)
	}
	n := len(p.Hello)

	// 1. cut the hello into pieces (no piece above 1000 bytes)
	ncuts := rapid.SampledFrom([]int{0, 0, 1, 2, 3, 5, 8}).Draw(t, "ncuts")
	cutset := map[int]bool{}
	for i := 0; i < ncuts && n > 1; i++ {
		c := rapid.IntRange(1, n-1).Draw(t, "cut")
		if rapid.IntRange(0, 3).Draw(t, "cutearly") == 0 {
			c = rapid.IntRange(1, min(n-1, 140)).Draw(t, "cutinhead")
		}
		cutset[c] = true
	}
	var cuts []int
	for c := range cutset {
		cuts = append(cuts, c)
	}
	sort.Ints(cuts)
	cuts = append(cuts, n)
	var pieces []c06Piece
	prev := 0
	for _, c := range cuts {
		for c-prev > 1000 {
			pieces = append(pieces, c06Piece{prev, p.Hello[prev : prev+1000]})
			prev += 1000
		}
		pieces = append(pieces, c06Piece{prev, p.Hello[prev:c]})
		prev = c
	}
	// 2. overlapping / duplicated extra pieces
	for i := rapid.SampledFrom([]int{0, 0, 0, 1, 2}).Draw(t, "noverlaps"); i > 0; i-- {
		a := rapid.IntRange(0, n-1).Draw(t, "ovstart")
		b := min(n, a+rapid.IntRange(1, 300).Draw(t, "ovlen"))
		pieces = append(pieces, c06Piece{a, p.Hello[a:b]})
		p.Overlap = true
	}
	// 3. order
	if len(pieces) > 1 && rapid.IntRange(0, 2).Draw(t, "reorder") != 0 {
		perm := rapid.Permutation(pieces).Draw(t, "pieceorder")
		for i := range perm {
			if perm[i].Off != pieces[i].Off {
				p.Reordered = true
			}
		}
		pieces = perm
	}
	p.NFrames = len(pieces)

	// 4. pack pieces into packets, packets into datagrams
	type pkt struct {
		frames  []byte
		ranges  [][2]int
		pn      uint64
		pnLen   int
		tokLen  int
		lenSz   int
		padding int
	}
	noise := func(label string) []byte {
		switch rapid.IntRange(0, 5).Draw(t, label) {
		case 0:
			return []byte{0x01} // PING
		case 1:
			return make([]byte, rapid.IntRange(1, 40).Draw(t, "padrun")) // PADDING run
		case 2:
			return []byte{0x00, 0x01, 0x00}
		}
		return nil
	}
	var pkts []*pkt
	cur := &pkt{}
	fill := rapid.SampledFrom([]int{1100, 1100, 600, 300, 120}).Draw(t, "packetfill")
	for _, pc := range pieces {
		f := c06CryptoFrame(uint64(pc.Off), pc.Data, rapid.SampledFrom([]int{0, 0, 0, 2, 4, 8}).Draw(t, "offsz"), rapid.SampledFrom([]int{0, 0, 2, 4}).Draw(t, "lensz"))
		if len(cur.frames) > 0 && len(cur.frames)+len(f) > fill {
			pkts = append(pkts, cur)
			cur = &pkt{}
		}
		cur.frames = append(cur.frames, noise("noisebefore")...)
		cur.frames = append(cur.frames, f...)
		cur.ranges = append(cur.ranges, [2]int{pc.Off, pc.Off + len(pc.Data)})
		if rapid.IntRange(0, 3).Draw(t, "closepacket") == 0 {
			cur.frames = append(cur.frames, noise("noiseafter")...)
			pkts = append(pkts, cur)
			cur = &pkt{}
		}
	}
	if len(cur.frames) > 0 {
		pkts = append(pkts, cur)
	}
	if rapid.IntRange(0, 9).Draw(t, "pingonlypacket") == 0 {
		// a packet without any CRYPTO frame (PING + PADDING only), anywhere in the flight
		at := rapid.IntRange(0, len(pkts)).Draw(t, "pingonlyat")
		pkts = append(pkts[:at], append([]*pkt{{frames: []byte{0x01, 0, 0, 0, 0}}}, pkts[at:]...)...)
		p.Classes = append(p.Classes, "quic:packet_without_crypto")
	}
	pn := uint64(rapid.IntRange(0, 3).Draw(t, "pn0"))
	for _, k := range pkts {
		k.pnLen = rapid.IntRange(1, 4).Draw(t, "pnlen")
		if k.pnLen == 4 && rapid.IntRange(0, 3).Draw(t, "bigpn") == 0 {
			pn += uint64(rapid.IntRange(1<<16, 1<<30).Draw(t, "pnjump"))
		}
		if k.pnLen < 4 && pn >= 1<<(8*uint(k.pnLen)) {
			k.pnLen = 4
		}
		k.pn = pn
		pn += uint64(rapid.IntRange(1, 3).Draw(t, "pnstep"))
		k.tokLen = rapid.SampledFrom([]int{0, 0, 2, 4}).Draw(t, "toklensz")
		k.lenSz = rapid.SampledFrom([]int{2, 2, 4, 8}).Draw(t, "lengthsz")
		for len(k.frames)+k.pnLen < 4 {
			k.frames = append(k.frames, 0)
		}
	}
	p.NPackets = len(pkts)
	seal := func(k *pkt, pad int, padAt int) []byte {
		pl := k.frames
		if pad > 0 {
			// padAt: 0 = before the frames, 1 = after them
			z := make([]byte, pad)
			if padAt == 0 {
				pl = append(z, k.frames...)
			} else {
				pl = append(append([]byte(nil), k.frames...), z...)
			}
		}
		b, _ := c06QuicSealInitial(c06QuicPacket{Version: p.Version, DCID: p.DCID, SCID: p.SCID, Token: token, TokLenSz: k.tokLen, LenSz: k.lenSz, PN: k.pn, PNLen: k.pnLen, Payload: pl})
		return b
	}
	for i := 0; i < len(pkts); {
		group := []*pkt{pkts[i]}
		i++
		if i < len(pkts) && rapid.IntRange(0, 3).Draw(t, "coalesce") == 0 && len(group[0].frames)+len(pkts[i].frames) < 1250 {
			group = append(group, pkts[i])
			i++
			p.Classes = append(p.Classes, "quic:coalesced_initials")
		}
		var dg []byte
		var rs [][2]int
		size := 0
		for _, k := range group {
			size += len(seal(k, 0, 0))
			rs = append(rs, k.ranges...)
		}
		target := rapid.SampledFrom([]int{1200, 1200, 1252, 1350, 1452}).Draw(t, "datagramsize")
		padMode := rapid.IntRange(0, 3).Draw(t, "padmode")
		padIdx := rapid.IntRange(0, len(group)-1).Draw(t, "padpacket")
		need := max(0, target-size)
		for j, k := range group {
			pad := 0
			if j == padIdx && padMode != 3 {
				pad = need
			}
			dg = append(dg, seal(k, pad, padMode%2)...)
		}
		if padMode == 3 && need > 0 {
			// pad the datagram with a coalesced 0-RTT / Handshake packet instead of PADDING frames
			body := c06Bytes(t, "coalescedother", 24, 24)
			hdrLen := 1 + 4 + 1 + len(p.DCID) + 1 + len(p.SCID) + 2
			if need > hdrLen+len(body) {
				body = append(body, bytes.Repeat([]byte{0x5a}, need-hdrLen-len(body))...)
			}
			dg = append(dg, c06QuicOtherLongPacket(p.Version, rapid.SampledFrom([]string{"0rtt", "handshake"}).Draw(t, "othertype"), p.DCID, p.SCID, body)...)
			p.Classes = append(p.Classes, "quic:padded_by_coalesced_packet")
		}
		p.Datagrams = append(p.Datagrams, dg)
		p.Ranges = append(p.Ranges, rs)
		p.Corrupt = append(p.Corrupt, "")
	}
	if len(p.Datagrams) > 1 && rapid.IntRange(0, 7).Draw(t, "retransmit") == 0 {
		i := rapid.IntRange(0, len(p.Datagrams)-1).Draw(t, "retransmitwhich")
		at := rapid.IntRange(0, len(p.Datagrams)).Draw(t, "retransmitat")
		ins := func(s [][]byte, v []byte) [][]byte { return append(s[:at:at], append([][]byte{v}, s[at:]...)...) }
		p.Datagrams = ins(p.Datagrams, append([]byte(nil), p.Datagrams[i]...))
		p.Ranges = append(p.Ranges[:at:at], append([][][2]int{p.Ranges[i]}, p.Ranges[at:]...)...)
		p.Corrupt = append(p.Corrupt[:at:at], append([]string{""}, p.Corrupt[at:]...)...)
		p.Classes = append(p.Classes, "quic:retransmitted_datagram")
	}
	// 5. negatives: corrupt one datagram or insert a random one
	if rapid.IntRange(0, 5).Draw(t, "negative") == 0 {
		p.Mutated = true
		i := rapid.IntRange(0, len(p.Datagrams)-1).Draw(t, "corruptwhich")
		switch kind := rapid.SampledFrom([]string{"flip", "flip", "trunc", "random"}).Draw(t, "corruptkind"); kind {
		case "flip":
			d := append([]byte(nil), p.Datagrams[i]...)
			j := rapid.IntRange(0, len(d)-1).Draw(t, "flipbyte")
			if rapid.Bool().Draw(t, "flipinheader") {
				j = rapid.IntRange(0, min(len(d)-1, 60)).Draw(t, "flipheaderbyte")
			}
			d[j] ^= 1 << uint(rapid.IntRange(0, 7).Draw(t, "flipbit"))
			p.Datagrams[i], p.Ranges[i], p.Corrupt[i] = d, nil, "flip"
		case "trunc":
			p.Datagrams[i] = p.Datagrams[i][:rapid.IntRange(0, len(p.Datagrams[i])-1).Draw(t, "truncat")]
			p.Ranges[i], p.Corrupt[i] = nil, "trunc"
		case "random":
			d := c06Bytes(t, "randomdatagram", 0, 1300)
			if len(d) > 6 && rapid.Bool().Draw(t, "looksinitial") {
				d[0] = 0xc0 | d[0]&0x0f
				d[1], d[2], d[3], d[4] = 0, 0, 0, 1
			}
			p.Datagrams[i], p.Ranges[i], p.Corrupt[i] = d, nil, "random"
		}
		p.Classes = append(p.Classes, "quic:negative_"+p.Corrupt[i])
	}
	p.Style = rapid.SampledFrom([]string{"pool", "pool", "ctor"}).Draw(t, "style")
	return p
}

type c06QuicResult struct {
	FoundAt    int // index of the datagram whose SniffUdp returned the name (-1 = never)
	CompleteAt int // index of the datagram that completes the ClientHello (-1 = never)
	Held       int // datagrams still withheld at the end
	Outcome    string
	Excluded   []string
	NonTrivial bool
}

// c06RunQuic feeds the datagrams like control.handlePkt and checks every step.
func c06RunQuic(p *c06QuicPlan, res *c06QuicResult) (fail string) {
	defer func() {
		if r := recover(); r != nil {
			fail = fmt.Sprintf("PANIC in sniffing code: %v\n%s", r, debug.Stack())
		}
	}()
	res.FoundAt, res.CompleteAt = -1, -1
	orig := make([][]byte, len(p.Datagrams))
	for i, d := range p.Datagrams {
		orig[i] = append([]byte(nil), d...)
	}
	v2Known := p.Version == c06QuicV2 && vkKnown("F-C06-1")
	if v2Known {
		res.Excluded = append(res.Excluded, "F-C06-1")
	}
	var s *Sniffer
	var forwarded [][]byte // what the relay has been handed so far (copies, like handlePkt makes)
	var covered [][2]int
	poisoned := false // a corrupted datagram has been fed: no must-find from here on
	skip := 1
	for i, d := range p.Datagrams {
		if s == nil {
			if p.Style == "ctor" {
				s = NewPacketSniffer(d, 5*time.Second)
				skip = 0
			} else {
				s = NewPacketSniffer(nil, 5*time.Second)
				s.AppendData(d)
			}
		} else {
			s.AppendData(d)
		}
		name, err := s.SniffUdp()
		if p.Corrupt[i] != "" {
			poisoned = true
		}
		covered = append(covered, p.Ranges[i]...)
		complete := c06Covered(append([][2]int(nil), covered...), len(p.Hello))
		if complete && res.CompleteAt < 0 {
			res.CompleteAt = i
		}
		// result typing
		if err != nil && !IsSniffingError(err) {
			return fmt.Sprintf("datagram %d: SniffUdp error is not a sniffing error: %v", i, err)
		}
		if err != nil && name != "" {
			return fmt.Sprintf("datagram %d: SniffUdp returned both %q and %v", i, name, err)
		}
		// never a wrong name
		if name != "" && (p.Want == "" || !c06SameName(name, p.Want)) {
			return fmt.Sprintf("WRONG NAME at datagram %d: sniffed %q, the CRYPTO stream carries %q", i, name, p.Want)
		}
		if name != "" && res.FoundAt < 0 {
			res.FoundAt = i
		}
		if res.FoundAt >= 0 && (err != nil || name == "") {
			return fmt.Sprintf("datagram %d: name was found at datagram %d but SniffUdp now returns %q, %v", i, res.FoundAt, name, err)
		}
		// Data() is the ingress sequence, byte for byte (header protection restored)
		data := s.Data()
		if len(data) != skip+i+1 {
			return fmt.Sprintf("datagram %d: Data() has %d entries, want %d", i, len(data), skip+i+1)
		}
		if skip == 1 && len(data[0]) != 0 {
			return fmt.Sprintf("datagram %d: Data()[0] of a pool-style sniffer has %d bytes, want the empty sentinel", i, len(data[0]))
		}
		for j := 0; j <= i; j++ {
			if !bytes.Equal(data[skip+j], orig[j]) {
				k := 0
				for k < len(orig[j]) && k < len(data[skip+j]) && orig[j][k] == data[skip+j][k] {
					k++
				}
				return fmt.Sprintf("REPLAY: after sniffing datagram %d, Data()[%d] differs from ingress datagram %d at byte %d (len %d vs %d)", i, skip+j, j, k, len(data[skip+j]), len(orig[j]))
			}
		}
		if !bytes.Equal(d, orig[i]) {
			return fmt.Sprintf("datagram %d: the caller's input slice was modified", i)
		}
		// must find / must keep waiting
		if !poisoned && !v2Known {
			if complete && p.Want != "" && res.FoundAt < 0 {
				return fmt.Sprintf("MUST FIND: after datagram %d the CRYPTO stream holds the complete ClientHello (%d bytes, %d frames in %d packets, version %#x) carrying %q; got %q, %v",
					i, len(p.Hello), p.NFrames, p.NPackets, p.Version, p.Want, name, err)
			}
			if !complete && res.FoundAt < 0 && !s.NeedMore() {
				return fmt.Sprintf("GAVE UP: after datagram %d the ClientHello is still incomplete but NeedMore() is false (err %v): handlePkt would stop waiting and route without the name", i, err)
			}
		}
		// handlePkt: hold while NeedMore, otherwise flush everything buffered before the current datagram, then the current one
		if s.NeedMore() {
			continue
		}
		from := len(forwarded)
		for j := from; j <= i; j++ {
			forwarded = append(forwarded, append([]byte(nil), data[skip+j]...))
		}
	}
	res.Held = len(p.Datagrams) - len(forwarded)
	switch {
	case res.FoundAt >= 0:
		res.Outcome = "found"
	case v2Known:
		res.Outcome = "v2_not_recognised(known)"
	case poisoned:
		res.Outcome = "not_found_after_corruption"
	case p.Want == "":
		res.Outcome = "no_name_carried"
	default:
		res.Outcome = "incomplete"
	}
	// nothing may stay withheld once the outcome is final: the hello is complete, so
	// no further datagram can change the verdict.
	if !poisoned && !v2Known && res.CompleteAt >= 0 && res.Held > 0 {
		if p.Want == "" && vkKnown("F-C06-3") && !c06NoExclusion {
			res.Excluded = append(res.Excluded, "F-C06-3")
		} else {
			return fmt.Sprintf("WITHHELD: the ClientHello is complete after datagram %d (name carried: %q) but NeedMore() stays true: %d of %d datagrams are never handed to the relay",
				res.CompleteAt, p.Want, res.Held, len(p.Datagrams))
		}
	}
	for j, f := range forwarded {
		if !bytes.Equal(f, orig[j]) {
			return fmt.Sprintf("REPLAY: relayed datagram %d differs from ingress datagram %d", j, j)
		}
	}
	if err := s.Close(); err != nil {
		return fmt.Sprintf("Close: %v", err)
	}
	_ = s.Close()
	res.NonTrivial = p.Mutated || p.NFrames >= 2 || len(p.Datagrams) >= 2
	return ""
}

func c06QuicSummary(p *c06QuicPlan, res *c06QuicResult) map[string]any {
	sizes := make([]int, len(p.Datagrams))
	for i, d := range p.Datagrams {
		sizes[i] = len(d)
	}
	return map[string]any{"version": fmt.Sprintf("%#x", p.Version), "dcid": fmt.Sprintf("%x", p.DCID), "want": p.Want, "hello_len": len(p.Hello),
		"frames": p.NFrames, "packets": p.NPackets, "datagram_sizes": sizes, "ranges": fmt.Sprint(p.Ranges), "corrupt": p.Corrupt, "style": p.Style,
		"reordered": p.Reordered, "overlap": p.Overlap, "found_at": res.FoundAt, "complete_at": res.CompleteAt, "held": res.Held, "outcome": res.Outcome}
}

func TestC06_Quic(t *testing.T) {
	rapid.Check(t, func(rt *rapid.T) {
		p := c06GenQuicPlan(rt)
		res := &c06QuicResult{}
		if fail := c06RunQuic(p, res); fail != "" {
			dg := ""
			for i, d := range p.Datagrams {
				if len(p.Datagrams) <= 2 {
					dg += fmt.Sprintf("\n datagram %d: %x", i, d)
				}
			}
			rt.Fatalf("%s\ncase: %v%s", fail, c06QuicSummary(p, res), dg)
		}
		for _, id := range res.Excluded {
			vkExcluded("C06.quic", id)
		}
		classes := append([]string{fmt.Sprintf("version:%#x", p.Version), "outcome:" + res.Outcome, "style:" + p.Style,
			fmt.Sprintf("datagrams:%d", min(len(p.Datagrams), 5)), fmt.Sprintf("frames:%d", min(p.NFrames, 6)), fmt.Sprintf("reordered:%v", p.Reordered),
			fmt.Sprintf("overlap:%v", p.Overlap), fmt.Sprintf("found_before_complete:%v", res.FoundAt >= 0 && (res.CompleteAt < 0 || res.FoundAt < res.CompleteAt)),
			fmt.Sprintf("dcidlen:%d", len(p.DCID)/4*4)}, p.Classes...)
		key := ""
		if res.NonTrivial {
			h := ""
			for _, d := range p.Datagrams {
				h += fmt.Sprintf("%x|", d[:min(len(d), 64)])
			}
			key = p.Style + h + fmt.Sprint(p.Ranges)
		}
		vkCase("C06.quic", key, func() any { return c06QuicSummary(p, res) }, classes...)
	})
}

// ---------------------------------------------------------------- findings

func c06RFCDatagram(version uint32, frames []byte) []byte {
	payload := append(append([]byte(nil), frames...), make([]byte, 1162-len(frames))...)
	pkt, _ := c06QuicSealInitial(c06QuicPacket{Version: version, DCID: c06MustHex("8394c8f03e515708"), PN: 2, PNLen: 4, LenSz: 2, Payload: payload})
	return pkt
}

// TestC06_Finding_FC061: the client Initial of RFC 9369 Appendix A.2 (QUIC v2,
// ClientHello with SNI example.com) taken verbatim from the RFC must be recognised.
func TestC06_Finding_FC061(t *testing.T) {
	for _, tc := range []struct {
		name string
		pkt  []byte
	}{{"RFC9001-A.2(v1)", c06MustHex(c06RFC9001ClientInitialHex)}, {"RFC9369-A.2(v2)", c06MustHex(c06RFC9369ClientInitialHex)}} {
		s := NewPacketSniffer(tc.pkt, time.Second)
		d, err := s.SniffUdp()
		likely := IsLikelyQuicInitialPacket(tc.pkt)
		_ = s.Close()
		v2 := tc.name == "RFC9369-A.2(v2)"
		ok := err == nil && d == "example.com" && likely
		known := vkKnown("F-C06-1")
		switch {
		case ok && v2 && known:
			t.Logf("F-C06-1 is listed as known but no longer reproduces")
		case ok:
		case v2 && known:
			t.Logf("F-C06-1 reproduced: %s -> %q, %v, IsLikelyQuicInitialPacket=%v", tc.name, d, err, likely)
			vkKnownReproduced("F-C06-1")
		default:
			t.Fatalf("%s: published client Initial (SNI example.com) is not recognised: got %q, %v, IsLikelyQuicInitialPacket=%v", tc.name, d, err, likely)
		}
		vkCase("C06.findings", "F-C06-1|"+tc.name, func() any {
			return map[string]any{"vector": tc.name, "name": d, "err": fmt.Sprint(err), "likely": likely}
		}, "F-C06-1:"+tc.name)
	}
}

// TestC06_Finding_FC063: a complete ClientHello that carries no server_name (the
// RFC 9001 A.2 hello with the SNI extension retyped to an unknown extension) in a
// single Initial. The verdict is final with this datagram, so the sniffer must not
// ask for more: handlePkt withholds every datagram while NeedMore() is true.
func TestC06_Finding_FC063(t *testing.T) {
	frame := c06MustHex(c06RFCClientHelloFrameHex)
	i := bytes.Index(frame, []byte("\x00\x00\x00\x10\x00\x0e\x00\x00\x0bexample.com"))
	if i < 0 {
		t.Fatal("HARNESS BUG: SNI extension not found in the RFC hello")
	}
	frame[i], frame[i+1] = 0xfa, 0xfa // server_name -> GREASE extension type, same body
	p := &c06QuicPlan{Version: c06QuicV1, DCID: c06MustHex("8394c8f03e515708"), Hello: frame[4:], Want: "", Style: "pool",
		Datagrams: [][]byte{c06RFCDatagram(c06QuicV1, frame)}, Ranges: [][][2]int{{{0, len(frame) - 4}}}, Corrupt: []string{""}, NFrames: 1, NPackets: 1}
	if r := c06RefHello(p.Hello); !r.WellFormed || r.HasName {
		t.Fatalf("HARNESS BUG: reference does not accept the SNI-less hello: %+v", r)
	}
	res := &c06QuicResult{}
	c06NoExclusion = true
	fail := c06RunQuic(p, res)
	c06NoExclusion = false
	known := vkKnown("F-C06-3")
	switch {
	case fail == "" && known:
		t.Logf("F-C06-3 is listed as known but no longer reproduces")
	case fail == "":
	case known && errors.Is(errWithheld(fail), errC06Withheld):
		t.Logf("F-C06-3 reproduced: %s", fail)
		vkKnownReproduced("F-C06-3")
	default:
		t.Fatalf("F-C06-3: %s", fail)
	}
	vkCase("C06.findings", "F-C06-3", func() any { return map[string]any{"finding": "F-C06-3", "result": fail} }, "F-C06-3")
}

var errC06Withheld = errors.New("withheld")

func errWithheld(fail string) error {
	if len(fail) >= 8 && fail[:8] == "WITHHELD" {
		return errC06Withheld
	}
	return errors.New(fail)
}

package sniffing

// C06 — independent QUIC v1/v2 client Initial encoder, written from RFC 9000 §17.2,
// RFC 9001 §5 (HKDF labels, AES-128-GCM packet protection, AES-ECB header protection)
// and RFC 9369 §3 (v2: version number, salt, labels, long-header type bits). It shares
// no code with component/sniffing/internal/quicutils (own HKDF on crypto/hmac) and is
// self-checked against the client Initial vectors of RFC 9001 Appendix A.2 and
// RFC 9369 Appendix A.2 (TestC06_QuicEncoderSelfCheck).

import (
	"bytes"
	"crypto/aes"
	"crypto/cipher"
	"crypto/hmac"
	"crypto/sha256"
	"encoding/binary"
	"encoding/hex"
	"fmt"
	"testing"
)

const (
	c06QuicV1 uint32 = 0x00000001
	c06QuicV2 uint32 = 0x6b3343cf
)

var (
	c06SaltV1 = []byte{0x38, 0x76, 0x2c, 0xf7, 0xf5, 0x59, 0x34, 0xb3, 0x4d, 0x17, 0x9a, 0xe6, 0xa4, 0xc8, 0x0c, 0xad, 0xcc, 0xbb, 0x7f, 0x0a}
	c06SaltV2 = []byte{0x0d, 0xed, 0xe3, 0xde, 0xf7, 0x00, 0xa6, 0xdb, 0x81, 0x93, 0x81, 0xbe, 0x6e, 0x26, 0x9d, 0xcb, 0xf9, 0xbd, 0x2e, 0xd9}
)

func c06HkdfExtract(salt, ikm []byte) []byte {
	m := hmac.New(sha256.New, salt)
	m.Write(ikm)
	return m.Sum(nil)
}

// c06HkdfExpandLabel is TLS 1.3 HKDF-Expand-Label with an empty context
// (RFC 8446 §7.1); n <= 32 so one HMAC block suffices.
func c06HkdfExpandLabel(secret []byte, label string, n int) []byte {
	full := "tls13 " + label
	info := []byte{byte(n >> 8), byte(n), byte(len(full))}
	info = append(info, full...)
	info = append(info, 0) // empty context
	m := hmac.New(sha256.New, secret)
	m.Write(info)
	m.Write([]byte{1})
	return m.Sum(nil)[:n]
}

type c06QuicKeys struct{ key, iv, hp []byte }

func c06QuicClientInitialKeys(version uint32, dcid []byte) c06QuicKeys {
	salt, pfx := c06SaltV1, "quic "
	if version == c06QuicV2 {
		salt, pfx = c06SaltV2, "quicv2 "
	}
	initial := c06HkdfExtract(salt, dcid)
	client := c06HkdfExpandLabel(initial, "client in", 32) // same label in v1 and v2 (RFC 9369 §3.3.2 changes key/iv/hp/ku only)
	return c06QuicKeys{
		key: c06HkdfExpandLabel(client, pfx+"key", 16),
		iv:  c06HkdfExpandLabel(client, pfx+"iv", 12),
		hp:  c06HkdfExpandLabel(client, pfx+"hp", 16),
	}
}

// c06Varint encodes v with the QUIC variable-length integer encoding using
// exactly size bytes (1, 2, 4 or 8; size 0 = shortest). Non-minimal encodings are
// legal for every field except frame types.
func c06Varint(v uint64, size int) []byte {
	if size == 0 {
		switch {
		case v < 1<<6:
			size = 1
		case v < 1<<14:
			size = 2
		case v < 1<<30:
			size = 4
		default:
			size = 8
		}
	}
	switch size {
	case 1:
		if v >= 1<<6 {
			panic("c06Varint: value does not fit 1 byte")
		}
		return []byte{byte(v)}
	case 2:
		if v >= 1<<14 {
			panic("c06Varint: value does not fit 2 bytes")
		}
		return []byte{0x40 | byte(v>>8), byte(v)}
	case 4:
		if v >= 1<<30 {
			panic("c06Varint: value does not fit 4 bytes")
		}
		return []byte{0x80 | byte(v>>24), byte(v >> 16), byte(v >> 8), byte(v)}
	case 8:
		b := make([]byte, 8)
		binary.BigEndian.PutUint64(b, v)
		b[0] |= 0xc0
		return b
	}
	panic("c06Varint: bad size")
}

// long-header packet type bits (RFC 9000 §17.2, RFC 9369 §3.2).
func c06QuicTypeBits(version uint32, typ string) byte {
	v1 := map[string]byte{"initial": 0, "0rtt": 1, "handshake": 2, "retry": 3}
	v2 := map[string]byte{"initial": 1, "0rtt": 2, "handshake": 3, "retry": 0}
	if version == c06QuicV2 {
		return v2[typ]
	}
	return v1[typ]
}

type c06QuicPacket struct {
	Version   uint32
	DCID      []byte
	SCID      []byte
	Token     []byte
	TokLenSz  int    // varint size for the token length (0 = shortest)
	LenSz     int    // varint size for the Length field (0 = shortest)
	PN        uint64 // full packet number; must be < 2^(8*PNLen)
	PNLen     int    // 1..4
	Payload   []byte // plaintext frames
	FixedBit0 bool   // clear the fixed bit (never set by the generator; a negative)
}

// c06QuicSealInitial builds one protected client Initial packet. It returns the
// protected packet and the unprotected header (the AEAD associated data).
func c06QuicSealInitial(p c06QuicPacket) (pkt []byte, hdr []byte) {
	if p.PNLen < 1 || p.PNLen > 4 || (p.PNLen < 4 && p.PN >= 1<<(8*uint(p.PNLen))) {
		panic("c06QuicSealInitial: packet number does not fit")
	}
	if len(p.Payload)+p.PNLen < 4 {
		panic("c06QuicSealInitial: payload too short for header protection sampling")
	}
	first := byte(0x80) | byte(0x40) | c06QuicTypeBits(p.Version, "initial")<<4 | byte(p.PNLen-1)
	if p.FixedBit0 {
		first &^= 0x40
	}
	hdr = append(hdr, first)
	hdr = binary.BigEndian.AppendUint32(hdr, p.Version)
	hdr = append(hdr, byte(len(p.DCID)))
	hdr = append(hdr, p.DCID...)
	hdr = append(hdr, byte(len(p.SCID)))
	hdr = append(hdr, p.SCID...)
	hdr = append(hdr, c06Varint(uint64(len(p.Token)), p.TokLenSz)...)
	hdr = append(hdr, p.Token...)
	hdr = append(hdr, c06Varint(uint64(p.PNLen+len(p.Payload)+16), p.LenSz)...)
	pnOff := len(hdr)
	for i := p.PNLen - 1; i >= 0; i-- {
		hdr = append(hdr, byte(p.PN>>(8*uint(i))))
	}
	k := c06QuicClientInitialKeys(p.Version, p.DCID)
	blk, err := aes.NewCipher(k.key)
	if err != nil {
		panic(err)
	}
	aead, err := cipher.NewGCM(blk)
	if err != nil {
		panic(err)
	}
	nonce := append([]byte(nil), k.iv...)
	for i := 0; i < 8; i++ {
		nonce[len(nonce)-1-i] ^= byte(p.PN >> (8 * uint(i)))
	}
	sealed := aead.Seal(nil, nonce, p.Payload, hdr)
	pkt = append(append([]byte(nil), hdr...), sealed...)
	// header protection (RFC 9001 §5.4): sample starts 4 bytes after the start of
	// the packet number field.
	sample := pkt[pnOff+4 : pnOff+4+16]
	hpb, err := aes.NewCipher(k.hp)
	if err != nil {
		panic(err)
	}
	mask := make([]byte, 16)
	hpb.Encrypt(mask, sample)
	pkt[0] ^= mask[0] & 0x0f
	for i := 0; i < p.PNLen; i++ {
		pkt[pnOff+i] ^= mask[1+i]
	}
	return pkt, hdr
}

// c06QuicOtherLongPacket builds a non-Initial long-header packet (0-RTT or
// Handshake) with opaque protected bytes, as a client may coalesce after an Initial.
func c06QuicOtherLongPacket(version uint32, typ string, dcid, scid []byte, body []byte) []byte {
	first := byte(0x80) | byte(0x40) | c06QuicTypeBits(version, typ)<<4 | (body[0] & 0x0f)
	b := []byte{first}
	b = binary.BigEndian.AppendUint32(b, version)
	b = append(b, byte(len(dcid)))
	b = append(b, dcid...)
	b = append(b, byte(len(scid)))
	b = append(b, scid...)
	b = append(b, c06Varint(uint64(len(body)), 2)...)
	return append(b, body...)
}

func c06CryptoFrame(off uint64, data []byte, offSz, lenSz int) []byte {
	f := []byte{0x06}
	f = append(f, c06Varint(off, offSz)...)
	f = append(f, c06Varint(uint64(len(data)), lenSz)...)
	return append(f, data...)
}

func c06MustHex(s string) []byte {
	b, err := hex.DecodeString(s)
	if err != nil {
		panic(err)
	}
	return b
}

// CRYPTO frame of RFC 9001 A.2 / RFC 9369 A.2 (ClientHello with SNI example.com).
const c06RFCClientHelloFrameHex = "" +
	"060040f1010000ed0303ebf8fa56f12939b9584a3896472ec40bb863cfd3e86804fe3a47f06a2b69484c000004130113" +
	"02010000c000000010000e00000b6578616d706c652e636f6dff01000100000a00080006001d00170018001000070005" +
	"04616c706e000500050100000000003300260024001d00209370b2c9caa47fbabaf4559fedba753de171fa71f50f1ce1" +
	"5d43e994ec74d748002b0003020304000d0010000e0403050306030203080408050806002d00020101001c0002400100" +
	"3900320408ffffffffffffffff05048000ffff07048000ffff0801100104800075300901100f088394c8f03e51570806" +
	"048000ffff"

const c06RFC9001ClientInitialHex = "" +
	"c000000001088394c8f03e5157080000449e7b9aec34d1b1c98dd7689fb8ec11d242b123dc9bd8bab936b47d92ec356c" +
	"0bab7df5976d27cd449f63300099f3991c260ec4c60d17b31f8429157bb35a1282a643a8d2262cad67500cadb8e7378c" +
	"8eb7539ec4d4905fed1bee1fc8aafba17c750e2c7ace01e6005f80fcb7df621230c83711b39343fa028cea7f7fb5ff89" +
	"eac2308249a02252155e2347b63d58c5457afd84d05dfffdb20392844ae812154682e9cf012f9021a6f0be17ddd0c208" +
	"4dce25ff9b06cde535d0f920a2db1bf362c23e596d11a4f5a6cf3948838a3aec4e15daf8500a6ef69ec4e3feb6b1d98e" +
	"610ac8b7ec3faf6ad760b7bad1db4ba3485e8a94dc250ae3fdb41ed15fb6a8e5eba0fc3dd60bc8e30c5c4287e53805db" +
	"059ae0648db2f64264ed5e39be2e20d82df566da8dd5998ccabdae053060ae6c7b4378e846d29f37ed7b4ea9ec5d82e7" +
	"961b7f25a9323851f681d582363aa5f89937f5a67258bf63ad6f1a0b1d96dbd4faddfcefc5266ba6611722395c906556" +
	"be52afe3f565636ad1b17d508b73d8743eeb524be22b3dcbc2c7468d54119c7468449a13d8e3b95811a198f3491de3e7" +
	"fe942b330407abf82a4ed7c1b311663ac69890f4157015853d91e923037c227a33cdd5ec281ca3f79c44546b9d90ca00" +
	"f064c99e3dd97911d39fe9c5d0b23a229a234cb36186c4819e8b9c5927726632291d6a418211cc2962e20fe47feb3edf" +
	"330f2c603a9d48c0fcb5699dbfe5896425c5bac4aee82e57a85aaf4e2513e4f05796b07ba2ee47d80506f8d2c25e50fd" +
	"14de71e6c418559302f939b0e1abd576f279c4b2e0feb85c1f28ff18f58891ffef132eef2fa09346aee33c28eb130ff2" +
	"8f5b766953334113211996d20011a198e3fc433f9f2541010ae17c1bf202580f6047472fb36857fe843b19f5984009dd" +
	"c324044e847a4f4a0ab34f719595de37252d6235365e9b84392b061085349d73203a4a13e96f5432ec0fd4a1ee65accd" +
	"d5e3904df54c1da510b0ff20dcc0c77fcb2c0e0eb605cb0504db87632cf3d8b4dae6e705769d1de354270123cb11450e" +
	"fc60ac47683d7b8d0f811365565fd98c4c8eb936bcab8d069fc33bd801b03adea2e1fbc5aa463d08ca19896d2bf59a07" +
	"1b851e6c239052172f296bfb5e72404790a2181014f3b94a4e97d117b438130368cc39dbb2d198065ae3986547926cd2" +
	"162f40a29f0c3c8745c0f50fba3852e566d44575c29d39a03f0cda721984b6f440591f355e12d439ff150aab7613499d" +
	"bd49adabc8676eef023b15b65bfc5ca06948109f23f350db82123535eb8a7433bdabcb909271a6ecbcb58b936a88cd4e" +
	"8f2e6ff5800175f113253d8fa9ca8885c2f552e657dc603f252e1a8e308f76f0be79e2fb8f5d5fbbe2e30ecadd220723" +
	"c8c0aea8078cdfcb3868263ff8f0940054da48781893a7e49ad5aff4af300cd804a6b6279ab3ff3afb64491c85194aab" +
	"760d58a606654f9f4400e8b38591356fbf6425aca26dc85244259ff2b19c41b9f96f3ca9ec1dde434da7d2d392b905dd" +
	"f3d1f9af93d1af5950bd493f5aa731b4056df31bd267b6b90a079831aaf579be0a39013137aac6d404f518cfd4684064" +
	"7e78bfe706ca4cf5e9c5453e9f7cfd2b8b4c8d169a44e55c88d4a9a7f9474241e221af44860018ab0856972e194cd934"

const c06RFC9369ClientInitialHex = "" +
	"d76b3343cf088394c8f03e5157080000449ea0c95e82ffe67b6abcdb4298b485dd04de806071bf03dceebfa162e75d6c" +
	"96058bdbfb127cdfcbf903388e99ad049f9a3dd4425ae4d0992cfff18ecf0fdb5a842d09747052f17ac2053d21f57c5d" +
	"250f2c4f0e0202b70785b7946e992e58a59ac52dea6774d4f03b55545243cf1a12834e3f249a78d395e0d18f4d766004" +
	"f1a2674802a747eaa901c3f10cda5500cb9122faa9f1df66c392079a1b40f0de1c6054196a11cbea40afb6ef5253cd68" +
	"18f6625efce3b6def6ba7e4b37a40f7732e093daa7d52190935b8da58976ff3312ae50b187c1433c0f028edcc4c2838b" +
	"6a9bfc226ca4b4530e7a4ccee1bfa2a3d396ae5a3fb512384b2fdd851f784a65e03f2c4fbe11a53c7777c023462239dd" +
	"6f7521a3f6c7d5dd3ec9b3f233773d4b46d23cc375eb198c63301c21801f6520bcfb7966fc49b393f0061d974a2706df" +
	"8c4a9449f11d7f3d2dcbb90c6b877045636e7c0c0fe4eb0f697545460c806910d2c355f1d253bc9d2452aaa549e27a1f" +
	"ac7cf4ed77f322e8fa894b6a83810a34b361901751a6f5eb65a0326e07de7c1216ccce2d0193f958bb3850a833f7ae43" +
	"2b65bc5a53975c155aa4bcb4f7b2c4e54df16efaf6ddea94e2c50b4cd1dfe06017e0e9d02900cffe1935e0491d77ffb4" +
	"fdf85290fdd893d577b1131a610ef6a5c32b2ee0293617a37cbb08b847741c3b8017c25ca9052ca1079d8b78aebd4787" +
	"6d330a30f6a8c6d61dd1ab5589329de714d19d61370f8149748c72f132f0fc99f34d766c6938597040d8f9e2bb522ff9" +
	"9c63a344d6a2ae8aa8e51b7b90a4a806105fcbca31506c446151adfeceb51b91abfe43960977c87471cf9ad4074d30e1" +
	"0d6a7f03c63bd5d4317f68ff325ba3bd80bf4dc8b52a0ba031758022eb025cdd770b44d6d6cf0670f4e990b22347a7db" +
	"848265e3e5eb72dfe8299ad7481a408322cac55786e52f633b2fb6b614eaed18d703dd84045a274ae8bfa73379661388" +
	"d6991fe39b0d93debb41700b41f90a15c4d526250235ddcd6776fc77bc97e7a417ebcb31600d01e57f32162a8560cacc" +
	"7e27a096d37a1a86952ec71bd89a3e9a30a2a26162984d7740f81193e8238e61f6b5b984d4d3dfa033c1bb7e4f0037fe" +
	"bf406d91c0dccf32acf423cfa1e7071010d3f270121b493ce85054ef58bada42310138fe081adb04e2bd901f2f13458b" +
	"3d6758158197107c14ebb193230cd1157380aa79cae1374a7c1e5bbcb80ee23e06ebfde206bfb0fcbc0edc4ebec30966" +
	"1bdd908d532eb0c6adc38b7ca7331dce8dfce39ab71e7c32d318d136b6100671a1ae6a6600e3899f31f0eed19e3417d1" +
	"34b90c9058f8632c798d4490da4987307cba922d61c39805d072b589bd52fdf1e86215c2d54e6670e07383a27bbffb5a" +
	"ddf47d66aa85a0c6f9f32e59d85a44dd5d3b22dc2be80919b490437ae4f36a0ae55edf1d0b5cb4e9a3ecabee93dfc6e3" +
	"8d209d0fa6536d27a5d6fbb17641cde27525d61093f1b28072d111b2b4ae5f89d5974ee12e5cf7d5da4d6a31123041f3" +
	"3e61407e76cffcdcfd7e19ba58cf4b536f4c4938ae79324dc402894b44faf8afbab35282ab659d13c93f70412e85cb19" +
	"9a37ddec600545473cfb5a05e08d0b209973b2172b4d21fb69745a262ccde96ba18b2faa745b6fe189cf772a9f84cbfc"

// TestC06_QuicEncoderSelfCheck: the encoder must reproduce the published protected
// packets bit for bit; otherwise every QUIC verdict of this check is void, so a
// mismatch is a harness error (t.Fatal), never a finding.
func TestC06_QuicEncoderSelfCheck(t *testing.T) {
	dcid := c06MustHex("8394c8f03e515708")
	// intermediate values printed in RFC 9001 A.1 and RFC 9369 A.1
	k1 := c06QuicClientInitialKeys(c06QuicV1, dcid)
	if hex.EncodeToString(k1.key) != "1f369613dd76d5467730efcbe3b1a22d" || hex.EncodeToString(k1.iv) != "fa044b2f42a3fd3b46fb255c" ||
		hex.EncodeToString(k1.hp) != "9f50449e04a0e810283a1e9933adedd2" {
		t.Fatalf("v1 initial keys differ from RFC 9001 A.1: %x %x %x", k1.key, k1.iv, k1.hp)
	}
	k2 := c06QuicClientInitialKeys(c06QuicV2, dcid)
	if hex.EncodeToString(k2.key) != "8b1a0bc121284290a29e0971b5cd045d" || hex.EncodeToString(k2.iv) != "91f73e2351d8fa91660e909f" ||
		hex.EncodeToString(k2.hp) != "45b95e15235d6f45a6b19cbcb0294ba9" {
		t.Fatalf("v2 initial keys differ from RFC 9369 A.1: %x %x %x", k2.key, k2.iv, k2.hp)
	}
	frame := c06MustHex(c06RFCClientHelloFrameHex)
	payload := append(append([]byte(nil), frame...), make([]byte, 1162-len(frame))...)
	for _, tc := range []struct {
		name    string
		version uint32
		hdrHex  string
		want    string
	}{
		{"RFC9001-A.2", c06QuicV1, "c300000001088394c8f03e5157080000449e00000002", c06RFC9001ClientInitialHex},
		{"RFC9369-A.2", c06QuicV2, "d36b3343cf088394c8f03e5157080000449e00000002", c06RFC9369ClientInitialHex},
	} {
		pkt, hdr := c06QuicSealInitial(c06QuicPacket{Version: tc.version, DCID: dcid, PN: 2, PNLen: 4, LenSz: 2, Payload: payload})
		if hex.EncodeToString(hdr) != tc.hdrHex {
			t.Fatalf("%s: unprotected header %x, want %s", tc.name, hdr, tc.hdrHex)
		}
		if !bytes.Equal(pkt, c06MustHex(tc.want)) {
			t.Fatalf("%s: protected packet differs from the published vector\n got %x", tc.name, pkt)
		}
	}
	if got := fmt.Sprintf("%x|%x|%x|%x", c06Varint(37, 0), c06Varint(15293, 0), c06Varint(494878333, 0), c06Varint(151288809941952652, 0)); got != "25|7bbd|9d7f3e7d|c2197c5eff14e88c" {
		t.Fatalf("varint encoding differs from RFC 9000 A.1 examples: %s", got)
	}
	if got := fmt.Sprintf("%x", c06Varint(37, 2)); got != "4025" {
		t.Fatalf("non-minimal varint: %s", got)
	}
	vkCase("C06.selfcheck", "rfc9001+rfc9369 client initial vectors", func() any {
		return "independent QUIC Initial encoder reproduces RFC 9001 A.2 and RFC 9369 A.2 bit for bit"
	}, "selfcheck:encoder_matches_rfc9001_and_rfc9369_vectors")
}

package sniffing

// C06 — native Go fuzz targets (thorough tier). The oracle lives inside the
// target: no panic, bounded (virtual) time, byte-for-byte replay, and "no wrong
// name" judged by the strict reference parsers of c06_gen_test.go — a name is only
// demanded when the reference accepts the input as well-formed, and a returned
// name must at least occur in what the client sent.
//
// Seed corpus: harness/component/sniffing/testdata/fuzz/<FuzzName>/ (regenerate
// with C06_WRITE_CORPUS=<dir> go test -run TestC06_WriteSeedCorpus).

import (
	"bytes"
	"encoding/binary"
	"fmt"
	"os"
	"path/filepath"
	"sort"
	"strconv"
	"testing"
	"time"

	"pgregory.net/rapid"
)

// ---------------------------------------------------------------- stream target

func c06FuzzStreamPlan(data, cuts []byte, mode byte) *c06StreamPlan {
	if len(data) > 16<<10 {
		data = data[:16<<10]
	}
	p := &c06StreamPlan{Kind: "fuzz", Payload: data, Mutated: true, Timeout: time.Second}
	off := 0
	for i := 0; i < len(cuts) && i < 24 && off < len(data); i++ {
		sz := int(cuts[i]) + 1
		if cuts[i] >= 128 {
			sz = (int(cuts[i]) - 127) * 48
		}
		off += sz
		if off < len(data) {
			p.Cuts = append(p.Cuts, off)
		}
	}
	if len(data) > 0 {
		p.Cuts = append(p.Cuts, len(data))
	}
	p.At = make([]time.Duration, len(p.Cuts))
	p.Coalesce = mode&1 != 0
	p.Drain = []string{"read", "writeto", "prefix_copy", "prefix_read", "segments_read"}[int(mode>>1)%5]
	p.EOF = mode&0x10 != 0 || p.Drain == "writeto" || p.Drain == "prefix_copy"
	p.ReadSizes = [][]int{{4096}, {1, 7, 512}, {64}, {32 << 10}}[int(mode>>5)&3]
	return p
}

func FuzzC06_Stream(f *testing.F) {
	f.Add([]byte("GET / HTTP/1.1\r\nHost: example.com\r\n\r\n"), []byte{3, 20}, byte(0))
	f.Add(c06FixedHello("seed.example.com", 300), []byte{4, 0, 90}, byte(0x12))
	f.Fuzz(func(t *testing.T, data []byte, cuts []byte, mode byte) {
		p := c06FuzzStreamPlan(data, cuts, mode)
		res := &c06StreamResult{}
		if fail := c06StreamInBubble(t, p, res); fail != "" {
			t.Fatalf("%s\ncase: %v", fail, c06PlanSummary(p, res))
		}
		vkCase("C06.fuzz_stream", "outcome:"+res.Outcome, nil, "outcome:"+res.Outcome)
	})
}

// ---------------------------------------------------------------- datagram target

// script: flags(1) dcidLen(1) dcid | records: op(1) len(2) body
//
//	flags bit0: QUIC v2, bit1: constructor style
//	op&3: 0 raw datagram, 1 Initial packet opening a new datagram, 2 Initial packet
//	      coalesced onto the current datagram, 3 stop; (op>>2)&3: packet number length-1
//	body: raw datagram bytes, or the *plaintext* payload (frames) that the target seals
type c06ScriptPacket struct {
	Payload []byte
	PNLen   int
	Clean   bool // only PADDING / PING / CRYPTO frames, all well-formed
	Frames  []c06Piece
}

type c06Script struct {
	Version   uint32
	Style     string
	DCID      []byte
	Datagrams [][]byte
	Packets   [][]c06ScriptPacket // per datagram; nil for a raw datagram
}

// c06RefFrames parses a plaintext Initial payload with the frame grammar of RFC
// 9000 §19 restricted to what a first client flight contains.
func c06RefFrames(b []byte) (pieces []c06Piece, clean bool) {
	rd := func() (uint64, bool) {
		if len(b) == 0 {
			return 0, false
		}
		n := 1 << (b[0] >> 6)
		if len(b) < n {
			return 0, false
		}
		v := uint64(b[0] & 0x3f)
		for i := 1; i < n; i++ {
			v = v<<8 | uint64(b[i])
		}
		b = b[n:]
		return v, true
	}
	for len(b) > 0 {
		switch b[0] {
		case 0x00, 0x01:
			b = b[1:]
		case 0x06:
			b = b[1:]
			off, ok1 := rd()
			l, ok2 := rd()
			if !ok1 || !ok2 || l > uint64(len(b)) || off > 1<<20 {
				return pieces, false
			}
			pieces = append(pieces, c06Piece{int(off), b[:l]})
			b = b[l:]
		default:
			return pieces, false
		}
	}
	return pieces, true
}

func c06DecodeScript(s []byte) *c06Script {
	sc := &c06Script{Version: c06QuicV1, Style: "pool"}
	if len(s) < 2 {
		return sc
	}
	if s[0]&1 != 0 {
		sc.Version = c06QuicV2
	}
	if s[0]&2 != 0 {
		sc.Style = "ctor"
	}
	dl := int(s[1]) % 21
	s = s[2:]
	if len(s) < dl {
		return sc
	}
	sc.DCID, s = s[:dl], s[dl:]
	pn := uint64(0)
	type open struct{ pkts []c06ScriptPacket }
	var cur *open
	flush := func() {
		if cur == nil {
			return
		}
		// client datagrams that carry an Initial are at least 1200 bytes: pad the last packet
		var dg []byte
		size := 0
		for _, k := range cur.pkts {
			size += 1 + 4 + 1 + len(sc.DCID) + 1 + 1 + 2 + k.PNLen + len(k.Payload) + 16
		}
		for i := range cur.pkts {
			k := &cur.pkts[i]
			if i == len(cur.pkts)-1 && size < 1200 {
				k.Payload = append(append([]byte(nil), k.Payload...), make([]byte, 1200-size)...)
			}
			for len(k.Payload)+k.PNLen < 4 {
				k.Payload = append(k.Payload, 0)
			}
			k.Frames, k.Clean = c06RefFrames(k.Payload)
			b, _ := c06QuicSealInitial(c06QuicPacket{Version: sc.Version, DCID: sc.DCID, LenSz: 2, PN: pn, PNLen: k.PNLen, Payload: k.Payload})
			pn++
			dg = append(dg, b...)
		}
		sc.Datagrams = append(sc.Datagrams, dg)
		sc.Packets = append(sc.Packets, cur.pkts)
		cur = nil
	}
	for len(s) >= 3 && len(sc.Datagrams) < 8 {
		op := s[0]
		l := int(binary.BigEndian.Uint16(s[1:]))
		s = s[3:]
		if op&3 == 3 {
			break
		}
		if l > len(s) {
			l = len(s)
		}
		if l > 1300 {
			l = 1300
		}
		body := s[:l]
		s = s[l:]
		switch op & 3 {
		case 0:
			flush()
			sc.Datagrams = append(sc.Datagrams, append([]byte(nil), body...))
			sc.Packets = append(sc.Packets, nil)
		case 1:
			flush()
			cur = &open{}
			fallthrough
		case 2:
			if cur == nil {
				cur = &open{}
			}
			if len(cur.pkts) < 3 {
				cur.pkts = append(cur.pkts, c06ScriptPacket{Payload: body, PNLen: int(op>>2)&3 + 1})
			}
		}
	}
	flush()
	return sc
}

// c06EncodeScript is the inverse used to write seeds.
func c06EncodeScript(v2 bool, ctor bool, dcid []byte, recs [][2][]byte) []byte {
	var f byte
	if v2 {
		f |= 1
	}
	if ctor {
		f |= 2
	}
	out := []byte{f, byte(len(dcid))}
	out = append(out, dcid...)
	for _, r := range recs {
		out = append(out, r[0][0])
		out = append(out, c06U16(len(r[1]))...)
		out = append(out, r[1]...)
	}
	return out
}

func c06RunScript(sc *c06Script) (fail string, outcome string) {
	defer func() {
		if r := recover(); r != nil {
			fail = fmt.Sprintf("PANIC in sniffing code: %v", r)
		}
	}()
	if len(sc.Datagrams) == 0 {
		return "", "empty"
	}
	// reference view of the CRYPTO stream
	stream := map[int]byte{}
	conflict, allClean, raw := false, true, false
	var regionsAll []c06Piece
	for _, pk := range sc.Packets {
		if pk == nil {
			raw = true
			continue
		}
		for _, k := range pk {
			allClean = allClean && k.Clean
			regionsAll = append(regionsAll, k.Frames...)
			if !k.Clean {
				continue
			}
			for _, pc := range k.Frames {
				for i, c := range pc.Data {
					if old, ok := stream[pc.Off+i]; ok && old != c {
						conflict = true
					}
					stream[pc.Off+i] = c
				}
			}
		}
	}
	var prefix []byte
	for i := 0; ; i++ {
		c, ok := stream[i]
		if !ok {
			break
		}
		prefix = append(prefix, c)
	}
	ref := c06RefHello(prefix)
	// "strong": every datagram is a clean Initial of this connection and the CRYPTO
	// stream is exactly one well-formed ClientHello (nothing after it, no conflicts).
	strong := ref.WellFormed && !conflict && allClean && !raw && len(stream) == ref.Len
	v2Known := sc.Version == c06QuicV2 && vkKnown("F-C06-1")

	var s *Sniffer
	skip := 1
	found := ""
	needMoreAtEnd := false
	for i, d := range sc.Datagrams {
		in := append([]byte(nil), d...)
		if s == nil {
			if sc.Style == "ctor" {
				s, skip = NewPacketSniffer(in, time.Second), 0
			} else {
				s = NewPacketSniffer(nil, time.Second)
				s.AppendData(in)
			}
		} else {
			s.AppendData(in)
		}
		name, err := s.SniffUdp()
		if err != nil && !IsSniffingError(err) {
			return fmt.Sprintf("datagram %d: error is not a sniffing error: %v", i, err), ""
		}
		if name != "" && err != nil {
			return fmt.Sprintf("datagram %d: both name %q and error %v", i, name, err), ""
		}
		if name != "" {
			found = name
		}
		data := s.Data()
		if len(data) != skip+i+1 {
			return fmt.Sprintf("datagram %d: Data() has %d entries, want %d", i, len(data), skip+i+1), ""
		}
		for j := 0; j <= i; j++ {
			if !bytes.Equal(data[skip+j], sc.Datagrams[j]) {
				return fmt.Sprintf("REPLAY: after datagram %d, Data()[%d] differs from ingress datagram %d", i, skip+j, j), ""
			}
		}
		if !bytes.Equal(in, d) {
			return fmt.Sprintf("datagram %d: input slice modified", i), ""
		}
		needMoreAtEnd = s.NeedMore()
	}
	_ = s.Close()
	if found != "" {
		switch {
		case strong && (!ref.HasName || !c06SameName(found, ref.Name)):
			return fmt.Sprintf("WRONG NAME: sniffed %q, the CRYPTO stream is a well-formed ClientHello carrying %q", found, ref.Name), ""
		case !strong && !conflict:
			var regions [][]byte
			sort.SliceStable(regionsAll, func(i, j int) bool { return regionsAll[i].Off < regionsAll[j].Off })
			var curR []byte
			end := -1
			for _, pc := range regionsAll {
				if pc.Off > end && end >= 0 || end < 0 {
					if curR != nil {
						regions = append(regions, curR)
					}
					curR, end = append([]byte(nil), pc.Data...), pc.Off+len(pc.Data)
					continue
				}
				if pc.Off+len(pc.Data) > end {
					curR = append(curR, pc.Data[end-pc.Off:]...)
					end = pc.Off + len(pc.Data)
				}
			}
			if curR != nil {
				regions = append(regions, curR)
			}
			if !c06NameCarried(found, regions...) {
				return fmt.Sprintf("WRONG NAME: sniffed %q occurs nowhere in the CRYPTO data sent", found), ""
			}
		}
		return "", "found"
	}
	if strong && !v2Known {
		if ref.HasName {
			return fmt.Sprintf("MUST FIND: the CRYPTO stream is a complete well-formed ClientHello carrying %q (version %#x, %d datagrams); nothing found", ref.Name, sc.Version, len(sc.Datagrams)), ""
		}
		if needMoreAtEnd && !vkKnown("F-C06-3") && !(ref.NoExt && vkKnown("F-C06-4")) {
			return "WITHHELD: complete ClientHello without a name, NeedMore() stays true", ""
		}
		return "", "complete_no_name"
	}
	return "", "nothing"
}

func FuzzC06_Datagrams(f *testing.F) {
	for _, s := range c06SeedScripts() {
		f.Add(s)
	}
	f.Fuzz(func(t *testing.T, script []byte) {
		if len(script) > 12<<10 {
			return
		}
		sc := c06DecodeScript(script)
		fail, outcome := c06RunScript(sc)
		if fail != "" {
			sizes := []int{}
			for _, d := range sc.Datagrams {
				sizes = append(sizes, len(d))
			}
			t.Fatalf("%s\nscript: version %#x style %s dcid %x datagram sizes %v", fail, sc.Version, sc.Style, sc.DCID, sizes)
		}
		vkCase("C06.fuzz_datagrams", "outcome:"+outcome, nil, "outcome:"+outcome)
	})
}

// ---------------------------------------------------------------- seeds

func c06SeedScripts() [][]byte {
	dcid := c06MustHex("8394c8f03e515708")
	hello := c06MustHex(c06RFCClientHelloFrameHex)[4:]
	fr := func(off int, d []byte) []byte { return c06CryptoFrame(uint64(off), d, 0, 0) }
	cat := func(bs ...[]byte) []byte { return bytes.Join(bs, nil) }
	op := func(b byte) []byte { return []byte{b} }
	var out [][]byte
	// one datagram, one frame (v1 / v2)
	out = append(out, c06EncodeScript(false, false, dcid, [][2][]byte{{op(1 | 3<<2), fr(0, hello)}}))
	out = append(out, c06EncodeScript(true, true, dcid, [][2][]byte{{op(1 | 3<<2), fr(0, hello)}}))
	// three frames reordered with PING/PADDING, two coalesced packets
	out = append(out, c06EncodeScript(false, false, dcid, [][2][]byte{
		{op(1), cat(fr(100, hello[100:180]), []byte{1, 0, 0}, fr(180, hello[180:]))},
		{op(2 | 1<<2), cat([]byte{0, 0, 1}, fr(0, hello[:100]))},
	}))
	// two datagrams, second first; overlapping frames; a raw garbage datagram last
	out = append(out, c06EncodeScript(false, true, dcid[:5], [][2][]byte{
		{op(1), fr(60, hello[60:])},
		{op(1 | 2<<2), cat(fr(0, hello[:90]), fr(40, hello[40:70]))},
		{op(0), []byte("\xc3\x00\x00\x00\x01\x08garbage-garbage-garbage")},
	}))
	// SNI-less hello
	h2 := append([]byte(nil), hello...)
	if i := bytes.Index(h2, []byte("\x00\x00\x00\x10\x00\x0e")); i >= 0 {
		h2[i], h2[i+1] = 0xfa, 0xfa
	}
	out = append(out, c06EncodeScript(false, false, dcid, [][2][]byte{{op(1), fr(0, h2)}}))
	return out
}

func c06CorpusEntry(vals ...any) []byte {
	var b bytes.Buffer
	b.WriteString("go test fuzz v1\n")
	for _, v := range vals {
		switch x := v.(type) {
		case []byte:
			fmt.Fprintf(&b, "[]byte(%s)\n", strconv.Quote(string(x)))
		case byte:
			fmt.Fprintf(&b, "byte(%s)\n", strconv.QuoteRune(rune(x)))
		}
	}
	return b.Bytes()
}

// TestC06_WriteSeedCorpus (only with C06_WRITE_CORPUS=<dir>) regenerates the
// committed seed corpus from the rapid generators (fixed example seeds).
func TestC06_WriteSeedCorpus(t *testing.T) {
	dir := os.Getenv("C06_WRITE_CORPUS")
	if dir == "" {
		t.Skip("C06_WRITE_CORPUS not set")
	}
	write := func(fuzz, name string, data []byte) {
		d := filepath.Join(dir, fuzz)
		if err := os.MkdirAll(d, 0o755); err != nil {
			t.Fatal(err)
		}
		if err := os.WriteFile(filepath.Join(d, name), data, 0o644); err != nil {
			t.Fatal(err)
		}
	}
	gen := rapid.Custom(func(rt *rapid.T) *c06StreamPlan { return c06GenStreamPlan(rt) })
	n := 0
	for seed := 1; seed <= 400 && n < 40; seed++ {
		p := gen.Example(seed)
		if p.Mutated || len(p.Payload) == 0 || len(p.Payload) > 3000 {
			continue
		}
		cuts := []byte{}
		prev := 0
		for _, c := range p.Cuts[:len(p.Cuts)-1] {
			sz := c - prev
			if sz <= 128 {
				cuts = append(cuts, byte(sz-1))
			} else {
				cuts = append(cuts, byte(min(255, 127+sz/48)))
			}
			prev = c
		}
		write("FuzzC06_Stream", fmt.Sprintf("seed-%s-%03d", p.Kind, seed), c06CorpusEntry(p.Payload, cuts, byte(seed)))
		n++
	}
	for i, s := range c06SeedScripts() {
		write("FuzzC06_Datagrams", fmt.Sprintf("seed-script-%02d", i), c06CorpusEntry(s))
	}
	hgen := rapid.Custom(func(rt *rapid.T) *c06Hello { return c06GenHello(rt, true) })
	for seed := 1; seed <= 12; seed++ {
		h := hgen.Example(seed)
		if len(h.HS) > 2400 {
			continue
		}
		var recs [][2][]byte
		mid := len(h.HS) / 2
		if len(h.HS) > 1000 {
			recs = [][2][]byte{{{1 | byte(seed%4)<<2}, c06CryptoFrame(uint64(mid), h.HS[mid:], 0, 0)}, {{1}, c06CryptoFrame(0, h.HS[:mid], 2, 2)}}
		} else {
			recs = [][2][]byte{{{1 | byte(seed%4)<<2}, append(c06CryptoFrame(uint64(mid), h.HS[mid:], 0, 0), c06CryptoFrame(0, h.HS[:mid], 0, 0)...)}}
		}
		write("FuzzC06_Datagrams", fmt.Sprintf("seed-hello-%02d", seed), c06CorpusEntry(c06EncodeScript(seed%3 == 0, seed%2 == 0, c06Bytes0(8+seed%13), recs)))
	}
}

func c06Bytes0(n int) []byte {
	b := make([]byte, n)
	for i := range b {
		b[i] = byte(0x30 + i)
	}
	return b
}

package sniffing

// C06 — interleavings of several connections / flows on one goroutine. Sniff
// buffers come from a shared pool, so bytes one connection has handed to its relay
// (TakeRelayPrefix / TakeRelaySegments / Read / WriteTo / CopyRelayRemainder,
// Sniffer.Data() on the datagram side) must stay what its own client sent while
// OTHER connections are created, sniffed, drained and closed in between. The
// contract asserted is the one the relay relies on: bytes obtained from a take API
// stay valid until the next call on THAT sniffer — so taken slices are copied only
// at "write time", after rapid-chosen steps of the other actors, and bytes passed to
// an io.Writer must be valid during that Write (the sinks run foreign steps inside
// Write, which is what a concurrent connection amounts to).

import (
	"bytes"
	"fmt"
	"runtime/debug"
	"testing"
	"testing/synctest"
	"time"

	"pgregory.net/rapid"
)

type c06Actor interface {
	name() string
	options() []string // steps that may be taken now ([] = finished)
	do(step string, w *c06IlWorld) string
	final() string
}

type c06IlWorld struct {
	actors  []c06Actor
	ghosts  [][]byte // payloads for throw-away connections created "concurrently"
	ghostN  int
	script  []int
	pos     int
	trace   []string
	inGhost bool
}

func (w *c06IlWorld) pick(n int) int {
	if n <= 1 {
		return 0
	}
	v := 0
	if w.pos < len(w.script) {
		v = w.script[w.pos]
	}
	w.pos++
	return v % n
}

// ghost creates, sniffs and (mostly) closes a throw-away connection: the pooled
// buffer traffic a concurrent connection causes.
func (w *c06IlWorld) ghost(why string) {
	if w.inGhost || len(w.ghosts) == 0 {
		return
	}
	w.inGhost = true
	defer func() { w.inGhost = false }()
	for k := w.pick(3); k >= 0; k-- {
		pl := w.ghosts[w.ghostN%len(w.ghosts)]
		w.ghostN++
		conn := c06NewConn(pl, []int{len(pl)}, []time.Duration{0})
		conn.eof = true
		cs := NewConnSniffer(conn, 50*time.Millisecond)
		_, _ = cs.SniffTcp()
		switch w.pick(3) {
		case 0:
			_ = cs.TakeRelayPrefix()
		case 1:
			b := make([]byte, 4096)
			_, _ = cs.Read(b)
		}
		_ = cs.Close()
		w.trace = append(w.trace, fmt.Sprintf("ghost(%s,%dB)", why, len(pl)))
	}
}

// ---------------------------------------------------------------- stream actor

type c06StreamActor struct {
	id          string
	payload     []byte
	cuts        []int
	conn        *c06Conn
	cs          *ConnSniffer
	pending     [][]byte // aliases handed out by a take API, not yet "written"
	how         string
	out         []byte
	took        bool
	closed      bool
	prefixTaken bool
	sizes       []int
	nread       int
}

type c06IlSink struct {
	a *c06StreamActor
	w *c06IlWorld
}

func (s c06IlSink) Write(p []byte) (int, error) {
	s.w.ghost("during " + s.a.id + ".Write")
	s.a.out = append(s.a.out, p...)
	return len(p), nil
}

func (a *c06StreamActor) name() string { return a.id }

func (a *c06StreamActor) options() []string {
	switch {
	case a.closed:
		return nil
	case a.cs == nil:
		return []string{"sniff"}
	case a.pending != nil:
		return []string{"write"}
	case len(a.out) >= len(a.payload):
		return []string{"close"}
	case !a.took:
		return []string{"take_prefix", "take_segments", "read", "writeto"}
	case a.prefixTaken:
		// the sniff buffer is drained: the relay continues on the connection
		return []string{"read", "copy_remainder", "writeto", "take_prefix"}
	default:
		return []string{"read", "read", "writeto", "take_prefix", "take_segments"}
	}
}

func (a *c06StreamActor) check(step string) string {
	if len(a.out) > len(a.payload) || !bytes.Equal(a.out, a.payload[:len(a.out)]) {
		i := 0
		for i < len(a.out) && i < len(a.payload) && a.out[i] == a.payload[i] {
			i++
		}
		return fmt.Sprintf("REPLAY(interleaved): connection %s relayed bytes that its client did not send: after step %q (%s) the relay holds %d bytes, first difference at offset %d of %d client bytes; relayed there: %q",
			a.id, step, a.how, len(a.out), i, len(a.payload), a.out[i:min(len(a.out), i+48)])
	}
	return ""
}

func (a *c06StreamActor) do(step string, w *c06IlWorld) string {
	switch step {
	case "sniff":
		at := make([]time.Duration, len(a.cuts))
		a.conn = c06NewConn(a.payload, a.cuts, at)
		a.conn.eof = true
		a.cs = NewConnSniffer(a.conn, 100*time.Millisecond)
		_, _ = a.cs.SniffTcp()
	case "take_prefix":
		a.took, a.prefixTaken, a.how = true, true, "TakeRelayPrefix"
		if p := a.cs.TakeRelayPrefix(); len(p) > 0 {
			a.pending = [][]byte{p}
		}
	case "take_segments":
		a.took, a.prefixTaken, a.how = true, true, "TakeRelaySegments"
		if segs := a.cs.TakeRelaySegments(); len(segs) > 0 {
			a.pending = segs
		}
	case "read":
		a.took, a.how = true, "Read"
		buf := make([]byte, a.sizes[a.nread%len(a.sizes)])
		a.nread++
		n, err := a.cs.Read(buf)
		if n > 0 {
			a.pending = [][]byte{buf[:n]}
		} else if err != nil && len(a.out) < len(a.payload) {
			return fmt.Sprintf("REPLAY(interleaved): %s.Read failed with %v after %d of %d bytes", a.id, err, len(a.out), len(a.payload))
		}
	case "write":
		for _, p := range a.pending {
			a.out = append(a.out, p...)
		}
		a.pending = nil
		return a.check(step)
	case "writeto":
		a.took, a.how = true, "WriteTo"
		if _, err := a.cs.WriteTo(c06IlSink{a, w}); err != nil {
			return fmt.Sprintf("REPLAY(interleaved): %s.WriteTo: %v", a.id, err)
		}
		return a.check(step)
	case "copy_remainder":
		a.how = "CopyRelayRemainder"
		if _, err := a.cs.CopyRelayRemainder(c06IlSink{a, w}, make([]byte, a.sizes[0])); err != nil {
			return fmt.Sprintf("REPLAY(interleaved): %s.CopyRelayRemainder: %v", a.id, err)
		}
		return a.check(step)
	case "close":
		_ = a.cs.Close()
		a.closed = true
	}
	return ""
}

func (a *c06StreamActor) final() string {
	if !bytes.Equal(a.out, a.payload) {
		if f := a.check("end"); f != "" {
			return f
		}
		return fmt.Sprintf("REPLAY(interleaved): connection %s relayed %d of %d client bytes", a.id, len(a.out), len(a.payload))
	}
	return ""
}

// ---------------------------------------------------------------- datagram actor

type c06PacketActor struct {
	id    string
	dgs   [][]byte
	next  int
	s     *Sniffer
	held  [][]byte // Data() as returned after the last SniffUdp (aliases)
	skip  int
	done  bool
	style string
}

func (a *c06PacketActor) name() string { return a.id }

func (a *c06PacketActor) options() []string {
	switch {
	case a.done:
		return nil
	case a.next >= len(a.dgs):
		return []string{"close", "replay"}
	case a.held != nil:
		return []string{"feed", "replay"}
	}
	return []string{"feed"}
}

func (a *c06PacketActor) verify(step string) string {
	if len(a.held) != a.skip+a.next {
		return fmt.Sprintf("flow %s: Data() has %d entries after %d datagrams", a.id, len(a.held), a.next)
	}
	for j := 0; j < a.next; j++ {
		if !bytes.Equal(a.held[a.skip+j], a.dgs[j]) {
			return fmt.Sprintf("REPLAY(interleaved): flow %s: at step %q Data()[%d] no longer equals ingress datagram %d (another flow was sniffed in between)", a.id, step, a.skip+j, j)
		}
	}
	return ""
}

func (a *c06PacketActor) do(step string, w *c06IlWorld) string {
	switch step {
	case "feed":
		if a.held != nil {
			if f := a.verify("before feed"); f != "" {
				return f
			}
		}
		d := append([]byte(nil), a.dgs[a.next]...)
		if a.s == nil {
			if a.style == "ctor" {
				a.s, a.skip = NewPacketSniffer(d, 5*time.Second), 0
			} else {
				a.s, a.skip = NewPacketSniffer(nil, 5*time.Second), 1
				a.s.AppendData(d)
			}
		} else {
			a.s.AppendData(d)
		}
		a.next++
		_, _ = a.s.SniffUdp()
		a.held = a.s.Data()
		return a.verify(step)
	case "replay":
		// what handlePkt does when the sniff completes: copy Data() now
		return a.verify(step)
	case "close":
		if f := a.verify(step); f != "" {
			return f
		}
		_ = a.s.Close()
		a.done = true
	}
	return ""
}

func (a *c06PacketActor) final() string { return "" }

// ---------------------------------------------------------------- property

type c06IlPlan struct {
	Streams [][]byte
	Cuts    [][]int
	Sizes   [][]int
	Flights [][][]byte
	Styles  []string
	Ghosts  [][]byte
	Script  []int
	Kinds   []string
}

func c06GenIlPlan(t *rapid.T) *c06IlPlan {
	p := &c06IlPlan{}
	n := rapid.IntRange(2, 3).Draw(t, "nactors")
	var firstLen int
	for i := 0; i < n; i++ {
		if i > 0 && rapid.IntRange(0, 3).Draw(t, "packetactor") == 3 {
			q := c06GenQuicPlan(t)
			p.Flights = append(p.Flights, q.Datagrams)
			p.Styles = append(p.Styles, q.Style)
			p.Kinds = append(p.Kinds, "flow")
			continue
		}
		var pl []byte
		switch rapid.IntRange(0, 3).Draw(t, "streamkind") {
		case 0:
			pl = c06GenHTTP(t).Head
		case 1:
			pl = c06Bytes(t, "rawstream", 1, 900)
		default:
			pl = c06Records(c06GenHello(t, false).HS, 0x0301, nil)
		}
		if rapid.Bool().Draw(t, "tail") {
			pl = append(append([]byte(nil), pl...), c06Bytes(t, "iltail", 1, 300)...)
		}
		if i > 0 && firstLen > 0 && rapid.IntRange(0, 2).Draw(t, "samesize") == 0 {
			// same length as the first connection's stream, different bytes
			pl = bytes.Repeat([]byte{byte('B' + i)}, firstLen)
		}
		if i == 0 {
			firstLen = len(pl)
		}
		var cuts []int
		if len(pl) > 2 && rapid.Bool().Draw(t, "twochunks") {
			cuts = append(cuts, rapid.IntRange(1, len(pl)-1).Draw(t, "ilcut"))
		}
		cuts = append(cuts, len(pl))
		p.Streams = append(p.Streams, pl)
		p.Cuts = append(p.Cuts, cuts)
		p.Sizes = append(p.Sizes, rapid.SliceOfN(rapid.SampledFrom([]int{7, 64, 512, 4096, 32 << 10}), 1, 3).Draw(t, "ilreadsizes"))
		p.Kinds = append(p.Kinds, "conn")
	}
	for i := rapid.IntRange(1, 3).Draw(t, "nghosts"); i > 0; i-- {
		g := bytes.Repeat([]byte{byte('g' + i)}, rapid.SampledFrom([]int{firstLen, firstLen, 40, 700, 3000}).Draw(t, "ghostlen")+1)
		if rapid.Bool().Draw(t, "ghosthttp") {
			g = append([]byte("GET /ghost HTTP/1.1\r\nHost: ghost.invalid\r\n\r\n"), g...)
		}
		p.Ghosts = append(p.Ghosts, g)
	}
	p.Script = rapid.SliceOfN(rapid.IntRange(0, 1<<16), 30, 120).Draw(t, "script")
	return p
}

func c06RunInterleave(p *c06IlPlan) (fail string, trace []string) {
	w := &c06IlWorld{ghosts: p.Ghosts, script: p.Script}
	defer func() {
		if r := recover(); r != nil {
			fail = fmt.Sprintf("PANIC in sniffing code: %v\n%s", r, debug.Stack())
			trace = w.trace
		}
	}()
	si, fi := 0, 0
	for i, k := range p.Kinds {
		if k == "conn" {
			w.actors = append(w.actors, &c06StreamActor{id: fmt.Sprintf("%c", 'A'+i), payload: p.Streams[si], cuts: p.Cuts[si], sizes: p.Sizes[si]})
			si++
		} else {
			w.actors = append(w.actors, &c06PacketActor{id: fmt.Sprintf("%c(udp)", 'A'+i), dgs: p.Flights[fi], style: p.Styles[fi]})
			fi++
		}
	}
	for step := 0; step < 4000; step++ {
		var live []c06Actor
		for _, a := range w.actors {
			if len(a.options()) > 0 {
				live = append(live, a)
			}
		}
		if len(live) == 0 {
			break
		}
		if w.pick(5) == 0 {
			w.ghost("between steps")
		}
		a := live[w.pick(len(live))]
		opts := a.options()
		st := opts[w.pick(len(opts))]
		w.trace = append(w.trace, a.name()+"."+st)
		if f := a.do(st, w); f != "" {
			return f, w.trace
		}
	}
	for _, a := range w.actors {
		if len(a.options()) > 0 {
			return "HARNESS: interleaving did not finish", w.trace
		}
		if f := a.final(); f != "" {
			return f, w.trace
		}
	}
	return "", w.trace
}

func TestC06_Interleave(t *testing.T) {
	rapid.Check(t, func(rt *rapid.T) {
		p := c06GenIlPlan(rt)
		var fail string
		var trace []string
		synctest.Test(t, func(*testing.T) { fail, trace = c06RunInterleave(p) })
		if fail != "" {
			rt.Fatalf("%s\nsteps: %v", fail, trace)
		}
		ghosts, takes := 0, map[string]bool{}
		for _, s := range trace {
			if len(s) > 5 && s[:5] == "ghost" {
				ghosts++
			}
		}
		classes := []string{fmt.Sprintf("actors:%d", len(p.Kinds)), fmt.Sprintf("flows:%d", len(p.Flights)), fmt.Sprintf("ghost_conns:%d", min(ghosts, 6))}
		for _, s := range trace {
			for _, k := range []string{"take_prefix", "take_segments", "read", "writeto", "copy_remainder", "feed", "replay"} {
				if len(s) > len(k) && s[len(s)-len(k):] == k && !takes[k] {
					takes[k] = true
					classes = append(classes, "step:"+k)
				}
			}
		}
		vkCase("C06.interleave", fmt.Sprint(trace)+fmt.Sprintf("|%x", p.Streams), func() any {
			return map[string]any{"actors": p.Kinds, "steps": trace}
		}, classes...)
	})
}

package sniffing

// C06 — stream half: ConnSniffer.SniffTcp over a scripted in-memory connection with
// real deadline semantics, run under a virtual clock (testing/synctest), then the
// client stream is drained back through Read / WriteTo / TakeRelayPrefix and must be
// byte for byte what the client sent.

import (
	"bytes"
	"context"
	"errors"
	"fmt"
	"io"
	"net"
	"os"
	"runtime"
	"runtime/debug"
	"sort"
	"sync"
	"testing"
	"testing/synctest"
	"time"

	"pgregory.net/rapid"
)

// ---------------------------------------------------------------- scripted connection

type c06Addr struct{}

func (c06Addr) Network() string { return "c06" }
func (c06Addr) String() string  { return "c06" }

// c06Conn delivers data[0:cuts[0]] at start+at[0], data[cuts[0]:cuts[1]] at
// start+at[1], ... One Read returns bytes of one chunk only, or (coalesce) everything
// that has arrived. Read deadlines behave like those of a socket: an expired
// deadline wins over available data, a blocked Read wakes up at the deadline.
// Every Read costs 1µs of (virtual) time so that no loop around Read can spin
// without the clock advancing; a Read at EOF costs eofCost.
type c06Conn struct {
	mu         sync.Mutex
	data       []byte
	cuts       []int
	at         []time.Duration
	start      time.Time
	coalesce   bool
	eof        bool
	noDeadline bool
	eofCost    time.Duration

	off      int
	deadline time.Time
	wake     chan struct{}
	closed   bool

	reads    []int // n of every Read that returned data
	eofReads int
	timeouts int
	written  bytes.Buffer
	closes   int
}

func c06NewConn(data []byte, cuts []int, at []time.Duration) *c06Conn {
	return &c06Conn{data: data, cuts: cuts, at: at, start: time.Now(), wake: make(chan struct{}), eofCost: time.Microsecond}
}

func (c *c06Conn) chunkOf(off int) int {
	return sort.SearchInts(c.cuts, off+1)
}

func (c *c06Conn) Read(p []byte) (int, error) {
	time.Sleep(time.Microsecond)
	for {
		c.mu.Lock()
		if c.closed {
			c.mu.Unlock()
			return 0, net.ErrClosed
		}
		now := time.Now()
		if !c.deadline.IsZero() && !now.Before(c.deadline) {
			c.timeouts++
			c.mu.Unlock()
			return 0, os.ErrDeadlineExceeded
		}
		if len(p) == 0 {
			c.mu.Unlock()
			return 0, nil
		}
		var wait time.Duration = -1
		if c.off < len(c.data) {
			k := c.chunkOf(c.off)
			arr := c.start.Add(c.at[k])
			if !now.Before(arr) {
				end := c.cuts[k]
				if c.coalesce {
					for k+1 < len(c.cuts) && !now.Before(c.start.Add(c.at[k+1])) {
						k++
						end = c.cuts[k]
					}
				}
				n := copy(p, c.data[c.off:end])
				c.off += n
				c.reads = append(c.reads, n)
				c.mu.Unlock()
				return n, nil
			}
			wait = arr.Sub(now)
		} else if c.eof {
			c.eofReads++
			cost := c.eofCost
			c.mu.Unlock()
			time.Sleep(cost)
			return 0, io.EOF
		}
		if !c.deadline.IsZero() {
			if d := c.deadline.Sub(now); wait < 0 || d < wait {
				wait = d
			}
		}
		w := c.wake
		c.mu.Unlock()
		if wait < 0 {
			<-w // nothing will ever arrive: only a deadline change or Close wakes us
			continue
		}
		tm := time.NewTimer(wait)
		select {
		case <-tm.C:
		case <-w:
			tm.Stop()
		}
	}
}

func (c *c06Conn) Write(p []byte) (int, error) {
	c.mu.Lock()
	defer c.mu.Unlock()
	if c.closed {
		return 0, net.ErrClosed
	}
	return c.written.Write(p)
}

func (c *c06Conn) Close() error {
	c.mu.Lock()
	defer c.mu.Unlock()
	c.closes++
	if !c.closed {
		c.closed = true
		close(c.wake)
		c.wake = make(chan struct{})
	}
	return nil
}

func (c *c06Conn) SetReadDeadline(t time.Time) error {
	if c.noDeadline {
		return errors.New("c06: deadlines not supported")
	}
	c.mu.Lock()
	defer c.mu.Unlock()
	c.deadline = t
	close(c.wake)
	c.wake = make(chan struct{})
	return nil
}
func (c *c06Conn) SetDeadline(t time.Time) error      { return c.SetReadDeadline(t) }
func (c *c06Conn) SetWriteDeadline(t time.Time) error { return nil }
func (c *c06Conn) LocalAddr() net.Addr                { return c06Addr{} }
func (c *c06Conn) RemoteAddr() net.Addr               { return c06Addr{} }

// ---------------------------------------------------------------- plan

type c06StreamPlan struct {
	Kind       string
	Payload    []byte
	HeadLen    int    // bytes of the protocol head at the start of Payload (0 = none)
	Proto      string // "tls" | "http" | "" : protocol of an intact positive head
	Want       string
	Mutated    bool // head was truncated / bit-flipped / random: expectations come from the strict reference only
	Cuts       []int
	At         []time.Duration
	Coalesce   bool
	EOF        bool
	NoDeadline bool
	Timeout    time.Duration
	Drain      string
	ReadSizes  []int
	Classes    []string
	Excluded   []string
}

var c06DrainModes = []string{"read", "read", "writeto", "prefix_copy", "prefix_read", "segments_read"}

func c06GenStreamPlan(t *rapid.T) *c06StreamPlan {
	p := &c06StreamPlan{}
	p.Kind = rapid.SampledFrom([]string{
		"tls", "tls", "tls", "tls", "tls", "tls", "tls_real", "tls_frag",
		"http", "http", "http", "http", "http",
		"neg_trunc", "neg_trunc", "neg_flip", "neg_flip", "neg_random",
	}).Draw(t, "kind")
	var head []byte
	var httpHead *c06HTTPHead
	genPositive := func(proto string) {
		switch proto {
		case "tls":
			h := c06GenHello(t, false)
			recVer := rapid.SampledFrom([]int{0x0301, 0x0301, 0x0303, 0x0302}).Draw(t, "recordversion")
			head = c06Records(h.HS, recVer, nil)
			p.Want, p.Proto = h.Want, "tls"
			p.Classes = append(p.Classes, h.Classes...)
			// harness self-consistency: generator and strict reference must agree.
			if r, _ := c06RefTLSStream(head); r.WellFormed && r.HasName && r.Name != h.Want {
				t.Fatalf("HARNESS BUG: strict reference reads %q, generator encoded %q", r.Name, h.Want)
			}
		case "http":
			httpHead = c06GenHTTP(t)
			head = httpHead.Head
			p.Want, p.Proto = httpHead.Want, "http"
			p.Classes = append(p.Classes, httpHead.Classes...)
			if ok, w, n := c06RefHTTP(head); ok && (!c06SameName(w, httpHead.Want) || n != len(head)) {
				t.Fatalf("HARNESS BUG: strict HTTP reference reads %q/%d, generator encoded %q/%d", w, n, httpHead.Want, len(head))
			}
		}
	}
	switch p.Kind {
	case "tls":
		genPositive("tls")
	case "tls_real":
		name := rapid.SampledFrom(c06RealNames).Draw(t, "realname")
		head = c06RealHello(name, rapid.IntRange(0, 3).Draw(t, "realvariant"))
		if len(head) < 50 {
			t.Fatalf("HARNESS BUG: crypto/tls produced no ClientHello")
		}
		p.Want, p.Proto = name, "tls"
		if head[3] == 0 && head[4] == 0 || 5+(int(head[3])<<8|int(head[4])) < len(head) {
			p.Proto = "" // crypto/tls itself fragmented the hello over records: no must-find
			p.Classes = append(p.Classes, "tls:real_fragmented")
		}
	case "tls_frag":
		h := c06GenHello(t, false)
		n := rapid.IntRange(1, 2).Draw(t, "nfragcuts")
		cuts := rapid.SliceOfNDistinct(rapid.IntRange(1, len(h.HS)-1), n, n, func(i int) int { return i }).Draw(t, "fragcuts")
		sort.Ints(cuts)
		head = c06Records(h.HS, 0x0301, cuts)
		p.Want = h.Want // no must-find (Proto stays ""): only "never a wrong name"
	case "http":
		genPositive("http")
	case "neg_trunc", "neg_flip":
		genPositive(rapid.SampledFrom([]string{"tls", "tls", "http"}).Draw(t, "baseproto"))
		p.Mutated = true
		p.Classes = append(p.Classes, p.Kind+":"+p.Proto)
		if p.Kind == "neg_trunc" {
			k := rapid.IntRange(0, len(head)-1).Draw(t, "trunc")
			if rapid.Bool().Draw(t, "truncnearend") {
				k = len(head) - 1 - rapid.IntRange(0, min(20, len(head)-1)).Draw(t, "truncback")
			}
			head = head[:k]
		} else {
			head = append([]byte(nil), head...)
			i := rapid.IntRange(0, len(head)-1).Draw(t, "flipbyte")
			if rapid.IntRange(0, 2).Draw(t, "flipearly") == 0 {
				i = rapid.IntRange(0, min(len(head)-1, 120)).Draw(t, "flipbyteearly")
			}
			head[i] ^= 1 << uint(rapid.IntRange(0, 7).Draw(t, "flipbit"))
		}
		if p.Kind == "neg_trunc" {
			httpHead = nil
		}
	case "neg_random":
		p.Mutated = true
		head = c06Bytes(t, "randombytes", 0, 600)
		magic := rapid.SampledFrom([]string{"", "", "\x16\x03\x01", "\x16\x03\x03\x00\x40\x01\x00\x00\x3c\x03\x03", "GET ", "POST / HTTP/1.1\r\n", "Host: " + c06Decoy + "\r\n"}).Draw(t, "magic")
		head = append([]byte(magic), head...)
	}
	p.HeadLen = len(head)
	p.Payload = append([]byte(nil), head...)
	if p.Kind != "neg_trunc" && rapid.IntRange(0, 9).Draw(t, "hastail") < 6 {
		tail := c06Bytes(t, "tail", 1, 600)
		if rapid.IntRange(0, 4).Draw(t, "decoytail") == 0 {
			tail = append([]byte("Host: "+c06Decoy+"\r\n\r\n"), tail...)
		}
		if rapid.IntRange(0, 5).Draw(t, "bigtail") == 0 {
			tail = append(tail, bytes.Repeat(tail, 40)...)
		}
		p.Payload = append(p.Payload, tail...)
	}
	n := len(p.Payload)

	// chunking
	if n > 0 {
		ncuts := rapid.SampledFrom([]int{0, 1, 1, 2, 2, 3, 4, 6}).Draw(t, "ncuts")
		set := map[int]bool{}
		for i := 0; i < ncuts && n > 1; i++ {
			var c int
			switch rapid.IntRange(0, 7).Draw(t, "cutkind") {
			case 6:
				c = rapid.IntRange(1, min(8, n-1)).Draw(t, "cutinheader")
			case 2, 5:
				c = p.HeadLen + rapid.IntRange(-3, 3).Draw(t, "cutatheadend")
			case 3, 4:
				if httpHead != nil && httpHead.HostEnd > 0 {
					c = rapid.IntRange(httpHead.HostLineStart, httpHead.HostEnd).Draw(t, "cutinhostline")
				} else {
					c = rapid.IntRange(1, min(n-1, 200)).Draw(t, "cutearly")
				}
			default:
				c = rapid.IntRange(1, n-1).Draw(t, "cutany")
			}
			if c >= 1 && c <= n-1 {
				set[c] = true
			}
		}
		if httpHead != nil && httpHead.HostEnd > 0 && vkKnown("F-C06-2") {
			// known finding: a read boundary strictly inside the Host value makes the
			// sniffer report the truncated value. Steer those cuts to the end of the line.
			for c := range set {
				if c > httpHead.ValStart && c < httpHead.ValEnd {
					delete(set, c)
					set[httpHead.HostEnd] = true
					p.Excluded = append(p.Excluded, "F-C06-2")
				}
			}
			delete(set, n)
		}
		for c := range set {
			p.Cuts = append(p.Cuts, c)
		}
		sort.Ints(p.Cuts)
		p.Cuts = append(p.Cuts, n)
	}
	p.Timeout = rapid.SampledFrom([]time.Duration{20 * time.Millisecond, 100 * time.Millisecond, 100 * time.Millisecond, time.Second}).Draw(t, "timeout")
	calm := rapid.IntRange(0, 9).Draw(t, "calm") < 6 // all head chunks well inside the timeout
	var cum time.Duration
	prev := 0
	for i, c := range p.Cuts {
		var d time.Duration
		inHead := prev < p.HeadLen
		switch {
		case i == 0:
			d = rapid.SampledFrom([]time.Duration{0, 0, 0, time.Millisecond, p.Timeout / 4}).Draw(t, "firstdelay")
			if !calm && rapid.IntRange(0, 9).Draw(t, "silentclient") == 0 {
				d = p.Timeout + 50*time.Millisecond
			}
		case inHead && calm:
			d = rapid.SampledFrom([]time.Duration{0, 0, time.Microsecond, time.Millisecond, p.Timeout / 16}).Draw(t, "calmdelay")
		case inHead:
			d = rapid.SampledFrom([]time.Duration{0, time.Millisecond, p.Timeout / 4, p.Timeout / 2, p.Timeout + 50*time.Millisecond, 3 * p.Timeout}).Draw(t, "delay")
		default:
			d = rapid.SampledFrom([]time.Duration{0, 0, time.Millisecond, p.Timeout * 2, 5 * time.Minute}).Draw(t, "taildelay")
		}
		cum += d
		p.At = append(p.At, cum)
		prev = c
	}
	p.Coalesce = rapid.Bool().Draw(t, "coalesce")
	p.Drain = rapid.SampledFrom(c06DrainModes).Draw(t, "drain")
	p.EOF = rapid.Bool().Draw(t, "eof") || p.Drain == "writeto" || p.Drain == "prefix_copy"
	p.ReadSizes = rapid.SliceOfN(rapid.SampledFrom([]int{1, 2, 7, 64, 512, 4096, 32 << 10}), 1, 6).Draw(t, "readsizes")
	// a connection without deadline support (context-based read path of the sniffer):
	// only for intact heads that arrive at once, so that the sniffer never has to give
	// up on a pending read (production connections always support deadlines).
	if cum == 0 && p.EOF && !p.Mutated && rapid.IntRange(0, 9).Draw(t, "nodeadlineconn") == 0 {
		p.NoDeadline = true
	}
	return p
}

// ---------------------------------------------------------------- execution + oracle

type c06StreamResult struct {
	Name       string
	Err        error
	Outcome    string
	FirstRead  int
	Chunks     int
	TimedOut   bool
	EOFSpin    int
	MustFind   bool
	NonTrivial bool
	Excluded   []string
}

// c06RunStream executes the plan (inside a synctest bubble) and returns "" or a
// description of the violated expectation.
func c06RunStream(p *c06StreamPlan, res *c06StreamResult) (fail string) {
	defer func() {
		if r := recover(); r != nil {
			fail = fmt.Sprintf("PANIC in sniffing code: %v\n%s", r, debug.Stack())
		}
	}()
	conn := c06NewConn(p.Payload, p.Cuts, p.At)
	conn.coalesce, conn.eof, conn.noDeadline = p.Coalesce, p.EOF, p.NoDeadline
	conn.eofCost = p.Timeout / 64
	if p.Kind == "fuzz" {
		conn.eofCost = p.Timeout / 4 // fewer turns of the EOF re-read loop per exec
	}
	cs := NewConnSniffer(conn, p.Timeout)
	defer func() {
		// tear down whatever happened, so that no goroutine stays blocked in the bubble
		_ = conn.Close()
		_ = cs.Sniffer.Close()
		if p.NoDeadline {
			// the context-based read path of the sniffer uses helper goroutines; let them finish
			time.Sleep(2 * p.Timeout)
			synctest.Wait()
		}
	}()
	t0 := time.Now()
	d, err := cs.SniffTcp()
	elapsed := time.Since(t0)
	res.Name, res.Err = d, err
	res.Chunks = len(p.Cuts)
	res.TimedOut = conn.timeouts > 0 || errors.Is(err, context.DeadlineExceeded)
	res.EOFSpin = conn.eofReads
	if len(conn.reads) > 0 {
		res.FirstRead = conn.reads[0]
	}
	switch {
	case err == nil && d != "":
		res.Outcome = "found"
	case err == nil:
		res.Outcome = "empty_name"
	case res.TimedOut:
		res.Outcome = "timed_out"
	case errors.Is(err, ErrNotFound):
		res.Outcome = "not_found"
	case errors.Is(err, ErrNotApplicable):
		res.Outcome = "not_applicable"
	default:
		res.Outcome = "other_error"
	}

	// (1) returns within the timeout (virtual clock; 1ms covers the per-Read costs)
	if elapsed > p.Timeout+p.Timeout/32+time.Millisecond {
		return fmt.Sprintf("SniffTcp returned after %v, sniffing timeout is %v", elapsed, p.Timeout)
	}
	// (2) result is a name or a typed sniffing error
	if err != nil && !IsSniffingError(err) {
		return fmt.Sprintf("SniffTcp error is not a sniffing error: %v", err)
	}
	if err != nil && d != "" {
		return fmt.Sprintf("SniffTcp returned both a name %q and an error %v", d, err)
	}

	// (3) expectations
	want, known := p.Want, !p.Mutated // known: the generator knows what the stream carries
	mustFind := false
	lastHeadArrival := time.Duration(0)
	if p.HeadLen > 0 && len(p.Cuts) > 0 {
		lastHeadArrival = p.At[conn.chunkOf(p.HeadLen-1)]
	}
	inTime := lastHeadArrival <= p.Timeout-time.Millisecond-time.Duration(len(p.Cuts))*2*time.Microsecond
	strictProto := ""
	if p.Mutated {
		if r, recLen := c06RefTLSStream(p.Payload); r.WellFormed {
			known, strictProto = true, "tls"
			want = ""
			if r.HasName {
				want = r.Name
			}
			lastHeadArrival = p.At[conn.chunkOf(recLen-1)]
			inTime = lastHeadArrival <= p.Timeout-time.Millisecond-time.Duration(len(p.Cuts))*2*time.Microsecond
			mustFind = want != "" && res.FirstRead >= 5 && inTime
		} else if ok, w, hl := c06RefHTTP(p.Payload); ok {
			known, strictProto = true, "http"
			want = w
			mustFind = res.FirstRead >= hl
		}
	} else {
		switch p.Proto {
		case "tls":
			mustFind = want != "" && res.FirstRead >= 5 && inTime
		case "http":
			mustFind = want != "" && res.FirstRead >= p.HeadLen
		}
	}
	_ = strictProto
	res.MustFind = mustFind
	if d != "" {
		if known {
			if (want == "" || !c06SameName(d, want)) && vkKnown("F-C06-2") && !c06NoExclusion && c06EndsInsideHostLine(p.Payload[:min(res.FirstRead, len(p.Payload))]) {
				// known finding F-C06-2: the first read ended inside the Host line and the
				// truncated value was reported. Not judged; replay is still checked below.
				res.Excluded = append(res.Excluded, "F-C06-2")
			} else if want == "" || !c06SameName(d, want) {
				return fmt.Sprintf("WRONG NAME: sniffed %q, the stream carries %q", d, want)
			}
		} else if !c06NameCarried(d, p.Payload) {
			return fmt.Sprintf("WRONG NAME: sniffed %q does not occur in the client stream", d)
		}
	}
	if mustFind && (err != nil || !c06SameName(d, want)) {
		return fmt.Sprintf("MUST FIND: well-formed %s head (first read %d bytes, last head byte at +%v, timeout %v) carries %q; got %q, %v",
			p.Proto+strictProto, res.FirstRead, lastHeadArrival, p.Timeout, want, d, err)
	}
	if err == nil && d != "" {
		if d2, err2 := cs.SniffTcp(); err2 != nil || d2 != d {
			return fmt.Sprintf("second SniffTcp after success returned %q, %v (first %q)", d2, err2, d)
		}
	}

	// (4) replay: whatever happened, the relay gets exactly the client stream
	drain := p.Drain
	if res.TimedOut && len(p.Payload) > 0 && (drain == "read" || drain == "prefix_read" || drain == "segments_read") && vkKnown("F6") && !c06NoExclusion {
		// known finding F6: after a timed-out sniff read Sniffer.Read returns the stored
		// error with every call (also together with buffered bytes) for ever. Drain this
		// shape through the paths that bypass Sniffer.Read.
		res.Excluded = append(res.Excluded, "F6")
		drain = "writeto"
		conn.mu.Lock()
		conn.eof = true
		conn.mu.Unlock()
	}
	var got []byte
	readLoop := func() string {
		for i := 0; len(got) < len(p.Payload); i++ {
			buf := make([]byte, p.ReadSizes[i%len(p.ReadSizes)])
			n, rerr := cs.Read(buf)
			got = append(got, buf[:n]...)
			if rerr != nil && len(got) < len(p.Payload) {
				return fmt.Sprintf("REPLAY(%s): Read failed with %v after %d of %d client bytes (sniff outcome %s)", drain, rerr, len(got), len(p.Payload), res.Outcome)
			}
			if n == 0 && rerr == nil && i > 4*len(p.Payload)+64 {
				return "REPLAY: Read keeps returning 0, nil"
			}
		}
		if p.EOF {
			buf := make([]byte, 16)
			if n, rerr := cs.Read(buf); n != 0 || rerr == nil {
				return fmt.Sprintf("REPLAY(%s): Read after the end of the client stream returned %d, %v", drain, n, rerr)
			}
		}
		return ""
	}
	var sink bytes.Buffer
	switch drain {
	case "read":
		if f := readLoop(); f != "" {
			return f
		}
	case "writeto":
		n, werr := cs.WriteTo(&sink)
		got = sink.Bytes()
		if werr != nil || n != int64(len(got)) {
			return fmt.Sprintf("REPLAY(writeto): WriteTo returned %d, %v with %d bytes written", n, werr, len(got))
		}
	case "prefix_copy":
		got = append(got, cs.TakeRelayPrefix()...)
		if again := cs.TakeRelayPrefix(); len(again) != 0 {
			return fmt.Sprintf("REPLAY(prefix_copy): second TakeRelayPrefix returned %d bytes again", len(again))
		}
		n, cerr := cs.CopyRelayRemainder(&sink, make([]byte, p.ReadSizes[0]))
		got = append(got, sink.Bytes()...)
		if cerr != nil || n != int64(sink.Len()) {
			return fmt.Sprintf("REPLAY(prefix_copy): CopyRelayRemainder returned %d, %v", n, cerr)
		}
	case "prefix_read":
		got = append(got, cs.TakeRelayPrefix()...)
		if again := cs.TakeRelayPrefix(); len(again) != 0 {
			return fmt.Sprintf("REPLAY(prefix_read): second TakeRelayPrefix returned %d bytes again", len(again))
		}
		if f := readLoop(); f != "" {
			return f
		}
	case "segments_read":
		for _, s := range cs.TakeRelaySegments() {
			got = append(got, s...)
		}
		if f := readLoop(); f != "" {
			return f
		}
	}
	if !bytes.Equal(got, p.Payload) {
		i := 0
		for i < len(got) && i < len(p.Payload) && got[i] == p.Payload[i] {
			i++
		}
		return fmt.Sprintf("REPLAY(%s): relay received %d bytes, client sent %d; first difference at offset %d (sniff outcome %s, first read %d)",
			drain, len(got), len(p.Payload), i, res.Outcome, res.FirstRead)
	}

	// (5) the connection is still usable in the other direction
	if n, werr := cs.Write([]byte("c06-pong")); n != 8 || werr != nil {
		return fmt.Sprintf("Write after sniffing: %d, %v", n, werr)
	}
	if n, rerr := cs.ReadFrom(bytes.NewReader(bytes.Repeat([]byte("x"), 70000))); n != 70000 || rerr != nil {
		return fmt.Sprintf("ReadFrom after sniffing: %d, %v", n, rerr)
	}
	if w := conn.written.Bytes(); len(w) != 70008 || string(w[:8]) != "c06-pong" {
		return fmt.Sprintf("server->client bytes were altered: %d bytes reached the connection", len(w))
	}
	if cerr := cs.Close(); cerr != nil {
		return fmt.Sprintf("Close: %v", cerr)
	}
	_ = cs.Close()
	if !conn.closed {
		return "Close did not close the underlying connection"
	}
	res.NonTrivial = (!p.Mutated && p.Proto != "" && len(p.Cuts) >= 2 && p.Cuts[0] < p.HeadLen) || (p.Mutated && p.Kind != "neg_random")
	return ""
}

// c06EndsInsideHostLine: the bytes end with an unterminated header line whose field
// name is Host and whose value has begun (the shape of finding F-C06-2).
func c06EndsInsideHostLine(b []byte) bool {
	if i := bytes.LastIndex(b, []byte("\r\n")); i >= 0 {
		b = b[i+2:]
	}
	k, v, ok := bytes.Cut(b, []byte(":"))
	return ok && bytes.EqualFold(bytes.TrimSpace(k), []byte("host")) && len(bytes.TrimSpace(v)) > 0
}

func c06StreamInBubble(t *testing.T, p *c06StreamPlan, res *c06StreamResult) (fail string) {
	defer func() {
		if r := recover(); r != nil {
			buf := make([]byte, 1<<16)
			fail = fmt.Sprintf("synctest bubble did not wind down: %v (oracle verdict before that: %q)\n%s", r, fail, buf[:runtime.Stack(buf, true)])
		}
	}()
	synctest.Test(t, func(*testing.T) {
		fail = c06RunStream(p, res)
	})
	return fail
}

func c06PlanSummary(p *c06StreamPlan, res *c06StreamResult) map[string]any {
	at := make([]string, len(p.At))
	for i, d := range p.At {
		at[i] = d.String()
	}
	head := p.Payload
	if len(head) > 96 {
		head = head[:96]
	}
	return map[string]any{"kind": p.Kind, "want": p.Want, "payload_len": len(p.Payload), "head_len": p.HeadLen, "cuts": p.Cuts, "arrivals": at,
		"coalesce": p.Coalesce, "eof": p.EOF, "timeout": p.Timeout.String(), "drain": p.Drain, "outcome": res.Outcome, "name": res.Name,
		"payload_prefix_hex": fmt.Sprintf("%x", head)}
}

func TestC06_Stream(t *testing.T) {
	rapid.Check(t, func(rt *rapid.T) {
		p := c06GenStreamPlan(rt)
		res := &c06StreamResult{}
		if fail := c06StreamInBubble(t, p, res); fail != "" {
			rt.Fatalf("%s\ncase: %v", fail, c06PlanSummary(p, res))
		}
		for _, id := range append(p.Excluded, res.Excluded...) {
			vkExcluded("C06.stream", id)
		}
		if res.EOFSpin > 3 {
			vkNote("C06.stream", "observation (not part of the statement): a TLS record cut short by EOF makes SniffTcp re-read the closed connection in a tight loop until the sniff deadline (%d immediate EOF reads in one case)", res.EOFSpin)
		}
		classes := append([]string{"kind:" + p.Kind, "outcome:" + res.Outcome, "drain:" + p.Drain, fmt.Sprintf("chunks:%d", min(len(p.Cuts), 4)),
			fmt.Sprintf("mustfind:%v", res.MustFind), fmt.Sprintf("timedout:%v", res.TimedOut), fmt.Sprintf("eof:%v", p.EOF),
			fmt.Sprintf("nodeadline_conn:%v", p.NoDeadline), fmt.Sprintf("firstread_lt5:%v", res.FirstRead < 5), fmt.Sprintf("eof_spin:%v", res.EOFSpin > 3)}, p.Classes...)
		key := ""
		if res.NonTrivial {
			key = fmt.Sprintf("%x|%v|%v|%s|%v", p.Payload, p.Cuts, p.At, p.Drain, p.Coalesce)
		}
		vkCase("C06.stream", key, func() any { return c06PlanSummary(p, res) }, classes...)
	})
}

// ---------------------------------------------------------------- findings

func c06FixedHello(name string, padTo int) []byte {
	ext := []byte{}
	sni := c06EncodeSNI([]c06SNIEntry{{0, []byte(name)}})
	ext = append(ext, 0, 0)
	ext = append(ext, c06U16(len(sni))...)
	ext = append(ext, sni...)
	ext = append(ext, 0, 43, 0, 3, 2, 3, 4)
	body := []byte{3, 3}
	body = append(body, bytes.Repeat([]byte{0xab}, 32)...)
	body = append(body, 0, 0, 2, 0x13, 0x01, 1, 0)
	if pad := padTo - 5 - 4 - len(body) - 2 - len(ext) - 4; pad >= 0 {
		ext = append(ext, 0, 21)
		ext = append(ext, c06U16(pad)...)
		ext = append(ext, make([]byte, pad)...)
	}
	body = append(body, c06U16(len(ext))...)
	body = append(body, ext...)
	hs := append([]byte{1, byte(len(body) >> 16), byte(len(body) >> 8), byte(len(body))}, body...)
	return c06Records(hs, 0x0301, nil)
}

// TestC06_Finding_F6: a 1507-byte ClientHello whose first 100 bytes arrive at once
// and whose rest arrives after the sniff timeout. Sniffing may give up, but the
// relay must still receive all 1507 bytes through Read.
func TestC06_Finding_F6(t *testing.T) {
	hello := c06FixedHello("slow.example.com", 1507)
	if len(hello) != 1507 {
		t.Fatalf("HARNESS BUG: hello has %d bytes", len(hello))
	}
	for _, drain := range []string{"read", "prefix_read"} {
		p := &c06StreamPlan{Kind: "tls", Payload: hello, HeadLen: len(hello), Proto: "tls", Want: "slow.example.com", Cuts: []int{100, 1507},
			At: []time.Duration{0, 150 * time.Millisecond}, Timeout: 100 * time.Millisecond, Drain: drain, ReadSizes: []int{4096}, EOF: true}
		// run with the exclusion disabled: this test wants to see the raw behaviour
		var fail string
		res := &c06StreamResult{}
		synctest.Test(t, func(*testing.T) { fail = c06RunStreamNoExclusion(p, res) })
		known := vkKnown("F6")
		switch {
		case fail == "" && known:
			t.Logf("F6 is listed as known but no longer reproduces (%s drain delivered all %d bytes)", drain, len(hello))
		case fail == "":
		case known:
			t.Logf("F6 reproduced (%s): %s", drain, fail)
			vkKnownReproduced("F6")
		default:
			t.Fatalf("F6: slow ClientHello is cut off after the sniff timeout: %s", fail)
		}
		vkCase("C06.findings", "F6|"+drain, func() any { return map[string]any{"finding": "F6", "drain": drain, "result": fail} }, "F6:"+drain)
	}
}

var c06NoExclusion bool

func c06RunStreamNoExclusion(p *c06StreamPlan, res *c06StreamResult) string {
	c06NoExclusion = true
	defer func() { c06NoExclusion = false }()
	return c06RunStream(p, res)
}

// TestC06_Finding_FC062: an HTTP request head whose first read ends inside the Host
// value. The sniffer may report nothing, but never the truncated value.
func TestC06_Finding_FC062(t *testing.T) {
	req := []byte("GET / HTTP/1.1\r\nHost: example.com\r\nAccept: */*\r\n\r\n")
	cut := bytes.Index(req, []byte("exam")) + 4
	p := &c06StreamPlan{Kind: "http", Payload: req, HeadLen: len(req), Proto: "http", Want: "example.com", Cuts: []int{cut, len(req)},
		At: []time.Duration{0, time.Millisecond}, Timeout: 100 * time.Millisecond, Drain: "read", ReadSizes: []int{512}, EOF: true}
	var fail string
	res := &c06StreamResult{}
	synctest.Test(t, func(*testing.T) { fail = c06RunStream(p, res) })
	known := vkKnown("F-C06-2")
	switch {
	case fail == "" && known:
		t.Logf("F-C06-2 is listed as known but no longer reproduces (got %q, %v)", res.Name, res.Err)
	case fail == "":
	case known:
		t.Logf("F-C06-2 reproduced: %s", fail)
		vkKnownReproduced("F-C06-2")
	default:
		t.Fatalf("F-C06-2: %s", fail)
	}
	vkCase("C06.findings", "F-C06-2", func() any { return map[string]any{"finding": "F-C06-2", "result": fail, "name": res.Name} }, "F-C06-2")
}

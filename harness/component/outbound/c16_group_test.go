package outbound

// C16 (group half) — every DialerGroup that contains a node sees the node's
// health state after each event; the group's alive-change callback (what
// control/connectivity.go turns into the kernel connectivity bit) is 0 exactly
// when a latency-policy group has no alive node of that type; a reload
// (CaptureReloadSelectionFallback -> RestoreHealthSnapshot(ReloadHealthSnapshot)
// -> EnsureReloadSelectionFloor) hands the last known state to the new
// generation and leaves every group at least one selectable node per type.
//
// Driven through the exported API only (this is not package dialer): threshold
// deaths by traffic (10 TCP / 50 UDP) and transactional DNS failures (3), forced
// reports, data-UDP traffic success, MarkAliveForReloadFallback with and without
// a latency sample. Nodes carry no proxy address here, so the per-address
// 3-deaths escalation (covered by the unit in package dialer) is out of play and
// the model stays exact. Reload suppression is never touched in this unit (its
// process-global window cannot be reset from outside package dialer).

import (
	"errors"
	"fmt"
	"io"
	"sort"
	"strings"
	"testing"
	"testing/synctest"
	"time"

	"github.com/daeuniverse/dae/common/consts"
	"github.com/daeuniverse/dae/component/outbound/dialer"
	D "github.com/daeuniverse/outbound/dialer"
	"github.com/daeuniverse/outbound/protocol/direct"
	"github.com/sirupsen/logrus"
	"pgregory.net/rapid"
)

const (
	c16GUnit = "C16.group"
	c16GF1   = "F-C16-1" // revival without latency sample never re-announces the group alive
)

var c16GDomNames = [6]string{"tcp4", "tcp6", "dnsudp4", "dnsudp6", "dataudp4", "dataudp6"}

func c16GType(dom int) *dialer.NetworkType {
	ip := consts.IpVersionStr_4
	if dom%2 == 1 {
		ip = consts.IpVersionStr_6
	}
	switch dom / 2 {
	case 0:
		return &dialer.NetworkType{L4Proto: consts.L4ProtoStr_TCP, IpVersion: ip}
	case 1:
		return &dialer.NetworkType{L4Proto: consts.L4ProtoStr_UDP, IpVersion: ip, IsDns: true, UdpHealthDomain: dialer.UdpHealthDomainDns}
	default:
		return &dialer.NetworkType{L4Proto: consts.L4ProtoStr_UDP, IpVersion: ip, UdpHealthDomain: dialer.UdpHealthDomainData}
	}
}

func c16GDomOf(nt *dialer.NetworkType) int {
	d := 0
	if nt.L4Proto == consts.L4ProtoStr_UDP {
		if nt.UdpHealthDomain == dialer.UdpHealthDomainDns {
			d = 1
		} else {
			d = 2
		}
	}
	if nt.IpVersion == consts.IpVersionStr_6 {
		return d*2 + 1
	}
	return d * 2
}

func c16GProbeThr(dom int) int {
	if dom >= 2 {
		return 3
	}
	return 1
}

func c16GTrafficThr(dom int) int {
	if dom >= 2 {
		return 50
	}
	return 10
}

type c16GCfg struct {
	policy  DialerSelectionPolicy
	members []int
}

type c16GGroup struct {
	cfg    c16GCfg
	g      *DialerGroup
	bit    [6]int
	inits  [6]int
	taint  [6]bool // known finding F-C16-1 shape hit; exempt until the set empties again
	prevCt [6]int
}

func (g *c16GGroup) needsAlive() bool { return g.cfg.policy.Policy != consts.DialerSelectionPolicy_Fixed }
func (g *c16GGroup) latency() bool {
	switch g.cfg.policy.Policy {
	case consts.DialerSelectionPolicy_MinLastLatency, consts.DialerSelectionPolicy_MinAverage10Latencies, consts.DialerSelectionPolicy_MinMovingAverageLatencies:
		return true
	}
	return false
}

type c16GTr struct {
	gen, node, dom int
	alive          bool
}

type c16GH struct {
	t       *rapid.T
	log     *logrus.Logger
	nn      int
	gcfg    []c16GCfg
	gen     int
	nodes   []*dialer.Dialer
	groups  []*c16GGroup
	alive   [][6]bool
	pf, tf  [][6]int
	obs     []c16GTr
	hist    []string
	classes map[string]bool
	nt      bool
	knownF1 bool
	// afterReload: verify() is looking at the state right after a reload.
	afterReload bool
}

func (h *c16GH) class(c string) { h.classes[c] = true }
func (h *c16GH) logf(f string, a ...any) {
	h.hist = append(h.hist, fmt.Sprintf(f, a...))
}
func (h *c16GH) failf(f string, a ...any) {
	h.t.Fatalf("%s\ngroups: %s\nhistory (%d steps):\n  %s", fmt.Sprintf(f, a...), h.cfgString(), len(h.hist), strings.Join(h.hist, "\n  "))
}
func (h *c16GH) cfgString() string {
	var s []string
	for i, c := range h.gcfg {
		s = append(s, fmt.Sprintf("g%d{%s/%d members=%v}", i, c.policy.Policy, c.policy.FixedIndex, c.members))
	}
	return strings.Join(s, " ")
}

func (h *c16GH) build() (nodes []*dialer.Dialer, groups []*c16GGroup) {
	h.gen++
	gen := h.gen
	opt := &dialer.GlobalOption{Log: h.log, CheckInterval: 30 * time.Second, CheckTolerance: 0}
	for i := 0; i < h.nn; i++ {
		d := dialer.NewDialer(direct.SymmetricDirect, opt, dialer.InstanceOption{DisableCheck: true}, &dialer.Property{
			Property: D.Property{Name: fmt.Sprintf("n%d", i)},
		})
		node := i
		d.RegisterAliveTransitionCallback(func(nt *dialer.NetworkType, alive bool) {
			h.obs = append(h.obs, c16GTr{gen, node, c16GDomOf(nt), alive})
		})
		nodes = append(nodes, d)
	}
	for gi, cfg := range h.gcfg {
		gg := &c16GGroup{cfg: cfg}
		ds := make([]*dialer.Dialer, len(cfg.members))
		annos := make([]*dialer.Annotation, len(cfg.members))
		for i, n := range cfg.members {
			ds[i] = nodes[n]
			annos[i] = &dialer.Annotation{}
		}
		gg.g = NewDialerGroup(opt, fmt.Sprintf("g%d", gi), ds, annos, cfg.policy, func(alive bool, nt *dialer.NetworkType, isInit bool) {
			dom := c16GDomOf(nt)
			if isInit {
				gg.inits[dom]++
			}
			if alive {
				gg.bit[dom] = 1
			} else {
				gg.bit[dom] = 0
			}
		})
		for dom := 0; dom < 6; dom++ {
			if gg.inits[dom] != 1 || gg.bit[dom] != 1 {
				h.failf("NewDialerGroup g%d: %s announced %d time(s) at init, bit=%d (want once, alive)", gi, c16GDomNames[dom], gg.inits[dom], gg.bit[dom])
			}
			gg.prevCt[dom] = len(cfg.members)
		}
		groups = append(groups, gg)
	}
	return nodes, groups
}

func (h *c16GH) closeGen(nodes []*dialer.Dialer, groups []*c16GGroup) {
	for _, g := range groups {
		_ = g.g.Close()
	}
	for _, d := range nodes {
		_ = d.Close()
	}
}

func (h *c16GH) count(g *c16GGroup, dom int) int {
	c := 0
	for _, n := range g.cfg.members {
		if h.alive[n][dom] {
			c++
		}
	}
	return c
}

// nodeHasLatency: does node n carry the latency sample policy sorts by.
func (h *c16GH) nodeHasLatency(n, dom int, policy consts.DialerSelectionPolicy) bool {
	hs := h.nodes[n].HealthSnapshot()
	nt := c16GType(dom)
	c := hs.Collections[nt.Index()]
	if policy == consts.DialerSelectionPolicy_MinMovingAverageLatencies {
		return c.MovingAverage > 0
	}
	return len(c.Latencies.Latencies) > 0
}

func (h *c16GH) verify(exp []c16GTr) {
	synctest.Wait()
	f := func(x []c16GTr) string {
		s := make([]string, len(x))
		for i, e := range x {
			s[i] = fmt.Sprintf("g%d/n%d/%s->%v", e.gen, e.node, c16GDomNames[e.dom], e.alive)
		}
		sort.Strings(s)
		return strings.Join(s, " ")
	}
	if got, want := f(h.obs), f(exp); got != want {
		h.failf("alive-transition callbacks: got [%s] want [%s]", got, want)
	}
	h.obs = h.obs[:0]
	for n, d := range h.nodes {
		for dom := 0; dom < 6; dom++ {
			if got := d.MustGetAlive(c16GType(dom)); got != h.alive[n][dom] {
				h.failf("node n%d %s alive=%v, model says %v", n, c16GDomNames[dom], got, h.alive[n][dom])
			}
		}
	}
	for gi, g := range h.groups {
		for dom := 0; dom < 6; dom++ {
			nt := c16GType(dom)
			set := g.g.MustGetAliveDialerSet(nt)
			cnt := h.count(g, dom)
			if !g.needsAlive() {
				if set != nil {
					h.failf("fixed-policy group g%d has an alive set", gi)
				}
				continue
			}
			if set == nil {
				h.failf("group g%d has no alive set for %s", gi, c16GDomNames[dom])
			}
			if l := set.Len(); l != cnt {
				h.failf("group g%d (%s) %s: alive set has %d entries but %d of its members %v are alive", gi, g.cfg.policy.Policy, c16GDomNames[dom], l, cnt, g.cfg.members)
			}
			// membership through selection: with exactly one alive member the set can
			// only hand out that member.
			if cnt == 1 {
				var want *dialer.Dialer
				for _, n := range g.cfg.members {
					if h.alive[n][dom] {
						want = h.nodes[n]
					}
				}
				if got := set.GetRand(); got != want {
					h.failf("group g%d %s: the single alive entry is not the alive member", gi, c16GDomNames[dom])
				}
			}
			if g.latency() {
				if cnt == 0 {
					g.taint[dom] = false
				}
				wantBit := 0
				if cnt > 0 {
					wantBit = 1
				}
				if g.bit[dom] != wantBit && h.knownF1 && g.bit[dom] == 0 && g.prevCt[dom] == 0 && cnt > 0 && !g.taint[dom] {
					// exact shape of the known finding: the set was empty and the node(s)
					// that just revived carry no latency sample.
					// (a reload revives several nodes in one step: there it is enough that
					// one of the alive members lacks a sample - it may have been the floor.)
					none, some := true, false
					for _, n := range g.cfg.members {
						if h.alive[n][dom] && h.nodeHasLatency(n, dom, g.cfg.policy.Policy) {
							none = false
						}
						if h.alive[n][dom] && !h.nodeHasLatency(n, dom, g.cfg.policy.Policy) {
							some = true
						}
					}
					if none || (h.afterReload && some) {
						g.taint[dom] = true
						vkExcluded(c16GUnit, c16GF1)
					}
				}
				if g.bit[dom] != wantBit && !g.taint[dom] {
					h.failf("group g%d (%s) %s: alive-change callback left bit=%d but %d member(s) alive", gi, g.cfg.policy.Policy, c16GDomNames[dom], g.bit[dom], cnt)
				}
			}
			g.prevCt[dom] = cnt
		}
	}
}

func (h *c16GH) die(n, dom int) []c16GTr {
	h.alive[n][dom] = false
	return []c16GTr{{h.gen, n, dom, false}}
}

func (h *c16GH) revive(n, dom int) (exp []c16GTr) {
	if !h.alive[n][dom] {
		h.alive[n][dom] = true
		exp = []c16GTr{{h.gen, n, dom, true}}
	}
	h.pf[n][dom], h.tf[n][dom] = 0, 0
	return exp
}

func (h *c16GH) evFail(n, dom int, kind string, rep int) {
	nt := c16GType(dom)
	err := errors.New("i/o timeout")
	for i := 0; i < rep; i++ {
		h.logf("%s n%d %s (%d/%d)", kind, n, c16GDomNames[dom], i+1, rep)
		var exp []c16GTr
		switch kind {
		case "traffic_fail":
			h.nodes[n].ReportUnavailable(nt, err)
			if h.alive[n][dom] {
				h.tf[n][dom]++
				if h.tf[n][dom] >= c16GTrafficThr(dom) {
					exp = h.die(n, dom)
					h.class("cross_traffic_threshold")
					h.nt = true
				}
			}
		case "trans_fail":
			h.nodes[n].ReportUnavailableTransactional(nt, err)
			if h.alive[n][dom] {
				h.pf[n][dom]++
				if h.pf[n][dom] >= c16GProbeThr(dom) {
					exp = h.die(n, dom)
					h.class("cross_transactional_threshold")
					h.nt = true
				}
			}
		case "forced":
			h.nodes[n].ReportUnavailableForced(nt, err)
			if h.alive[n][dom] {
				exp = h.die(n, dom)
				h.class("forced_death")
				h.nt = true
			}
		}
		h.verify(exp)
	}
}

func (h *c16GH) evTrafficOK(n, dom int) {
	h.logf("traffic_ok n%d %s", n, c16GDomNames[dom])
	h.nodes[n].ReportAvailableTraffic(c16GType(dom))
	var exp []c16GTr
	h.tf[n][dom] = 0
	if dom >= 4 {
		if !h.alive[n][dom] {
			h.class("revive_by_data_udp_traffic")
		}
		exp = h.revive(n, dom)
	} else if dom >= 2 {
		// whether a DNS-UDP traffic success interrupts a run of transactional
		// failures is not stated; keep the history unambiguous.
		if h.pf[n][dom] > 0 && h.alive[n][dom] {
			h.pf[n][dom] = h.nodes[n].HealthSnapshot().Collections[c16GType(dom).Index()].FailCount
		}
	}
	h.verify(exp)
}

func (h *c16GH) evFallback(n, dom int, lat time.Duration) {
	nt := c16GType(dom)
	h.logf("reload_fallback n%d %s lat=%v", n, c16GDomNames[dom], lat)
	if lat > 0 {
		h.nodes[n].MustGetLatencies10(nt).AppendLatency(lat)
		h.class("revive_with_latency_sample")
	}
	h.nodes[n].MarkAliveForReloadFallback(nt)
	h.verify(h.revive(n, dom))
}

// evReload mirrors ControlPlane.InheritDialerHealthFrom for groups/nodes matched
// by name.
func (h *c16GH) evReload() {
	h.logf("reload")
	dialer.ResetGlobalProxyStateForReload()
	oldNodes, oldGroups := h.nodes, h.groups
	oldAlive := make([][6]bool, h.nn)
	copy(oldAlive, h.alive)
	newNodes, newGroups := h.build()
	// capture every fallback, restore every grouped node, then give every group its
	// floor. (ControlPlane.InheritDialerHealthFrom interleaves these per group; its
	// exact order is exercised - through the real function - by the conn unit.)
	fbs := make([]ReloadSelectionFallback, len(newGroups))
	for i, g := range newGroups {
		fbs[i] = g.g.CaptureReloadSelectionFallback()
	}
	for _, g := range newGroups {
		for _, n := range g.cfg.members {
			newNodes[n].RestoreHealthSnapshot(oldNodes[n].ReloadHealthSnapshot())
		}
	}
	for i, g := range newGroups {
		g.g.EnsureReloadSelectionFloor(fbs[i])
	}
	h.nodes, h.groups = newNodes, newGroups
	h.closeGen(oldNodes, oldGroups)
	synctest.Wait()

	inGroup := make([]bool, h.nn)
	for _, g := range h.groups {
		for _, n := range g.cfg.members {
			inGroup[n] = true
		}
	}
	// (1) the last known state is handed over: nothing that was alive is dead now
	// (a node outside every group is never visited and stays fresh = alive);
	// something that was dead may be alive only as some group's floor.
	var exp []c16GTr
	for n := 0; n < h.nn; n++ {
		for dom := 0; dom < 6; dom++ {
			now := h.nodes[n].MustGetAlive(c16GType(dom))
			was := oldAlive[n][dom]
			switch {
			case !inGroup[n]:
				if !now {
					h.failf("reload: ungrouped fresh node n%d %s is dead", n, c16GDomNames[dom])
				}
			case was && !now:
				h.failf("reload: n%d %s was alive in the old generation but is dead in the new one", n, c16GDomNames[dom])
			case !was && now:
				justified := false
				for _, g := range h.groups {
					if !g.needsAlive() {
						continue
					}
					member, oldCount := false, 0
					for _, m := range g.cfg.members {
						if m == n {
							member = true
						}
						if oldAlive[m][dom] {
							oldCount++
						}
					}
					if member && oldCount == 0 {
						justified = true
					}
				}
				if !justified {
					h.failf("reload: n%d %s was dead in the old generation, is alive in the new one, and no group needed it as a floor", n, c16GDomNames[dom])
				}
				h.class("reload_floor_revived_node")
			}
			h.alive[n][dom] = now
			h.pf[n][dom], h.tf[n][dom] = 0, 0
		}
		for idx, c := range h.nodes[n].HealthSnapshot().Collections {
			if c.FailCount != 0 || c.TrafficFailCount != 0 {
				h.failf("reload: n%d collection %d inherited fail counts %d/%d", n, idx, c.FailCount, c.TrafficFailCount)
			}
		}
	}
	// transition callbacks of the new generation: net effect per (node, domain)
	// must be consistent with fresh(alive) -> final; a floor revival shows as a
	// false followed by a true.
	net := map[[2]int][]bool{}
	for _, o := range h.obs {
		if o.gen != h.gen {
			h.failf("reload: callback from an old generation node: %+v", o)
		}
		k := [2]int{o.node, o.dom}
		net[k] = append(net[k], o.alive)
	}
	for n := 0; n < h.nn; n++ {
		for dom := 0; dom < 6; dom++ {
			cur := true
			for _, a := range net[[2]int{n, dom}] {
				if a == cur {
					h.failf("reload: n%d %s got alive-callback(%v) without a transition (sequence %v)", n, c16GDomNames[dom], a, net[[2]int{n, dom}])
				}
				cur = a
			}
			if cur != h.alive[n][dom] {
				h.failf("reload: n%d %s callbacks end at %v, node is %v", n, c16GDomNames[dom], cur, h.alive[n][dom])
			}
		}
	}
	h.obs = h.obs[:0]
	_ = exp
	// (2) every group keeps at least one selectable node per type.
	for gi, g := range h.groups {
		for dom := 0; dom < 6; dom++ {
			// "selectable" in the weakest sense: some Select call for the type hands
			// out a node (other IP family, data-UDP -> DNS-UDP -> TCP fallback and the
			// single-node last resort all count).
			d, _, err := g.g.Select(c16GType(dom), false)
			if err == nil && d != nil {
				continue
			}
			if d2, _, err2 := g.g.Select(c16GType(dom), true); err2 == nil && d2 != nil {
				h.class("selectable_only_as_single_node_last_resort")
				continue
			}
			h.failf("reload: group g%d (%s, members %v) has no selectable node for %s: %v", gi, g.cfg.policy.Policy, g.cfg.members, c16GDomNames[dom], err)
		}
	}
	for _, g := range h.groups {
		for dom := 0; dom < 6; dom++ {
			g.prevCt[dom] = 0 // a floor revival comes from an empty set
			if h.count(g, dom) > 0 && oldCount(oldAlive, g.cfg.members, dom) > 0 {
				g.prevCt[dom] = h.count(g, dom)
			}
		}
	}
	h.class("reload")
	h.nt = true
	h.afterReload = true
	h.verify(nil)
	h.afterReload = false
}

func oldCount(oldAlive [][6]bool, members []int, dom int) int {
	c := 0
	for _, m := range members {
		if oldAlive[m][dom] {
			c++
		}
	}
	return c
}

func c16GCase(t *rapid.T) {
	dialer.ResetGlobalProxyStateForReload()
	log := logrus.New()
	log.SetOutput(io.Discard)
	log.SetLevel(logrus.ErrorLevel)
	h := &c16GH{t: t, log: log, classes: map[string]bool{}, knownF1: vkKnown(c16GF1)}
	h.nn = rapid.IntRange(1, 4).Draw(t, "nodes")
	ng := rapid.IntRange(1, 4).Draw(t, "groups")
	for g := 0; g < ng; g++ {
		var cfg c16GCfg
		for n := 0; n < h.nn; n++ {
			if rapid.Bool().Draw(t, "member") {
				cfg.members = append(cfg.members, n)
			}
		}
		if len(cfg.members) == 0 {
			cfg.members = []int{rapid.IntRange(0, h.nn-1).Draw(t, "member1")}
		}
		p := rapid.SampledFrom([]consts.DialerSelectionPolicy{
			consts.DialerSelectionPolicy_MinLastLatency, consts.DialerSelectionPolicy_MinAverage10Latencies,
			consts.DialerSelectionPolicy_MinMovingAverageLatencies, consts.DialerSelectionPolicy_Random, consts.DialerSelectionPolicy_Fixed,
		}).Draw(t, "policy")
		cfg.policy = DialerSelectionPolicy{Policy: p}
		if p == consts.DialerSelectionPolicy_Fixed {
			cfg.policy.FixedIndex = rapid.IntRange(0, len(cfg.members)-1).Draw(t, "fixed")
		}
		h.gcfg = append(h.gcfg, cfg)
	}
	h.alive = make([][6]bool, h.nn)
	h.pf = make([][6]int, h.nn)
	h.tf = make([][6]int, h.nn)
	for n := range h.alive {
		for d := 0; d < 6; d++ {
			h.alive[n][d] = true
		}
	}
	h.nodes, h.groups = h.build()
	defer func() { h.closeGen(h.nodes, h.groups) }()
	h.verify(nil)

	maxSteps := 30
	if vkThorough() {
		maxSteps = 60
	}
	steps := rapid.IntRange(3, maxSteps).Draw(t, "steps")
	fdom := rapid.IntRange(0, 5).Draw(t, "focus_dom")
	events := []string{"traffic_fail", "traffic_fail", "trans_fail", "forced", "forced", "forced", "kill_all", "traffic_ok", "traffic_ok", "fallback", "fallback_lat", "reload", "reload"}
	for s := 0; s < steps; s++ {
		ev := rapid.SampledFrom(events).Draw(t, "ev")
		n := rapid.IntRange(0, h.nn-1).Draw(t, "n")
		dom := fdom
		if rapid.IntRange(0, 9).Draw(t, "off") < 4 {
			dom = rapid.IntRange(0, 5).Draw(t, "dom")
		}
		switch ev {
		case "traffic_fail":
			need := c16GTrafficThr(dom) - h.tf[n][dom]
			rep := rapid.SampledFrom([]int{1, 2, need - 1, need, need, need + 1}).Draw(t, "rep")
			if rep < 1 {
				rep = 1
			}
			h.evFail(n, dom, ev, rep)
		case "trans_fail":
			dom = 2 + dom%2
			need := c16GProbeThr(dom) - h.pf[n][dom]
			rep := rapid.SampledFrom([]int{1, need - 1, need, need + 1}).Draw(t, "rep")
			if rep < 1 {
				rep = 1
			}
			h.evFail(n, dom, ev, rep)
		case "forced":
			h.evFail(n, dom, ev, 1)
		case "kill_all":
			// every node dies for one type (e.g. an upstream outage): the shape that
			// empties groups.
			for x := 0; x < h.nn; x++ {
				h.evFail(x, dom, "forced", 1)
			}
			if rapid.Bool().Draw(t, "other_family_too") {
				for x := 0; x < h.nn; x++ {
					h.evFail(x, dom^1, "forced", 1)
				}
			}
			h.class("all_nodes_dead_for_a_type")
		case "traffic_ok":
			if rapid.IntRange(0, 3).Draw(t, "data") > 0 {
				dom = 4 + dom%2
			}
			h.evTrafficOK(n, dom)
		case "fallback":
			h.evFallback(n, dom, 0)
		case "fallback_lat":
			h.evFallback(n, dom, time.Duration(rapid.IntRange(1, 900).Draw(t, "lat"))*time.Millisecond)
		case "reload":
			h.evReload()
		}
	}
	multi := map[int]int{}
	for _, g := range h.gcfg {
		for _, n := range g.members {
			multi[n]++
		}
		h.class("policy_" + string(g.policy.Policy))
	}
	for _, c := range multi {
		if c >= 2 {
			h.class("node_in_2plus_groups")
		}
	}
	key := ""
	if h.nt {
		key = h.cfgString() + "|" + strings.Join(h.hist, ";")
	}
	cl := make([]string, 0, len(h.classes))
	for c := range h.classes {
		cl = append(cl, c)
	}
	sort.Strings(cl)
	hist := h.hist
	vkCase(c16GUnit, key, func() any {
		if len(hist) > 60 {
			hist = hist[:60]
		}
		return map[string]any{"groups": h.cfgString(), "history": hist}
	}, cl...)
}

func c16GInBubble(tt *testing.T, f func()) {
	var (
		pv       any
		panicked bool
	)
	synctest.Test(tt, func(_ *testing.T) {
		defer func() {
			if r := recover(); r != nil {
				pv, panicked = r, true
			}
		}()
		f()
	})
	if panicked {
		if fmt.Sprintf("%T", pv) == "rapid.invalidData" {
			c16GReraiseInvalid(pv)
		}
		panic(pv)
	}
}

//go:noinline
func c16GReraiseInvalid(pv any) { panic(pv) }

func TestC16_Group(tt *testing.T) {
	rapid.Check(tt, func(t *rapid.T) {
		c16GInBubble(tt, func() { c16GCase(t) })
	})
}

package outbound

import (
	"fmt"
	"testing"

	"github.com/daeuniverse/dae/config"
	"github.com/daeuniverse/dae/pkg/config_parser"
)

func TestC14_Probe(t *testing.T) {
	for _, body := range []string{
		"filter: name('')\npolicy: min",
		"filter: name(\"a'b\")\npolicy: min",
		"filter: name('a\nb')\npolicy: min",
		"filter: name('日本 🇯🇵 [x] (y) {z} # /* */ && -> , : !')\npolicy: min",
		"filter: name(a.b-c_d, 1abc, ^abc$, a|b, a*b, a+b, a\\b, a/b, @x, a=b, 日本)\npolicy: min",
		"filter: !name(regex: '(?=a)', keyword: x) && !subtag(a) [add_latency: -500ms, add_latency: 1s]\nfilter: name(a)\npolicy: fixed(0)\nfilter: name(b) [x: y]",
		"filter: name(a) []\npolicy: min",
		"filter: name(a)[add_latency:5ms]\npolicy: min",
		"policy: random && min",
		"policy: !fixed(-1)",
		"policy: fixed(index: 0)",
		"policy: 'min'",
		"policy: a, b",
		"policy: min\npolicy: random",
		"filter: name(a)",
		"filter: a\npolicy: min",
		"filter: name(a) && 'x'\npolicy: min",
		"filter: name()\npolicy: min",
		"filter: name(a\\'b)\npolicy: min",
		"filter: name('a\\'b')\npolicy: min",
		"filter: name('a\\\\')\npolicy: min",
	} {
		txt := "global {}\nrouting {}\ngroup {\n g0 {\n" + body + "\n}\n}\n"
		secs, err := config_parser.Parse(txt)
		if err != nil {
			fmt.Printf("---- %q\n  PARSE ERR: %v\n", body, err)
			continue
		}
		c, err := config.New(secs)
		if err != nil {
			fmt.Printf("---- %q\n  NEW ERR: %v\n", body, err)
			continue
		}
		fmt.Printf("---- %q\n", body)
		for _, g := range c.Group {
			fmt.Printf("  group %q policy=%#v nf=%d na=%d\n", g.Name, g.Policy, len(g.Filter), len(g.FilterAnnotation))
			if fs, ok := g.Policy.([]*config_parser.Function); ok {
				for _, f := range fs {
					fmt.Printf("    pol fn %q not=%v", f.Name, f.Not)
					for _, p := range f.Params {
						fmt.Printf(" [%q:%q]", p.Key, p.Val)
					}
					fmt.Println()
				}
			}
			for i, l := range g.Filter {
				for _, f := range l {
					fmt.Printf("    line %d fn %q not=%v", i, f.Name, f.Not)
					for _, p := range f.Params {
						fmt.Printf(" [%q:%q]", p.Key, p.Val)
					}
					fmt.Println()
				}
				fmt.Printf("    anno nil=%v:", g.FilterAnnotation[i] == nil)
				for _, p := range g.FilterAnnotation[i] {
					fmt.Printf(" [%q:%q]", p.Key, p.Val)
				}
				fmt.Println()
			}
		}
	}
}

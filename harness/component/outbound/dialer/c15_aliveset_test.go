package dialer

// C15 (set level) — AliveDialerSet driven directly for every policy that keeps an
// alive set (random, min, min_avg10, min_moving_avg): generated histories of
// latency samples (published or not), alive flips, re-notifications, run-time
// policy switches and selections (GetMinLatency/GetRandExcluded with and without an
// excluded node) against a small reference model.
//
// The oracle is a validity predicate + a transition relation, never one expected
// answer (DESIGN.md §2 C15, items (1)-(8)):
//   - the cached best / any pick is a member of the model's alive set, never the
//     excluded node, nil only when there is no eligible alive node;
//   - min policies: no other alive *measured* node beats the pick by >= tolerance
//     (strictly better when tolerance is 0), per-node offsets included;
//   - between consecutive states the cached best changes only if the new one is
//     better by >= tolerance, or merely better while the current latency is below
//     the tolerance, or the old one had no measurement, or stopped being alive, or
//     the policy changed;
//   - structure after every event: aliveEntries/dialerToIndex are a bijection, the
//     cached best is a member, Len() equals the model's alive count, the cached
//     sorting latency of a measured alive node is policy latency + offset;
//   - random: membership only (plus, in some states, every eligible node appears
//     over many draws; the miss probability is < 1e-15 per state).
//
// Back-off level stays 0 (nothing here goes through the ordinary failure path), so
// the hidden back-off penalty on the sorting latency is 0.

import (
	"context"
	"errors"
	"fmt"
	"io"
	"strings"
	"testing"
	"time"

	"github.com/daeuniverse/dae/common/consts"
	D "github.com/daeuniverse/outbound/dialer"
	"github.com/daeuniverse/outbound/netproxy"
	"github.com/sirupsen/logrus"
	"pgregory.net/rapid"
)

const c15Unit = "C15.aliveset"

// F-C15-1: after the alive set of a min policy became empty (callback(false)), a
// node that comes back *without a latency measurement* (traffic revival of the
// never-probed data-UDP domain, reload selection floor, restored snapshot) is
// selected again but the alive-change callback is never called with true.
const c15FindingCallback = "F-C15-1"

var c15SetPolicies = []consts.DialerSelectionPolicy{
	consts.DialerSelectionPolicy_Random,
	consts.DialerSelectionPolicy_MinLastLatency,
	consts.DialerSelectionPolicy_MinAverage10Latencies,
	consts.DialerSelectionPolicy_MinMovingAverageLatencies,
}

var c15Tolerances = []time.Duration{0, time.Millisecond, 50 * time.Millisecond, time.Second}

type c15NoopDialer struct{}

func (c15NoopDialer) DialContext(context.Context, string, string) (netproxy.Conn, error) {
	return nil, errors.New("c15: not implemented")
}

func c15Logger(info bool) *logrus.Logger {
	l := logrus.New()
	l.SetOutput(io.Discard)
	if info {
		l.SetLevel(logrus.InfoLevel) // exercises printLatencies and the log branches
	} else {
		l.SetLevel(logrus.ErrorLevel)
	}
	return l
}

func c15IsMin(p consts.DialerSelectionPolicy) bool {
	return p == consts.DialerSelectionPolicy_MinLastLatency ||
		p == consts.DialerSelectionPolicy_MinAverage10Latencies ||
		p == consts.DialerSelectionPolicy_MinMovingAverageLatencies
}

// c15Node is the reference model of one node as seen by one set.
type c15Node struct {
	d      *Dialer
	name   string
	offset time.Duration
	// raw data held by the node (documented inputs of the policies)
	lats []time.Duration // last <=10 samples, oldest first
	ma   time.Duration   // moving average, 0 = none yet
	// what the set has been told
	inSet    bool          // recorded alive by the set
	measured bool          // set has a measurement for it (valid while inSet)
	pub      time.Duration // published sorting latency = policy latency + offset
}

// c15PolicyLatency is the documented meaning of the three min policies.
func c15PolicyLatency(p consts.DialerSelectionPolicy, lats []time.Duration, ma time.Duration) (time.Duration, bool) {
	switch p {
	case consts.DialerSelectionPolicy_MinLastLatency:
		if len(lats) == 0 {
			return 0, false
		}
		return lats[len(lats)-1], true
	case consts.DialerSelectionPolicy_MinAverage10Latencies:
		if len(lats) == 0 {
			return 0, false
		}
		var sum time.Duration
		for _, l := range lats {
			sum += l
		}
		return sum / time.Duration(len(lats)), true
	case consts.DialerSelectionPolicy_MinMovingAverageLatencies:
		return ma, ma > 0
	}
	return 0, false
}

// c15Beats: candidate latency e beats current latency c "by the tolerance or more"
// (strictly better when the tolerance is 0).
func c15Beats(e, c, tol time.Duration) bool {
	if tol == 0 {
		return e < c
	}
	return c-e >= tol
}

type c15Machine struct {
	t      *rapid.T
	set    *AliveDialerSet
	nt     *NetworkType
	tol    time.Duration
	policy consts.DialerSelectionPolicy
	nodes  []*c15Node
	byD    map[*Dialer]*c15Node

	cbLog []bool // alive-change callbacks since the last invariant evaluation

	// transition bookkeeping (min policies)
	prev           *c15Node // cached best after the previous event
	prevMeasured   bool     // whether prev had a measurement then
	policyChanged  bool     // the last event switched the policy
	announced      bool     // last value delivered by the alive-change callback
	announcedKnown bool     // false until the callback state is well defined
	minSince       int      // events since the set (re)entered a min policy without a switch

	hist    []string
	classes map[string]int
	ntHit   bool
}

func (m *c15Machine) logf(format string, a ...any) {
	m.hist = append(m.hist, fmt.Sprintf(format, a...))
}

func (m *c15Machine) class(c string) { m.classes[c]++ }

func c15GenLatency(t *rapid.T, tol time.Duration, label string) time.Duration {
	unit := tol
	if unit == 0 {
		unit = time.Millisecond
	}
	switch rapid.IntRange(0, 9).Draw(t, label+"_kind") {
	case 0:
		return time.Duration(rapid.Int64Range(int64(time.Microsecond), int64(3*time.Second)).Draw(t, label+"_free"))
	case 1:
		return time.Duration(rapid.IntRange(1, 6).Draw(t, label+"_small")) * time.Microsecond
	default:
		// grid of half tolerances with +-1ns jitter: lands on the tolerance boundaries.
		k := rapid.IntRange(1, 8).Draw(t, label+"_k")
		l := time.Duration(k) * unit / 2
		l += time.Duration(rapid.IntRange(-1, 1).Draw(t, label+"_jit"))
		if l <= 0 {
			l = 1
		}
		return l
	}
}

func c15GenOffset(t *rapid.T, tol time.Duration, label string) time.Duration {
	return rapid.SampledFrom([]time.Duration{
		0, 0, 0, -500 * time.Millisecond, -tol, -tol / 2, -1, 1, tol / 2, tol, 200 * time.Millisecond,
	}).Draw(t, label)
}

// apply a raw sample to the real node and the model (what markAvailable does to
// the two latency stores; direct=true sets the moving average to the value).
func (m *c15Machine) applySample(n *c15Node, l time.Duration, direct bool) {
	col := n.d.mustGetCollection(m.nt)
	n.d.collectionFineMu.Lock()
	col.Latencies10.AppendLatency(l)
	if direct {
		col.MovingAverage = l
	} else {
		col.MovingAverage = (col.MovingAverage + l) / 2
	}
	n.d.collectionFineMu.Unlock()
	n.lats = append(n.lats, l)
	if len(n.lats) > 10 {
		n.lats = n.lats[len(n.lats)-10:]
	}
	if direct {
		n.ma = l
	} else {
		n.ma = (n.ma + l) / 2
	}
}

// notify publishes the node's current data and alive flag to the set + model.
func (m *c15Machine) notify(n *c15Node, alive bool) {
	n.d.mustGetCollection(m.nt).Alive.Store(alive)
	m.set.NotifyLatencyChange(n.d, alive)
	if !alive {
		n.inSet = false
		return
	}
	lat, has := c15PolicyLatency(m.policy, n.lats, n.ma)
	if !n.inSet {
		n.inSet = true
		n.measured = false
	}
	if has {
		n.measured = true
		n.pub = lat + n.offset
	}
}

func (m *c15Machine) aliveNodes() []*c15Node {
	var r []*c15Node
	for _, n := range m.nodes {
		if n.inSet {
			r = append(r, n)
		}
	}
	return r
}

func (m *c15Machine) fatalf(format string, a ...any) {
	m.t.Helper()
	m.t.Fatalf("C15 violation: %s\npolicy=%s tol=%v type=%s\nnodes:\n%s\nhistory:\n  %s",
		fmt.Sprintf(format, a...), m.policy, m.tol, m.nt.String(), m.dump(), strings.Join(m.hist, "\n  "))
}

func (m *c15Machine) dump() string {
	var b strings.Builder
	for _, n := range m.nodes {
		fmt.Fprintf(&b, "  %s off=%v alive=%v measured=%v pub=%v lats=%v ma=%v\n", n.name, n.offset, n.inSet, n.measured, n.pub, n.lats, n.ma)
	}
	return b.String()
}

// checkPickMin: validity of a min-policy pick (cached best or excluded variant).
func (m *c15Machine) checkPickMin(what string, got *Dialer, gotLat time.Duration, excluded *c15Node) {
	var eligible []*c15Node
	for _, n := range m.aliveNodes() {
		if n != excluded {
			eligible = append(eligible, n)
		}
	}
	if len(eligible) == 0 {
		if got != nil {
			m.fatalf("%s returned %s although the set has no eligible alive node", what, m.byD[got].name)
		}
		return
	}
	if got == nil {
		m.fatalf("%s returned nil although %d eligible alive node(s) exist", what, len(eligible))
	}
	g := m.byD[got]
	if g == nil {
		m.fatalf("%s returned a foreign dialer", what)
	}
	if g == excluded {
		m.fatalf("%s returned the excluded node %s", what, g.name)
	}
	if !g.inSet {
		m.fatalf("%s returned %s which is not recorded alive", what, g.name)
	}
	if !g.measured {
		m.class("pick_unmeasured")
		return
	}
	if gotLat != g.pub {
		m.fatalf("%s returned latency %v for %s, its sorting latency (policy latency + offset) is %v", what, gotLat, g.name, g.pub)
	}
	for _, e := range eligible {
		if e == g || !e.measured {
			continue
		}
		if c15Beats(e.pub, g.pub, m.tol) {
			m.fatalf("%s returned %s (%v) although alive measured %s (%v) beats it by the tolerance or more", what, g.name, g.pub, e.name, e.pub)
		}
		d := g.pub - e.pub
		if d < 0 {
			d = -d
		}
		if d <= 2*m.tol {
			m.ntHit = true
			if e.pub < g.pub {
				m.class("hysteresis_holds") // a better node within the tolerance is (legitimately) not chosen
			}
		}
	}
}

// checkSticky: the tolerance makes the current choice sticky, so a selection that
// excludes some *other* node (a failover retry) must hand out the same node, with
// the same latency, as the selection without exclusion in the same state. Only
// excluding the current choice itself may produce a different node.
func (m *c15Machine) checkSticky(what string, best *Dialer, bestLat time.Duration, excluded *Dialer, got *Dialer, gotLat time.Duration) {
	if best == nil || excluded == best {
		return
	}
	if got != best {
		name := "<nil>"
		if got != nil {
			name = m.byD[got].name
		}
		m.fatalf("%s returned %s although the excluded node is not the current choice %s: the choice may only change for the licensed reasons, not because some other node is excluded", what, name, m.byD[best].name)
	}
	b := m.byD[best]
	if b.measured && gotLat != bestLat {
		m.fatalf("%s returned latency %v, the unexcluded selection of the same node returns %v", what, gotLat, bestLat)
	}
	m.class("sticky_under_other_exclusion")
	// was there a near-tie / unmeasured rival that a tolerance-blind scan would take?
	for _, e := range m.aliveNodes() {
		if e == b || e.d == excluded {
			continue
		}
		if !e.measured || (b.measured && e.pub < b.pub) {
			m.class("sticky_with_rival")
			m.ntHit = true
			break
		}
	}
}

func (m *c15Machine) checkStructure() {
	a := m.set
	a.mu.RLock()
	defer a.mu.RUnlock()
	seen := map[*Dialer]bool{}
	for i, e := range a.aliveEntries {
		if e.dialer == nil {
			m.fatalf("aliveEntries[%d] has a nil dialer", i)
		}
		if seen[e.dialer] {
			m.fatalf("aliveEntries holds %s twice", m.byD[e.dialer].name)
		}
		seen[e.dialer] = true
		if idx, ok := a.dialerToIndex[e.dialer]; !ok || idx != i {
			m.fatalf("aliveEntries[%d]=%s but dialerToIndex says %d (present=%v)", i, m.byD[e.dialer].name, idx, ok)
		}
	}
	nonNeg := 0
	for d, idx := range a.dialerToIndex {
		n := m.byD[d]
		if n == nil {
			m.fatalf("dialerToIndex holds a foreign dialer")
		}
		switch {
		case idx >= 0:
			nonNeg++
			if idx >= len(a.aliveEntries) || a.aliveEntries[idx].dialer != d {
				m.fatalf("dialerToIndex[%s]=%d does not point back at it (len=%d)", n.name, idx, len(a.aliveEntries))
			}
			if !n.inSet {
				m.fatalf("%s is in aliveEntries but was last reported not alive", n.name)
			}
		case idx == -Init || idx == -NotAlive:
			if n.inSet {
				m.fatalf("%s was last reported alive but dialerToIndex=%d", n.name, idx)
			}
		default:
			m.fatalf("dialerToIndex[%s]=%d is neither an index nor -Init/-NotAlive", n.name, idx)
		}
	}
	if len(a.dialerToIndex) != len(m.nodes) {
		m.fatalf("dialerToIndex has %d keys for %d nodes", len(a.dialerToIndex), len(m.nodes))
	}
	if nonNeg != len(a.aliveEntries) {
		m.fatalf("%d non-negative indices for %d alive entries", nonNeg, len(a.aliveEntries))
	}
	if c15IsMin(m.policy) {
		if b := a.minLatency.dialer; b != nil && !seen[b] {
			m.fatalf("cached best %s is not among the alive entries", m.byD[b].name)
		}
		for _, e := range a.aliveEntries {
			n := m.byD[e.dialer]
			if n.measured && e.sortingLatency != n.pub {
				m.fatalf("cached sorting latency of %s is %v, policy latency + offset is %v", n.name, e.sortingLatency, n.pub)
			}
		}
	}
}

// invariant runs after every event.
func (m *c15Machine) invariant() {
	alive := m.aliveNodes()
	if got := m.set.Len(); got != len(alive) {
		m.fatalf("Len()=%d, model alive count=%d", got, len(alive))
	}
	m.checkStructure()
	cbs := m.cbLog
	m.cbLog = nil
	if !c15IsMin(m.policy) {
		// random: no cached best, callbacks are not part of the statement.
		m.prev = nil
		m.policyChanged = false
		m.announcedKnown = false
		m.minSince = 0
		if m.policy == consts.DialerSelectionPolicy_Random {
			got := m.set.GetRand()
			m.checkPickRandom("GetRand", got, nil)
		}
		return
	}
	got, lat := m.set.GetMinLatency(nil)
	m.checkPickMin("GetMinLatency(nil)", got, lat, nil)
	var cur *c15Node
	if got != nil {
		cur = m.byD[got]
	}
	// (6) transition relation.
	if m.prev != nil && cur != nil && cur != m.prev && !m.policyChanged {
		p := m.prev
		switch {
		case !p.inSet:
			m.class("switch_old_died")
		case !m.prevMeasured || !p.measured:
			m.class("switch_old_unmeasured")
		case !cur.measured:
			m.class("switch_to_unmeasured") // statement is silent on unmeasured candidates
		case m.tol > 0 && cur.pub <= p.pub-m.tol:
			m.class("switch_by_tolerance")
		case m.tol == 0 && cur.pub <= p.pub:
			m.class("switch_tol0")
		case p.pub < m.tol && cur.pub <= p.pub:
			m.class("switch_below_tolerance")
		default:
			m.fatalf("cached best changed %s (%v) -> %s (%v) without a licensed reason (tolerance %v)", p.name, p.pub, cur.name, cur.pub, m.tol)
		}
	}
	// (8) callback sequence: alternates, and tells "empty <-> non-empty".
	m.checkCallbacks(cbs, len(alive) > 0)
	m.prev = cur
	m.prevMeasured = cur != nil && cur.measured
	m.policyChanged = false
	m.minSince++
}

func (m *c15Machine) checkCallbacks(cbs []bool, nonEmpty bool) {
	for _, v := range cbs {
		if m.announcedKnown && v == m.announced {
			m.fatalf("alive-change callback delivered %v twice in a row", v)
		}
		m.announced, m.announcedKnown = v, true
		m.class(fmt.Sprintf("callback_%v", v))
	}
	if m.announcedKnown && m.announced != nonEmpty {
		// Finding F-C15-1: an empty set that is refilled by a node without a
		// measurement never announces "alive" again.
		if !m.announced && nonEmpty && len(cbs) == 0 && m.allAliveUnmeasured() && vkKnown(c15FindingCallback) {
			vkExcluded(c15Unit, c15FindingCallback)
			m.class("known_F-C15-1_shape")
			m.announcedKnown = false // (8) is suspended until the next callback
			return
		}
		m.fatalf("last alive-change callback said %v but the alive set non-empty=%v", m.announced, nonEmpty)
	}
}

func (m *c15Machine) allAliveUnmeasured() bool {
	for _, n := range m.aliveNodes() {
		if n.measured {
			return false
		}
	}
	return true
}

func (m *c15Machine) checkPickRandom(what string, got *Dialer, excluded *c15Node) {
	var eligible int
	for _, n := range m.aliveNodes() {
		if n != excluded {
			eligible++
		}
	}
	if eligible == 0 {
		if got != nil {
			m.fatalf("%s returned %s although no eligible alive node exists", what, m.byD[got].name)
		}
		return
	}
	if got == nil {
		m.fatalf("%s returned nil although %d eligible alive node(s) exist", what, eligible)
	}
	g := m.byD[got]
	if g == nil || !g.inSet {
		m.fatalf("%s returned a node that is not recorded alive", what)
	}
	if g == excluded {
		m.fatalf("%s returned the excluded node %s", what, g.name)
	}
}

func c15RunSetHistory(t *rapid.T) {
	nNodes := rapid.IntRange(1, 6).Draw(t, "nodes")
	tol := rapid.SampledFrom(c15Tolerances).Draw(t, "tolerance")
	policy := rapid.SampledFrom(c15SetPolicies).Draw(t, "policy")
	keys := StandardHealthKeys()
	nt := keys[rapid.IntRange(0, len(keys)-1).Draw(t, "type")].NetworkType()
	log := c15Logger(rapid.IntRange(0, 7).Draw(t, "loginfo") == 0)
	opt := &GlobalOption{Log: log, CheckInterval: 30 * time.Second, CheckTolerance: tol}

	m := &c15Machine{t: t, nt: nt, tol: tol, policy: policy, byD: map[*Dialer]*c15Node{}, classes: map[string]int{}}
	var dialers []*Dialer
	var annos []*Annotation
	for i := 0; i < nNodes; i++ {
		name := fmt.Sprintf("n%d", i)
		d := NewDialer(c15NoopDialer{}, opt, InstanceOption{DisableCheck: true}, &Property{Property: D.Property{Name: name}})
		n := &c15Node{d: d, name: name, offset: c15GenOffset(t, tol, name+"_offset")}
		m.nodes = append(m.nodes, n)
		m.byD[d] = n
		dialers = append(dialers, d)
		annos = append(annos, &Annotation{AddLatency: n.offset})
	}
	foreign := NewDialer(c15NoopDialer{}, opt, InstanceOption{DisableCheck: true}, &Property{Property: D.Property{Name: "foreign"}})
	defer func() {
		for _, d := range dialers {
			_ = d.Close()
		}
		_ = foreign.Close()
	}()
	// pre-history: some nodes already measured / already dead before the set exists.
	preAlive := make([]bool, nNodes)
	for i, n := range m.nodes {
		preAlive[i] = true
		for k := rapid.IntRange(0, 2).Draw(t, n.name+"_pre"); k > 0; k-- {
			m.applySample(n, c15GenLatency(t, tol, n.name+"_prelat"), false)
		}
		if rapid.IntRange(0, 3).Draw(t, n.name+"_predead") == 0 {
			preAlive[i] = false
		}
	}
	setAlive := rapid.Bool().Draw(t, "setAlive")
	m.logf("new set policy=%s tol=%v setAlive=%v", policy, tol, setAlive)
	m.set = NewAliveDialerSet(log, "c15", nt, tol, policy, dialers, annos, func(alive bool) {
		m.cbLog = append(m.cbLog, alive)
	}, setAlive)
	if setAlive {
		// the constructor told the set that every node is alive, in order.
		for _, n := range m.nodes {
			n.d.mustGetCollection(nt).Alive.Store(true)
			n.inSet = true
			if lat, has := c15PolicyLatency(policy, n.lats, n.ma); has {
				n.measured, n.pub = true, lat+n.offset
			}
		}
	} else {
		// what DialerGroup.buildSelectionState does: report every node's own state.
		for i, n := range m.nodes {
			m.notify(n, preAlive[i])
			m.logf("init notify %s alive=%v", n.name, preAlive[i])
		}
	}
	// Callback state right after construction: the constructor may or may not have
	// announced "alive"; it is defined from the first delivered value on.
	if len(m.cbLog) > 0 {
		m.announced, m.announcedKnown = m.cbLog[len(m.cbLog)-1], true
	} else if len(m.aliveNodes()) > 0 {
		m.announced, m.announcedKnown = true, true // the group's own init callback says alive
	}
	m.cbLog = nil
	m.invariant()

	pickNode := func(label string) *c15Node {
		return m.nodes[rapid.IntRange(0, len(m.nodes)-1).Draw(t, label)]
	}
	pickExcluded := func() *c15Node {
		// aim at the cached best half of the time
		if c15IsMin(m.policy) && rapid.Bool().Draw(t, "exclBest") {
			if d, _ := m.set.GetMinLatency(nil); d != nil {
				m.class("excluded_is_best")
				return m.byD[d]
			}
		}
		return pickNode("excl")
	}

	sample := func(t *rapid.T) {
		n := pickNode("node")
		l := c15GenLatency(t, m.tol, "lat")
		direct := rapid.Bool().Draw(t, "direct")
		alive := rapid.IntRange(0, 5).Draw(t, "staysDead") != 0 || n.inSet
		m.applySample(n, l, direct)
		m.logf("sample %s %v direct=%v alive=%v", n.name, l, direct, alive)
		m.notify(n, alive)
		m.class("ev_sample")
	}

	t.Repeat(map[string]func(*rapid.T){
		"sample":   sample,
		"sample_b": sample,
		"sample_unpublished": func(t *rapid.T) {
			n := pickNode("node")
			l := c15GenLatency(t, m.tol, "lat")
			m.applySample(n, l, rapid.Bool().Draw(t, "direct"))
			m.logf("sample (unpublished) %s %v", n.name, l)
			m.class("ev_sample_unpublished")
		},
		"flip": func(t *rapid.T) {
			n := pickNode("node")
			m.logf("flip %s alive=%v", n.name, !n.inSet)
			m.notify(n, !n.inSet)
			m.class("ev_flip")
		},
		"kill_best": func(t *rapid.T) {
			if !c15IsMin(m.policy) {
				t.Skip("no cached best")
			}
			d, _ := m.set.GetMinLatency(nil)
			if d == nil {
				t.Skip("empty")
			}
			n := m.byD[d]
			m.logf("kill best %s", n.name)
			m.notify(n, false)
			m.class("ev_kill_best")
		},
		"renotify": func(t *rapid.T) {
			n := pickNode("node")
			m.logf("renotify %s alive=%v", n.name, n.inSet)
			m.notify(n, n.inSet)
			m.class("ev_renotify")
		},
		"policy": func(t *rapid.T) {
			p := rapid.SampledFrom(c15SetPolicies).Draw(t, "newPolicy")
			m.logf("policy %s -> %s", m.policy, p)
			changed := p != m.policy
			m.set.SetSelectionPolicy(p)
			if changed {
				if !(c15IsMin(m.policy) && c15IsMin(p)) {
					m.announcedKnown = false // random has no callbacks; (8) restarts at the next one
				}
				m.policy = p
				m.policyChanged = true
				// recompute: every alive node is re-read from its current data.
				for _, n := range m.nodes {
					if !n.inSet {
						continue
					}
					lat, has := c15PolicyLatency(p, n.lats, n.ma)
					n.measured = has
					if has {
						n.pub = lat + n.offset
					}
				}
				m.class("ev_policy_switch")
			}
		},
		"select_excluded": func(t *rapid.T) {
			ex := pickExcluded()
			m.logf("select excluding %s", ex.name)
			if c15IsMin(m.policy) {
				best, bestLat := m.set.GetMinLatency(nil)
				d, lat := m.set.GetMinLatency(ex.d)
				m.checkPickMin("GetMinLatency(excluded)", d, lat, ex)
				m.checkSticky("GetMinLatency(excluded "+ex.name+")", best, bestLat, ex.d, d, lat)
				m.class("ev_select_min_excluded")
			} else {
				d := m.set.GetRandExcluded(ex.d)
				m.checkPickRandom("GetRandExcluded", d, ex)
				m.class("ev_select_rand_excluded")
			}
		},
		"select_excluded_foreign": func(t *rapid.T) {
			// a failover retry may carry a node that is not (or no longer) in this set
			m.logf("select excluding <foreign>")
			if c15IsMin(m.policy) {
				best, bestLat := m.set.GetMinLatency(nil)
				d, lat := m.set.GetMinLatency(foreign)
				m.checkPickMin("GetMinLatency(foreign)", d, lat, nil)
				m.checkSticky("GetMinLatency(excluded <foreign>)", best, bestLat, foreign, d, lat)
			} else {
				m.checkPickRandom("GetRandExcluded(foreign)", m.set.GetRandExcluded(foreign), nil)
			}
			m.class("ev_select_excluded_foreign")
		},
		"random_coverage": func(t *rapid.T) {
			if m.policy != consts.DialerSelectionPolicy_Random {
				t.Skip("not random")
			}
			var ex *c15Node
			if rapid.Bool().Draw(t, "withExcluded") {
				ex = pickNode("excl")
			}
			want := map[*c15Node]bool{}
			for _, n := range m.aliveNodes() {
				if n != ex {
					want[n] = false
				}
			}
			if len(want) < 2 {
				t.Skip("nothing to cover")
			}
			for i := 0; i < 60*len(want); i++ {
				var d *Dialer
				if ex != nil {
					d = m.set.GetRandExcluded(ex.d)
				} else {
					d = m.set.GetRand()
				}
				m.checkPickRandom("GetRand*", d, ex)
				want[m.byD[d]] = true
			}
			for n, hit := range want {
				if !hit {
					m.fatalf("random never returned eligible alive node %s in %d draws", n.name, 60*len(want))
				}
			}
			m.class("ev_random_coverage")
		},
		"": func(t *rapid.T) { m.invariant() },
	})

	nt2 := ""
	if m.ntHit {
		nt2 = strings.Join(m.hist, ";")
	}
	cl := []string{"policy_final_" + string(m.policy), fmt.Sprintf("nodes_%d", nNodes), fmt.Sprintf("tol_%v", tol)}
	for c, k := range m.classes {
		if k > 0 {
			cl = append(cl, c)
		}
	}
	vkCase(c15Unit, nt2, func() any {
		return map[string]any{"nodes": nNodes, "tolerance": tol.String(), "history": m.hist}
	}, cl...)
}

func TestC15_AliveSet(t *testing.T) {
	rapid.Check(t, c15RunSetHistory)
}

// TestC15_Finding_FC151: minimal history for F-C15-1. One node, policy min: it
// dies (callback(false)), then is reported alive again before any latency sample.
func TestC15_Finding_FC151(t *testing.T) {
	log := c15Logger(false)
	opt := &GlobalOption{Log: log, CheckInterval: 30 * time.Second}
	d := NewDialer(c15NoopDialer{}, opt, InstanceOption{DisableCheck: true}, &Property{Property: D.Property{Name: "n0"}})
	defer d.Close()
	nt := StandardHealthKeys()[4].NetworkType() // data UDP v4: never probed, so never measured
	var cbs []bool
	set := NewAliveDialerSet(log, "c15", nt, 0, consts.DialerSelectionPolicy_MinLastLatency,
		[]*Dialer{d}, []*Annotation{{}}, func(alive bool) { cbs = append(cbs, alive) }, true)
	cbs = nil // whatever the constructor announced, the node is alive and selected now
	set.NotifyLatencyChange(d, false)
	if len(cbs) != 1 || cbs[0] {
		t.Fatalf("setup: expected exactly callback(false) after the only node died, got %v", cbs)
	}
	set.NotifyLatencyChange(d, true)
	best, _ := set.GetMinLatency(nil)
	if best != d || set.Len() != 1 {
		t.Fatalf("the revived node must be selectable again (best=%v len=%d)", best, set.Len())
	}
	announcedAlive := len(cbs) == 2 && cbs[1]
	if vkKnown(c15FindingCallback) {
		if !announcedAlive {
			vkKnownReproduced(c15FindingCallback)
			t.Logf("KNOWN F-C15-1 reproduces: callbacks=%v while the set is non-empty", cbs)
		} else {
			t.Logf("F-C15-1 no longer reproduces (callbacks=%v); move it to status fixed", cbs)
		}
		return
	}
	if !announcedAlive {
		t.Fatalf("C15 violation (F-C15-1): set went empty -> non-empty (node revived without a latency sample) but the alive-change callback sequence is %v; the group stays announced as not alive", cbs)
	}
}

package dialer

// C16 — node health thresholds, edge-triggered alive callbacks, group/node
// agreement and the reload hand-over of the last known state (dialer half).
//
// A rapid-generated history of health events over 1-3 nodes (some sharing one
// proxy address) that sit in 0-3 groups is replayed, inside a testing/synctest
// bubble, against (a) the real Dialer / AliveDialerSet code and (b) a reference
// model written from the property statement: per (node, health domain) an alive
// flag, the run of consecutive probe-class failures and the run of consecutive
// traffic failures; per proxy address the number of death transitions since the
// last success. After every single call the oracle compares alive flags (through
// every NetworkType spelling of the domain), the alive-transition callbacks
// delivered since the previous call, the membership of every containing group's
// AliveDialerSet, and - for latency-policy groups - a fake connectivity bit fed
// by the set's alive-change callback.

import (
	"context"
	"errors"
	"fmt"
	"io"
	"net"
	"os"
	"sort"
	"strings"
	"syscall"
	"testing"
	"testing/synctest"
	"time"

	"github.com/daeuniverse/dae/common/consts"
	D "github.com/daeuniverse/outbound/dialer"
	"github.com/daeuniverse/outbound/protocol/direct"
	"github.com/sirupsen/logrus"
	"pgregory.net/rapid"
)

const c16Unit = "C16.health"

// Finding id used for the "revival without a latency sample never sets the
// latency-policy group's alive bit again" defect.
const c16F1 = "F-C16-1"

// ---- health domains -----------------------------------------------------------

// dom: 0 tcp4, 1 tcp6, 2 dns-udp4, 3 dns-udp6, 4 data-udp4, 5 data-udp6.
var c16DomNames = [6]string{"tcp4", "tcp6", "dnsudp4", "dnsudp6", "dataudp4", "dataudp6"}

// thresholds as the property statement gives them.
func c16ProbeThreshold(dom int) int {
	if dom >= 2 {
		return 3
	}
	return 1
}

func c16TrafficThreshold(dom int) int {
	if dom >= 2 {
		return 50
	}
	return 10
}

func c16Ip(dom int) consts.IpVersionStr {
	if dom%2 == 1 {
		return consts.IpVersionStr_6
	}
	return consts.IpVersionStr_4
}

// c16Types lists the NetworkType spellings production code uses for a domain
// (TCP DNS aliases plain TCP; a UDP type without an explicit domain is data UDP).
func c16Types(dom int) []*NetworkType {
	ip := c16Ip(dom)
	switch dom / 2 {
	case 0:
		return []*NetworkType{
			{L4Proto: consts.L4ProtoStr_TCP, IpVersion: ip},
			{L4Proto: consts.L4ProtoStr_TCP, IpVersion: ip, IsDns: true},
			{L4Proto: consts.L4ProtoStr_TCP, IpVersion: ip, IsDns: true, UdpHealthDomain: UdpHealthDomainDns},
		}
	case 1:
		return []*NetworkType{
			{L4Proto: consts.L4ProtoStr_UDP, IpVersion: ip, IsDns: true, UdpHealthDomain: UdpHealthDomainDns},
		}
	default:
		return []*NetworkType{
			{L4Proto: consts.L4ProtoStr_UDP, IpVersion: ip, UdpHealthDomain: UdpHealthDomainData},
			{L4Proto: consts.L4ProtoStr_UDP, IpVersion: ip},
		}
	}
}

// c16DomOf maps a NetworkType handed to a callback back to the domain, without
// using the code under test.
func c16DomOf(nt *NetworkType) int {
	d := 0
	if nt.L4Proto == consts.L4ProtoStr_UDP {
		if nt.UdpHealthDomain == UdpHealthDomainDns {
			d = 1
		} else {
			d = 2
		}
	}
	if nt.IpVersion == consts.IpVersionStr_6 {
		return d*2 + 1
	}
	return d * 2
}

// ---- errors -------------------------------------------------------------------

// failures that must count.
var c16RealErrs = []error{
	errors.New("timeout"),
	context.DeadlineExceeded,
	io.EOF,
	syscall.ECONNREFUSED,
	fmt.Errorf("unexpected status code: %v", 502),
	&net.OpError{Op: "dial", Net: "tcp", Err: syscall.ECONNRESET},
}

// failures caused by cancellation / teardown: must never count.
var c16TeardownErrs = []error{
	context.Canceled,
	fmt.Errorf("dial proxy: %w", context.Canceled),
	net.ErrClosed,
	&net.OpError{Op: "read", Net: "udp", Err: net.ErrClosed},
	os.ErrClosed,
	errors.New("read udp 10.0.0.1:1->10.0.0.2:2: use of closed network connection"),
	errors.New("dial tcp: operation was canceled"),
}

// ---- model --------------------------------------------------------------------

type c16Tr struct {
	gen, node, dom int
	alive          bool
}

func (x c16Tr) String() string {
	return fmt.Sprintf("g%d/n%d/%s->%v", x.gen, x.node, c16DomNames[x.dom], x.alive)
}

type c16Addr struct {
	lo, hi int // plausible range of "death transitions since the last success"
	last   time.Time
	has    bool
}

type c16Model struct {
	alive      [][6]bool
	pfLo, pfHi [][6]int // consecutive probe-class failures (range, see trafficOK)
	tf         [][6]int // consecutive traffic failures
	dirty      [][6]bool
	addr       map[string]*c16Addr
	supp       int
	until      time.Time
}

func (m *c16Model) suppressed(now time.Time) bool {
	return m.supp > 0 || now.Before(m.until)
}

// ---- harness state ------------------------------------------------------------

type c16Group struct {
	name    string
	policy  consts.DialerSelectionPolicy
	members []int
	sets    [6]*AliveDialerSet
	bit     [6]int
	ncb     [6]int
}

func (g *c16Group) latencyPolicy() bool { return isMinLatencyPolicy(g.policy) }

func (g *c16Group) has(n int) bool {
	for _, x := range g.members {
		if x == n {
			return true
		}
	}
	return false
}

type c16GroupCfg struct {
	policy  consts.DialerSelectionPolicy
	members []int
	offsets []time.Duration
}

type c16H struct {
	t       *rapid.T
	log     *logrus.Logger
	tol     time.Duration
	gen     int
	addrs   []string
	gcfg    []c16GroupCfg
	nodes   []*Dialer
	groups  []*c16Group
	old     []*Dialer
	m       c16Model
	obs     [2][]c16Tr
	hist    []string
	classes map[string]bool
	nt      bool
	known   bool
}

func (h *c16H) class(c string) { h.classes[c] = true }

func (h *c16H) logf(format string, a ...any) {
	h.hist = append(h.hist, fmt.Sprintf(format, a...))
}

func (h *c16H) failf(format string, a ...any) {
	h.t.Fatalf("%s\nhistory (%d steps):\n  %s", fmt.Sprintf(format, a...), len(h.hist), strings.Join(h.hist, "\n  "))
}

func c16Reset() {
	resetGlobalProxyState()
	reloadProxyFailureSuppression.Store(0)
	reloadProxyFailureSuppressUntil.Store(0)
}

func (h *c16H) buildGeneration() {
	h.gen++
	gen := h.gen
	opt := &GlobalOption{Log: h.log, CheckInterval: 30 * time.Second, CheckTolerance: h.tol}
	h.nodes = make([]*Dialer, len(h.addrs))
	for i := range h.addrs {
		d := NewDialer(direct.SymmetricDirect, opt, InstanceOption{DisableCheck: true}, &Property{
			Property: D.Property{Name: fmt.Sprintf("n%d", i), Address: h.addrs[i]},
		})
		node := i
		for k := 0; k < 2; k++ {
			k := k
			d.RegisterAliveTransitionCallback(func(nt *NetworkType, alive bool) {
				h.obs[k] = append(h.obs[k], c16Tr{gen: gen, node: node, dom: c16DomOf(nt), alive: alive})
			})
		}
		h.nodes[i] = d
	}
	h.groups = nil
	for gi, cfg := range h.gcfg {
		g := &c16Group{name: fmt.Sprintf("g%d", gi), policy: cfg.policy, members: cfg.members}
		ds := make([]*Dialer, len(cfg.members))
		annos := make([]*Annotation, len(cfg.members))
		for i, n := range cfg.members {
			ds[i] = h.nodes[n]
			annos[i] = &Annotation{AddLatency: cfg.offsets[i]}
		}
		// as DialerGroup.buildSelectionState + registerAliveDialerSets do.
		for dom := 0; dom < 6; dom++ {
			nt := *c16Types(dom)[0]
			dom := dom
			g.bit[dom] = 1 // NewDialerGroup: aliveChangeCallback(true, nt, isInit=true)
			set := NewAliveDialerSet(h.log, g.name, &nt, h.tol, cfg.policy, ds, annos, func(alive bool) {
				g.ncb[dom]++
				if alive {
					g.bit[dom] = 1
				} else {
					g.bit[dom] = 0
				}
			}, false)
			for _, d := range ds {
				set.NotifyLatencyChange(d, d.MustGetAlive(&nt))
			}
			g.sets[dom] = set
		}
		for _, d := range ds {
			for dom := 0; dom < 6; dom++ {
				d.RegisterAliveDialerSet(g.sets[dom])
				if dom < 2 {
					d.RegisterAliveDialerSet(g.sets[dom]) // the IdxDnsTcp alias slot
				}
			}
		}
		h.groups = append(h.groups, g)
	}
}

func (h *c16H) closeGeneration(nodes []*Dialer, groups []*c16Group) {
	for _, g := range groups {
		for _, n := range g.members {
			for dom := 0; dom < 6; dom++ {
				nodes[n].UnregisterAliveDialerSet(g.sets[dom])
				if dom < 2 {
					nodes[n].UnregisterAliveDialerSet(g.sets[dom])
				}
			}
		}
	}
	for _, d := range nodes {
		_ = d.Close()
	}
}

func (h *c16H) count(g *c16Group, dom int) int {
	c := 0
	for _, n := range g.members {
		if h.m.alive[n][dom] {
			c++
		}
	}
	return c
}

// hasLatency: does node n carry a latency sample usable by policy in dom.
func (h *c16H) hasLatency(n, dom int, policy consts.DialerSelectionPolicy) bool {
	_, ok := h.nodes[n].snapshotLatencyForPolicy(c16Types(dom)[0], policy)
	return ok
}

// f1Shape: reviving (n,dom) now would be the exact shape of finding F-C16-1:
// a latency-policy group containing n is empty for dom and n has no latency
// sample for that policy.
func (h *c16H) f1Shape(n, dom int) bool {
	if h.m.alive[n][dom] {
		return false
	}
	for _, g := range h.groups {
		if g.latencyPolicy() && g.has(n) && h.count(g, dom) == 0 && !h.hasLatency(n, dom, g.policy) {
			return true
		}
	}
	return false
}

func c16SortTr(x []c16Tr) []string {
	s := make([]string, len(x))
	for i := range x {
		s[i] = x[i].String()
	}
	sort.Strings(s)
	return s
}

// verify is the oracle; exp = alive transitions the model expects from the call
// that was just made.
func (h *c16H) verify(exp []c16Tr) {
	synctest.Wait()
	want := strings.Join(c16SortTr(exp), " ")
	for k := 0; k < 2; k++ {
		if got := strings.Join(c16SortTr(h.obs[k]), " "); got != want {
			h.failf("alive-transition callbacks (callback #%d): got [%s] want [%s]", k, got, want)
		}
		h.obs[k] = h.obs[k][:0]
	}
	for n, d := range h.nodes {
		for dom := 0; dom < 6; dom++ {
			for _, nt := range c16Types(dom) {
				if got := d.MustGetAlive(nt); got != h.m.alive[n][dom] {
					h.failf("node n%d %s (asked as %+v): alive=%v, model says %v", n, c16DomNames[dom], *nt, got, h.m.alive[n][dom])
				}
			}
		}
	}
	for _, g := range h.groups {
		for dom := 0; dom < 6; dom++ {
			set := g.sets[dom]
			set.mu.RLock()
			for _, n := range g.members {
				idx, ok := set.dialerToIndex[h.nodes[n]]
				in := ok && idx >= 0
				if in && (idx >= len(set.aliveEntries) || set.aliveEntries[idx].dialer != h.nodes[n]) {
					set.mu.RUnlock()
					h.failf("group %s %s: index of n%d does not point at its entry", g.name, c16DomNames[dom], n)
				}
				if in != h.m.alive[n][dom] {
					set.mu.RUnlock()
					h.failf("group %s (%s) %s: member n%d in alive set=%v but node alive=%v", g.name, g.policy, c16DomNames[dom], n, in, h.m.alive[n][dom])
				}
			}
			l := len(set.aliveEntries)
			set.mu.RUnlock()
			cnt := h.count(g, dom)
			if l != cnt {
				h.failf("group %s %s: alive set has %d entries, %d members are alive", g.name, c16DomNames[dom], l, cnt)
			}
			if g.latencyPolicy() {
				wantBit := 0
				if cnt > 0 {
					wantBit = 1
				}
				if g.bit[dom] != wantBit {
					h.failf("group %s (%s) %s: connectivity bit=%d but %d member(s) alive", g.name, g.policy, c16DomNames[dom], g.bit[dom], cnt)
				}
			}
		}
	}
}

// ---- model transitions ----------------------------------------------------------

func (h *c16H) addrOf(n int) *c16Addr {
	a := h.m.addr[h.addrs[n]]
	if a == nil {
		a = &c16Addr{}
		h.m.addr[h.addrs[n]] = a
	}
	return a
}

func (h *c16H) firmSuccess(n int) {
	a := h.addrOf(n)
	a.lo, a.hi, a.has = 0, 0, false
}

func (h *c16H) softSuccess(n int) { h.addrOf(n).lo = 0 }

func (h *c16H) realAllDead(n int) bool {
	for dom := 0; dom < 6; dom++ {
		if h.nodes[n].MustGetAlive(c16Types(dom)[0]) {
			return false
		}
	}
	return true
}

// thresholdDeath: (n,dom) just died through a threshold (not forced).
func (h *c16H) thresholdDeath(n, dom int, now time.Time) (exp []c16Tr) {
	m := &h.m
	m.alive[n][dom] = false
	exp = append(exp, c16Tr{h.gen, n, dom, false})
	if m.dirty[n][dom] {
		h.class("cross_after_reset_partial_run")
		h.nt = true
	}
	a := h.addrOf(n)
	if a.has && now.Sub(a.last) >= proxyFailureTTL {
		a.lo = 1 // a failure TTL may have forgotten the older deaths (statement is silent)
		h.class("death_after_ttl_gap")
	} else {
		a.lo++
	}
	a.hi++
	a.last, a.has = now, true
	esc := false
	switch {
	case a.lo >= 3:
		esc = true
	case a.hi >= 3:
		others := false
		for x := 0; x < 6; x++ {
			if m.alive[n][x] {
				others = true
			}
		}
		if !others {
			a.lo = 0
			if a.hi > 2 {
				a.hi = 2
			}
			return exp
		}
		esc = h.realAllDead(n)
		if !esc {
			a.hi = 2
		}
	}
	if esc {
		h.class("escalation_3_deaths")
		h.nt = true
		for x := 0; x < 6; x++ {
			if m.alive[n][x] {
				m.alive[n][x] = false
				exp = append(exp, c16Tr{h.gen, n, x, false})
				h.class("escalation_took_other_domain_down")
			}
		}
		a.lo, a.hi, a.has = 0, 0, false
	}
	return exp
}

func (h *c16H) modelFail(n, dom int, probeClass bool) (exp []c16Tr) {
	m := &h.m
	now := time.Now()
	if m.suppressed(now) {
		h.class("failure_while_suppressed")
		if m.supp == 0 {
			h.class("failure_in_quiesce_window")
		}
		return nil
	}
	if !m.alive[n][dom] {
		return nil
	}
	die := false
	if probeClass {
		thr := c16ProbeThreshold(dom)
		lo, hi := m.pfLo[n][dom]+1, m.pfHi[n][dom]+1
		switch {
		case lo >= thr:
			die = true
		case hi < thr:
		default:
			die = !h.nodes[n].MustGetAlive(c16Types(dom)[0])
			if !die {
				hi = thr - 1
			}
		}
		m.pfLo[n][dom], m.pfHi[n][dom] = lo, hi
		if die {
			h.class("cross_probe_" + c16DomNames[dom][:3])
		} else {
			h.class("partial_probe_run")
		}
	} else {
		m.tf[n][dom]++
		die = m.tf[n][dom] >= c16TrafficThreshold(dom)
		if die {
			h.class("cross_traffic_" + c16DomNames[dom][:3])
		} else if m.tf[n][dom] == c16TrafficThreshold(dom)-1 {
			h.class("traffic_one_below_threshold")
		}
	}
	if die {
		return h.thresholdDeath(n, dom, now)
	}
	return nil
}

func (h *c16H) modelRevive(n, dom int) (exp []c16Tr) {
	m := &h.m
	if !m.alive[n][dom] {
		exp = append(exp, c16Tr{h.gen, n, dom, true})
		m.alive[n][dom] = true
	} else if m.pfHi[n][dom] > 0 || m.tf[n][dom] > 0 {
		m.dirty[n][dom] = true
		h.class("success_reset_partial_run")
	}
	m.pfLo[n][dom], m.pfHi[n][dom], m.tf[n][dom] = 0, 0, 0
	return exp
}

// ---- events ---------------------------------------------------------------------

// evProbe runs one probe through the real Dialer.Check retry logic. attempts[i]
// scripts what CheckFunc returns on its (i+1)-th call: "ok", "err" (a real
// failure), "cancel" (context.Canceled: teardown) or "noip" (ok=false, err=nil:
// no applicable ip). A probe counts as a failure only if its final attempt
// failed for real; a cancelled / skipped final attempt changes nothing, also when
// an earlier attempt of the same probe failed for real.
func (h *c16H) evProbe(n, dom, variant int, attempts [2]string, lat time.Duration, err, cerr error) {
	nt := c16Types(dom)[variant%len(c16Types(dom))]
	calls := 0
	last := ""
	opt := &CheckOption{networkType: nt, CheckFunc: func(ctx context.Context, typ *NetworkType) (bool, error) {
		if calls >= 2 {
			h.failf("CheckFunc called a third time for one probe")
		}
		last = attempts[calls]
		calls++
		time.Sleep(lat)
		switch last {
		case "ok":
			return true, nil
		case "err":
			return false, err
		case "cancel":
			return false, cerr
		default: // "noip"
			return false, nil
		}
	}}
	h.logf("probe %v n%d %s v%d lat=%v err=%v cerr=%v", attempts, n, c16DomNames[dom], variant, lat, err, cerr)
	_, _ = h.nodes[n].Check(opt)
	if calls == 0 {
		h.failf("Check never called CheckFunc")
	}
	if calls == 2 {
		h.class("probe_retried_" + attempts[0] + "_then_" + attempts[1])
	}
	var exp []c16Tr
	switch last {
	case "ok":
		if !h.m.alive[n][dom] {
			h.class("revive_by_probe")
		}
		exp = h.modelRevive(n, dom)
		h.firmSuccess(n)
	case "err":
		exp = h.modelFail(n, dom, true)
	default:
		h.class("probe_" + last + "_ignored")
	}
	h.verify(exp)
}

func (h *c16H) evReport(n, dom, variant int, kind string, err error, rep int) {
	nt := c16Types(dom)[variant%len(c16Types(dom))]
	if variant%len(c16Types(dom)) != 0 {
		h.class("alias_spelling_used")
	}
	for i := 0; i < rep; i++ {
		h.logf("%s n%d %s v%d err=%v (%d/%d)", kind, n, c16DomNames[dom], variant, err, i+1, rep)
		var exp []c16Tr
		switch kind {
		case "traffic_fail":
			h.nodes[n].ReportUnavailable(nt, err)
			exp = h.modelFail(n, dom, false)
		case "trans_fail":
			h.nodes[n].ReportUnavailableTransactional(nt, err)
			exp = h.modelFail(n, dom, true)
		case "traffic_teardown":
			h.nodes[n].ReportUnavailable(nt, err)
			h.class("teardown_error_ignored")
		case "trans_teardown":
			h.nodes[n].ReportUnavailableTransactional(nt, err)
			h.class("teardown_error_ignored")
		case "forced":
			h.nodes[n].ReportUnavailableForced(nt, err)
			if h.m.alive[n][dom] {
				h.m.alive[n][dom] = false
				exp = append(exp, c16Tr{h.gen, n, dom, false})
				h.class("forced_death")
				h.nt = true
				if h.m.suppressed(time.Now()) {
					h.class("forced_death_while_suppressed")
				}
			}
		case "traffic_ok":
			if h.known && dom >= 4 && h.f1Shape(n, dom) {
				vkExcluded(c16Unit, c16F1)
				h.hist = h.hist[:len(h.hist)-1]
				return
			}
			h.nodes[n].ReportAvailableTraffic(nt)
			m := &h.m
			if dom >= 4 {
				if !m.alive[n][dom] {
					h.class("revive_by_data_udp_traffic")
					h.firmSuccess(n)
				} else {
					h.softSuccess(n)
				}
				exp = h.modelRevive(n, dom)
			} else {
				// only the traffic run is reset; no revival outside data UDP. Whether a
				// traffic success interrupts a run of failed *probes* is not stated:
				// accept both.
				if m.alive[n][dom] && m.tf[n][dom] > 0 {
					m.dirty[n][dom] = true
					h.class("success_reset_partial_run")
				}
				m.tf[n][dom] = 0
				m.pfLo[n][dom] = 0
				h.softSuccess(n)
				if !m.alive[n][dom] {
					h.class("traffic_ok_on_dead_non_data_domain")
				}
			}
		case "reload_fallback":
			if h.known && h.f1Shape(n, dom) {
				vkExcluded(c16Unit, c16F1)
				h.hist = h.hist[:len(h.hist)-1]
				return
			}
			h.nodes[n].MarkAliveForReloadFallback(nt)
			if !h.m.alive[n][dom] {
				h.class("revive_by_reload_fallback")
			}
			exp = h.modelRevive(n, dom)
			h.softSuccess(n)
		}
		h.verify(exp)
	}
}

func (h *c16H) evBegin() {
	h.logf("begin_suppression")
	BeginReloadProxyFailureSuppression()
	h.m.supp++
	h.verify(nil)
}

func (h *c16H) evEnd() {
	h.logf("end_suppression")
	EndReloadProxyFailureSuppression()
	if h.m.supp > 0 {
		h.m.supp--
		if h.m.supp == 0 {
			h.m.until = time.Now().Add(Timeout + 10*time.Second) // documented 20 s quiesce
		}
	}
	h.verify(nil)
}

func (h *c16H) evSleep(d time.Duration) {
	h.logf("sleep %v", d)
	time.Sleep(d)
	h.verify(nil)
}

// evReload: a new generation (fresh nodes, same groups) inherits the old one's
// sanitized snapshot, as cmd/run.go + ControlPlane.InheritDialerHealthFrom do
// (the selection floor is exercised in the component/outbound and control units).
func (h *c16H) evReload() {
	h.logf("reload")
	ResetGlobalProxyStateForReload()
	h.m.addr = map[string]*c16Addr{}
	oldNodes, oldGroups := h.nodes, h.groups
	h.buildGeneration()
	var exp []c16Tr
	for n, d := range h.nodes {
		snap := oldNodes[n].ReloadHealthSnapshot()
		d.RestoreHealthSnapshot(snap)
		for dom := 0; dom < 6; dom++ {
			if !h.m.alive[n][dom] {
				exp = append(exp, c16Tr{h.gen, n, dom, false}) // fresh node was alive
				h.class("restore_dead_domain")
			}
			h.m.pfLo[n][dom], h.m.pfHi[n][dom], h.m.tf[n][dom] = 0, 0, 0
			h.m.dirty[n][dom] = false
		}
		hs := d.HealthSnapshot()
		for idx, c := range hs.Collections {
			if c.FailCount != 0 || c.TrafficFailCount != 0 {
				h.failf("after restore n%d collection %d carries fail counts %d/%d", n, idx, c.FailCount, c.TrafficFailCount)
			}
		}
	}
	h.closeGeneration(oldNodes, oldGroups)
	h.class("reload")
	h.nt = true
	h.verify(exp)
}

// ---- generator --------------------------------------------------------------------

var c16Policies = []consts.DialerSelectionPolicy{
	consts.DialerSelectionPolicy_MinLastLatency,
	consts.DialerSelectionPolicy_MinAverage10Latencies,
	consts.DialerSelectionPolicy_MinMovingAverageLatencies,
	consts.DialerSelectionPolicy_Random,
}

var c16Sleeps = []time.Duration{
	time.Millisecond, time.Second, 9 * time.Second, 19*time.Second + 999*time.Millisecond, 20 * time.Second,
	21 * time.Second, 5 * time.Minute, 14*time.Minute + 59*time.Second, 15 * time.Minute, 16 * time.Minute, 21 * time.Minute,
}

func c16Case(t *rapid.T) {
	c16Reset()
	log := logrus.New()
	log.SetOutput(io.Discard)
	log.SetLevel(logrus.ErrorLevel)
	h := &c16H{t: t, log: log, classes: map[string]bool{}, known: vkKnown(c16F1)}
	h.tol = rapid.SampledFrom([]time.Duration{0, time.Millisecond, 50 * time.Millisecond}).Draw(t, "tol")
	nn := rapid.IntRange(1, 3).Draw(t, "nodes")
	for i := 0; i < nn; i++ {
		h.addrs = append(h.addrs, rapid.SampledFrom([]string{"p1.example:443", "p2.example:443"}).Draw(t, "addr"))
	}
	ng := rapid.IntRange(0, 3).Draw(t, "groups")
	for g := 0; g < ng; g++ {
		cfg := c16GroupCfg{policy: rapid.SampledFrom(c16Policies).Draw(t, "policy")}
		for n := 0; n < nn; n++ {
			if rapid.Bool().Draw(t, "member") {
				cfg.members = append(cfg.members, n)
			}
		}
		if len(cfg.members) == 0 {
			cfg.members = []int{rapid.IntRange(0, nn-1).Draw(t, "member1")}
		}
		for range cfg.members {
			cfg.offsets = append(cfg.offsets, rapid.SampledFrom([]time.Duration{0, 0, 10 * time.Millisecond, 100 * time.Millisecond}).Draw(t, "offset"))
		}
		h.gcfg = append(h.gcfg, cfg)
	}
	h.m = c16Model{
		alive: make([][6]bool, nn), pfLo: make([][6]int, nn), pfHi: make([][6]int, nn), tf: make([][6]int, nn),
		dirty: make([][6]bool, nn), addr: map[string]*c16Addr{},
	}
	for n := 0; n < nn; n++ {
		for d := 0; d < 6; d++ {
			h.m.alive[n][d] = true
		}
	}
	h.buildGeneration()
	defer func() {
		h.closeGeneration(h.nodes, h.groups)
		c16Reset()
	}()
	h.verify(nil)

	// focus pairs make runs of failures on one (node, domain) likely.
	type pair struct{ n, dom int }
	var focus []pair
	for i := rapid.IntRange(1, 2).Draw(t, "nfocus"); i > 0; i-- {
		focus = append(focus, pair{rapid.IntRange(0, nn-1).Draw(t, "fn"), rapid.IntRange(0, 5).Draw(t, "fd")})
	}
	maxSteps := 50
	if vkThorough() {
		maxSteps = 80
	}
	steps := rapid.IntRange(5, maxSteps).Draw(t, "steps")
	// profiles: "balanced" mixes everything; "outage" has no successful probes and few
	// reloads, so death transitions accumulate per address (3-deaths escalation, TTL).
	profile := rapid.SampledFrom([]string{"balanced", "balanced", "outage"}).Draw(t, "profile")
	events := []string{
		"probe_ok", "probe_ok", "probe_fail", "probe_fail", "probe_fail", "probe_flaky", "probe_cancel", "probe_noip",
		"traffic_fail", "traffic_fail", "traffic_fail", "trans_fail", "trans_fail", "traffic_teardown", "trans_teardown",
		"forced", "traffic_ok", "traffic_ok", "traffic_ok", "reload_fallback",
		"begin", "end", "end", "sleep", "sleep", "reload",
	}
	offFocus := 3
	if profile == "outage" {
		events = []string{
			"probe_fail", "probe_fail", "probe_fail", "probe_fail", "probe_cancel", "probe_noip",
			"traffic_fail", "traffic_fail", "traffic_fail", "trans_fail", "trans_fail", "traffic_teardown",
			"forced", "traffic_ok", "reload_fallback", "reload_fallback", "reload_fallback",
			"begin", "end", "end", "sleep", "sleep",
		}
		offFocus = 7
		h.class("profile_outage")
	}
	for s := 0; s < steps; s++ {
		ev := rapid.SampledFrom(events).Draw(t, "ev")
		p := focus[rapid.IntRange(0, len(focus)-1).Draw(t, "focus")]
		if rapid.IntRange(0, 9).Draw(t, "offfocus") < offFocus {
			p = pair{rapid.IntRange(0, nn-1).Draw(t, "n"), rapid.IntRange(0, 5).Draw(t, "dom")}
		}
		variant := rapid.IntRange(0, 2).Draw(t, "variant")
		switch ev {
		case "probe_ok", "probe_fail", "probe_flaky", "probe_cancel", "probe_noip":
			// production probes exist for TCP and DNS-UDP only.
			if p.dom >= 4 {
				p.dom -= 2
			}
			lat := time.Duration(rapid.IntRange(1, 3000).Draw(t, "lat_ms")) * time.Millisecond
			err := rapid.SampledFrom(c16RealErrs).Draw(t, "err")
			cerr := rapid.SampledFrom(c16TeardownErrs[:2]).Draw(t, "cerr")
			// per-attempt script: the first attempt follows the event, the retry (made
			// only after a real error) is drawn freely, biased to the event's outcome.
			var attempts [2]string
			retry := rapid.SampledFrom([]string{"same", "same", "ok", "err", "cancel", "noip"}).Draw(t, "retry")
			switch ev {
			case "probe_ok":
				attempts = [2]string{"ok", "ok"}
			case "probe_cancel":
				attempts = [2]string{"cancel", "err"}
				if retry != "same" {
					attempts = [2]string{"err", "cancel"}
				}
			case "probe_noip":
				attempts = [2]string{"noip", "err"}
				if retry != "same" {
					attempts = [2]string{"err", "noip"}
				}
			case "probe_flaky":
				attempts = [2]string{"err", "ok"}
			default: // probe_fail
				attempts = [2]string{"err", "err"}
				if retry != "same" {
					attempts[1] = retry
				}
			}
			h.evProbe(p.n, p.dom, variant, attempts, lat, err, cerr)
		case "traffic_fail", "trans_fail":
			if ev == "trans_fail" && p.dom/2 != 1 {
				// transactional (DNS request) failures are reported for DNS-UDP only.
				p.dom = 2 + p.dom%2
			}
			thr, cur := c16TrafficThreshold(p.dom), h.m.tf[p.n][p.dom]
			if ev == "trans_fail" {
				thr, cur = c16ProbeThreshold(p.dom), h.m.pfHi[p.n][p.dom]
			}
			need := thr - cur
			if need < 1 {
				need = 1
			}
			rep := rapid.SampledFrom([]int{1, 1, 2, need - 1, need - 1, need, need, need + 1}).Draw(t, "rep")
			if rep < 1 {
				rep = 1
			}
			var err error
			if rapid.IntRange(0, 7).Draw(t, "nilerr") > 0 {
				err = rapid.SampledFrom(c16RealErrs).Draw(t, "err")
			}
			h.evReport(p.n, p.dom, variant, ev, err, rep)
		case "traffic_teardown", "trans_teardown":
			if ev == "trans_teardown" {
				p.dom = 2 + p.dom%2
			}
			rep := rapid.SampledFrom([]int{1, 3, 10, 50}).Draw(t, "rep")
			h.evReport(p.n, p.dom, variant, ev, rapid.SampledFrom(c16TeardownErrs).Draw(t, "terr"), rep)
		case "forced":
			errs := append(append([]error{nil}, c16RealErrs...), c16TeardownErrs...)
			h.evReport(p.n, p.dom, variant, ev, rapid.SampledFrom(errs).Draw(t, "ferr"), 1)
		case "traffic_ok", "reload_fallback":
			if ev == "traffic_ok" && rapid.IntRange(0, 2).Draw(t, "on_data_udp") > 0 {
				p.dom = 4 + p.dom%2
			}
			h.evReport(p.n, p.dom, variant, ev, nil, 1)
		case "begin":
			h.evBegin()
		case "end":
			h.evEnd()
		case "sleep":
			h.evSleep(rapid.SampledFrom(c16Sleeps).Draw(t, "sleep"))
		case "reload":
			h.evReload()
		}
	}

	shared := false
	for i := range h.addrs {
		for j := i + 1; j < len(h.addrs); j++ {
			if h.addrs[i] == h.addrs[j] {
				shared = true
			}
		}
	}
	if shared {
		h.class("nodes_share_address")
	}
	multi := map[int]int{}
	for _, g := range h.gcfg {
		for _, n := range g.members {
			multi[n]++
		}
		h.class("policy_" + string(g.policy))
	}
	for _, c := range multi {
		if c >= 2 {
			h.class("node_in_2plus_groups")
		}
	}
	if len(h.gcfg) == 0 {
		h.class("node_in_no_group")
	}
	key := ""
	if h.nt {
		key = fmt.Sprintf("%v|%v|%s", h.addrs, h.gcfg, strings.Join(h.hist, ";"))
	}
	cl := make([]string, 0, len(h.classes))
	for c := range h.classes {
		cl = append(cl, c)
	}
	sort.Strings(cl)
	hist := h.hist
	vkCase(c16Unit, key, func() any {
		if len(hist) > 60 {
			hist = hist[:60]
		}
		return map[string]any{"addrs": h.addrs, "groups": fmt.Sprintf("%v", h.gcfg), "history": hist}
	}, cl...)
}

func c16InBubble(tt *testing.T, f func()) {
	var (
		pv       any
		panicked bool
	)
	synctest.Test(tt, func(_ *testing.T) {
		defer func() {
			if r := recover(); r != nil {
				pv, panicked = r, true
			}
		}()
		f()
	})
	if panicked {
		// rapid's shrinker identifies a failure by its traceback; everything re-raised
		// here would look alike, so "invalid data" (bit stream overrun while
		// shrinking) is re-raised from a different frame than real failures.
		if fmt.Sprintf("%T", pv) == "rapid.invalidData" {
			c16ReraiseInvalid(pv)
		}
		panic(pv)
	}
}

//go:noinline
func c16ReraiseInvalid(pv any) { panic(pv) }

func TestC16_Health(tt *testing.T) {
	rapid.Check(tt, func(t *rapid.T) {
		c16InBubble(tt, func() { c16Case(t) })
	})
}

// TestC16_Finding_FC161: a latency-policy group whose last alive node of a type
// died (connectivity bit cleared) must get the bit set again when a node revives,
// also when the reviving node has no latency sample for that type (always the
// case for data UDP, which is never probed; for TCP / DNS UDP when the revival is
// MarkAliveForReloadFallback on a never-probed node).
func TestC16_Finding_FC161(tt *testing.T) {
	type res struct {
		policy   consts.DialerSelectionPolicy
		how      string
		bitAfter int
		alive    bool
	}
	var results []res
	for _, policy := range c16Policies[:3] {
		for _, how := range []string{"data_udp_traffic", "tcp_reload_fallback"} {
			policy, how := policy, how
			c16InBubble(tt, func() {
				c16Reset()
				defer c16Reset()
				log := logrus.New()
				log.SetOutput(io.Discard)
				log.SetLevel(logrus.ErrorLevel)
				opt := &GlobalOption{Log: log, CheckInterval: 30 * time.Second}
				d := NewDialer(direct.SymmetricDirect, opt, InstanceOption{DisableCheck: true}, &Property{Property: D.Property{Name: "n0", Address: "p1.example:443"}})
				defer d.Close()
				dom := 4
				if how == "tcp_reload_fallback" {
					dom = 0
				}
				nt := *c16Types(dom)[0]
				bit := 1
				set := NewAliveDialerSet(log, "g", &nt, 0, policy, []*Dialer{d}, []*Annotation{{}}, func(alive bool) {
					if alive {
						bit = 1
					} else {
						bit = 0
					}
				}, false)
				set.NotifyLatencyChange(d, d.MustGetAlive(&nt))
				d.RegisterAliveDialerSet(set)
				defer d.UnregisterAliveDialerSet(set)
				d.ReportUnavailableForced(&nt, errors.New("proxy dial failed"))
				if bit != 0 || set.Len() != 0 || d.MustGetAlive(&nt) {
					tt.Errorf("%s/%s: after the only node died: bit=%d len=%d alive=%v", policy, how, bit, set.Len(), d.MustGetAlive(&nt))
					return
				}
				if how == "data_udp_traffic" {
					d.ReportAvailableTraffic(&nt)
				} else {
					d.MarkAliveForReloadFallback(&nt)
				}
				if !d.MustGetAlive(&nt) || set.Len() != 1 {
					tt.Errorf("%s/%s: node did not revive: alive=%v len=%d", policy, how, d.MustGetAlive(&nt), set.Len())
					return
				}
				results = append(results, res{policy, how, bit, true})
			})
		}
	}
	if tt.Failed() {
		return
	}
	stale := 0
	for _, r := range results {
		if r.bitAfter == 0 {
			stale++
		}
	}
	if vkKnown(c16F1) {
		if stale > 0 {
			vkKnownReproduced(c16F1)
			tt.Logf("known finding %s reproduced in %d/%d shapes: %+v", c16F1, stale, len(results), results)
		} else {
			tt.Logf("known finding %s no longer reproduces", c16F1)
		}
		return
	}
	if stale > 0 {
		tt.Fatalf("latency-policy group connectivity bit stays 0 after its only node revived without a latency sample (%d/%d shapes): %+v", stale, len(results), results)
	}
}

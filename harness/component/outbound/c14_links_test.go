package outbound

// C14 — the node pool as production builds it: NewDialerSetFromLinks from the
// tag → link-list map that cmd/run.go assembles (plain `node` entries under tag "",
// every subscription under its own tag). One pool entry per LISTED node — the same
// link under several subscriptions, repeated inside one, or also listed as a plain
// node are separate entries, each with the tag it was listed under — then the
// filters select from that pool as in TestC14_Filter.
//
// The order between tags is the map iteration order of the constructor and is not
// asserted; inside one tag the listed order is, and FilterAndAnnotate is checked
// against the order the constructed set actually has.

import (
	"fmt"
	"net/url"
	"sort"
	"strings"
	"testing"

	"pgregory.net/rapid"
)

type c14Link struct {
	Link string
	Name string // the node name production derives from it
}

var c14LinkNames = []string{"HK_node", "US_node", "HK_node2", "node1", "node10", "HK 香港 01", "🇯🇵 Tokyo [IPLC]", "a.b", "axb", "a+b", "sg", "SG", "ExpireAt 2026", "", "日本"}

// c14GenLink: a link that constructs offline (IP-literal host, no resolver):
// socks5 / socks / http / https, name in the #fragment or as a "name:" prefix
// (the prefix wins).
func c14GenLink(t *rapid.T) c14Link {
	scheme := rapid.SampledFrom([]string{"socks5", "socks5", "http", "https", "socks"}).Draw(t, "scheme")
	host := rapid.SampledFrom([]string{"192.0.2.1", "192.0.2.2", "198.51.100.7", "[2001:db8::1]"}).Draw(t, "host")
	port := rapid.SampledFrom([]string{"1080", "8080", "443"}).Draw(t, "port")
	user := rapid.SampledFrom([]string{"", "", "u:p@", "user@"}).Draw(t, "user")
	name := rapid.SampledFrom(c14LinkNames).Draw(t, "lname")
	l := scheme + "://" + user + host + ":" + port
	switch rapid.IntRange(0, 3).Draw(t, "namestyle") {
	case 0: // name: prefix, no fragment
		if name == "" {
			return c14Link{l, ""}
		}
		return c14Link{name + ":" + l, name}
	case 1: // prefix overrides the fragment
		if name == "" {
			return c14Link{l + "#other", "other"}
		}
		return c14Link{name + ":" + l + "#" + url.PathEscape("fragment name"), name}
	default:
		if name == "" {
			return c14Link{l, ""}
		}
		return c14Link{l + "#" + url.PathEscape(name), name}
	}
}

func TestC14_Links(t *testing.T) {
	rapid.Check(t, func(t *rapid.T) {
		// a small per-case vocabulary, so the same link is listed in several places
		nv := rapid.IntRange(1, 4).Draw(t, "nlinks")
		voc := make([]c14Link, nv)
		for i := range voc {
			voc[i] = c14GenLink(t)
		}
		tags := []string{""}
		ntags := rapid.IntRange(0, 3).Draw(t, "nsubs")
		tagVoc := []string{"my_sub", "my_sub2", "another_sub", "sub", "订阅", "MY_SUB"}
		tag0 := rapid.IntRange(0, len(tagVoc)-1).Draw(t, "tag0")
		for i := 0; i < ntags; i++ {
			tags = append(tags, tagVoc[(tag0+i)%len(tagVoc)]) // distinct tags
		}
		listing := map[string][]c14Link{}
		tagToNodeList := map[string][]string{}
		total := 0
		placesOf := map[string]map[string]int{} // link → tag → count
		for _, tag := range tags {
			n := rapid.SampledFrom([]int{2, 1, 3, 0, 4}).Draw(t, "nlisted")
			if tag != "" || n > 0 {
				tagToNodeList[tag] = []string{}
			}
			for i := 0; i < n; i++ {
				l := rapid.SampledFrom(voc).Draw(t, "listed")
				listing[tag] = append(listing[tag], l)
				tagToNodeList[tag] = append(tagToNodeList[tag], l.Link)
				if placesOf[l.Link] == nil {
					placesOf[l.Link] = map[string]int{}
				}
				placesOf[l.Link][tag]++
				total++
			}
		}

		set := NewDialerSetFromLinks(c14Option, tagToNodeList)
		defer set.Close()

		// one pool entry per listed node, each with its own tag; listed order inside a tag
		if len(set.dialers) != total {
			t.Fatalf("%d nodes listed, pool has %d entries %s\nlisting=%q", total, len(set.dialers), c14Names(set.dialers), tagToNodeList)
		}
		seen := map[any]bool{}
		perTag := map[string][]string{}
		pool := make([]c14Node, len(set.dialers))
		for i, d := range set.dialers {
			if seen[d] {
				t.Fatalf("pool entry %d is the same dialer object as an earlier entry", i)
			}
			seen[d] = true
			tag, ok := set.nodeToTagMap[d]
			if !ok {
				t.Fatalf("pool entry %d (%q) has no subscription tag entry", i, d.Property().Name)
			}
			if d.Property().SubscriptionTag != tag {
				t.Fatalf("pool entry %d: property tag %q but set tag %q", i, d.Property().SubscriptionTag, tag)
			}
			perTag[tag] = append(perTag[tag], d.Property().Name)
			pool[i] = c14Node{Name: d.Property().Name, Tag: tag}
		}
		for _, tag := range tags {
			var want []string
			for _, l := range listing[tag] {
				want = append(want, l.Name)
			}
			if fmt.Sprintf("%q", perTag[tag]) != fmt.Sprintf("%q", want) {
				t.Fatalf("nodes listed under tag %q: %q, pool has %q under that tag\nlisting=%q", tag, want, perTag[tag], tagToNodeList)
			}
		}
		for tag := range perTag {
			if _, ok := listing[tag]; !ok && len(perTag[tag]) > 0 {
				t.Fatalf("pool has entries under tag %q that was never listed", tag)
			}
		}

		// the group built from this pool
		def, injected := c14GenDef(t, pool, true)
		if len(tags) > 1 && len(def.Lines) > 0 && rapid.Bool().Draw(t, "forcesubtag") {
			// aim at the tags: a line that selects exactly one subscription
			def.Lines[0] = c14Line{Calls: []c14Call{{Input: "subtag", Not: rapid.IntRange(0, 3).Draw(t, "nottag") == 0,
				Params: []c14P{{"", rapid.SampledFrom(tags).Draw(t, "thetag")}}}}}
			injected = nil
		}
		filters, annos := def.c14Filters()
		cls, key := c14RunFilterOn(t, set, pool, def, filters, annos, injected)

		multi, dupIn, alsoPlain := false, false, false
		for _, tg := range placesOf {
			if len(tg) > 1 {
				multi = true
				if _, ok := tg[""]; ok {
					alsoPlain = true
				}
			}
			for _, c := range tg {
				if c > 1 {
					dupIn = true
				}
			}
		}
		if multi {
			cls = append(cls, "link_under_several_tags")
		}
		if dupIn {
			cls = append(cls, "link_repeated_in_one_tag")
		}
		if alsoPlain {
			cls = append(cls, "link_also_plain_node")
		}
		if total == 0 {
			cls = append(cls, "nothing_listed")
		}
		sort.Strings(cls)
		// non-trivial: some link is listed more than once, or the filter result is
		// non-trivial in the TestC14_Filter sense
		if (multi || dupIn) && key == "" {
			key = fmt.Sprintf("%q|%s", tagToNodeList, def)
		} else if key != "" {
			key = fmt.Sprintf("%q|%s", tagToNodeList, key)
		}
		vkCase("C14.links", key, func() any {
			var ls []string
			for _, tag := range tags {
				ls = append(ls, fmt.Sprintf("%q: %q", tag, tagToNodeList[tag]))
			}
			return map[string]any{"listing": strings.Join(ls, "; "), "definition": def.String()}
		}, cls...)
	})
}

package outbound

// C14 — a group contains exactly the nodes its filters select, each once, in pool
// order, with the annotation of the first filter line it satisfies; no filters ⇒
// every node; invalid filter / annotation / policy ⇒ configuration error.
//
// Units:
//   TestC14_Filter  DialerSet.FilterAndAnnotate on generated pools × definitions
//                   (config_parser structures built directly).
//   TestC14_Text    the same definitions rendered as a `group { … }` section,
//                   parsed (pkg/config_parser) and decoded (config.New); the decoded
//                   Filter/FilterAnnotation must be the definition (alignment, nil
//                   when absent) and select the reference membership; the policy
//                   line goes through NewDialerSelectionPolicyFromGroupParam.
//   TestC14_Policy  NewDialerSelectionPolicyFromGroupParam on generated policy
//                   values; fixed(i) additionally through NewDialerGroup+Select.
//   TestC14_Sanity  deterministic: the documented examples of example.dae on a
//                   hand-made pool with hand-written expectations (grounds the
//                   reference), and the generator's regex tables.

import (
	"fmt"
	"sort"
	"strconv"
	"strings"
	"testing"
	"time"

	"github.com/daeuniverse/dae/common/consts"
	"github.com/daeuniverse/dae/component/outbound/dialer"
	"github.com/daeuniverse/dae/config"
	"github.com/daeuniverse/dae/pkg/config_parser"
	"github.com/dlclark/regexp2"
	"pgregory.net/rapid"
)

// c14RunFilter runs FilterAndAnnotate (cold regex cache, then warm) and applies the
// oracle. Returns the class list and the non-triviality key ("" = trivial).
func c14RunFilter(t *rapid.T, pool []c14Node, def c14Def, filters [][]*config_parser.Function, annos [][]*config_parser.Param, injected []string) ([]string, string) {
	set := c14NewSet(pool)
	defer set.Close()
	return c14RunFilterOn(t, set, pool, def, filters, annos, injected)
}

// c14RunFilterOn: set.dialers[i] is the node pool[i].
func c14RunFilterOn(t *rapid.T, set *DialerSet, pool []c14Node, def c14Def, filters [][]*config_parser.Function, annos [][]*config_parser.Param, injected []string) ([]string, string) {
	ref := c14Ref(pool, def)

	c14ClearRegexCache()
	got, gotAnno, err := set.FilterAndAnnotate(filters, annos)
	msg, wasErr := c14Compare(ref, pool, set, got, gotAnno, err)
	if msg != "" {
		t.Fatalf("%s\npool=%q\ndefinition:\n%s", msg, pool, def)
	}
	// second evaluation with the process-wide regex cache warm: same outcome.
	got2, gotAnno2, err2 := set.FilterAndAnnotate(filters, annos)
	if msg, _ := c14Compare(ref, pool, set, got2, gotAnno2, err2); msg != "" {
		t.Fatalf("second evaluation (warm regex cache): %s\npool=%q\ndefinition:\n%s", msg, pool, def)
	}
	if (err == nil) != (err2 == nil) {
		t.Fatalf("first evaluation err=%v, second err=%v\npool=%q\ndefinition:\n%s", err, err2, pool, def)
	}
	// the pool itself is untouched
	if len(set.dialers) != len(pool) {
		t.Fatalf("pool length changed to %d", len(set.dialers))
	}
	for i, d := range set.dialers {
		if d.Property().Name != pool[i].Name || set.nodeToTagMap[d] != pool[i].Tag {
			t.Fatalf("pool entry %d changed", i)
		}
	}

	cl := map[string]bool{}
	nt := false
	switch {
	case ref.MustErr != "":
		cl["err_required"] = true
		if ref.AtomsBeforeErr > 0 {
			cl["err_required_after_valid_evaluations"] = true
			nt = true
		}
	case wasErr:
		cl["err_allowed_unreached"] = true
	default:
		if ref.AnyInvalid {
			cl["invalid_unreached_membership_checked"] = true
			nt = true
		}
		if len(ref.Members) > 0 && len(ref.Members) < len(pool) {
			cl["proper_subset"] = true
			nt = true
		}
		if ref.OverlapDiffAnno {
			cl["overlap_diff_anno"] = true
			nt = true
		}
		if len(ref.Members) == 0 && len(pool) > 0 {
			cl["empty_group"] = true
		}
		if len(ref.Members) == len(pool) && len(pool) > 0 && len(def.Lines) > 0 {
			cl["whole_pool_by_filter"] = true
		}
		for k := range ref.Members {
			if ref.Want[k] != 0 {
				cl["nonzero_annotation"] = true
			}
			if ref.Want[k] != ref.Alt[k] {
				cl["dup_anno_zero_first"] = true
			}
		}
	}
	if len(def.Lines) == 0 {
		cl["no_filters"] = true
	}
	if len(pool) == 0 {
		cl["empty_pool"] = true
	}
	seen := map[c14Node]bool{}
	for _, n := range pool {
		if seen[n] {
			cl["dup_nodes"] = true
		}
		seen[n] = true
		if n.Name == "" {
			cl["empty_name"] = true
		}
		if strings.IndexFunc(n.Name, func(r rune) bool { return r > 127 }) >= 0 {
			cl["utf8_name"] = true
		}
	}
	for _, l := range def.Lines {
		if len(l.Calls) > 1 {
			cl["conjunction"] = true
		}
		if l.HasAnno && len(l.Anno) > 1 {
			cl["dup_annotation"] = true
		}
		if !l.HasAnno {
			cl["anno_absent"] = true
		}
		for _, c := range l.Calls {
			if c.Not {
				cl["negated"] = true
			}
			cl["input_"+c.Input] = true
			if len(c.Params) > 1 {
				cl["alternatives"] = true
			}
			for _, p := range c.Params {
				cl["key_"+p.Key] = true
				if p.Key == "regex" && strings.Contains(p.Val, "(?") {
					cl["regex_group_construct"] = true
				}
			}
		}
	}
	for _, i := range injected {
		cl["inj_"+i[:strings.IndexByte(i, '@')]] = true
	}
	var cls []string
	for c := range cl {
		cls = append(cls, c)
	}
	sort.Strings(cls)
	key := ""
	if nt {
		key = fmt.Sprintf("%q|%s", pool, def)
	}
	return cls, key
}

func TestC14_Filter(t *testing.T) {
	rapid.Check(t, func(t *rapid.T) {
		pool := c14GenPool(t, false)
		// one DialerSet, 1-3 group definitions evaluated on it one after the other (as
		// the control plane does); in a third of the cases the definitions share a
		// condition head of >=5 equal values with differing further alternatives.
		set := c14NewSet(pool)
		defer set.Close()
		var wide *c14Wide
		if rapid.IntRange(0, 2).Draw(t, "wide") == 0 {
			wide = c14GenWide(t, pool)
		}
		ndefs := rapid.SampledFrom([]int{1, 2, 1, 3}).Draw(t, "ndefs")
		for k := 0; k < ndefs; k++ {
			def, injected := c14GenDef(t, pool, true, wide)
			filters, annos := def.c14Filters()
			cls, key := c14RunFilterOn(t, set, pool, def, filters, annos, injected)
			if wide != nil {
				cls = append(cls, "shared_condition_head")
			}
			if k > 0 {
				cls = append(cls, "later_group_on_same_set")
			}
			vkCase("C14.filter", key, func() any {
				return map[string]any{"pool": fmt.Sprintf("%q", pool), "definition": def.String(), "expect": fmt.Sprintf("%+v", c14Ref(pool, def))}
			}, cls...)
		}
	})
}

// ------------------------------------------------------------------ policy

type c14Pol struct {
	Form  string // "string", "func", "list", "other"
	Str   string
	Fns   []c14Call // Input = function name
	Other any
}

func (p c14Pol) String() string {
	switch p.Form {
	case "string":
		return fmt.Sprintf("string %q", p.Str)
	case "other":
		return fmt.Sprintf("%T(%v)", p.Other, p.Other)
	}
	return fmt.Sprintf("%s %+v", p.Form, p.Fns)
}

func (p c14Pol) c14Value() any {
	mk := func(c c14Call) *config_parser.Function {
		f := &config_parser.Function{Name: c.Input, Not: c.Not}
		for _, q := range c.Params {
			f.Params = append(f.Params, &config_parser.Param{Key: q.Key, Val: q.Val})
		}
		return f
	}
	switch p.Form {
	case "string":
		return p.Str
	case "func":
		return mk(p.Fns[0])
	case "list":
		fs := []*config_parser.Function{}
		for _, c := range p.Fns {
			fs = append(fs, mk(c))
		}
		return fs
	}
	return p.Other
}

const (
	c14Accept = iota
	c14Reject
	c14Either
)

var c14PlainPolicies = []string{"random", "min", "min_avg10", "min_moving_avg"}

// c14PolExpect: what the statement and config/desc.go ("Available values: random,
// fixed, min, min_avg10, min_moving_avg"; example.dae: "fixed(0)") fix.
// Accept: one of the four plain names without arguments; fixed(<decimal>).
// Reject: no/several functions, unknown name, fixed with a non-numeric, keyed,
// surplus or negated argument, a value that is neither string nor function.
// Either (statement silent): plain name with arguments or negation, bare
// "fixed", signed index; if accepted the policy must still be the named one.
func c14PolExpect(p c14Pol) (verdict int, name string, idx int, why string) {
	var fns []c14Call
	switch p.Form {
	case "string":
		fns = []c14Call{{Input: p.Str}}
	case "func", "list":
		fns = p.Fns
	default:
		return c14Reject, "", 0, "neither string nor function"
	}
	if len(fns) != 1 {
		return c14Reject, "", 0, fmt.Sprintf("%d functions", len(fns))
	}
	f := fns[0]
	for _, n := range c14PlainPolicies {
		if f.Input == n {
			if !f.Not && len(f.Params) == 0 {
				return c14Accept, n, 0, "plain name"
			}
			return c14Either, n, 0, "plain name with arguments/negation"
		}
	}
	if f.Input != "fixed" {
		return c14Reject, "", 0, "unknown policy name"
	}
	if f.Not {
		return c14Reject, "", 0, "negated fixed"
	}
	if len(f.Params) == 0 {
		return c14Either, "fixed", 0, "fixed without index"
	}
	if len(f.Params) != 1 {
		return c14Reject, "", 0, "fixed with several arguments"
	}
	if f.Params[0].Key != "" {
		return c14Reject, "", 0, "fixed with keyed argument"
	}
	v := f.Params[0].Val
	n, err := strconv.Atoi(v)
	if err != nil {
		return c14Reject, "", 0, "non-numeric index"
	}
	if v[0] == '+' || v[0] == '-' {
		return c14Either, "fixed", n, "signed index"
	}
	return c14Accept, "fixed", n, "fixed(i)"
}

func c14GenPol(t *rapid.T, text bool) c14Pol {
	names := append([]string{"fixed"}, c14PlainPolicies...)
	badNames := []string{"Random", "min_avg", "min10", "fixed0", "min,random", "MIN", "min_moving_average", "latency", "fix", "rand"}
	if !text {
		badNames = append(badNames, "", " min", "min ")
	}
	idx := func() string {
		return rapid.SampledFrom([]string{"0", "1", "2", "3", "7", "12", "255", "007", "99999", "-1", "+1", "-0",
			"a", "1.0", "0x1", "1e1", "one", "99999999999999999999", "1_0", "१", "0 ", "first"}).Draw(t, "idx")
	}
	var fn c14Call
	switch rapid.IntRange(0, 9).Draw(t, "polkind") {
	case 0, 1: // plain
		fn = c14Call{Input: rapid.SampledFrom(c14PlainPolicies).Draw(t, "pname")}
	case 2, 3, 4: // fixed(i)
		fn = c14Call{Input: "fixed", Params: []c14P{{"", idx()}}}
	case 5: // fixed malformed
		switch rapid.IntRange(0, 3).Draw(t, "fixedbad") {
		case 0:
			fn = c14Call{Input: "fixed"}
		case 1:
			fn = c14Call{Input: "fixed", Params: []c14P{{"", "0"}, {"", idx()}}}
		case 2:
			fn = c14Call{Input: "fixed", Params: []c14P{{rapid.SampledFrom([]string{"index", "i", "n"}).Draw(t, "key"), "0"}}}
		default:
			fn = c14Call{Input: "fixed", Not: true, Params: []c14P{{"", rapid.SampledFrom([]string{"0", "1"}).Draw(t, "i")}}}
		}
	case 6: // unknown name
		fn = c14Call{Input: rapid.SampledFrom(badNames).Draw(t, "badname")}
		if rapid.Bool().Draw(t, "witharg") && (!text || c14IDRe.MatchString(fn.Input)) {
			fn.Params = []c14P{{"", "0"}}
		}
	case 7: // plain with arguments / negation
		fn = c14Call{Input: rapid.SampledFrom(c14PlainPolicies).Draw(t, "pname"), Not: rapid.Bool().Draw(t, "not")}
		if !fn.Not || text || rapid.Bool().Draw(t, "arg") {
			fn.Params = []c14P{{"", "3"}}
		}
	case 8: // number of functions
		n := rapid.SampledFrom([]int{0, 2, 2, 3}).Draw(t, "nfn")
		if text && n == 0 {
			n = 2
		}
		p := c14Pol{Form: "list"}
		for i := 0; i < n; i++ {
			c := c14Call{Input: rapid.SampledFrom(names).Draw(t, "lname")}
			if c.Input == "fixed" || text {
				c.Params = []c14P{{"", "0"}}
			}
			p.Fns = append(p.Fns, c)
		}
		return p
	default:
		if text {
			fn = c14Call{Input: rapid.SampledFrom(c14PlainPolicies).Draw(t, "pname")}
			break
		}
		return c14Pol{Form: "other", Other: rapid.SampledFrom([]any{123, nil, []string{"min"}, 1.5, true, config_parser.Function{Name: "min"}, []byte("min")}).Draw(t, "other")}
	}
	if len(fn.Params) == 0 && !fn.Not && (text || rapid.Bool().Draw(t, "asstring")) {
		return c14Pol{Form: "string", Str: fn.Input}
	}
	if text {
		return c14Pol{Form: "list", Fns: []c14Call{fn}} // what the decoder produces
	}
	return c14Pol{Form: rapid.SampledFrom([]string{"func", "list"}).Draw(t, "form"), Fns: []c14Call{fn}}
}

// c14CheckPolicy applies the oracle to one NewDialerSelectionPolicyFromGroupParam
// result and, for an accepted fixed(i), to the group built from it.
func c14CheckPolicy(t *rapid.T, p c14Pol, value any, groupSize int) []string {
	verdict, name, idx, why := c14PolExpect(p)
	got, err := NewDialerSelectionPolicyFromGroupParam(&config.Group{Name: "g", Policy: value})
	cls := []string{"pol_" + strings.ReplaceAll(why, " ", "_")}
	switch {
	case err != nil && got != nil:
		t.Fatalf("policy %v: both a policy and an error (%v)", p, err)
	case err == nil && got == nil:
		t.Fatalf("policy %v: neither policy nor error", p)
	case verdict == c14Accept && err != nil:
		t.Fatalf("policy %v (%s) must be accepted, got error: %v", p, why, err)
	case verdict == c14Reject && err == nil:
		t.Fatalf("policy %v (%s) must be a configuration error, got %+v", p, why, *got)
	}
	if err != nil {
		return append(cls, "pol_error")
	}
	if string(got.Policy) != name {
		t.Fatalf("policy %v: accepted as %q, want %q", p, got.Policy, name)
	}
	if name == "fixed" && len(p.c14Fns()) == 1 && len(p.c14Fns()[0].Params) == 1 && got.FixedIndex != idx {
		t.Fatalf("policy %v: FixedIndex %d, want %d", p, got.FixedIndex, idx)
	}
	cls = append(cls, "pol_ok_"+name)
	if got.Policy != consts.DialerSelectionPolicy_Fixed {
		return cls
	}
	// The accepted fixed policy on a concrete group: node i, or an error — never
	// another node ("instead of silently changing the selection").
	pool := make([]c14Node, groupSize)
	for i := range pool {
		pool[i] = c14Node{Name: "n" + strconv.Itoa(i)}
	}
	set := c14NewSet(pool)
	defer set.Close()
	annos := make([]*dialer.Annotation, groupSize)
	for i := range annos {
		annos[i] = &dialer.Annotation{}
	}
	g := NewDialerGroup(c14Option, "g", set.dialers, annos, *got, func(bool, *dialer.NetworkType, bool) {})
	defer g.Close()
	in := got.FixedIndex >= 0 && got.FixedIndex < groupSize
	var outsider *dialer.Dialer
	if groupSize > 0 {
		o := c14NewSet([]c14Node{{Name: "outsider"}})
		defer o.Close()
		outsider = o.dialers[0]
	}
	for _, nt := range []*dialer.NetworkType{
		{L4Proto: consts.L4ProtoStr_TCP, IpVersion: consts.IpVersionStr_4},
		{L4Proto: consts.L4ProtoStr_UDP, IpVersion: consts.IpVersionStr_6, UdpHealthDomain: dialer.UdpHealthDomainData},
		{L4Proto: consts.L4ProtoStr_UDP, IpVersion: consts.IpVersionStr_4, IsDns: true, UdpHealthDomain: dialer.UdpHealthDomainDns},
	} {
		for _, strict := range []bool{false, true} {
			excl := []*dialer.Dialer{nil, outsider}
			for _, m := range set.dialers {
				excl = append(excl, m)
			}
			for _, ex := range excl {
				d, _, _, serr := g.SelectWithExclusionResult(nt, strict, ex)
				switch {
				case in && (serr != nil || d != set.dialers[got.FixedIndex]):
					t.Fatalf("policy %v on a group of %d (strict=%v, excluded=%v): Select returned %v, %v; want node %d", p, groupSize, strict, ex != nil, d, serr, got.FixedIndex)
				case !in && (serr == nil || d != nil):
					name := "<nil>"
					if d != nil {
						name = d.Property().Name
					}
					t.Fatalf("policy %v on a group of %d members (index out of range, strict=%v, excluded=%v): Select returned node %s, err %v; want an error and no node", p, groupSize, strict, ex != nil, name, serr)
				}
			}
			if d, _, serr := g.Select(nt, strict); in != (serr == nil) || (d != nil) != in {
				t.Fatalf("policy %v on a group of %d (strict=%v): Select returned %v, %v", p, groupSize, strict, d, serr)
			}
		}
	}
	if in {
		cls = append(cls, "fixed_in_range")
	} else {
		cls = append(cls, "fixed_out_of_range_select_error", fmt.Sprintf("fixed_out_of_range_group_of_%d", groupSize))
	}
	return cls
}

func (p c14Pol) c14Fns() []c14Call {
	if p.Form == "string" {
		return []c14Call{{Input: p.Str}}
	}
	return p.Fns
}

func TestC14_Policy(t *testing.T) {
	rapid.Check(t, func(t *rapid.T) {
		p := c14GenPol(t, false)
		size := rapid.IntRange(0, 4).Draw(t, "groupsize")
		cls := c14CheckPolicy(t, p, p.c14Value(), size)
		vkCase("C14.policy", fmt.Sprintf("%v/%d", p, size), func() any { return map[string]any{"policy": p.String(), "group_size": size} }, cls...)
	})
}

// ------------------------------------------------------------------ text route

type c14TextGroup struct {
	Name   string
	Def    c14Def
	Pol    c14Pol
	Inject []string
}

func c14RenderPolicy(t *rapid.T, p c14Pol) string {
	if p.Form == "string" {
		v, _ := c14Quote(p.Str, rapid.Bool().Draw(t, "polbare"), false)
		return "policy: " + v
	}
	var fs []string
	for _, f := range p.Fns {
		s := f.Input + "(" + c14RenderParams(t, f.Params) + ")"
		if f.Not {
			s = "!" + s
		}
		fs = append(fs, s)
	}
	return "policy: " + strings.Join(fs, " && ")
}

func TestC14_Text(t *testing.T) {
	rapid.Check(t, func(t *rapid.T) {
		pool := c14GenPool(t, true)
		ng := rapid.SampledFrom([]int{1, 1, 2, 3}).Draw(t, "ngroups")
		var wide *c14Wide
		if rapid.IntRange(0, 2).Draw(t, "wide") == 0 {
			wide = c14GenWide(t, pool)
		}
		set := c14NewSet(pool) // all groups of the config select from one DialerSet
		defer set.Close()
		var groups []c14TextGroup
		var text strings.Builder
		sections := []string{"global", "group", "routing"}
		if rapid.Bool().Draw(t, "grouplast") {
			sections = []string{"routing", "global", "group"}
		}
		var body strings.Builder
		polMustFail := false
		for gi := 0; gi < ng; gi++ {
			g := c14TextGroup{Name: rapid.SampledFrom([]string{"g", "my_group", "proxy", "HK"}).Draw(t, "gname") + strconv.Itoa(gi)}
			g.Def, g.Inject = c14GenDef(t, pool, false, wide)
			g.Def.c14MakeRenderable(t)
			if !g.Def.c14TextRenderable() {
				t.Fatalf("generator produced a non-renderable definition:\n%s", g.Def)
			}
			g.Pol = c14GenPol(t, true)
			groups = append(groups, g)
			// items: filter lines in order; the policy line and unrelated keys at
			// rapid-chosen positions in between.
			var items []string
			for _, l := range g.Def.Lines {
				items = append(items, c14RenderLine(t, l))
			}
			ins := func(s string) {
				at := rapid.IntRange(0, len(items)).Draw(t, "at")
				items = append(items[:at], append([]string{s}, items[at:]...)...)
			}
			ins(c14RenderPolicy(t, g.Pol))
			if rapid.Bool().Draw(t, "extra") {
				ins(rapid.SampledFrom([]string{"tcp_check_url: 'http://cp.cloudflare.com'", "check_interval: 30s", "check_tolerance: 50ms", "# filter: name(commented) [add_latency: 1h]"}).Draw(t, "extrakey"))
			}
			fmt.Fprintf(&body, "  %s {\n", g.Name)
			for _, it := range items {
				fmt.Fprintf(&body, "    %s\n", it)
			}
			body.WriteString("  }\n")
			if v, _, _, _ := c14PolExpect(g.Pol); v == c14Reject {
				polMustFail = true
			}
		}
		for _, s := range sections {
			if s == "group" {
				fmt.Fprintf(&text, "group {\n%s}\n", body.String())
			} else {
				fmt.Fprintf(&text, "%s {}\n", s)
			}
		}
		fail := func(format string, a ...any) {
			t.Fatalf("%s\nconfig text:\n%s", fmt.Sprintf(format, a...), text.String())
		}

		secs, err := config_parser.Parse(text.String())
		var conf *config.Config
		if err == nil {
			conf, err = config.New(secs)
		}
		if err != nil {
			// Filter elements that are invalid for group construction are still
			// syntactically fine; only a policy with several functions may be refused
			// by the grammar itself.
			multi := false
			for _, g := range groups {
				if len(g.Pol.c14Fns()) != 1 {
					multi = true
				}
			}
			if !multi {
				fail("parse/decode failed: %v", err)
			}
			vkCase("C14.text", "", nil, "parse_error_multi_function_policy")
			return
		}
		_ = polMustFail
		if len(conf.Group) != len(groups) {
			fail("decoded %d groups, want %d", len(conf.Group), len(groups))
		}
		var allCls []string
		ntKey := ""
		for gi, g := range groups {
			cg := conf.Group[gi]
			if cg.Name != g.Name {
				fail("group %d is %q, want %q", gi, cg.Name, g.Name)
			}
			// structure: the decoded filter lines and annotations are the definition.
			if len(cg.Filter) != len(g.Def.Lines) || len(cg.FilterAnnotation) != len(g.Def.Lines) {
				fail("group %q: %d filter lines and %d annotations decoded, want %d each", g.Name, len(cg.Filter), len(cg.FilterAnnotation), len(g.Def.Lines))
			}
			wantF, wantA := g.Def.c14Filters()
			for li := range wantF {
				if len(cg.Filter[li]) != len(wantF[li]) {
					fail("group %q line %d: %d calls decoded, want %d", g.Name, li, len(cg.Filter[li]), len(wantF[li]))
				}
				for ci, wf := range wantF[li] {
					gf := cg.Filter[li][ci]
					if gf.Name != wf.Name || gf.Not != wf.Not || !c14SameParams(gf.Params, wf.Params) {
						fail("group %q line %d call %d decoded as %s, want %s", g.Name, li, ci, gf.String(false, true, false), wf.String(false, true, false))
					}
				}
				if (cg.FilterAnnotation[li] == nil) != (wantA[li] == nil) {
					fail("group %q line %d: annotation nil=%v, want nil=%v", g.Name, li, cg.FilterAnnotation[li] == nil, wantA[li] == nil)
				}
				if !c14SameParams(cg.FilterAnnotation[li], wantA[li]) {
					fail("group %q line %d: annotation decoded as %s, want %s", g.Name, li, c14ParamsString(cg.FilterAnnotation[li]), c14ParamsString(wantA[li]))
				}
			}
			// behaviour of the decoded definition on the pool
			cls, key := c14RunFilterOn(t, set, pool, g.Def, cg.Filter, cg.FilterAnnotation, g.Inject)
			if wide != nil {
				cls = append(cls, "shared_condition_head")
			}
			allCls = append(allCls, cls...)
			if key != "" {
				ntKey += key + "#"
			}
			// policy line
			allCls = append(allCls, c14CheckPolicy(t, g.Pol, cg.Policy, rapid.IntRange(0, 3).Draw(t, "groupsize"))...)
		}
		if ng > 1 {
			allCls = append(allCls, "several_groups")
		}
		sort.Strings(allCls)
		allCls = c14Uniq(allCls)
		vkCase("C14.text", ntKey, func() any { return map[string]any{"pool": fmt.Sprintf("%q", pool), "text": text.String()} }, allCls...)
	})
}

func c14Uniq(s []string) []string {
	out := s[:0]
	for i, v := range s {
		if i == 0 || v != s[i-1] {
			out = append(out, v)
		}
	}
	return out
}

func c14SameParams(a, b []*config_parser.Param) bool {
	if len(a) != len(b) {
		return false
	}
	for i := range a {
		if a[i].Key != b[i].Key || a[i].Val != b[i].Val || a[i].AndFunctions != nil || a[i].Annotation != nil {
			return false
		}
	}
	return true
}

func c14ParamsString(ps []*config_parser.Param) string {
	if ps == nil {
		return "<nil>"
	}
	var s []string
	for _, p := range ps {
		s = append(s, fmt.Sprintf("%q:%q", p.Key, p.Val))
	}
	return "[" + strings.Join(s, ", ") + "]"
}

// ------------------------------------------------------------------ sanity

func TestC14_Sanity(t *testing.T) {
	for _, p := range c14BadRegex {
		if _, err := regexp2.Compile(p, 0); err == nil {
			t.Errorf("harness: %q is listed as a bad regex but compiles", p)
		}
	}
	for _, p := range c14GoodRegex {
		if _, err := regexp2.Compile(p, 0); err != nil {
			t.Errorf("harness: %q is listed as a good regex but does not compile: %v", p, err)
		}
	}
	for _, d := range c14GoodDur {
		if _, err := time.ParseDuration(d); err != nil {
			t.Errorf("harness: duration %q: %v", d, err)
		}
	}
	for _, d := range c14BadDur {
		if _, err := time.ParseDuration(d); err == nil {
			t.Errorf("harness: duration %q is listed as malformed but parses", d)
		}
	}
	// The documented examples (example.dae, group section; config/desc.go GroupDesc)
	// with hand-written expectations.
	pool := []c14Node{
		{"HK_node", "my_sub"}, {"US_node", "my_sub"}, {"node1", "another_sub"}, {"node2", "my_sub2"},
		{"ExpireAt: 2026", "my_sub"}, {"ExpireAt: 2027", "another_sub"}, {"HK_node", "third"}, {"node1 ", "third"},
	}
	type want struct {
		idx  []int
		anno []time.Duration
	}
	cases := []struct {
		text string
		want want
	}{
		{"", want{[]int{0, 1, 2, 3, 4, 5, 6, 7}, make([]time.Duration, 8)}},
		{"filter: subtag(my_sub) && !name(keyword: 'ExpireAt:')", want{[]int{0, 1}, make([]time.Duration, 2)}},
		{"filter: subtag(regex: '^my_', another_sub) && !name(keyword: 'ExpireAt:')", want{[]int{0, 1, 2, 3}, make([]time.Duration, 4)}},
		{"filter: name(node1, node2)", want{[]int{2, 3}, make([]time.Duration, 2)}},
		{"filter: name(HK_node)\nfilter: name(US_node) [add_latency: -500ms]", want{[]int{0, 1, 6}, []time.Duration{0, -500 * time.Millisecond, 0}}},
		{"filter: name(regex: '^.*HK.*$', keyword: 'US') && subtag(my_sub) [add_latency: 1s]\nfilter: !name(regex: 'HK|US|Expire') [add_latency: 2s]\nfilter: name(keyword: node)[add_latency: 3s]",
			want{[]int{0, 1, 2, 3, 6, 7}, []time.Duration{time.Second, time.Second, 2 * time.Second, 2 * time.Second, 3 * time.Second, 2 * time.Second}}},
	}
	for _, c := range cases {
		txt := "global {}\nrouting {}\ngroup {\n g {\n" + c.text + "\npolicy: min\n}\n}\n"
		secs, err := config_parser.Parse(txt)
		if err != nil {
			t.Fatalf("parse %q: %v", c.text, err)
		}
		conf, err := config.New(secs)
		if err != nil {
			t.Fatalf("decode %q: %v", c.text, err)
		}
		set := c14NewSet(pool)
		got, annos, err := set.FilterAndAnnotate(conf.Group[0].Filter, conf.Group[0].FilterAnnotation)
		if err != nil {
			t.Fatalf("documented example %q: %v", c.text, err)
		}
		// turn the decoded structures back into the model to run the reference too
		var def c14Def
		for li, fl := range conf.Group[0].Filter {
			var l c14Line
			for _, f := range fl {
				cc := c14Call{Not: f.Not, Input: f.Name}
				for _, p := range f.Params {
					cc.Params = append(cc.Params, c14P{p.Key, p.Val})
				}
				l.Calls = append(l.Calls, cc)
			}
			if a := conf.Group[0].FilterAnnotation[li]; a != nil {
				l.HasAnno = true
				for _, p := range a {
					l.Anno = append(l.Anno, c14P{p.Key, p.Val})
				}
			}
			def.Lines = append(def.Lines, l)
		}
		ref := c14Ref(pool, def)
		if fmt.Sprint(ref.Members) != fmt.Sprint(c.want.idx) || fmt.Sprint(ref.Want) != fmt.Sprint(c.want.anno) || ref.MustErr != "" || ref.AnyInvalid {
			t.Errorf("harness: reference disagrees with the hand-written expectation for %q: %+v", c.text, ref)
		}
		if len(got) != len(c.want.idx) {
			t.Fatalf("documented example %q selected %s, want pool indexes %v", c.text, c14Names(got), c.want.idx)
		}
		for k, idx := range c.want.idx {
			if got[k] != set.dialers[idx] || annos[k] == nil || annos[k].AddLatency != c.want.anno[k] {
				t.Fatalf("documented example %q: member %d = %q %+v, want pool[%d] add_latency %v", c.text, k, got[k].Property().Name, annos[k], idx, c.want.anno[k])
			}
		}
		set.Close()
		vkCase("C14.sanity", c.text, func() any { return c.text })
	}
	// documented policies
	for _, p := range []string{"random", "min", "min_avg10", "min_moving_avg"} {
		got, err := NewDialerSelectionPolicyFromGroupParam(&config.Group{Policy: p})
		if err != nil || string(got.Policy) != p {
			t.Fatalf("documented policy %q: %v %v", p, got, err)
		}
	}
}

package outbound

// C15 (group level) — DialerGroup driven only through exported primitives that
// leave the recovery back-off level at 0:
//   sample+revive : MustGetLatencies10(t).AppendLatency + MarkAliveForReloadFallback(t)
//   restore       : HealthSnapshot -> edit one health domain (moving average, alive,
//                   appended sample) -> RestoreHealthSnapshot (republishes all six)
//   kill          : ReportUnavailableForced(t, nil)
//   traffic revive: ReportAvailableTraffic(data-UDP t)  (revival without a sample)
//   policy switch : SetSelectionPolicy (all five policies, fixed index in range)
//   select        : SelectWithExclusionResult / SelectWithExclusion / Select with
//                   any type variant, strict or not, any excluded node, anywhere
// Each rapid case runs inside a testing/synctest bubble (recovery confirmation
// timers armed by the traffic revival are virtual); clock advances are events.
//
// Oracle = validity predicate + transition relation, DESIGN.md §2 C15 (1)-(8); see
// the set-level harness in package dialer for the per-set part. Here additionally:
// fallback order data-UDP -> DNS-UDP -> TCP, then the other family when !strict;
// excluded never returned unless fixed / single-node last resort; ErrNoAliveDialer
// only if no tried type has an eligible alive node.

import (
	"context"
	"errors"
	"fmt"
	"hash/fnv"
	"io"
	"runtime"
	"strings"
	"testing"
	"testing/synctest"
	"time"

	"github.com/daeuniverse/dae/common/consts"
	"github.com/daeuniverse/dae/component/outbound/dialer"
	D "github.com/daeuniverse/outbound/dialer"
	"github.com/daeuniverse/outbound/netproxy"
	"github.com/sirupsen/logrus"
	"pgregory.net/rapid"
)

const c15GroupUnit = "C15.group"
const c15GroupFinding = "F-C15-1" // see the set-level harness

var c15GroupPolicies = []consts.DialerSelectionPolicy{
	consts.DialerSelectionPolicy_Random,
	consts.DialerSelectionPolicy_Fixed,
	consts.DialerSelectionPolicy_MinLastLatency,
	consts.DialerSelectionPolicy_MinAverage10Latencies,
	consts.DialerSelectionPolicy_MinMovingAverageLatencies,
}

var c15GroupTolerances = []time.Duration{0, time.Millisecond, 50 * time.Millisecond, time.Second}

// type slots follow dialer.StandardHealthKeys(): 0 dns-udp4, 1 dns-udp6, 2 tcp4,
// 3 tcp6, 4 data-udp4, 5 data-udp6.
const (
	c15DomDns  = 0
	c15DomTcp  = 1
	c15DomData = 2
)

var c15TypeNames = [6]string{"dnsudp4", "dnsudp6", "tcp4", "tcp6", "udp4", "udp6"}

type c15gNoopDialer struct{}

func (c15gNoopDialer) DialContext(context.Context, string, string) (netproxy.Conn, error) {
	return nil, errors.New("c15: not implemented")
}

func c15gIsMin(p consts.DialerSelectionPolicy) bool {
	return p == consts.DialerSelectionPolicy_MinLastLatency ||
		p == consts.DialerSelectionPolicy_MinAverage10Latencies ||
		p == consts.DialerSelectionPolicy_MinMovingAverageLatencies
}

func c15gPolicyLatency(p consts.DialerSelectionPolicy, lats []time.Duration, ma time.Duration) (time.Duration, bool) {
	switch p {
	case consts.DialerSelectionPolicy_MinLastLatency:
		if len(lats) == 0 {
			return 0, false
		}
		return lats[len(lats)-1], true
	case consts.DialerSelectionPolicy_MinAverage10Latencies:
		if len(lats) == 0 {
			return 0, false
		}
		var sum time.Duration
		for _, l := range lats {
			sum += l
		}
		return sum / time.Duration(len(lats)), true
	case consts.DialerSelectionPolicy_MinMovingAverageLatencies:
		return ma, ma > 0
	}
	return 0, false
}

func c15gBeats(e, c, tol time.Duration) bool {
	if tol == 0 {
		return e < c
	}
	return c-e >= tol
}

type c15gCol struct {
	alive bool
	lats  []time.Duration
	ma    time.Duration
}

type c15gNode struct {
	d      *dialer.Dialer
	name   string
	offset time.Duration
	col    [6]c15gCol
}

type c15gTypeState struct {
	prev           *c15gNode
	prevMeasured   bool
	announced      bool
	announcedKnown bool
	cbs            []bool
}

type c15gMachine struct {
	t      *rapid.T
	g      *DialerGroup
	tol    time.Duration
	policy DialerSelectionPolicy
	nodes  []*c15gNode
	byD    map[*dialer.Dialer]*c15gNode
	types  [6]*dialer.NetworkType
	ts     [6]c15gTypeState

	policyChanged bool
	hist          []string
	classes       map[string]int
	ntHit         bool
}

func (m *c15gMachine) logf(format string, a ...any) {
	m.hist = append(m.hist, fmt.Sprintf(format, a...))
}
func (m *c15gMachine) class(c string) { m.classes[c]++ }

func (m *c15gMachine) dump() string {
	var b strings.Builder
	for _, n := range m.nodes {
		fmt.Fprintf(&b, "  %s off=%v:", n.name, n.offset)
		for t := range n.col {
			c := &n.col[t]
			lat, has := c15gPolicyLatency(m.policy.Policy, c.lats, c.ma)
			fmt.Fprintf(&b, " %s[alive=%v lat=%v/%v]", c15TypeNames[t], c.alive, lat, has)
		}
		b.WriteString("\n")
	}
	return b.String()
}

func (m *c15gMachine) fatalf(format string, a ...any) {
	m.t.Helper()
	m.t.Fatalf("C15 violation: %s\npolicy=%s(%d) tol=%v\nnodes:\n%s\nhistory:\n  %s",
		fmt.Sprintf(format, a...), m.policy.Policy, m.policy.FixedIndex, m.tol, m.dump(), strings.Join(m.hist, "\n  "))
}

func (m *c15gMachine) pub(n *c15gNode, t int) (time.Duration, bool) {
	lat, has := c15gPolicyLatency(m.policy.Policy, n.col[t].lats, n.col[t].ma)
	return lat + n.offset, has
}

func (m *c15gMachine) aliveOf(t int, ex *c15gNode) []*c15gNode {
	var r []*c15gNode
	for _, n := range m.nodes {
		if n.col[t].alive && n != ex {
			r = append(r, n)
		}
	}
	return r
}

// tried lists the type slots in the documented fallback order.
func c15gTried(t int, strict bool) []int {
	fam, dom := t%2, t/2
	list := func(f int) []int {
		if dom == c15DomData {
			return []int{4 + f, 0 + f, 2 + f}
		}
		return []int{dom*2 + f}
	}
	r := list(fam)
	if !strict {
		r = append(r, list(1-fam)...)
	}
	return r
}

func c15gSlotOfIndex(idx int) int {
	switch idx {
	case dialer.IdxDnsUdp4:
		return 0
	case dialer.IdxDnsUdp6:
		return 1
	case dialer.IdxTcp4, dialer.IdxDnsTcp4:
		return 2
	case dialer.IdxTcp6, dialer.IdxDnsTcp6:
		return 3
	case dialer.IdxUdp4:
		return 4
	case dialer.IdxUdp6:
		return 5
	}
	return -1
}

// request variants that must behave like the standard type of the same slot.
func (m *c15gMachine) genRequestType(t *rapid.T, slot int) *dialer.NetworkType {
	nt := *m.types[slot]
	switch slot / 2 {
	case c15DomTcp:
		nt.IsDns = rapid.Bool().Draw(t, "tcpIsDns") // DNS over TCP shares the TCP health
	case c15DomData:
		if rapid.Bool().Draw(t, "udpDomainUnset") {
			nt.UdpHealthDomain = dialer.UdpHealthDomainUnset // unset means data UDP
		}
	}
	return &nt
}

// checkPickMin: min-policy validity for a pick from type slot t.
func (m *c15gMachine) checkPickMin(what string, t int, g *c15gNode, gotLat time.Duration, ex *c15gNode) {
	gp, gm := m.pub(g, t)
	if !gm {
		m.class("pick_unmeasured")
		return
	}
	if gotLat != gp {
		m.fatalf("%s returned latency %v for %s/%s, its sorting latency (policy latency + offset) is %v", what, gotLat, g.name, c15TypeNames[t], gp)
	}
	for _, e := range m.aliveOf(t, ex) {
		if e == g {
			continue
		}
		ep, em := m.pub(e, t)
		if !em {
			continue
		}
		if c15gBeats(ep, gp, m.tol) {
			m.fatalf("%s returned %s (%v) for %s although alive measured %s (%v) beats it by the tolerance or more", what, g.name, gp, c15TypeNames[t], e.name, ep)
		}
		d := gp - ep
		if d < 0 {
			d = -d
		}
		if d <= 2*m.tol {
			m.ntHit = true
			if ep < gp {
				m.class("hysteresis_holds")
			}
		}
	}
}

func (m *c15gMachine) allAliveUnmeasured(t int) bool {
	for _, n := range m.aliveOf(t, nil) {
		if _, has := m.pub(n, t); has {
			return false
		}
	}
	return true
}

// invariant runs after every event.
func (m *c15gMachine) invariant() {
	needSets := m.policy.Policy != consts.DialerSelectionPolicy_Fixed
	for t := 0; t < 6; t++ {
		st := &m.ts[t]
		cbs := st.cbs
		st.cbs = nil
		set := m.g.MustGetAliveDialerSet(m.types[t])
		if !needSets {
			if set != nil {
				m.fatalf("fixed policy still exposes an alive set for %s", c15TypeNames[t])
			}
			st.prev, st.announcedKnown = nil, false
			continue
		}
		if set == nil {
			m.fatalf("policy %s has no alive set for %s", m.policy.Policy, c15TypeNames[t])
		}
		alive := m.aliveOf(t, nil)
		if got := set.Len(); got != len(alive) {
			m.fatalf("%s: Len()=%d, model alive count=%d", c15TypeNames[t], got, len(alive))
		}
		if !c15gIsMin(m.policy.Policy) {
			st.prev, st.announcedKnown = nil, false
			continue
		}
		got, lat := set.GetMinLatency(nil)
		var cur *c15gNode
		if len(alive) == 0 {
			if got != nil {
				m.fatalf("%s: cached best %s although no node is alive", c15TypeNames[t], m.byD[got].name)
			}
		} else {
			if got == nil {
				m.fatalf("%s: no cached best although %d node(s) are alive", c15TypeNames[t], len(alive))
			}
			cur = m.byD[got]
			if cur == nil || !cur.col[t].alive {
				m.fatalf("%s: cached best is not recorded alive", c15TypeNames[t])
			}
			m.checkPickMin("GetMinLatency(nil)", t, cur, lat, nil)
		}
		// (6) transition relation
		if p := st.prev; p != nil && cur != nil && cur != p && !m.policyChanged {
			pp, pm := m.pub(p, t)
			cp, cm := m.pub(cur, t)
			switch {
			case !p.col[t].alive:
				m.class("switch_old_died")
			case !st.prevMeasured || !pm:
				m.class("switch_old_unmeasured")
			case !cm:
				m.class("switch_to_unmeasured")
			case m.tol > 0 && cp <= pp-m.tol:
				m.class("switch_by_tolerance")
			case m.tol == 0 && cp <= pp:
				m.class("switch_tol0")
			case pp < m.tol && cp <= pp:
				m.class("switch_below_tolerance")
			default:
				m.fatalf("%s: cached best changed %s (%v) -> %s (%v) without a licensed reason (tolerance %v)", c15TypeNames[t], p.name, pp, cur.name, cp, m.tol)
			}
		}
		// (8) callbacks
		for _, v := range cbs {
			if st.announcedKnown && v == st.announced {
				m.fatalf("%s: alive-change callback delivered %v twice in a row", c15TypeNames[t], v)
			}
			st.announced, st.announcedKnown = v, true
			m.class(fmt.Sprintf("callback_%v", v))
		}
		if st.announcedKnown && st.announced != (len(alive) > 0) {
			if !st.announced && len(alive) > 0 && len(cbs) == 0 && m.allAliveUnmeasured(t) && vkKnown(c15GroupFinding) {
				vkExcluded(c15GroupUnit, c15GroupFinding)
				m.class("known_F-C15-1_shape")
				st.announcedKnown = false
			} else {
				m.fatalf("%s: last alive-change callback said %v but alive set non-empty=%v", c15TypeNames[t], st.announced, len(alive) > 0)
			}
		}
		st.prev = cur
		_, st.prevMeasured = func() (time.Duration, bool) {
			if cur == nil {
				return 0, false
			}
			return m.pub(cur, t)
		}()
	}
	m.policyChanged = false
}

// checkSelect validates one SelectWithExclusionResult outcome.
func (m *c15gMachine) checkSelect(slot int, strict bool, ex *c15gNode, foreignEx bool,
	d *dialer.Dialer, lat time.Duration, sel *dialer.NetworkType, haveSel bool, err error) {
	what := fmt.Sprintf("Select(%s strict=%v excluded=%v)", c15TypeNames[slot], strict, func() string {
		if foreignEx {
			return "<foreign>"
		}
		if ex == nil {
			return "<nil>"
		}
		return ex.name
	}())
	if m.policy.Policy == consts.DialerSelectionPolicy_Fixed {
		if err != nil || d != m.nodes[m.policy.FixedIndex].d {
			m.fatalf("%s under fixed(%d) returned (%v, %v)", what, m.policy.FixedIndex, m.nameOf(d), err)
		}
		m.class("select_fixed")
		return
	}
	tried := c15gTried(slot, strict)
	first := -1
	for _, tt := range tried {
		if len(m.aliveOf(tt, ex)) > 0 {
			first = tt
			break
		}
	}
	if first < 0 {
		if err == nil {
			if len(m.nodes) == 1 && d == m.nodes[0].d {
				m.class("select_single_last_resort")
				return
			}
			m.fatalf("%s returned %s although no tried type has an eligible alive node", what, m.nameOf(d))
		}
		if !errors.Is(err, ErrNoAliveDialer) {
			m.fatalf("%s: unexpected error %v", what, err)
		}
		if d != nil {
			m.fatalf("%s returned both a node and %v", what, err)
		}
		m.class("select_no_alive")
		return
	}
	if err != nil {
		m.fatalf("%s returned %v although %s has an eligible alive node", what, err, c15TypeNames[first])
	}
	g := m.byD[d]
	if g == nil {
		m.fatalf("%s returned nil/foreign dialer without error", what)
	}
	if g == ex {
		m.fatalf("%s returned the excluded node", what)
	}
	if !g.col[first].alive {
		// Not alive for the first type that has a candidate: either it came from a
		// later type (fallback order broken) or it is not alive at all.
		m.fatalf("%s returned %s which is not recorded alive for %s, the first tried type with an eligible node (order %v)", what, g.name, c15TypeNames[first], tried)
	}
	if haveSel {
		if sel == nil {
			m.fatalf("%s returned no admission network type", what)
		}
		if s := c15gSlotOfIndex(sel.Index()); s < 0 || !g.col[s].alive {
			m.fatalf("%s admitted %s through %s for which it is not recorded alive", what, g.name, sel.String())
		}
	}
	if first != tried[0] {
		m.ntHit = true
		if first%2 != slot%2 {
			m.class("select_fallback_family")
		} else {
			m.class("select_fallback_type")
		}
	} else {
		m.class("select_primary")
	}
	if c15gIsMin(m.policy.Policy) {
		m.checkPickMin(what, first, g, lat, ex)
		// sticky choice: excluding a node other than the current choice of the set
		// that serves the request must not change the answer.
		if ex != nil || foreignEx {
			best, bestLat := m.g.MustGetAliveDialerSet(m.types[first]).GetMinLatency(nil)
			if best != nil && (foreignEx || ex.d != best) {
				if d != best {
					m.fatalf("%s returned %s although the excluded node is not the current choice %s of %s: the choice may only change for the licensed reasons, not because some other node is excluded", what, g.name, m.nameOf(best), c15TypeNames[first])
				}
				b := m.byD[best]
				bp, bm := m.pub(b, first)
				if bm && lat != bestLat {
					m.fatalf("%s returned latency %v, the unexcluded selection of the same node returns %v", what, lat, bestLat)
				}
				m.class("sticky_under_other_exclusion")
				for _, e := range m.aliveOf(first, ex) {
					if e == b {
						continue
					}
					if ep, em := m.pub(e, first); !em || (bm && ep < bp) {
						m.class("sticky_with_rival")
						m.ntHit = true
						break
					}
				}
			}
		}
	}
}

func (m *c15gMachine) nameOf(d *dialer.Dialer) string {
	if d == nil {
		return "<nil>"
	}
	if n := m.byD[d]; n != nil {
		return n.name
	}
	return "<foreign>"
}

func c15gGenLatency(t *rapid.T, tol time.Duration, label string) time.Duration {
	unit := tol
	if unit == 0 {
		unit = time.Millisecond
	}
	switch rapid.IntRange(0, 9).Draw(t, label+"_kind") {
	case 0:
		return time.Duration(rapid.Int64Range(int64(time.Microsecond), int64(3*time.Second)).Draw(t, label+"_free"))
	case 1:
		return time.Duration(rapid.IntRange(1, 6).Draw(t, label+"_small")) * time.Microsecond
	default:
		k := rapid.IntRange(1, 8).Draw(t, label+"_k")
		l := time.Duration(k)*unit/2 + time.Duration(rapid.IntRange(-1, 1).Draw(t, label+"_jit"))
		if l <= 0 {
			l = 1
		}
		return l
	}
}

func (m *c15gMachine) modelAppend(n *c15gNode, t int, l time.Duration) {
	c := &n.col[t]
	c.lats = append(c.lats, l)
	if len(c.lats) > 10 {
		c.lats = c.lats[len(c.lats)-10:]
	}
}

// restore: edit one health domain of a snapshot and restore it (republishes all).
func (m *c15gMachine) restore(n *c15gNode, t int, ma time.Duration, alive bool) {
	snap := n.d.HealthSnapshot()
	idx := m.types[t].Index()
	edit := func(i int) {
		snap.Collections[i].MovingAverage = ma
		snap.Collections[i].Alive = alive
	}
	edit(idx)
	switch idx { // TCP and DNS-over-TCP share one record; keep both views equal
	case dialer.IdxTcp4:
		edit(dialer.IdxDnsTcp4)
	case dialer.IdxTcp6:
		edit(dialer.IdxDnsTcp6)
	}
	snap.Recovery = [3]dialer.DialerRecoveryHealthSnapshot{} // back-off level 0
	n.d.RestoreHealthSnapshot(snap)
	n.col[t].ma = ma
	n.col[t].alive = alive
}

func c15RunGroupHistory(t *rapid.T) {
	dialer.ResetGlobalProxyStateForReload()
	nNodes := rapid.IntRange(1, 6).Draw(t, "nodes")
	tol := rapid.SampledFrom(c15GroupTolerances).Draw(t, "tolerance")
	log := logrus.New()
	log.SetOutput(io.Discard)
	if rapid.IntRange(0, 7).Draw(t, "loginfo") == 0 {
		log.SetLevel(logrus.DebugLevel)
	} else {
		log.SetLevel(logrus.ErrorLevel)
	}
	opt := &dialer.GlobalOption{Log: log, CheckInterval: 30 * time.Second, CheckTolerance: tol}
	m := &c15gMachine{t: t, tol: tol, byD: map[*dialer.Dialer]*c15gNode{}, classes: map[string]int{}}
	for i, k := range dialer.StandardHealthKeys() {
		m.types[i] = k.NetworkType()
	}
	genPolicy := func(label string) DialerSelectionPolicy {
		p := DialerSelectionPolicy{Policy: rapid.SampledFrom(c15GroupPolicies).Draw(t, label)}
		if p.Policy == consts.DialerSelectionPolicy_Fixed {
			p.FixedIndex = rapid.IntRange(0, nNodes-1).Draw(t, label+"_idx")
		}
		return p
	}
	m.policy = genPolicy("policy")

	var dialers []*dialer.Dialer
	var annos []*dialer.Annotation
	offsets := []time.Duration{0, 0, 0, -500 * time.Millisecond, -tol, -tol / 2, -1, 1, tol / 2, tol, 200 * time.Millisecond}
	for i := 0; i < nNodes; i++ {
		name := fmt.Sprintf("n%d", i)
		d := dialer.NewDialer(c15gNoopDialer{}, opt, dialer.InstanceOption{DisableCheck: true}, &dialer.Property{Property: D.Property{Name: name}})
		n := &c15gNode{d: d, name: name, offset: rapid.SampledFrom(offsets).Draw(t, name+"_offset")}
		for tt := range n.col {
			n.col[tt].alive = true
		}
		m.nodes = append(m.nodes, n)
		m.byD[d] = n
		dialers = append(dialers, d)
		annos = append(annos, &dialer.Annotation{AddLatency: n.offset})
	}
	foreign := dialer.NewDialer(c15gNoopDialer{}, opt, dialer.InstanceOption{DisableCheck: true}, &dialer.Property{Property: D.Property{Name: "foreign"}})
	// pre-history before the group exists (nothing is registered yet).
	for _, n := range m.nodes {
		for k := rapid.IntRange(0, 3).Draw(t, n.name+"_pre"); k > 0; k-- {
			tt := rapid.IntRange(0, 5).Draw(t, "pre_type")
			switch rapid.IntRange(0, 2).Draw(t, "pre_kind") {
			case 0:
				l := c15gGenLatency(t, tol, "pre_lat")
				n.d.MustGetLatencies10(m.types[tt]).AppendLatency(l)
				m.modelAppend(n, tt, l)
				m.restore(n, tt, (n.col[tt].ma+l)/2, n.col[tt].alive)
			case 1:
				n.d.ReportUnavailableForced(m.types[tt], nil)
				n.col[tt].alive = false
			case 2:
				// kill a whole family/domain row to make fallbacks likely
				for _, x := range c15gTried(4+tt%2, true) {
					n.d.ReportUnavailableForced(m.types[x], nil)
					n.col[x].alive = false
				}
			}
		}
	}
	m.logf("new group policy=%s(%d) tol=%v nodes=%d", m.policy.Policy, m.policy.FixedIndex, tol, nNodes)
	initSeen := [6]int{}
	m.g = NewDialerGroup(opt, "c15", dialers, annos, m.policy, func(alive bool, nt *dialer.NetworkType, isInit bool) {
		s := c15gSlotOfIndex(nt.Index())
		if s < 0 {
			panic("c15: callback for unknown network type " + nt.String())
		}
		if isInit {
			initSeen[s]++
			if !alive {
				panic("c15: init callback with alive=false")
			}
			return
		}
		m.ts[s].cbs = append(m.ts[s].cbs, alive)
	})
	defer func() {
		_ = m.g.Close()
		for _, d := range dialers {
			_ = d.Close()
		}
		_ = foreign.Close()
	}()
	for s, c := range initSeen {
		if c != 1 {
			m.fatalf("NewDialerGroup delivered %d init callbacks for %s", c, c15TypeNames[s])
		}
	}
	// callback state after construction: a delivered value wins, otherwise the init
	// callback (alive) stands when the set is non-empty.
	setInitialAnnounce := func() {
		for s := range m.ts {
			st := &m.ts[s]
			if len(st.cbs) > 0 {
				st.announced, st.announcedKnown = st.cbs[len(st.cbs)-1], true
			} else {
				st.announced, st.announcedKnown = true, len(m.aliveOf(s, nil)) > 0
			}
			st.cbs = nil
			st.prev = nil
		}
	}
	setInitialAnnounce()
	m.invariant()

	pickNode := func(label string) *c15gNode {
		return m.nodes[rapid.IntRange(0, len(m.nodes)-1).Draw(t, label)]
	}
	// most events aim at one "hot" type (and the types its fallbacks try), so that
	// several measured alive nodes meet in one set.
	hot := rapid.IntRange(0, 5).Draw(t, "hotType")
	pickSlot := func(label string) int {
		switch k := rapid.IntRange(0, 9).Draw(t, label+"_aim"); {
		case k < 5:
			return hot
		case k < 7:
			tr := c15gTried(4+hot%2, false)
			return tr[rapid.IntRange(0, len(tr)-1).Draw(t, label+"_chain")]
		}
		return rapid.IntRange(0, 5).Draw(t, label)
	}

	doSelect := func(t *rapid.T, slot int) {
		strict := rapid.Bool().Draw(t, "strict")
		var ex *c15gNode
		var exD *dialer.Dialer
		foreignEx := false
		switch rapid.IntRange(0, 5).Draw(t, "exclKind") {
		case 0, 1:
		case 2:
			ex = pickNode("excl")
		case 3, 4:
			// aim at the node an unexcluded selection returns (under random the pick
			// is not reproducible, so a drawn alive node stands in for it)
			if m.policy.Policy == consts.DialerSelectionPolicy_Random {
				if al := m.aliveOf(slot, nil); len(al) > 0 {
					ex = al[rapid.IntRange(0, len(al)-1).Draw(t, "exclAlive")]
				}
			} else if d, _, _, err := m.g.SelectWithExclusionResult(m.types[slot], strict, nil); err == nil && d != nil {
				ex = m.byD[d]
				m.class("excluded_is_pick")
			}
		case 5:
			exD, foreignEx = foreign, true
		}
		if ex != nil {
			exD = ex.d
		}
		nt := m.genRequestType(t, slot)
		ntCopy := *nt
		var (
			d   *dialer.Dialer
			lat time.Duration
			sel *dialer.NetworkType
			err error
		)
		api := rapid.IntRange(0, 3).Draw(t, "api")
		switch {
		case api == 0 && exD == nil:
			d, lat, err = m.g.Select(nt, strict)
		case api == 1:
			d, lat, err = m.g.SelectWithExclusion(nt, strict, exD)
		default:
			api = 2
			d, lat, sel, err = m.g.SelectWithExclusionResult(nt, strict, exD)
		}
		if *nt != ntCopy {
			m.fatalf("selection modified the caller's network type: %v -> %v", ntCopy, *nt)
		}
		picked := m.nameOf(d)
		if m.policy.Policy == consts.DialerSelectionPolicy_Random && d != nil {
			picked = "<random pick>" // keep failure messages reproducible for the shrinker
		}
		m.logf("select %s strict=%v excl=%s -> %s err=%v", c15TypeNames[slot], strict, m.nameOf(exD), picked, err)
		m.checkSelect(slot, strict, ex, foreignEx, d, lat, sel, api == 2, err)
	}

	sampleRevive := func(t *rapid.T) {
		n, s := pickNode("node"), pickSlot("type")
		l := c15gGenLatency(t, m.tol, "lat")
		m.logf("sample+revive %s/%s %v", n.name, c15TypeNames[s], l)
		n.d.MustGetLatencies10(m.types[s]).AppendLatency(l)
		n.d.MarkAliveForReloadFallback(m.types[s])
		m.modelAppend(n, s, l)
		n.col[s].alive = true
		m.class("ev_sample_revive")
	}
	restoreSample := func(t *rapid.T) {
		n, s := pickNode("node"), pickSlot("type")
		l := c15gGenLatency(t, m.tol, "lat")
		alive := n.col[s].alive
		if rapid.IntRange(0, 3).Draw(t, "flipAlive") == 0 {
			alive = !alive
		}
		ma := (n.col[s].ma + l) / 2
		if rapid.Bool().Draw(t, "direct") {
			ma = l
		}
		m.logf("restore %s/%s sample=%v ma=%v alive=%v", n.name, c15TypeNames[s], l, ma, alive)
		n.d.MustGetLatencies10(m.types[s]).AppendLatency(l)
		m.modelAppend(n, s, l)
		m.restore(n, s, ma, alive)
		m.class("ev_restore")
	}

	t.Repeat(map[string]func(*rapid.T){
		"sample_revive":    func(t *rapid.T) { sampleRevive(t) },
		"restore_sample":   func(t *rapid.T) { restoreSample(t) },
		"sample_revive_b":  func(t *rapid.T) { sampleRevive(t) },
		"restore_sample_b": func(t *rapid.T) { restoreSample(t) },
		"restore_alive_only": func(t *rapid.T) {
			n, s := pickNode("node"), pickSlot("type")
			alive := !n.col[s].alive
			m.logf("restore %s/%s alive=%v (no sample)", n.name, c15TypeNames[s], alive)
			m.restore(n, s, n.col[s].ma, alive)
			m.class("ev_restore_flip")
		},
		"kill": func(t *rapid.T) {
			n, s := pickNode("node"), pickSlot("type")
			m.logf("kill %s/%s", n.name, c15TypeNames[s])
			n.d.ReportUnavailableForced(m.types[s], nil)
			n.col[s].alive = false
			m.class("ev_kill")
		},
		"kill_type_everywhere": func(t *rapid.T) {
			s := pickSlot("type")
			m.logf("kill every node for %s", c15TypeNames[s])
			for _, n := range m.nodes {
				n.d.ReportUnavailableForced(m.types[s], nil)
				n.col[s].alive = false
			}
			m.class("ev_kill_all")
		},
		"kill_pick": func(t *rapid.T) {
			s := pickSlot("type")
			if !c15gIsMin(m.policy.Policy) {
				t.Skip("no reproducible pick")
			}
			d, _, _, err := m.g.SelectWithExclusionResult(m.types[s], true, nil)
			if err != nil || d == nil {
				t.Skip("nothing picked")
			}
			n := m.byD[d]
			if !n.col[s].alive {
				t.Skip("picked through a fallback")
			}
			m.logf("kill pick %s/%s", n.name, c15TypeNames[s])
			n.d.ReportUnavailableForced(m.types[s], nil)
			n.col[s].alive = false
			m.class("ev_kill_pick")
		},
		"traffic_revive": func(t *rapid.T) {
			n := pickNode("node")
			s := 4 + rapid.IntRange(0, 1).Draw(t, "fam")
			m.logf("traffic success %s/%s (was alive=%v)", n.name, c15TypeNames[s], n.col[s].alive)
			n.d.ReportAvailableTraffic(m.genRequestType(t, s))
			n.col[s].alive = true
			m.class("ev_traffic_revive")
		},
		"policy": func(t *rapid.T) {
			p := genPolicy("newPolicy")
			old := m.policy
			m.logf("policy %s(%d) -> %s(%d)", old.Policy, old.FixedIndex, p.Policy, p.FixedIndex)
			m.g.SetSelectionPolicy(p)
			m.policy = p
			if old.Policy == p.Policy {
				return
			}
			m.policyChanged = true
			m.class("ev_policy_switch")
			if c15gIsMin(old.Policy) && c15gIsMin(p.Policy) {
				// same sets, recomputed; non-emptiness and announcements stand
				return
			}
			// random never calls back, fixed has no sets (fresh ones are built when it
			// is left): (8) restarts at the next delivered callback.
			for s := range m.ts {
				m.ts[s].announcedKnown = false
				m.ts[s].prev = nil
			}
		},
		"clock": func(t *rapid.T) {
			d := rapid.SampledFrom([]time.Duration{time.Second, 11 * time.Second, 21 * time.Second, 2 * time.Minute}).Draw(t, "sleep")
			m.logf("clock +%v", d)
			time.Sleep(d)
			synctest.Wait()
			m.class("ev_clock")
		},
		"select":      func(t *rapid.T) { doSelect(t, pickSlot("type")) },
		"select_data": func(t *rapid.T) { doSelect(t, 4+rapid.IntRange(0, 1).Draw(t, "fam")) },
		"random_coverage": func(t *rapid.T) {
			if m.policy.Policy != consts.DialerSelectionPolicy_Random {
				t.Skip("not random")
			}
			s := pickSlot("type")
			var ex *c15gNode
			var exD *dialer.Dialer
			if rapid.Bool().Draw(t, "withExcluded") {
				ex = pickNode("excl")
				exD = ex.d
			}
			want := map[*c15gNode]bool{}
			for _, n := range m.aliveOf(s, ex) {
				want[n] = false
			}
			if len(want) < 2 {
				t.Skip("nothing to cover")
			}
			for i := 0; i < 60*len(want); i++ {
				d, lat, sel, err := m.g.SelectWithExclusionResult(m.types[s], true, exD)
				m.checkSelect(s, true, ex, false, d, lat, sel, true, err)
				want[m.byD[d]] = true
			}
			for n, hit := range want {
				if !hit {
					m.fatalf("random never returned eligible alive node %s for %s in %d draws", n.name, c15TypeNames[s], 60*len(want))
				}
			}
			m.class("ev_random_coverage")
		},
		"": func(t *rapid.T) {
			for _, n := range m.nodes {
				for i, r := range n.d.HealthSnapshot().Recovery {
					if r.BackoffLevel != 0 {
						m.fatalf("harness assumption broken: back-off level of %s domain %d is %d", n.name, i, r.BackoffLevel)
					}
				}
			}
			m.invariant()
		},
	})

	key := ""
	if m.ntHit {
		key = strings.Join(m.hist, ";")
	}
	cl := []string{"policy_final_" + string(m.policy.Policy), fmt.Sprintf("nodes_%d", nNodes), fmt.Sprintf("tol_%v", tol)}
	for c, k := range m.classes {
		if k > 0 {
			cl = append(cl, c)
		}
	}
	vkCase(c15GroupUnit, key, func() any {
		return map[string]any{"nodes": nNodes, "tolerance": tol.String(), "history": m.hist}
	}, cl...)
}

// The property body runs inside a synctest bubble; a failure is recovered there and
// re-raised on rapid's goroutine. rapid's shrinker tells failures apart by their
// traceback, so the re-raise goes through one of several distinct functions chosen
// from the kind of panic and the original failure site.
func c15FailureBucket(v any) int {
	switch fmt.Sprintf("%T", v) {
	case "rapid.invalidData":
		return 6
	case "rapid.stopTest":
		pcs := make([]uintptr, 48)
		pcs = pcs[:runtime.Callers(3, pcs)]
		frames := runtime.CallersFrames(pcs)
		h := fnv.New32a()
		for {
			f, more := frames.Next()
			if strings.Contains(f.Function, "c15") {
				fmt.Fprintf(h, "%s:%d;", f.Function, f.Line)
			}
			if !more {
				break
			}
		}
		return int(h.Sum32() % 6)
	}
	return 7
}

//go:noinline
func c15Rethrow0(v any) { panic(v) }

//go:noinline
func c15Rethrow1(v any) { panic(v) }

//go:noinline
func c15Rethrow2(v any) { panic(v) }

//go:noinline
func c15Rethrow3(v any) { panic(v) }

//go:noinline
func c15Rethrow4(v any) { panic(v) }

//go:noinline
func c15Rethrow5(v any) { panic(v) }

//go:noinline
func c15RethrowInvalid(v any) { panic(v) }

//go:noinline
func c15RethrowPanic(v any) { panic(v) }

func TestC15_Group(t *testing.T) {
	rethrow := []func(any){c15Rethrow0, c15Rethrow1, c15Rethrow2, c15Rethrow3, c15Rethrow4, c15Rethrow5, c15RethrowInvalid, c15RethrowPanic}
	rapid.Check(t, func(rt *rapid.T) {
		var failure any
		bucket := 0
		synctest.Test(t, func(*testing.T) {
			defer func() {
				if failure = recover(); failure != nil {
					bucket = c15FailureBucket(failure)
				}
			}()
			c15RunGroupHistory(rt)
		})
		if failure != nil {
			rethrow[bucket](failure)
		}
	})
}

package outbound

// C14 — group membership and annotations: model, generators, reference oracle and
// text rendering shared by the C14 units (see c14_filter_test.go).
//
// The reference follows the property statement literally:
//   member  ⇔ ∃ filter line: ∀ call of the line: (∃ value of the call matches) xor negated
//   result  = pool-ordered sub-sequence, each node once, annotation of the first
//             satisfied line; no filter line ⇒ whole pool, zero annotations.
// Errors (DESIGN.md §2 C14): required when an invalid element is *reached* under
// left-to-right short-circuit evaluation (node by node, line by line, call by
// call, value by value), allowed when any invalid element exists, forbidden for
// a fully valid definition.

import (
	"context"
	"errors"
	"fmt"
	"io"
	"regexp"
	"strconv"
	"strings"
	"time"
	"unicode/utf8"

	"github.com/daeuniverse/dae/component/outbound/dialer"
	"github.com/daeuniverse/dae/pkg/config_parser"
	D "github.com/daeuniverse/outbound/dialer"
	"github.com/daeuniverse/outbound/netproxy"
	"github.com/dlclark/regexp2"
	"github.com/sirupsen/logrus"
	"pgregory.net/rapid"
)

// ---------------------------------------------------------------- model

type c14Node struct{ Name, Tag string }

type c14P struct{ Key, Val string }

type c14Call struct {
	Not    bool
	Input  string
	Params []c14P
}

type c14Line struct {
	Calls   []c14Call
	HasAnno bool // false ⇒ nil annotation slice (no [...] in the text)
	Anno    []c14P
}

type c14Def struct{ Lines []c14Line }

func (d c14Def) String() string {
	var b strings.Builder
	for i, l := range d.Lines {
		fmt.Fprintf(&b, "line%d:", i)
		for j, c := range l.Calls {
			if j > 0 {
				b.WriteString(" &&")
			}
			not := ""
			if c.Not {
				not = "!"
			}
			fmt.Fprintf(&b, " %s%s(", not, c.Input)
			for k, p := range c.Params {
				if k > 0 {
					b.WriteString(", ")
				}
				if p.Key != "" {
					fmt.Fprintf(&b, "%s: ", p.Key)
				}
				b.WriteString(strconv.Quote(p.Val))
			}
			b.WriteString(")")
		}
		if l.HasAnno {
			b.WriteString(" [")
			for k, p := range l.Anno {
				if k > 0 {
					b.WriteString(", ")
				}
				fmt.Fprintf(&b, "%s: %q", p.Key, p.Val)
			}
			b.WriteString("]")
		}
		b.WriteString("\n")
	}
	return b.String()
}

func (d c14Def) c14Filters() (filters [][]*config_parser.Function, annos [][]*config_parser.Param) {
	for _, l := range d.Lines {
		fs := make([]*config_parser.Function, 0, len(l.Calls))
		for _, c := range l.Calls {
			f := &config_parser.Function{Name: c.Input, Not: c.Not}
			for _, p := range c.Params {
				f.Params = append(f.Params, &config_parser.Param{Key: p.Key, Val: p.Val})
			}
			fs = append(fs, f)
		}
		filters = append(filters, fs)
		var a []*config_parser.Param
		if l.HasAnno {
			a = []*config_parser.Param{}
			for _, p := range l.Anno {
				a = append(a, &config_parser.Param{Key: p.Key, Val: p.Val})
			}
		}
		annos = append(annos, a)
	}
	return
}

// ---------------------------------------------------------------- fake dialers

type c14NoopDialer struct{}

func (c14NoopDialer) DialContext(context.Context, string, string) (netproxy.Conn, error) {
	return nil, errors.New("c14: no network")
}

var c14Option = func() *dialer.GlobalOption {
	l := logrus.New()
	l.SetOutput(io.Discard)
	l.SetLevel(logrus.ErrorLevel)
	return &dialer.GlobalOption{Log: l, CheckInterval: 30 * time.Second}
}()

func c14NewSet(pool []c14Node) *DialerSet {
	s := &DialerSet{
		log:          c14Option.Log,
		dialers:      make([]*dialer.Dialer, 0, len(pool)),
		nodeToTagMap: make(map[*dialer.Dialer]string),
	}
	for _, n := range pool {
		d := dialer.NewDialer(c14NoopDialer{}, c14Option, dialer.InstanceOption{DisableCheck: true},
			&dialer.Property{Property: D.Property{Name: n.Name}, SubscriptionTag: n.Tag})
		s.dialers = append(s.dialers, d)
		s.nodeToTagMap[d] = n.Tag
	}
	return s
}

func c14ClearRegexCache() {
	regexpCache.Range(func(k, _ any) bool { regexpCache.Delete(k); return true })
}

// ---------------------------------------------------------------- reference

var c14RefRegex = map[string]*regexp2.Regexp{} // nil value ⇒ does not compile

func c14Regex(p string) *regexp2.Regexp {
	if re, ok := c14RefRegex[p]; ok {
		return re
	}
	re, err := regexp2.Compile(p, 0)
	if err != nil {
		re = nil
	}
	c14RefRegex[p] = re
	return re
}

// c14ParamState: 0 valid, 1 invalid (unknown key / bad regex).
func c14ParamInvalid(input string, p c14P) bool {
	switch p.Key {
	case "":
		return false
	case "regex":
		return c14Regex(p.Val) == nil
	case "keyword":
		return input != "name"
	default:
		return true
	}
}

func c14ParamMatch(input string, p c14P, n c14Node) bool {
	subject := n.Name
	if input == "subtag" {
		subject = n.Tag
	}
	switch p.Key {
	case "":
		return subject == p.Val
	case "keyword":
		return strings.Contains(subject, p.Val)
	default: // regex
		m, _ := c14Regex(p.Val).MatchString(subject)
		return m
	}
}

func c14InputValid(input string) bool { return input == "name" || input == "subtag" }

// c14RefLine: does node n satisfy the line; reached = an invalid element was reached
// under left-to-right short-circuit evaluation (hit is meaningless then).
func c14RefLine(l c14Line, n c14Node) (hit bool, reached string) {
	for ci, c := range l.Calls {
		if !c14InputValid(c.Input) {
			return false, fmt.Sprintf("call %d: unknown input %q", ci, c.Input)
		}
		sub := false
		for pi, p := range c.Params {
			if c14ParamInvalid(c.Input, p) {
				return false, fmt.Sprintf("call %d value %d: invalid %q:%q", ci, pi, p.Key, p.Val)
			}
			if c14ParamMatch(c.Input, p, n) {
				sub = true
				break
			}
		}
		if sub == c.Not {
			return false, ""
		}
	}
	return true, ""
}

// c14RefAnno: the latency offset of an annotation list. alt is a second accepted
// value: the statement is silent about repeated add_latency entries; DESIGN says
// "first add_latency wins", the code lets the first *non-zero* one win; both are
// accepted (they differ only when the first entry is a zero duration).
func c14RefAnno(l c14Line) (want, alt time.Duration, invalid string) {
	first := true
	for i, p := range l.Anno {
		if p.Key != "add_latency" {
			return 0, 0, fmt.Sprintf("annotation %d: unknown key %q", i, p.Key)
		}
		d, err := time.ParseDuration(p.Val)
		if err != nil {
			return 0, 0, fmt.Sprintf("annotation %d: malformed duration %q", i, p.Val)
		}
		if first {
			want, alt, first = d, d, false
		} else if alt == 0 {
			alt = d
		}
	}
	return want, alt, ""
}

type c14Outcome struct {
	MustErr    string // non-empty ⇒ error required (what was reached)
	AnyInvalid bool   // an invalid element exists somewhere ⇒ error allowed
	Members    []int
	Want, Alt  []time.Duration
	// statistics for the non-triviality rule
	OverlapDiffAnno bool // a member satisfies ≥2 lines whose annotations differ
	AtomsBeforeErr  int  // valid line evaluations before the invalid element was reached
}

func (d c14Def) c14AnyInvalid() bool {
	for _, l := range d.Lines {
		for _, c := range l.Calls {
			if !c14InputValid(c.Input) {
				return true
			}
			for _, p := range c.Params {
				if c14ParamInvalid(c.Input, p) {
					return true
				}
			}
		}
		if _, _, bad := c14RefAnno(l); bad != "" {
			return true
		}
	}
	return false
}

func c14Ref(pool []c14Node, def c14Def) c14Outcome {
	out := c14Outcome{AnyInvalid: def.c14AnyInvalid()}
	if len(def.Lines) == 0 {
		for i := range pool {
			out.Members = append(out.Members, i)
			out.Want = append(out.Want, 0)
			out.Alt = append(out.Alt, 0)
		}
		return out
	}
	for i, n := range pool {
		for j, l := range def.Lines {
			hit, reached := c14RefLine(l, n)
			if reached != "" {
				out.MustErr = fmt.Sprintf("node %d (%q/%q) line %d %s", i, n.Name, n.Tag, j, reached)
				return out
			}
			out.AtomsBeforeErr++
			if !hit {
				continue
			}
			w, a, bad := c14RefAnno(l)
			if bad != "" {
				out.MustErr = fmt.Sprintf("node %d (%q/%q) satisfies line %d, %s", i, n.Name, n.Tag, j, bad)
				return out
			}
			out.Members = append(out.Members, i)
			out.Want = append(out.Want, w)
			out.Alt = append(out.Alt, a)
			// overlap statistics (only over fully valid later lines)
			for _, l2 := range def.Lines[j+1:] {
				h2, r2 := c14RefLine(l2, n)
				if r2 != "" || !h2 {
					continue
				}
				if w2, _, b2 := c14RefAnno(l2); b2 == "" && w2 != w {
					out.OverlapDiffAnno = true
				}
			}
			break
		}
	}
	return out
}

// c14Compare applies the oracle to one FilterAndAnnotate result. It returns a
// violation message ("" = accepted) and whether the call ended in an (allowed or
// required) error.
func c14Compare(ref c14Outcome, pool []c14Node, set *DialerSet, got []*dialer.Dialer, gotAnno []*dialer.Annotation, err error) (string, bool) {
	if ref.MustErr != "" {
		if err == nil {
			return fmt.Sprintf("invalid element reached (%s) but no configuration error; selected %s", ref.MustErr, c14Names(got)), false
		}
		return "", true
	}
	if err != nil {
		if !ref.AnyInvalid {
			return fmt.Sprintf("error for a fully valid definition: %v", err), true
		}
		return "", true
	}
	if len(got) != len(gotAnno) {
		return fmt.Sprintf("%d members but %d annotations", len(got), len(gotAnno)), false
	}
	if len(got) != len(ref.Members) {
		return fmt.Sprintf("members %s, want pool indexes %v", c14Names(got), ref.Members), false
	}
	for k, idx := range ref.Members {
		if got[k] != set.dialers[idx] {
			return fmt.Sprintf("member %d is %q, want pool[%d]=%q (members %s, want pool indexes %v)", k, got[k].Property().Name, idx, pool[idx].Name, c14Names(got), ref.Members), false
		}
		if gotAnno[k] == nil {
			return fmt.Sprintf("member %d (%q) has a nil annotation", k, pool[idx].Name), false
		}
		if a := gotAnno[k].AddLatency; a != ref.Want[k] && a != ref.Alt[k] {
			return fmt.Sprintf("member %d (pool[%d]=%q) add_latency %v, want %v", k, idx, pool[idx].Name, a, ref.Want[k]), false
		}
	}
	return "", false
}

func c14Names(ds []*dialer.Dialer) string {
	var s []string
	for _, d := range ds {
		s = append(s, strconv.Quote(d.Property().Name))
	}
	return "[" + strings.Join(s, " ") + "]"
}

// ---------------------------------------------------------------- vocabulary

// Names: duplicates of each other's substrings, empty, blank, regex
// metacharacters, UTF-8 (CJK, emoji flags), quotes, backslash, newline.
var c14NameVoc = []string{
	"HK_node", "US_node", "HK_node2", "hk-01", "HK 香港 01", "US 美国 IPLC", "🇯🇵 Tokyo [IPLC]", "🇭🇰 HK x2.0",
	"a.b", "a+b", "axb", "(x)", "node|1", "^start$", "node1", "node10", "node2", "sg", "SG", "disney+ SG",
	"ExpireAt: 2026-01-01", "ExpireAt:", "", " ", "it's", `say "hi"`, `a\b`, "tab\there", "line\nbreak", "a*", "[abc]", "{2}", "日本", "日本01", "my_sub",
	`both ' and "`, "\u00e9", "e\u0301", "\xff\xfe",
}

var c14Tags = []string{"my_sub", "my_sub2", "my_", "sub", "another_sub", "", "订阅", "a.b", "axb", "MY_SUB", "s|t", "HK_node"}

// fixed regular expressions (regexp2 syntax, incl. look-around, back-references,
// inline options, unicode classes). Whether one compiles is decided by regexp2
// itself in the reference; c14BadRegex are asserted not to compile in
// TestC14_Sanity, c14GoodRegex are asserted to compile.
var c14GoodRegex = []string{
	`HK|TW|SG`, `^.*hk.*$`, `(?i)hk`, `^(?!.*Expire).*$`, `(?=.*node)(?=.*1)`, `\d+$`, `^$`, `^\s*$`, `^my_`, `my_`,
	`node(?<n>\d)\k<n>`, `(\d)\1`, `.`, ``, `(?<!US )美国`, `\p{Han}`, `\p{Lo}+\d`, `[^\x00-\x7F]`, `^[A-Z]{2}_node\d?$`,
	`^(?>a+)b`, `node1\b`, `(?i:sg)$`, `\[IPLC\]`, `^sub$|^my_sub$`, `a.b`, `^.{0,2}$`, `x(?#comment)2`,
}

var c14BadRegex = []string{`(`, `[a`, `*a`, `a{2,1}`, `(?<n`, `)`, `\`, `(?P<n>a)`, `a**`, `\k<nope>`, `[z-a]`, `(?=`}

var c14BadInputs = []string{"link", "tag", "Name", "names", "subtags", "node", "address", "NAME", ""}
var c14BadKeys = []string{"suffix", "full", "Regex", "contains", "regexp", "key", "KEYWORD", "kw"}
var c14BadAnnoKeys = []string{"latency", "addlatency", "Add_latency", "add_latency_ms", "weight", ""}
var c14GoodDur = []string{"-500ms", "0", "0s", "1s", "1h2m3s", "+5ms", ".5s", "1.5ms", "100us", "1µs", "-1ns", "500ms", "-0s", "20ms"}
var c14BadDur = []string{"5", "abc", "", "1 s", "1d", "ms", "-", "1e3", "500", "１s", "1s "}

// ---------------------------------------------------------------- text rendering

var c14BareRe = regexp.MustCompile(`^(?:[A-Za-z_][A-Za-z0-9_]*|-?[0-9][A-Za-z0-9_.]*)$`)

// c14Quote renders a value as a config literal such that the parser yields exactly
// val. Quoted strings know no unescaping; a backslash directly in front of a quote
// character may be lexed as an escape (the lexer takes the longest match, so the
// string then runs on to the next quote in the file). A value is therefore
// renderable in a quote style iff it does not contain that quote character and
// does not end in a backslash.
func c14Quote(val string, preferBare bool, preferDouble bool) (string, bool) {
	if preferBare && c14BareRe.MatchString(val) {
		return val, true
	}
	if !utf8.ValidString(val) || strings.HasSuffix(val, `\`) {
		return "", false
	}
	ok := func(q byte) bool { return strings.IndexByte(val, q) < 0 }
	qs := []byte{'\'', '"'}
	if preferDouble {
		qs = []byte{'"', '\''}
	}
	for _, q := range qs {
		if ok(q) {
			return string(q) + val + string(q), true
		}
	}
	return "", false
}

var c14IDRe = regexp.MustCompile(`^[A-Za-z_][A-Za-z0-9_]*$`)

func (d c14Def) c14TextRenderable() bool {
	for _, l := range d.Lines {
		if len(l.Calls) == 0 {
			return false
		}
		for _, c := range l.Calls {
			if !c14IDRe.MatchString(c.Input) || len(c.Params) == 0 {
				return false
			}
			for _, p := range c.Params {
				if p.Key != "" && !c14IDRe.MatchString(p.Key) {
					return false
				}
				if _, ok := c14Quote(p.Val, false, false); !ok {
					return false
				}
			}
		}
		if l.HasAnno && len(l.Anno) == 0 {
			return false
		}
		for _, p := range l.Anno {
			if p.Key != "" && !c14IDRe.MatchString(p.Key) {
				return false
			}
			if _, ok := c14Quote(p.Val, false, false); !ok {
				return false
			}
		}
	}
	return true
}

func c14RenderParams(t *rapid.T, ps []c14P) string {
	var out []string
	for _, p := range ps {
		v, _ := c14Quote(p.Val, rapid.Bool().Draw(t, "bare"), rapid.Bool().Draw(t, "dq"))
		if p.Key != "" {
			v = p.Key + ": " + v
		}
		out = append(out, v)
	}
	return strings.Join(out, rapid.SampledFrom([]string{", ", ",", " , "}).Draw(t, "comma"))
}

func c14RenderLine(t *rapid.T, l c14Line) string {
	var calls []string
	for _, c := range l.Calls {
		s := c.Input + "(" + c14RenderParams(t, c.Params) + ")"
		if c.Not {
			s = "!" + s
		}
		calls = append(calls, s)
	}
	s := "filter: " + strings.Join(calls, rapid.SampledFrom([]string{" && ", "&&", "  &&  "}).Draw(t, "and"))
	if l.HasAnno {
		s += rapid.SampledFrom([]string{" [", "[", "  [ "}).Draw(t, "br") + c14RenderParams(t, l.Anno) + "]"
	}
	return s
}

// ---------------------------------------------------------------- generators

func c14GenPool(t *rapid.T, textOnly bool) []c14Node {
	n := rapid.SampledFrom([]int{4, 3, 5, 6, 2, 8, 1, 10, 12, 0}).Draw(t, "npool")
	// a small sub-vocabulary makes duplicates frequent
	k := rapid.IntRange(1, 8).Draw(t, "nvoc") + 1
	names := make([]string, k)
	for i := range names {
		names[i] = rapid.SampledFrom(c14NameVoc).Draw(t, "vname")
	}
	kt := rapid.IntRange(1, 4).Draw(t, "ntags") + 1
	tags := make([]string, kt)
	for i := range tags {
		tags[i] = rapid.SampledFrom(c14Tags).Draw(t, "vtag")
	}
	pool := make([]c14Node, n)
	for i := range pool {
		pool[i] = c14Node{Name: rapid.SampledFrom(names).Draw(t, "name"), Tag: rapid.SampledFrom(tags).Draw(t, "tag")}
	}
	_ = textOnly // node names never appear in the text; only filter values do
	return pool
}

func c14Runes(s string) []string {
	var r []string
	for _, c := range s {
		r = append(r, string(c))
	}
	return r
}

func c14GenParam(t *rapid.T, input string, pool []c14Node) c14P {
	var subject string
	fromPool := len(pool) > 0 && rapid.IntRange(0, 9).Draw(t, "frompool") < 7
	if fromPool {
		n := rapid.SampledFrom(pool).Draw(t, "pnode")
		subject = n.Name
		if input == "subtag" {
			subject = n.Tag
		}
	} else if input == "subtag" {
		subject = rapid.SampledFrom(c14Tags).Draw(t, "vtag")
	} else {
		subject = rapid.SampledFrom(c14NameVoc).Draw(t, "vname")
	}
	kinds := []string{"", "", "keyword", "regex", "regex"}
	if input == "subtag" {
		kinds = []string{"", "", "regex"}
	}
	switch kind := rapid.SampledFrom(kinds).Draw(t, "kind"); kind {
	case "":
		if rapid.IntRange(0, 5).Draw(t, "mangle") == 0 {
			subject = rapid.SampledFrom([]string{strings.ToLower(subject), strings.ToUpper(subject), subject + " ", " " + subject, subject + "2"}).Draw(t, "mangled")
		}
		return c14P{"", subject}
	case "keyword":
		rs := c14Runes(subject)
		if len(rs) == 0 || rapid.IntRange(0, 11).Draw(t, "emptykw") == 0 {
			return c14P{"keyword", ""}
		}
		i := rapid.IntRange(0, len(rs)-1).Draw(t, "i")
		j := rapid.IntRange(i+1, len(rs)).Draw(t, "j")
		kw := strings.Join(rs[i:j], "")
		if rapid.IntRange(0, 5).Draw(t, "kwcase") == 0 {
			kw = rapid.SampledFrom([]string{strings.ToLower(kw), strings.ToUpper(kw)}).Draw(t, "kwcased")
		}
		return c14P{"keyword", kw}
	default:
		if rapid.Bool().Draw(t, "fixedrx") {
			return c14P{"regex", rapid.SampledFrom(c14GoodRegex).Draw(t, "rx")}
		}
		q := regexp2.Escape(subject)
		rs := c14Runes(subject)
		head := ""
		if len(rs) > 0 {
			head = regexp2.Escape(strings.Join(rs[:(len(rs)+1)/2], ""))
		}
		return c14P{"regex", rapid.SampledFrom([]string{
			"^" + q + "$", q, "^" + q, q + "$", "^" + head, "^(?!" + q + "$)", "(?i)^" + q + "$", "^" + head + ".+$", "^(?=" + head + ")", subject,
		}).Draw(t, "rxderived")}
	}
}

func c14GenAnno(t *rapid.T, direct bool) (bool, []c14P) {
	switch rapid.IntRange(0, 9).Draw(t, "annokind") {
	case 0, 1, 2, 3:
		return false, nil
	case 4:
		if direct {
			return true, nil // present but empty (not expressible in text)
		}
		return false, nil
	case 5, 6: // duplicated add_latency
		n := rapid.IntRange(2, 3).Draw(t, "ndup")
		var a []c14P
		for i := 0; i < n; i++ {
			a = append(a, c14P{"add_latency", rapid.SampledFrom(c14GoodDur).Draw(t, "dur")})
		}
		return true, a
	default:
		return true, []c14P{{"add_latency", rapid.SampledFrom(c14GoodDur).Draw(t, "dur")}}
	}
}

// c14Wide: a condition head shared by several conditions of one case (same input,
// same negation, the same first five values) that continue with different further
// alternatives — conditions that agree on a long prefix must still be evaluated
// on all their values, in every line and every group built from one DialerSet.
type c14Wide struct {
	Input  string
	Not    bool
	Prefix []c14P
}

func c14GenWide(t *rapid.T, pool []c14Node) *c14Wide {
	w := &c14Wide{Input: rapid.SampledFrom([]string{"name", "name", "subtag"}).Draw(t, "winput"), Not: rapid.IntRange(0, 2).Draw(t, "wnot") == 0}
	n := rapid.SampledFrom([]int{5, 5, 5, 6, 7}).Draw(t, "wprefix")
	for i := 0; i < n; i++ {
		if rapid.IntRange(0, 9).Draw(t, "wmiss") < 7 {
			// a value no node has, so the differing tails decide
			w.Prefix = append(w.Prefix, rapid.SampledFrom([]c14P{{"", "no-such-" + strconv.Itoa(i)}, {"regex", "^never" + strconv.Itoa(i) + "$"}, {"", "zz" + strconv.Itoa(i)}}).Draw(t, "wmissval"))
		} else {
			w.Prefix = append(w.Prefix, c14GenParam(t, w.Input, pool))
		}
	}
	return w
}

func c14GenCall(t *rapid.T, pool []c14Node, direct bool, wide ...*c14Wide) c14Call {
	if len(wide) > 0 && wide[0] != nil && rapid.IntRange(0, 9).Draw(t, "usewide") < 6 {
		w := wide[0]
		c := c14Call{Input: w.Input, Not: w.Not, Params: append([]c14P{}, w.Prefix...)}
		if rapid.IntRange(0, 7).Draw(t, "wflipnot") == 0 {
			c.Not = !c.Not
		}
		for i, n := 0, rapid.IntRange(0, 4).Draw(t, "wtail"); i < n; i++ {
			c.Params = append(c.Params, c14GenParam(t, w.Input, pool))
		}
		return c
	}
	c := c14Call{Input: rapid.SampledFrom([]string{"name", "name", "name", "subtag", "subtag"}).Draw(t, "input"),
		Not: rapid.IntRange(0, 2).Draw(t, "not") == 0}
	np := rapid.SampledFrom([]int{1, 1, 1, 2, 2, 3, 4}).Draw(t, "nparams")
	if direct && rapid.IntRange(0, 39).Draw(t, "noparams") == 0 {
		np = 0
	}
	for i := 0; i < np; i++ {
		c.Params = append(c.Params, c14GenParam(t, c.Input, pool))
	}
	return c
}

// c14GenDef: a valid definition, then (sometimes) 1-2 invalid elements injected at
// rapid-chosen positions. direct=false restricts to what the text grammar can say.
func c14GenDef(t *rapid.T, pool []c14Node, direct bool, wide ...*c14Wide) (def c14Def, injected []string) {
	nl := rapid.SampledFrom([]int{1, 2, 1, 2, 3, 1, 2, 3, 4, 0}).Draw(t, "nlines")
	for i := 0; i < nl; i++ {
		var l c14Line
		nc := rapid.SampledFrom([]int{1, 1, 1, 2, 2, 3}).Draw(t, "ncalls")
		if direct && rapid.IntRange(0, 59).Draw(t, "nocalls") == 0 {
			nc = 0
		}
		for j := 0; j < nc; j++ {
			l.Calls = append(l.Calls, c14GenCall(t, pool, direct, wide...))
		}
		l.HasAnno, l.Anno = c14GenAnno(t, direct)
		def.Lines = append(def.Lines, l)
	}
	if nl == 0 || rapid.IntRange(0, 9).Draw(t, "inject") >= 4 {
		return def, nil
	}
	ninj := rapid.SampledFrom([]int{1, 1, 1, 2}).Draw(t, "ninj")
	for k := 0; k < ninj; k++ {
		li := rapid.IntRange(0, nl-1).Draw(t, "injline")
		l := &def.Lines[li]
		kind := rapid.SampledFrom([]string{"input", "key", "regex", "annokey", "annoval"}).Draw(t, "injkind")
		if len(l.Calls) == 0 && (kind == "input" || kind == "key" || kind == "regex") {
			kind = "annokey"
		}
		switch kind {
		case "input":
			c := &l.Calls[rapid.IntRange(0, len(l.Calls)-1).Draw(t, "injcall")]
			c.Input = rapid.SampledFrom(c14BadInputs).Draw(t, "badinput")
			if !direct && c.Input == "" {
				c.Input = "link"
			}
		case "key", "regex":
			c := &l.Calls[rapid.IntRange(0, len(l.Calls)-1).Draw(t, "injcall")]
			if len(c.Params) == 0 {
				c.Params = append(c.Params, c14P{"", "x"})
			}
			p := &c.Params[rapid.IntRange(0, len(c.Params)-1).Draw(t, "injparam")]
			if kind == "key" {
				keys := c14BadKeys
				if c.Input == "subtag" {
					keys = append([]string{"keyword", "keyword", "keyword"}, c14BadKeys...)
				}
				p.Key = rapid.SampledFrom(keys).Draw(t, "badkey")
			} else {
				p.Key = "regex"
				p.Val = rapid.SampledFrom(c14BadRegex).Draw(t, "badrx")
				if !direct {
					if _, ok := c14Quote(p.Val, false, false); !ok {
						p.Val = "("
					}
				}
			}
		case "annokey", "annoval":
			if !l.HasAnno || len(l.Anno) == 0 {
				l.HasAnno = true
				l.Anno = []c14P{{"add_latency", rapid.SampledFrom(c14GoodDur).Draw(t, "dur")}}
			}
			if rapid.Bool().Draw(t, "appendbad") {
				l.Anno = append(l.Anno, c14P{"add_latency", "1s"})
			}
			p := &l.Anno[rapid.IntRange(0, len(l.Anno)-1).Draw(t, "injanno")]
			if kind == "annokey" {
				p.Key = rapid.SampledFrom(c14BadAnnoKeys).Draw(t, "badannokey")
			} else {
				p.Val = rapid.SampledFrom(c14BadDur).Draw(t, "baddur")
			}
		}
		injected = append(injected, fmt.Sprintf("%s@line%d", kind, li))
	}
	return def, injected
}

// c14MakeRenderable replaces values the text grammar cannot express.
func (d *c14Def) c14MakeRenderable(t *rapid.T) {
	fix := func(ps []c14P) {
		for i := range ps {
			if _, ok := c14Quote(ps[i].Val, false, false); !ok {
				ps[i].Val = rapid.SampledFrom([]string{"HK_node", "it's", `say "hi"`, "a.b"}).Draw(t, "subst")
			}
		}
	}
	for li := range d.Lines {
		for ci := range d.Lines[li].Calls {
			fix(d.Lines[li].Calls[ci].Params)
		}
		fix(d.Lines[li].Anno)
	}
}

package domain_matcher

// C11 — domain pattern kinds: AhocorasickSlimtrie.AddSet/Build/MatchDomainBitmap
// against the literal statement (strings / regexp on the lower-cased, dot-trimmed
// name). One AddSet per bit index, exactly as the three builders use it.

import (
	"fmt"
	"io"
	"regexp"
	"sort"
	"strings"
	"testing"

	"github.com/daeuniverse/dae/common/consts"
	"github.com/sirupsen/logrus"
	"pgregory.net/rapid"
)

var c11Labels = []string{"a", "aa", "b", "ab", "com", "net", "co", "x-1", "a_b", "0", "9z", "m", "example", "xn--p1ai"}

type c11Set struct {
	Bit      int
	Kind     consts.RoutingDomainKey
	Patterns []string
}

func c11Log() *logrus.Logger {
	l := logrus.New()
	l.SetOutput(io.Discard)
	return l
}

func c11GenName(t *rapid.T, label string) string {
	n := rapid.IntRange(1, 4).Draw(t, label+"_nlabels")
	parts := make([]string, n)
	for i := range parts {
		parts[i] = rapid.SampledFrom(c11Labels).Draw(t, label+"_l")
	}
	return strings.Join(parts, ".")
}

// patterns that full/suffix must skip (characters outside the matcher alphabet).
// The last group are runes >= U+0100 whose LOW BYTE is in the matcher alphabet
// (U+0131 -> '1', U+4E2D -> '-', U+0430 -> '0', U+015F -> '_'): a check that looks at
// byte(rune) would let them through.
var c11BadPatterns = []string{"A.com", "a*.com", "a b.com", "é.com", "a.com/", "a$b", "~", "a.CoM", "\x00a",
	"ışık.com", "中.com", "а.com", "aşk.net", "x.中"}

func c11GenPattern(t *rapid.T, kind consts.RoutingDomainKey, names []string) (p string, bad bool) {
	switch kind {
	case consts.RoutingDomainKey_Full, consts.RoutingDomainKey_Suffix:
		if rapid.IntRange(0, 9).Draw(t, "badpat") == 0 {
			return rapid.SampledFrom(c11BadPatterns).Draw(t, "bad"), true
		}
		var base string
		if len(names) > 0 && rapid.Bool().Draw(t, "fromname") {
			// a suffix (by labels) of an existing name: overlapping patterns.
			n := rapid.SampledFrom(names).Draw(t, "basename")
			ls := strings.Split(n, ".")
			k := rapid.IntRange(0, len(ls)-1).Draw(t, "cut")
			base = strings.Join(ls[k:], ".")
		} else {
			base = c11GenName(t, "pat")
		}
		if kind == consts.RoutingDomainKey_Suffix && rapid.IntRange(0, 3).Draw(t, "leadingdot") == 0 {
			base = "." + base
		}
		return base, false
	case consts.RoutingDomainKey_Keyword:
		var base string
		if len(names) > 0 && rapid.Bool().Draw(t, "fromname") {
			n := rapid.SampledFrom(names).Draw(t, "basename")
			i := rapid.IntRange(0, len(n)-1).Draw(t, "i")
			j := rapid.IntRange(i+1, len(n)).Draw(t, "j")
			base = n[i:j]
		} else {
			base = c11GenName(t, "kw")
			if len(base) > 3 && rapid.Bool().Draw(t, "short") {
				base = base[:3]
			}
		}
		return base, false
	default: // regex
		if len(names) > 0 && rapid.IntRange(0, 2).Draw(t, "fromname") > 0 {
			n := regexp.QuoteMeta(rapid.SampledFrom(names).Draw(t, "basename"))
			return rapid.SampledFrom([]string{"^" + n + "$", n, "^" + n, n + "$", `(^|\.)` + n + "$", "^[a-z]+\\." + n}).Draw(t, "rx"), false
		}
		return rapid.SampledFrom([]string{`^a+\.com$`, `\.net$`, `^[0-9]`, `x-1`, `^(a|b)\.`, `_`, `^[a-z0-9.-]*$`, `[A-Z]`, `^$`, `a.b`, `\.co(m)?$`}).Draw(t, "rxfixed"), false
	}
}

func c11RefPattern(kind consts.RoutingDomainKey, p string, n string) bool {
	switch kind {
	case consts.RoutingDomainKey_Full:
		return n == p
	case consts.RoutingDomainKey_Suffix:
		if strings.HasPrefix(p, ".") {
			return strings.HasSuffix(n, p)
		}
		return n == p || strings.HasSuffix(n, "."+p)
	case consts.RoutingDomainKey_Keyword:
		return strings.Contains(n, p)
	default:
		return regexp.MustCompile(p).MatchString(n)
	}
}

func c11Valid(p string) bool {
	for i := 0; i < len(p); i++ {
		c := p[i]
		if !(c >= 'a' && c <= 'z' || c >= '0' && c <= '9' || c == '-' || c == '.' || c == '_') {
			return false
		}
	}
	return true
}

func c11RefSet(s c11Set, name string) bool {
	n := strings.ToLower(strings.TrimSuffix(name, "."))
	for _, p := range s.Patterns {
		if (s.Kind == consts.RoutingDomainKey_Full || s.Kind == consts.RoutingDomainKey_Suffix) && !c11Valid(p) {
			continue // must be skipped without affecting the rest
		}
		if c11RefPattern(s.Kind, p, n) {
			return true
		}
	}
	return false
}

func c11Mangle(t *rapid.T, n string) string {
	b := []byte(n)
	switch rapid.IntRange(0, 3).Draw(t, "case") {
	case 1:
		b = []byte(strings.ToUpper(n))
	case 2:
		for i := range b {
			if b[i] >= 'a' && b[i] <= 'z' && rapid.Bool().Draw(t, "up") {
				b[i] -= 32
			}
		}
	}
	if rapid.IntRange(0, 3).Draw(t, "dot") == 0 {
		b = append(b, '.')
	}
	return string(b)
}

// names derived from a pattern: the interesting neighbours.
func c11Neighbours(t *rapid.T, p string) string {
	p = strings.TrimPrefix(p, ".")
	if p == "" {
		return "a"
	}
	switch rapid.IntRange(0, 7).Draw(t, "nb") {
	case 0:
		return p
	case 1:
		return rapid.SampledFrom(c11Labels).Draw(t, "extra") + "." + p
	case 2:
		return rapid.SampledFrom([]string{"x", "a", "0", "-", "_"}).Draw(t, "glue") + p
	case 3:
		if i := strings.IndexByte(p, '.'); i >= 0 {
			return p[i+1:]
		}
		return p
	case 4:
		return p + rapid.SampledFrom([]string{"x", "m", ".a", "0"}).Draw(t, "tail")
	case 5:
		if len(p) > 1 {
			return p[:len(p)-1]
		}
		return p
	case 6:
		return "a.b." + p
	default:
		return p + "." + rapid.SampledFrom(c11Labels).Draw(t, "after")
	}
}

func c11GenFamily(t *rapid.T) (bitLen int, sets []c11Set, allPats []string) {
	bitLen = rapid.SampledFrom([]int{1, 2, 31, 32, 33, 64, 65, 96, 1024}).Draw(t, "bitLen")
	nsets := rapid.IntRange(1, 12).Draw(t, "nsets")
	if nsets > bitLen {
		nsets = bitLen
	}
	used := map[int]bool{}
	names := []string{}
	for i := 0; i < 4; i++ {
		names = append(names, c11GenName(t, "seedname"))
	}
	for len(sets) < nsets {
		var bit int
		if rapid.Bool().Draw(t, "edgebit") {
			bit = rapid.SampledFrom([]int{0, 31, 32, 63, 64, bitLen - 1, bitLen / 2}).Draw(t, "bit")
			if bit >= bitLen {
				bit = bitLen - 1
			}
		} else {
			bit = rapid.IntRange(0, bitLen-1).Draw(t, "bit")
		}
		if used[bit] {
			// take the next free index
			for used[bit] {
				bit = (bit + 1) % bitLen
			}
		}
		used[bit] = true
		kind := rapid.SampledFrom([]consts.RoutingDomainKey{consts.RoutingDomainKey_Full, consts.RoutingDomainKey_Suffix, consts.RoutingDomainKey_Suffix, consts.RoutingDomainKey_Keyword, consts.RoutingDomainKey_Regex}).Draw(t, "kind")
		maxp := 8
		if rapid.IntRange(0, 5).Draw(t, "big") == 0 {
			maxp = 40
		}
		np := rapid.IntRange(1, maxp).Draw(t, "npat")
		s := c11Set{Bit: bit, Kind: kind}
		for j := 0; j < np; j++ {
			p, _ := c11GenPattern(t, kind, names)
			s.Patterns = append(s.Patterns, p)
			allPats = append(allPats, p)
		}
		sets = append(sets, s)
	}
	return
}

func c11Build(bitLen int, sets []c11Set) (*AhocorasickSlimtrie, error) {
	m := NewAhocorasickSlimtrie(c11Log(), bitLen)
	for _, s := range sets {
		m.AddSet(s.Bit, s.Patterns, s.Kind)
	}
	if err := m.Build(); err != nil {
		return nil, err
	}
	return m, nil
}

func c11Bit(bm []uint32, i int) bool { return bm[i/32]&(1<<(uint(i)%32)) != 0 }

func TestC11_Domain(t *testing.T) {
	rapid.Check(t, func(t *rapid.T) {
		bitLen, sets, pats := c11GenFamily(t)
		m, err := c11Build(bitLen, sets)
		if err != nil {
			t.Fatalf("Build failed on a valid family: %v (sets=%+v)", err, sets)
		}
		// each set alone (independence)
		alone := make([]*AhocorasickSlimtrie, len(sets))
		for i, s := range sets {
			a, err := c11Build(bitLen, []c11Set{s})
			if err != nil {
				t.Fatalf("Build(single set) failed: %v", err)
			}
			alone[i] = a
		}
		nnames := rapid.IntRange(8, 40).Draw(t, "nnames")
		nt := 0
		classes := map[string]bool{}
		var ntKey strings.Builder
		for k := 0; k < nnames; k++ {
			var base string
			neighbour := false
			if rapid.IntRange(0, 4).Draw(t, "derive") > 0 {
				base = c11Neighbours(t, rapid.SampledFrom(pats).Draw(t, "pat"))
				neighbour = true
			} else {
				base = c11GenName(t, "rand")
			}
			if !c11Valid(strings.ToLower(base)) {
				// names are restricted to the statement's alphabet
				base = "a.com"
			}
			name := c11Mangle(t, base)
			bm := m.MatchDomainBitmap(name)
			wantLen := (bitLen + 31) / 32
			if len(bm) != wantLen {
				t.Fatalf("bitmap length %d, want %d", len(bm), wantLen)
			}
			hit, miss := 0, 0
			want := map[int]bool{}
			for i, s := range sets {
				w := c11RefSet(s, name)
				want[s.Bit] = w
				if got := c11Bit(bm, s.Bit); got != w {
					t.Fatalf("name %q set bit %d kind %v patterns %q: got %v want %v\nfamily=%+v", name, s.Bit, s.Kind, s.Patterns, got, w, sets)
				}
				if got := c11Bit(alone[i].MatchDomainBitmap(name), s.Bit); got != w {
					t.Fatalf("name %q set alone bit %d kind %v patterns %q: got %v want %v", name, s.Bit, s.Kind, s.Patterns, got, w)
				}
				if w {
					hit++
				} else {
					miss++
				}
			}
			for i := 0; i < bitLen; i++ {
				if _, ok := want[i]; !ok && c11Bit(bm, i) {
					t.Fatalf("name %q: bit %d set but no set lives there", name, i)
				}
			}
			if (hit > 0 && miss > 0) || (neighbour && hit+miss > 0) {
				nt++
				fmt.Fprintf(&ntKey, "%s;", name)
			}
			if hit > 0 && miss > 0 {
				classes["hit_and_miss"] = true
			}
			if strings.HasSuffix(name, ".") {
				classes["trailing_dot"] = true
			}
			if name != strings.ToLower(name) {
				classes["upper_case"] = true
			}
		}
		key := ""
		if nt > 0 {
			ks := []string{}
			for _, s := range sets {
				ks = append(ks, fmt.Sprintf("%d/%v/%q", s.Bit, s.Kind, s.Patterns))
			}
			sort.Strings(ks)
			key = strings.Join(ks, "|") + "#" + ntKey.String()
		}
		cl := []string{}
		for c := range classes {
			cl = append(cl, c)
		}
		for _, s := range sets {
			cl = append(cl, "kind_"+string(s.Kind))
		}
		if bitLen > 64 {
			cl = append(cl, "bitlen_gt64")
		}
		sort.Strings(cl)
		vkCase("C11.domain", key, func() any {
			return map[string]any{"bitLen": bitLen, "sets": fmt.Sprintf("%+v", sets), "names_nontrivial": ntKey.String()}
		}, cl...)
	})
}

// A keyword pattern outside the automaton's alphabet must make Build fail cleanly,
// never panic, and must never silently build a matcher that ignores the set.
func TestC11_BadKeywordIsCleanError(t *testing.T) {
	rapid.Check(t, func(t *rapid.T) {
		bitLen := rapid.SampledFrom([]int{1, 32, 64}).Draw(t, "bitLen")
		good := c11GenName(t, "good")
		bad := rapid.SampledFrom([]string{"A", "a b", "é", "*", "a/b"}).Draw(t, "bad")
		m := NewAhocorasickSlimtrie(c11Log(), bitLen)
		m.AddSet(0, []string{good, bad}, consts.RoutingDomainKey_Keyword)
		err := m.Build()
		if err == nil {
			// If it builds, the good pattern must still work.
			if !c11Bit(m.MatchDomainBitmap("x"+good+"y"), 0) {
				t.Fatalf("Build accepted bad keyword %q and lost %q", bad, good)
			}
		} else if err.Error() == "" {
			t.Fatalf("empty error message")
		}
		m2 := NewAhocorasickSlimtrie(c11Log(), bitLen)
		m2.AddSet(0, []string{"(" + good}, consts.RoutingDomainKey_Regex)
		if err := m2.Build(); err == nil {
			t.Fatalf("bad regex accepted")
		}
		vkCase("C11.badkw", good+"|"+bad, func() any { return map[string]any{"good": good, "bad": bad} })
	})
}

// Geosite-scale sets: rank/select block boundaries and wide bit-list units only appear
// with hundreds of thousands of trie nodes. One big suffix set and one big full set per
// case (20k-45k patterns drawn from a seeded label space), probed with names derived
// from the patterns; oracle = hash-set reference of the statement.
func TestC11_Scale(t *testing.T) {
	rapid.Check(t, func(t *rapid.T) {
		n := rapid.SampledFrom([]int{20000, 33000, 45000}).Draw(t, "npatterns")
		seed := rapid.Uint64().Draw(t, "labelseed")
		kind := rapid.SampledFrom([]consts.RoutingDomainKey{consts.RoutingDomainKey_Suffix, consts.RoutingDomainKey_Full}).Draw(t, "kind")
		x := seed | 1
		next := func() uint64 { x ^= x << 13; x ^= x >> 7; x ^= x << 17; return x }
		const alpha = "abcdefghijklmnopqrstuvwxyz0123456789-_"
		label := func() string {
			l := 2 + int(next()%9)
			b := make([]byte, l)
			for i := range b {
				b[i] = alpha[next()%uint64(len(alpha))]
			}
			return string(b)
		}
		tlds := []string{"com", "net", "org", "io", "co.uk", "cn", "example"}
		pats := make([]string, 0, n)
		set := make(map[string]bool, n)
		for len(pats) < n {
			p := label() + "." + tlds[next()%uint64(len(tlds))]
			if next()%4 == 0 {
				p = label() + "." + p
			}
			if !set[p] {
				set[p] = true
				pats = append(pats, p)
			}
		}
		m, err := c11Build(64, []c11Set{{Bit: 33, Kind: kind, Patterns: pats}})
		if err != nil {
			t.Fatalf("Build of a %d-pattern %v set failed: %v", n, kind, err)
		}
		ref := func(name string) bool {
			nm := strings.ToLower(strings.TrimSuffix(name, "."))
			if kind == consts.RoutingDomainKey_Full {
				return set[nm]
			}
			for {
				if set[nm] {
					return true
				}
				i := strings.IndexByte(nm, '.')
				if i < 0 {
					return false
				}
				nm = nm[i+1:]
			}
		}
		nprobe := 3000
		hit, miss := 0, 0
		for k := 0; k < nprobe; k++ {
			p := pats[next()%uint64(len(pats))]
			var name string
			switch next() % 6 {
			case 0:
				name = p
			case 1:
				name = label() + "." + p
			case 2:
				name = "x" + p
			case 3:
				name = p[:len(p)-1]
			case 4:
				name = label() + "." + label() + "." + p
			default:
				name = label() + "." + tlds[next()%uint64(len(tlds))]
			}
			want := ref(name)
			got := c11Bit(m.MatchDomainBitmap(name), 33)
			if got != want {
				t.Fatalf("scale: %d-pattern %v set (labelseed %d): name %q got %v want %v", n, kind, seed, name, got, want)
			}
			if want {
				hit++
			} else {
				miss++
			}
		}
		vkCase("C11.scale", fmt.Sprintf("%d/%v/%d", n, kind, seed), func() any {
			return map[string]any{"patterns": n, "kind": string(kind), "labelseed": seed, "probes": nprobe, "hits": hit, "misses": miss}
		}, "kind_"+string(kind), fmt.Sprintf("n_%d", n))
	})
}

package daedns

// C07 (c) — dae's own lookups: component/daedns.Router built offline from a generated
// dns config whose upstreams are loopback DNS servers (UDP+TCP on 127.0.0.1 / ::1)
// started by the test. For lookups of every network kind the servers record each
// question they receive; oracle (reference interpreter of c07_model_test.go):
//   * soundness: every question a server received (qname, qtype) is one the first
//     matching request rule / fallback routes to exactly that upstream — A and AAAA
//     judged separately, each with its own qtype;
//   * completeness: for every address family the network kind asks for, a question
//     routed to an upstream did arrive there and its answer is in the result;
//   * a question routed to reject (or asis) reaches no upstream and contributes no
//     upstream answer;
//   * sub()/node()/subnode() selectors: first matching rule (subnode before node,
//     subnode only for subscription-derived nodes); a selected upstream then gets
//     every question of the wrapped dialer's lookups.
// Only byte-level facts (what arrived where, what was returned). A lookup that ends
// in a timeout/cancellation is counted as inconclusive, never as a violation.

import (
	"context"
	"encoding/binary"
	"errors"
	"fmt"
	"io"
	"net"
	"net/http"
	"net/netip"
	"os"
	"regexp"
	"sort"
	"strconv"
	"strings"
	"sync"
	"sync/atomic"
	"syscall"
	"testing"
	"time"

	"github.com/daeuniverse/dae/common"
	componentdns "github.com/daeuniverse/dae/component/dns"
	"github.com/daeuniverse/dae/config"
	"github.com/daeuniverse/outbound/netproxy"
	dnsmessage "github.com/miekg/dns"
	"github.com/sirupsen/logrus"
	"pgregory.net/rapid"
)

// ---------------------------------------------------------------- loopback servers

type c07Seen struct {
	Slot  int
	Proto string
	Name  string
	QType uint16
}

type c07Slot struct {
	idx  int
	host string // 127.0.0.1 or ::1
	port int
	pc   net.PacketConn
	ln   net.Listener
}

var c07ReplyDelay atomic.Int64

type c07Farm struct {
	mu    sync.Mutex
	seen  []c07Seen
	slots []*c07Slot
	wg    sync.WaitGroup
}

// answers of slot s for (name, qtype): 0..2 records, recognisable by slot and family.
// The answer also identifies the transport it was asked over (udp, tcp, DoH path),
// so a result shows which of several upstreams on one host:port answered.
var c07ProtoClasses = []string{"udp", "tcp", "h:/a", "h:/b"}

func c07ProtoIndex(proto string) int {
	for i, p := range c07ProtoClasses {
		if p == proto {
			return i
		}
	}
	return 9
}

func c07SlotAnswers(slot int, proto string, name string, qt uint16) []netip.Addr {
	n := (len(c07NormName(name)) + slot) % 3
	pi := c07ProtoIndex(proto)
	var out []netip.Addr
	for k := 1; k <= n; k++ {
		switch qt {
		case dnsmessage.TypeA:
			out = append(out, netip.AddrFrom4([4]byte{10, byte(slot + 1), byte(pi), byte(k)}))
		case dnsmessage.TypeAAAA:
			out = append(out, netip.MustParseAddr(fmt.Sprintf("fd00:%x:%x::%x", slot+1, pi, k)))
		}
	}
	return out
}

func (f *c07Farm) reply(slot int, proto string, wire []byte) []byte {
	var req dnsmessage.Msg
	if err := req.Unpack(wire); err != nil || len(req.Question) == 0 {
		return nil
	}
	q := req.Question[0]
	f.mu.Lock()
	f.seen = append(f.seen, c07Seen{slot, proto, q.Name, q.Qtype})
	f.mu.Unlock()
	if d := time.Duration(c07ReplyDelay.Load()); d > 0 {
		time.Sleep(d) // keeps concurrent lookups in flight together; never asserted on
	}
	resp := dnsmessage.Msg{MsgHdr: dnsmessage.MsgHdr{Id: req.Id, Response: true, RecursionAvailable: true}, Question: req.Question}
	for _, a := range c07SlotAnswers(slot, proto, q.Name, q.Qtype) {
		h := dnsmessage.RR_Header{Name: q.Name, Rrtype: q.Qtype, Class: dnsmessage.ClassINET, Ttl: 60}
		if a.Is4() {
			resp.Answer = append(resp.Answer, &dnsmessage.A{Hdr: h, A: net.IP(a.AsSlice())})
		} else {
			resp.Answer = append(resp.Answer, &dnsmessage.AAAA{Hdr: h, AAAA: net.IP(a.AsSlice())})
		}
	}
	// a decoy of the other family must never leak into the result
	if q.Qtype == dnsmessage.TypeA {
		resp.Answer = append(resp.Answer, &dnsmessage.CNAME{Hdr: dnsmessage.RR_Header{Name: q.Name, Rrtype: dnsmessage.TypeCNAME, Class: dnsmessage.ClassINET, Ttl: 60}, Target: "decoy.example."})
	}
	out, err := resp.Pack()
	if err != nil {
		return nil
	}
	return out
}

func (f *c07Farm) serve(s *c07Slot) {
	f.wg.Add(2)
	go func() {
		defer f.wg.Done()
		buf := make([]byte, 4096)
		for {
			n, from, err := s.pc.ReadFrom(buf)
			if err != nil {
				return
			}
			pkt := append([]byte(nil), buf[:n]...)
			f.wg.Add(1)
			go func() {
				defer f.wg.Done()
				if out := f.reply(s.idx, "udp", pkt); out != nil {
					_, _ = s.pc.WriteTo(out, from)
				}
			}()
		}
	}()
	go func() {
		defer f.wg.Done()
		for {
			c, err := s.ln.Accept()
			if err != nil {
				return
			}
			f.wg.Add(1)
			go func() {
				defer f.wg.Done()
				defer c.Close()
				_ = c.SetDeadline(time.Now().Add(30 * time.Second))
				for {
					var l [2]byte
					if _, err := io.ReadFull(c, l[:]); err != nil {
						return
					}
					b := make([]byte, binary.BigEndian.Uint16(l[:]))
					if _, err := io.ReadFull(c, b); err != nil {
						return
					}
					out := f.reply(s.idx, "tcp", b)
					if out == nil {
						return
					}
					w := make([]byte, 2+len(out))
					binary.BigEndian.PutUint16(w, uint16(len(out)))
					copy(w[2:], out)
					if _, err := c.Write(w); err != nil {
						return
					}
				}
			}()
		}
	}()
}

func c07StartFarm(n int) (*c07Farm, error) {
	f := &c07Farm{}
	for i := 0; i < n; i++ {
		host, netw, tnetw := "127.0.0.1", "udp4", "tcp4"
		if i%3 == 2 {
			host, netw, tnetw = "::1", "udp6", "tcp6"
		}
		var s *c07Slot
		for try := 0; try < 50 && s == nil; try++ {
			pc, err := net.ListenPacket(netw, net.JoinHostPort(host, "0"))
			if err != nil {
				if host == "::1" { // no IPv6 loopback: fall back to v4
					host, netw, tnetw = "127.0.0.1", "udp4", "tcp4"
					continue
				}
				f.stop()
				return nil, err
			}
			port := pc.LocalAddr().(*net.UDPAddr).Port
			ln, err := net.Listen(tnetw, net.JoinHostPort(host, strconv.Itoa(port)))
			if err != nil {
				_ = pc.Close()
				continue // TCP port taken: try another one
			}
			s = &c07Slot{idx: i, host: host, port: port, pc: pc, ln: ln}
		}
		if s == nil {
			f.stop()
			return nil, fmt.Errorf("could not get a UDP+TCP port pair")
		}
		f.slots = append(f.slots, s)
		f.serve(s)
	}
	return f, nil
}

func (f *c07Farm) stop() {
	for _, s := range f.slots {
		_ = s.pc.Close()
		_ = s.ln.Close()
	}
	f.wg.Wait()
}

func (f *c07Farm) take() []c07Seen {
	f.mu.Lock()
	defer f.mu.Unlock()
	out := f.seen
	f.seen = nil
	return out
}

// ---------------------------------------------------------------- internal selectors

type c07Meta struct {
	SubTag, Name, Link string
}

var c07SubTags = []string{"my_sub", "other", "sub2"}
var c07NodeNames = []string{"hk-01", "hk-02", "us-1", "manual-node", "jp"}
var c07Links = []string{"trojan://hk.example:443", "ss://us.example:8388", "https://special-provider.example/sub", "vmess://jp.example:443"}

func c07RxMatch(pat, s string) bool { return regexp.MustCompile(pat).MatchString(s) }

func c07RefInternalParam(fn string, p c07Param, m c07Meta) bool {
	switch fn {
	case "sub":
		switch p.Key {
		case "", "tag":
			return m.SubTag == p.Val
		case "tag_regex", "regex":
			return c07RxMatch(p.Val, m.SubTag)
		case "link_keyword":
			return strings.Contains(m.Link, p.Val)
		case "link_regex":
			return c07RxMatch(p.Val, m.Link)
		}
	case "node", "subnode":
		switch p.Key {
		case "":
			if fn == "subnode" {
				return m.SubTag == p.Val
			}
			return m.Name == p.Val
		case "name":
			return m.Name == p.Val
		case "subtag":
			return m.SubTag == p.Val
		case "subtag_regex", "regex":
			return c07RxMatch(p.Val, m.SubTag)
		case "name_keyword":
			return strings.Contains(m.Name, p.Val)
		case "name_regex":
			return c07RxMatch(p.Val, m.Name)
		case "link_keyword":
			return strings.Contains(m.Link, p.Val)
		case "link_regex":
			return c07RxMatch(p.Val, m.Link)
		}
	}
	panic("c07RefInternalParam: " + fn + "/" + p.Key)
}

// first matching rule of the given selector kind.
func c07RefInternal(rules []c07Rule, fn string, m c07Meta) (string, bool) {
	if fn == "subnode" && m.SubTag == "" {
		return "", false // subnode(): subscription-derived nodes only
	}
next:
	for _, r := range rules {
		if len(r.Atoms) == 0 || r.Atoms[0].Fn != fn {
			continue
		}
		for _, a := range r.Atoms {
			hit := false
			for _, p := range a.Params {
				if c07RefInternalParam(fn, p, m) {
					hit = true
					break
				}
			}
			if hit == a.Not {
				continue next
			}
		}
		return r.Out, true
	}
	return "", false
}

func c07RefNode(rules []c07Rule, m c07Meta) (string, bool) {
	if out, ok := c07RefInternal(rules, "subnode", m); ok {
		return out, true
	}
	return c07RefInternal(rules, "node", m)
}

func c07InternalKeys(fn string) []string {
	switch fn {
	case "sub":
		return []string{"", "tag", "tag_regex", "regex", "link_keyword", "link_regex"}
	case "node":
		return []string{"", "name", "name_keyword", "name_regex", "link_keyword", "link_regex"}
	default:
		return []string{"", "subtag", "subtag_regex", "regex", "name", "name_keyword", "name_regex", "link_keyword", "link_regex"}
	}
}

func c07GenInternalVal(t *rapid.T, fn, key string) string {
	switch {
	case strings.HasSuffix(key, "regex"):
		return rapid.SampledFrom([]string{"^hk-", "^my_", "sub[0-9]$", `\.example`, "^us-1$", "provider", "^$", "o"}).Draw(t, "irx")
	case key == "link_keyword":
		return rapid.SampledFrom([]string{"special-provider", "hk.example", "://", "8388", "nosuch"}).Draw(t, "ilk")
	case key == "name_keyword":
		return rapid.SampledFrom([]string{"hk", "-0", "node", "zz"}).Draw(t, "ink")
	case key == "name" || (key == "" && fn == "node"):
		return rapid.SampledFrom(c07NodeNames).Draw(t, "iname")
	default:
		return rapid.SampledFrom(c07SubTags).Draw(t, "itag")
	}
}

// One selector call. Values inside one call are alternatives (whatever their key);
// '!' negates the whole call. A third of the calls use 2-3 DIFFERENT keys with 1-3
// values each, half of those negated.
func c07GenInternalAtom(t *rapid.T, fn string) c07Atom {
	keys := c07InternalKeys(fn)
	if rapid.IntRange(0, 2).Draw(t, "imixed") == 0 {
		a := c07Atom{Fn: fn, Not: rapid.Bool().Draw(t, "imnot")}
		nk := rapid.IntRange(2, 3).Draw(t, "inkeys")
		perm := rapid.Permutation(keys).Draw(t, "ikeyperm")
		var ps []c07Param
		for _, key := range perm[:nk] {
			nv := rapid.IntRange(1, 3).Draw(t, "invals")
			for j := 0; j < nv; j++ {
				ps = append(ps, c07Param{key, c07GenInternalVal(t, fn, key)})
			}
		}
		// the values of different keys may be interleaved in the call
		a.Params = rapid.Permutation(ps).Draw(t, "iparamorder")
		return a
	}
	a := c07Atom{Fn: fn, Not: rapid.IntRange(0, 4).Draw(t, "inot") == 0}
	n := rapid.IntRange(1, 2).Draw(t, "inparam")
	for i := 0; i < n; i++ {
		key := rapid.SampledFrom(keys).Draw(t, "ikey")
		a.Params = append(a.Params, c07Param{key, c07GenInternalVal(t, fn, key)})
	}
	return a
}

// c07PartialNegHit reports whether some negated selector call of kind fn has, for this
// input, at least one key group that hits and at least one that does not (the inputs
// on which "!(A || B)" and "!A || !B" differ).
func c07PartialNegHit(rules []c07Rule, fn string, m c07Meta) bool {
	for _, r := range rules {
		if len(r.Atoms) == 0 || r.Atoms[0].Fn != fn {
			continue
		}
		for _, a := range r.Atoms {
			if !a.Not {
				continue
			}
			hit := map[string]bool{}
			for _, p := range a.Params {
				hit[p.Key] = hit[p.Key] || c07RefInternalParam(fn, p, m)
			}
			some, all := false, true
			for _, h := range hit {
				some = some || h
				all = all && h
			}
			if len(hit) >= 2 && some && !all {
				return true
			}
		}
	}
	return false
}

// ---------------------------------------------------------------- the check

type c07Net struct {
	Name     string
	Network  string
	Required []uint16
}

func c07Networks() []c07Net {
	a, aaaa := uint16(dnsmessage.TypeA), uint16(dnsmessage.TypeAAAA)
	both := []uint16{a, aaaa}
	mark := common.InternalSoMarkFromDae
	return []c07Net{
		{"tcp", "tcp", both}, {"udp", "udp", both}, {"ip", "ip", both}, {"empty", "", both},
		{"tcp4", "tcp4", []uint16{a}}, {"udp4", "udp4", []uint16{a}},
		{"tcp6", "tcp6", []uint16{aaaa}}, {"udp6", "udp6", []uint16{aaaa}},
		// "ip4"/"ip6": the named family is required, the other one is tolerated
		{"ip4", "ip4", []uint16{a}}, {"ip6", "ip6", []uint16{aaaa}},
		{"magic-udp", common.MagicNetwork("udp", mark, false), both},
		{"magic-tcp4", common.MagicNetworkWithIPVersion("tcp", mark, false, "4"), []uint16{a}},
		{"magic-udp6", common.MagicNetworkWithIPVersion("udp", mark, false, "6"), []uint16{aaaa}},
		{"magic-tcp-nomark6", common.MagicNetworkWithIPVersion("tcp", 0, false, "6"), []uint16{aaaa}},
	}
}

func c07Inconclusive(err error) bool {
	if err == nil {
		return false
	}
	if errors.Is(err, context.DeadlineExceeded) || errors.Is(err, context.Canceled) || errors.Is(err, os.ErrDeadlineExceeded) {
		return true
	}
	var ne net.Error
	if errors.As(err, &ne) && ne.Timeout() {
		return true
	}
	s := err.Error()
	return strings.Contains(s, "timeout") || strings.Contains(s, "deadline") || strings.Contains(s, "use of closed")
}

type c07StubDialer struct {
	mu    sync.Mutex
	calls int
}

func (d *c07StubDialer) DialContext(context.Context, string, string) (netproxy.Conn, error) {
	return nil, fmt.Errorf("c07: unexpected dial")
}

var c07BaseAnswer = net.IPAddr{IP: net.IPv4(192, 0, 2, 99)}

func (d *c07StubDialer) LookupIPAddr(context.Context, string, string) ([]net.IPAddr, error) {
	d.mu.Lock()
	d.calls++
	d.mu.Unlock()
	return []net.IPAddr{c07BaseAnswer}, nil
}

func c07SoMarkPermitted() error {
	fd, err := syscall.Socket(syscall.AF_INET, syscall.SOCK_DGRAM, 0)
	if err != nil {
		return err
	}
	defer func() { _ = syscall.Close(fd) }()
	return syscall.SetsockoptInt(fd, syscall.SOL_SOCKET, syscall.SO_MARK, int(common.InternalSoMarkFromDae))
}

func c07RouterLog() *logrus.Logger {
	l := logrus.New()
	l.SetOutput(io.Discard)
	l.SetLevel(logrus.ErrorLevel)
	return l
}

func c07AddrSet(ips []net.IPAddr) map[netip.Addr]int {
	m := map[netip.Addr]int{}
	for _, ip := range ips {
		a, ok := netip.AddrFromSlice(ip.IP)
		if ok {
			m[a.Unmap()]++
		}
	}
	return m
}

// one generated upstream: a tag on a server slot, reached in a particular way.
type c07Up struct {
	Tag  string
	Slot int
	Kind string // udp | tcp | tcp+udp | h:/a | h:/b
}

func (u c07Up) admits(proto string) bool {
	if u.Kind == "tcp+udp" {
		return proto == "udp" || proto == "tcp"
	}
	return u.Kind == proto
}

func (u c07Up) protos() []string {
	if u.Kind == "tcp+udp" {
		return []string{"udp", "tcp"}
	}
	return []string{u.Kind}
}

type c07Lookup struct {
	What   string
	Net    c07Net
	Host   string
	Forced string // selector-chosen / named upstream ("" = request rules decide)
	IPs    []net.IPAddr
	Err    error
	Base   int
	Took   time.Duration
}

func TestC07_Router(t *testing.T) {
	const unit = "C07.router"
	if err := c07SoMarkPermitted(); err != nil {
		t.Skipf("SO_MARK not permitted (the Router marks its sockets): %v", err)
	}
	const nSlots = 4
	farm, err := c07StartFarm(nSlots)
	if err != nil {
		t.Skipf("cannot start loopback DNS servers: %v", err)
	}
	defer func() { farm.stop() }()
	// DoH upstreams go through the package's own seam (no TLS offline): the fake
	// records the question under the slot of the target port and the URL path.
	origSend := sendHTTPDNSFunc
	defer func() { sendHTTPDNSFunc = origSend }()
	sendHTTPDNSFunc = func(ctx context.Context, _ *http.Client, target string, upstream *componentdns.Upstream, data []byte) (*dnsmessage.Msg, error) {
		ap, err := netip.ParseAddrPort(target)
		if err != nil {
			return nil, err
		}
		for _, s := range farm.slots {
			if s.port == int(ap.Port()) {
				out := farm.reply(s.idx, "h:"+upstream.Path, data)
				if out == nil {
					return nil, fmt.Errorf("c07 DoH fake: bad query")
				}
				var m dnsmessage.Msg
				if err := m.Unpack(out); err != nil {
					return nil, err
				}
				return &m, nil
			}
		}
		return nil, fmt.Errorf("c07 DoH fake: no server on %s", target)
	}
	nets := c07Networks()
	var totalLookups, totalInconclusive int

	rapid.Check(t, func(t *rapid.T) {
		// ---- upstreams: several may share one host:port and differ in scheme / path
		nUp := rapid.IntRange(1, 6).Draw(t, "nup")
		p := &c07Program{}
		ups := map[string]c07Up{}
		used := map[string]bool{} // slot/proto already taken
		share := rapid.IntRange(0, 2).Draw(t, "share") > 0
		for i := 0; i < nUp; i++ {
			var u c07Up
			for try := 0; try < 20; try++ {
				slot := rapid.IntRange(0, nSlots-1).Draw(t, "slot")
				if share && i > 0 && rapid.IntRange(0, 2).Draw(t, "sameslot") > 0 {
					slot = ups[c07Tags[rapid.IntRange(0, i-1).Draw(t, "shareWith")]].Slot
				}
				kind := rapid.SampledFrom([]string{"udp", "udp", "tcp", "tcp", "tcp+udp", "h:/a", "h:/b"}).Draw(t, "kind")
				cand := c07Up{Tag: c07Tags[i], Slot: slot, Kind: kind}
				free := true
				for _, pr := range cand.protos() {
					free = free && !used[strconv.Itoa(slot)+"/"+pr]
				}
				if free {
					u = cand
					break
				}
			}
			if u.Tag == "" {
				break
			}
			for _, pr := range u.protos() {
				used[strconv.Itoa(u.Slot)+"/"+pr] = true
			}
			s := farm.slots[u.Slot]
			hp := net.JoinHostPort(s.host, strconv.Itoa(s.port))
			url := u.Kind + "://" + hp
			switch {
			case strings.HasPrefix(u.Kind, "h:"):
				url = "https://" + hp + strings.TrimPrefix(u.Kind, "h:")
			case u.Kind == "tcp+udp" && rapid.Bool().Draw(t, "alias"):
				url = "udp+tcp://" + hp
			}
			ups[u.Tag] = u
			p.Upstreams = append(p.Upstreams, c07Upstream{Tag: u.Tag, URL: url, Host: s.host})
		}
		nUp = len(p.Upstreams)
		sharedEndpoint := false
		for _, a := range ups {
			for _, b := range ups {
				sharedEndpoint = sharedEndpoint || (a.Tag != b.Tag && a.Slot == b.Slot)
			}
		}
		o := &c07GenOpts{Names: nil, AvoidNegMerge: c07KnownNegMerge(), AvoidV6Zero: true, MaxRules: 6,
			Excluded: func(id string) {
				if id == "F-C07-1" {
					vkExcluded(unit, id)
				}
			}}
		nn := rapid.IntRange(2, 4).Draw(t, "nnames")
		for i := 0; i < nn; i++ {
			o.Names = append(o.Names, c07GenName(t, "seedname"))
		}
		c07GenRouting(t, p, o)
		p.Resp, p.RespFallback = nil, "accept" // the Router has no response routing
		// qtype-discriminating rules are the point of this unit: make them frequent
		if rapid.IntRange(0, 2).Draw(t, "qtyperule") > 0 {
			qt := rapid.SampledFrom([]string{"aaaa", "a", "AAAA", "28", "1"}).Draw(t, "qtv")
			outs := []string{"reject", "asis"}
			for _, u := range p.Upstreams {
				outs = append(outs, u.Tag, u.Tag)
			}
			r := c07Rule{Atoms: []c07Atom{{Fn: "qtype", Not: rapid.IntRange(0, 5).Draw(t, "qtnot") == 0, Params: []c07Param{{"", qt}}}}, Out: rapid.SampledFrom(outs).Draw(t, "qtout")}
			i := rapid.IntRange(0, len(p.Req)).Draw(t, "qtpos")
			p.Req = append(p.Req[:i:i], append([]c07Rule{r}, p.Req[i:]...)...)
		}
		// internal selector rules
		ni := rapid.IntRange(0, 5).Draw(t, "ninternal")
		for k := 0; k < ni; k++ {
			fn := rapid.SampledFrom([]string{"sub", "node", "subnode"}).Draw(t, "ifn")
			r := c07Rule{Out: rapid.SampledFrom(p.Upstreams).Draw(t, "iout").Tag}
			if prev := len(p.Req) - 1; prev >= 0 && k > 0 && rapid.IntRange(0, 3).Draw(t, "isibling") == 0 && c07Internal(p.Req[prev]) && len(p.Req[prev].Atoms) == 1 {
				// sibling of the previous internal rule (merger bait), appended next to it
				a := c07GenInternalAtom(t, p.Req[prev].Atoms[0].Fn)
				a.Not = p.Req[prev].Atoms[0].Not
				p.Req = append(p.Req, c07Rule{Atoms: []c07Atom{a}, Out: p.Req[prev].Out})
				continue
			}
			na := rapid.SampledFrom([]int{1, 1, 2}).Draw(t, "inatoms")
			for j := 0; j < na; j++ {
				r.Atoms = append(r.Atoms, c07GenInternalAtom(t, fn))
			}
			i := rapid.IntRange(0, len(p.Req)).Draw(t, "ipos")
			p.Req = append(p.Req[:i:i], append([]c07Rule{r}, p.Req[i:]...)...)
		}
		if c07KnownNegMerge() {
			for i := 1; i < len(p.Req); i++ {
				a, b := p.Req[i-1], p.Req[i]
				if len(a.Atoms) == 1 && len(b.Atoms) == 1 && a.Atoms[0].Fn == b.Atoms[0].Fn && a.Atoms[0].Not && b.Atoms[0].Not && a.Out == b.Out {
					p.Req[i].Atoms[0].Not = false
					vkExcluded(unit, "F-C07-1")
				}
			}
		}
		if len(p.Req) == 0 {
			// nothing but a fallback: daedns.New returns no router by design
			r, err := New(c07RouterLog(), &config.Global{}, p.Config())
			if err != nil || r != nil {
				t.Fatalf("New with no request rules: router=%v err=%v", r, err)
			}
			vkCase(unit, "", nil, "no_rules_no_router")
			return
		}

		router, err := New(c07RouterLog(), &config.Global{}, p.Config())
		if err != nil || router == nil {
			t.Fatalf("daedns.New failed on a valid program: router=%v err=%v\n%s", router, err, p)
		}
		classes := map[string]bool{}
		var ntKey strings.Builder
		restart := false
		farm.take()
		// questions that already reached a server (same port, same transport) through
		// this router: the Router de-duplicates identical in-flight lookups and may hand
		// a just-finished result to the next identical lookup without asking again.
		earlier := map[string]bool{}
		ekey := func(slot int, proto, name string, qt uint16) string {
			return fmt.Sprintf("%d|%s|%s|%d", slot, proto, strings.ToLower(dnsmessage.Fqdn(name)), qt)
		}
		route := func(l *c07Lookup, qt uint16) string {
			if l.Forced != "" {
				return l.Forced
			}
			out, _ := c07RefRequest(p, l.Host, qt)
			return out
		}

		// judge a group of lookups that ran together (a group of one = sequential).
		judge := func(group []*c07Lookup) {
			seen := farm.take()
			totalLookups += len(group)
			what := group[0].What
			if len(group) > 1 {
				ws := make([]string, len(group))
				for i, l := range group {
					ws[i] = l.What
				}
				what = "concurrently{" + strings.Join(ws, " | ") + "}"
			}
			// soundness: every arrival is explained by a lookup of the group whose
			// rule names an upstream on that port reached over that transport
			for _, s := range seen {
				if s.QType != dnsmessage.TypeA && s.QType != dnsmessage.TypeAAAA {
					t.Fatalf("%s: server %d received qtype %d", what, s.Slot, s.QType)
				}
				okName, explained := false, false
				var named []string
				for _, l := range group {
					if !strings.EqualFold(s.Name, dnsmessage.Fqdn(l.Host)) {
						continue
					}
					okName = true
					out := route(l, s.QType)
					named = append(named, out)
					if u, isUp := ups[out]; isUp && u.Slot == s.Slot && u.admits(s.Proto) {
						explained = true
					}
				}
				if !okName {
					t.Fatalf("%s: server %d received a question for %q that nobody looked up\n%s", what, s.Slot, s.Name, p)
				}
				if !explained {
					t.Fatalf("%s: question (%s, qtype %d) arrived at server %d over %s; the first matching request rule / selector names %q (upstreams: %+v)\n%s", what, s.Name, s.QType, s.Slot, s.Proto, named, ups, p)
				}
				classes["question_qtype_"+strconv.Itoa(int(s.QType))] = true
				classes["proto_"+s.Proto] = true
			}
			inconclusive := false
			for _, l := range group {
				if c07Inconclusive(l.Err) || l.Took > 4*time.Second {
					inconclusive = true
				}
			}
			for _, s := range seen {
				earlier[ekey(s.Slot, s.Proto, s.Name, s.QType)] = true
			}
			if inconclusive {
				totalInconclusive += len(group)
				restart = true
				classes["inconclusive_timeout"] = true
				return
			}
			for _, l := range group {
				got := c07AddrSet(l.IPs)
				allowed := map[netip.Addr]bool{}
				wantAddrs := 0
				anyUpstream := false
				for _, qt := range []uint16{dnsmessage.TypeA, dnsmessage.TypeAAAA} {
					out := route(l, qt)
					required := false
					for _, r := range l.Net.Required {
						required = required || r == qt
					}
					u, isUp := ups[out]
					if !isUp {
						if required {
							classes["required_question_"+out] = true
						}
						continue
					}
					for _, pr := range u.protos() {
						for _, a := range c07SlotAnswers(u.Slot, pr, l.Host, qt) {
							allowed[a] = true
						}
					}
					if !required {
						continue
					}
					anyUpstream = true
					// completeness: it arrived at that upstream (port AND transport) —
					// now, or earlier in this case (sharing between lookups the rules
					// send to the same upstream is fine)
					arrived, viaProto := false, ""
					for _, pr := range u.protos() {
						if earlier[ekey(u.Slot, pr, l.Host, qt)] {
							arrived, viaProto = true, pr
							break
						}
					}
					if !arrived {
						t.Fatalf("%s: question (%s, qtype %d) of %s is routed to %q (%+v) but never arrived there (arrived now: %+v, err=%v)\n%s", what, l.Host, qt, l.What, out, u, seen, l.Err, p)
					}
					// its answer (which names port and transport) is in the result
					okAns := false
					var wantSet []netip.Addr
					for _, pr := range u.protos() {
						if !earlier[ekey(u.Slot, pr, l.Host, qt)] {
							continue
						}
						ans := c07SlotAnswers(u.Slot, pr, l.Host, qt)
						wantSet = ans
						all := true
						for _, a := range ans {
							all = all && got[a] > 0
						}
						if all {
							okAns = true
							wantAddrs += len(ans)
							break
						}
					}
					if !okAns {
						t.Fatalf("%s: the answer %v of %q (%+v, asked over %s) for (%s, qtype %d) is missing from the result %v of %s (err=%v)\n%s", what, wantSet, out, u, viaProto, l.Host, qt, l.IPs, l.What, l.Err, p)
					}
				}
				for a := range got {
					if a == netip.MustParseAddr("192.0.2.99") && l.Base > 0 {
						continue // the base resolver's marker (pass-through), not an upstream answer
					}
					if !allowed[a] {
						t.Fatalf("%s: the result of %s contains %v, which the upstream the rules name for it would not answer (result %v, arrived %+v, upstreams %+v)\n%s", what, l.What, a, l.IPs, seen, ups, p)
					}
				}
				if wantAddrs > 0 && l.Err != nil {
					t.Fatalf("%s: %s failed (%v) although the rules send a required question to an upstream that answers with addresses\n%s", what, l.What, l.Err, p)
				}
				if !anyUpstream {
					classes["all_required_passthrough"] = true
				}
				if l.Forced == "" {
					ra, ia := c07RefRequest(p, l.Host, dnsmessage.TypeA)
					rb, ib := c07RefRequest(p, l.Host, dnsmessage.TypeAAAA)
					if ra != rb {
						classes["a_and_aaaa_routed_differently"] = true
					}
					if ia >= 0 || ib >= 0 {
						fmt.Fprintf(&ntKey, "%s/%s>%d,%d;", l.Net.Name, strings.ToLower(l.Host), ia, ib)
					}
				} else {
					fmt.Fprintf(&ntKey, "%s/%s>sel:%s;", l.Net.Name, strings.ToLower(l.Host), l.Forced)
				}
				classes["net_"+l.Net.Name] = true
			}
		}

		ctx, cancel := context.WithTimeout(context.Background(), 60*time.Second)
		defer cancel()
		reqPats := c07QNamePatterns(p.Req)
		genHost := func() string {
			var base string
			switch k := rapid.IntRange(0, 9).Draw(t, "hsrc"); {
			case k < 4 && len(reqPats) > 0:
				base = c07Neighbour(t, rapid.SampledFrom(reqPats).Draw(t, "hpat"))
			case k < 8:
				base = rapid.SampledFrom(o.Names).Draw(t, "hname")
			default:
				base = c07GenName(t, "hrand")
			}
			if !c07ValidName(base) || net.ParseIP(base) != nil {
				base = "a.com"
			}
			h := c07Mangle(t, base)
			if rapid.IntRange(0, 3).Draw(t, "hdot") == 0 {
				h += "."
			}
			return h
		}

		// ---- (1) plain lookups through the request rules
		nl := rapid.IntRange(2, 5).Draw(t, "nlookups")
		for k := 0; k < nl; k++ {
			l := &c07Lookup{Net: rapid.SampledFrom(nets).Draw(t, "net"), Host: genHost()}
			l.What = fmt.Sprintf("LookupIPAddr(%q, %q)", l.Net.Name, l.Host)
			st := time.Now()
			l.IPs, l.Err = router.LookupIPAddr(ctx, "", l.Net.Network, l.Host)
			l.Took = time.Since(st)
			judge([]*c07Lookup{l})
		}

		// ---- (2) selectors
		nm := rapid.IntRange(1, 3).Draw(t, "nmetas")
		for k := 0; k < nm; k++ {
			m := c07Meta{Name: rapid.SampledFrom(c07NodeNames).Draw(t, "mname"), Link: rapid.SampledFrom(c07Links).Draw(t, "mlink")}
			if rapid.Bool().Draw(t, "msub") {
				m.SubTag = rapid.SampledFrom(c07SubTags).Draw(t, "mtag")
			}
			wantN, okN := c07RefNode(p.Req, m)
			gotN, gokN := router.MatchNodeUpstream(NodeMeta{SubscriptionTag: m.SubTag, Name: m.Name, Link: m.Link})
			if okN != gokN || wantN != gotN {
				t.Fatalf("MatchNodeUpstream(%+v) = (%q,%v), first matching subnode/node rule says (%q,%v)\n%s", m, gotN, gokN, wantN, okN, p)
			}
			sm := c07Meta{SubTag: rapid.SampledFrom(c07SubTags).Draw(t, "stag"), Link: rapid.SampledFrom(c07Links).Draw(t, "slink")}
			wantS, okS := c07RefInternal(p.Req, "sub", sm)
			gotS, gokS := router.MatchSubscriptionUpstream(sm.SubTag + ":" + sm.Link)
			if okS != gokS || wantS != gotS {
				t.Fatalf("MatchSubscriptionUpstream(%s:%s) = (%q,%v), first matching sub rule says (%q,%v)\n%s", sm.SubTag, sm.Link, gotS, gokS, wantS, okS, p)
			}
			if c07PartialNegHit(p.Req, "node", m) || (m.SubTag != "" && c07PartialNegHit(p.Req, "subnode", m)) || c07PartialNegHit(p.Req, "sub", sm) {
				classes["negated_mixed_key_selector_partially_hit"] = true
			}
			if okN {
				classes["node_selector_hit"] = true
			}
			if okS {
				classes["sub_selector_hit"] = true
			}
			// the wrapped node dialer: a selected upstream gets every question,
			// otherwise the request rules decide per question.
			base := &c07StubDialer{}
			wrapped, err := router.WrapNodeDialer(base, NodeMeta{SubscriptionTag: m.SubTag, Name: m.Name, Link: m.Link})
			if err != nil {
				t.Fatalf("WrapNodeDialer: %v", err)
			}
			res, ok := wrapped.(interface {
				LookupIPAddr(context.Context, string, string) ([]net.IPAddr, error)
			})
			if !ok {
				t.Fatalf("wrapped node dialer does not resolve through the router (%T)", wrapped)
			}
			l := &c07Lookup{Net: rapid.SampledFrom(nets).Draw(t, "wnet"), Host: genHost()}
			if okN {
				l.Forced = wantN
			}
			l.What = fmt.Sprintf("WrapNodeDialer(%+v).LookupIPAddr(%q, %q)", m, l.Net.Name, l.Host)
			st := time.Now()
			l.IPs, l.Err = res.LookupIPAddr(ctx, l.Net.Network, l.Host)
			l.Took = time.Since(st)
			l.Base = base.calls
			judge([]*c07Lookup{l})
		}

		// ---- (3) concurrent lookups: 2-4 goroutines released together, same and
		// different names, via the request rules or via a selector-chosen (named)
		// upstream — the way node()/sub() rules direct dae's own lookups. Servers
		// answer a little late so the lookups are in flight together.
		ng := rapid.IntRange(1, 2).Draw(t, "ngroups")
		for g := 0; g < ng; g++ {
			n := rapid.IntRange(2, 4).Draw(t, "gsize")
			hosts := []string{genHost()}
			if rapid.Bool().Draw(t, "twohosts") {
				hosts = append(hosts, genHost())
			}
			group := make([]*c07Lookup, n)
			forcedSet := map[string]bool{}
			for i := range group {
				l := &c07Lookup{Net: rapid.SampledFrom(nets).Draw(t, "gnet"), Host: rapid.SampledFrom(hosts).Draw(t, "ghost")}
				if rapid.IntRange(0, 3).Draw(t, "gforced") > 0 {
					l.Forced = rapid.SampledFrom(p.Upstreams).Draw(t, "gtag").Tag
					forcedSet[l.Forced+"|"+strings.ToLower(dnsmessage.Fqdn(l.Host))] = true
				}
				l.What = fmt.Sprintf("LookupIPAddr(upstream=%q, %q, %q)", l.Forced, l.Net.Name, l.Host)
				group[i] = l
			}
			// do two members ask the same name at different upstreams on one host:port?
			for i, a := range group {
				for _, b := range group[i+1:] {
					if a.Forced != "" && b.Forced != "" && a.Forced != b.Forced && strings.EqualFold(dnsmessage.Fqdn(a.Host), dnsmessage.Fqdn(b.Host)) && ups[a.Forced].Slot == ups[b.Forced].Slot {
						classes["concurrent_same_name_same_endpoint_other_transport"] = true
					}
				}
			}
			c07ReplyDelay.Store(int64(rapid.SampledFrom([]time.Duration{3 * time.Millisecond, 10 * time.Millisecond, 25 * time.Millisecond}).Draw(t, "delay")))
			gate := make(chan struct{})
			var wg sync.WaitGroup
			for _, l := range group {
				wg.Add(1)
				go func(l *c07Lookup) {
					defer wg.Done()
					<-gate
					st := time.Now()
					l.IPs, l.Err = router.LookupIPAddr(ctx, l.Forced, l.Net.Network, l.Host)
					l.Took = time.Since(st)
				}(l)
			}
			close(gate)
			wg.Wait()
			c07ReplyDelay.Store(0)
			classes["concurrent_group"] = true
			judge(group)
		}

		if restart {
			// a timed-out lookup may leave packets in flight: fresh servers for the next case
			old := farm
			nf, err := c07StartFarm(nSlots)
			if err == nil {
				farm = nf
				old.stop()
			}
		}
		key := ""
		if ntKey.Len() > 0 {
			key = p.String() + "#" + ntKey.String()
		}
		cl := []string{fmt.Sprintf("upstreams_%d", nUp)}
		if sharedEndpoint {
			cl = append(cl, "upstreams_share_host_port")
		}
		for c := range classes {
			cl = append(cl, c)
		}
		sort.Strings(cl)
		vkCase(unit, key, func() any { return map[string]any{"program": p.String(), "lookups": ntKey.String()} }, cl...)
	})
	vkNote(unit, "lookups=%d inconclusive(timeouts)=%d", totalLookups, totalInconclusive)
}

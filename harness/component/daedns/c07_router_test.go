package daedns

// C07 (c) — dae's own lookups: component/daedns.Router built offline from a generated
// dns config whose upstreams are loopback DNS servers (UDP+TCP on 127.0.0.1 / ::1)
// started by the test. For lookups of every network kind the servers record each
// question they receive; oracle (reference interpreter of c07_model_test.go):
//   * soundness: every question a server received (qname, qtype) is one the first
//     matching request rule / fallback routes to exactly that upstream — A and AAAA
//     judged separately, each with its own qtype;
//   * completeness: for every address family the network kind asks for, a question
//     routed to an upstream did arrive there and its answer is in the result;
//   * a question routed to reject (or asis) reaches no upstream and contributes no
//     upstream answer;
//   * sub()/node()/subnode() selectors: first matching rule (subnode before node,
//     subnode only for subscription-derived nodes); a selected upstream then gets
//     every question of the wrapped dialer's lookups.
// Only byte-level facts (what arrived where, what was returned). A lookup that ends
// in a timeout/cancellation is counted as inconclusive, never as a violation.

import (
	"context"
	"encoding/binary"
	"errors"
	"fmt"
	"io"
	"net"
	"net/netip"
	"os"
	"regexp"
	"sort"
	"strconv"
	"strings"
	"sync"
	"syscall"
	"testing"
	"time"

	"github.com/daeuniverse/dae/common"
	"github.com/daeuniverse/dae/config"
	"github.com/daeuniverse/outbound/netproxy"
	dnsmessage "github.com/miekg/dns"
	"github.com/sirupsen/logrus"
	"pgregory.net/rapid"
)

// ---------------------------------------------------------------- loopback servers

type c07Seen struct {
	Slot  int
	Proto string
	Name  string
	QType uint16
}

type c07Slot struct {
	idx  int
	host string // 127.0.0.1 or ::1
	port int
	pc   net.PacketConn
	ln   net.Listener
}

type c07Farm struct {
	mu    sync.Mutex
	seen  []c07Seen
	slots []*c07Slot
	wg    sync.WaitGroup
}

// answers of slot s for (name, qtype): 0..2 records, recognisable by slot and family.
func c07SlotAnswers(slot int, name string, qt uint16) []netip.Addr {
	n := (len(c07NormName(name)) + slot) % 3
	var out []netip.Addr
	for k := 1; k <= n; k++ {
		switch qt {
		case dnsmessage.TypeA:
			out = append(out, netip.AddrFrom4([4]byte{10, byte(slot + 1), 0, byte(k)}))
		case dnsmessage.TypeAAAA:
			out = append(out, netip.MustParseAddr(fmt.Sprintf("fd00:%x::%x", slot+1, k)))
		}
	}
	return out
}

func (f *c07Farm) reply(slot int, proto string, wire []byte) []byte {
	var req dnsmessage.Msg
	if err := req.Unpack(wire); err != nil || len(req.Question) == 0 {
		return nil
	}
	q := req.Question[0]
	f.mu.Lock()
	f.seen = append(f.seen, c07Seen{slot, proto, q.Name, q.Qtype})
	f.mu.Unlock()
	resp := dnsmessage.Msg{MsgHdr: dnsmessage.MsgHdr{Id: req.Id, Response: true, RecursionAvailable: true}, Question: req.Question}
	for _, a := range c07SlotAnswers(slot, q.Name, q.Qtype) {
		h := dnsmessage.RR_Header{Name: q.Name, Rrtype: q.Qtype, Class: dnsmessage.ClassINET, Ttl: 60}
		if a.Is4() {
			resp.Answer = append(resp.Answer, &dnsmessage.A{Hdr: h, A: net.IP(a.AsSlice())})
		} else {
			resp.Answer = append(resp.Answer, &dnsmessage.AAAA{Hdr: h, AAAA: net.IP(a.AsSlice())})
		}
	}
	// a decoy of the other family must never leak into the result
	if q.Qtype == dnsmessage.TypeA {
		resp.Answer = append(resp.Answer, &dnsmessage.CNAME{Hdr: dnsmessage.RR_Header{Name: q.Name, Rrtype: dnsmessage.TypeCNAME, Class: dnsmessage.ClassINET, Ttl: 60}, Target: "decoy.example."})
	}
	out, err := resp.Pack()
	if err != nil {
		return nil
	}
	return out
}

func (f *c07Farm) serve(s *c07Slot) {
	f.wg.Add(2)
	go func() {
		defer f.wg.Done()
		buf := make([]byte, 4096)
		for {
			n, from, err := s.pc.ReadFrom(buf)
			if err != nil {
				return
			}
			if out := f.reply(s.idx, "udp", buf[:n]); out != nil {
				_, _ = s.pc.WriteTo(out, from)
			}
		}
	}()
	go func() {
		defer f.wg.Done()
		for {
			c, err := s.ln.Accept()
			if err != nil {
				return
			}
			f.wg.Add(1)
			go func() {
				defer f.wg.Done()
				defer c.Close()
				_ = c.SetDeadline(time.Now().Add(30 * time.Second))
				for {
					var l [2]byte
					if _, err := io.ReadFull(c, l[:]); err != nil {
						return
					}
					b := make([]byte, binary.BigEndian.Uint16(l[:]))
					if _, err := io.ReadFull(c, b); err != nil {
						return
					}
					out := f.reply(s.idx, "tcp", b)
					if out == nil {
						return
					}
					w := make([]byte, 2+len(out))
					binary.BigEndian.PutUint16(w, uint16(len(out)))
					copy(w[2:], out)
					if _, err := c.Write(w); err != nil {
						return
					}
				}
			}()
		}
	}()
}

func c07StartFarm(n int) (*c07Farm, error) {
	f := &c07Farm{}
	for i := 0; i < n; i++ {
		host, netw, tnetw := "127.0.0.1", "udp4", "tcp4"
		if i%3 == 2 {
			host, netw, tnetw = "::1", "udp6", "tcp6"
		}
		var s *c07Slot
		for try := 0; try < 50 && s == nil; try++ {
			pc, err := net.ListenPacket(netw, net.JoinHostPort(host, "0"))
			if err != nil {
				if host == "::1" { // no IPv6 loopback: fall back to v4
					host, netw, tnetw = "127.0.0.1", "udp4", "tcp4"
					continue
				}
				f.stop()
				return nil, err
			}
			port := pc.LocalAddr().(*net.UDPAddr).Port
			ln, err := net.Listen(tnetw, net.JoinHostPort(host, strconv.Itoa(port)))
			if err != nil {
				_ = pc.Close()
				continue // TCP port taken: try another one
			}
			s = &c07Slot{idx: i, host: host, port: port, pc: pc, ln: ln}
		}
		if s == nil {
			f.stop()
			return nil, fmt.Errorf("could not get a UDP+TCP port pair")
		}
		f.slots = append(f.slots, s)
		f.serve(s)
	}
	return f, nil
}

func (f *c07Farm) stop() {
	for _, s := range f.slots {
		_ = s.pc.Close()
		_ = s.ln.Close()
	}
	f.wg.Wait()
}

func (f *c07Farm) take() []c07Seen {
	f.mu.Lock()
	defer f.mu.Unlock()
	out := f.seen
	f.seen = nil
	return out
}

// ---------------------------------------------------------------- internal selectors

type c07Meta struct {
	SubTag, Name, Link string
}

var c07SubTags = []string{"my_sub", "other", "sub2"}
var c07NodeNames = []string{"hk-01", "hk-02", "us-1", "manual-node", "jp"}
var c07Links = []string{"trojan://hk.example:443", "ss://us.example:8388", "https://special-provider.example/sub", "vmess://jp.example:443"}

func c07RxMatch(pat, s string) bool { return regexp.MustCompile(pat).MatchString(s) }

func c07RefInternalParam(fn string, p c07Param, m c07Meta) bool {
	switch fn {
	case "sub":
		switch p.Key {
		case "", "tag":
			return m.SubTag == p.Val
		case "tag_regex", "regex":
			return c07RxMatch(p.Val, m.SubTag)
		case "link_keyword":
			return strings.Contains(m.Link, p.Val)
		case "link_regex":
			return c07RxMatch(p.Val, m.Link)
		}
	case "node", "subnode":
		switch p.Key {
		case "":
			if fn == "subnode" {
				return m.SubTag == p.Val
			}
			return m.Name == p.Val
		case "name":
			return m.Name == p.Val
		case "subtag":
			return m.SubTag == p.Val
		case "subtag_regex", "regex":
			return c07RxMatch(p.Val, m.SubTag)
		case "name_keyword":
			return strings.Contains(m.Name, p.Val)
		case "name_regex":
			return c07RxMatch(p.Val, m.Name)
		case "link_keyword":
			return strings.Contains(m.Link, p.Val)
		case "link_regex":
			return c07RxMatch(p.Val, m.Link)
		}
	}
	panic("c07RefInternalParam: " + fn + "/" + p.Key)
}

// first matching rule of the given selector kind.
func c07RefInternal(rules []c07Rule, fn string, m c07Meta) (string, bool) {
	if fn == "subnode" && m.SubTag == "" {
		return "", false // subnode(): subscription-derived nodes only
	}
next:
	for _, r := range rules {
		if len(r.Atoms) == 0 || r.Atoms[0].Fn != fn {
			continue
		}
		for _, a := range r.Atoms {
			hit := false
			for _, p := range a.Params {
				if c07RefInternalParam(fn, p, m) {
					hit = true
					break
				}
			}
			if hit == a.Not {
				continue next
			}
		}
		return r.Out, true
	}
	return "", false
}

func c07RefNode(rules []c07Rule, m c07Meta) (string, bool) {
	if out, ok := c07RefInternal(rules, "subnode", m); ok {
		return out, true
	}
	return c07RefInternal(rules, "node", m)
}

func c07GenInternalAtom(t *rapid.T, fn string) c07Atom {
	a := c07Atom{Fn: fn, Not: rapid.IntRange(0, 4).Draw(t, "inot") == 0}
	n := rapid.IntRange(1, 2).Draw(t, "inparam")
	for i := 0; i < n; i++ {
		var keys []string
		switch fn {
		case "sub":
			keys = []string{"", "tag", "tag_regex", "regex", "link_keyword", "link_regex"}
		case "node":
			keys = []string{"", "name", "name_keyword", "name_regex", "link_keyword", "link_regex"}
		default:
			keys = []string{"", "subtag", "subtag_regex", "regex", "name", "name_keyword", "name_regex", "link_keyword", "link_regex"}
		}
		key := rapid.SampledFrom(keys).Draw(t, "ikey")
		var val string
		switch {
		case strings.HasSuffix(key, "regex"):
			val = rapid.SampledFrom([]string{"^hk-", "^my_", "sub[0-9]$", `\.example`, "^us-1$", "provider", "^$", "o"}).Draw(t, "irx")
		case key == "link_keyword":
			val = rapid.SampledFrom([]string{"special-provider", "hk.example", "://", "8388", "nosuch"}).Draw(t, "ilk")
		case key == "name_keyword":
			val = rapid.SampledFrom([]string{"hk", "-0", "node", "zz"}).Draw(t, "ink")
		case key == "name" || (key == "" && fn == "node"):
			val = rapid.SampledFrom(c07NodeNames).Draw(t, "iname")
		default:
			val = rapid.SampledFrom(c07SubTags).Draw(t, "itag")
		}
		a.Params = append(a.Params, c07Param{key, val})
	}
	return a
}

// ---------------------------------------------------------------- the check

type c07Net struct {
	Name     string
	Network  string
	Required []uint16
}

func c07Networks() []c07Net {
	a, aaaa := uint16(dnsmessage.TypeA), uint16(dnsmessage.TypeAAAA)
	both := []uint16{a, aaaa}
	mark := common.InternalSoMarkFromDae
	return []c07Net{
		{"tcp", "tcp", both}, {"udp", "udp", both}, {"ip", "ip", both}, {"empty", "", both},
		{"tcp4", "tcp4", []uint16{a}}, {"udp4", "udp4", []uint16{a}},
		{"tcp6", "tcp6", []uint16{aaaa}}, {"udp6", "udp6", []uint16{aaaa}},
		// "ip4"/"ip6": the named family is required, the other one is tolerated
		{"ip4", "ip4", []uint16{a}}, {"ip6", "ip6", []uint16{aaaa}},
		{"magic-udp", common.MagicNetwork("udp", mark, false), both},
		{"magic-tcp4", common.MagicNetworkWithIPVersion("tcp", mark, false, "4"), []uint16{a}},
		{"magic-udp6", common.MagicNetworkWithIPVersion("udp", mark, false, "6"), []uint16{aaaa}},
		{"magic-tcp-nomark6", common.MagicNetworkWithIPVersion("tcp", 0, false, "6"), []uint16{aaaa}},
	}
}

func c07Inconclusive(err error) bool {
	if err == nil {
		return false
	}
	if errors.Is(err, context.DeadlineExceeded) || errors.Is(err, context.Canceled) || errors.Is(err, os.ErrDeadlineExceeded) {
		return true
	}
	var ne net.Error
	if errors.As(err, &ne) && ne.Timeout() {
		return true
	}
	s := err.Error()
	return strings.Contains(s, "timeout") || strings.Contains(s, "deadline") || strings.Contains(s, "use of closed")
}

type c07StubDialer struct {
	mu    sync.Mutex
	calls int
}

func (d *c07StubDialer) DialContext(context.Context, string, string) (netproxy.Conn, error) {
	return nil, fmt.Errorf("c07: unexpected dial")
}

var c07BaseAnswer = net.IPAddr{IP: net.IPv4(192, 0, 2, 99)}

func (d *c07StubDialer) LookupIPAddr(context.Context, string, string) ([]net.IPAddr, error) {
	d.mu.Lock()
	d.calls++
	d.mu.Unlock()
	return []net.IPAddr{c07BaseAnswer}, nil
}

func c07SoMarkPermitted() error {
	fd, err := syscall.Socket(syscall.AF_INET, syscall.SOCK_DGRAM, 0)
	if err != nil {
		return err
	}
	defer func() { _ = syscall.Close(fd) }()
	return syscall.SetsockoptInt(fd, syscall.SOL_SOCKET, syscall.SO_MARK, int(common.InternalSoMarkFromDae))
}

func c07RouterLog() *logrus.Logger {
	l := logrus.New()
	l.SetOutput(io.Discard)
	l.SetLevel(logrus.ErrorLevel)
	return l
}

func c07AddrSet(ips []net.IPAddr) map[netip.Addr]int {
	m := map[netip.Addr]int{}
	for _, ip := range ips {
		a, ok := netip.AddrFromSlice(ip.IP)
		if ok {
			m[a.Unmap()]++
		}
	}
	return m
}

func TestC07_Router(t *testing.T) {
	const unit = "C07.router"
	if err := c07SoMarkPermitted(); err != nil {
		t.Skipf("SO_MARK not permitted (the Router marks its sockets): %v", err)
	}
	const nSlots = 4
	farm, err := c07StartFarm(nSlots)
	if err != nil {
		t.Skipf("cannot start loopback DNS servers: %v", err)
	}
	defer func() { farm.stop() }()
	nets := c07Networks()
	var totalLookups, totalInconclusive int

	rapid.Check(t, func(t *rapid.T) {
		// ---- program over the loopback servers
		nUp := rapid.IntRange(1, nSlots).Draw(t, "nup")
		p := &c07Program{}
		slotOf := map[string]int{}
		for i := 0; i < nUp; i++ {
			s := farm.slots[i]
			sch := rapid.SampledFrom([]string{"udp", "udp", "tcp", "tcp+udp", "udp+tcp"}).Draw(t, "scheme")
			p.Upstreams = append(p.Upstreams, c07Upstream{Tag: c07Tags[i], URL: sch + "://" + net.JoinHostPort(s.host, strconv.Itoa(s.port)), Host: s.host})
			slotOf[c07Tags[i]] = i
		}
		o := &c07GenOpts{Names: nil, AvoidNegMerge: c07KnownNegMerge(), AvoidV6Zero: true, MaxRules: 6,
			Excluded: func(id string) {
				if id == "F-C07-1" {
					vkExcluded(unit, id)
				}
			}}
		nn := rapid.IntRange(2, 4).Draw(t, "nnames")
		for i := 0; i < nn; i++ {
			o.Names = append(o.Names, c07GenName(t, "seedname"))
		}
		c07GenRouting(t, p, o)
		p.Resp, p.RespFallback = nil, "accept" // the Router has no response routing
		// qtype-discriminating rules are the point of this unit: make them frequent
		if rapid.IntRange(0, 2).Draw(t, "qtyperule") > 0 {
			qt := rapid.SampledFrom([]string{"aaaa", "a", "AAAA", "28", "1"}).Draw(t, "qtv")
			outs := []string{"reject", "asis"}
			for _, u := range p.Upstreams {
				outs = append(outs, u.Tag, u.Tag)
			}
			r := c07Rule{Atoms: []c07Atom{{Fn: "qtype", Not: rapid.IntRange(0, 5).Draw(t, "qtnot") == 0, Params: []c07Param{{"", qt}}}}, Out: rapid.SampledFrom(outs).Draw(t, "qtout")}
			i := rapid.IntRange(0, len(p.Req)).Draw(t, "qtpos")
			p.Req = append(p.Req[:i:i], append([]c07Rule{r}, p.Req[i:]...)...)
		}
		// internal selector rules
		ni := rapid.IntRange(0, 4).Draw(t, "ninternal")
		for k := 0; k < ni; k++ {
			fn := rapid.SampledFrom([]string{"sub", "node", "subnode"}).Draw(t, "ifn")
			r := c07Rule{Out: rapid.SampledFrom(p.Upstreams).Draw(t, "iout").Tag}
			if prev := len(p.Req) - 1; prev >= 0 && k > 0 && rapid.IntRange(0, 3).Draw(t, "isibling") == 0 && c07Internal(p.Req[prev]) && len(p.Req[prev].Atoms) == 1 {
				// sibling of the previous internal rule (merger bait), appended next to it
				a := c07GenInternalAtom(t, p.Req[prev].Atoms[0].Fn)
				a.Not = p.Req[prev].Atoms[0].Not
				p.Req = append(p.Req, c07Rule{Atoms: []c07Atom{a}, Out: p.Req[prev].Out})
				continue
			}
			na := rapid.SampledFrom([]int{1, 1, 2}).Draw(t, "inatoms")
			for j := 0; j < na; j++ {
				r.Atoms = append(r.Atoms, c07GenInternalAtom(t, fn))
			}
			i := rapid.IntRange(0, len(p.Req)).Draw(t, "ipos")
			p.Req = append(p.Req[:i:i], append([]c07Rule{r}, p.Req[i:]...)...)
		}
		if c07KnownNegMerge() {
			for i := 1; i < len(p.Req); i++ {
				a, b := p.Req[i-1], p.Req[i]
				if len(a.Atoms) == 1 && len(b.Atoms) == 1 && a.Atoms[0].Fn == b.Atoms[0].Fn && a.Atoms[0].Not && b.Atoms[0].Not && a.Out == b.Out {
					p.Req[i].Atoms[0].Not = false
					vkExcluded(unit, "F-C07-1")
				}
			}
		}
		if len(p.Req) == 0 {
			// nothing but a fallback: daedns.New returns no router by design
			r, err := New(c07RouterLog(), &config.Global{}, p.Config())
			if err != nil || r != nil {
				t.Fatalf("New with no request rules: router=%v err=%v", r, err)
			}
			vkCase(unit, "", nil, "no_rules_no_router")
			return
		}

		router, err := New(c07RouterLog(), &config.Global{}, p.Config())
		if err != nil || router == nil {
			t.Fatalf("daedns.New failed on a valid program: router=%v err=%v\n%s", router, err, p)
		}
		classes := map[string]bool{}
		var ntKey strings.Builder
		restart := false
		farm.take()
		// questions that already reached a server through this router: the Router
		// de-duplicates identical in-flight lookups and may hand a just-finished
		// result to the next identical lookup without asking again.
		earlier := map[string]bool{}

		// judge one lookup. forced != "": a selector chose that upstream for all questions.
		var started time.Time
		judge := func(what string, nk c07Net, host string, forced string, ips []net.IPAddr, lerr error, baseCalls int) {
			slow := time.Since(started) > 4*time.Second // an internal per-question timeout may have fired: inconclusive
			seen := farm.take()
			totalLookups++
			fq := dnsmessage.Fqdn(host)
			route := func(qt uint16) string {
				if forced != "" {
					return forced
				}
				out, _ := c07RefRequest(p, host, qt)
				return out
			}
			// soundness
			for _, s := range seen {
				if !strings.EqualFold(s.Name, fq) {
					t.Fatalf("%s: upstream %s received a question for %q, the lookup was for %q\n%s", what, c07Tags[s.Slot], s.Name, host, p)
				}
				if s.QType != dnsmessage.TypeA && s.QType != dnsmessage.TypeAAAA {
					t.Fatalf("%s: upstream %s received qtype %d", what, c07Tags[s.Slot], s.QType)
				}
				want := route(s.QType)
				if want != c07Tags[s.Slot] {
					t.Fatalf("%s: question (%s, qtype %d) was sent to upstream %s; the first matching request rule names %q\n%s", what, s.Name, s.QType, c07Tags[s.Slot], want, p)
				}
				earlier[fmt.Sprintf("%d|%s|%d", s.Slot, strings.ToLower(s.Name), s.QType)] = true
				classes["question_qtype_"+strconv.Itoa(int(s.QType))] = true
				classes["proto_"+s.Proto] = true
			}
			if c07Inconclusive(lerr) || slow {
				totalInconclusive++
				restart = true
				classes["inconclusive_timeout"] = true
				return
			}
			// completeness + result
			got := c07AddrSet(ips)
			allowed := map[netip.Addr]bool{}
			anyUpstream, wantAddrs := false, 0
			for _, qt := range []uint16{dnsmessage.TypeA, dnsmessage.TypeAAAA} {
				out := route(qt)
				required := false
				for _, r := range nk.Required {
					required = required || r == qt
				}
				if out == "asis" || out == "reject" {
					if required {
						classes["required_question_"+out] = true
					}
					continue
				}
				slot := slotOf[out]
				ans := c07SlotAnswers(slot, host, qt)
				for _, a := range ans {
					allowed[a] = true
				}
				if !required {
					continue
				}
				anyUpstream = true
				ek := fmt.Sprintf("%d|%s|%d", slot, strings.ToLower(fq), qt)
				arrived := earlier[ek]
				if arrived {
					classes["dedup_window_possible"] = true
				}
				for _, s := range seen {
					arrived = arrived || (s.Slot == slot && s.QType == qt)
				}
				if !arrived {
					t.Fatalf("%s: question (%s, qtype %d) is routed to %q by the request rules but never arrived there (arrived: %+v, err=%v)\n%s", what, host, qt, out, seen, lerr, p)
				}
				wantAddrs += len(ans)
				for _, a := range ans {
					if got[a] == 0 {
						t.Fatalf("%s: answer %v of %q for qtype %d is missing from the result %v (err=%v)\n%s", what, a, out, qt, ips, lerr, p)
					}
				}
			}
			for a := range got {
				if a == netip.MustParseAddr("192.0.2.99") && baseCalls > 0 {
					continue // the base resolver's marker (pass-through), not an upstream answer
				}
				if !allowed[a] {
					t.Fatalf("%s: result contains %v, which no upstream the rules name for this lookup would answer (result %v, arrived %+v)\n%s", what, a, ips, seen, p)
				}
			}
			if wantAddrs > 0 && lerr != nil {
				t.Fatalf("%s: lookup failed (%v) although the rules send a required question to an upstream that answers with addresses\n%s", what, lerr, p)
			}
			if !anyUpstream && len(seen) == 0 {
				classes["all_required_passthrough"] = true
			}
			if forced == "" {
				ra, ia := c07RefRequest(p, host, dnsmessage.TypeA)
				rb, ib := c07RefRequest(p, host, dnsmessage.TypeAAAA)
				if ra != rb {
					classes["a_and_aaaa_routed_differently"] = true
				}
				if ia >= 0 || ib >= 0 {
					fmt.Fprintf(&ntKey, "%s/%s>%d,%d;", nk.Name, strings.ToLower(host), ia, ib)
				}
			} else {
				fmt.Fprintf(&ntKey, "%s/%s>sel:%s;", nk.Name, strings.ToLower(host), forced)
			}
			classes["net_"+nk.Name] = true
		}

		ctx, cancel := context.WithTimeout(context.Background(), 60*time.Second)
		defer cancel()
		reqPats := c07QNamePatterns(p.Req)
		genHost := func() string {
			var base string
			switch k := rapid.IntRange(0, 9).Draw(t, "hsrc"); {
			case k < 4 && len(reqPats) > 0:
				base = c07Neighbour(t, rapid.SampledFrom(reqPats).Draw(t, "hpat"))
			case k < 8:
				base = rapid.SampledFrom(o.Names).Draw(t, "hname")
			default:
				base = c07GenName(t, "hrand")
			}
			if !c07ValidName(base) || net.ParseIP(base) != nil {
				base = "a.com"
			}
			h := c07Mangle(t, base)
			if rapid.IntRange(0, 3).Draw(t, "hdot") == 0 {
				h += "."
			}
			return h
		}

		// ---- (1) plain lookups through the request rules
		nl := rapid.IntRange(2, 6).Draw(t, "nlookups")
		for k := 0; k < nl; k++ {
			nk := rapid.SampledFrom(nets).Draw(t, "net")
			host := genHost()
			started = time.Now()
			ips, lerr := router.LookupIPAddr(ctx, "", nk.Network, host)
			judge(fmt.Sprintf("LookupIPAddr(%q, %q)", nk.Name, host), nk, host, "", ips, lerr, 0)
		}

		// ---- (2) selectors
		nm := rapid.IntRange(1, 4).Draw(t, "nmetas")
		for k := 0; k < nm; k++ {
			m := c07Meta{Name: rapid.SampledFrom(c07NodeNames).Draw(t, "mname"), Link: rapid.SampledFrom(c07Links).Draw(t, "mlink")}
			if rapid.Bool().Draw(t, "msub") {
				m.SubTag = rapid.SampledFrom(c07SubTags).Draw(t, "mtag")
			}
			wantN, okN := c07RefNode(p.Req, m)
			gotN, gokN := router.MatchNodeUpstream(NodeMeta{SubscriptionTag: m.SubTag, Name: m.Name, Link: m.Link})
			if okN != gokN || wantN != gotN {
				t.Fatalf("MatchNodeUpstream(%+v) = (%q,%v), first matching subnode/node rule says (%q,%v)\n%s", m, gotN, gokN, wantN, okN, p)
			}
			sm := c07Meta{SubTag: rapid.SampledFrom(c07SubTags).Draw(t, "stag"), Link: rapid.SampledFrom(c07Links).Draw(t, "slink")}
			wantS, okS := c07RefInternal(p.Req, "sub", sm)
			gotS, gokS := router.MatchSubscriptionUpstream(sm.SubTag + ":" + sm.Link)
			if okS != gokS || wantS != gotS {
				t.Fatalf("MatchSubscriptionUpstream(%s:%s) = (%q,%v), first matching sub rule says (%q,%v)\n%s", sm.SubTag, sm.Link, gotS, gokS, wantS, okS, p)
			}
			if okN {
				classes["node_selector_hit"] = true
			}
			if okS {
				classes["sub_selector_hit"] = true
			}
			// the wrapped node dialer: a selected upstream gets every question,
			// otherwise the request rules decide per question.
			base := &c07StubDialer{}
			wrapped, err := router.WrapNodeDialer(base, NodeMeta{SubscriptionTag: m.SubTag, Name: m.Name, Link: m.Link})
			if err != nil {
				t.Fatalf("WrapNodeDialer: %v", err)
			}
			res, ok := wrapped.(interface {
				LookupIPAddr(context.Context, string, string) ([]net.IPAddr, error)
			})
			if !ok {
				t.Fatalf("wrapped node dialer does not resolve through the router (%T)", wrapped)
			}
			nk := rapid.SampledFrom(nets).Draw(t, "wnet")
			host := genHost()
			started = time.Now()
			ips, lerr := res.LookupIPAddr(ctx, nk.Network, host)
			forced := ""
			if okN {
				forced = wantN
			}
			judge(fmt.Sprintf("WrapNodeDialer(%+v).LookupIPAddr(%q, %q)", m, nk.Name, host), nk, host, forced, ips, lerr, base.calls)
		}

		if restart {
			// a timed-out lookup may leave packets in flight: fresh servers for the next case
			old := farm
			nf, err := c07StartFarm(nSlots)
			if err == nil {
				farm = nf
				old.stop()
			}
		}
		key := ""
		if ntKey.Len() > 0 {
			key = p.String() + "#" + ntKey.String()
		}
		cl := []string{fmt.Sprintf("upstreams_%d", nUp)}
		for c := range classes {
			cl = append(cl, c)
		}
		sort.Strings(cl)
		vkCase(unit, key, func() any { return map[string]any{"program": p.String(), "lookups": ntKey.String()} }, cl...)
	})
	vkNote(unit, "lookups=%d inconclusive(timeouts)=%d", totalLookups, totalInconclusive)
}

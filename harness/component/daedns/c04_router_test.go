package daedns

// C04 — rule normalisation never changes meaning: the DNS pipelines compiled in
// sequence from ONE parsed configuration object, with the real component/daedns
// Router first (as control_plane.go does: daedns.NewWithOption, then dns.New). After
// each compilation the parsed object must equal the snapshot taken right after
// parsing, and every question/answer must be decided as the interpreter of the
// written lists says: through Router.requestMatcher, then through the exported
// Dns.RequestSelect / Dns.ResponseSelect (IP-literal upstreams, nothing is dialled).
// Generator/interpreter/snapshot: c04_dnsgen_test.go (copy of the component/dns one).

import (
	"context"
	"fmt"
	"io"
	"net"
	"os"
	"sort"
	"testing"
	"time"

	"github.com/daeuniverse/dae/common/assets"
	componentdns "github.com/daeuniverse/dae/component/dns"
	dnsmessage "github.com/miekg/dns"
	"github.com/sirupsen/logrus"
	"pgregory.net/rapid"
)

func c04dLog() *logrus.Logger {
	log := logrus.New()
	log.SetOutput(io.Discard)
	log.SetLevel(logrus.ErrorLevel)
	return log
}

func c04dAnswerMsg(k c04dProbe) *dnsmessage.Msg {
	name := k.QName
	msg := &dnsmessage.Msg{}
	msg.Response = true
	msg.Question = []dnsmessage.Question{{Name: name, Qtype: k.QType, Qclass: dnsmessage.ClassINET}}
	for _, ip := range k.Ips {
		if ip.Is4() {
			msg.Answer = append(msg.Answer, &dnsmessage.A{Hdr: dnsmessage.RR_Header{Name: name, Rrtype: dnsmessage.TypeA, Class: dnsmessage.ClassINET, Ttl: 60}, A: net.IP(ip.AsSlice())})
		} else {
			msg.Answer = append(msg.Answer, &dnsmessage.AAAA{Hdr: dnsmessage.RR_Header{Name: name, Rrtype: dnsmessage.TypeAAAA, Class: dnsmessage.ClassINET, Ttl: 60}, AAAA: net.IP(ip.AsSlice())})
		}
	}
	return msg
}

func TestC04_RouterThenDns(t *testing.T) {
	const unit = "C04.router_then_dns"
	nprobe := 12
	if vkThorough() {
		nprobe = 24
	}
	deadline, hasDeadline := t.Deadline()
	rapid.Check(t, func(t *rapid.T) {
		if hasDeadline && time.Until(deadline) < 150*time.Second {
			vkClass(unit, "skipped_wall_clock_budget")
			return
		}
		geoDir, err := c04dGeoDir()
		if err != nil {
			t.Fatalf("harness: geodata: %v", err)
		}
		p := c04dGenProg(t)
		text := c04dRender(p)
		conf, err := c04dParse(text)
		if err != nil {
			t.Fatalf("well-formed dns section rejected: %v\n%s", err, text)
		}
		parsed := c04dSnapshotDns(conf)
		unchanged := func(stage string) {
			if now := c04dSnapshotDns(conf); now != parsed && os.Getenv("VERIF_C04_DECISIONS_ONLY") == "" { // knob for sensitivity runs only
				t.Fatalf("%s changed the parsed configuration object (the optimiser chain must work on its own copy)\n--- config ---\n%s--- as parsed ---\n%s--- now ---\n%s", stage, text, parsed, now)
			}
		}
		finder := assets.NewLocationFinder([]string{geoDir})
		// 1. the real Router
		router, err := NewWithOption(c04dLog(), &conf.Global, &conf.Dns, &NewOption{LocationFinder: finder})
		if err != nil || router == nil || router.requestMatcher == nil {
			t.Fatalf("daedns.NewWithOption on a well-formed dns section: router=%v err=%v\n%s", router != nil, err, text)
		}
		unchanged("daedns.NewWithOption")
		// 2. dns.New on the same object
		d, err := componentdns.New(&conf.Dns, &componentdns.NewOption{
			Logger:                c04dLog(),
			LocationFinder:        finder,
			UpstreamReadyCallback: func(*componentdns.Upstream) error { return nil },
		})
		if err != nil {
			t.Fatalf("dns.New after daedns.NewWithOption on the same parsed configuration failed: %v\n%s", err, text)
		}
		unchanged("dns.New (after daedns.NewWithOption)")

		for i := 0; i < p.ExcludedF1; i++ {
			vkExcluded(unit, "F1")
		}
		for i := 0; i < p.ExcludedF2; i++ {
			vkExcluded(unit, "F2")
		}
		ctx := context.Background()
		seeds := c04dSeeds(p)
		pf := c04dAllPrefixes(p)
		reqTouched, respTouched := c04dTouched(p.Req), c04dTouched(p.Resp)
		qtypes := []int{1, 28, 5, 16, 65, 255, 0, 2}
		for i := 0; i < nprobe; i++ {
			k := c04dProbe{QName: c04dGenQName(t, seeds, true), QType: uint16(rapid.SampledFrom(qtypes).Draw(t, "qtype")), From: -1}
			want, by := c04dInterpret(p, p.Req, p.ReqFallback, k)
			gotIdx, err := router.requestMatcher.Match(k.QName, k.QType)
			if got := c04dReqName(p, gotIdx); err != nil || got != want {
				t.Fatalf("DNS request routing, daedns Router: compiled program answers %q (err=%v), the written rule list says %q (rule %d)\nquestion %+v\n%s", got, err, want, by, k, text)
			}
			gotIdx, _, err = d.RequestSelect(ctx, k.QName, k.QType)
			if got := c04dReqName(p, gotIdx); err != nil || got != want {
				t.Fatalf("DNS request routing, dns.New after the Router (Dns.RequestSelect): answers %q (err=%v), the written rule list says %q (rule %d)\nquestion %+v\n%s", got, err, want, by, k, text)
			}
			nt, cls := "", []string{"req"}
			if by >= 0 && len(reqTouched[by]) > 0 {
				nt = "req\x00" + text + fmt.Sprintf("%+v", k)
				for c := range reqTouched[by] {
					cls = append(cls, "req_decided_by_"+c)
				}
			}
			sort.Strings(cls)
			kk := k
			vkCase(unit, nt, func() any {
				return map[string]any{"config": text, "question": fmt.Sprintf("%+v", kk), "decision": want}
			}, cls...)

			// response through the exported entry; the answering upstream is "asis" (nil)
			k = c04dProbe{QName: c04dGenQName(t, seeds, false), QType: uint16(rapid.SampledFrom(qtypes).Draw(t, "rqtype")), From: -1}
			nips := rapid.IntRange(0, 3).Draw(t, "nips")
			for j := 0; j < nips; j++ {
				k.Ips = append(k.Ips, c04dGenAddr(t, pf))
			}
			want, by = c04dInterpret(p, p.Resp, p.RespFallback, k)
			gotR, _, err := d.ResponseSelect(ctx, c04dAnswerMsg(k), nil)
			if got := c04dRespName(p, gotR); err != nil || got != want {
				t.Fatalf("DNS response routing, dns.New after the Router (Dns.ResponseSelect): answers %q (err=%v), the written rule list says %q (rule %d)\nanswer %+v\n%s", got, err, want, by, k, text)
			}
			nt, cls = "", []string{"resp"}
			if by >= 0 && len(respTouched[by]) > 0 {
				nt = "resp\x00" + text + fmt.Sprintf("%+v", k)
				for c := range respTouched[by] {
					cls = append(cls, "resp_decided_by_"+c)
				}
			}
			sort.Strings(cls)
			kk2 := k
			vkCase(unit, nt, func() any {
				return map[string]any{"config": text, "answer": fmt.Sprintf("%+v", kk2), "decision": want}
			}, cls...)
		}
	})
}

package daedns

// C07 — shared model: generated dns.routing programs (request/response rule lists over
// a set of upstreams), their conversion to config.Dns, and the reference interpreter
// written from the property statement and docs/en/configuration/dns.md:
//   rule      = AND of functions, first matching rule wins, else fallback
//   function  = OR of its parameters, optionally negated with '!'
//   qname     = full / suffix / keyword / regex on the lower-cased, dot-trimmed name
//   qtype     = question type by mnemonic (any case) or number
//   upstream  = the upstream that answered
//   ip        = some A/AAAA answer address lies in some prefix
//
// NOTE: an identical copy (package clause aside) lives in harness/control/; keep both
// in sync (harness packages cannot import each other's _test files).

import (
	"fmt"
	"net/netip"
	"regexp"
	"strconv"
	"strings"

	"github.com/daeuniverse/dae/config"
	"github.com/daeuniverse/dae/pkg/config_parser"
	"pgregory.net/rapid"
)

type c07Param struct{ Key, Val string }

type c07Atom struct {
	Fn     string // qname | qtype | upstream | ip | sub | node | subnode
	Not    bool
	Params []c07Param
}

type c07Rule struct {
	Atoms []c07Atom
	Out   string
}

type c07Upstream struct {
	Tag  string
	URL  string
	Host string // IP literal as Upstream.Hostname reports it
}

type c07Program struct {
	Upstreams    []c07Upstream
	Req          []c07Rule
	ReqFallback  string
	Resp         []c07Rule
	RespFallback string
	FallbackForm int // 0 string, 1 *Function, 2 []*Function{one}
	// raw overrides used by the invalid-program test
	ReqFallbackRaw  any
	RespFallbackRaw any
	RawUpstreams    []string
}

func (a c07Atom) String() string {
	ps := make([]string, len(a.Params))
	for i, p := range a.Params {
		if p.Key == "" {
			ps[i] = p.Val
		} else {
			ps[i] = p.Key + ":" + p.Val
		}
	}
	n := ""
	if a.Not {
		n = "!"
	}
	return n + a.Fn + "(" + strings.Join(ps, ",") + ")"
}

func (r c07Rule) String() string {
	as := make([]string, len(r.Atoms))
	for i, a := range r.Atoms {
		as[i] = a.String()
	}
	return strings.Join(as, " && ") + " -> " + r.Out
}

func (p *c07Program) String() string {
	var b strings.Builder
	b.WriteString("upstream{")
	for _, u := range p.Upstreams {
		fmt.Fprintf(&b, " %s:'%s'", u.Tag, u.URL)
	}
	b.WriteString(" } request{ ")
	for _, r := range p.Req {
		b.WriteString(r.String() + "; ")
	}
	fmt.Fprintf(&b, "fallback:%s } response{ ", p.ReqFallback)
	for _, r := range p.Resp {
		b.WriteString(r.String() + "; ")
	}
	fmt.Fprintf(&b, "fallback:%s }", p.RespFallback)
	return b.String()
}

func c07ToRules(rs []c07Rule) []*config_parser.RoutingRule {
	out := make([]*config_parser.RoutingRule, 0, len(rs))
	for _, r := range rs {
		rr := &config_parser.RoutingRule{Outbound: config_parser.Function{Name: r.Out}}
		for _, a := range r.Atoms {
			f := &config_parser.Function{Name: a.Fn, Not: a.Not}
			for _, p := range a.Params {
				f.Params = append(f.Params, &config_parser.Param{Key: p.Key, Val: p.Val})
			}
			rr.AndFunctions = append(rr.AndFunctions, f)
		}
		out = append(out, rr)
	}
	return out
}

func c07Fallback(form int, name string) any {
	switch form {
	case 1:
		return &config_parser.Function{Name: name}
	case 2:
		return []*config_parser.Function{{Name: name}}
	default:
		return name
	}
}

// Config builds a fresh config.Dns (fresh rule objects every call).
func (p *c07Program) Config() *config.Dns {
	d := &config.Dns{}
	if p.RawUpstreams != nil {
		for _, u := range p.RawUpstreams {
			d.Upstream = append(d.Upstream, config.KeyableString(u))
		}
	} else {
		for _, u := range p.Upstreams {
			d.Upstream = append(d.Upstream, config.KeyableString(u.Tag+":"+u.URL))
		}
	}
	d.Routing.Request.Rules = c07ToRules(p.Req)
	d.Routing.Response.Rules = c07ToRules(p.Resp)
	d.Routing.Request.Fallback = c07Fallback(p.FallbackForm, p.ReqFallback)
	d.Routing.Response.Fallback = c07Fallback(p.FallbackForm, p.RespFallback)
	if p.ReqFallbackRaw != nil {
		d.Routing.Request.Fallback = p.ReqFallbackRaw
	}
	if p.RespFallbackRaw != nil {
		d.Routing.Response.Fallback = p.RespFallbackRaw
	}
	return d
}

func (p *c07Program) UpstreamIndex(tag string) int {
	for i, u := range p.Upstreams {
		if u.Tag == tag {
			return i
		}
	}
	return -1
}

// ---------------------------------------------------------------- reference atoms

var c07TypeByName = map[string]uint16{
	"a": 1, "ns": 2, "cname": 5, "soa": 6, "ptr": 12, "mx": 15, "txt": 16, "aaaa": 28,
	"srv": 33, "svcb": 64, "https": 65, "any": 255,
}

func c07ParseType(v string) (uint16, bool) {
	if t, ok := c07TypeByName[strings.ToLower(v)]; ok {
		return t, true
	}
	n, err := strconv.ParseUint(v, 0, 16)
	if err != nil {
		return 0, false
	}
	return uint16(n), true
}

func c07NormName(n string) string { return strings.ToLower(strings.TrimSuffix(n, ".")) }

func c07RefQName(key, pat, name string) bool {
	n := c07NormName(name)
	switch key {
	case "full":
		return n == pat
	case "suffix":
		if strings.HasPrefix(pat, ".") {
			return strings.HasSuffix(n, pat)
		}
		return n == pat || strings.HasSuffix(n, "."+pat)
	case "keyword":
		return strings.Contains(n, pat)
	case "regex":
		return regexp.MustCompile(pat).MatchString(n)
	}
	panic("c07RefQName: key " + key)
}

func c07ParsePrefix(v string) netip.Prefix {
	s := v
	if !strings.Contains(s, "/") {
		if strings.Contains(s, ":") {
			s += "/128"
		} else {
			s += "/32"
		}
	}
	return netip.MustParsePrefix(s)
}

func c07RefIP(v string, ips []netip.Addr) bool {
	p := c07ParsePrefix(v)
	if p.Bits() == 0 && p.Addr().Is6() {
		// "::/0": every address (generator never pairs it with A answers, see c07HasV6Zero).
		return len(ips) > 0
	}
	p = p.Masked()
	for _, ip := range ips {
		if p.Contains(ip.Unmap()) {
			return true
		}
	}
	return false
}

type c07Query struct {
	Name string
	Type uint16
	// response side only
	IPs  []netip.Addr
	From string // tag of the answering upstream, "asis" for the as-is resolver
}

func c07RefAtom(a c07Atom, q *c07Query) bool {
	hit := false
	for _, p := range a.Params {
		switch a.Fn {
		case "qname":
			hit = c07RefQName(p.Key, p.Val, q.Name)
		case "qtype":
			t, ok := c07ParseType(p.Val)
			if !ok {
				panic("c07RefAtom: bad qtype " + p.Val)
			}
			hit = t == q.Type
		case "upstream":
			hit = q.From == p.Val && q.From != "asis"
		case "ip":
			hit = c07RefIP(p.Val, q.IPs)
		default:
			panic("c07RefAtom: fn " + a.Fn)
		}
		if hit {
			break
		}
	}
	return hit != a.Not
}

func c07Internal(r c07Rule) bool {
	return len(r.Atoms) > 0 && (r.Atoms[0].Fn == "sub" || r.Atoms[0].Fn == "node" || r.Atoms[0].Fn == "subnode")
}

// c07RefRoute returns the outbound of the first matching rule (rule index) or the
// fallback (index -1).
func c07RefRoute(rules []c07Rule, fallback string, q *c07Query) (string, int) {
next:
	for i, r := range rules {
		if c07Internal(r) {
			continue // dae's own lookups only; not part of ordinary question routing
		}
		for _, a := range r.Atoms {
			if !c07RefAtom(a, q) {
				continue next
			}
		}
		return r.Out, i
	}
	return fallback, -1
}

func c07RefRequest(p *c07Program, name string, qtype uint16) (string, int) {
	return c07RefRoute(p.Req, p.ReqFallback, &c07Query{Name: name, Type: qtype})
}

func c07RefResponse(p *c07Program, name string, qtype uint16, ips []netip.Addr, from string) (string, int) {
	return c07RefRoute(p.Resp, p.RespFallback, &c07Query{Name: name, Type: qtype, IPs: ips, From: from})
}

// ---------------------------------------------------------------- generators

var c07Labels = []string{"a", "aa", "b", "ab", "com", "net", "co", "x-1", "a_b", "0", "9z", "m", "example", "xn--p1ai", "google", "ads"}

var c07TypeVals = []string{"a", "A", "aaaa", "AAAA", "Aaaa", "cname", "CNAME", "txt", "https", "HTTPS", "65", "svcb", "mx", "ns", "28", "0x1c", "1", "16", "255", "any", "0", "65535", "ptr"}

var c07QTypes = []uint16{1, 28, 5, 16, 65, 64, 15, 2, 255, 12, 0, 65535, 6, 33, 99}

var c07V4Prefixes = []string{"10.0.0.0/8", "10.1.0.0/16", "192.168.0.0/16", "127.0.0.1", "0.0.0.0/0", "1.2.3.4/32", "1.2.3.0/24", "10.1.2.3/8", "172.16.0.0/12", "198.18.0.0/15", "0.0.0.0/32", "255.255.255.255"}
var c07V6Prefixes = []string{"2001:db8::/32", "fd00::/8", "2000::/3", "::1", "2001:db8:0:1::/64", "fe80::/10", "2001:db8::1/128", "ff00::/8"}

const c07V6Zero = "::/0"

func c07GenName(t *rapid.T, label string) string {
	n := rapid.IntRange(1, 4).Draw(t, label+"_nlabels")
	parts := make([]string, n)
	for i := range parts {
		parts[i] = rapid.SampledFrom(c07Labels).Draw(t, label+"_l")
	}
	return strings.Join(parts, ".")
}

func c07GenPattern(t *rapid.T, key string, names []string) string {
	switch key {
	case "full", "suffix":
		var base string
		if len(names) > 0 && rapid.IntRange(0, 3).Draw(t, "fromname") > 0 {
			n := rapid.SampledFrom(names).Draw(t, "basename")
			ls := strings.Split(n, ".")
			k := 0
			if key == "suffix" {
				k = rapid.IntRange(0, len(ls)-1).Draw(t, "cut")
			} else if rapid.IntRange(0, 3).Draw(t, "fullcut") == 0 {
				k = rapid.IntRange(0, len(ls)-1).Draw(t, "cut")
			}
			base = strings.Join(ls[k:], ".")
		} else {
			base = c07GenName(t, "pat")
		}
		if key == "suffix" && rapid.IntRange(0, 4).Draw(t, "leadingdot") == 0 {
			base = "." + base
		}
		return base
	case "keyword":
		if len(names) > 0 && rapid.IntRange(0, 3).Draw(t, "fromname") > 0 {
			n := rapid.SampledFrom(names).Draw(t, "basename")
			i := rapid.IntRange(0, len(n)-1).Draw(t, "i")
			j := rapid.IntRange(i+1, len(n)).Draw(t, "j")
			return n[i:j]
		}
		b := c07GenName(t, "kw")
		if len(b) > 3 && rapid.Bool().Draw(t, "short") {
			b = b[:3]
		}
		return b
	default:
		if len(names) > 0 && rapid.IntRange(0, 2).Draw(t, "fromname") > 0 {
			n := regexp.QuoteMeta(rapid.SampledFrom(names).Draw(t, "basename"))
			return rapid.SampledFrom([]string{"^" + n + "$", n, "^" + n, n + "$", `(^|\.)` + n + "$", `^[a-z]+\.` + n}).Draw(t, "rx")
		}
		return rapid.SampledFrom([]string{`^a+\.com$`, `\.net$`, `^[0-9]`, `x-1`, `^(a|b)\.`, `_`, `^[a-z0-9.-]*$`, `[A-Z]`, `^$`, `a.b`, `\.co(m)?$`, `^yes`}).Draw(t, "rxfixed")
	}
}

type c07GenOpts struct {
	MinUpstreams, MaxUpstreams int
	SimpleSchemes              bool     // only udp/tcp/tcp+udp
	Names                      []string // names the questions are drawn from
	AvoidNegMerge              bool     // finding F-C07-1 listed as known
	AvoidV6Zero                bool     // finding F-C07-2 listed as known
	MaxRules                   int
	Internal                   bool // sprinkle sub()/node() rules into request routing
	Excluded                   func(id string)
}

func c07GenAtom(t *rapid.T, fn string, p *c07Program, o *c07GenOpts) c07Atom {
	a := c07Atom{Fn: fn, Not: rapid.IntRange(0, 3).Draw(t, "not") == 0}
	switch fn {
	case "qname":
		n := rapid.IntRange(1, 3).Draw(t, "nparam")
		for i := 0; i < n; i++ {
			key := rapid.SampledFrom([]string{"full", "suffix", "suffix", "keyword", "regex"}).Draw(t, "key")
			a.Params = append(a.Params, c07Param{key, c07GenPattern(t, key, o.Names)})
		}
	case "qtype":
		n := rapid.IntRange(1, 3).Draw(t, "nparam")
		for i := 0; i < n; i++ {
			a.Params = append(a.Params, c07Param{"", rapid.SampledFrom(c07TypeVals).Draw(t, "tv")})
		}
	case "upstream":
		n := rapid.IntRange(1, 2).Draw(t, "nparam")
		for i := 0; i < n; i++ {
			a.Params = append(a.Params, c07Param{"", rapid.SampledFrom(p.Upstreams).Draw(t, "up").Tag})
		}
	case "ip":
		n := rapid.IntRange(1, 3).Draw(t, "nparam")
		for i := 0; i < n; i++ {
			var v string
			switch k := rapid.IntRange(0, 19).Draw(t, "ipkind"); {
			case k == 0 && !o.AvoidV6Zero:
				v = c07V6Zero
			case k == 0:
				if o.Excluded != nil {
					o.Excluded("F-C07-2")
				}
				v = "2000::/3"
			case k < 13:
				v = rapid.SampledFrom(c07V4Prefixes).Draw(t, "v4p")
			default:
				v = rapid.SampledFrom(c07V6Prefixes).Draw(t, "v6p")
			}
			a.Params = append(a.Params, c07Param{"", v})
		}
	}
	return a
}

func c07GenRules(t *rapid.T, p *c07Program, o *c07GenOpts, response bool) []c07Rule {
	fns := []string{"qname", "qname", "qtype"}
	outs := []string{"asis", "reject"}
	if response {
		fns = []string{"qname", "qtype", "ip", "ip"}
		outs = []string{"accept", "reject"}
		if len(p.Upstreams) > 0 {
			fns = append(fns, "upstream", "upstream")
		}
	}
	for _, u := range p.Upstreams {
		outs = append(outs, u.Tag, u.Tag)
	}
	n := rapid.IntRange(0, o.MaxRules).Draw(t, "nrules")
	var rules []c07Rule
	for len(rules) < n {
		if k := len(rules); k > 0 && len(rules[k-1].Atoms) == 1 && !c07Internal(rules[k-1]) && rapid.IntRange(0, 3).Draw(t, "sibling") == 0 {
			// a sibling of the previous single-function rule: same function, same
			// negation, same outbound (what the rule merger looks for).
			prev := rules[k-1]
			a := c07GenAtom(t, prev.Atoms[0].Fn, p, o)
			a.Not = prev.Atoms[0].Not
			rules = append(rules, c07Rule{Atoms: []c07Atom{a}, Out: prev.Out})
			continue
		}
		if !response && o.Internal && rapid.IntRange(0, 9).Draw(t, "internal") == 0 && len(p.Upstreams) > 0 {
			fn := rapid.SampledFrom([]string{"sub", "node", "subnode"}).Draw(t, "ifn")
			par := c07Param{"", "mysub"}
			if fn != "sub" {
				par = c07Param{"name_keyword", "hk"}
			}
			rules = append(rules, c07Rule{Atoms: []c07Atom{{Fn: fn, Params: []c07Param{par}}}, Out: p.Upstreams[0].Tag})
			continue
		}
		na := rapid.SampledFrom([]int{1, 1, 1, 2, 2, 3}).Draw(t, "natoms")
		r := c07Rule{Out: rapid.SampledFrom(outs).Draw(t, "out")}
		for i := 0; i < na; i++ {
			r.Atoms = append(r.Atoms, c07GenAtom(t, rapid.SampledFrom(fns).Draw(t, "fn"), p, o))
		}
		rules = append(rules, r)
	}
	if o.AvoidNegMerge {
		// F-C07-1: adjacent negated single-function rules with equal function name
		// and outbound are merged into one negated rule; steer away from the shape.
		for i := 1; i < len(rules); i++ {
			a, b := rules[i-1], rules[i]
			if len(a.Atoms) == 1 && len(b.Atoms) == 1 && a.Atoms[0].Fn == b.Atoms[0].Fn && a.Atoms[0].Not && b.Atoms[0].Not && a.Out == b.Out {
				rules[i].Atoms[0].Not = false
				if o.Excluded != nil {
					o.Excluded("F-C07-1")
				}
			}
		}
	}
	return rules
}

var c07Tags = []string{"alidns", "googledns", "cf", "q9", "lan", "u5"}

func c07GenUpstreams(t *rapid.T, o *c07GenOpts) []c07Upstream {
	n := rapid.IntRange(o.MinUpstreams, o.MaxUpstreams).Draw(t, "nup")
	ups := make([]c07Upstream, n)
	for i := range ups {
		schemes := []string{"udp", "tcp", "tcp+udp"}
		if !o.SimpleSchemes {
			schemes = append(schemes, "udp+tcp", "tls", "https", "quic", "h3", "http3")
		}
		sch := rapid.SampledFrom(schemes).Draw(t, "scheme")
		var host, lit string
		if rapid.IntRange(0, 3).Draw(t, "v6") == 0 {
			host = fmt.Sprintf("2001:db8::%x", i+1)
			lit = "[" + host + "]"
		} else {
			host = fmt.Sprintf("10.0.%d.1", i)
			lit = host
		}
		url := sch + "://" + lit
		if rapid.Bool().Draw(t, "port") {
			url += ":" + strconv.Itoa(rapid.SampledFrom([]int{53, 5353, 853, 443, 1}).Draw(t, "portv"))
		}
		ups[i] = c07Upstream{Tag: c07Tags[i], URL: url, Host: host}
	}
	return ups
}

func c07GenRouting(t *rapid.T, p *c07Program, o *c07GenOpts) {
	p.Req = c07GenRules(t, p, o, false)
	p.Resp = c07GenRules(t, p, o, true)
	reqOuts := []string{"asis", "asis", "reject"}
	respOuts := []string{"accept", "accept", "accept", "reject"}
	for _, u := range p.Upstreams {
		reqOuts = append(reqOuts, u.Tag, u.Tag)
		respOuts = append(respOuts, u.Tag)
	}
	p.ReqFallback = rapid.SampledFrom(reqOuts).Draw(t, "reqfb")
	p.RespFallback = rapid.SampledFrom(respOuts).Draw(t, "respfb")
	p.FallbackForm = rapid.IntRange(0, 2).Draw(t, "fbform")
}

func c07GenProgram(t *rapid.T, o *c07GenOpts) *c07Program {
	p := &c07Program{Upstreams: c07GenUpstreams(t, o)}
	c07GenRouting(t, p, o)
	return p
}

func c07HasV6Zero(p *c07Program) bool {
	for _, r := range p.Resp {
		for _, a := range r.Atoms {
			if a.Fn != "ip" {
				continue
			}
			for _, q := range a.Params {
				if q.Val == c07V6Zero {
					return true
				}
			}
		}
	}
	return false
}

func c07Mangle(t *rapid.T, n string) string {
	b := []byte(n)
	switch rapid.IntRange(0, 3).Draw(t, "case") {
	case 1:
		b = []byte(strings.ToUpper(n))
	case 2:
		for i := range b {
			if b[i] >= 'a' && b[i] <= 'z' && rapid.Bool().Draw(t, "up") {
				b[i] -= 32
			}
		}
	}
	return string(b)
}

func c07Neighbour(t *rapid.T, p string) string {
	p = strings.TrimPrefix(p, ".")
	if p == "" {
		return "a"
	}
	switch rapid.IntRange(0, 6).Draw(t, "nb") {
	case 0:
		return p
	case 1:
		return rapid.SampledFrom(c07Labels).Draw(t, "extra") + "." + p
	case 2:
		return rapid.SampledFrom([]string{"x", "a", "0", "-", "_"}).Draw(t, "glue") + p
	case 3:
		if i := strings.IndexByte(p, '.'); i >= 0 {
			return p[i+1:]
		}
		return p
	case 4:
		return p + rapid.SampledFrom([]string{"x", "m", ".a", "0"}).Draw(t, "tail")
	case 5:
		return "a.b." + p
	default:
		return p + "." + rapid.SampledFrom(c07Labels).Draw(t, "after")
	}
}

func c07ValidName(n string) bool {
	if n == "" || len(n) > 200 {
		return false
	}
	for _, l := range strings.Split(n, ".") {
		if l == "" || len(l) > 63 {
			return false
		}
		for i := 0; i < len(l); i++ {
			c := l[i]
			if !(c >= 'a' && c <= 'z' || c >= 'A' && c <= 'Z' || c >= '0' && c <= '9' || c == '-' || c == '_') {
				return false
			}
		}
	}
	return true
}

// c07QNamePatterns lists the plain (non-regex) qname patterns of a rule list.
func c07QNamePatterns(rules []c07Rule) []string {
	var out []string
	for _, r := range rules {
		for _, a := range r.Atoms {
			if a.Fn == "qname" {
				for _, p := range a.Params {
					if p.Key != "regex" {
						out = append(out, p.Val)
					}
				}
			}
		}
	}
	return out
}

// c07EdgeAddrs returns addresses at and around the edges of the ip() prefixes of the
// response rules.
func c07EdgeAddrs(p *c07Program) (v4, v6 []netip.Addr) {
	add := func(a netip.Addr) {
		if !a.IsValid() {
			return
		}
		if a.Is4() {
			v4 = append(v4, a)
		} else if !a.Is4In6() {
			v6 = append(v6, a)
		}
	}
	for _, r := range p.Resp {
		for _, a := range r.Atoms {
			if a.Fn != "ip" {
				continue
			}
			for _, q := range a.Params {
				pf := c07ParsePrefix(q.Val).Masked()
				first := pf.Addr()
				add(first)
				add(first.Prev())
				add(first.Next())
				// last address of the prefix
				b := first.AsSlice()
				for i := pf.Bits(); i < len(b)*8; i++ {
					b[i/8] |= 1 << (7 - uint(i%8))
				}
				last, _ := netip.AddrFromSlice(b)
				add(last)
				add(last.Next())
				add(last.Prev())
			}
		}
	}
	v4 = append(v4, netip.MustParseAddr("8.8.8.8"), netip.MustParseAddr("10.1.2.3"), netip.MustParseAddr("0.0.0.0"))
	v6 = append(v6, netip.MustParseAddr("2001:db8::1"), netip.MustParseAddr("2606:4700::1111"), netip.MustParseAddr("::"))
	return
}

// The two defects the matcher-level unit re-finds are listed per property; F1 (C04)
// and F2 (C12) are the same root causes, so either listing keeps the generators away
// from the shape.
func c07KnownNegMerge() bool { return vkKnown("F-C07-1") || vkKnown("F1") }
func c07KnownV6Zero() bool   { return vkKnown("F-C07-2") || vkKnown("F2") }

package dns

// C04 (DNS pipelines) — generator, renderer, probes and the independent interpreter
// of written DNS request/response rule lists, plus the tiny geodata files and an own
// snapshot walker for parsed rule lists. This file references nothing package-
// internal, so an identical copy (package clause aside) serves the component/daedns
// harness: keep harness/component/daedns/c04_dnsgen_test.go in sync with
//   sed '1s/.*/package daedns/' harness/component/dns/c04_dnsgen_test.go
// Identifiers: c04d*.

import (
	"fmt"
	"net/netip"
	"os"
	"path/filepath"
	"regexp"
	"sort"
	"strconv"
	"strings"
	"sync"

	"github.com/daeuniverse/dae/common/consts"
	"github.com/daeuniverse/dae/config"
	"github.com/daeuniverse/dae/pkg/config_parser"
	"github.com/daeuniverse/dae/pkg/geodata"
	"google.golang.org/protobuf/proto"
	"pgregory.net/rapid"
)

type c04dVal struct {
	Key, Val string
	Quote    byte
	Tight    bool
}

type c04dCond struct {
	Func string // qname qtype ip upstream (sub/node: internal selectors, not DNS rules)
	Not  bool
	Vals []c04dVal
}

type c04dRule struct {
	Conds []c04dCond
	Out   string
	Style int
}

type c04dProg struct {
	Upstreams    []string
	Req          []c04dRule
	ReqFallback  string
	Resp         []c04dRule
	RespFallback string
	Names        []string
	Prefixes     []string
	ExcludedF1   int
	ExcludedF2   int
}

// ---- geodata (interpreter's own table + the .dat files written from it) ----

type c04dGeoDomain struct {
	Kind, Val string
	Attrs     []string
}

var c04dGeoSites = map[string]map[string][]c04dGeoDomain{
	"geosite.dat": {
		"cn":     {{"full", "a.com", nil}, {"suffix", "example.com", []string{"ads"}}, {"keyword", "x-1", nil}, {"regex", `^ab\.`, []string{"cn"}}, {"suffix", "co", []string{"ads"}}},
		"google": {{"suffix", "net", nil}, {"full", "b.co", nil}, {"suffix", "a.com", nil}},
	},
	"vxsite.dat": {"tag1": {{"suffix", "aa.net", nil}, {"keyword", "ab", []string{"ads"}}}},
}

var c04dGeoIps = map[string]map[string][]string{
	"geoip.dat": {"private": {"10.0.0.0/8", "192.168.0.0/16", "fc00::/7", "127.0.0.1/32"}, "cn": {"1.2.3.0/24", "2001:db8::/32"}},
	"vxip.dat":  {"tag1": {"10.1.0.0/16", "::ffff:10.1.2.0/120"}},
}

var (
	c04dGeoOnce sync.Once
	c04dGeoPath string
	c04dGeoErr  error
)

func c04dKeys[V any](m map[string]V) []string {
	ks := make([]string, 0, len(m))
	for k := range m {
		ks = append(ks, k)
	}
	sort.Strings(ks)
	return ks
}

func c04dGeoDir() (string, error) {
	c04dGeoOnce.Do(func() {
		base := os.Getenv("VERIF_RUNDIR")
		if base == "" {
			base = os.TempDir()
		}
		dir, err := os.MkdirTemp(base, "c04dgeo")
		if err != nil {
			c04dGeoErr = err
			return
		}
		for file, codes := range c04dGeoSites {
			var list geodata.GeoSiteList
			for _, code := range c04dKeys(codes) {
				gs := &geodata.GeoSite{CountryCode: strings.ToUpper(code)}
				for _, d := range codes[code] {
					dom := &geodata.Domain{Value: d.Val}
					switch d.Kind {
					case "full":
						dom.Type = geodata.Domain_Full
					case "suffix":
						dom.Type = geodata.Domain_RootDomain
					case "keyword":
						dom.Type = geodata.Domain_Plain
					case "regex":
						dom.Type = geodata.Domain_Regex
					}
					for _, a := range d.Attrs {
						dom.Attribute = append(dom.Attribute, &geodata.Domain_Attribute{Key: a, TypedValue: &geodata.Domain_Attribute_BoolValue{BoolValue: true}})
					}
					gs.Domain = append(gs.Domain, dom)
				}
				list.Entry = append(list.Entry, gs)
			}
			b, err := proto.Marshal(&list)
			if err == nil {
				err = os.WriteFile(filepath.Join(dir, file), b, 0o644)
			}
			if err != nil {
				c04dGeoErr = err
				return
			}
		}
		for file, codes := range c04dGeoIps {
			var list geodata.GeoIPList
			for _, code := range c04dKeys(codes) {
				gi := &geodata.GeoIP{CountryCode: strings.ToUpper(code)}
				for _, c := range codes[code] {
					p := netip.MustParsePrefix(c)
					gi.Cidr = append(gi.Cidr, &geodata.CIDR{Ip: p.Addr().AsSlice(), Prefix: uint32(p.Bits())})
				}
				list.Entry = append(list.Entry, gi)
			}
			b, err := proto.Marshal(&list)
			if err == nil {
				err = os.WriteFile(filepath.Join(dir, file), b, 0o644)
			}
			if err != nil {
				c04dGeoErr = err
				return
			}
		}
		c04dGeoPath = dir
	})
	return c04dGeoPath, c04dGeoErr
}

// ---- generator ----

var c04dLabels = []string{"a", "aa", "b", "ab", "com", "net", "co", "x-1", "a_b", "0", "9z", "m", "example"}

func c04dGenName(t *rapid.T, label string) string {
	n := rapid.IntRange(1, 4).Draw(t, label+"_nl")
	parts := make([]string, n)
	for i := range parts {
		parts[i] = rapid.SampledFrom(c04dLabels).Draw(t, label+"_l")
	}
	return strings.Join(parts, ".")
}

func c04dBareSafe(s string) bool {
	if s == "" {
		return false
	}
	for i := 0; i < len(s); i++ {
		c := s[i]
		if !(c >= 'a' && c <= 'z' || c >= 'A' && c <= 'Z' || c >= '0' && c <= '9' || c == '.' || c == '_' || c == '-' || c == '/') {
			return false
		}
	}
	return true
}

func c04dStyle(t *rapid.T, key, val string) c04dVal {
	v := c04dVal{Key: key, Val: val, Tight: rapid.Bool().Draw(t, "tight")}
	if !c04dBareSafe(val) || rapid.IntRange(0, 3).Draw(t, "quote") == 0 {
		v.Quote = '\''
		if rapid.Bool().Draw(t, "dq") {
			v.Quote = '"'
		}
	}
	return v
}

func c04dGenPrefix(t *rapid.T, p *c04dProg) string {
	if rapid.IntRange(0, 9).Draw(t, "pfx_v6") < 4 {
		base := rapid.SampledFrom([]string{"2001:db8::", "2001:db8:1::1", "fe80::1", "::", "::1", "::ffff:10.1.2.3", "fc00::"}).Draw(t, "pfx_b6")
		if rapid.IntRange(0, 5).Draw(t, "pfx_bare") == 0 {
			return base
		}
		bits := rapid.SampledFrom([]int{0, 1, 7, 16, 32, 48, 64, 96, 104, 120, 127, 128}).Draw(t, "pfx_n6")
		if bits == 0 && vkKnown("F2") {
			p.ExcludedF2++
			bits = 1
		}
		return fmt.Sprintf("%s/%d", base, bits)
	}
	base := rapid.SampledFrom([]string{"10.0.0.0", "10.1.0.0", "10.1.2.3", "192.168.1.1", "0.0.0.0", "1.2.3.4", "127.0.0.1"}).Draw(t, "pfx_b4")
	if rapid.IntRange(0, 5).Draw(t, "pfx_bare") == 0 {
		return base
	}
	return fmt.Sprintf("%s/%d", base, rapid.SampledFrom([]int{0, 1, 8, 9, 16, 24, 31, 32}).Draw(t, "pfx_n4"))
}

func c04dGenCond(t *rapid.T, p *c04dProg, fn string) c04dCond {
	c := c04dCond{Func: fn, Not: rapid.IntRange(0, 9).Draw(t, "not") < 3}
	nv := rapid.SampledFrom([]int{1, 1, 1, 2, 2, 3, 4, 6}).Draw(t, "nvals")
	for i := 0; i < nv; i++ {
		switch fn {
		case "qname":
			if rapid.IntRange(0, 5).Draw(t, "geo") == 0 {
				g := rapid.SampledFrom([][2]string{{"geosite", "cn"}, {"geosite", "CN"}, {"geosite", "google"}, {"geosite", "cn@ads"}, {"ext", "vxsite.dat:tag1"}, {"ext", "vxsite:tag1@ADS"}}).Draw(t, "geosite")
				c.Vals = append(c.Vals, c04dStyle(t, g[0], g[1]))
				continue
			}
			name := rapid.SampledFrom(p.Names).Draw(t, "qn_name")
			switch rapid.IntRange(0, 9).Draw(t, "qn_kind") {
			case 0, 1, 2:
				c.Vals = append(c.Vals, c04dStyle(t, "full", name))
			case 3, 4, 5, 6:
				ls := strings.Split(name, ".")
				s := strings.Join(ls[rapid.IntRange(0, len(ls)-1).Draw(t, "qn_cut"):], ".")
				if rapid.IntRange(0, 4).Draw(t, "qn_dot") == 0 {
					s = "." + s
				}
				c.Vals = append(c.Vals, c04dStyle(t, "suffix", s))
			case 7, 8:
				i := rapid.IntRange(0, len(name)-1).Draw(t, "qn_i")
				j := rapid.IntRange(i+1, len(name)).Draw(t, "qn_j")
				c.Vals = append(c.Vals, c04dStyle(t, "keyword", name[i:j]))
			default:
				n := regexp.QuoteMeta(name)
				if rapid.IntRange(0, 2).Draw(t, "qn_rxcase") == 0 {
					// meaning depends on the case of the pattern text: must be used as written
					c.Vals = append(c.Vals, c04dStyle(t, "regex", rapid.SampledFrom([]string{
						`^\D+$`, `^\D+\.` + n + `$`, `\D\.` + n + `$`, `^\D`, `\D$`,
						`^\W`, `\W\W`, `^[a-z]+\W[a-z0-9]+$`,
						`^\S+$`, `\S` + n + `$`,
						`\B` + n + `$`, `^a\B`, `\Bm$`,
						`\A` + n + `$`, `\Aa`, `\A[a-z0-9]+\.` + n + `\z`,
						`^\PL`, `^\P{L}+\.`, `\P{Ll}$`, `^\pL+$`, `\PN$`,
						`^\Q` + strings.ReplaceAll(n, `\`, ``) + `\E$`,
						`^[A-Z]`, `[A-Z]`, `^[^A-Z]+$`, `^[^A-Z]+\.` + n + `$`, `^A`, `COM$`,
						`^\x41`, `^\x61`, `^[\x41-\x5A]`, `^[^\x41-\x5A]+$`,
						`(?i)^A`, `(?i)` + strings.ToUpper(n) + `$`, `(?P<Label>[a-z0-9]+)\.` + n + `$`,
					}).Draw(t, "qn_rxc")))
					continue
				}
				c.Vals = append(c.Vals, c04dStyle(t, "regex", rapid.SampledFrom([]string{"^" + n + "$", n + "$", `(^|\.)` + n + "$", `\.net$`, `^[0-9]`, `^(a|b)\.`}).Draw(t, "qn_rx")))
			}
		case "qtype":
			c.Vals = append(c.Vals, c04dStyle(t, "", rapid.SampledFrom([]string{"a", "A", "aaaa", "AAAA", "Aaaa", "cname", "txt", "https", "any", "28", "0x1c", "1", "65", "255", "0"}).Draw(t, "qtype")))
		case "ip":
			if rapid.IntRange(0, 5).Draw(t, "geo") == 0 {
				g := rapid.SampledFrom([][2]string{{"geoip", "private"}, {"geoip", "CN"}, {"ext", "vxip.dat:tag1"}, {"ext", "vxip:TAG1"}}).Draw(t, "geoip")
				c.Vals = append(c.Vals, c04dStyle(t, g[0], g[1]))
				continue
			}
			c.Vals = append(c.Vals, c04dStyle(t, "", rapid.SampledFrom(p.Prefixes).Draw(t, "ipv")))
		case "upstream":
			c.Vals = append(c.Vals, c04dStyle(t, "", rapid.SampledFrom(p.Upstreams).Draw(t, "upv")))
		}
	}
	return c
}

func c04dGenRules(t *rapid.T, p *c04dProg, funcs []string, outs []string, internal bool) []c04dRule {
	var rules []c04dRule
	nr := rapid.IntRange(1, 10).Draw(t, "nrules")
	for len(rules) < nr {
		if internal && rapid.IntRange(0, 14).Draw(t, "internal") == 0 {
			// dae's internal selector rules share the request block; they are not DNS
			// question rules and must not disturb them.
			sel := rapid.SampledFrom([]c04dCond{
				{Func: "sub", Vals: []c04dVal{{Val: "my_sub"}}},
				{Func: "node", Vals: []c04dVal{{Key: "name_keyword", Val: "hk"}}},
				{Func: "subnode", Vals: []c04dVal{{Key: "subtag", Val: "my_sub"}, {Key: "name_keyword", Val: "hk"}}},
			}).Draw(t, "selector")
			rules = append(rules, c04dRule{Conds: []c04dCond{sel}, Out: rapid.SampledFrom(p.Upstreams).Draw(t, "sel_out")})
			continue
		}
		if rapid.IntRange(0, 9).Draw(t, "run") < 6 {
			fn := rapid.SampledFrom(funcs).Draw(t, "run_fn")
			out := rapid.SampledFrom(outs).Draw(t, "run_out")
			n := rapid.IntRange(2, 5).Draw(t, "run_len")
			notMode := rapid.IntRange(0, 5).Draw(t, "run_not")
			for i := 0; i < n; i++ {
				c := c04dGenCond(t, p, fn)
				switch {
				case notMode <= 2:
					c.Not = false
				case notMode == 3:
					c.Not = true
				default:
					c.Not = rapid.Bool().Draw(t, "run_noti")
				}
				r := c04dRule{Conds: []c04dCond{c}, Out: out, Style: rapid.IntRange(0, 3).Draw(t, "style")}
				if rapid.IntRange(0, 7).Draw(t, "run_otherout") == 0 {
					r.Out = rapid.SampledFrom(outs).Draw(t, "run_out2")
				}
				if rapid.IntRange(0, 11).Draw(t, "run_second") == 0 {
					r.Conds = append(r.Conds, c04dGenCond(t, p, rapid.SampledFrom(funcs).Draw(t, "run_fn2")))
				}
				rules = append(rules, r)
			}
			continue
		}
		nc := rapid.SampledFrom([]int{1, 1, 2, 2, 3}).Draw(t, "nconds")
		r := c04dRule{Out: rapid.SampledFrom(outs).Draw(t, "out"), Style: rapid.IntRange(0, 3).Draw(t, "style")}
		for i := 0; i < nc; i++ {
			r.Conds = append(r.Conds, c04dGenCond(t, p, rapid.SampledFrom(funcs).Draw(t, "fn")))
		}
		rules = append(rules, r)
	}
	if vkKnown("F1") {
		for i := 1; i < len(rules); i++ {
			a, b := &rules[i-1], &rules[i]
			if len(a.Conds) == 1 && len(b.Conds) == 1 && a.Conds[0].Not && b.Conds[0].Not && a.Conds[0].Func == b.Conds[0].Func && a.Out == b.Out {
				b.Conds[0].Not = false
				p.ExcludedF1++
			}
		}
	}
	return rules
}

func c04dGenProg(t *rapid.T) c04dProg {
	var p c04dProg
	nu := rapid.IntRange(1, 3).Draw(t, "nup")
	for i := 0; i < nu; i++ {
		p.Upstreams = append(p.Upstreams, fmt.Sprintf("u%d", i))
	}
	p.Names = append(p.Names, c04dGenName(t, "name"))
	for i := 1; i < 5; i++ {
		switch rapid.IntRange(0, 3).Draw(t, "name_rel") {
		case 0:
			p.Names = append(p.Names, rapid.SampledFrom(c04dLabels).Draw(t, "name_extra")+"."+rapid.SampledFrom(p.Names).Draw(t, "name_of"))
		case 1:
			ls := strings.Split(rapid.SampledFrom(p.Names).Draw(t, "name_of"), ".")
			p.Names = append(p.Names, strings.Join(ls[rapid.IntRange(0, len(ls)-1).Draw(t, "name_cut"):], "."))
		default:
			p.Names = append(p.Names, c04dGenName(t, "name"))
		}
	}
	for i := 0; i < 5; i++ {
		p.Prefixes = append(p.Prefixes, c04dGenPrefix(t, &p))
	}
	p.Req = c04dGenRules(t, &p, []string{"qname", "qname", "qtype"}, append([]string{"asis", "reject"}, p.Upstreams...), true)
	p.ReqFallback = rapid.SampledFrom(append([]string{"asis", "asis", "reject"}, p.Upstreams...)).Draw(t, "reqfb")
	p.Resp = c04dGenRules(t, &p, []string{"qname", "qtype", "ip", "ip", "upstream"}, append([]string{"accept", "reject"}, p.Upstreams...), false)
	p.RespFallback = rapid.SampledFrom(append([]string{"accept", "accept", "reject"}, p.Upstreams...)).Draw(t, "respfb")
	return p
}

// ---- renderer ----

func c04dRenderVal(v c04dVal) string {
	s := v.Val
	if v.Quote != 0 {
		s = string(v.Quote) + s + string(v.Quote)
	}
	if v.Key == "" {
		return s
	}
	if v.Tight {
		return v.Key + ":" + s
	}
	return v.Key + ": " + s
}

func c04dRenderRule(r c04dRule) string {
	var b strings.Builder
	sepVal, sepAnd, arrow := ", ", " && ", " -> "
	switch r.Style {
	case 1:
		sepVal, sepAnd, arrow = ",", "&&", "->"
	case 2:
		sepVal, sepAnd = ",\n                ", " &&\n            "
	}
	for i, c := range r.Conds {
		if i > 0 {
			b.WriteString(sepAnd)
		}
		if c.Not {
			b.WriteString("!")
		}
		b.WriteString(c.Func + "(")
		for j, v := range c.Vals {
			if j > 0 {
				b.WriteString(sepVal)
			}
			b.WriteString(c04dRenderVal(v))
		}
		b.WriteString(")")
	}
	b.WriteString(arrow + r.Out)
	if r.Style == 3 {
		b.WriteString(" # qname(full: x) -> reject")
	}
	return b.String()
}

func c04dRender(p c04dProg) string {
	var b strings.Builder
	b.WriteString("global {\n}\nrouting {\n    fallback: direct\n}\ndns {\n    upstream {\n")
	for i, u := range p.Upstreams {
		b.WriteString(fmt.Sprintf("        %s: 'udp://192.0.2.%d:53'\n", u, i+1))
	}
	b.WriteString("    }\n    routing {\n        request {\n")
	for _, r := range p.Req {
		b.WriteString("            " + c04dRenderRule(r) + "\n")
	}
	b.WriteString("            fallback: " + p.ReqFallback + "\n        }\n        response {\n")
	for _, r := range p.Resp {
		b.WriteString("            " + c04dRenderRule(r) + "\n")
	}
	b.WriteString("            fallback: " + p.RespFallback + "\n        }\n    }\n}\n")
	return b.String()
}

// ---- interpreter ----

type c04dProbe struct {
	QName string
	QType uint16
	Ips   []netip.Addr
	From  int // index of the upstream that answered, -1 = asis
}

var c04dQTypes = map[string]uint16{"a": 1, "ns": 2, "cname": 5, "soa": 6, "ptr": 12, "mx": 15, "txt": 16, "aaaa": 28, "srv": 33, "https": 65, "any": 255}

func c04dQType(s string) uint16 {
	if v, ok := c04dQTypes[strings.ToLower(s)]; ok {
		return v
	}
	v, err := strconv.ParseUint(s, 0, 16)
	if err != nil {
		panic("generator wrote a bad qtype " + s)
	}
	return uint16(v)
}

func c04dDomainAtom(kind, pat, n string) bool {
	switch kind {
	case "full":
		return n == pat
	case "suffix":
		if strings.HasPrefix(pat, ".") {
			return strings.HasSuffix(n, pat)
		}
		return n == pat || strings.HasSuffix(n, "."+pat)
	case "keyword":
		return strings.Contains(n, pat)
	case "regex":
		return regexp.MustCompile(pat).MatchString(n)
	}
	panic("bad kind " + kind)
}

func c04dPrefixContains(s string, a netip.Addr) bool {
	var base [16]byte
	bits := 128
	if strings.Contains(s, "/") {
		p := netip.MustParsePrefix(s)
		base, bits = p.Addr().As16(), p.Bits()
		if p.Addr().Is4() {
			bits += 96 // IPv4 as IPv4-mapped
		}
	} else {
		base = netip.MustParseAddr(s).As16()
	}
	x := a.As16()
	for i := 0; i < bits; i++ {
		if (base[i/8]>>(7-uint(i%8)))&1 != (x[i/8]>>(7-uint(i%8)))&1 {
			return false
		}
	}
	return true
}

func c04dCondHolds(p c04dProg, c c04dCond, k c04dProbe) bool {
	any := false
	switch c.Func {
	case "qname":
		n := strings.ToLower(strings.TrimSuffix(k.QName, "."))
		if k.QName != "" && n != "" {
			for _, v := range c.Vals {
				kind, val := v.Key, v.Val
				if kind == "geosite" || kind == "ext" {
					file, code := "geosite", val
					if kind == "ext" {
						file, code, _ = strings.Cut(val, ":")
					}
					if !strings.HasSuffix(file, ".dat") {
						file += ".dat"
					}
					code, attr, _ := strings.Cut(code, "@")
					for cc, ds := range c04dGeoSites[file] {
						if !strings.EqualFold(cc, code) {
							continue
						}
						for _, d := range ds {
							if attr != "" {
								hit := false
								for _, a := range d.Attrs {
									hit = hit || strings.EqualFold(a, attr)
								}
								if !hit {
									continue
								}
							}
							if c04dDomainAtom(d.Kind, d.Val, n) {
								any = true
							}
						}
					}
					continue
				}
				if c04dDomainAtom(kind, val, n) {
					any = true
				}
			}
		}
	case "qtype":
		for _, v := range c.Vals {
			if c04dQType(v.Val) == k.QType {
				any = true
			}
		}
	case "ip":
		for _, v := range c.Vals {
			list := []string{v.Val}
			if v.Key == "geoip" || v.Key == "ext" {
				file, code := "geoip", v.Val
				if v.Key == "ext" {
					file, code, _ = strings.Cut(v.Val, ":")
				}
				if !strings.HasSuffix(file, ".dat") {
					file += ".dat"
				}
				list = nil
				for cc, ps := range c04dGeoIps[file] {
					if strings.EqualFold(cc, code) {
						list = ps
					}
				}
			}
			for _, s := range list {
				for _, a := range k.Ips {
					if c04dPrefixContains(s, a) {
						any = true
					}
				}
			}
		}
	case "upstream":
		for _, v := range c.Vals {
			for i, u := range p.Upstreams {
				if u == v.Val && i == k.From {
					any = true
				}
			}
		}
	default:
		panic("unknown function " + c.Func)
	}
	return any != c.Not
}

// c04dInterpret returns (outbound name, deciding rule index or -1).
func c04dInterpret(p c04dProg, rules []c04dRule, fallback string, k c04dProbe) (string, int) {
	for i, r := range rules {
		switch r.Conds[0].Func {
		case "sub", "node", "subnode":
			continue // internal selector rules are not DNS question rules
		}
		ok := true
		for _, c := range r.Conds {
			if !c04dCondHolds(p, c, k) {
				ok = false
				break
			}
		}
		if ok {
			return r.Out, i
		}
	}
	return fallback, -1
}

func c04dTouched(rules []c04dRule) []map[string]bool {
	touched := make([]map[string]bool, len(rules))
	for i := range touched {
		touched[i] = map[string]bool{}
	}
	for i, r := range rules {
		if i > 0 {
			a := rules[i-1]
			if len(a.Conds) == 1 && len(r.Conds) == 1 && a.Conds[0].Func == r.Conds[0].Func && a.Conds[0].Not == r.Conds[0].Not && a.Out == r.Out {
				touched[i]["merged"] = true
				touched[i-1]["merged"] = true
			}
		}
		names := []string{}
		for _, c := range r.Conds {
			names = append(names, c.Func)
			seen := map[string]bool{}
			for j, v := range c.Vals {
				if v.Key == "geosite" || v.Key == "geoip" || v.Key == "ext" {
					touched[i]["geodata"] = true
				}
				if seen[v.Key+":"+v.Val] {
					touched[i]["dedup"] = true
				}
				seen[v.Key+":"+v.Val] = true
				if j > 0 && (c.Vals[j-1].Key > v.Key || (c.Vals[j-1].Key == v.Key && c.Vals[j-1].Val > v.Val)) {
					touched[i]["sorted_values"] = true
				}
			}
		}
		if !sort.StringsAreSorted(names) {
			touched[i]["sorted_conditions"] = true
		}
	}
	return touched
}

func c04dReqName(p c04dProg, i consts.DnsRequestOutboundIndex) string {
	switch i {
	case consts.DnsRequestOutboundIndex_AsIs:
		return "asis"
	case consts.DnsRequestOutboundIndex_Reject:
		return "reject"
	}
	if int(i) >= 0 && int(i) < len(p.Upstreams) {
		return p.Upstreams[i]
	}
	return fmt.Sprintf("#%d", i)
}

func c04dRespName(p c04dProg, i consts.DnsResponseOutboundIndex) string {
	switch i {
	case consts.DnsResponseOutboundIndex_Accept:
		return "accept"
	case consts.DnsResponseOutboundIndex_Reject:
		return "reject"
	}
	if int(i) < len(p.Upstreams) {
		return p.Upstreams[i]
	}
	return fmt.Sprintf("#%d", i)
}

// ---- probes ----

func c04dSeeds(p c04dProg) []string {
	seeds := append([]string{}, p.Names...)
	for _, rules := range [][]c04dRule{p.Req, p.Resp} {
		for _, r := range rules {
			for _, c := range r.Conds {
				if c.Func != "qname" {
					continue
				}
				for _, v := range c.Vals {
					if v.Key == "full" || v.Key == "suffix" || v.Key == "keyword" {
						if s := strings.TrimPrefix(v.Val, "."); s != "" {
							seeds = append(seeds, s)
						}
					}
				}
			}
		}
	}
	return append(seeds, "a.com", "ads.example.com", "example.com", "x-1.net", "ab.x", "co", "b.co", "aa.net")
}

func c04dGenQName(t *rapid.T, seeds []string, allowEmpty bool) string {
	k := rapid.IntRange(0, 9).Draw(t, "qn_kind")
	if k == 0 && allowEmpty {
		return ""
	}
	s := rapid.SampledFrom(seeds).Draw(t, "qn_seed")
	switch k {
	case 1:
		s = c04dGenName(t, "qn_rand")
	case 2:
		s = rapid.SampledFrom(c04dLabels).Draw(t, "qn_extra") + "." + s
	case 3:
		s = rapid.SampledFrom([]string{"x", "a", "0", "-"}).Draw(t, "qn_glue") + s
	case 4:
		if i := strings.IndexByte(s, '.'); i >= 0 {
			s = s[i+1:]
		}
	case 5:
		s = s + rapid.SampledFrom([]string{"x", "m", ".a"}).Draw(t, "qn_tail")
	}
	if s == "" || s == "." {
		s = "a"
	}
	switch rapid.IntRange(0, 2).Draw(t, "qn_case") {
	case 1:
		s = strings.ToUpper(s)
	}
	if rapid.Bool().Draw(t, "qn_fqdn") {
		s += "."
	}
	return s
}

func c04dGenAddr(t *rapid.T, prefixes []string) netip.Addr {
	var a [16]byte
	if rapid.IntRange(0, 9).Draw(t, "ip_aim") < 8 {
		s := rapid.SampledFrom(prefixes).Draw(t, "ip_pfx")
		bits := 128
		var base [16]byte
		if strings.Contains(s, "/") {
			p := netip.MustParsePrefix(s)
			base, bits = p.Addr().As16(), p.Bits()
			if p.Addr().Is4() {
				bits += 96
			}
		} else {
			base = netip.MustParseAddr(s).As16()
		}
		first, last := base, base
		for i := bits; i < 128; i++ {
			first[i/8] &^= 1 << (7 - uint(i%8))
			last[i/8] |= 1 << (7 - uint(i%8))
		}
		add := func(x [16]byte, d int) [16]byte {
			for i := 15; i >= 0 && d != 0; i-- {
				v := int(x[i]) + d
				x[i] = byte(v & 0xff)
				d = v >> 8
			}
			return x
		}
		switch rapid.IntRange(0, 4).Draw(t, "ip_edge") {
		case 0:
			a = first
		case 1:
			a = last
		case 2:
			a = add(first, -1)
		case 3:
			a = add(last, 1)
		default:
			a = base
		}
	} else {
		for i := range a {
			a[i] = byte(rapid.IntRange(0, 255).Draw(t, "ip_rb"))
		}
	}
	addr := netip.AddrFrom16(a)
	if addr.Is4In6() && rapid.Bool().Draw(t, "ip_unmap") {
		return addr.Unmap()
	}
	return addr
}

func c04dAllPrefixes(p c04dProg) []string {
	pf := append([]string{}, p.Prefixes...)
	for _, f := range c04dKeys(c04dGeoIps) {
		for _, c := range c04dKeys(c04dGeoIps[f]) {
			pf = append(pf, c04dGeoIps[f][c]...)
		}
	}
	return pf
}

// ---- parsing and own snapshot of the parsed dns section ----

func c04dParse(text string) (conf *config.Config, err error) {
	defer func() {
		if r := recover(); r != nil {
			err = fmt.Errorf("panic: %v", r)
		}
	}()
	sections, err := config_parser.Parse(text)
	if err != nil {
		return nil, fmt.Errorf("config_parser.Parse: %w", err)
	}
	conf, err = config.New(sections)
	if err != nil {
		return nil, fmt.Errorf("config.New: %w", err)
	}
	return conf, nil
}

// c04dSnapshotRules dumps a parsed rule list with the harness's own walker (no
// production clone helper, no memory shared with the rules): order of rules,
// functions and parameters, names, negation, keys, values, nested functions,
// annotations, outbounds.
func c04dSnapshotRules(rules []*config_parser.RoutingRule) string {
	var b strings.Builder
	var fn func(f *config_parser.Function)
	var pr func(p *config_parser.Param)
	pr = func(p *config_parser.Param) {
		if p == nil {
			b.WriteString("<nilparam>")
			return
		}
		fmt.Fprintf(&b, "{%q:%q", p.Key, p.Val)
		if p.AndFunctions != nil {
			b.WriteString(" and[")
			for _, f := range p.AndFunctions {
				fn(f)
			}
			b.WriteString("]")
		}
		if p.Annotation != nil {
			b.WriteString(" anno[")
			for _, a := range p.Annotation {
				pr(a)
			}
			b.WriteString("]")
		}
		b.WriteString("}")
	}
	fn = func(f *config_parser.Function) {
		if f == nil {
			b.WriteString("<nilfunc>")
			return
		}
		fmt.Fprintf(&b, "(%v %q n=%d:", f.Not, f.Name, len(f.Params))
		for _, p := range f.Params {
			pr(p)
		}
		b.WriteString(")")
	}
	fmt.Fprintf(&b, "rules=%d\n", len(rules))
	for i, r := range rules {
		if r == nil {
			fmt.Fprintf(&b, "%d <nilrule>\n", i)
			continue
		}
		fmt.Fprintf(&b, "%d nf=%d ", i, len(r.AndFunctions))
		for _, f := range r.AndFunctions {
			fn(f)
		}
		b.WriteString(" -> ")
		fn(&r.Outbound)
		b.WriteString("\n")
	}
	return b.String()
}

// c04dSnapshotDns = everything of the parsed dns section the pipelines compile from.
func c04dSnapshotDns(conf *config.Config) string {
	return fmt.Sprintf("upstream=%q\nrequest:\n%sfallback=%#v\nresponse:\n%sfallback=%#v\n",
		conf.Dns.Upstream,
		c04dSnapshotRules(conf.Dns.Routing.Request.Rules), conf.Dns.Routing.Request.Fallback,
		c04dSnapshotRules(conf.Dns.Routing.Response.Rules), conf.Dns.Routing.Response.Fallback)
}

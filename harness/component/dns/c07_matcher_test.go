package dns

// C07 (a) — matcher level: dns.New (normalisation + optimiser chain + builders) on
// generated request/response rule lists with IP-literal upstreams; RequestSelect and
// ResponseSelect against the reference interpreter of c07_model_test.go; invalid
// programs must be rejected with an error (never a panic, never silently accepted).

import (
	"context"
	"fmt"
	"io"
	"net"
	"net/netip"
	"sort"
	"strings"
	"testing"

	"github.com/daeuniverse/dae/common/consts"
	"github.com/daeuniverse/dae/pkg/config_parser"
	dnsmessage "github.com/miekg/dns"
	"github.com/sirupsen/logrus"
	"pgregory.net/rapid"
)

func c07Log() *logrus.Logger {
	l := logrus.New()
	l.SetOutput(io.Discard)
	l.SetLevel(logrus.ErrorLevel)
	return l
}

func c07New(p *c07Program) (s *Dns, err error) {
	defer func() {
		if r := recover(); r != nil {
			err = fmt.Errorf("PANIC in dns.New: %v", r)
			s = nil
		}
	}()
	return New(p.Config(), &NewOption{
		Logger:                c07Log(),
		UpstreamReadyCallback: func(*Upstream) error { return nil },
	})
}

func c07GenQuestion(t *rapid.T, names []string, pats []string) string {
	var base string
	switch k := rapid.IntRange(0, 9).Draw(t, "qsrc"); {
	case k < 4 && len(pats) > 0:
		base = c07Neighbour(t, rapid.SampledFrom(pats).Draw(t, "qpat"))
	case k < 8 && len(names) > 0:
		base = rapid.SampledFrom(names).Draw(t, "qname")
	default:
		base = c07GenName(t, "qrand")
	}
	if !c07ValidName(base) {
		base = "a.com"
	}
	n := c07Mangle(t, base)
	if rapid.IntRange(0, 2).Draw(t, "dot") > 0 {
		n += "."
	}
	return n
}

func c07GenAnswers(t *rapid.T, owner string, v4, v6 []netip.Addr, noA bool) ([]dnsmessage.RR, []netip.Addr) {
	n := rapid.IntRange(0, 6).Draw(t, "nans")
	var rrs []dnsmessage.RR
	var ips []netip.Addr
	fq := dnsmessage.Fqdn(owner)
	for i := 0; i < n; i++ {
		k := rapid.IntRange(0, 9).Draw(t, "anskind")
		if noA && k < 4 {
			k = 4
		}
		switch {
		case k < 4:
			a := rapid.SampledFrom(v4).Draw(t, "a")
			rrs = append(rrs, &dnsmessage.A{Hdr: dnsmessage.RR_Header{Name: fq, Rrtype: dnsmessage.TypeA, Class: dnsmessage.ClassINET, Ttl: 60}, A: net.IP(a.AsSlice())})
			ips = append(ips, a)
		case k < 7:
			a := rapid.SampledFrom(v6).Draw(t, "aaaa")
			rrs = append(rrs, &dnsmessage.AAAA{Hdr: dnsmessage.RR_Header{Name: fq, Rrtype: dnsmessage.TypeAAAA, Class: dnsmessage.ClassINET, Ttl: 60}, AAAA: net.IP(a.AsSlice())})
			ips = append(ips, a)
		case k < 9:
			rrs = append(rrs, &dnsmessage.CNAME{Hdr: dnsmessage.RR_Header{Name: fq, Rrtype: dnsmessage.TypeCNAME, Class: dnsmessage.ClassINET, Ttl: 60}, Target: "cdn.example.net."})
		default:
			// a TXT record whose text looks like an address must not count as one
			rrs = append(rrs, &dnsmessage.TXT{Hdr: dnsmessage.RR_Header{Name: fq, Rrtype: dnsmessage.TypeTXT, Class: dnsmessage.ClassINET, Ttl: 60}, Txt: []string{"10.0.0.1"}})
		}
	}
	return rrs, ips
}

func c07ReqIndex(p *c07Program, out string) consts.DnsRequestOutboundIndex {
	switch out {
	case "asis":
		return consts.DnsRequestOutboundIndex_AsIs
	case "reject":
		return consts.DnsRequestOutboundIndex_Reject
	}
	return consts.DnsRequestOutboundIndex(p.UpstreamIndex(out))
}

func c07RespIndex(p *c07Program, out string) consts.DnsResponseOutboundIndex {
	switch out {
	case "accept":
		return consts.DnsResponseOutboundIndex_Accept
	case "reject":
		return consts.DnsResponseOutboundIndex_Reject
	}
	return consts.DnsResponseOutboundIndex(p.UpstreamIndex(out))
}

func c07GenOptsDefault(unit string) *c07GenOpts {
	return &c07GenOpts{
		MinUpstreams:  0,
		MaxUpstreams:  6,
		AvoidNegMerge: c07KnownNegMerge(),
		AvoidV6Zero:   c07KnownV6Zero(),
		MaxRules:      8,
		Internal:      true,
		Excluded:      func(id string) { vkExcluded(unit, id) },
	}
}

func TestC07_Matcher(t *testing.T) {
	const unit = "C07.matcher"
	ctx := context.Background()
	rapid.Check(t, func(t *rapid.T) {
		o := c07GenOptsDefault(unit)
		if vkThorough() && rapid.IntRange(0, 4).Draw(t, "big") == 0 {
			o.MaxRules = 40
		}
		nn := rapid.IntRange(2, 5).Draw(t, "nnames")
		for i := 0; i < nn; i++ {
			o.Names = append(o.Names, c07GenName(t, "seedname"))
		}
		p := c07GenProgram(t, o)
		s, err := c07New(p)
		if err != nil {
			t.Fatalf("dns.New failed on a valid program: %v\n%s", err, p)
		}
		// upstream objects (IP literals: no resolution involved)
		ups := make([]*Upstream, len(p.Upstreams))
		for i := range p.Upstreams {
			u, err := s.upstream[i].GetUpstream(ctx)
			if err != nil || u == nil {
				t.Fatalf("GetUpstream(%d) on IP literal %q: %v", i, p.Upstreams[i].URL, err)
			}
			if u.Hostname != p.Upstreams[i].Host {
				t.Fatalf("upstream %d hostname %q, want %q", i, u.Hostname, p.Upstreams[i].Host)
			}
			ups[i] = u
		}
		classes := map[string]bool{}
		var ntKey strings.Builder
		reqPats := c07QNamePatterns(p.Req)
		respPats := c07QNamePatterns(p.Resp)

		// ---- request routing
		nq := rapid.IntRange(4, 16).Draw(t, "nq")
		for k := 0; k < nq; k++ {
			name := c07GenQuestion(t, o.Names, reqPats)
			qt := rapid.SampledFrom(c07QTypes).Draw(t, "qtype")
			want, ri := c07RefRequest(p, name, qt)
			idx, up, err := s.RequestSelect(ctx, name, qt)
			if err != nil {
				t.Fatalf("RequestSelect(%q,%d): %v\n%s", name, qt, err, p)
			}
			if wi := c07ReqIndex(p, want); idx != wi {
				t.Fatalf("RequestSelect(%q,%d) = %v, want %q (%v) by rule #%d\n%s", name, qt, idx, want, wi, ri, p)
			}
			if want == "asis" || want == "reject" {
				if up != nil {
					t.Fatalf("RequestSelect(%q,%d) -> %s returned an upstream object %v", name, qt, want, up)
				}
			} else if up != ups[p.UpstreamIndex(want)] {
				t.Fatalf("RequestSelect(%q,%d) returned upstream object %v, want the one of %q\n%s", name, qt, up, want, p)
			}
			if ri >= 0 {
				fmt.Fprintf(&ntKey, "Q%s/%d>%d;", name, qt, ri)
				classes["req_rule_hit"] = true
				if ri > 0 {
					classes["req_later_rule_hit"] = true
				}
				for _, a := range p.Req[ri].Atoms {
					if a.Not {
						classes["req_negated_atom_decisive"] = true
					}
				}
			} else {
				classes["req_fallback"] = true
			}
			classes["req_out_"+c07OutKind(want)] = true
			if strings.HasSuffix(name, ".") {
				classes["q_trailing_dot"] = true
			}
			if name != strings.ToLower(name) {
				classes["q_upper_case"] = true
			}
		}

		// ---- response routing
		v4, v6 := c07EdgeAddrs(p)
		noA := c07HasV6Zero(p)
		nr := rapid.IntRange(4, 16).Draw(t, "nr")
		for k := 0; k < nr; k++ {
			name := c07GenQuestion(t, o.Names, respPats)
			qt := rapid.SampledFrom(c07QTypes).Draw(t, "rqtype")
			rrs, ips := c07GenAnswers(t, name, v4, v6, noA)
			from := "asis"
			var fromUp *Upstream
			switch fk := rapid.IntRange(0, 9).Draw(t, "fromkind"); {
			case fk == 0 || len(ups) == 0:
				// nil = as-is
			case fk == 1:
				// the throw-away upstream the controller builds for as-is queries
				fromUp = &Upstream{Scheme: "udp", Hostname: "9.9.9.9", Port: 53}
			default:
				i := rapid.IntRange(0, len(ups)-1).Draw(t, "fromidx")
				from, fromUp = p.Upstreams[i].Tag, ups[i]
			}
			msg := new(dnsmessage.Msg)
			msg.SetQuestion(dnsmessage.Fqdn(name), qt)
			msg.Question[0].Name = name // as given (with or without the dot)
			msg.Response = true
			msg.Answer = rrs
			want, ri := c07RefResponse(p, name, qt, ips, from)
			idx, up, err := s.ResponseSelect(ctx, msg, fromUp)
			if err != nil {
				t.Fatalf("ResponseSelect(%q,%d,ips=%v,from=%s): %v\n%s", name, qt, ips, from, err, p)
			}
			if wi := c07RespIndex(p, want); idx != wi {
				t.Fatalf("ResponseSelect(%q,%d,ips=%v,from=%s) = %v, want %q (%v) by rule #%d\n%s", name, qt, ips, from, idx, want, wi, ri, p)
			}
			if want == "accept" || want == "reject" {
				if up != nil {
					t.Fatalf("ResponseSelect -> %s returned an upstream object", want)
				}
			} else if up != ups[p.UpstreamIndex(want)] {
				t.Fatalf("ResponseSelect(%q,%d) returned upstream object %v, want the one of %q\n%s", name, qt, up, want, p)
			}
			if ri >= 0 {
				fmt.Fprintf(&ntKey, "R%s/%d/%v/%s>%d;", name, qt, ips, from, ri)
				classes["resp_rule_hit"] = true
				for _, a := range p.Resp[ri].Atoms {
					classes["resp_decided_by_"+a.Fn] = true
					if a.Not {
						classes["resp_negated_atom_decisive"] = true
					}
				}
			} else {
				classes["resp_fallback"] = true
			}
			classes["resp_out_"+c07OutKind(want)] = true
			if len(ips) > 0 {
				classes["resp_with_addresses"] = true
			}
		}
		// not a request: must be refused, not routed
		{
			msg := new(dnsmessage.Msg)
			msg.SetQuestion("a.com.", dnsmessage.TypeA)
			if _, _, err := s.ResponseSelect(ctx, msg, nil); err == nil {
				t.Fatalf("ResponseSelect accepted a message that is not a response")
			}
		}

		key := ""
		if ntKey.Len() > 0 {
			key = p.String() + "#" + ntKey.String()
		}
		cl := []string{fmt.Sprintf("upstreams_%d", len(p.Upstreams))}
		for c := range classes {
			cl = append(cl, c)
		}
		if noA {
			cl = append(cl, "prog_has_v6_zero_prefix")
		}
		if c07HasNegSiblings(p.Req) || c07HasNegSiblings(p.Resp) {
			cl = append(cl, "prog_has_negated_sibling_rules")
		}
		sort.Strings(cl)
		vkCase(unit, key, func() any {
			return map[string]any{"program": p.String(), "decided": ntKey.String()}
		}, cl...)
	})
}

func c07OutKind(out string) string {
	switch out {
	case "asis", "reject", "accept":
		return out
	}
	return "upstream"
}

func c07HasNegSiblings(rules []c07Rule) bool {
	for i := 1; i < len(rules); i++ {
		a, b := rules[i-1], rules[i]
		if len(a.Atoms) == 1 && len(b.Atoms) == 1 && a.Atoms[0].Fn == b.Atoms[0].Fn && a.Atoms[0].Not && b.Atoms[0].Not && a.Out == b.Out {
			return true
		}
	}
	return false
}

// ---------------------------------------------------------------- invalid programs

type c07Breaker struct {
	name  string
	apply func(t *rapid.T, p *c07Program) bool // false: not applicable to this program
}

func c07PickRule(t *rapid.T, rules []c07Rule) int {
	var idx []int
	for i, r := range rules {
		if !c07Internal(r) {
			idx = append(idx, i)
		}
	}
	if len(idx) == 0 {
		return -1
	}
	return rapid.SampledFrom(idx).Draw(t, "ruleidx")
}

func c07InsertRule(t *rapid.T, rules []c07Rule, r c07Rule) []c07Rule {
	i := rapid.IntRange(0, len(rules)).Draw(t, "inspos")
	out := append([]c07Rule{}, rules[:i]...)
	out = append(out, r)
	return append(out, rules[i:]...)
}

var c07Breakers = []c07Breaker{
	{"req_rule_unknown_upstream", func(t *rapid.T, p *c07Program) bool {
		p.Req = c07InsertRule(t, p.Req, c07Rule{Atoms: []c07Atom{{Fn: "qtype", Params: []c07Param{{"", "a"}}}}, Out: rapid.SampledFrom([]string{"nosuch", "accept", "direct", ""}).Draw(t, "badout")})
		return true
	}},
	{"req_fallback_unknown_upstream", func(t *rapid.T, p *c07Program) bool {
		p.ReqFallback = rapid.SampledFrom([]string{"nosuch", "accept", "direct", "block"}).Draw(t, "badout")
		return true
	}},
	{"resp_rule_unknown_upstream", func(t *rapid.T, p *c07Program) bool {
		p.Resp = c07InsertRule(t, p.Resp, c07Rule{Atoms: []c07Atom{{Fn: "qtype", Params: []c07Param{{"", "a"}}}}, Out: rapid.SampledFrom([]string{"nosuch", "asis", "direct"}).Draw(t, "badout")})
		return true
	}},
	{"resp_fallback_unknown_upstream", func(t *rapid.T, p *c07Program) bool {
		p.RespFallback = rapid.SampledFrom([]string{"nosuch", "asis", "direct"}).Draw(t, "badout")
		return true
	}},
	{"resp_upstream_fn_unknown", func(t *rapid.T, p *c07Program) bool {
		p.Resp = c07InsertRule(t, p.Resp, c07Rule{Atoms: []c07Atom{{Fn: "upstream", Not: rapid.Bool().Draw(t, "not"), Params: []c07Param{{"", rapid.SampledFrom([]string{"nosuch", "asis"}).Draw(t, "badup")}}}}, Out: "accept"})
		return true
	}},
	{"fallback_must", func(t *rapid.T, p *c07Program) bool {
		f := &config_parser.Function{Params: []*config_parser.Param{{Val: "must"}}}
		if rapid.Bool().Draw(t, "side") {
			f.Name = p.ReqFallback
			p.ReqFallbackRaw = f
		} else {
			f.Name = p.RespFallback
			p.RespFallbackRaw = f
		}
		return true
	}},
	{"fallback_mark", func(t *rapid.T, p *c07Program) bool {
		f := &config_parser.Function{Params: []*config_parser.Param{{Key: "mark", Val: rapid.SampledFrom([]string{"1", "0x10", "4294967295"}).Draw(t, "mark")}}}
		if rapid.Bool().Draw(t, "side") {
			f.Name = p.ReqFallback
			p.ReqFallbackRaw = f
		} else {
			f.Name = p.RespFallback
			p.RespFallbackRaw = f
		}
		return true
	}},
	{"fallback_two_functions", func(t *rapid.T, p *c07Program) bool {
		if rapid.Bool().Draw(t, "side") {
			p.ReqFallbackRaw = []*config_parser.Function{{Name: p.ReqFallback}, {Name: p.ReqFallback}}
		} else {
			p.RespFallbackRaw = []*config_parser.Function{{Name: p.RespFallback}, {Name: p.RespFallback}}
		}
		return true
	}},
	{"fallback_bad_type", func(t *rapid.T, p *c07Program) bool {
		if rapid.Bool().Draw(t, "side") {
			p.ReqFallbackRaw = 42
		} else {
			p.RespFallbackRaw = []string{"accept"}
		}
		return true
	}},
	{"unknown_qtype", func(t *rapid.T, p *c07Program) bool {
		bad := rapid.SampledFrom([]string{"notatype", "65536", "-1", "a a", "", "0x10000", "ipv4"}).Draw(t, "badtype")
		r := c07Rule{Atoms: []c07Atom{{Fn: "qtype", Not: rapid.Bool().Draw(t, "not"), Params: []c07Param{{"", "a"}, {"", bad}}}}}
		if rapid.Bool().Draw(t, "side") {
			r.Out = p.ReqFallback
			p.Req = c07InsertRule(t, p.Req, r)
		} else {
			r.Out = p.RespFallback
			p.Resp = c07InsertRule(t, p.Resp, r)
		}
		return true
	}},
	{"unknown_function", func(t *rapid.T, p *c07Program) bool {
		if rapid.Bool().Draw(t, "side") {
			fn := rapid.SampledFrom([]string{"ip", "upstream", "domain", "dport", "pname"}).Draw(t, "fn")
			p.Req = c07InsertRule(t, p.Req, c07Rule{Atoms: []c07Atom{{Fn: fn, Params: []c07Param{{"", "10.0.0.0/8"}}}}, Out: p.ReqFallback})
		} else {
			fn := rapid.SampledFrom([]string{"dip", "domain", "sip", "l4proto"}).Draw(t, "fn")
			p.Resp = c07InsertRule(t, p.Resp, c07Rule{Atoms: []c07Atom{{Fn: fn, Params: []c07Param{{"", "10.0.0.0/8"}}}}, Out: p.RespFallback})
		}
		return true
	}},
	{"qname_unsupported_key", func(t *rapid.T, p *c07Program) bool {
		key := rapid.SampledFrom([]string{"domain", "contains", "prefix"}).Draw(t, "key")
		r := c07Rule{Atoms: []c07Atom{{Fn: "qname", Params: []c07Param{{key, "example.com"}}}}}
		if rapid.Bool().Draw(t, "side") {
			r.Out = p.ReqFallback
			p.Req = c07InsertRule(t, p.Req, r)
		} else {
			r.Out = p.RespFallback
			p.Resp = c07InsertRule(t, p.Resp, r)
		}
		return true
	}},
	{"bad_regex", func(t *rapid.T, p *c07Program) bool {
		r := c07Rule{Atoms: []c07Atom{{Fn: "qname", Params: []c07Param{{"suffix", "ok.com"}, {"regex", rapid.SampledFrom([]string{"(", "[a-", "a{2,1}", `\p{Nope}`}).Draw(t, "rx")}}}}}
		if rapid.Bool().Draw(t, "side") {
			r.Out = p.ReqFallback
			p.Req = c07InsertRule(t, p.Req, r)
		} else {
			r.Out = p.RespFallback
			p.Resp = c07InsertRule(t, p.Resp, r)
		}
		return true
	}},
	{"bad_cidr", func(t *rapid.T, p *c07Program) bool {
		bad := rapid.SampledFrom([]string{"1.2.3.4/33", "notanip", "1.2.3/24", "::/129", "10.0.0.0/8/8", ""}).Draw(t, "cidr")
		p.Resp = c07InsertRule(t, p.Resp, c07Rule{Atoms: []c07Atom{{Fn: "ip", Params: []c07Param{{"", "10.0.0.0/8"}, {"", bad}}}}, Out: p.RespFallback})
		return true
	}},
	{"upstream_fn_with_key", func(t *rapid.T, p *c07Program) bool {
		if len(p.Upstreams) == 0 {
			return false
		}
		p.Resp = c07InsertRule(t, p.Resp, c07Rule{Atoms: []c07Atom{{Fn: "upstream", Params: []c07Param{{"name", p.Upstreams[0].Tag}}}}, Out: p.RespFallback})
		return true
	}},
	{"upstream_without_tag", func(t *rapid.T, p *c07Program) bool {
		for _, u := range p.Upstreams {
			p.RawUpstreams = append(p.RawUpstreams, u.Tag+":"+u.URL)
		}
		bad := rapid.SampledFrom([]string{"udp://1.1.1.1:53", "1.1.1.1", "tcp+udp://[2001:db8::9]:53"}).Draw(t, "notag")
		i := rapid.IntRange(0, len(p.RawUpstreams)).Draw(t, "pos")
		p.RawUpstreams = append(p.RawUpstreams[:i:i], append([]string{bad}, p.RawUpstreams[i:]...)...)
		return true
	}},
	{"mix_qname_with_internal_selector", func(t *rapid.T, p *c07Program) bool {
		if len(p.Upstreams) == 0 {
			return false
		}
		atoms := []c07Atom{{Fn: "qname", Params: []c07Param{{"suffix", "example.com"}}}, {Fn: rapid.SampledFrom([]string{"sub", "node", "subnode"}).Draw(t, "ifn"), Params: []c07Param{{"", "x"}}}}
		if rapid.Bool().Draw(t, "order") {
			atoms[0], atoms[1] = atoms[1], atoms[0]
		}
		p.Req = c07InsertRule(t, p.Req, c07Rule{Atoms: atoms, Out: p.Upstreams[0].Tag})
		return true
	}},
}

func TestC07_Invalid(t *testing.T) {
	const unit = "C07.invalid"
	rapid.Check(t, func(t *rapid.T) {
		o := c07GenOptsDefault(unit)
		o.MaxRules = 5
		o.Names = []string{"example.com", "a.b.net"}
		p := c07GenProgram(t, o)
		// the unbroken program is valid
		if _, err := c07New(p); err != nil {
			t.Fatalf("dns.New failed on a valid program: %v\n%s", err, p)
		}
		br := rapid.SampledFrom(c07Breakers).Draw(t, "breaker")
		if !br.apply(t, p) {
			vkCase(unit, "", nil, "not_applicable")
			return
		}
		s, err := c07New(p)
		if err == nil {
			t.Fatalf("dns.New accepted an invalid program (%s): %s raw=%v/%v ups=%q", br.name, p, p.ReqFallbackRaw, p.RespFallbackRaw, p.RawUpstreams)
		}
		if strings.HasPrefix(err.Error(), "PANIC") {
			t.Fatalf("invalid program (%s) made dns.New panic instead of returning an error: %v\n%s", br.name, err, p)
		}
		if s != nil {
			t.Fatalf("dns.New returned both a router and an error (%s): %v", br.name, err)
		}
		if err.Error() == "" {
			t.Fatalf("empty error text (%s)", br.name)
		}
		vkCase(unit, br.name+"|"+p.String(), func() any {
			return map[string]any{"breaker": br.name, "program": p.String(), "error": err.Error()}
		}, "broken_by_"+br.name)
	})
}

// ---------------------------------------------------------------- findings

// F-C07-1: the DNS optimiser chain contains routing.MergeAndSortRulesOptimizer, which
// merges adjacent single-function rules with equal function name, negation and
// outbound by concatenating their parameter lists. For negated rules that turns
// "!f(A) -> X ; !f(B) -> X" (= not both) into "!f(A,B) -> X" (= neither).
func TestC07_Finding_F_C07_1(t *testing.T) {
	ctx := context.Background()
	p := &c07Program{
		Upstreams: []c07Upstream{{Tag: "alidns", URL: "udp://10.0.0.1:53", Host: "10.0.0.1"}},
		Req: []c07Rule{
			{Atoms: []c07Atom{{Fn: "qtype", Not: true, Params: []c07Param{{"", "a"}}}}, Out: "alidns"},
			{Atoms: []c07Atom{{Fn: "qtype", Not: true, Params: []c07Param{{"", "aaaa"}}}}, Out: "alidns"},
		},
		ReqFallback:  "reject",
		RespFallback: "accept",
	}
	s, err := c07New(p)
	if err != nil {
		t.Fatalf("dns.New: %v", err)
	}
	// Type A: rule 1 does not match (it is A), rule 2 matches (it is not AAAA) -> alidns.
	want, _ := c07RefRequest(p, "example.com.", dnsmessage.TypeA)
	if want != "alidns" {
		t.Fatalf("reference interpreter broken: %v", want)
	}
	idx, _, err := s.RequestSelect(ctx, "example.com.", dnsmessage.TypeA)
	if err != nil {
		t.Fatalf("RequestSelect: %v", err)
	}
	wrong := idx != c07ReqIndex(p, want)
	if c07KnownNegMerge() {
		if wrong {
			vkKnownReproduced("F-C07-1")
			t.Logf("F-C07-1 still reproduces: A question routed to %v, first matching rule says alidns", idx)
		} else {
			t.Logf("F-C07-1 no longer reproduces (listed as known)")
		}
		return
	}
	if wrong {
		t.Fatalf("request rules `!qtype(a)->alidns; !qtype(aaaa)->alidns; fallback: reject`: an A question is routed to %v, but the first matching rule (#1, it is not AAAA) names alidns", idx)
	}
}

// F-C07-2: ip(::/0) in a response rule (any IPv6 answer). pkg/trie Prefix2bin128
// never stops for a zero-length IPv6 prefix, so the rule only matches "::".
func TestC07_Finding_F_C07_2(t *testing.T) {
	ctx := context.Background()
	p := &c07Program{
		Upstreams:    []c07Upstream{{Tag: "alidns", URL: "udp://10.0.0.1:53", Host: "10.0.0.1"}},
		ReqFallback:  "asis",
		Resp:         []c07Rule{{Atoms: []c07Atom{{Fn: "ip", Params: []c07Param{{"", c07V6Zero}}}}, Out: "reject"}},
		RespFallback: "accept",
	}
	s, err := c07New(p)
	if err != nil {
		t.Fatalf("dns.New: %v", err)
	}
	msg := new(dnsmessage.Msg)
	msg.SetQuestion("example.com.", dnsmessage.TypeAAAA)
	msg.Response = true
	ip := netip.MustParseAddr("2001:db8::1")
	msg.Answer = []dnsmessage.RR{&dnsmessage.AAAA{Hdr: dnsmessage.RR_Header{Name: "example.com.", Rrtype: dnsmessage.TypeAAAA, Class: dnsmessage.ClassINET, Ttl: 60}, AAAA: net.IP(ip.AsSlice())}}
	idx, _, err := s.ResponseSelect(ctx, msg, nil)
	if err != nil {
		t.Fatalf("ResponseSelect: %v", err)
	}
	wrong := idx != consts.DnsResponseOutboundIndex_Reject
	if c07KnownV6Zero() {
		if wrong {
			vkKnownReproduced("F-C07-2")
			t.Logf("F-C07-2 still reproduces: answer 2001:db8::1 vs ip(::/0) -> %v", idx)
		} else {
			t.Logf("F-C07-2 no longer reproduces (listed as known)")
		}
		return
	}
	if wrong {
		t.Fatalf("response rules `ip(::/0)->reject; fallback: accept`: an answer with AAAA 2001:db8::1 is routed to %v, the first matching rule says reject", idx)
	}
}

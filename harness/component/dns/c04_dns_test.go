package dns

// C04 — rule normalisation never changes meaning: the DNS request and DNS response
// routing pipelines. A generated dns section (text) is parsed ONCE (config_parser.Parse
// -> config.New) and that one configuration object is then compiled by the production
// pipelines in sequence: the request-program compile exactly as component/daedns
// router.go wires it (the real Router is driven by harness/component/daedns), then
// dns.New, then dns.New again (a reload / second pipeline re-compiling the same
// parsed config). After EACH compilation (a) the parsed object must equal the snapshot
// taken right after parsing (own walker) and (b) every question and answer must be
// decided by every compiled matcher as the independent interpreter of the written
// lists says. Generator, interpreter and snapshot live in c04_dnsgen_test.go.

import (
	"fmt"
	"io"
	"net/netip"
	"os"
	"sort"
	"testing"
	"time"

	"github.com/daeuniverse/dae/common/assets"
	"github.com/daeuniverse/dae/common/consts"
	"github.com/daeuniverse/dae/component/routing"
	"github.com/daeuniverse/dae/config"
	"github.com/sirupsen/logrus"
	"pgregory.net/rapid"
)

func c04dLog() *logrus.Logger {
	log := logrus.New()
	log.SetOutput(io.Discard)
	log.SetLevel(logrus.ErrorLevel)
	return log
}

func c04dFinder(geoDir string) *assets.LocationFinder {
	var dirs []string
	if geoDir != "" {
		dirs = []string{geoDir}
	}
	return assets.NewLocationFinder(dirs)
}

// c04dNew = dns.New on an already parsed configuration.
func c04dNew(conf *config.Config, geoDir string) (d *Dns, err error) {
	defer func() {
		if r := recover(); r != nil {
			err = fmt.Errorf("panic: %v", r)
		}
	}()
	return New(&conf.Dns, &NewOption{
		Logger:                c04dLog(),
		LocationFinder:        c04dFinder(geoDir),
		UpstreamReadyCallback: func(*Upstream) error { return nil },
	})
}

// c04dRouterStyleRequest compiles the request rules the way component/daedns
// NewWithOption does (router.go:118): same optimiser chain, same builder.
func c04dRouterStyleRequest(conf *config.Config, p c04dProg, geoDir string) (m *RequestMatcher, err error) {
	defer func() {
		if r := recover(); r != nil {
			err = fmt.Errorf("panic: %v", r)
		}
	}()
	log := c04dLog()
	program, err := NewNormalizedRequestRoutingProgram(conf.Dns.Routing.Request.Rules, conf.Dns.Routing.Request.Fallback,
		&routing.DatReaderOptimizer{Logger: log, LocationFinder: c04dFinder(geoDir)},
		&routing.MergeAndSortRulesOptimizer{},
		&routing.DeduplicateParamsOptimizer{},
	)
	if err != nil {
		return nil, err
	}
	name2id := map[string]uint8{}
	for i, u := range p.Upstreams {
		name2id[u] = uint8(i)
	}
	b, err := NewRequestMatcherBuilderFromProgram(log, program, name2id)
	if err != nil {
		return nil, err
	}
	return b.Build()
}

type c04dReqFn struct {
	What string
	Fn   func(qname string, qtype uint16) (consts.DnsRequestOutboundIndex, error)
}

type c04dRespFn struct {
	What string
	Fn   func(qname string, qtype uint16, ips []netip.Addr, from consts.DnsRequestOutboundIndex) (consts.DnsResponseOutboundIndex, error)
}

func TestC04_Dns(t *testing.T) {
	nprobe := 16
	if vkThorough() {
		nprobe = 32
	}
	deadline, hasDeadline := t.Deadline()
	rapid.Check(t, func(t *rapid.T) {
		if hasDeadline && time.Until(deadline) < 150*time.Second {
			// wall-clock budget nearly used up on a busy machine: stop exploring (never a verdict)
			vkClass("C04.dns", "skipped_wall_clock_budget")
			return
		}
		geoDir, err := c04dGeoDir()
		if err != nil {
			t.Fatalf("harness: geodata: %v", err)
		}
		p := c04dGenProg(t)
		text := c04dRender(p)
		conf, err := c04dParse(text)
		if err != nil {
			t.Fatalf("well-formed dns section rejected: %v\n%s", err, text)
		}
		parsed := c04dSnapshotDns(conf)
		unchanged := func(stage string) {
			if now := c04dSnapshotDns(conf); now != parsed && os.Getenv("VERIF_C04_DECISIONS_ONLY") == "" { // knob for sensitivity runs only
				t.Fatalf("%s changed the parsed configuration object (the optimiser chain must work on its own copy)\n--- config ---\n%s--- as parsed ---\n%s--- now ---\n%s", stage, text, parsed, now)
			}
		}
		var reqs []c04dReqFn
		var resps []c04dRespFn
		// the order of the first two stages is drawn: router-style compile first (as
		// control_plane.go does) or dns.New first
		routerFirst := rapid.Bool().Draw(t, "router_first")
		stageRouter := func() {
			rm, err := c04dRouterStyleRequest(conf, p, geoDir)
			if err != nil {
				t.Fatalf("router-style request compile of the parsed configuration failed: %v\n%s", err, text)
			}
			unchanged("the router-style request compile")
			reqs = append(reqs, c04dReqFn{"router-style request compile", rm.Match})
		}
		stageNew := func(what string) {
			d, err := c04dNew(conf, geoDir)
			if err != nil {
				t.Fatalf("%s of the parsed configuration failed: %v\n%s", what, err, text)
			}
			unchanged(what)
			reqs = append(reqs, c04dReqFn{what, d.reqMatcher.Match})
			resps = append(resps, c04dRespFn{what, d.respMatcher.Match})
		}
		if routerFirst {
			stageRouter()
			stageNew("dns.New #1 (after the router-style compile)")
		} else {
			stageNew("dns.New #1")
			stageRouter()
		}
		stageNew("dns.New #2 (same parsed configuration)")

		for i := 0; i < p.ExcludedF1; i++ {
			vkExcluded("C04.dns", "F1")
		}
		for i := 0; i < p.ExcludedF2; i++ {
			vkExcluded("C04.dns", "F2")
		}
		seeds := c04dSeeds(p)
		pf := c04dAllPrefixes(p)
		reqTouched, respTouched := c04dTouched(p.Req), c04dTouched(p.Resp)
		qtypes := []int{1, 28, 5, 16, 65, 255, 0, 2}
		for i := 0; i < nprobe; i++ {
			// request
			k := c04dProbe{QName: c04dGenQName(t, seeds, true), QType: uint16(rapid.SampledFrom(qtypes).Draw(t, "qtype")), From: -1}
			want, by := c04dInterpret(p, p.Req, p.ReqFallback, k)
			for _, f := range reqs {
				gotIdx, err := f.Fn(k.QName, k.QType)
				if got := c04dReqName(p, gotIdx); err != nil || got != want {
					t.Fatalf("DNS request routing, %s: compiled program answers %q (err=%v), the written rule list says %q (rule %d)\nquestion %+v\n%s", f.What, got, err, want, by, k, text)
				}
			}
			nt, cls := "", []string{"req"}
			if by >= 0 && len(reqTouched[by]) > 0 {
				nt = "req\x00" + text + fmt.Sprintf("%+v", k)
				for c := range reqTouched[by] {
					cls = append(cls, "req_decided_by_"+c)
				}
			}
			sort.Strings(cls)
			kk := k
			vkCase("C04.dns", nt, func() any {
				return map[string]any{"config": text, "question": fmt.Sprintf("%+v", kk), "decision": want}
			}, cls...)

			// response
			k = c04dProbe{QName: c04dGenQName(t, seeds, false), QType: uint16(rapid.SampledFrom(qtypes).Draw(t, "rqtype")), From: rapid.IntRange(-1, len(p.Upstreams)-1).Draw(t, "from")}
			nips := rapid.IntRange(0, 3).Draw(t, "nips")
			for j := 0; j < nips; j++ {
				k.Ips = append(k.Ips, c04dGenAddr(t, pf))
			}
			want, by = c04dInterpret(p, p.Resp, p.RespFallback, k)
			from := consts.DnsRequestOutboundIndex_AsIs
			if k.From >= 0 {
				from = consts.DnsRequestOutboundIndex(k.From)
			}
			for _, f := range resps {
				gotR, err := f.Fn(k.QName, k.QType, k.Ips, from)
				if got := c04dRespName(p, gotR); err != nil || got != want {
					t.Fatalf("DNS response routing, %s: compiled program answers %q (err=%v), the written rule list says %q (rule %d)\nanswer %+v\n%s", f.What, got, err, want, by, k, text)
				}
			}
			nt, cls = "", []string{"resp"}
			if by >= 0 && len(respTouched[by]) > 0 {
				nt = "resp\x00" + text + fmt.Sprintf("%+v", k)
				for c := range respTouched[by] {
					cls = append(cls, "resp_decided_by_"+c)
				}
			}
			sort.Strings(cls)
			kk2 := k
			vkCase("C04.dns", nt, func() any {
				return map[string]any{"config": text, "answer": fmt.Sprintf("%+v", kk2), "decision": want}
			}, cls...)
		}
	})
}

func TestC04_Finding_F1_Dns(t *testing.T) {
	p := c04dProg{
		Upstreams: []string{"u0"},
		Req: []c04dRule{
			{Conds: []c04dCond{{Func: "qname", Not: true, Vals: []c04dVal{{Key: "suffix", Val: "a.com"}}}}, Out: "u0"},
			{Conds: []c04dCond{{Func: "qname", Not: true, Vals: []c04dVal{{Key: "suffix", Val: "b.com"}}}}, Out: "u0"},
		},
		ReqFallback: "asis",
		Resp: []c04dRule{
			{Conds: []c04dCond{{Func: "ip", Not: true, Vals: []c04dVal{{Val: "1.0.0.0/8"}}}}, Out: "reject"},
			{Conds: []c04dCond{{Func: "ip", Not: true, Vals: []c04dVal{{Val: "2.0.0.0/8"}}}}, Out: "reject"},
		},
		RespFallback: "accept",
	}
	conf, err := c04dParse(c04dRender(p))
	if err != nil {
		t.Fatalf("parse: %v", err)
	}
	d, err := c04dNew(conf, "")
	if err != nil {
		t.Fatalf("build: %v", err)
	}
	bad := []string{}
	k := c04dProbe{QName: "a.com.", QType: 1, From: -1}
	want, _ := c04dInterpret(p, p.Req, p.ReqFallback, k)
	if want != "u0" {
		t.Fatalf("reference: want u0, got %s", want)
	}
	if g, err := d.reqMatcher.Match(k.QName, k.QType); err != nil || c04dReqName(p, g) != want {
		bad = append(bad, fmt.Sprintf("request a.com: got %s want %s", c04dReqName(p, g), want))
	}
	k = c04dProbe{QName: "x.org.", QType: 1, From: 0, Ips: []netip.Addr{netip.MustParseAddr("1.1.1.1")}}
	want, _ = c04dInterpret(p, p.Resp, p.RespFallback, k)
	if want != "reject" {
		t.Fatalf("reference: want reject, got %s", want)
	}
	if g, err := d.respMatcher.Match(k.QName, k.QType, k.Ips, 0); err != nil || c04dRespName(p, g) != want {
		bad = append(bad, fmt.Sprintf("response 1.1.1.1: got %s want %s", c04dRespName(p, g), want))
	}
	if vkKnown("F1") {
		if len(bad) > 0 {
			vkKnownReproduced("F1")
			t.Logf("known finding F1 still reproduces in the DNS pipelines: %v", bad)
		} else {
			t.Logf("known finding F1 no longer reproduces in the DNS pipelines")
		}
		vkCase("C04.finding_f1_dns", "f1-known", nil)
		return
	}
	if len(bad) > 0 {
		t.Fatalf("neighbouring negated rules merged (F1): %v", bad)
	}
	vkCase("C04.finding_f1_dns", "f1", nil)
}

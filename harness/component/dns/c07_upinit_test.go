package dns

// C07 (d) — "answering upstream" under lazy upstream initialisation. The response
// router learns which *Upstream object belongs to which configured upstream when the
// resolver's FinishInitCallback registers it. Two or three questions routed to a
// not-yet-initialised upstream race through UpstreamResolver.GetUpstream under a
// rapid-chosen interleaving: a caller is parked inside the ready callback (i.e. before
// its upstream object is registered) while the others run, then resumed. Whenever a
// caller gets its upstream from RequestSelect, an answer "from" that object is routed
// with ResponseSelect at once: the decision must be the one the first matching
// response rule gives for the NAMED upstream (upstream(name) rules must see it), never
// the one for an unknown/as-is resolver. Parking uses channels; a bounded wait that
// expires makes the case inconclusive, never a violation.

import (
	"context"
	"errors"
	"fmt"
	"net"
	"net/netip"
	"net/url"
	"sort"
	"strings"
	"sync"
	"sync/atomic"
	"testing"
	"time"

	dnsmessage "github.com/miekg/dns"
	"pgregory.net/rapid"
)

type c07InitEvent struct {
	Kind   string // parked | done
	Caller int
	Park   chan struct{} // parked: close to resume
	Up     *Upstream
	Err    error
}

func TestC07_UpstreamInit(t *testing.T) {
	const unit = "C07.upinit"
	origNew := newUpstreamFunc
	defer func() { newUpstreamFunc = origNew }()
	var initCalls atomic.Int64
	var targetHost atomic.Value
	var failLeft atomic.Int64 // injected initialisation failures still to come (raced upstream only)
	newUpstreamFunc = func(ctx context.Context, raw *url.URL, network string, r resolveUpstreamIp46Func) (*Upstream, error) {
		if h, _ := targetHost.Load().(string); h != "" && raw.Hostname() == h {
			if failLeft.Load() > 0 {
				failLeft.Add(-1)
				return nil, errors.New("c07: injected fault: upstream cannot be initialised right now")
			}
			initCalls.Add(1) // initialisations of the raced upstream only
		}
		return origNew(ctx, raw, network, r)
	}
	inconclusive := 0

	rapid.Check(t, func(t *rapid.T) {
		ctx := context.Background()
		o := c07GenOptsDefault(unit)
		o.MinUpstreams, o.MaxUpstreams, o.MaxRules, o.Internal = 1, 3, 4, false
		o.AvoidV6Zero = true
		o.Names = []string{"example.com", "a.b.net"}
		p := c07GenProgram(t, o)
		target := rapid.IntRange(0, len(p.Upstreams)-1).Draw(t, "target")
		tag := p.Upstreams[target].Tag
		targetHost.Store(p.Upstreams[target].Host)
		// the request side sends everything to the target; the response side gets an
		// upstream(target) rule at a random position so that recognising the
		// answering upstream matters
		p.Req, p.ReqFallback = nil, tag
		outs := []string{"accept", "reject"}
		for _, u := range p.Upstreams {
			if u.Tag != tag {
				outs = append(outs, u.Tag)
			}
		}
		ur := c07Rule{Atoms: []c07Atom{{Fn: "upstream", Not: rapid.IntRange(0, 4).Draw(t, "unot") == 0, Params: []c07Param{{"", tag}}}}, Out: rapid.SampledFrom(outs).Draw(t, "uout")}
		p.Resp = c07InsertRule(t, p.Resp, ur)
		if c07KnownNegMerge() {
			for i := 1; i < len(p.Resp); i++ {
				a, b := p.Resp[i-1], p.Resp[i]
				if len(a.Atoms) == 1 && len(b.Atoms) == 1 && a.Atoms[0].Fn == b.Atoms[0].Fn && a.Atoms[0].Not && b.Atoms[0].Not && a.Out == b.Out {
					p.Resp[i].Atoms[0].Not = false
				}
			}
		}

		// ---- router whose ready callback parks its caller
		events := make(chan c07InitEvent, 16)
		var parkMu sync.Mutex
		parkEnabled := true
		callbacks := 0
		s, err := New(p.Config(), &NewOption{
			Logger: c07Log(),
			UpstreamReadyCallback: func(u *Upstream) error {
				parkMu.Lock()
				callbacks++
				en := parkEnabled
				parkMu.Unlock()
				if !en || u == nil || u.Hostname != p.Upstreams[target].Host {
					return nil
				}
				ch := make(chan struct{})
				events <- c07InitEvent{Kind: "parked", Park: ch}
				<-ch
				return nil
			},
		})
		if err != nil {
			t.Fatalf("dns.New failed on a valid program: %v\n%s", err, p)
		}
		initBefore := initCalls.Load()

		name := rapid.SampledFrom([]string{"example.com.", "a.b.net.", "X.example.COM."}).Draw(t, "qname")
		qt := rapid.SampledFrom([]uint16{dnsmessage.TypeA, dnsmessage.TypeAAAA, dnsmessage.TypeTXT}).Draw(t, "qtype")
		v4, v6 := c07EdgeAddrs(p)
		rrs, ips := c07GenAnswersSimple(t, name, v4, v6)
		want, ri := c07RefResponse(p, name, qt, ips, tag)
		wantAsis, _ := c07RefResponse(p, name, qt, ips, "asis")

		// ---- fault: the first 0-2 initialisations of the target fail (host does not
		// resolve, bootstrap resolver down). A question routed to it must then fail -
		// it must never be handed to another resolver (as-is or another upstream) as
		// if the rules had said so. The next call retries the initialisation.
		failN := rapid.SampledFrom([]int{0, 0, 1, 2}).Draw(t, "init_failures")
		failLeft.Store(int64(failN))
		for i := 0; i < failN; i++ {
			idx, up, err := s.RequestSelect(ctx, name, qt)
			if err == nil && (int(idx) != target || up == nil) {
				t.Fatalf("the rules send %q to upstream %q, whose initialisation failed (injected fault, attempt %d): RequestSelect returned index %v upstream %v without an error - the question goes somewhere the rules do not name\n%s", name, tag, i+1, idx, up, p)
			}
		}
		failLeft.Store(0)

		judgeUp := func(who string, up *Upstream) {
			msg := new(dnsmessage.Msg)
			msg.SetQuestion(name, qt)
			msg.Response = true
			msg.Answer = rrs
			idx, _, err := s.ResponseSelect(ctx, msg, up)
			if err != nil {
				t.Fatalf("%s: ResponseSelect: %v\n%s", who, err, p)
			}
			if wi := c07RespIndex(p, want); idx != wi {
				t.Fatalf("%s: the answer of upstream %q (object %p obtained from RequestSelect) is routed to %v; the first matching response rule (#%d) for an answer from %q says %q (an answer from an unknown/as-is resolver would get %q)\n%s", who, tag, up, idx, ri, tag, want, wantAsis, p)
			}
		}

		// ---- rapid-chosen interleaving
		nCallers := rapid.IntRange(2, 3).Draw(t, "ncallers")
		started, finished := 0, 0
		var parked []c07InitEvent
		var schedule []string
		abandon := func() {
			parkMu.Lock()
			parkEnabled = false
			parkMu.Unlock()
			for _, e := range parked {
				close(e.Park)
			}
			parked = nil
		}
		defer abandon()
		overlapSeen := false
		waitEvent := func() (c07InitEvent, bool) {
			tm := time.NewTimer(10 * time.Second)
			defer tm.Stop()
			select {
			case e := <-events:
				return e, true
			case <-tm.C:
				return c07InitEvent{}, false
			}
		}
		handle := func(e c07InitEvent) {
			switch e.Kind {
			case "parked":
				parked = append(parked, e)
			case "done":
				finished++
				if e.Err != nil || e.Up == nil {
					t.Fatalf("caller %d: RequestSelect on an IP-literal upstream failed: up=%v err=%v (schedule %v)", e.Caller, e.Up, e.Err, schedule)
				}
				judgeUp(fmt.Sprintf("caller %d (schedule %v, %d still parked before registration)", e.Caller, schedule, len(parked)), e.Up)
			}
		}
		for finished < nCallers {
			canStart := started < nCallers
			canRelease := len(parked) > 0
			var act string
			switch {
			case canStart && canRelease:
				act = rapid.SampledFrom([]string{"start", "start", "release"}).Draw(t, "act")
			case canStart:
				act = "start"
			case canRelease:
				act = "release"
			default:
				t.Fatalf("harness: nothing to do but %d/%d callers finished (schedule %v)", finished, nCallers, schedule)
			}
			if act == "start" {
				if len(parked) > 0 {
					overlapSeen = true
				}
				j := started
				started++
				schedule = append(schedule, fmt.Sprintf("start%d", j))
				go func() {
					idx, up, err := s.RequestSelect(ctx, name, qt)
					if err == nil && int(idx) != target {
						err = fmt.Errorf("RequestSelect index %v, want %d", idx, target)
					}
					events <- c07InitEvent{Kind: "done", Caller: j, Up: up, Err: err}
				}()
			} else {
				k := rapid.IntRange(0, len(parked)-1).Draw(t, "which")
				schedule = append(schedule, fmt.Sprintf("release%d", k))
				close(parked[k].Park)
				parked = append(parked[:k], parked[k+1:]...)
			}
			// exactly one goroutine is runnable now: wait for what it does next
			e, ok := waitEvent()
			if !ok {
				inconclusive++
				abandon()
				vkCase(unit, "", nil, "inconclusive_wait_expired")
				return
			}
			handle(e)
		}
		if len(parked) != 0 {
			t.Fatalf("harness: callers finished but %d callbacks still parked", len(parked))
		}

		// ---- afterwards: cached, no further initialisation, still recognised
		initRace := initCalls.Load() - initBefore
		parkMu.Lock()
		parkEnabled = false
		cbRace := callbacks
		parkMu.Unlock()
		_, up, err := s.RequestSelect(ctx, name, qt)
		if err != nil || up == nil {
			t.Fatalf("RequestSelect after initialisation: up=%v err=%v", up, err)
		}
		judgeUp("a later question", up)
		if n := initCalls.Load() - initBefore; n != initRace {
			t.Fatalf("the upstream was initialised again (%d -> %d initialiser calls) after a successful initialisation (schedule %v)", initRace, n, schedule)
		}
		parkMu.Lock()
		cbAfter := callbacks
		parkMu.Unlock()
		if cbAfter != cbRace {
			t.Fatalf("the ready callback ran again after a successful initialisation (schedule %v)", schedule)
		}
		if initRace < 1 || initRace > int64(nCallers) {
			t.Fatalf("%d initialiser calls for %d racing callers (schedule %v)", initRace, nCallers, schedule)
		}

		key := ""
		cl := []string{fmt.Sprintf("callers_%d", nCallers), fmt.Sprintf("initialiser_calls_%d", initRace), fmt.Sprintf("init_failures_first_%d", failN)}
		if want != wantAsis {
			key = p.String() + "#" + strings.Join(schedule, ",") + fmt.Sprintf("#%s/%d/%v", name, qt, ips)
			cl = append(cl, "recognition_changes_decision")
		}
		overlap := overlapSeen
		if overlap {
			cl = append(cl, "caller_started_while_another_parked_before_registration")
		}
		sort.Strings(cl)
		vkCase(unit, key, func() any {
			return map[string]any{"program": p.String(), "schedule": strings.Join(schedule, ","), "target": tag}
		}, cl...)
	})
	vkNote(unit, "inconclusive (bounded wait expired) cases: %d", inconclusive)
}

func c07GenAnswersSimple(t *rapid.T, owner string, v4, v6 []netip.Addr) ([]dnsmessage.RR, []netip.Addr) {
	n := rapid.IntRange(0, 3).Draw(t, "nans")
	var rrs []dnsmessage.RR
	var ips []netip.Addr
	fq := dnsmessage.Fqdn(owner)
	for i := 0; i < n; i++ {
		if rapid.Bool().Draw(t, "v4") {
			a := rapid.SampledFrom(v4).Draw(t, "a")
			rrs = append(rrs, &dnsmessage.A{Hdr: dnsmessage.RR_Header{Name: fq, Rrtype: dnsmessage.TypeA, Class: dnsmessage.ClassINET, Ttl: 60}, A: net.IP(a.AsSlice())})
			ips = append(ips, a)
		} else {
			a := rapid.SampledFrom(v6).Draw(t, "aaaa")
			rrs = append(rrs, &dnsmessage.AAAA{Hdr: dnsmessage.RR_Header{Name: fq, Rrtype: dnsmessage.TypeAAAA, Class: dnsmessage.ClassINET, Ttl: 60}, AAAA: net.IP(a.AsSlice())})
			ips = append(ips, a)
		}
	}
	return rrs, ips
}

package dns

// C12 — DNS response routing `ip()`: ResponseMatcher.Match follows CIDR containment
// of the answer addresses (a condition holds when some answer address lies in some
// prefix of the set; IPv4 treated as IPv4-mapped IPv6).

import (
	"fmt"
	"io"
	"net/netip"
	"sort"
	"strings"
	"testing"

	"github.com/daeuniverse/dae/common/consts"
	"github.com/daeuniverse/dae/pkg/config_parser"
	"github.com/sirupsen/logrus"
	"pgregory.net/rapid"
)

type c12DnsCond struct {
	Not bool
	Set []netip.Prefix
}

type c12DnsRule struct {
	Conds []c12DnsCond
	Out   string
	ID    consts.DnsResponseOutboundIndex
}

func c12DnsLog() *logrus.Logger {
	l := logrus.New()
	l.SetOutput(io.Discard)
	return l
}

func c12DnsRulesString(rules []c12DnsRule) string {
	var sb strings.Builder
	for _, r := range rules {
		cs := []string{}
		for _, c := range r.Conds {
			ss := make([]string, len(c.Set))
			for i, p := range c.Set {
				ss[i] = p.String()
			}
			n := ""
			if c.Not {
				n = "!"
			}
			cs = append(cs, n+"ip("+strings.Join(ss, ",")+")")
		}
		fmt.Fprintf(&sb, "%s -> %s; ", strings.Join(cs, " && "), r.Out)
	}
	return sb.String()
}

func c12HasV6Len0(set []netip.Prefix) bool {
	for _, p := range set {
		if !p.Addr().Is4() && p.Bits() == 0 {
			return true
		}
	}
	return false
}

func TestC12_DnsResponseIp(t *testing.T) {
	known := vkKnown("F2")
	upstreams := map[string]uint8{"u0": 0, "u1": 1, "u2": 2}
	outs := []struct {
		name string
		id   consts.DnsResponseOutboundIndex
	}{
		{"accept", consts.DnsResponseOutboundIndex_Accept},
		{"reject", consts.DnsResponseOutboundIndex_Reject},
		{"u0", 0}, {"u1", 1}, {"u2", 2},
	}
	rapid.Check(t, func(t *rapid.T) {
		g := c12NewGen(t, known)
		nr := rapid.IntRange(1, 5).Draw(t, "nrules")
		var rules []c12DnsRule
		var cfg []*config_parser.RoutingRule
		var allSets [][]netip.Prefix
		var nextSet []netip.Prefix // the other half of a pair of split twins
		for r := 0; r < nr; r++ {
			o := outs[rapid.IntRange(0, len(outs)-1).Draw(t, "out")]
			rule := c12DnsRule{Out: o.name, ID: o.id}
			cr := &config_parser.RoutingRule{Outbound: config_parser.Function{Name: o.name}}
			nc := rapid.SampledFrom([]int{1, 1, 2}).Draw(t, "nconds")
			for c := 0; c < nc; c++ {
				cond := c12DnsCond{Not: rapid.IntRange(0, 3).Draw(t, "not") == 0}
				if nextSet != nil {
					cond.Set, nextSet = nextSet, nil
				} else if len(allSets) > 0 && rapid.IntRange(0, 3).Draw(t, "reuse") == 0 {
					cond.Set = rapid.Permutation(rapid.SampledFrom(allSets).Draw(t, "reused")).Draw(t, "perm")
				} else if len(allSets) > 0 && rapid.IntRange(0, 3).Draw(t, "derive") == 0 {
					// a near-copy of an earlier set: sets that are almost (but not) identical
					// must stay independent whatever the matcher shares internally
					base := append([]netip.Prefix(nil), rapid.SampledFrom(allSets).Draw(t, "derived_from")...)
					switch rapid.IntRange(0, 2).Draw(t, "derive_how") {
					case 0:
						extra := rapid.SampledFrom([]string{"::/0", "0.0.0.0/0", "::/1", "8000::/1", "::ffff:0:0/96"}).Draw(t, "derive_extra")
						if !(known && extra == "::/0") {
							base = append(base, netip.MustParsePrefix(extra))
						}
					case 1:
						if len(base) > 1 {
							k := rapid.IntRange(0, len(base)-1).Draw(t, "derive_drop")
							base = append(base[:k], base[k+1:]...)
						}
					default:
						k := rapid.IntRange(0, len(base)-1).Draw(t, "derive_widen")
						if b := base[k].Bits(); b > 1 {
							base[k] = netip.PrefixFrom(base[k].Addr(), b-1).Masked()
						}
					}
					cond.Set = base
				} else if rapid.IntRange(0, 7).Draw(t, "split_twins") == 0 {
					// two sets whose prefixes spell the same bit string, cut at different
					// places: {S[:i], S[i:]} here, {S[:j], S[j:]} for a later condition
					bits := rapid.SliceOfN(rapid.IntRange(0, 1), 3, 14).Draw(t, "twin_bits")
					mk := func(bs []int) netip.Prefix {
						var a [16]byte
						for i, b := range bs {
							if b == 1 {
								a[i/8] |= 0x80 >> uint(i%8)
							}
						}
						return netip.PrefixFrom(netip.AddrFrom16(a), len(bs))
					}
					i := rapid.IntRange(1, len(bits)-1).Draw(t, "twin_cut")
					cond.Set = []netip.Prefix{mk(bits[:i]), mk(bits[i:])}
					j := rapid.IntRange(1, len(bits)-1).Draw(t, "twin_cut2")
					nextSet = []netip.Prefix{mk(bits[:j]), mk(bits[j:])} // the next condition
				} else {
					cond.Set = g.set(t, rapid.SampledFrom([]int{1, 3, 8, 30}).Draw(t, "max"))
				}
				allSets = append(allSets, cond.Set)
				f := &config_parser.Function{Name: consts.Function_Ip, Not: cond.Not}
				for _, p := range cond.Set {
					f.Params = append(f.Params, &config_parser.Param{Val: p.String()})
				}
				cr.AndFunctions = append(cr.AndFunctions, f)
				rule.Conds = append(rule.Conds, cond)
			}
			rules = append(rules, rule)
			cfg = append(cfg, cr)
		}
		fb := outs[rapid.IntRange(0, len(outs)-1).Draw(t, "fallback")]
		b, err := NewResponseMatcherBuilder(c12DnsLog(), cfg, upstreams, fb.name)
		if err != nil {
			t.Fatalf("NewResponseMatcherBuilder(%s): %v", c12DnsRulesString(rules), err)
		}
		m, err := b.Build()
		if err != nil {
			t.Fatalf("Build: %v", err)
		}
		var pool [][16]byte
		for _, s := range allSets {
			ps, _ := g.probes(t, s, 1)
			pool = append(pool, ps...)
		}
		nq := rapid.IntRange(6, 30).Draw(t, "nanswers")
		seen := map[consts.DnsResponseOutboundIndex]bool{}
		for q := 0; q < nq; q++ {
			nips := rapid.SampledFrom([]int{0, 1, 1, 1, 2, 3}).Draw(t, "nips")
			var ips []netip.Addr
			for i := 0; i < nips; i++ {
				a := netip.AddrFrom16(rapid.SampledFrom(pool).Draw(t, "ip"))
				if a.Is4In6() && rapid.Bool().Draw(t, "asv4") {
					a = a.Unmap() // A records arrive as 4-byte addresses
				}
				ips = append(ips, a)
			}
			want := fb.id
			for _, r := range rules {
				all := true
				for _, c := range r.Conds {
					in := false
					for _, a := range ips {
						if c12SetContains(c.Set, a) {
							in = true
						}
					}
					if in == c.Not {
						all = false
						break
					}
				}
				if all {
					want = r.ID
					break
				}
			}
			got, err := m.Match("example.com", 1, ips, consts.DnsRequestOutboundIndex(0))
			if err != nil {
				t.Fatalf("Match: %v", err)
			}
			if got != want {
				t.Fatalf("answers %v: Match -> %v, containment says %v\nrules: %s fallback %s", ips, got, want, c12DnsRulesString(rules), fb.name)
			}
			seen[want] = true
		}
		if g.exclN > 0 {
			vkExcluded("C12.dnsip", "F2")
		}
		key := ""
		if len(seen) > 1 {
			key = c12DnsRulesString(rules)
		}
		cl := []string{}
		for _, s := range allSets {
			cl = append(cl, c12SetClasses(s)...)
		}
		sort.Strings(cl)
		uniq := cl[:0]
		for i, c := range cl {
			if i == 0 || cl[i-1] != c {
				uniq = append(uniq, c)
			}
		}
		vkCase("C12.dnsip", key, func() any {
			return map[string]any{"rules": c12DnsRulesString(rules), "fallback": fb.name}
		}, uniq...)
	})
}

// `ip(::/0) -> reject` must reject every answer (finding F2 at the DNS level).
func TestC12_Finding_F2(t *testing.T) {
	cfg := []*config_parser.RoutingRule{{
		AndFunctions: []*config_parser.Function{{Name: consts.Function_Ip, Params: []*config_parser.Param{{Val: "::/0"}}}},
		Outbound:     config_parser.Function{Name: "reject"},
	}}
	b, err := NewResponseMatcherBuilder(c12DnsLog(), cfg, map[string]uint8{}, "accept")
	if err != nil {
		t.Fatal(err)
	}
	m, err := b.Build()
	if err != nil {
		t.Fatal(err)
	}
	var wrong []string
	for _, s := range []string{"2001:db8::1", "8.8.8.8", "::"} {
		got, err := m.Match("example.com", 28, []netip.Addr{netip.MustParseAddr(s)}, 0)
		if err != nil {
			t.Fatal(err)
		}
		if got != consts.DnsResponseOutboundIndex_Reject {
			wrong = append(wrong, fmt.Sprintf("%s->%v", s, got))
		}
	}
	if vkKnown("F2") {
		if len(wrong) > 0 {
			vkKnownReproduced("F2")
			t.Logf("KNOWN F2 reproduced in DNS response routing: ip(::/0)->reject gives %v", wrong)
		} else {
			t.Logf("F2 is listed as known but ip(::/0)->reject now rejects every answer")
		}
		vkCase("C12.finding_f2_dns", "f2", func() any { return map[string]any{"wrong": wrong} })
		return
	}
	if len(wrong) > 0 {
		t.Fatalf("response rule ip(::/0) -> reject, fallback accept: %v", wrong)
	}
	vkCase("C12.finding_f2_dns", "f2", func() any { return "ip(::/0) covers every answer" })
}

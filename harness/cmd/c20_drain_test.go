package cmd

// C20 unit "drain": the retirement of an old generation, called directly:
// retireControlPlaneConnections / waitForControlPlaneDrain with the budget computed
// by remainingReloadRetirementBudget, against a small fake of the
// retirementDrainPlane interface whose sessions stay alive for a rapid-chosen
// virtual duration (for ever included), a rapid-chosen part of the switch budget
// already used up (all of it and more included), optional abort / no overlap /
// cancellation by a newer retirement. Oracle: it returns exactly when the first of
// {sessions ended, cancelled, budget ran out} happens - in particular always -
// and aborts the remaining connections unless they drained by themselves.

import (
	"context"
	"fmt"
	"sync"
	"testing"
	"testing/synctest"
	"time"

	"github.com/daeuniverse/dae/common/consts"
	"github.com/daeuniverse/dae/control"
	"pgregory.net/rapid"
)

const c20UnitDrain = "C20.drain"

type c20FakePlane struct {
	mu     sync.Mutex
	active int
	idle   chan struct{}
	aborts int
}

func c20NewFakePlane(live bool) *c20FakePlane {
	p := &c20FakePlane{idle: make(chan struct{})}
	if live {
		p.active = 1
	} else {
		close(p.idle)
	}
	return p
}

func (p *c20FakePlane) ActiveSessionCount() int {
	p.mu.Lock()
	defer p.mu.Unlock()
	return p.active
}

func (p *c20FakePlane) DrainIdleCh() <-chan struct{} { return p.idle }

func (p *c20FakePlane) AbortConnections() error {
	p.mu.Lock()
	p.aborts++
	p.mu.Unlock()
	return nil
}

func (p *c20FakePlane) endSessions() {
	p.mu.Lock()
	defer p.mu.Unlock()
	if p.active > 0 {
		p.active = 0
		close(p.idle)
	}
}

const c20Never = time.Duration(-1)

func TestC20_Drain(t *testing.T) {
	rapid.Check(t, func(rt *rapid.T) {
		live := rapid.IntRange(0, 4).Draw(rt, "live") > 0
		sessionEnd := rapid.SampledFrom([]time.Duration{c20Never, c20Never, time.Second, 4 * time.Second, 9 * time.Second, 12 * time.Second, 30 * time.Second}).Draw(rt, "sessionEnd")
		cancelAt := rapid.SampledFrom([]time.Duration{c20Never, c20Never, c20Never, 2 * time.Second, 6 * time.Second, 11 * time.Second}).Draw(rt, "cancelAt")
		direct := rapid.IntRange(0, 3).Draw(rt, "direct") == 0
		abort := rapid.IntRange(0, 2).Draw(rt, "abort") == 0
		overlap := rapid.IntRange(0, 5).Draw(rt, "overlap") > 0
		// how much of the switch budget the reload itself has used
		used := rapid.SampledFrom([]time.Duration{c20Never /* no timestamp */, 0, 3 * time.Second, reloadTotalSwitchBudget - time.Millisecond,
			reloadTotalSwitchBudget, reloadTotalSwitchBudget + time.Millisecond, time.Minute, 10 * time.Minute}).Draw(rt, "used")
		budget := rapid.SampledFrom([]time.Duration{reloadTotalSwitchBudget, reloadTotalSwitchBudget, reloadTotalSwitchBudget, 5 * time.Second, time.Nanosecond, 0, -time.Second}).Draw(rt, "budget")
		maxWaitDirect := rapid.SampledFrom([]time.Duration{-time.Second, 0, time.Nanosecond, 3 * time.Second, 10 * time.Second}).Draw(rt, "maxWait")
		logEvery := rapid.SampledFrom([]time.Duration{0, controlPlaneRetirementLogEvery}).Draw(rt, "logEvery")

		var failure string
		var classes []string
		c20InBubble(t, func() {
			base := time.Now()
			plane := c20NewFakePlane(live)
			ctx, cancel := context.WithCancel(context.Background())
			defer cancel()
			defer plane.endSessions()

			// the wait the code under test is handed
			var maxWait time.Duration
			if direct {
				maxWait = maxWaitDirect
			} else {
				var startedAt time.Time
				if used != c20Never {
					startedAt = base.Add(-used)
				}
				maxWait = remainingReloadRetirementBudget(startedAt, budget)
				want := budget
				if used != c20Never {
					want = budget - used
				}
				if want < 0 || budget <= 0 {
					want = 0
				}
				if maxWait != want {
					failure = fmt.Sprintf("remainingReloadRetirementBudget(used %v of %v) = %v, want %v", used, budget, maxWait, want)
					return
				}
			}
			timerAt := maxWait
			if timerAt < 0 {
				timerAt = 0
			}

			stop := make(chan struct{})
			var helpers sync.WaitGroup
			defer func() { close(stop); helpers.Wait() }()
			after := func(d time.Duration, f func()) {
				helpers.Add(1)
				go func() {
					defer helpers.Done()
					tm := time.NewTimer(d)
					defer tm.Stop()
					select {
					case <-tm.C:
						f()
					case <-stop:
					}
				}()
			}
			if live && sessionEnd != c20Never {
				after(sessionEnd, plane.endSessions)
			}
			if cancelAt != c20Never {
				after(cancelAt, cancel)
			}
			done := make(chan struct{})
			var doneAt time.Duration
			var result controlPlaneDrainWaitResult
			go func() {
				if direct {
					result = waitForControlPlaneDrain(c20Log, ctx, plane, maxWait, logEvery)
				} else {
					retireControlPlaneConnections(c20Log, ctx, plane, abort, overlap, maxWait)
				}
				doneAt = time.Since(base)
				close(done)
			}()

			// model
			waits := live && (direct || (!abort && overlap))
			wantAt := time.Duration(0)
			winners := map[string]bool{}
			if waits {
				wantAt = timerAt
				if sessionEnd != c20Never && sessionEnd < wantAt {
					wantAt = sessionEnd
				}
				if cancelAt != c20Never && cancelAt < wantAt {
					wantAt = cancelAt
				}
				winners["timeout"] = timerAt == wantAt
				winners["idle"] = sessionEnd == wantAt
				winners["canceled"] = cancelAt == wantAt
			}

			time.Sleep(wantAt + time.Second)
			synctest.Wait()
			select {
			case <-done:
			default:
				failure = fmt.Sprintf("the retirement is still waiting %v after it began: live session=%v (ends %s), cancelled %s, wait handed in %v (its bound)",
					wantAt+time.Second, live, c20DurName(sessionEnd), c20DurName(cancelAt), maxWait)
				cancel()
				plane.endSessions()
				<-done
				return
			}
			if doneAt != wantAt {
				failure = fmt.Sprintf("the retirement returned after %v, want %v (live session=%v ends %s, cancelled %s, wait %v)", doneAt, wantAt, live, c20DurName(sessionEnd), c20DurName(cancelAt), maxWait)
				return
			}
			plane.mu.Lock()
			aborts := plane.aborts
			plane.mu.Unlock()
			if direct {
				names := map[controlPlaneDrainWaitResult]string{controlPlaneDrainIdle: "idle", controlPlaneDrainCanceled: "canceled", controlPlaneDrainTimeout: "timeout"}
				got := names[result]
				if !waits {
					if got != "idle" {
						failure = fmt.Sprintf("no live session but the wait reports %q", got)
					}
				} else if !winners[got] {
					failure = fmt.Sprintf("the wait reports %q at %v; possible: %v", got, doneAt, winners)
				}
				classes = append(classes, "direct_"+got)
				return
			}
			switch {
			case abort || !overlap:
				if aborts != 1 {
					failure = fmt.Sprintf("abort=%v overlap=%v: connections aborted %d times, want once", abort, overlap, aborts)
				}
				classes = append(classes, "abort_at_once")
			case !live:
				if aborts != 0 {
					failure = "nothing alive, yet connections were aborted"
				}
				classes = append(classes, "nothing_alive")
			default:
				okNone := winners["idle"]
				okOne := winners["timeout"] || winners["canceled"]
				if !(aborts == 0 && okNone) && !(aborts == 1 && okOne) {
					failure = fmt.Sprintf("connections aborted %d times after the wait ended by %v", aborts, winners)
				}
				switch {
				case winners["timeout"] && timerAt == 0:
					classes = append(classes, "budget_used_up")
				case winners["timeout"]:
					classes = append(classes, "budget_ran_out")
				case winners["canceled"]:
					classes = append(classes, "accelerated")
				default:
					classes = append(classes, "drained")
				}
			}
		})
		if failure != "" {
			rt.Fatalf("C20 drain: %s", failure)
		}
		key := ""
		if live {
			key = fmt.Sprintf("%v %v %v %v %v %v %v %v %v %v", sessionEnd, cancelAt, direct, abort, overlap, used, budget, maxWaitDirect, logEvery, live)
		}
		vkCase(c20UnitDrain, key, func() any { return key }, classes...)
	})
}

func c20DurName(d time.Duration) string {
	if d == c20Never {
		return "never"
	}
	return "at " + d.String()
}

// ---- unit "retirement" -------------------------------------------------------
//
// startControlPlaneRetirement + finishReloadSuccess called directly on a real
// reloadManager: abort / overlap flags, a live session or none, part of the switch
// budget used, and an old generation whose teardown (its cancel func, called by the
// real retirement goroutine before Close) takes a rapid-chosen virtual time.
// Requests are queued at rapid-chosen instants. Oracle: until the retirement is
// over (connections retired + teardown) pending stays set, the muting stays on and
// every request is refused; from that instant on a request is accepted.

const c20UnitRetirement = "C20.retirement"

func TestC20_Retirement(t *testing.T) {
	c20InstallSeams(t)
	instants := []time.Duration{0, time.Millisecond, time.Second, 2 * time.Second, 5 * time.Second, 7 * time.Second,
		reloadTotalSwitchBudget - time.Nanosecond, reloadTotalSwitchBudget, 12 * time.Second, 17 * time.Second, 61 * time.Second, 75 * time.Second}
	rapid.Check(t, func(rt *rapid.T) {
		abort := rapid.Bool().Draw(rt, "abort")
		overlap := rapid.IntRange(0, 3).Draw(rt, "overlap") > 0
		live := rapid.Bool().Draw(rt, "live")
		sessionEnd := rapid.SampledFrom([]time.Duration{c20Never, c20Never, time.Second, 4 * time.Second, 12 * time.Second}).Draw(rt, "sessionEnd")
		used := rapid.SampledFrom([]time.Duration{c20Never, 0, 0, 3 * time.Second, 11 * time.Second}).Draw(rt, "used")
		teardown := rapid.SampledFrom([]time.Duration{0, time.Millisecond, 2 * time.Second, 7 * time.Second, time.Minute}).Draw(rt, "teardown")
		withSuccessor := rapid.Bool().Draw(rt, "successor")
		nProbes := rapid.IntRange(1, 4).Draw(rt, "probes")
		probeSet := map[time.Duration]bool{}
		for i := 0; i < nProbes; i++ {
			probeSet[rapid.SampledFrom(instants).Draw(rt, "probeAt")] = true
		}
		var probes []time.Duration
		for _, d := range instants {
			if probeSet[d] {
				probes = append(probes, d)
			}
		}

		// model: when is the old generation gone
		remaining := reloadTotalSwitchBudget
		if used != c20Never {
			remaining -= used
		}
		if remaining < 0 {
			remaining = 0
		}
		drainFor := time.Duration(0)
		if !abort && overlap && live {
			drainFor = remaining
			if sessionEnd != c20Never && sessionEnd < drainFor {
				drainFor = sessionEnd
			}
		}
		retiredAt := drainFor + teardown

		var failure string
		var classes []string
		refusedDuring := false
		c20InBubble(t, func() {
			if err := c20ResetSuppression(); err != nil {
				failure = "before the case: " + err.Error()
				return
			}
			cell := &c20Cell{code: consts.ReloadDone}
			c20SetSeams(cell)
			defer c20SetSeams(nil)
			m := newReloadManager(make(chan reloadRequest, 1), make(chan struct{}, 1), nil)
			stop := make(chan struct{})
			var helpers sync.WaitGroup
			defer func() { close(stop); helpers.Wait(); time.Sleep(2 * time.Minute); synctest.Wait() }()

			if !m.queueReloadRequest(c20Log, reloadRequest{}) {
				failure = "harness: first request refused"
				return
			}
			<-m.reloadReqs
			m.reloadActive.Store(true)
			cell.put(consts.ReloadProcessing, "")
			base := time.Now()
			var startedAt time.Time
			if used != c20Never {
				startedAt = base.Add(-used)
			}
			m.setPendingReloadMetadata(startedAt, 0)
			n := 0
			if live {
				n = 1
			}
			oldPlane, release := control.VerifC20DrainPlane(n)
			if live && sessionEnd != c20Never {
				helpers.Add(1)
				go func() {
					defer helpers.Done()
					tm := time.NewTimer(sessionEnd)
					defer tm.Stop()
					select {
					case <-tm.C:
					case <-stop:
					}
					release[0]()
				}()
			} else if live {
				defer release[0]()
			}
			var successor *control.ControlPlane
			if withSuccessor {
				successor, _ = control.VerifC20DrainPlane(0)
			}
			tornDown := false
			oldCancel := func() { time.Sleep(teardown); tornDown = true }
			m.beginHandoff()
			m.startControlPlaneRetirement(c20Log, oldPlane, successor, oldCancel, abort, overlap)
			// main loop: new generation is ready
			m.reloading.Store(false)
			cell.put(consts.ReloadDone, "OK")
			m.finishReloadSuccess()

			check := func(at time.Duration) bool {
				synctest.Wait()
				gone := at >= retiredAt
				if tornDown != gone {
					failure = fmt.Sprintf("at +%v the old generation's teardown finished=%v, model says %v (retired at +%v)", at, tornDown, gone, retiredAt)
					return false
				}
				pending := m.reloadPending.Load()
				_, _, b, e, _ := cell.get()
				muted := c20ProbeSuppressed()
				if !gone && (!pending || b-e != 1 || !muted) {
					failure = fmt.Sprintf("at +%v the old generation is still being retired (over at +%v) but pending=%v, muting depth=%d, muted=%v", at, retiredAt, pending, b-e, muted)
					return false
				}
				if gone && (pending || b-e != 0) {
					failure = fmt.Sprintf("at +%v the old generation has retired (at +%v) but pending=%v, muting depth=%d", at, retiredAt, pending, b-e)
					return false
				}
				got := m.queueReloadRequest(c20Log, reloadRequest{})
				if got != gone {
					failure = fmt.Sprintf("a request at +%v was accepted=%v; the old generation retires at +%v (abort=%v overlap=%v live session=%v teardown %v)", at, got, retiredAt, abort, overlap, live, teardown)
					return false
				}
				if !got {
					refusedDuring = true
					code, msg, _, _, _ := cell.get()
					if code != consts.ReloadBusy || msg == "" {
						failure = fmt.Sprintf("refused request at +%v not reported busy: %s %q", at, c20CodeName(code), msg)
						return false
					}
				}
				return !got
			}
			accepted := false
			for _, p := range probes {
				time.Sleep(p - time.Since(base))
				if !check(p) {
					accepted = failure == ""
					break
				}
			}
			if failure == "" && !accepted {
				at := retiredAt
				if since := time.Since(base); since > at {
					at = since
				}
				time.Sleep(at - time.Since(base))
				if check(at) {
					failure = "harness: final request not accepted and no failure recorded"
				}
				accepted = failure == ""
			}
			if accepted { // settle the second reload
				<-m.reloadReqs
				m.finishReloadFailure()
			}
			if !tornDown { // let the teardown end before leaving the bubble
				time.Sleep(retiredAt + time.Second)
			}
		})
		if failure != "" {
			rt.Fatalf("C20 retirement: %s", failure)
		}
		if abort {
			classes = append(classes, "abort")
		}
		if drainFor > 0 {
			classes = append(classes, "drain_wait")
		}
		if teardown > 0 {
			classes = append(classes, "slow_teardown")
		}
		key := ""
		if refusedDuring {
			classes = append(classes, "refused_during_retirement")
			if abort {
				classes = append(classes, "refused_during_abort_retirement")
			}
			key = fmt.Sprintf("%v %v %v %v %v %v %v %v", abort, overlap, live, sessionEnd, used, teardown, withSuccessor, probes)
		}
		vkCase(c20UnitRetirement, key, func() any { return key }, classes...)
	})
}

package cmd

// C20 unit "drain": the retirement of an old generation, called directly:
// retireControlPlaneConnections / waitForControlPlaneDrain with the budget computed
// by remainingReloadRetirementBudget, against a small fake of the
// retirementDrainPlane interface whose sessions stay alive for a rapid-chosen
// virtual duration (for ever included), a rapid-chosen part of the switch budget
// already used up (all of it and more included), optional abort / no overlap /
// cancellation by a newer retirement. Oracle: it returns exactly when the first of
// {sessions ended, cancelled, budget ran out} happens - in particular always -
// and aborts the remaining connections unless they drained by themselves.

import (
	"context"
	"fmt"
	"sync"
	"testing"
	"testing/synctest"
	"time"

	"pgregory.net/rapid"
)

const c20UnitDrain = "C20.drain"

type c20FakePlane struct {
	mu     sync.Mutex
	active int
	idle   chan struct{}
	aborts int
}

func c20NewFakePlane(live bool) *c20FakePlane {
	p := &c20FakePlane{idle: make(chan struct{})}
	if live {
		p.active = 1
	} else {
		close(p.idle)
	}
	return p
}

func (p *c20FakePlane) ActiveSessionCount() int {
	p.mu.Lock()
	defer p.mu.Unlock()
	return p.active
}

func (p *c20FakePlane) DrainIdleCh() <-chan struct{} { return p.idle }

func (p *c20FakePlane) AbortConnections() error {
	p.mu.Lock()
	p.aborts++
	p.mu.Unlock()
	return nil
}

func (p *c20FakePlane) endSessions() {
	p.mu.Lock()
	defer p.mu.Unlock()
	if p.active > 0 {
		p.active = 0
		close(p.idle)
	}
}

const c20Never = time.Duration(-1)

func TestC20_Drain(t *testing.T) {
	rapid.Check(t, func(rt *rapid.T) {
		live := rapid.IntRange(0, 4).Draw(rt, "live") > 0
		sessionEnd := rapid.SampledFrom([]time.Duration{c20Never, c20Never, time.Second, 4 * time.Second, 9 * time.Second, 12 * time.Second, 30 * time.Second}).Draw(rt, "sessionEnd")
		cancelAt := rapid.SampledFrom([]time.Duration{c20Never, c20Never, c20Never, 2 * time.Second, 6 * time.Second, 11 * time.Second}).Draw(rt, "cancelAt")
		direct := rapid.IntRange(0, 3).Draw(rt, "direct") == 0
		abort := rapid.IntRange(0, 5).Draw(rt, "abort") == 0
		overlap := rapid.IntRange(0, 5).Draw(rt, "overlap") > 0
		// how much of the switch budget the reload itself has used
		used := rapid.SampledFrom([]time.Duration{c20Never /* no timestamp */, 0, 3 * time.Second, reloadTotalSwitchBudget - time.Millisecond,
			reloadTotalSwitchBudget, reloadTotalSwitchBudget + time.Millisecond, time.Minute, 10 * time.Minute}).Draw(rt, "used")
		budget := rapid.SampledFrom([]time.Duration{reloadTotalSwitchBudget, reloadTotalSwitchBudget, reloadTotalSwitchBudget, 5 * time.Second, time.Nanosecond, 0, -time.Second}).Draw(rt, "budget")
		maxWaitDirect := rapid.SampledFrom([]time.Duration{-time.Second, 0, time.Nanosecond, 3 * time.Second, 10 * time.Second}).Draw(rt, "maxWait")
		logEvery := rapid.SampledFrom([]time.Duration{0, controlPlaneRetirementLogEvery}).Draw(rt, "logEvery")

		var failure string
		var classes []string
		c20InBubble(t, func() {
			base := time.Now()
			plane := c20NewFakePlane(live)
			ctx, cancel := context.WithCancel(context.Background())
			defer cancel()
			defer plane.endSessions()

			// the wait the code under test is handed
			var maxWait time.Duration
			if direct {
				maxWait = maxWaitDirect
			} else {
				var startedAt time.Time
				if used != c20Never {
					startedAt = base.Add(-used)
				}
				maxWait = remainingReloadRetirementBudget(startedAt, budget)
				want := budget
				if used != c20Never {
					want = budget - used
				}
				if want < 0 || budget <= 0 {
					want = 0
				}
				if maxWait != want {
					failure = fmt.Sprintf("remainingReloadRetirementBudget(used %v of %v) = %v, want %v", used, budget, maxWait, want)
					return
				}
			}
			timerAt := maxWait
			if timerAt < 0 {
				timerAt = 0
			}

			stop := make(chan struct{})
			var helpers sync.WaitGroup
			defer func() { close(stop); helpers.Wait() }()
			after := func(d time.Duration, f func()) {
				helpers.Add(1)
				go func() {
					defer helpers.Done()
					tm := time.NewTimer(d)
					defer tm.Stop()
					select {
					case <-tm.C:
						f()
					case <-stop:
					}
				}()
			}
			if live && sessionEnd != c20Never {
				after(sessionEnd, plane.endSessions)
			}
			if cancelAt != c20Never {
				after(cancelAt, cancel)
			}
			done := make(chan struct{})
			var doneAt time.Duration
			var result controlPlaneDrainWaitResult
			go func() {
				if direct {
					result = waitForControlPlaneDrain(c20Log, ctx, plane, maxWait, logEvery)
				} else {
					retireControlPlaneConnections(c20Log, ctx, plane, abort, overlap, maxWait)
				}
				doneAt = time.Since(base)
				close(done)
			}()

			// model
			waits := live && (direct || (!abort && overlap))
			wantAt := time.Duration(0)
			winners := map[string]bool{}
			if waits {
				wantAt = timerAt
				if sessionEnd != c20Never && sessionEnd < wantAt {
					wantAt = sessionEnd
				}
				if cancelAt != c20Never && cancelAt < wantAt {
					wantAt = cancelAt
				}
				winners["timeout"] = timerAt == wantAt
				winners["idle"] = sessionEnd == wantAt
				winners["canceled"] = cancelAt == wantAt
			}

			time.Sleep(wantAt + time.Second)
			synctest.Wait()
			select {
			case <-done:
			default:
				failure = fmt.Sprintf("the retirement is still waiting %v after it began: live session=%v (ends %s), cancelled %s, wait handed in %v (its bound)",
					wantAt+time.Second, live, c20DurName(sessionEnd), c20DurName(cancelAt), maxWait)
				cancel()
				plane.endSessions()
				<-done
				return
			}
			if doneAt != wantAt {
				failure = fmt.Sprintf("the retirement returned after %v, want %v (live session=%v ends %s, cancelled %s, wait %v)", doneAt, wantAt, live, c20DurName(sessionEnd), c20DurName(cancelAt), maxWait)
				return
			}
			plane.mu.Lock()
			aborts := plane.aborts
			plane.mu.Unlock()
			if direct {
				names := map[controlPlaneDrainWaitResult]string{controlPlaneDrainIdle: "idle", controlPlaneDrainCanceled: "canceled", controlPlaneDrainTimeout: "timeout"}
				got := names[result]
				if !waits {
					if got != "idle" {
						failure = fmt.Sprintf("no live session but the wait reports %q", got)
					}
				} else if !winners[got] {
					failure = fmt.Sprintf("the wait reports %q at %v; possible: %v", got, doneAt, winners)
				}
				classes = append(classes, "direct_"+got)
				return
			}
			switch {
			case abort || !overlap:
				if aborts != 1 {
					failure = fmt.Sprintf("abort=%v overlap=%v: connections aborted %d times, want once", abort, overlap, aborts)
				}
				classes = append(classes, "abort_at_once")
			case !live:
				if aborts != 0 {
					failure = "nothing alive, yet connections were aborted"
				}
				classes = append(classes, "nothing_alive")
			default:
				okNone := winners["idle"]
				okOne := winners["timeout"] || winners["canceled"]
				if !(aborts == 0 && okNone) && !(aborts == 1 && okOne) {
					failure = fmt.Sprintf("connections aborted %d times after the wait ended by %v", aborts, winners)
				}
				switch {
				case winners["timeout"] && timerAt == 0:
					classes = append(classes, "budget_used_up")
				case winners["timeout"]:
					classes = append(classes, "budget_ran_out")
				case winners["canceled"]:
					classes = append(classes, "accelerated")
				default:
					classes = append(classes, "drained")
				}
			}
		})
		if failure != "" {
			rt.Fatalf("C20 drain: %s", failure)
		}
		key := ""
		if live {
			key = fmt.Sprintf("%v %v %v %v %v %v %v %v %v %v", sessionEnd, cancelAt, direct, abort, overlap, used, budget, maxWaitDirect, logEvery, live)
		}
		vkCase(c20UnitDrain, key, func() any { return key }, classes...)
	})
}

func c20DurName(d time.Duration) string {
	if d == c20Never {
		return "never"
	}
	return "at " + d.String()
}

package cmd

// C20 — shared pieces: the in-memory progress cell behind the
// setRunSignalProgress/getRunSignalProgress package vars, counting wrappers around
// the begin/endReloadProxyFailureSuppression package vars (they call the real
// dialer functions), a probe that observes the real suppression state of package
// dialer through its exported API, and the park/release scheduler used to place
// goroutines at rapid-chosen points inside a testing/synctest bubble.

import (
	"errors"
	"fmt"
	"io"
	"runtime"
	"sort"
	"strings"
	"sync"
	"sync/atomic"
	"testing"
	"testing/synctest"
	"time"

	"github.com/daeuniverse/dae/common/consts"
	outbounddialer "github.com/daeuniverse/dae/component/outbound/dialer"
	D "github.com/daeuniverse/outbound/dialer"
	"github.com/sirupsen/logrus"
)

const c20Quiesce = outbounddialer.Timeout + 10*time.Second // == dialer.reloadFailureQuiesce (unexported)

var c20Log = func() *logrus.Logger {
	l := logrus.New()
	l.SetOutput(io.Discard)
	l.SetLevel(logrus.PanicLevel)
	return l
}()

// c20InBubble runs f in a synctest bubble; a panic raised inside (rapid failure,
// invalid data while shrinking) is carried out of the bubble and re-raised.
func c20InBubble(t *testing.T, f func()) {
	var caught any
	synctest.Test(t, func(_ *testing.T) {
		defer func() { caught = recover() }()
		f()
	})
	if caught != nil {
		panic(caught)
	}
}

// c20ProbeSuppressed reports whether package dialer currently mutes node-failure
// reports: a fresh dialer gets one failed (non-traffic) TCP check reported; the
// threshold for that is 1, so it turns not-alive unless the report is muted.
func c20ProbeSuppressed() bool {
	d := outbounddialer.NewDialer(nil,
		&outbounddialer.GlobalOption{Log: c20Log, CheckInterval: 30 * time.Second},
		outbounddialer.InstanceOption{DisableCheck: true},
		&outbounddialer.Property{Property: D.Property{Name: "c20probe", Address: "192.0.2.1:1"}})
	defer func() { _ = d.Close() }()
	typ := &outbounddialer.NetworkType{L4Proto: consts.L4ProtoStr_TCP, IpVersion: consts.IpVersionStr_4}
	d.ReportUnavailableTransactional(typ, errors.New("c20 probe"))
	return d.MustGetAlive(typ)
}

// c20ResetSuppression brings the process-global suppression state of package
// dialer to "not muted" (counter 0, quiesce window over). Must run in a bubble.
func c20ResetSuppression() error {
	for i := 0; i < 8; i++ { // End is a no-op at zero
		outbounddialer.EndReloadProxyFailureSuppression()
	}
	// the bubble clock restarts at the same instant for every case, so a quiesce
	// deadline left by the previous case may lie in this bubble's future: re-arm it
	// relative to now and wait it out.
	outbounddialer.BeginReloadProxyFailureSuppression()
	outbounddialer.EndReloadProxyFailureSuppression()
	time.Sleep(c20Quiesce + time.Second)
	if c20ProbeSuppressed() {
		return errors.New("node-failure reports are still muted after End + quiesce window with no reload in progress")
	}
	return nil
}

// ---- who is calling a seam -------------------------------------------------

type c20Caller struct {
	role       string // "M" main loop, "W" worker, "R" release goroutine, "G" retirement goroutine, "?" other
	inClear    bool   // inside clearRejectedReloadProgress
	inRestore  bool   // inside restoreRejectedReloadProgress
	inTryQueue bool   // inside tryQueueReloadRequest
}

func c20WhoCalls() c20Caller {
	var c c20Caller
	c.role = "?"
	pcs := make([]uintptr, 48)
	n := runtime.Callers(2, pcs)
	frames := runtime.CallersFrames(pcs[:n])
	for {
		fr, more := frames.Next()
		fn := fr.Function
		switch {
		case strings.HasSuffix(fn, ".clearRejectedReloadProgress"):
			c.inClear = true
		case strings.HasSuffix(fn, ".restoreRejectedReloadProgress"):
			c.inRestore = true
		case strings.HasSuffix(fn, ".tryQueueReloadRequest"):
			c.inTryQueue = true
		case strings.Contains(fn, ".releaseReloadPendingAfterRetirement.func"):
			c.role = "R"
		case strings.Contains(fn, ".startControlPlaneRetirement.func"):
			c.role = "G"
		case strings.HasSuffix(fn, ".c20MainLoop"):
			c.role = "M"
		case strings.HasSuffix(fn, ".c20Worker"):
			c.role = "W"
		}
		if !more {
			break
		}
	}
	return c
}

// ---- park / release --------------------------------------------------------

type c20Park struct {
	label string
	seq   int
	ch    chan int
	who   c20Caller
}

type c20Sched struct {
	mu     sync.Mutex
	free   bool // teardown: nobody parks any more
	parked []*c20Park
	seq    int
}

// yield parks the calling goroutine until the scheduler releases it and returns
// the outcome value chosen by the scheduler.
func (s *c20Sched) yield(label string, who c20Caller) int {
	s.mu.Lock()
	if s.free {
		s.mu.Unlock()
		return 0
	}
	p := &c20Park{label: label, seq: s.seq, ch: make(chan int), who: who}
	s.seq++
	s.parked = append(s.parked, p)
	s.mu.Unlock()
	return <-p.ch
}

// sorted returns the parked goroutines in a schedule-independent order. Call
// only after synctest.Wait().
func (s *c20Sched) sorted() []*c20Park {
	s.mu.Lock()
	defer s.mu.Unlock()
	out := append([]*c20Park(nil), s.parked...)
	sort.SliceStable(out, func(i, j int) bool {
		if out[i].label != out[j].label {
			return out[i].label < out[j].label
		}
		return out[i].seq < out[j].seq
	})
	return out
}

func (s *c20Sched) release(p *c20Park, outcome int) {
	s.mu.Lock()
	for i, q := range s.parked {
		if q == p {
			s.parked = append(s.parked[:i], s.parked[i+1:]...)
			break
		}
	}
	s.mu.Unlock()
	p.ch <- outcome
}

// setFree lets every parked goroutine go and stops further parking.
func (s *c20Sched) setFree() {
	s.mu.Lock()
	s.free = true
	ps := s.parked
	s.parked = nil
	s.mu.Unlock()
	for _, p := range ps {
		p.ch <- 0
	}
}

// ---- seams -----------------------------------------------------------------

// c20Seams is what the package-var seams of cmd/run.go talk to during a case.
type c20Seams interface {
	progSet(code byte, content string) error
	progGet() (byte, string, error)
	onBegin(who c20Caller)
	onEnd(who c20Caller)
}

type c20SeamBox struct{ s c20Seams }

var c20Cur atomic.Pointer[c20SeamBox]

func c20SetSeams(s c20Seams) {
	if s == nil {
		c20Cur.Store(nil)
		return
	}
	c20Cur.Store(&c20SeamBox{s: s})
}

// c20InstallSeams replaces the four package vars for the duration of the test.
// begin/end always reach the real dialer functions.
func c20InstallSeams(t *testing.T) {
	oldSet, oldGet := setRunSignalProgress, getRunSignalProgress
	oldBegin, oldEnd := beginReloadProxyFailureSuppression, endReloadProxyFailureSuppression
	oldCfg := cfgFile
	setRunSignalProgress = func(code byte, content string) error {
		if b := c20Cur.Load(); b != nil {
			return b.s.progSet(code, content)
		}
		return nil
	}
	getRunSignalProgress = func() (byte, string, error) {
		if b := c20Cur.Load(); b != nil {
			return b.s.progGet()
		}
		return 0, "", errors.New("c20: no case running")
	}
	beginReloadProxyFailureSuppression = func() {
		oldBegin()
		if b := c20Cur.Load(); b != nil {
			b.s.onBegin(c20WhoCalls())
		}
	}
	endReloadProxyFailureSuppression = func() {
		oldEnd()
		if b := c20Cur.Load(); b != nil {
			b.s.onEnd(c20WhoCalls())
		}
	}
	t.Cleanup(func() {
		setRunSignalProgress, getRunSignalProgress = oldSet, oldGet
		beginReloadProxyFailureSuppression, endReloadProxyFailureSuppression = oldBegin, oldEnd
		cfgFile = oldCfg
		c20SetSeams(nil)
	})
}

func c20CodeName(code byte) string {
	switch code {
	case consts.ReloadSend:
		return "send"
	case consts.ReloadProcessing:
		return "processing"
	case consts.ReloadDone:
		return "done"
	case consts.ReloadError:
		return "error"
	case consts.ReloadBusy:
		return "busy"
	case 0:
		return "none"
	}
	return fmt.Sprintf("code(%q)", code)
}

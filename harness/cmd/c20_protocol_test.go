package cmd

// C20 unit "protocol": reload/suspend signals interleaved with the stages of a
// reload, over the real admission/flag/suppression primitives.
//
// REAL code driven here (called, not copied): reloadManager and all its methods
// used below (queueReloadRequest -> tryQueueReloadRequest, coalesceReloadRequest,
// beginHandoff -> beginReloadHandoff, setReloadError/reloadError, set/clear/
// currentPendingStagedHandoff, clearPendingRetirement, setPendingReloadMetadata,
// takePendingRetirementDone, startControlPlaneRetirement incl. its retirement
// goroutine, retireControlPlaneConnections, waitForControlPlaneDrain and
// remainingReloadRetirementBudget on a control.ControlPlane that consists of the
// production drain tracker with 0/1 live session (overlay helper
// control.VerifC20DrainPlane; the session ends when the scheduler says so, or never),
// finishReloadFailure, finishReloadSuccess, refreshPprofServer(port 0)),
// clearReloadPending, releaseReloadPendingAfterRetirement (incl. its goroutine),
// restoreRejectedReloadProgress, clearRejectedReloadProgress, notifyRunStateChange,
// waitReloadReadyOrSignal, rollbackStagedReloadHandoff, wrapReloadTimeoutError,
// readConfig (on files) and emptyConfig, resetReloadProxyRuntimeState, and the real
// dialer.Begin/EndReloadProxyFailureSuppression counter (observed through a dialer
// probe).
//
// MIMICKED (harness code written to follow cmd/run.go line by line, because the
// worker is a closure inside Runner.Run that needs a loadable control plane):
// c20Worker = the `for req := range reloadManager.reloadReqs` closure (run.go
// 387-659) and c20MainLoop = the `loop:` select (run.go 661-838, branch
// `listener != nil`; the re-listen branch and termination signals are not
// walked). newControlPlane/newPreparedControlPlane, listener.Clone, Listen and
// Serve are fakes that park at a gate and then succeed, fail or hang as rapid
// decides.

import (
	"context"
	"errors"
	"fmt"
	"net/http"
	"os"
	"path/filepath"
	"sort"
	"strings"
	"sync"
	"syscall"
	"testing"
	"testing/synctest"
	"time"

	"github.com/daeuniverse/dae/common/consts"
	"github.com/daeuniverse/dae/control"
	"pgregory.net/rapid"
)

const c20UnitProtocol = "C20.protocol"

type c20Phase int

const (
	c20PhNew c20Phase = iota
	c20PhQueued
	c20PhActive
	c20PhFinishing // a failure path is about to release it
	c20PhRetiring  // finishReloadSuccess called; waits for the old generation
	c20PhReleased
	c20PhRefused
	c20PhSwallowed // consumed by waitReloadReadyOrSignal
	c20PhDropped   // signal channel full (OS would drop it too)
)

var c20PhaseNames = []string{"new", "queued", "active", "finishing", "retiring", "released", "refused", "swallowed", "dropped"}

func (p c20Phase) String() string { return c20PhaseNames[p] }

type c20Req struct {
	id       int
	suspend  bool
	via      string
	phase    c20Phase
	stage    string
	retireCh <-chan struct{}
	outcome  string
}

// c20Retire: one run of the real startControlPlaneRetirement.
type c20Retire struct {
	gen      int
	t0       time.Time
	bound    time.Duration // what is left of reloadTotalSwitchBudget when it starts
	live     int           // sessions of the old generation at that moment
	waits    bool          // !abort && overlap && live > 0: the real drain wait is entered
	abort    bool
	finished bool    // connections retired (retireControlPlaneConnections returned)
	torn     bool    // the old generation's cancel func returned (Close follows at once)
	req      *c20Req // the reload that replaced this generation
	late     bool    // started only after the main loop had finished that reload (non-staged race)
	orphaned bool    // that reload ended through finishReloadFailure, which does not wait
}

type c20Snap struct {
	pending, active, reloading bool
	depth, qlen                int
	err                        string
	handoff                    *stagedReloadHandoff
	retDone                    <-chan struct{}
	reqAt                      time.Time
	reqMono                    uint64
	muted                      bool
}

type c20Case struct {
	sched c20Sched

	mu          sync.Mutex
	fine        bool // park inside the progress seam of the real primitives
	exclRestore bool // known finding: keep CAS-fail + busy write atomic
	exclClear   bool // known finding: keep pending clear + busy cleanup atomic
	viol        string
	code        byte
	msg         string
	begins      int
	ends        int
	lastZeroAt  time.Time
	lastZeroOK  bool
	owner       *c20Req
	mReq        *c20Req
	reqs        map[uint64]*c20Req
	nextID      int
	trace       []string
	actions     []string
	classes     map[string]bool
	foreign     int
	ntRefused   bool
	ntFailure   bool
	earlyRel    int
	mBusy       bool
	wBusy       bool

	m               *reloadManager
	sigs            chan os.Signal
	runStateChanges chan struct{}
	pendingSig      *c20Req
	quit            chan struct{}
	teardown        chan struct{}
	mDone           chan struct{}
	wg              sync.WaitGroup

	retires   map[int]*c20Retire // by generation being retired (c.mu)
	wedgeNote string
	drainCfg  int
	stormGap  time.Duration // while draining: a signal every stormGap during a readiness wait
	inWait    bool          // main loop is inside waitReloadReadyOrSignal
	waitSigs  int           // signals delivered during the current readiness wait
	sessSeq   int

	hmu        sync.Mutex
	planeGen   map[*control.ControlPlane]int
	plane      *control.ControlPlane
	currCancel func()
	gen        int
	serveSeq   int
	pprof      *http.Server
	goodCfg    string
	badCfg     string
}

func (c *c20Case) violate(format string, args ...any) { // c.mu held
	if c.viol == "" {
		c.viol = fmt.Sprintf(format, args...)
	}
}

func (c *c20Case) tracef(format string, args ...any) { // c.mu held
	c.trace = append(c.trace, fmt.Sprintf(format, args...))
}

func (c *c20Case) class(name string) { // c.mu held
	c.classes[name] = true
}

// ---- seams (called by the real code) ---------------------------------------

func (c *c20Case) seamParks(who c20Caller) bool {
	if !c.fine {
		return false
	}
	if who.inRestore {
		return !c.exclRestore
	}
	if who.inClear {
		// F-C20-2 (known) is the cleanup of a request that has *already been
		// released* racing with the next admission. While the pending flag is still
		// held the cleanup is not that shape: a refusal that completes before the
		// release must still be cleaned up by it, so those accesses stay parkable.
		return !c.exclClear || (c.m != nil && c.m.reloadPending.Load())
	}
	return false
}

func (c *c20Case) progSet(code byte, content string) error {
	who := c20WhoCalls()
	if c.seamParks(who) {
		c.sched.yield(fmt.Sprintf("%s:write-%s", who.role, c20CodeName(code)), who)
	}
	c.mu.Lock()
	c.code, c.msg = code, content
	c.tracef("%s writes progress %s %q", who.role, c20CodeName(code), content)
	c.mu.Unlock()
	return nil
}

func (c *c20Case) progGet() (byte, string, error) {
	who := c20WhoCalls()
	if c.seamParks(who) {
		c.sched.yield(fmt.Sprintf("%s:read", who.role), who)
	}
	c.mu.Lock()
	code, msg := c.code, c.msg
	c.mu.Unlock()
	if c.seamParks(who) {
		// preempted between the read and whatever the caller does with the value
		c.sched.yield(fmt.Sprintf("%s:read-return", who.role), who)
	}
	return code, msg, nil
}

func (c *c20Case) onBegin(who c20Caller) {
	c.mu.Lock()
	defer c.mu.Unlock()
	c.begins++
	r := c.mReq
	if r == nil || !who.inTryQueue {
		c.violate("muting of node-failure reports begun outside a queue attempt (role %s)", who.role)
		return
	}
	if c.owner != nil {
		c.violate("request #%d accepted while request #%d is still in progress (%s, stage %s)", r.id, c.owner.id, c.owner.phase, c.owner.stage)
	}
	if g := c.retiringNow(nil); g != nil {
		c.violate("request #%d accepted while generation %d (replaced by reload #%d, abort=%v) is still being cancelled and closed: the previous generation has not retired", r.id, g.gen, g.req.id, g.abort)
	}
	r.phase, r.stage = c20PhQueued, "queued"
	c.owner = r
	c.tracef("#%d accepted", r.id)
}

// retiringNow: a retirement the admission has to wait for that is not over yet
// (of request r, or of any request if r is nil). Not counted: retirements started
// only after the main loop had already finished the reload, and those of a reload
// that ended through finishReloadFailure (both are observations in the report).
func (c *c20Case) retiringNow(r *c20Req) *c20Retire { // c.mu held
	var found *c20Retire
	for _, info := range c.retires {
		if info.torn || info.late || info.orphaned || info.req == nil {
			continue
		}
		if r != nil && info.req != r {
			continue
		}
		if found == nil || info.gen < found.gen {
			found = info
		}
	}
	return found
}

func (c *c20Case) onEnd(who c20Caller) {
	c.mu.Lock()
	defer c.mu.Unlock()
	c.ends++
	if c.ends > c.begins {
		c.violate("muting ended more often than begun (role %s)", who.role)
		return
	}
	if c.begins == c.ends {
		c.lastZeroAt, c.lastZeroOK = time.Now(), true
	}
	if who.inTryQueue { // full-queue reject path takes its own Begin back
		if c.owner != nil && c.owner == c.mReq && c.owner.phase == c20PhQueued {
			c.owner.phase = c20PhRefused
			c.owner = nil
		} else {
			c.violate("a refused request ended the muting that belongs to the request in progress (%s)", c.ownerName())
		}
		return
	}
	o := c.owner
	if o == nil {
		c.violate("muting ended with no request in progress (role %s)", who.role)
		return
	}
	switch o.phase {
	case c20PhQueued, c20PhActive:
		c.violate("request #%d was released (pending cleared, muting ended) by %s while it is still in progress at stage %s", o.id, who.role, o.stage)
	case c20PhFinishing:
		for _, info := range c.retires {
			if info.req == o && !info.torn {
				info.orphaned = true
				c.class("failure_released_while_old_generation_retiring")
			}
		}
	case c20PhRetiring:
		if g := c.retiringNow(o); g != nil {
			c.violate("request #%d was released (pending cleared, muting ended) while generation %d, which it replaced, is still being cancelled and closed (abort=%v)", o.id, g.gen, g.abort)
		}
		if o.retireCh != nil {
			select {
			case <-o.retireCh:
			default:
				c.violate("request #%d was released before the old generation it replaced had retired", o.id)
			}
		}
	}
	c.tracef("#%d released by %s", o.id, who.role)
	o.phase = c20PhReleased
	c.owner = nil
}

// ---- model bookkeeping used by the mimicked worker / main loop -------------

func (c *c20Case) setStage(r *c20Req, stage string) {
	c.mu.Lock()
	if r != nil {
		r.stage = stage
	}
	c.mu.Unlock()
}

func (c *c20Case) setPhase(r *c20Req, ph c20Phase, outcome string, retireCh <-chan struct{}) {
	c.mu.Lock()
	defer c.mu.Unlock()
	if r == nil {
		return
	}
	if c.owner != r {
		c.violate("request #%d reaches its end (%s) but the request in progress is %v", r.id, outcome, c.ownerName())
	}
	r.phase, r.outcome, r.retireCh = ph, outcome, retireCh
	c.tracef("#%d %s -> %s", r.id, outcome, ph)
}

func (c *c20Case) ownerName() string { // c.mu held
	if c.owner == nil {
		return "none"
	}
	return fmt.Sprintf("#%d", c.owner.id)
}

func (c *c20Case) snapshot() c20Snap {
	m := c.m
	var s c20Snap
	s.pending, s.active, s.reloading = m.reloadPending.Load(), m.reloadActive.Load(), m.reloading.Load()
	s.qlen = len(m.reloadReqs)
	m.mu.Lock()
	if m.reloadingErr != nil {
		s.err = m.reloadingErr.Error()
	}
	s.handoff, s.retDone = m.pendingStagedHandoff, m.pendingRetirementDone
	s.reqAt, s.reqMono = m.pendingReloadRequestedAt, m.pendingReloadRequestedAtMono
	m.mu.Unlock()
	c.mu.Lock()
	s.depth = c.begins - c.ends
	c.mu.Unlock()
	s.muted = c20ProbeSuppressed()
	return s
}

func (c *c20Case) peekRetirementDone() <-chan struct{} {
	c.m.mu.Lock()
	defer c.m.mu.Unlock()
	return c.m.pendingRetirementDone
}

// ---- mimic of the main loop (cmd/run.go `loop:`) ----------------------------

func c20MainLoop(c *c20Case) {
	defer close(c.mDone)
	for {
		select {
		case <-c.quit:
			return
		case sig := <-c.sigs:
			c.mu.Lock()
			r := c.pendingSig
			c.pendingSig = nil
			c.mBusy = true
			c.mu.Unlock()
			switch sig {
			case syscall.SIGUSR1, syscall.SIGUSR2:
				if r != nil {
					c.submit(r)
				}
			}
			c.mu.Lock()
			c.mBusy = false
			c.mu.Unlock()
		case <-c.runStateChanges:
			if c.m.reloading.Load() {
				c.mu.Lock()
				c.mBusy = true
				c.mu.Unlock()
				c.serveStage()
				c.mu.Lock()
				c.mBusy = false
				c.mu.Unlock()
			}
		}
	}
}

func (c *c20Case) submit(r *c20Req) {
	c.mu.Lock()
	c.mReq = r
	ownerAt := c.owner
	var ownerStage string
	var ownerPhase c20Phase
	if ownerAt != nil {
		ownerStage, ownerPhase = ownerAt.stage, ownerAt.phase
	}
	foreign0 := c.foreign
	c.mu.Unlock()
	before := c.snapshot()

	ok := c.m.queueReloadRequest(c20Log, reloadRequest{
		isSuspend:       r.suspend,
		requestedAt:     time.Now(),
		requestedAtMono: uint64(r.id),
	})

	var after c20Snap
	if !ok {
		after = c.snapshot()
	}
	c.mu.Lock()
	defer c.mu.Unlock()
	c.mReq = nil
	if ok {
		if r.phase == c20PhNew {
			c.violate("request #%d accepted without beginning the muting of node-failure reports", r.id)
			r.phase, r.stage = c20PhQueued, "queued"
			c.owner = r
		}
		c.class("accepted")
		return
	}
	if r.phase != c20PhRefused { // the full-queue path already marked it
		r.phase = c20PhRefused
	}
	c.tracef("#%d refused (in progress: %s)", r.id, c.ownerNameOf(ownerAt))
	if ownerAt == nil {
		c.violate("request #%d was refused as busy although no reload/suspend was in progress (wedged): pending=%v active=%v reloading=%v queue=%d",
			r.id, before.pending, before.active, before.reloading, before.qlen)
		return
	}
	c.class("refused")
	c.class("refused_during_" + ownerStage)
	if ownerPhase == c20PhQueued || ownerPhase == c20PhActive {
		c.ntRefused = true
	}
	if c.foreign != foreign0 {
		c.class("refusal_interleaved")
		return
	}
	if before != after {
		c.violate("refused request #%d changed more than the busy report:\n before %+v\n after  %+v", r.id, before, after)
	}
	if c.code != consts.ReloadBusy || c.msg == "" {
		c.violate("refused request #%d was not reported as busy: progress is %s %q", r.id, c20CodeName(c.code), c.msg)
	} else if c.msg == reloadBusyActiveMessage {
		c.class("busy_msg_active")
	} else {
		c.class("busy_msg_retiring")
	}
}

func (c *c20Case) ownerNameOf(r *c20Req) string {
	if r == nil {
		return "none"
	}
	return fmt.Sprintf("#%d %s/%s", r.id, r.phase, r.stage)
}

func (c *c20Case) currentOwner() *c20Req {
	c.mu.Lock()
	defer c.mu.Unlock()
	return c.owner
}

// c20Serve stands for c.Serve(readyChan, listener) of the new generation.
func c20Serve(c *c20Case, n int, readyChan chan bool) {
	defer c.wg.Done()
	defer func() {
		select {
		case readyChan <- false:
		default:
		}
		notifyRunStateChange(c.runStateChanges)
	}()
	switch c.sched.yield(fmt.Sprintf("S%03d:serve", n), c20Caller{role: "S"}) {
	case 0: // becomes ready and keeps serving
		readyChan <- true
		<-c.teardown
	case 1: // fails before becoming ready
		return
	default: // never becomes ready
		<-c.teardown
	}
}

// serveStage follows run.go 744-831 (case <-runStateChanges, reloading, listener != nil).
func (c *c20Case) serveStage() {
	m := c.m
	r := c.currentOwner()
	c.setStage(r, "serve")
	m.reloading.Store(false)
	// installPreparedDNSHandoffHooks: touches only the control planes; not walked.
	readyChan := make(chan bool, 1)
	c.hmu.Lock()
	n := c.serveSeq
	c.serveSeq++
	c.hmu.Unlock()
	c.wg.Add(1)
	go c20Serve(c, n, readyChan)
	c.mu.Lock()
	c.inWait, c.waitSigs = true, 0
	c.mu.Unlock()
	waitT0 := time.Now()
	waitResult, termSig := waitReloadReadyOrSignal(c20Log, c.sigs, readyChan, reloadReadyTimeout)
	c.mu.Lock()
	c.inWait = false
	if waited := time.Since(waitT0); waited > reloadReadyTimeout {
		c.violate("the main loop waited %v for the new generation to become ready (%d reload/suspend signals arrived meanwhile); the bound is %v whatever arrives",
			waited, c.waitSigs, reloadReadyTimeout)
	}
	if c.waitSigs > 0 {
		switch waitResult {
		case reloadReadyWaitTimeout:
			c.class("ready_wait_timed_out_with_signals_arriving")
		case reloadReadyWaitReady:
			c.class("ready_wait_ready_with_signals_arriving")
		}
	}
	c.mu.Unlock()
	// reload/suspend signals that arrived during the wait were consumed and ignored
	c.mu.Lock()
	if c.pendingSig != nil && len(c.sigs) == 0 {
		c.pendingSig.phase = c20PhSwallowed
		c.pendingSig = nil
		c.class("swallowed_during_ready_wait")
	}
	c.mu.Unlock()
	if waitResult == reloadReadyWaitSignal && termSig != nil {
		return // never generated
	}
	if waitResult != reloadReadyWaitReady {
		reloadErr := fmt.Errorf("reload serve failed before becoming ready")
		outcome := "serve_failed"
		if waitResult == reloadReadyWaitTimeout {
			reloadErr = fmt.Errorf("reload serve timed out after %v", reloadReadyTimeout)
			outcome = "serve_timeout"
		}
		m.setReloadError(reloadErr)
		_ = setRunSignalProgress(consts.ReloadError, reloadErr.Error())
		if handoff := m.currentPendingStagedHandoff(); handoff != nil {
			rollbackStagedReloadHandoff(c20Log, handoff)
			// PublishListenerSockets / RebuildReloadDatapath / RestartDNSListener of the
			// old plane: control-plane work, not walked.
			c.hmu.Lock()
			c.plane = handoff.oldControlPlane
			c.currCancel = handoff.oldCancel
			c.hmu.Unlock()
			m.clearPendingStagedHandoff()
		}
		c.setPhase(r, c20PhFinishing, outcome, nil)
		m.finishReloadFailure()
		return
	}
	outcome := "success_nonstaged"
	if handoff := m.currentPendingStagedHandoff(); handoff != nil {
		outcome = "success_staged"
		oldC := handoff.oldControlPlane
		m.clearPendingStagedHandoff()
		if oldC != nil {
			c.hmu.Lock()
			cur := c.plane
			c.hmu.Unlock()
			c.startRetirement(r, oldC, cur, handoff.oldCancel, handoff.abortConnections, handoff.hasOverlap)
		}
	}
	if reloadErr := m.reloadError(); reloadErr == nil {
		_ = setRunSignalProgress(consts.ReloadDone, "OK")
	} else {
		outcome += "_after_rollback"
		_ = setRunSignalProgress(consts.ReloadError, reloadErr.Error())
	}
	c.setPhase(r, c20PhRetiring, outcome, c.peekRetirementDone())
	m.finishReloadSuccess()
}

// ---- mimic of the reload worker (cmd/run.go 387-659) ------------------------

// newPlane: a control plane made of the production drain tracker only (overlay
// helper control.VerifC20DrainPlane). With a session, that session stays alive
// until the scheduler ends it (gate "X..:session") - possibly never.
func (c *c20Case) newPlane(withSession bool) *control.ControlPlane {
	n := 0
	if withSession {
		n = 1
	}
	plane, release := control.VerifC20DrainPlane(n)
	for _, rel := range release {
		c.mu.Lock()
		c.sessSeq++
		id := c.sessSeq
		c.mu.Unlock()
		c.wg.Add(1)
		go func(rel func()) {
			defer c.wg.Done()
			c.sched.yield(fmt.Sprintf("X%03d:session", id), c20Caller{role: "X"})
			rel()
		}(rel)
	}
	return plane
}

// startRetirement records what the documented bound for this retirement is and
// calls the real startControlPlaneRetirement.
func (c *c20Case) startRetirement(r *c20Req, oldC, successor *control.ControlPlane, oldCancel context.CancelFunc, abort, overlap bool) {
	m := c.m
	m.mu.Lock()
	reqAt := m.pendingReloadRequestedAt
	m.mu.Unlock()
	bound := reloadTotalSwitchBudget
	if !reqAt.IsZero() {
		bound -= time.Since(reqAt)
	}
	if bound < 0 {
		bound = 0
	}
	c.hmu.Lock()
	g := c.planeGen[oldC]
	c.hmu.Unlock()
	live := oldC.ActiveSessionCount()
	info := &c20Retire{gen: g, t0: time.Now(), bound: bound, live: live, waits: !abort && overlap && live > 0, abort: abort, req: r}
	c.mu.Lock()
	info.late = r == nil || r.phase != c20PhActive
	c.retires[g] = info
	if abort {
		c.class("retire_with_abort")
	}
	switch {
	case info.waits && bound == 0:
		c.class("retire_live_session_budget_used_up")
	case info.waits:
		c.class("retire_live_session_with_budget")
	case live > 0:
		c.class("retire_live_session_aborted_at_once")
	default:
		c.class("retire_no_session")
	}
	c.tracef("retirement of generation %d starts: %d live session(s), abort=%v overlap=%v, budget left %v", g, live, abort, overlap, bound)
	c.mu.Unlock()
	m.startControlPlaneRetirement(c20Log, oldC, successor, oldCancel, abort, overlap)
}

// retirementDrained runs inside the real retirement goroutine, right after
// retireControlPlaneConnections returned (it is the old generation's cancel func).
func (c *c20Case) retirementDrained(g int) {
	c.mu.Lock()
	defer c.mu.Unlock()
	info := c.retires[g]
	if info == nil || info.finished {
		return
	}
	info.finished = true
	elapsed := time.Since(info.t0)
	c.tracef("generation %d: connections retired after %v", g, elapsed)
	if elapsed > info.bound {
		c.violate("retirement of generation %d kept waiting for its sessions for %v although only %v of the %v switch budget was left", g, elapsed, info.bound, reloadTotalSwitchBudget)
	}
	switch {
	case info.waits && elapsed == info.bound && info.bound > 0:
		c.class("retire_forced_when_budget_ran_out")
	case info.waits && elapsed < info.bound:
		c.class("retire_sessions_ended_in_time")
	}
}

func (c *c20Case) unfinishedRetirements() string { // c.mu held
	var out []string
	for g, info := range c.retires {
		if !info.finished {
			out = append(out, fmt.Sprintf("generation %d (started %v ago, %d live session(s), budget left %v)", g, time.Since(info.t0), info.live, info.bound))
		}
	}
	sort.Strings(out)
	return strings.Join(out, "; ")
}

func (c *c20Case) gatedCancel(cancel context.CancelFunc, plane *control.ControlPlane) func() {
	c.hmu.Lock()
	c.gen++
	g := c.gen
	c.planeGen[plane] = g
	c.hmu.Unlock()
	return func() {
		c.retirementDrained(g)
		if cancel != nil {
			cancel()
		}
		// the old generation's teardown takes as long as the scheduler wants
		c.sched.yield(fmt.Sprintf("G%03d:retire", g), c20Caller{role: "G"})
		c.mu.Lock()
		if info := c.retires[g]; info != nil {
			info.torn = true
		}
		c.mu.Unlock()
	}
}

func (c *c20Case) fakeBuild(ctx context.Context, out int) (*control.ControlPlane, error) {
	switch out & 3 {
	case 0:
		return c.newPlane(out&4 == 4), nil
	case 1:
		return nil, errors.New("injected: control plane build failed")
	default:
		<-ctx.Done() // virtual 45 s
		return nil, ctx.Err()
	}
}

// workerFail is the common tail of every failure branch of the closure.
func (c *c20Case) workerFail(r *c20Req, outcome string, err error) {
	_ = setRunSignalProgress(consts.ReloadError, err.Error())
	c.m.reloadActive.Store(false)
	c.mu.Lock()
	c.ntFailure = true
	c.class("fail_" + outcome)
	c.mu.Unlock()
	c.setPhase(r, c20PhFinishing, outcome, nil)
	clearReloadPending(&c.m.reloadPending)
}

func c20Worker(c *c20Case) {
	defer c.wg.Done()
	m := c.m
	who := c20Caller{role: "W"}
	for req := range m.reloadReqs {
		c.mu.Lock()
		c.wBusy = true
		c.mu.Unlock()
		c.workerOne(req, who)
		c.mu.Lock()
		c.wBusy = false
		c.mu.Unlock()
	}
}

func (c *c20Case) workerOne(req reloadRequest, who c20Caller) {
	m := c.m
	m.reloadActive.Store(true)
	req = m.coalesceReloadRequest(req)
	reloadStartedAt := req.requestedAt
	reloadStartedAtMono := req.requestedAtMono

	c.mu.Lock()
	r := c.reqs[req.requestedAtMono]
	if r == nil || c.owner != r {
		c.violate("worker dequeued request %d but the request in progress is %s", req.requestedAtMono, c.ownerName())
	}
	if r != nil {
		r.phase, r.stage = c20PhActive, "dequeued"
	}
	c.mu.Unlock()

	_ = setRunSignalProgress(consts.ReloadProcessing, "")
	m.setReloadError(nil)
	resetReloadProxyRuntimeState()
	c.setStage(r, "processing")

	// Load new config.
	out := c.sched.yield("W:1-config", who)
	c.setStage(r, "config")
	portChanged := false
	var err error
	if req.isSuspend {
		_, err = emptyConfig()
		if err == nil && out&1 == 1 {
			err = errors.New("injected: empty config failed")
		}
	} else {
		cfgFile = c.goodCfg
		if out&1 == 1 {
			cfgFile = c.badCfg
		}
		_, _, err = readConfig(cfgFile)
		portChanged = out&2 == 2
	}
	if err != nil {
		c.workerFail(r, "config", err)
		return
	}
	abortConnections := out&4 == 4
	hasOverlap := out&8 == 8

	stagedHotHandoff := !portChanged // listener != nil always holds after start-up

	if stagedHotHandoff {
		c.setStage(r, "prepare")
		ctx, cancel := context.WithTimeout(context.Background(), reloadPrepareTimeout)
		newC, prepareErr := c.fakeBuild(ctx, c.sched.yield("W:2-prepare", who))
		if prepareErr != nil {
			reloadErr := wrapReloadTimeoutError("prepare staged reload", prepareErr, reloadPrepareTimeout)
			m.setReloadError(reloadErr)
			cancel()
			outcome := "prepare"
			if errors.Is(prepareErr, context.DeadlineExceeded) {
				outcome = "prepare_timeout"
			}
			c.workerFail(r, outcome, reloadErr)
			return
		}
		c.setStage(r, "listener")
		if c.sched.yield("W:3-listener", who)&1 == 1 {
			reloadErr := fmt.Errorf("clone listener: %w", errors.New("injected"))
			m.setReloadError(reloadErr)
			cancel()
			_ = newC.Close()
			c.workerFail(r, "listener", reloadErr)
			return
		}
		gated := c.gatedCancel(cancel, newC)
		c.hmu.Lock()
		oldC, oldCancel := c.plane, c.currCancel
		c.plane = newC
		c.currCancel = gated
		c.hmu.Unlock()
		m.setPendingStagedHandoff(&stagedReloadHandoff{
			oldControlPlane:  oldC,
			oldCancel:        oldCancel,
			newControlPlane:  newC,
			newCancel:        cancel,
			abortConnections: abortConnections,
			hasOverlap:       hasOverlap,
		}, reloadStartedAt, reloadStartedAtMono)
		c.setStage(r, "handoff")
		m.beginHandoff()
		notifyRunStateChange(c.runStateChanges)
		return
	}

	// non-staged path (port changed): StopDNSListener not walked.
	c.setStage(r, "build")
	ctx, cancel := context.WithTimeout(context.Background(), reloadPrepareTimeout)
	newC, err := c.fakeBuild(ctx, c.sched.yield("W:2-build", who))
	var newCancel context.CancelFunc
	if err != nil {
		m.setReloadError(wrapReloadTimeoutError("build new control plane", err, reloadPrepareTimeout))
		cancel()
		// roll back to the last config; a failing rollback is log.Fatalln (process
		// exit) and outside the property.
		_, cancel = context.WithTimeout(context.Background(), reloadPrepareTimeout)
		newC = c.newPlane(false)
		newCancel = cancel
		c.mu.Lock()
		c.ntFailure = true
		c.class("fail_build_rolled_back")
		c.mu.Unlock()
	} else {
		newCancel = cancel
	}
	c.setStage(r, "listen")
	if c.sched.yield("W:3-listen", who)&1 == 1 {
		reloadErr := fmt.Errorf("prepare new listener: %w", errors.New("injected"))
		m.setReloadError(reloadErr)
		newCancel()
		_ = newC.Close()
		c.workerFail(r, "listen", reloadErr)
		return
	}
	gated := c.gatedCancel(newCancel, newC)
	c.hmu.Lock()
	oldC, oldCancel := c.plane, c.currCancel
	c.plane = newC
	c.currCancel = gated
	c.hmu.Unlock()
	m.clearPendingStagedHandoff()
	m.clearPendingRetirement()
	m.setPendingReloadMetadata(reloadStartedAt, reloadStartedAtMono)
	c.setStage(r, "handoff")
	m.beginHandoff()
	// the closure closes the old listener here, then starts the retirement
	c.sched.yield("W:4-posthandoff", who)
	if oldC != nil && m.currentPendingStagedHandoff() == nil {
		c.mu.Lock()
		if r != nil && r.phase != c20PhActive {
			// the main loop already finished this reload before the retirement
			// of the old generation was even started (observation, see report)
			c.earlyRel++
			c.class("nonstaged_finish_before_retirement_started")
		}
		c.mu.Unlock()
		c.startRetirement(r, oldC, newC, oldCancel, abortConnections, hasOverlap)
	}
	m.refreshPprofServer(c20Log, &c.pprof, 0)
	notifyRunStateChange(c.runStateChanges)
}

// ---- scheduler-side actions -------------------------------------------------

func (c *c20Case) newReq(suspend bool, via string) *c20Req {
	c.mu.Lock()
	defer c.mu.Unlock()
	c.nextID++
	r := &c20Req{id: c.nextID, suspend: suspend, via: via, stage: "new"}
	c.reqs[uint64(r.id)] = r
	return r
}

// deliver stands for kill(pid, SIGUSR1/2): signal.Notify does a non-blocking
// send into the 1-slot channel.
func (c *c20Case) deliver(r *c20Req) bool {
	c.mu.Lock()
	// a signal consumed by waitReloadReadyOrSignal while the main loop is still waiting
	if c.pendingSig != nil && len(c.sigs) == 0 {
		c.pendingSig.phase = c20PhSwallowed
		c.pendingSig = nil
		c.class("swallowed_during_ready_wait")
	}
	if c.pendingSig != nil {
		c.mu.Unlock()
		r.phase = c20PhDropped
		return false
	}
	c.pendingSig = r
	c.foreign++
	if c.inWait {
		c.waitSigs++
	}
	c.mu.Unlock()
	sig := syscall.SIGUSR1
	if r.suspend {
		sig = syscall.SIGUSR2
	}
	select {
	case c.sigs <- sig:
		return true
	default:
		c.mu.Lock()
		c.pendingSig = nil
		c.mu.Unlock()
		r.phase = c20PhDropped
		return false
	}
}

// cliReload does what `dae reload` does before signalling (cmd/reload.go Run).
func (c *c20Case) cliReload() (r *c20Req, sent bool) {
	c.mu.Lock()
	code := c.code
	if code != consts.ReloadDone && code != consts.ReloadError {
		c.class("cli_refused_locally_" + c20CodeName(code))
		c.mu.Unlock()
		return nil, false
	}
	c.mu.Unlock()
	r = c.newReq(false, "cli")
	c.mu.Lock()
	c.code, c.msg = consts.ReloadSend, ""
	c.foreign++
	c.tracef("cli writes progress send")
	c.mu.Unlock()
	return r, c.deliver(r)
}

// invariants are evaluated after synctest.Wait(), i.e. with every goroutine
// parked at a gate, blocked on a channel or waiting for a timer.
func (c *c20Case) invariants() {
	m := c.m
	pending, active, reloading := m.reloadPending.Load(), m.reloadActive.Load(), m.reloading.Load()
	qlen := len(m.reloadReqs)
	c.mu.Lock()
	defer c.mu.Unlock()
	depth := c.begins - c.ends
	want := 0
	if pending {
		want = 1
	}
	if depth != want {
		c.violate("muting depth is %d while pending=%v (in progress: %s)", depth, pending, c.ownerName())
	}
	if (c.owner != nil) != pending {
		c.violate("pending=%v but the request in progress is %s", pending, c.ownerName())
	}
	if (active || reloading || qlen > 0) && !pending {
		c.violate("active=%v reloading=%v queue=%d without a pending request", active, reloading, qlen)
	}
	if qlen > 0 && (c.owner == nil || c.owner.phase != c20PhQueued) {
		c.violate("a request sits in the queue but the request in progress is %s", c.ownerNameOf(c.owner))
	}
	if c.owner != nil && c.owner.phase == c20PhActive && c.owner.stage != "dequeued" {
		switch c.code {
		case consts.ReloadProcessing, consts.ReloadBusy, consts.ReloadSend:
		default:
			c.violate("request #%d is in progress at stage %s but the progress report says %s %q", c.owner.id, c.owner.stage, c20CodeName(c.code), c.msg)
		}
	}
}

func (c *c20Case) checkMuting(when string) {
	muted := c20ProbeSuppressed()
	c.mu.Lock()
	defer c.mu.Unlock()
	depth := c.begins - c.ends
	switch {
	case depth > 0 && !muted:
		c.violate("%s: a reload/suspend is in progress (depth %d) but node-failure reports are not muted", when, depth)
	case depth == 0 && c.lastZeroOK && time.Since(c.lastZeroAt) >= c20Quiesce && muted:
		c.violate("%s: nothing in progress for %v but node-failure reports are still muted", when, time.Since(c.lastZeroAt))
	case depth == 0 && c.lastZeroOK && time.Since(c.lastZeroAt) < c20Quiesce && !muted:
		c.violate("%s: muting was lifted %v after the reload settled; the quiesce window (%v) was not armed", when, time.Since(c.lastZeroAt), c20Quiesce)
	}
}

func (c *c20Case) violation() string {
	c.mu.Lock()
	defer c.mu.Unlock()
	return c.viol
}

func (c *c20Case) busy() bool {
	c.mu.Lock()
	defer c.mu.Unlock()
	return c.owner != nil || c.mBusy || c.wBusy || c.pendingSig != nil && len(c.sigs) > 0
}

var c20GateOutcomes = map[string][]int{
	// config: bit0 fail, bit1 port changed (non-staged path), bit2 abort, bit3 dialer overlap
	"W:1-config": {0, 8, 8, 8, 8, 12, 12, 12, 4, 2, 10, 10, 14, 6, 1, 1},
	// prepare/build: 0 ok, 1 fail, 2 hang; +4: the new generation has a live session
	"W:2-prepare":  {0, 4, 4, 4, 4, 1, 2},
	"W:2-build":    {0, 4, 4, 1, 2},
	"W:3-listener": {0, 0, 0, 1},
	"W:3-listen":   {0, 0, 0, 1},
	"S:serve":      {0, 0, 0, 1, 2, 2},
}

func c20GateKey(label string) string {
	if strings.HasPrefix(label, "S") && strings.HasSuffix(label, ":serve") {
		return "S:serve"
	}
	return label
}

func (c *c20Case) releaseStep(rt *rapid.T, p *c20Park, forceOK bool) {
	out := 0
	if outs, ok := c20GateOutcomes[c20GateKey(p.label)]; ok && !forceOK {
		out = rapid.SampledFrom(outs).Draw(rt, "outcome")
	} else if p.label == "W:1-config" {
		out = c.drainCfg // while draining: no failure, generations overlap; abort as drawn
	}
	c.mu.Lock()
	if p.who.role != "M" {
		c.foreign++
	}
	c.actions = append(c.actions, fmt.Sprintf("go(%s=%d)", p.label, out))
	c.tracef("release %s outcome %d", p.label, out)
	if strings.HasPrefix(p.label, "S") && out != 0 {
		c.ntFailure = true
		c.class(map[int]string{1: "fail_serve", 2: "fail_serve_timeout"}[out])
	}
	c.mu.Unlock()
	c.sched.release(p, out)
}

// drain lets everything run to the end: gates are opened (first in label order,
// successful outcomes), timers fire. Returns false if no quiescence is reached.
func (c *c20Case) drain(rt *rapid.T, pause time.Duration) bool {
	idle := 0
	var idleFor time.Duration
	for i := 0; i < 2000; i++ {
		synctest.Wait()
		c.invariants()
		if c.violation() != "" {
			return true
		}
		// sessions of the generations are never ended here: a retirement has to get
		// done within its budget whatever they do
		var ps []*c20Park
		for _, p := range c.sched.sorted() {
			if p.who.role != "X" {
				ps = append(ps, p)
			}
		}
		if len(ps) > 0 {
			if pause > 0 && strings.HasPrefix(ps[0].label, "W:2-") {
				// a reload whose build uses up (part of) the switch budget
				c.mu.Lock()
				c.foreign++
				c.mu.Unlock()
				time.Sleep(pause)
				synctest.Wait()
			}
			c.releaseStep(rt, ps[0], true)
			idle, idleFor = 0, 0
			continue
		}
		if !c.busy() {
			return true
		}
		step := reloadReadyTimeout + time.Second
		c.mu.Lock()
		c.foreign++
		storm := c.stormGap > 0 && c.inWait
		c.mu.Unlock()
		if storm {
			// reload/suspend signals keep arriving, less than the readiness timeout
			// apart, while the main loop waits for a generation that does not get ready
			r := c.newReq(idle%2 == 1, "storm")
			c.deliver(r)
			c.mu.Lock()
			c.actions = append(c.actions, fmt.Sprintf("storm(#%d)", r.id))
			c.mu.Unlock()
			step = c.stormGap
		}
		idle++
		idleFor += step
		if idleFor > 12*(reloadReadyTimeout+time.Second) {
			return false
		}
		time.Sleep(step)
	}
	return false
}

func (c *c20Case) finalChecks(when string) {
	snap := c.snapshot()
	c.mu.Lock()
	if snap.pending || snap.active || snap.reloading || snap.qlen != 0 || snap.depth != 0 {
		c.violate("%s: not back to idle: pending=%v active=%v reloading=%v queue=%d muting depth=%d", when, snap.pending, snap.active, snap.reloading, snap.qlen, snap.depth)
	}
	if c.code != consts.ReloadDone && c.code != consts.ReloadError {
		c.violate("%s: everything settled but the progress report is stuck at %s %q (dae reload refuses to signal while it is neither done nor error)", when, c20CodeName(c.code), c.msg)
	}
	c.mu.Unlock()
}

func c20RunProtocolCase(t *testing.T, rt *rapid.T, dir string) {
	// C20_FORCE_FINE=1 keeps the fine-grained parking on even for known findings
	// (to watch the search find them); C20_EXCL is for experiments.
	force := os.Getenv("C20_FORCE_FINE") != ""
	knownBusy := (vkKnown("F-C20-1") && !force) || strings.Contains(os.Getenv("C20_EXCL"), "restore")
	knownClear := (vkKnown("F-C20-2") && !force) || strings.Contains(os.Getenv("C20_EXCL"), "clear")
	fine := rapid.IntRange(0, 2).Draw(rt, "fine") > 0
	if c20NoFine {
		fine = false
	}
	nSteps := rapid.IntRange(4, 70).Draw(rt, "steps")
	if vkThorough() {
		nSteps = rapid.IntRange(4, 160).Draw(rt, "steps_thorough")
	}

	c := &c20Case{
		fine:        fine,
		exclRestore: knownBusy,
		exclClear:   knownClear,
		reqs:        map[uint64]*c20Req{},
		classes:     map[string]bool{},
		retires:     map[int]*c20Retire{},
		planeGen:    map[*control.ControlPlane]int{},
		code:        consts.ReloadDone, // written by Run once the first generation is ready
		goodCfg:     filepath.Join(dir, "good.dae"),
		badCfg:      filepath.Join(dir, "bad.dae"),
	}
	var failure string
	var wedged bool

	var stuck any
	func() {
		defer func() {
			// goroutines of the real code that can never finish (e.g. a retirement
			// that is never reported done) make synctest.Test panic after the case
			if r := recover(); r != nil {
				if strings.Contains(fmt.Sprint(r), "blocked goroutines remain") {
					stuck = r
					return
				}
				panic(r)
			}
		}()
		c20RunProtocolBubble(t, rt, c, nSteps, &failure, &wedged)
	}()
	c20FinishProtocolCase(rt, c, failure, wedged, stuck, knownBusy, knownClear)
}

func c20RunProtocolBubble(t *testing.T, rt *rapid.T, c *c20Case, nSteps int, failureP *string, wedgedP *bool) {
	firstSession := rapid.Bool().Draw(rt, "firstSession")
	c.stormGap = rapid.SampledFrom([]time.Duration{0, 10 * time.Second, 30 * time.Second, 44 * time.Second, reloadReadyTimeout - time.Nanosecond}).Draw(rt, "stormGap")
	c.drainCfg = rapid.SampledFrom([]int{8, 8, 12}).Draw(rt, "drainCfg")
	finalPause := rapid.SampledFrom([]time.Duration{0, 0, 3 * time.Second, 11 * time.Second, 11 * time.Second}).Draw(rt, "finalPause")
	var failure string
	var wedged bool
	defer func() { *failureP, *wedgedP = failure, wedged }()
	c20InBubble(t, func() {
		if err := c20ResetSuppression(); err != nil {
			failure = "before the case: " + err.Error()
			return
		}
		c.sigs = make(chan os.Signal, 1)
		c.runStateChanges = make(chan struct{}, 1)
		c.m = newReloadManager(make(chan reloadRequest, 1), c.runStateChanges, c.sigs)
		c.quit = make(chan struct{})
		c.teardown = make(chan struct{})
		c.mDone = make(chan struct{})
		c.plane = c.newPlane(firstSession)
		c.currCancel = c.gatedCancel(nil, c.plane)
		c20SetSeams(c)
		c.wg.Add(1)
		go c20Worker(c)
		go c20MainLoop(c)

		defer func() {
			// tear down whatever state the case is in
			c.sched.setFree()
			for i := 0; i < 50; i++ {
				synctest.Wait()
				if !c.busy() {
					break
				}
				time.Sleep(reloadReadyTimeout + time.Second)
			}
			close(c.quit)
			<-c.mDone
			close(c.m.reloadReqs)
			close(c.teardown)
			c.wg.Wait()
			time.Sleep(2 * time.Minute) // let control-plane close timers expire
			synctest.Wait()
			c20SetSeams(nil)
		}()

		for step := 0; step < nSteps; step++ {
			synctest.Wait()
			c.invariants()
			if c.violation() != "" {
				return
			}
			parked := c.sched.sorted()
			kinds := []string{"signal", "signal", "signal", "cli", "advance", "probe"}
			if len(parked) > 0 {
				kinds = append(kinds, "go", "go", "go", "go", "go", "go", "go")
			}
			switch rapid.SampledFrom(kinds).Draw(rt, "action") {
			case "go":
				p := parked[rapid.IntRange(0, len(parked)-1).Draw(rt, "which")]
				c.releaseStep(rt, p, false)
			case "signal":
				suspend := rapid.IntRange(0, 3).Draw(rt, "suspend") == 0
				r := c.newReq(suspend, "raw")
				ok := c.deliver(r)
				c.mu.Lock()
				c.actions = append(c.actions, fmt.Sprintf("signal(#%d,suspend=%v,delivered=%v)", r.id, suspend, ok))
				if suspend {
					c.class("suspend")
				}
				c.mu.Unlock()
			case "cli":
				r, ok := c.cliReload()
				c.mu.Lock()
				if r != nil {
					c.actions = append(c.actions, fmt.Sprintf("cli(#%d,delivered=%v)", r.id, ok))
					c.class("cli_signalled")
				} else {
					c.actions = append(c.actions, "cli(refused locally)")
				}
				c.mu.Unlock()
			case "advance":
				d := rapid.SampledFrom([]time.Duration{time.Millisecond, time.Second, 11 * time.Second,
					c20Quiesce, reloadReadyTimeout + time.Second}).Draw(rt, "sleep")
				c.mu.Lock()
				c.foreign++
				c.actions = append(c.actions, "sleep("+d.String()+")")
				c.mu.Unlock()
				time.Sleep(d)
			case "probe":
				c.checkMuting("during the run")
			}
		}

		// let it settle, then the quiescent-state oracle
		if !c.drain(rt, 0) {
			wedged = true
			c.mu.Lock()
			c.wedgeNote = fmt.Sprintf("request in progress %s (pending=%v active=%v reloading=%v)", c.ownerNameOf(c.owner),
				c.m.reloadPending.Load(), c.m.reloadActive.Load(), c.m.reloading.Load())
			if u := c.unfinishedRetirements(); u != "" {
				c.wedgeNote += "; the old generation never retired: " + u
			}
			c.mu.Unlock()
			return
		}
		if c.violation() != "" {
			return
		}
		c.checkMuting("right after settling")
		c.finalChecks("after the history")
		if c.violation() != "" {
			return
		}
		// "accepts a new request again": one more reload, everything succeeds
		last := c.newReq(false, "final")
		if !c.deliver(last) {
			c.mu.Lock()
			c.violate("the signal channel is still occupied at quiescence")
			c.mu.Unlock()
			return
		}
		if !c.drain(rt, finalPause) {
			wedged = true
			c.mu.Lock()
			c.wedgeNote = fmt.Sprintf("request in progress %s (pending=%v active=%v reloading=%v)", c.ownerNameOf(c.owner),
				c.m.reloadPending.Load(), c.m.reloadActive.Load(), c.m.reloading.Load())
			if u := c.unfinishedRetirements(); u != "" {
				c.wedgeNote += "; the old generation never retired: " + u
			}
			c.mu.Unlock()
			return
		}
		c.mu.Lock()
		if c.viol == "" && last.phase != c20PhReleased {
			c.violate("a reload requested after everything had settled was not carried out: request is %s (stage %s)", last.phase, last.stage)
		}
		c.mu.Unlock()
		if c.violation() != "" {
			return
		}
		c.finalChecks("after the final reload")
		c.checkMuting("right after the final reload")
		time.Sleep(c20Quiesce + time.Second)
		c.checkMuting("after the quiesce window")
	})
}

func c20FinishProtocolCase(rt *rapid.T, c *c20Case, failure string, wedged bool, stuck any, knownBusy, knownClear bool) {
	c.mu.Lock()
	defer c.mu.Unlock()
	if failure == "" && c.viol == "" && !wedged && stuck != nil {
		failure = fmt.Sprintf("goroutines of the reload machinery are blocked for ever after the history (%v)", stuck)
	}
	if failure == "" && wedged {
		failure = "no quiescence, the reload never finished: " + c.wedgeNote
	}
	if failure == "" {
		failure = c.viol
	}
	if failure != "" {
		tail := c.trace
		if len(tail) > 60 {
			tail = tail[len(tail)-60:]
		}
		rt.Fatalf("C20 protocol: %s\nfine=%v actions: %s\ntrace (tail):\n  %s", failure, c.fine,
			strings.Join(c.actions, " "), strings.Join(tail, "\n  "))
	}
	classes := make([]string, 0, len(c.classes)+2)
	for k := range c.classes {
		classes = append(classes, k)
	}
	if c.fine {
		classes = append(classes, "fine_grained")
	} else {
		classes = append(classes, "stage_grained")
	}
	if knownBusy && c.fine {
		vkExcluded(c20UnitProtocol, "F-C20-1")
	}
	if knownClear && c.fine {
		vkExcluded(c20UnitProtocol, "F-C20-2")
	}
	ntKey := ""
	if c.ntRefused && c.ntFailure {
		ntKey = strings.Join(c.actions, " ")
		if c.fine {
			ntKey = "fine " + ntKey
		}
	}
	acts := append([]string(nil), c.actions...)
	vkCase(c20UnitProtocol, ntKey, func() any { return map[string]any{"fine": c.fine, "actions": acts} }, classes...)
}

func c20WriteConfigs(t *testing.T) string {
	dir, err := os.MkdirTemp(".", "c20cfg")
	if err != nil {
		t.Fatalf("mkdir: %v", err)
	}
	dir, _ = filepath.Abs(dir)
	t.Cleanup(func() { _ = os.RemoveAll(dir) })
	if err := os.WriteFile(filepath.Join(dir, "good.dae"), []byte("global{}\nrouting{}\n"), 0600); err != nil {
		t.Fatalf("write: %v", err)
	}
	if err := os.WriteFile(filepath.Join(dir, "bad.dae"), []byte("global{}\nrouting{\n"), 0600); err != nil {
		t.Fatalf("write: %v", err)
	}
	if _, _, err := readConfig(filepath.Join(dir, "good.dae")); err != nil {
		t.Fatalf("harness: good config rejected: %v", err)
	}
	if _, _, err := readConfig(filepath.Join(dir, "bad.dae")); err == nil {
		t.Fatalf("harness: bad config accepted")
	}
	return dir
}

// c20NoFine: no parking inside the progress-file accesses of the real primitives.
// Set when the tree serialises those accesses with the admission (e.g. a lock held
// across them, the obvious repair of F-C20-1/2): a goroutine parked inside would
// keep the others waiting on that lock, and synctest.Wait cannot treat a goroutine
// blocked on a mutex as quiescent. Detected with the F-C20-1 scenario.
var c20NoFine bool

func TestC20_Protocol(t *testing.T) {
	c20InstallSeams(t)
	dir := c20WriteConfigs(t)
	c20NoFine = os.Getenv("C20_NO_FINE") != ""
	if !c20NoFine {
		if probe := c20RunFinding1(); probe.harness == "" && probe.waited {
			c20NoFine = true
			vkNote(c20UnitProtocol, "release waits for a refusal that is inside its progress-file access: accesses are serialised in this tree, fine-grained parking switched off")
		}
	}
	rapid.Check(t, func(rt *rapid.T) {
		c20RunProtocolCase(t, rt, dir)
	})
}

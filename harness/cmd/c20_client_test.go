package cmd

// C20 unit "client": the `dae reload` CLIENT side of the protocol, real code:
// the pre-check of reloadCmd (readSignalProgressFile, signal only while the report
// is done or error), writeReloadSendAndSignal and waitReloadCompletion with the
// production parameters (500 ms, 200 ms, reloadProgressWaitTimeout), run against
// a progress FILE (these functions take a path; set/getRunSignalProgress are
// pointed at the same file through the production write/readSignalProgressFile)
// and a small daemon made of the real reloadManager primitives
// (queueReloadRequest, coalesceReloadRequest, clearReloadPending,
// finishReloadSuccess + its release goroutine). kill(2) is a fake: the daemon
// handles the signal before kill returns, or a rapid-chosen time later, or kill
// fails. Everything inside a bubble.
//
// Daemon events are placed at pairwise distinct virtual instants (ns offsets), so
// the daemon-internal interleavings of F-C20-1/2 (refusal's busy write vs. release)
// cannot occur here; only client/daemon interleavings are explored.
//
// Oracle: a refused request is answered: the client never runs into its timeout,
// and while no other daemon report came after the refusal the client sees exactly
// the busy report (also right after writeReloadSendAndSignal returned: the
// client's own bookkeeping must not replace it); an accepted reload that ends in
// time is answered with its own done/error report; a failed kill leaves the
// report as it was; once everything has settled nothing is pending and the report
// is done or error (never send/busy/processing: `dae reload` would refuse locally
// for ever).

import (
	"errors"
	"fmt"
	"os"
	"path/filepath"
	"sync"
	"syscall"
	"testing"
	"testing/synctest"
	"time"

	"github.com/daeuniverse/dae/common/consts"
	"pgregory.net/rapid"
)

const c20UnitClient = "C20.client"

type c20FileDaemon struct {
	path string
	m    *reloadManager

	mu         sync.Mutex
	writes     int // reports written by the daemon
	begins     int
	ends       int
	wg         sync.WaitGroup
	viol       string
	base       time.Time
}

// c20Job: one accepted reload; filled in by its worker (under d.mu).
type c20Job struct {
	endAt  time.Duration // when it wrote its done/error report (0: not yet)
	endOK  bool
	endMsg string
}

func (d *c20FileDaemon) progSet(code byte, content string) error {
	d.mu.Lock()
	d.writes++
	d.mu.Unlock()
	return writeSignalProgressFile(d.path, code, content)
}
func (d *c20FileDaemon) progGet() (byte, string, error) { return readSignalProgressFile(d.path) }
func (d *c20FileDaemon) onBegin(c20Caller)            { d.mu.Lock(); d.begins++; d.mu.Unlock() }
func (d *c20FileDaemon) onEnd(c20Caller)              { d.mu.Lock(); d.ends++; d.mu.Unlock() }

func (d *c20FileDaemon) nWrites() int {
	d.mu.Lock()
	defer d.mu.Unlock()
	return d.writes
}

// handleSignal is what Run's signal loop does on SIGUSR1; an accepted request is
// carried out by a worker that takes `work`, fails or succeeds, and whose old
// generation takes `retire` to go away.
func (d *c20FileDaemon) handleSignal(work, retire time.Duration, fail bool) *c20Job {
	if !d.m.queueReloadRequest(c20Log, reloadRequest{requestedAt: time.Now()}) {
		return nil
	}
	job := &c20Job{}
	d.wg.Add(1)
	go func() {
		defer d.wg.Done()
		m := d.m
		req := <-m.reloadReqs
		m.reloadActive.Store(true)
		_ = m.coalesceReloadRequest(req)
		_ = setRunSignalProgress(consts.ReloadProcessing, "")
		m.setReloadError(nil)
		time.Sleep(work)
		if fail {
			_ = setRunSignalProgress(consts.ReloadError, "injected: config load failed")
			d.noteEnd(job, false, "injected: config load failed")
			m.reloadActive.Store(false)
			clearReloadPending(&m.reloadPending)
			return
		}
		retired := make(chan struct{})
		m.mu.Lock()
		m.pendingRetirementDone = retired
		m.mu.Unlock()
		_ = setRunSignalProgress(consts.ReloadDone, "OK")
		d.noteEnd(job, true, "OK")
		m.finishReloadSuccess()
		time.Sleep(retire)
		close(retired)
	}()
	return job
}

func (d *c20FileDaemon) noteEnd(job *c20Job, ok bool, msg string) {
	d.mu.Lock()
	job.endAt, job.endOK, job.endMsg = time.Since(d.base), ok, msg
	d.mu.Unlock()
}

func TestC20_Client(t *testing.T) {
	c20InstallSeams(t)
	dir, err := os.MkdirTemp(".", "c20client")
	if err != nil {
		t.Fatal(err)
	}
	dir, _ = filepath.Abs(dir)
	t.Cleanup(func() { _ = os.RemoveAll(dir) })
	path := filepath.Join(dir, "dae.progress")

	const ns = time.Nanosecond
	rapid.Check(t, func(rt *rapid.T) {
		pre := rapid.SampledFrom([]string{"idle", "idle", "retiring", "retiring", "retiring", "active", "failed"}).Draw(rt, "daemonState")
		preRetire := rapid.SampledFrom([]time.Duration{200*time.Millisecond + 7*ns, 3*time.Second + 7*ns, 30*time.Second + 7*ns, 100*time.Second + 7*ns}).Draw(rt, "preRetire")
		preWork := rapid.SampledFrom([]time.Duration{300*time.Millisecond + 3*ns, 5*time.Second + 3*ns, 70*time.Second + 3*ns}).Draw(rt, "preWork")
		race := rapid.IntRange(0, 3).Draw(rt, "raceRawSignal") == 0 // a raw SIGUSR1 between the client's pre-check and its kill
		kill := rapid.SampledFrom([]string{"sync", "sync", "sync", "async", "async", "fail"}).Draw(rt, "kill")
		delay := rapid.SampledFrom([]time.Duration{time.Millisecond, 100 * time.Millisecond, 499 * time.Millisecond, 500 * time.Millisecond, 700 * time.Millisecond, 5 * time.Second}).Draw(rt, "delay")
		work := rapid.SampledFrom([]time.Duration{3 * ns, 300*time.Millisecond + 3*ns, 2*time.Second + 3*ns, 70*time.Second + 3*ns}).Draw(rt, "work")
		retire := rapid.SampledFrom([]time.Duration{11 * ns, time.Second + 11*ns, 30*time.Second + 11*ns}).Draw(rt, "retire")
		fail := rapid.IntRange(0, 3).Draw(rt, "fail") == 0

		var failure string
		var classes []string
		nt := false
		c20InBubble(t, func() {
			if err := c20ResetSuppression(); err != nil {
				failure = "before the case: " + err.Error()
				return
			}
			d := &c20FileDaemon{path: path, base: time.Now()}
			d.m = newReloadManager(make(chan reloadRequest, 1), make(chan struct{}, 1), nil)
			c20SetSeams(d)
			defer c20SetSeams(nil)
			defer func() { // settle whatever is going on
				time.Sleep(10 * time.Minute)
				d.wg.Wait()
				synctest.Wait()
			}()
			if err := writeSignalProgressFile(path, consts.ReloadDone, ""); err != nil { // as Run does at start-up
				failure = "harness: " + err.Error()
				return
			}

			// the daemon's situation when the user types `dae reload`
			switch pre {
			case "retiring": // a reload (raw signal) has been reported done, old generation still retiring
				d.handleSignal(5*ns, preRetire, false)
				time.Sleep(100 * time.Millisecond)
			case "active": // a reload (raw signal) is being carried out
				d.handleSignal(preWork, 13*ns, false)
				time.Sleep(100 * time.Millisecond)
			case "failed": // the last reload failed
				d.handleSignal(5*ns, 0, true)
				time.Sleep(100 * time.Millisecond)
			}
			synctest.Wait()

			// ---- client: reloadCmd.Run ----
			code, content, err := readSignalProgressFile(path)
			if err == nil && code != consts.ReloadDone && code != consts.ReloadError {
				classes = append(classes, "client_stops_at_precheck_"+c20CodeName(code))
				if content == "" && code == consts.ReloadBusy {
					failure = "pre-check found a busy report without a message"
				}
				return
			}
			if race {
				if d.handleSignal(preWork, 13*ns, false) != nil {
					classes = append(classes, "raw_signal_accepted_after_precheck")
				}
				synctest.Wait()
			}
			before, _ := os.ReadFile(path)
			t0 := time.Since(d.base)
			delivered := make(chan struct{})
			var accepted bool
			var job *c20Job
			var refusedAtWrites = -1
			deliver := func() {
				job = d.handleSignal(work, retire, fail)
				accepted = job != nil
				if !accepted {
					refusedAtWrites = d.nWrites()
				}
				close(delivered)
			}
			killErr := errors.New("no such process")
			fakeKill := func(pid int, sig syscall.Signal) error {
				if sig != syscall.SIGUSR1 {
					failure = fmt.Sprintf("client sent %v", sig)
				}
				switch kill {
				case "fail":
					return killErr
				case "sync": // the daemon gets the CPU before the client does
					deliver()
				default:
					d.wg.Add(1)
					go func() { defer d.wg.Done(); time.Sleep(delay); deliver() }()
				}
				return nil
			}
			err = writeReloadSendAndSignal(path, 4242, fakeKill)
			if kill == "fail" {
				after, _ := os.ReadFile(path)
				if err == nil || string(after) != string(before) {
					failure = fmt.Sprintf("kill failed: error=%v, report was %q and is %q", err, before, after)
				}
				classes = append(classes, "kill_failed")
				return
			}
			if err != nil {
				failure = fmt.Sprintf("writeReloadSendAndSignal: %v", err)
				return
			}
			if kill == "sync" && !accepted && d.nWrites() == refusedAtWrites {
				c1, m1, _ := readSignalProgressFile(path)
				if c1 != consts.ReloadBusy || m1 == "" {
					failure = fmt.Sprintf("the daemon refused the request and reported busy, but when the client's request function returned the report read %s %q", c20CodeName(c1), m1)
					return
				}
			}
			code, content, err = waitReloadCompletion(path, 500*time.Millisecond, 200*time.Millisecond, reloadProgressWaitTimeout)
			returnedAt := time.Since(d.base)
			early := false
			select {
			case <-delivered:
			default:
				// the report of another reload (raw signal after the pre-check) ended the
				// client's wait before its own signal was even handled: nothing to compare
				early = true
				classes = append(classes, "client_answered_before_its_signal_was_handled")
			}
			var endAt time.Duration
			var endOK bool
			var endMsg string
			if job != nil {
				d.mu.Lock()
				endAt, endOK, endMsg = job.endAt, job.endOK, job.endMsg
				d.mu.Unlock()
			}
			switch {
			case early:
			case !accepted:
				nt = true
				classes = append(classes, "refused_"+pre)
				if err != nil {
					failure = fmt.Sprintf("the request was refused by the daemon (%s) but `dae reload` was never told: %v (report now %s)", pre, err, c20ReadName(path))
					return
				}
				if d.nWrites() == refusedAtWrites && (code != consts.ReloadBusy || content == "") {
					failure = fmt.Sprintf("the request was refused and nothing else was reported since, but `dae reload` got %s %q instead of the busy report", c20CodeName(code), content)
					return
				}
				if code == consts.ReloadBusy {
					classes = append(classes, "client_told_busy")
				} else {
					classes = append(classes, "client_told_result_of_the_other_reload")
				}
			default:
				classes = append(classes, "accepted")
				inTime := endAt > 0 && endAt < t0+500*time.Millisecond+reloadProgressWaitTimeout-time.Second
				if err != nil {
					if inTime {
						failure = fmt.Sprintf("the reload ended at +%v (%s) but `dae reload` (started +%v) timed out: %v", endAt, endMsg, t0, err)
						return
					}
					classes = append(classes, "accepted_reload_outlasts_client_timeout")
				} else if inTime && returnedAt >= endAt {
					wantCode := byte(consts.ReloadDone)
					if !endOK {
						wantCode = consts.ReloadError
					}
					if code != wantCode || content != endMsg {
						failure = fmt.Sprintf("the reload ended with %s %q but `dae reload` got %s %q", c20CodeName(wantCode), endMsg, c20CodeName(code), content)
						return
					}
				}
			}

			// ---- afterwards ----
			time.Sleep(10 * time.Minute)
			d.wg.Wait()
			synctest.Wait()
			fc, fm, ferr := readSignalProgressFile(path)
			d.mu.Lock()
			depth := d.begins - d.ends
			d.mu.Unlock()
			if d.m.reloadPending.Load() || d.m.reloadActive.Load() || depth != 0 {
				failure = fmt.Sprintf("after everything settled: pending=%v active=%v muting depth=%d", d.m.reloadPending.Load(), d.m.reloadActive.Load(), depth)
				return
			}
			if ferr != nil || (fc != consts.ReloadDone && fc != consts.ReloadError) {
				failure = fmt.Sprintf("after everything settled nothing is in progress but the report is %s %q (err %v): every later `dae reload` refuses locally", c20CodeName(fc), fm, ferr)
			}
		})
		desc := fmt.Sprintf("daemon=%s(preWork %v, preRetire %v) race=%v kill=%s(delay %v) work=%v retire=%v fail=%v", pre, preWork, preRetire, race, kill, delay, work, retire, fail)
		if failure != "" {
			rt.Fatalf("C20 client: %s\n%s", failure, desc)
		}
		key := ""
		if nt {
			key = desc
		}
		vkCase(c20UnitClient, key, func() any { return desc }, classes...)
	})
}

func c20ReadName(path string) string {
	c, m, err := readSignalProgressFile(path)
	if err != nil {
		return "unreadable: " + err.Error()
	}
	return fmt.Sprintf("%s %q", c20CodeName(c), m)
}

package cmd

// C20 unit "primitives": the admission / release / progress / muting primitives
// called directly, one at a time, from arbitrary flag states (also the states the
// protocol never produces: full queue with a free pending flag, nil flags, End
// without Begin), against a small reference model. Plus the two deterministic
// finding tests (progress report vs. pending flag are not updated atomically).

import (
	"fmt"
	"strings"
	"sync"
	"testing"
	"testing/synctest"
	"time"

	"github.com/daeuniverse/dae/common/consts"
	outbounddialer "github.com/daeuniverse/dae/component/outbound/dialer"
	"pgregory.net/rapid"
)

const c20UnitPrims = "C20.primitives"

// c20Cell: progress cell + begin/end counters; can park the real primitives at
// their progress-file accesses.
type c20Cell struct {
	sched            c20Sched
	mu               sync.Mutex
	parkRestoreWrite bool
	parkClearRead    bool
	parkClearWrite   bool
	code             byte
	msg              string
	begins, ends     int
	writes           int
}

func (c *c20Cell) progSet(code byte, content string) error {
	who := c20WhoCalls()
	if who.inRestore && c.parkRestoreWrite {
		c.sched.yield("restore-write", who)
	}
	if who.inClear && c.parkClearWrite {
		c.sched.yield("clear-write", who)
	}
	c.mu.Lock()
	c.code, c.msg = code, content
	c.writes++
	c.mu.Unlock()
	return nil
}

func (c *c20Cell) progGet() (byte, string, error) {
	who := c20WhoCalls()
	if who.inClear && c.parkClearRead {
		c.sched.yield("clear-read", who)
	}
	c.mu.Lock()
	defer c.mu.Unlock()
	return c.code, c.msg, nil
}

func (c *c20Cell) onBegin(c20Caller) { c.mu.Lock(); c.begins++; c.mu.Unlock() }
func (c *c20Cell) onEnd(c20Caller)   { c.mu.Lock(); c.ends++; c.mu.Unlock() }

func (c *c20Cell) get() (byte, string, int, int, int) {
	c.mu.Lock()
	defer c.mu.Unlock()
	return c.code, c.msg, c.begins, c.ends, c.writes
}

func (c *c20Cell) put(code byte, msg string) {
	c.mu.Lock()
	c.code, c.msg = code, msg
	c.mu.Unlock()
}

type c20PrimModel struct {
	pending, active, reloading bool
	qlen                       int
	code                       byte
	depth                      int       // real counter of package dialer
	until                      time.Time // end of the quiesce window
	waiting                    []chan struct{}
}

func (m *c20PrimModel) end() {
	if m.depth > 0 {
		m.depth--
		if m.depth == 0 {
			m.until = time.Now().Add(c20Quiesce)
		}
	}
}

// clear is what a release does: pending off, one muting scope ended, a busy
// report is not left behind.
func (m *c20PrimModel) clear(flagNil bool) {
	if !flagNil {
		m.pending = false
	}
	m.end()
	if m.code == consts.ReloadBusy {
		m.code = consts.ReloadDone
	}
}

func TestC20_Primitives(t *testing.T) {
	c20InstallSeams(t)
	rapid.Check(t, func(rt *rapid.T) {
		var failure string
		var hist []string
		classes := map[string]bool{}
		nt := false
		nSteps := rapid.IntRange(3, 40).Draw(rt, "steps")
		c20InBubble(t, func() {
			if err := c20ResetSuppression(); err != nil {
				failure = "before the case: " + err.Error()
				return
			}
			cell := &c20Cell{code: consts.ReloadDone}
			c20SetSeams(cell)
			defer c20SetSeams(nil)
			rsc := make(chan struct{}, 1)
			m := newReloadManager(make(chan reloadRequest, 1), rsc, nil)
			mod := &c20PrimModel{code: consts.ReloadDone}
			var open []chan struct{} // retirement channels handed to a release, still open
			defer func() {
				for _, ch := range open {
					close(ch)
				}
				synctest.Wait()
			}()
			fail := func(format string, args ...any) {
				if failure == "" {
					failure = fmt.Sprintf(format, args...)
				}
			}
			check := func(what string) {
				synctest.Wait()
				code, msg, _, _, _ := cell.get()
				if got := m.reloadPending.Load(); got != mod.pending {
					fail("%s: pending=%v, want %v", what, got, mod.pending)
				}
				if got := m.reloadActive.Load(); got != mod.active {
					fail("%s: active=%v, want %v", what, got, mod.active)
				}
				if got := m.reloading.Load(); got != mod.reloading {
					fail("%s: reloading=%v, want %v", what, got, mod.reloading)
				}
				if got := len(m.reloadReqs); got != mod.qlen {
					fail("%s: %d queued requests, want %d", what, got, mod.qlen)
				}
				if code != mod.code {
					fail("%s: progress report is %s %q, want %s", what, c20CodeName(code), msg, c20CodeName(mod.code))
				}
				if code == consts.ReloadBusy && msg == "" {
					fail("%s: busy report without a message", what)
				}
				muted := c20ProbeSuppressed()
				want := mod.depth > 0 || time.Now().Before(mod.until)
				if muted != want {
					fail("%s: node-failure reports muted=%v, want %v (muting depth %d, quiesce window ends in %v)", what, muted, want, mod.depth, time.Until(mod.until))
				}
			}

			for step := 0; step < nSteps && failure == ""; step++ {
				act := rapid.SampledFrom([]string{"queue", "queue", "queue", "fill", "take", "clear", "release", "closeRetire",
					"finishFail", "finishOK", "handoff", "active", "begin", "end", "sleep", "busy"}).Draw(rt, "act")
				switch act {
				case "queue":
					pNil := rapid.IntRange(0, 5).Draw(rt, "pendingNil") == 0
					aNil := rapid.IntRange(0, 5).Draw(rt, "activeNil") == 0
					pend, actv := &m.reloadPending, &m.reloadActive
					if pNil {
						pend = nil
					}
					if aNil {
						actv = nil
					}
					_, _, b0, e0, w0 := cell.get()
					got := tryQueueReloadRequest(c20Log, m.reloadReqs, actv, pend, reloadRequest{requestedAtMono: uint64(step + 1)})
					_, _, b1, e1, w1 := cell.get()
					hist = append(hist, fmt.Sprintf("queue(pNil=%v,aNil=%v)=%v", pNil, aNil, got))
					switch {
					case !pNil && mod.pending:
						classes["refused_pending"] = true
						if got {
							fail("queue attempt accepted while another request is pending")
						}
						if b1 != b0 || e1 != e0 {
							fail("refused (pending) queue attempt touched the muting counter: begin +%d end +%d", b1-b0, e1-e0)
						}
						if w1 != w0+1 {
							fail("refused queue attempt wrote the progress report %d times, want 1", w1-w0)
						}
						mod.code = consts.ReloadBusy
						nt = true
					case mod.qlen == 1:
						classes["refused_full"] = true
						if got {
							fail("queue attempt accepted although the queue is full")
						}
						if b1-b0 != 1 || e1-e0 != 1 {
							fail("refused (queue full) attempt must take its muting back: begin +%d end +%d", b1-b0, e1-e0)
						}
						// the real counter: +1 then -1; at depth 0 that re-arms the quiesce window
						mod.depth++
						mod.end()
						mod.code = consts.ReloadBusy
						nt = true
					default:
						classes["accepted"] = true
						if !got {
							fail("queue attempt refused although nothing is pending and the queue is empty")
						}
						if b1-b0 != 1 || e1 != e0 {
							fail("accepted request: begin +%d end +%d, want +1/+0", b1-b0, e1-e0)
						}
						if w1 != w0 {
							fail("accepted request wrote the progress report")
						}
						if !pNil {
							mod.pending = true
						}
						mod.depth++
						mod.qlen = 1
					}
				case "fill": // a request sitting in the queue without the flag (never produced by the protocol)
					select {
					case m.reloadReqs <- reloadRequest{requestedAtMono: 1000}:
						mod.qlen = 1
					default:
					}
					hist = append(hist, "fill")
				case "take":
					if mod.qlen == 0 {
						continue
					}
					first := <-m.reloadReqs
					extra := rapid.Bool().Draw(rt, "extra")
					if extra {
						m.reloadReqs <- reloadRequest{isSuspend: true, requestedAtMono: 2000}
					}
					got := m.coalesceReloadRequest(first)
					hist = append(hist, fmt.Sprintf("take(extra=%v)", extra))
					if extra && (got.requestedAtMono != 2000 || !got.isSuspend) {
						fail("coalesce did not return the latest queued request: %+v", got)
					}
					if !extra && got.requestedAtMono != first.requestedAtMono {
						fail("coalesce changed the only request: %+v", got)
					}
					if got.requestedAt.IsZero() {
						fail("coalesced request has no timestamp")
					}
					mod.qlen = 0
				case "clear":
					fNil := rapid.IntRange(0, 5).Draw(rt, "flagNil") == 0
					if fNil {
						clearReloadPending(nil)
					} else {
						clearReloadPending(&m.reloadPending)
					}
					mod.clear(fNil)
					hist = append(hist, fmt.Sprintf("clear(nil=%v)", fNil))
				case "release":
					fNil := rapid.IntRange(0, 5).Draw(rt, "flagNil") == 0
					kind := rapid.SampledFrom([]string{"nil", "open", "open", "closed"}).Draw(rt, "done")
					var done chan struct{}
					if kind != "nil" {
						done = make(chan struct{})
						if kind == "closed" {
							close(done)
						}
					}
					hist = append(hist, fmt.Sprintf("release(nil=%v,%s)", fNil, kind))
					if fNil {
						releaseReloadPendingAfterRetirement(nil, done)
						mod.end() // documented shape: only the muting scope is ended
					} else {
						releaseReloadPendingAfterRetirement(&m.reloadPending, done)
						if kind == "open" {
							open = append(open, done)
							classes["release_waits"] = true
							nt = true
						} else {
							synctest.Wait()
							mod.clear(false)
						}
					}
				case "closeRetire":
					if len(open) == 0 {
						continue
					}
					i := rapid.IntRange(0, len(open)-1).Draw(rt, "which")
					close(open[i])
					open = append(open[:i], open[i+1:]...)
					synctest.Wait()
					mod.clear(false)
					hist = append(hist, "closeRetire")
				case "finishFail":
					m.finishReloadFailure()
					mod.reloading, mod.active = false, false
					mod.clear(false)
					hist = append(hist, "finishFail")
				case "finishOK":
					kind := rapid.SampledFrom([]string{"nil", "open", "closed"}).Draw(rt, "retirement")
					var done chan struct{}
					if kind != "nil" {
						done = make(chan struct{})
						if kind == "closed" {
							close(done)
						}
					}
					m.mu.Lock()
					if done != nil {
						m.pendingRetirementDone = done
					} else {
						m.pendingRetirementDone = nil
					}
					m.mu.Unlock()
					m.finishReloadSuccess()
					hist = append(hist, "finishOK("+kind+")")
					mod.reloading, mod.active = false, false
					if m.takePendingRetirementDone() != nil {
						fail("finishReloadSuccess left the retirement channel in the manager")
					}
					if kind == "open" {
						open = append(open, done)
						classes["finish_waits"] = true
						nt = true
					} else {
						synctest.Wait()
						mod.clear(false)
					}
				case "handoff":
					m.beginHandoff()
					mod.reloading = true
					if len(rsc) != 1 {
						fail("beginHandoff did not wake the main loop")
					}
					if rapid.Bool().Draw(rt, "consume") {
						<-rsc
					}
					hist = append(hist, "handoff")
				case "active":
					v := rapid.Bool().Draw(rt, "v")
					m.reloadActive.Store(v)
					mod.active = v
				case "begin":
					outbounddialer.BeginReloadProxyFailureSuppression()
					mod.depth++
					hist = append(hist, "begin")
				case "end":
					if mod.depth == 0 {
						classes["end_at_zero"] = true
					}
					outbounddialer.EndReloadProxyFailureSuppression()
					mod.end()
					hist = append(hist, "end")
				case "sleep":
					d := rapid.SampledFrom([]time.Duration{time.Second, c20Quiesce - time.Second, c20Quiesce, c20Quiesce + time.Second}).Draw(rt, "d")
					time.Sleep(d)
					hist = append(hist, "sleep("+d.String()+")")
				case "busy": // a busy report left by an earlier refusal
					cell.put(consts.ReloadBusy, reloadBusyRetiringMessage)
					mod.code = consts.ReloadBusy
				}
				check(fmt.Sprintf("after step %d (%s)", step, act))
			}
			// leave the process-global counter at zero
			for mod.depth > 0 {
				outbounddialer.EndReloadProxyFailureSuppression()
				mod.depth--
			}
		})
		if failure != "" {
			rt.Fatalf("C20 primitives: %s\nhistory: %s", failure, strings.Join(hist, " "))
		}
		var cl []string
		for k := range classes {
			cl = append(cl, k)
		}
		key := ""
		if nt {
			key = strings.Join(hist, " ")
		}
		h := append([]string(nil), hist...)
		vkCase(c20UnitPrims, key, func() any { return strings.Join(h, " ") }, cl...)
	})
}

// ---- findings --------------------------------------------------------------
//
// The two finding tests run on plain goroutines (no bubble): a repair that holds a
// lock across the progress-file access makes the second goroutine wait on that
// lock, which a synctest bubble cannot treat as quiescent. Real time is used only
// as a give-up bound ("the other side is evidently waiting for the parked one"),
// never as a verdict.

type c20FindingResult struct {
	harness  string // the scenario could not be staged (not a verdict)
	waited   bool   // the second party had to wait for the parked one (accesses are serialised)
	pending  bool
	code     byte
	msg      string
	accepted bool
}

func c20Within(d time.Duration, ch <-chan struct{}) bool {
	select {
	case <-ch:
		return true
	case <-time.After(d):
		return false
	}
}

func (c *c20Cell) waitParked(d time.Duration) []*c20Park {
	deadline := time.Now().Add(d)
	for {
		if ps := c.sched.sorted(); len(ps) > 0 || time.Now().After(deadline) {
			return ps
		}
		time.Sleep(200 * time.Microsecond)
	}
}

// F-C20-1: the busy report of a refused request can be written after the request
// it collided with has been released; nothing clears it then.
func c20RunFinding1() (res c20FindingResult) {
	cell := &c20Cell{code: consts.ReloadDone, parkRestoreWrite: true}
	c20SetSeams(cell)
	defer c20SetSeams(nil)
	defer cell.sched.setFree()
	m := newReloadManager(make(chan reloadRequest, 1), make(chan struct{}, 1), nil)
	if !m.queueReloadRequest(c20Log, reloadRequest{}) { // reload #1 accepted
		res.harness = "first request refused"
		return
	}
	<-m.reloadReqs // the worker is on it
	m.reloadActive.Store(true)
	cell.put(consts.ReloadProcessing, "")

	refused := make(chan struct{})
	go func() { // request #2 on the main loop: the CAS on pending fails ...
		res.accepted = m.queueReloadRequest(c20Log, reloadRequest{})
		close(refused)
	}()
	parked := cell.waitParked(5 * time.Second) // ... and it is about to write its busy report

	released := make(chan struct{})
	go func() { // reload #1 fails (say, config load): the worker reports and releases it
		cell.put(consts.ReloadError, "injected")
		m.reloadActive.Store(false)
		clearReloadPending(&m.reloadPending) // pending cleared, muting ended, no busy report to clear
		close(released)
	}()
	// (a repaired release may have to wait for the refusal to finish)
	res.waited = len(parked) > 0 && !c20Within(2*time.Second, released)
	for _, p := range parked {
		cell.sched.release(p, 0) // only now the busy report lands
	}
	cell.sched.setFree()
	if !c20Within(10*time.Second, refused) || !c20Within(10*time.Second, released) {
		res.harness = "refusal or release did not finish"
		return
	}
	res.pending = m.reloadPending.Load()
	res.code, res.msg, _, _, _ = cell.get()
	return
}

func TestC20_Finding_F_C20_1(t *testing.T) {
	const id = "F-C20-1"
	c20InstallSeams(t)
	res := c20RunFinding1()
	if res.harness != "" {
		t.Fatalf("C20 finding 1: scenario did not run to its end: %s", res.harness)
	}
	// `dae reload` signals only while the report is done or error (cmd/reload.go)
	defect := !res.pending && res.code != consts.ReloadDone && res.code != consts.ReloadError
	desc := fmt.Sprintf("request #2 accepted=%v; afterwards pending=%v, progress report %s %q", res.accepted, res.pending, c20CodeName(res.code), res.msg)
	if vkKnown(id) {
		if defect {
			vkKnownReproduced(id)
			t.Logf("KNOWN %s reproduced: %s", id, desc)
		} else {
			t.Logf("%s is listed as known but no longer reproduces: %s", id, desc)
		}
		vkCase("C20.finding_1", id, func() any { return desc })
		return
	}
	if defect {
		t.Fatalf("nothing is in progress, yet the progress report is stuck at busy, so `dae reload` will refuse to signal from now on: %s", desc)
	}
	vkCase("C20.finding_1", id, func() any { return desc })
}

// F-C20-2: the busy-report cleanup of a released request runs after the pending
// flag is free again and can overwrite the report of the next request.
func c20RunFinding2() (res c20FindingResult) {
	cell := &c20Cell{code: consts.ReloadDone, parkClearWrite: true}
	c20SetSeams(cell)
	defer c20SetSeams(nil)
	defer cell.sched.setFree()
	m := newReloadManager(make(chan reloadRequest, 1), make(chan struct{}, 1), nil)
	if !m.queueReloadRequest(c20Log, reloadRequest{}) { // reload #1
		res.harness = "first request refused"
		return
	}
	<-m.reloadReqs
	m.reloadActive.Store(true)
	cell.put(consts.ReloadProcessing, "")
	if m.queueReloadRequest(c20Log, reloadRequest{}) { // request #2 refused meanwhile: busy report
		res.harness = "second request accepted"
		return
	}
	released := make(chan struct{})
	go func() { // reload #1 fails; the worker releases it: pending cleared, muting
		m.reloadActive.Store(false) // ended, busy report read ... about to write done
		clearReloadPending(&m.reloadPending)
		close(released)
	}()
	parked := cell.waitParked(5 * time.Second)

	started := make(chan struct{})
	go func() { // reload #3 arrives, is accepted, the worker starts on it
		res.accepted = m.queueReloadRequest(c20Log, reloadRequest{})
		if res.accepted {
			<-m.reloadReqs
			m.reloadActive.Store(true)
			_ = setRunSignalProgress(consts.ReloadProcessing, "")
		}
		close(started)
	}()
	c20Within(2*time.Second, started) // (a repaired admission may have to wait for the release to finish)
	for _, p := range parked {
		cell.sched.release(p, 0) // the stale cleanup lands
	}
	cell.sched.setFree()
	if !c20Within(10*time.Second, released) || !c20Within(10*time.Second, started) {
		res.harness = "release or admission did not finish"
		return
	}
	res.pending = m.reloadPending.Load()
	res.code, res.msg, _, _, _ = cell.get()
	cell.parkClearWrite = false
	m.finishReloadFailure() // settle (ends the muting of #3)
	return
}

func TestC20_Finding_F_C20_2(t *testing.T) {
	const id = "F-C20-2"
	c20InstallSeams(t)
	res := c20RunFinding2()
	if res.harness != "" {
		t.Fatalf("C20 finding 2: scenario did not run to its end: %s", res.harness)
	}
	defect := res.accepted && res.pending && res.code != consts.ReloadProcessing
	desc := fmt.Sprintf("reload #3 accepted=%v and in progress (pending=%v); progress report %s %q", res.accepted, res.pending, c20CodeName(res.code), res.msg)
	if vkKnown(id) {
		if defect {
			vkKnownReproduced(id)
			t.Logf("KNOWN %s reproduced: %s", id, desc)
		} else {
			t.Logf("%s is listed as known but no longer reproduces: %s", id, desc)
		}
		vkCase("C20.finding_2", id, func() any { return desc })
		return
	}
	if defect {
		t.Fatalf("the cleanup of an earlier refusal overwrote the report of the reload in progress (its `dae reload` is told done, a later failure is never reported): %s", desc)
	}
	vkCase("C20.finding_2", id, func() any { return desc })
}

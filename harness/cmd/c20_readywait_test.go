package cmd

// C20 unit "readywait": waitReloadReadyOrSignal called directly inside a bubble
// with a rapid-chosen schedule of signals arriving during the wait (ignored ones -
// SIGUSR1/SIGUSR2/SIGHUP/others, several of them spaced less than the timeout
// apart, at the timeout instant +-1 ns, none - and terminating ones), readiness
// (true/false) at a rapid-chosen instant or never. Oracle: the wait returns at the
// exact virtual instant of the first of {readiness, terminating signal, timeout
// counted from the START of the wait}, with the matching result; ignored signals
// never move that instant.

import (
	"fmt"
	"os"
	"sort"
	"strings"
	"sync"
	"syscall"
	"testing"
	"testing/synctest"
	"time"

	"pgregory.net/rapid"
)

const c20UnitReadyWait = "C20.readywait"

type c20SigAt struct {
	at  time.Duration
	sig os.Signal
}

func TestC20_ReadyWait(t *testing.T) {
	ignored := []os.Signal{syscall.SIGUSR1, syscall.SIGUSR1, syscall.SIGUSR2, syscall.SIGUSR2, syscall.SIGHUP, syscall.SIGWINCH}
	terminating := []os.Signal{syscall.SIGTERM, syscall.SIGINT, syscall.SIGQUIT}
	rapid.Check(t, func(rt *rapid.T) {
		timeout := rapid.SampledFrom([]time.Duration{reloadReadyTimeout, reloadReadyTimeout, reloadReadyTimeout, time.Second, 0}).Draw(rt, "timeout")
		tmo := timeout
		if tmo == 0 {
			tmo = reloadReadyTimeout // only to scale the schedule; 0 means "no timeout"
		}
		gaps := []time.Duration{time.Nanosecond, tmo / 45, tmo / 4, tmo * 2 / 3, tmo - tmo/45, tmo - time.Nanosecond, tmo, tmo + time.Nanosecond}
		n := rapid.SampledFrom([]int{0, 1, 2, 3, 4, 6, 8}).Draw(rt, "signals")
		var sched []c20SigAt
		var at time.Duration
		for i := 0; i < n; i++ {
			at += rapid.SampledFrom(gaps).Draw(rt, "gap")
			sig := rapid.SampledFrom(ignored).Draw(rt, "sig")
			if rapid.IntRange(0, 9).Draw(rt, "term") == 0 {
				sig = rapid.SampledFrom(terminating).Draw(rt, "termsig")
			}
			sched = append(sched, c20SigAt{at, sig})
		}
		readyAt := rapid.SampledFrom([]time.Duration{c20Never, c20Never, c20Never, 0, tmo / 9, tmo - tmo/45, tmo - time.Nanosecond, tmo, tmo + time.Nanosecond, 2*tmo + tmo/5, 5 * tmo}).Draw(rt, "readyAt")
		readyVal := rapid.IntRange(0, 3).Draw(rt, "readyVal") > 0

		// model: first of readiness / terminating signal / timeout from the start
		type ev struct {
			at   time.Duration
			what string
		}
		var evs []ev
		if readyAt != c20Never {
			w := "ready"
			if !readyVal {
				w = "failed"
			}
			evs = append(evs, ev{readyAt, w})
		}
		ignoredBefore := 0
		for _, s := range sched {
			term := false
			for _, ts := range terminating {
				if s.sig == ts {
					term = true
				}
			}
			if term {
				evs = append(evs, ev{s.at, "signal:" + s.sig.String()})
				break
			}
		}
		if timeout > 0 {
			evs = append(evs, ev{timeout, "timeout"})
		}
		sort.SliceStable(evs, func(i, j int) bool { return evs[i].at < evs[j].at })
		wantAt := c20Never
		possible := map[string]bool{}
		if len(evs) > 0 {
			wantAt = evs[0].at
			for _, e := range evs {
				if e.at == wantAt {
					possible[e.what] = true
				}
			}
			for _, s := range sched {
				if s.at < wantAt {
					ignoredBefore++
				}
			}
		}

		var failure string
		c20InBubble(t, func() {
			base := time.Now()
			sigs := make(chan os.Signal, 1) // what signal.Notify is given in Run
			readyChan := make(chan bool, 1)
			stop := make(chan struct{})
			var helpers sync.WaitGroup
			after := func(d time.Duration, f func()) {
				helpers.Add(1)
				go func() {
					defer helpers.Done()
					tm := time.NewTimer(d)
					defer tm.Stop()
					select {
					case <-tm.C:
						f()
					case <-stop:
					}
				}()
			}
			for _, s := range sched {
				s := s
				after(s.at, func() {
					select { // signal.Notify never blocks
					case sigs <- s.sig:
					default:
					}
				})
			}
			if readyAt != c20Never {
				after(readyAt, func() { readyChan <- readyVal })
			}
			done := make(chan struct{})
			var got string
			var gotAt time.Duration
			go func() {
				res, termSig := waitReloadReadyOrSignal(c20Log, sigs, readyChan, timeout)
				gotAt = time.Since(base)
				switch res {
				case reloadReadyWaitReady:
					got = "ready"
				case reloadReadyWaitFailed:
					got = "failed"
				case reloadReadyWaitTimeout:
					got = "timeout"
				case reloadReadyWaitSignal:
					got = "signal:"
					if termSig != nil {
						got += termSig.String()
					}
				}
				close(done)
			}()
			defer func() {
				close(stop)
				helpers.Wait()
				select {
				case <-done:
				default: // unblock a wait that is (rightly or wrongly) still going on
					select {
					case readyChan <- false:
					default:
					}
					<-done
				}
			}()

			horizon := wantAt
			if horizon == c20Never {
				horizon = 6 * tmo
			}
			time.Sleep(horizon + time.Nanosecond)
			synctest.Wait()
			select {
			case <-done:
			default:
				if wantAt == c20Never {
					return // no timeout, nothing ever happens: still waiting is right
				}
				failure = fmt.Sprintf("still waiting at %v; it has to return at %v by %v (%d ignored signals arrived before)", horizon+time.Nanosecond, wantAt, c20Keys(possible), ignoredBefore)
				return
			}
			if wantAt == c20Never {
				failure = fmt.Sprintf("returned %q at %v although nothing happened and there is no timeout", got, gotAt)
				return
			}
			if gotAt != wantAt || !possible[got] {
				failure = fmt.Sprintf("returned %q at %v, want %v at %v (%d ignored signals arrived before)", got, gotAt, c20Keys(possible), wantAt, ignoredBefore)
			}
		})
		desc := fmt.Sprintf("timeout=%v readyAt=%s(%v) signals=%s", timeout, c20DurName(readyAt), readyVal, c20SchedString(sched))
		if failure != "" {
			rt.Fatalf("C20 readywait: %s\n%s", failure, desc)
		}
		var classes []string
		for k := range possible {
			classes = append(classes, "ends_by_"+strings.SplitN(k, ":", 2)[0])
		}
		if wantAt == c20Never {
			classes = append(classes, "never_ends")
		}
		key := ""
		if ignoredBefore > 0 {
			key = desc
			classes = append(classes, "ignored_signals_during_wait")
			if possible["timeout"] {
				classes = append(classes, "timeout_with_ignored_signals_before")
			}
			if ignoredBefore > 1 {
				classes = append(classes, "several_ignored_signals")
			}
		}
		vkCase(c20UnitReadyWait, key, func() any { return desc }, classes...)
	})
}

func c20Keys(m map[string]bool) []string {
	var out []string
	for k := range m {
		out = append(out, k)
	}
	sort.Strings(out)
	return out
}

func c20SchedString(s []c20SigAt) string {
	var out []string
	for _, e := range s {
		out = append(out, fmt.Sprintf("%v@%v", e.sig, e.at))
	}
	return "[" + strings.Join(out, " ") + "]"
}

//go:build !dae_stub_ebpf

package control

// C10, real-map mode (units tracker_real / stack_real, build mode "real", env
// VERIF_C10_REALMAP=1): domain_routing_map is a real BPF hash map, so the part of
// syncOwner behind `if m != nil` and the production BpfMapBatchUpdate /
// BpfMapBatchDelete (bpf_utils.go, kernel batch API or the per-element fallback,
// drawn per case) run for real, and the oracle is applied to what the kernel map
// actually holds after every step - the table the datapath would consult. The
// batch observer stays installed; both views must mirror the live owners.
// Without bpf(2) the units note it and behave like their nil-map counterparts.

import (
	"os"

	"github.com/cilium/ebpf"
)

var c10RealUnavailable error

func c10RealWanted() bool { return os.Getenv("VERIF_C10_REALMAP") == "1" }

// c10TryRealMap returns a fresh, empty real map, or nil.
func c10TryRealMap(unit string) *ebpf.Map {
	if !c10RealWanted() || c10RealUnavailable != nil {
		return nil
	}
	m, err := ebpf.NewMap(&ebpf.MapSpec{Name: "c10_domain_rt", Type: ebpf.Hash, KeySize: 16, ValueSize: 128, MaxEntries: 256})
	if err != nil {
		c10RealUnavailable = err
		vkNote(unit, "real BPF hash map unavailable (%v): running with a nil map", err)
		return nil
	}
	return m
}

// c10ForceBatchMode pins the feature flags the production helpers probe once:
// simulate=true takes the per-element fallback, false the kernel batch API.
func c10ForceBatchMode(simulate bool) {
	CheckBatchUpdateFeatureOnce.Do(func() {})
	initBatchDeleteFeatureFlags()
	SimulateBatchUpdate = simulate
	SimulateBatchDelete = simulate
}

func c10DumpReal(m *ebpf.Map) (map[c10Key]bpfDomainRouting, error) {
	out := map[c10Key]bpfDomainRouting{}
	var k c10Key
	var v bpfDomainRouting
	it := m.Iterate()
	for it.Next(&k, &v) {
		out[k] = v
	}
	return out, it.Err()
}

package control

// C05 units:
//   TestC05_Bytes      — loopback TCP (splice / writev / gather paths), byte-level facts only
//   TestC05_Deadlines  — in-memory connections inside a synctest bubble: arrival times
//                        relative to the detection windows, idle gaps, half-close grace,
//                        virtual time asserted exactly
//   TestC05_Finding_*  — deterministic reproductions of the defects found (c05_finding_test.go)

import (
	"bytes"
	"context"
	"fmt"
	"io"
	"net"
	"sort"
	"sync"
	"sync/atomic"
	"testing"
	"testing/synctest"
	"time"

	"pgregory.net/rapid"
)

var c05Lis struct {
	once   sync.Once
	l4, l6 *net.TCPListener
	err    error
}

func c05Listen() {
	c05Lis.once.Do(func() {
		c05Lis.l4, c05Lis.err = net.ListenTCP("tcp4", &net.TCPAddr{IP: net.IPv4(127, 0, 0, 1)})
		if c05Lis.err != nil {
			return
		}
		c05Lis.l6, _ = net.ListenTCP("tcp6", &net.TCPAddr{IP: net.IPv6loopback}) // optional
	})
}

// c05TCPPair returns an established loopback connection: the dialing end and the
// accepted end.
func c05TCPPair(v6 bool) (dialed, accepted *net.TCPConn, err error) {
	c05Listen()
	if c05Lis.err != nil {
		return nil, nil, c05Lis.err
	}
	l, network := c05Lis.l4, "tcp4"
	if v6 && c05Lis.l6 != nil {
		l, network = c05Lis.l6, "tcp6"
	}
	c, err := net.DialTCP(network, nil, l.Addr().(*net.TCPAddr))
	if err != nil {
		return nil, nil, err
	}
	for {
		a, err := l.AcceptTCP()
		if err != nil {
			_ = c.Close()
			return nil, nil, err
		}
		if a.RemoteAddr().String() == c.LocalAddr().String() {
			return c, a, nil
		}
		_ = a.Close() // not ours (nothing else dials this listener, but be safe)
	}
}

func c05SmallBuffers(n int, conns ...*net.TCPConn) {
	if n <= 0 {
		return
	}
	for _, c := range conns {
		_ = c.SetReadBuffer(n)
		_ = c.SetWriteBuffer(n)
	}
}

func c05TCPConnsBuf(v6 bool, sockBuf int) (*c05Conns, error) {
	cn, err := c05TCPConns(v6)
	if err == nil {
		c05SmallBuffers(sockBuf, cn.client.(*net.TCPConn), cn.left.(*net.TCPConn), cn.right.(*net.TCPConn), cn.upstream.(*net.TCPConn))
	}
	return cn, err
}

func c05TCPConns(v6 bool) (*c05Conns, error) {
	client, left, err := c05TCPPair(v6)
	if err != nil {
		return nil, err
	}
	right, upstream, err := c05TCPPair(v6)
	if err != nil {
		_ = client.Close()
		_ = left.Close()
		return nil, err
	}
	return &c05Conns{client: client, left: left, right: right, upstream: upstream}, nil
}

func c05MemConns(s *c05Scn) *c05Conns {
	src := &net.TCPAddr{IP: net.IPv4(10, 5, 0, 7), Port: 40123}
	dst := &net.TCPAddr{IP: net.IPv4(93, 184, 216, 34), Port: 443}
	if s.V6 {
		src.IP = net.ParseIP("fd05::7")
		dst.IP = net.ParseIP("2606:2800:220:1::5")
	}
	switch s.Stack {
	case c05StackPort53:
		dst.Port = 53
	case c05StackPlain:
		dst.Port = 8080
	}
	left, client := c05MemPair(s.MemLimit, src, dst)
	right, upstream := c05MemPair(s.MemLimit, &net.TCPAddr{IP: net.IPv4(192, 0, 2, 1), Port: 50001}, dst)
	left.eofWithData, right.eofWithData = s.EOFWithData[0], s.EOFWithData[1]
	return &c05Conns{client: client, left: left, right: right, upstream: upstream}
}

func c05Opt(mem bool) c05GenOpt {
	return c05GenOpt{Mem: mem, KnownF6: vkKnown("F6"), KnownDL: vkKnown("F-C05-1"), KnownCW: vkKnown("F-C05-2"), KnownDR: vkKnown("F-C05-3"), Big: true}
}

func c05NTKey(s *c05Scn) string {
	return fmt.Sprintf("%v%v%v|%v|%v|%s|%s|%s|%s|%d|%d|%v|%v", s.EOFWithData, s.FinAtomic, s.NoCW, s.Mem, s.HandleConn, s.Stack, s.Open, s.Close, s.FirstKind, len(s.C2U), len(s.U2C), s.CSteps, s.SSteps)
}

// c05RunTCP executes a scenario over loopback sockets.
func c05RunTCP(s *c05Scn, o c05GenOpt) (c05Verdict, error) {
	cn, err := c05TCPConnsBuf(s.V6, s.SockBuf)
	if err != nil {
		return c05Verdict{}, err
	}
	res := c05Execute(s, cn, 150*time.Second)
	return c05Judge(res, o, false), nil
}

// c05RunBubble executes a scenario over in-memory connections on a virtual clock.
func c05RunBubble(t *testing.T, s *c05Scn, o c05GenOpt) (v c05Verdict) {
	synctest.Test(t, func(*testing.T) {
		res := c05Execute(s, c05MemConns(s), 2000*time.Hour)
		v = c05Judge(res, o, true)
	})
	return v
}

// A connection that is made to fail in the middle of a bulk transfer over the
// splice path (plain TCP on both sides): the receiving end reads `after` bytes and
// then aborts (RST, or close with unread data) while the sender keeps writing. What
// happens to this connection is not judged; it only leaves the relay's shared
// resources (pooled splice pipes, copy buffers) behind for the connections that follow.
type c05Poison struct {
	Kind  string // "upstream-rst" | "upstream-close" | "client-rst" | "both-rst"
	Bulk  int    // bytes each sender tries to write
	After int    // bytes an aborting end reads first
	Seed  uint64
	V6    bool
}

func c05GenPoison(t *rapid.T, label string) c05Poison {
	return c05Poison{
		Kind:  rapid.SampledFrom([]string{"upstream-rst", "upstream-rst", "upstream-close", "client-rst", "both-rst"}).Draw(t, label+"_kind"),
		Bulk:  rapid.SampledFrom([]int{300 << 10, 1 << 20, 3 << 20}).Draw(t, label+"_bulk"),
		After: rapid.SampledFrom([]int{0, 1, 4096, 70000, 200000}).Draw(t, label+"_after"),
		Seed:  rapid.Uint64().Draw(t, label+"_seed"),
		V6:    rapid.Bool().Draw(t, label+"_v6"),
	}
}

func c05RunPoison(p c05Poison) error {
	cn, err := c05TCPConns(p.V6)
	if err != nil {
		return err
	}
	relayDone := make(chan struct{})
	go func() {
		defer close(relayDone)
		_ = RelayTCPContextWithRecords(context.Background(), cn.left, cn.right, func(int64) {}, func(int64) {})
		_ = cn.left.Close()
		_ = cn.right.Close()
	}()
	var wg sync.WaitGroup
	send := func(c net.Conn, seed uint64) {
		defer wg.Done()
		buf := c05Fill(seed, 64<<10)
		for sent := 0; sent < p.Bulk; sent += len(buf) {
			if _, err := c.Write(buf); err != nil {
				return
			}
		}
	}
	abort := func(c net.Conn, rst bool) {
		defer wg.Done()
		if p.After > 0 {
			_, _ = io.ReadFull(c, make([]byte, p.After))
		}
		if rst {
			_ = c.(*net.TCPConn).SetLinger(0)
		}
		_ = c.Close()
	}
	switch p.Kind {
	case "upstream-rst", "upstream-close":
		wg.Add(2)
		go send(cn.client, p.Seed)
		go abort(cn.upstream, p.Kind == "upstream-rst")
	case "client-rst":
		wg.Add(2)
		go send(cn.upstream, p.Seed)
		go abort(cn.client, true)
	default:
		wg.Add(4)
		go send(cn.client, p.Seed)
		go send(cn.upstream, p.Seed^0x55)
		go abort(cn.upstream, true)
		go abort(cn.client, true)
	}
	done := make(chan struct{})
	go func() { wg.Wait(); <-relayDone; close(done) }()
	tm := time.NewTimer(150 * time.Second)
	defer tm.Stop()
	select {
	case <-done:
	case <-tm.C:
		for _, c := range []net.Conn{cn.client, cn.upstream, cn.left, cn.right} {
			_ = c.Close()
		}
		<-done
		return fmt.Errorf("aborted bulk connection %+v did not wind down", p)
	}
	_ = cn.client.Close()
	_ = cn.upstream.Close()
	return nil
}

func TestC05_Bytes(t *testing.T) {
	const unit = "C05.bytes"
	o := c05Opt(false)
	vkNote(unit, "handleConn itself is driven on a minimal ControlPlane literal (no eBPF objects -> userspace routing fallback, one group, fake dialer) in 1 of 3 cases; the other cases use the wrapper stack composed from the same production functions in handleConn's order")
	var gatherBody, gatherAll atomic.Int64
	relayGatherWriteTestHookMu.Lock()
	relayGatherWriteTestHook = func(prefixLen, bodyLen int) {
		gatherAll.Add(1)
		if bodyLen > 0 {
			gatherBody.Add(1)
		}
	}
	relayGatherWriteTestHookMu.Unlock()
	defer func() {
		relayGatherWriteTestHookMu.Lock()
		relayGatherWriteTestHook = nil
		relayGatherWriteTestHookMu.Unlock()
	}()
	rapid.Check(t, func(rt *rapid.T) {
		oo := o
		oo.HandleConn = rapid.IntRange(0, 2).Draw(rt, "handleConn") == 0
		// 1 case in 4 is a sequence of connections sharing the relay's pooled resources:
		// one or two that fail mid-transfer on the splice path, then healthy ones that
		// are judged (the last of them is the case's scenario s).
		var poisons []c05Poison
		var before *c05Scn
		if rapid.IntRange(0, 3).Draw(rt, "sequence") == 0 {
			oo.ForcePlain = true
			for i, n := 0, rapid.IntRange(1, 2).Draw(rt, "nFailing"); i < n; i++ {
				poisons = append(poisons, c05GenPoison(rt, "failing"))
			}
			if len(poisons) == 1 && rapid.Bool().Draw(rt, "twoHealthy") {
				before = c05GenScn(rt, oo, func(string) {})
			}
		}
		s := c05GenScn(rt, oo, func(id string) { vkExcluded(unit, id) })
		for _, p := range poisons {
			if err := c05RunPoison(p); err != nil {
				// only the real-time watchdog can get here: not a verdict
				vkCase(unit, "", nil, "inconclusive_watchdog_failing_connection")
				return
			}
		}
		g0, b0 := gatherAll.Load(), gatherBody.Load()
		if before != nil {
			v0, err := c05RunTCP(before, oo)
			if err != nil {
				rt.Fatalf("harness: loopback sockets unavailable: %v", err)
			}
			if v0.fail != "" {
				rt.Fatalf("after failed connection(s) %+v, first healthy connection: %s", poisons, v0.fail)
			}
			if v0.inconclusive != "" {
				vkClass(unit, "inconclusive_"+v0.inconclusive)
			}
		}
		v, err := c05RunTCP(s, oo)
		if err != nil {
			rt.Fatalf("harness: loopback sockets unavailable: %v", err)
		}
		if v.fail != "" {
			if len(poisons) > 0 {
				rt.Fatalf("after failed connection(s) %+v: %s", poisons, v.fail)
			}
			rt.Fatalf("%s", v.fail)
		}
		if v.inconclusive != "" {
			sort.Strings(v.classes)
			vkCase(unit, "", nil, v.classes...)
			return
		}
		if len(poisons) > 0 {
			v.nt = true
			v.classes = append(v.classes, "sequence_after_failed_connection")
			for _, p := range poisons {
				v.classes = append(v.classes, "failing_"+p.Kind)
			}
		}
		if gatherAll.Load() > g0 {
			v.classes = append(v.classes, "path_gather_write")
		}
		if gatherBody.Load() > b0 {
			v.classes = append(v.classes, "path_gather_prefix_plus_body")
		}
		if s.HandleConn {
			v.classes = append(v.classes, "entry_handleConn")
		} else {
			v.classes = append(v.classes, "entry_composed")
		}
		if s.SockBuf > 0 {
			v.classes = append(v.classes, "small_socket_buffers")
		}
		sort.Strings(v.classes)
		key := ""
		if v.nt {
			key = fmt.Sprintf("%+v|%d|", poisons, s.SockBuf) + c05NTKey(s)
		}
		vkCase(unit, key, func() any {
			m := s.Summary()
			if len(poisons) > 0 {
				m["failedConnectionsBefore"] = fmt.Sprintf("%+v", poisons)
			}
			return m
		}, v.classes...)
	})
}

func TestC05_Deadlines(t *testing.T) {
	const unit = "C05.deadlines"
	o := c05Opt(true)
	vkNote(unit, "handleConn itself (incl. destination port 53 through in-memory addresses) is the entry point in 1 of 3 cases; virtual clock via testing/synctest")
	o.Big = vkThorough()
	rapid.Check(t, func(rt *rapid.T) {
		oo := o
		oo.HandleConn = rapid.IntRange(0, 2).Draw(rt, "handleConn") == 0
		s := c05GenScn(rt, oo, func(id string) { vkExcluded(unit, id) })
		v := c05RunBubble(t, s, oo)
		if v.fail != "" {
			rt.Fatalf("%s", v.fail)
		}
		if s.HandleConn {
			v.classes = append(v.classes, "entry_handleConn")
		} else {
			v.classes = append(v.classes, "entry_composed")
		}
		for _, st := range append(append([]c05Step{}, s.CSteps...), s.SSteps...) {
			if st.Op == c05OpSleep && st.D > relayHalfCloseTimeout {
				v.classes = append(v.classes, "idle_gap_gt_10s")
				break
			}
		}
		sort.Strings(v.classes)
		key := ""
		if v.nt {
			key = c05NTKey(s)
		}
		vkCase(unit, key, func() any { return s.Summary() }, v.classes...)
	})
}

// TestC05_WrapperRead: whatever the relay's left side is, draining it through Read
// with arbitrary buffer sizes (the contract the buffered copy loop relies on) yields
// exactly the client's stream: every prefix buffer is replayed once, in order.
func TestC05_WrapperRead(t *testing.T) {
	const unit = "C05.wrapread"
	o := c05Opt(true)
	o.Big = false
	rapid.Check(t, func(rt *rapid.T) {
		s := c05GenScn(rt, o, func(id string) { vkExcluded(unit, id) })
		for s.Stack == c05StackPlain || s.Open != c05OpenPrompt {
			// only stacks with a prefix buffer are of interest here
			s = c05GenScn(rt, o, func(string) {})
		}
		sizes := rapid.SliceOfN(rapid.SampledFrom([]int{1, 1, 2, 3, 5, 7, 15, 16, 17, 64, 511, 4096, 40000}), 1, 12).Draw(rt, "readSizes")
		var fail string
		var got []byte
		var d *c05Dae
		eofHits := int32(0)
		synctest.Test(t, func(*testing.T) {
			cn := c05MemConns(s)
			defer func() { eofHits = cn.left.(*c05MemConn).eofDataHits.Load() }()
			d = &c05Dae{relayStarted: make(chan struct{})}
			done := make(chan struct{})
			go func() { // the client: its steps without the waits, then FIN
				defer close(done)
				off := 0
				for _, st := range s.CSteps {
					switch st.Op {
					case c05OpWrite:
						if off+st.N == len(s.C2U) && s.FinAtomic[0] {
							_, _ = cn.client.(*c05MemConn).WriteFin(s.C2U[off:])
							return
						}
						if _, err := cn.client.Write(s.C2U[off : off+st.N]); err != nil {
							return
						}
						off += st.N
					case c05OpSleep:
						time.Sleep(st.D)
					}
				}
				_ = cn.client.(*c05MemConn).CloseWrite()
			}()
			left, cleanup, ok := d.buildLeft(s, cn.left)
			if ok {
				for i := 0; ; i++ {
					buf := make([]byte, sizes[i%len(sizes)])
					n, err := left.Read(buf)
					got = append(got, buf[:n]...)
					if err != nil {
						if err != io.EOF {
							fail = fmt.Sprintf("Read #%d failed: %v", i, err)
						}
						break
					}
					if len(got) > len(s.C2U)+1024 {
						fail = "more bytes than were sent"
						break
					}
				}
			}
			cleanup()
			_ = cn.client.Close()
			_ = cn.right.Close()
			_ = cn.upstream.Close()
			<-done
		})
		if d.dnsHandled {
			vkCase(unit, "", nil, "dns_query_consumed")
			return
		}
		if fail == "" && !bytes.Equal(got, s.C2U) {
			fail = "stream read through the wrapper differs: " + c05Diverge(got, s.C2U)
		}
		if fail != "" {
			rt.Fatalf("%s\nread sizes %v left=%s dnsErr=%v sniffErr=%v\nscenario: %v", fail, sizes, d.stackKind, d.dnsErr, d.sniffErr, s.Summary())
		}
		key := ""
		if d.stackKind != "conn" {
			key = fmt.Sprintf("%s|%s|%v|%v|%d", d.stackKind, s.FirstKind, sizes, s.CSteps, len(s.C2U))
		}
		cl := []string{"left_" + d.stackKind, "first_" + s.FirstKind}
		if eofHits > 0 {
			cl = append(cl, "eof_with_data")
		}
		vkCase(unit, key, func() any { m := s.Summary(); m["readSizes"] = sizes; return m }, cl...)
	})
}

// TestC05_ChunkedSplice: the fallback copy path taken when no splice pipe can be
// obtained (relaySpliceCopyExact -> relayChunkedSpliceCopy: EMFILE, SyscallConn
// failure). There is no seam to make pipe acquisition fail inside a relay, so the real
// function is driven directly on loopback TCP pairs: payloads of 1 B - 2 MiB around
// the 256 KiB accounting chunk, exact-bytes oracle, recorder sum, byte-level facts only.
func TestC05_ChunkedSplice(t *testing.T) {
	const unit = "C05.chunked"
	chunk := int(relaySpliceAccountingChunkSize)
	rapid.Check(t, func(rt *rapid.T) {
		var n int
		switch rapid.IntRange(0, 5).Draw(rt, "sizeClass") {
		case 0:
			n = rapid.IntRange(1, 5000).Draw(rt, "size")
		case 1, 2: // at and around multiples of the accounting chunk
			n = rapid.IntRange(1, 4).Draw(rt, "chunks")*chunk + rapid.SampledFrom([]int{-1, 0, 1, 4096, -4096}).Draw(rt, "delta")
		case 3:
			n = rapid.IntRange(chunk+1, 2<<20).Draw(rt, "size")
		default:
			n = rapid.IntRange(5001, chunk).Draw(rt, "size")
		}
		seed := rapid.Uint64().Draw(rt, "seed")
		payload := c05Fill(seed, n)
		segs := c05Cuts(rt, "seg", n, []int{chunk - 1, chunk, chunk + 1, 2 * chunk})
		rd := rapid.SampledFrom([]int{512, 4096, 65536, 1 << 20}).Draw(rt, "readChunk")
		// (4 KiB buffers make the kernel crawl on payloads of this size: window far below
		// the loopback MSS -> persist-timer pace; 64 KiB still gives partial rounds)
		sockBuf := rapid.SampledFrom([]int{0, 0, 65536}).Draw(rt, "sockBuf")
		cn, err := c05TCPConnsBuf(rapid.Bool().Draw(rt, "v6"), sockBuf)
		if err != nil {
			rt.Fatalf("harness: loopback sockets unavailable: %v", err)
		}
		defer func() {
			for _, c := range []net.Conn{cn.client, cn.left, cn.right, cn.upstream} {
				_ = c.Close()
			}
		}()
		var recorded atomic.Int64
		type res struct {
			n   int64
			err error
		}
		copied := make(chan res, 1)
		go func() {
			w, err := relayChunkedSpliceCopy(context.Background(), cn.right.(*net.TCPConn), cn.left.(*net.TCPConn), func(k int64) { recorded.Add(k) })
			_ = cn.right.(*net.TCPConn).CloseWrite() // what relayCore does when a direction has ended
			copied <- res{w, err}
		}()
		go func() {
			off := 0
			for _, sz := range segs {
				if _, err := cn.client.Write(payload[off : off+sz]); err != nil {
					return
				}
				off += sz
			}
			_ = cn.client.(*net.TCPConn).CloseWrite()
		}()
		var got []byte
		buf := make([]byte, rd)
		var rerr error
		for {
			k, err := cn.upstream.Read(buf)
			got = append(got, buf[:k]...)
			if err != nil {
				if err != io.EOF {
					rerr = err
				}
				break
			}
			if len(got) > n+1024 {
				break
			}
		}
		r := <-copied
		if !bytes.Equal(got, payload) {
			rt.Fatalf("fallback copy (no splice pipe): stream differs: %s (copy returned n=%d err=%v, reader err=%v, segs=%d sockBuf=%d)", c05Diverge(got, payload), r.n, r.err, rerr, len(segs), sockBuf)
		}
		if r.err != nil || r.n != int64(n) || recorded.Load() != int64(n) {
			rt.Fatalf("fallback copy of %d bytes returned n=%d err=%v, recorder counted %d", n, r.n, r.err, recorded.Load())
		}
		cl := []string{"le_one_chunk"}
		if n > chunk {
			cl = []string{"gt_one_chunk"}
		}
		if n%chunk == 0 {
			cl = append(cl, "exact_multiple_of_chunk")
		}
		vkCase(unit, fmt.Sprintf("%d|%x|%v|%d|%d", n, seed, segs, rd, sockBuf), func() any {
			return map[string]any{"bytes": n, "segments": len(segs), "readChunk": rd, "sockBuf": sockBuf}
		}, cl...)
	})
}

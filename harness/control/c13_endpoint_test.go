package control

// C13 (b) — UDP endpoint pool: one stable, leak-free endpoint per key.
//
// Histories over three endpoint keys (full-cone, symmetric, symmetric with routing
// scope) run inside a synctest bubble against the real UdpEndpointPool (with its
// janitor), real *dialer.Dialer values wrapping a fake netproxy dialer whose dials
// park until the scheduler lets them finish (success / cacheable error / "network
// unreachable" with the retry attempt / transient local error / no alive dialer /
// caller cancelled / dial timeout), fake packet conns whose reads are injected
// (reply, soft error, hard error, normal close), real controlPlaneCore tuple owners
// over real udpConnStateTrackers (shared or per generation) and real drain trackers.
//
// Oracle: while a handed-out endpoint of a key is live every GetOrCreate returns
// that pointer; at most one dial is in flight per key and none starts while a live
// endpoint of the key exists; failure markers, retired and invalidated-before-
// traffic endpoints are never returned; every dialled conn is closed at most once
// at any time and exactly once at quiescence; tracker tables equal the per-owner
// multiset of tuples of not-yet-closed endpoints (also across adoption); drain
// tracker counts equal the number of not-yet-closed endpoints of the generation.

import (
	"context"
	"errors"
	"fmt"
	"io"
	"net/netip"
	"runtime"
	"sort"
	"strconv"
	"strings"
	"sync"
	"sync/atomic"
	"syscall"
	"testing"
	"testing/synctest"
	"time"

	"github.com/daeuniverse/dae/common/consts"
	commonerrors "github.com/daeuniverse/dae/common/errors"
	"github.com/daeuniverse/dae/component/outbound"
	"github.com/daeuniverse/dae/component/outbound/dialer"
	D "github.com/daeuniverse/outbound/dialer"
	"github.com/daeuniverse/outbound/netproxy"
	"github.com/sirupsen/logrus"
	"pgregory.net/rapid"
)

const c13UnitEp = "C13.endpoint"

type c13EpRead struct {
	data []byte
	from netip.AddrPort
	err  error
}

type c13EpConn struct {
	id         int
	key        int
	dialer     int
	reads      chan c13EpRead
	closeCh    chan struct{}
	closeCalls atomic.Int32
	writeMode  atomic.Int32 // 0 ok, 1 error, 2 short write
	handlerErr atomic.Bool
	handled    atomic.Int32
	tdone      chan struct{}
}

func (c *c13EpConn) Read(_ []byte) (int, error)  { return 0, io.EOF }
func (c *c13EpConn) Write(b []byte) (int, error) { return len(b), nil }
func (c *c13EpConn) ReadFrom(p []byte) (int, netip.AddrPort, error) {
	select {
	case <-c.closeCh:
		return 0, netip.AddrPort{}, io.EOF
	case r := <-c.reads:
		if r.err != nil {
			return 0, netip.AddrPort{}, r.err
		}
		return copy(p, r.data), r.from, nil
	}
}
func (c *c13EpConn) WriteTo(b []byte, _ string) (int, error) {
	if c.closeCalls.Load() > 0 {
		return 0, errors.New("c13: use of closed conn")
	}
	switch c.writeMode.Load() {
	case 1:
		return 0, errors.New("c13: upstream write failed")
	case 2:
		return len(b) - 1, nil
	}
	return len(b), nil
}
func (c *c13EpConn) Close() error {
	if c.closeCalls.Add(1) == 1 {
		close(c.closeCh)
	}
	return nil
}
func (c *c13EpConn) SetDeadline(time.Time) error      { return nil }
func (c *c13EpConn) SetReadDeadline(time.Time) error  { return nil }
func (c *c13EpConn) SetWriteDeadline(time.Time) error { return nil }

// c13EpLifeConn additionally exposes a transport lifecycle channel.
type c13EpLifeConn struct{ *c13EpConn }

func (c c13EpLifeConn) TransportDone() <-chan struct{} { return c.tdone }

func c13ConnOf(ue *UdpEndpoint) *c13EpConn {
	switch c := ue.conn.(type) {
	case *c13EpConn:
		return c
	case c13EpLifeConn:
		return c.c13EpConn
	}
	return nil
}

type c13EpScript struct {
	opt       string // ok | noalive | opterr
	dialer    int
	dial      string // ok | err | unreach | transient
	lifecycle bool
	deaf      bool // the dial does not observe its context: a cancellation arrives while the handshake completes anyway
}

type c13EpCall struct {
	id        int
	key       int
	gen       int
	nat       time.Duration
	ctx       context.Context
	cancel    context.CancelFunc
	gid       atomic.Uint64
	done      chan struct{}
	ue        *UdpEndpoint
	isNew     bool
	err       error
	attempts  int
	scripts   []c13EpScript
	ownConn   *c13EpConn
	epsBefore int
	processed bool
	cancelled bool
	raced     bool // started while another caller's dial for the key was in flight
	flap      bool // a health invalidation landed between its generation capture and its publication
}

// c13EpCacheable: the failure kinds after which the pool keeps a negative-cache
// entry for the key (udp_endpoint_pool.go: "no alive dialer", transient local
// socket errors and network-unreachable/address-unsuitable are documented there as
// not cached; a hit on the negative cache itself writes nothing).
func c13EpCacheable(err error) bool {
	switch {
	case err == nil,
		errors.Is(err, ErrEndpointFailed),
		errors.Is(err, outbound.ErrNoAliveDialer),
		errors.Is(err, syscall.EADDRINUSE),
		errors.Is(err, commonerrors.ErrNetworkUnreachable):
		return false
	}
	return true
}

func (c *c13EpCall) isDone() bool {
	select {
	case <-c.done:
		return true
	default:
		return false
	}
}

type c13EpDial struct {
	call      *c13EpCall
	script    c13EpScript
	proceed   chan struct{}
	parked    bool
	processed bool
}

type c13Ep struct {
	ue      *UdpEndpoint
	conn    *c13EpConn
	key     int
	serial  int
	owner   int
	drain   int
	tuples  map[bpfTuplesKey]bool
	sent    bool
	replied bool
	lastTo  netip.AddrPort
	dialer  int
	retired string // non-empty: the harness triggered a retire (reason)
	flapped bool   // invalidated by a health change after it was built, before it was published
}

func (e *c13Ep) live() bool   { return !e.ue.dead.Load() && e.conn.closeCalls.Load() == 0 }
func (e *c13Ep) closed() bool { return e.conn.closeCalls.Load() > 0 }

type c13EpGen struct {
	core    *controlPlaneCore
	drain   *controlPlaneDrainTracker
	tracker *udpConnStateTracker // the tracker the generation's tuples are accounted in
	closed  bool                 // core.Close() was called (old generation after a reload)
}

type c13EpDialerInfo struct {
	d     *dialer.Dialer
	proxy bool
	tdone chan struct{}
}

type c13EpWorld struct {
	down     chan struct{} // closed when the case is torn down: deaf dials give up too
	mu       sync.Mutex
	pool     *UdpEndpointPool
	keys     []UdpEndpointKey
	dialers  []*c13EpDialerInfo
	gens     []*c13EpGen
	bpfs     []*bpfObjects
	scripts  [][]c13EpScript
	scriptAt []int
	calls    []*c13EpCall
	dials    []*c13EpDial
	conns    []*c13EpConn
	eps      []*c13Ep
	epByUe   map[*UdpEndpoint]*c13Ep
	cur      []*c13Ep
	trace    []string
	classes  map[string]bool
	netType  dialer.NetworkType
	stackBuf []byte
	shared   bool
	// negative cache model: per key, a lower bound of the instant until which a
	// cached dial failure must keep answering (zero = none); lastObs is the
	// virtual time of the previous oracle evaluation.
	negUntil []time.Time
	lastObs  time.Time
}

type c13EpFakeDialer struct {
	w   *c13EpWorld
	idx int
}

const c13EpTargetBase = 20000

func (w *c13EpWorld) target(call *c13EpCall, attempt int) string {
	return "198.51.100.7:" + strconv.Itoa(c13EpTargetBase+call.id*4+attempt)
}

func (d *c13EpFakeDialer) DialContext(ctx context.Context, _ string, addr string) (netproxy.Conn, error) {
	w := d.w
	ap, err := netip.ParseAddrPort(addr)
	if err != nil {
		return nil, fmt.Errorf("c13 harness: bad target %q", addr)
	}
	n := int(ap.Port()) - c13EpTargetBase
	w.mu.Lock()
	if n < 0 || n/4 >= len(w.calls) {
		w.mu.Unlock()
		return nil, fmt.Errorf("c13 harness: unknown target %q", addr)
	}
	call := w.calls[n/4]
	sc := call.scripts[n%4]
	pd := &c13EpDial{call: call, script: sc, proceed: make(chan struct{}), parked: true}
	w.dials = append(w.dials, pd)
	w.mu.Unlock()
	if sc.deaf && sc.dial == "ok" {
		select {
		case <-pd.proceed:
		case <-w.down:
			w.mu.Lock()
			pd.parked = false
			w.mu.Unlock()
			return nil, errors.New("c13: case torn down")
		}
	} else {
		select {
		case <-pd.proceed:
		case <-ctx.Done():
			w.mu.Lock()
			pd.parked = false
			w.mu.Unlock()
			return nil, ctx.Err()
		}
	}
	switch sc.dial {
	case "err":
		return nil, errors.New("c13: upstream handshake failed")
	case "unreach":
		return nil, fmt.Errorf("c13 dial: %w", commonerrors.ErrNetworkUnreachable)
	case "transient":
		return nil, fmt.Errorf("c13 dial: bind: %w", syscall.EADDRINUSE)
	}
	w.mu.Lock()
	conn := &c13EpConn{id: len(w.conns), key: call.key, dialer: d.idx, reads: make(chan c13EpRead), closeCh: make(chan struct{})}
	w.conns = append(w.conns, conn)
	call.ownConn = conn
	di := w.dialers[d.idx]
	var out netproxy.Conn = conn
	if sc.lifecycle {
		if di.tdone == nil {
			di.tdone = make(chan struct{})
		}
		conn.tdone = di.tdone
		out = c13EpLifeConn{conn}
	}
	w.mu.Unlock()
	return out, nil
}

func (w *c13EpWorld) tr(format string, a ...any) {
	w.trace = append(w.trace, fmt.Sprintf(format, a...))
}

func (w *c13EpWorld) tail() string {
	tr := w.trace
	if len(tr) > 90 {
		tr = tr[len(tr)-90:]
	}
	return strings.Join(tr, " ; ")
}

func c13NewEpWorld(shared bool) *c13EpWorld {
	w := &c13EpWorld{epByUe: map[*UdpEndpoint]*c13Ep{}, classes: map[string]bool{}, shared: shared, down: make(chan struct{})}
	w.pool = NewUdpEndpointPool()
	// three keys in three different creation shards
	src := func(i int) netip.AddrPort {
		return netip.AddrPortFrom(netip.MustParseAddr("10.13.2.1"), uint16(3000+i))
	}
	dst := netip.AddrPortFrom(netip.MustParseAddr("192.0.2.13"), 443)
	used := map[*udpEndpointPoolShard]bool{}
	mk := []func(i int) UdpEndpointKey{
		func(i int) UdpEndpointKey { return UdpEndpointKey{Src: src(i)} },
		func(i int) UdpEndpointKey { return UdpEndpointKey{Src: src(i), Dst: dst} },
		func(i int) UdpEndpointKey {
			return UdpEndpointKey{Src: src(i), Dst: dst, RouteScope: udpEndpointRouteScope{Outbound: uint8(consts.OutboundControlPlaneRouting), Mark: 7, Dscp: 3}}
		},
	}
	port := 0
	for _, f := range mk {
		for {
			k := f(port)
			port++
			if sh := w.pool.shardFor(k); !used[sh] {
				used[sh] = true
				w.keys = append(w.keys, k)
				break
			}
		}
	}
	w.cur = make([]*c13Ep, len(w.keys))
	w.negUntil = make([]time.Time, len(w.keys))
	w.lastObs = time.Now()
	w.scriptAt = make([]int, len(w.keys))
	logger := logrus.New()
	logger.SetOutput(io.Discard)
	props := []*dialer.Property{
		{},
		{Property: D.Property{Name: "c13proxy", Address: "proxy.c13.test:443", Protocol: "trojan"}},
	}
	for i, p := range props {
		d := dialer.NewDialer(&c13EpFakeDialer{w: w, idx: i},
			&dialer.GlobalOption{Log: logger, CheckInterval: time.Second},
			dialer.InstanceOption{DisableCheck: true}, p)
		w.dialers = append(w.dialers, &c13EpDialerInfo{d: d, proxy: i == 1})
	}
	w.netType = dialer.NetworkType{L4Proto: consts.L4ProtoStr_UDP, IpVersion: consts.IpVersionStr_4, UdpHealthDomain: dialer.UdpHealthDomainData}
	var sharedBpf *bpfObjects
	if shared {
		sharedBpf = &bpfObjects{}
		w.bpfs = append(w.bpfs, sharedBpf)
	}
	for i := 0; i < 2; i++ {
		cctx, ccancel := context.WithCancel(context.Background())
		core := &controlPlaneCore{closed: cctx, close: ccancel}
		if shared {
			core.bpf.Store(sharedBpf)
		}
		w.gens = append(w.gens, &c13EpGen{core: core, drain: newControlPlaneDrainTracker(), tracker: core.getUdpConnStateTracker()})
	}
	return w
}

func (w *c13EpWorld) nextScript(key int) c13EpScript {
	i := w.scriptAt[key]
	w.scriptAt[key]++
	if i < len(w.scripts[key]) {
		return w.scripts[key][i]
	}
	return c13EpScript{opt: "ok", dial: "ok"}
}

func (w *c13EpWorld) startCall(key, gen int, nat time.Duration) *c13EpCall {
	ctx, cancel := context.WithCancel(context.Background())
	w.mu.Lock()
	call := &c13EpCall{id: len(w.calls), key: key, gen: gen, nat: nat, ctx: ctx, cancel: cancel, done: make(chan struct{}), epsBefore: len(w.eps)}
	w.calls = append(w.calls, call)
	w.mu.Unlock()
	opt := &UdpEndpointOptions{
		Ctx:        ctx,
		NatTimeout: nat,
		Handler: func(ue *UdpEndpoint, _ []byte, _ netip.AddrPort) error {
			c := c13ConnOf(ue)
			if c != nil && c.handlerErr.Load() {
				return errors.New("c13: client socket write failed")
			}
			if c != nil {
				c.handled.Add(1)
			}
			return nil
		},
		GetDialOption: func(context.Context) (*DialOption, error) {
			w.mu.Lock()
			defer w.mu.Unlock()
			sc := w.nextScript(key)
			attempt := len(call.scripts)
			call.scripts = append(call.scripts, sc)
			call.attempts++
			switch sc.opt {
			case "noalive":
				return nil, outbound.ErrNoAliveDialer
			case "opterr":
				return nil, errors.New("c13: routing lookup failed")
			}
			nt := w.netType
			return &DialOption{Target: w.target(call, attempt), Dialer: w.dialers[sc.dialer].d, Network: "udp", NetworkType: &nt}, nil
		},
	}
	if gen >= 0 {
		opt.ConnStateOwner = w.gens[gen].core
		opt.DrainTracker = w.gens[gen].drain
	}
	go func() {
		call.gid.Store(c13Gid())
		call.ue, call.isNew, call.err = w.pool.GetOrCreate(w.keys[key], opt)
		close(call.done)
	}()
	return call
}

// c13GoroutineStates maps goroutine id -> wait reason (text inside the brackets).
func c13GoroutineStates(buf []byte) map[uint64]string {
	n := runtime.Stack(buf, true)
	out := map[uint64]string{}
	for _, blk := range strings.Split(string(buf[:n]), "\n\n") {
		if !strings.HasPrefix(blk, "goroutine ") {
			continue
		}
		line := blk
		if i := strings.IndexByte(blk, '\n'); i >= 0 {
			line = blk[:i]
		}
		rest := line[len("goroutine "):]
		sp := strings.IndexByte(rest, ' ')
		if sp < 0 {
			continue
		}
		id, err := strconv.ParseUint(rest[:sp], 10, 64)
		if err != nil {
			continue
		}
		st := strings.TrimSuffix(strings.TrimPrefix(rest[sp+1:], "["), "]:")
		out[id] = st
	}
	return out
}

// c13GoroutineBlock returns the traceback block of one goroutine.
func c13GoroutineBlock(buf []byte, gid uint64) string {
	n := runtime.Stack(buf, true)
	all := string(buf[:n])
	hdr := "goroutine " + strconv.FormatUint(gid, 10) + " ["
	i := strings.Index(all, "\n"+hdr)
	if strings.HasPrefix(all, hdr) {
		i = 0
	} else if i >= 0 {
		i++
	}
	if i < 0 {
		return ""
	}
	rest := all[i:]
	if j := strings.Index(rest, "\n\n"); j >= 0 {
		rest = rest[:j]
	}
	return rest
}

func (w *c13EpWorld) parkedDial(key int) *c13EpDial {
	for _, d := range w.dials {
		if d.parked && d.call.key == key {
			return d
		}
	}
	return nil
}

func (w *c13EpWorld) callParked(c *c13EpCall) bool {
	for _, d := range w.dials {
		if d.parked && d.call == c {
			return true
		}
	}
	return false
}

// settle waits until every in-flight call is done, parked in the fake dial, or
// blocked on the creation mutex behind a parked dial of its key (a goroutine
// blocked on a sync.Mutex is not "durably blocked" for synctest, so synctest.Wait
// cannot be used while such a call exists or may come to exist; its state is then
// read from the goroutine dump). It returns the number of blocked calls; when
// there is none the whole bubble is quiesced with synctest.Wait.
func (w *c13EpWorld) settle(rt *rapid.T) int {
	// Fast path: at most one unsettled call per key and nobody waits behind a
	// parked dial: every goroutine ends durably blocked, synctest.Wait suffices.
	w.mu.Lock()
	unsettled := map[int]int{}
	simple := true
	for _, c := range w.calls {
		if c.isDone() || w.callParked(c) {
			continue
		}
		unsettled[c.key]++
		if unsettled[c.key] > 1 || w.parkedDial(c.key) != nil {
			simple = false
		}
	}
	w.mu.Unlock()
	if simple {
		synctest.Wait()
		return 0
	}
	w.stackBuf = c13StackBuf
	for spin := 0; ; spin++ {
		stable := true
		blocked := 0
		var states map[uint64]string
		w.mu.Lock()
		for _, c := range w.calls {
			if c.isDone() || w.callParked(c) {
				continue
			}
			if w.parkedDial(c.key) == nil {
				stable = false
				break
			}
			if states == nil {
				states = c13GoroutineStates(w.stackBuf)
			}
			if strings.HasPrefix(states[c.gid.Load()], "sync.Mutex.Lock") {
				blocked++
				continue
			}
			stable = false
			break
		}
		w.mu.Unlock()
		if stable {
			if blocked == 0 {
				synctest.Wait()
			}
			return blocked
		}
		if spin > 5000000 {
			rt.Fatalf("harness: GetOrCreate calls did not settle\nhistory: %s", w.tail())
		}
		runtime.Gosched()
	}
}

func (w *c13EpWorld) inflight() int {
	n := 0
	for _, c := range w.calls {
		if !c.isDone() {
			n++
		}
	}
	return n
}

func (w *c13EpWorld) inflightOn(key int) int {
	n := 0
	for _, c := range w.calls {
		if !c.isDone() && c.key == key {
			n++
		}
	}
	return n
}

// process evaluates the per-call and per-dial oracle for everything that
// happened since the last call.
func (w *c13EpWorld) process(rt *rapid.T) {
	w.mu.Lock()
	defer w.mu.Unlock()
	now := time.Now()
	prevObs := w.lastObs
	w.lastObs = now
	var batch []*c13EpCall
	for _, c := range w.calls {
		if !c.processed && c.isDone() {
			batch = append(batch, c)
		}
	}
	// creators first: a call that hit the endpoint adopted it after its creation
	sort.SliceStable(batch, func(i, j int) bool {
		ni := batch[i].err == nil && batch[i].isNew
		nj := batch[j].err == nil && batch[j].isNew
		return ni && !nj
	})
	for _, c := range batch {
		c.processed = true
		if c.err != nil {
			if c.ue != nil {
				rt.Fatalf("call %d on key %d returned both an endpoint and error %v\nhistory: %s", c.id, c.key, c.err, w.tail())
			}
			if c.ownConn != nil && c.ownConn.closeCalls.Load() == 0 {
				rt.Fatalf("call %d on key %d failed (%v) but the conn it dialled was never closed\nhistory: %s", c.id, c.key, c.err, w.tail())
			}
			if c13EpCacheable(c.err) {
				// the failure was cached no earlier than the previous observation
				if u := prevObs.Add(2 * time.Second); u.After(w.negUntil[c.key]) {
					w.negUntil[c.key] = u
				}
			}
			if errors.Is(c.err, ErrEndpointFailed) && c.raced {
				w.classes["waiter_behind_failed_leader"] = true
			}
			switch {
			case errors.Is(c.err, ErrEndpointFailed):
				w.classes["negative_cache_hit"] = true
			case errors.Is(c.err, outbound.ErrNoAliveDialer):
				w.classes["no_alive"] = true
			case errors.Is(c.err, context.Canceled):
				w.classes["cancelled"] = true
			case errors.Is(c.err, context.DeadlineExceeded):
				w.classes["dial_timeout"] = true
			default:
				w.classes["dial_failure"] = true
			}
			w.tr("call%d(k%d)=>%v", c.id, c.key, c.err)
			continue
		}
		if now.Before(w.negUntil[c.key]) {
			rt.Fatalf("key %d: call %d was handed an endpoint %v before the end of the 2s window that follows a cached dial failure (a recently failed key must keep failing, without a new dial)\nhistory: %s",
				c.key, c.id, w.negUntil[c.key].Sub(now), w.tail())
		}
		ue := c.ue
		if ue == nil {
			rt.Fatalf("call %d on key %d returned neither endpoint nor error\nhistory: %s", c.id, c.key, w.tail())
		}
		conn := c13ConnOf(ue)
		if ue.failed.Load() || conn == nil {
			rt.Fatalf("call %d on key %d was handed a failure marker / endpoint without transport (failed=%v)\nhistory: %s", c.id, c.key, ue.failed.Load(), w.tail())
		}
		if ue.poolKey != w.keys[c.key] {
			rt.Fatalf("call %d on key %d was handed the endpoint of another key\nhistory: %s", c.id, c.key, w.tail())
		}
		ep := w.epByUe[ue]
		if ep == nil {
			// first time this endpoint is seen: it must be the product of a dial
			ep = &c13Ep{ue: ue, conn: conn, key: c.key, serial: len(w.eps), owner: -1, drain: -1, tuples: map[bpfTuplesKey]bool{}, dialer: conn.dialer}
			w.eps = append(w.eps, ep)
			w.epByUe[ue] = ep
		}
		if c.isNew {
			if c.ownConn != conn {
				rt.Fatalf("call %d on key %d reports isNew but the endpoint does not wrap the conn it dialled\nhistory: %s", c.id, c.key, w.tail())
			}
			ep.owner, ep.drain = c.gen, c.gen
			ep.flapped = c.flap
			if len(c.scripts) > 1 {
				w.classes["success_on_retry"] = true
			}
		} else {
			if c.ownConn != nil && c.ownConn != conn && c.ownConn.closeCalls.Load() == 0 {
				rt.Fatalf("call %d on key %d dialled a conn, returned another endpoint and left its own conn open\nhistory: %s", c.id, c.key, w.tail())
			}
			if ep.flapped && !ep.sent && !ep.replied {
				rt.Fatalf("call %d on key %d was handed endpoint #%d again although a health change invalidated its dialer after the endpoint was built (generation captured) and before it carried any traffic\nhistory: %s", c.id, c.key, ep.serial, w.tail())
			}
			if ep.retired != "" {
				rt.Fatalf("call %d on key %d was handed endpoint #%d which had been retired (%s)\nhistory: %s", c.id, c.key, ep.serial, ep.retired, w.tail())
			}
			if !ep.closed() && c.gen >= 0 {
				if ep.owner != c.gen || ep.drain != c.gen {
					w.classes["adoption"] = true
					if len(ep.tuples) > 0 {
						w.classes["adoption_with_tuples"] = true
					}
				}
				ep.owner, ep.drain = c.gen, c.gen
			}
		}
		// (the creator of a flapped endpoint may find it replaced at once by a caller
		// that was queued behind it: that caller sees the stale generation)
		if !ep.live() && !(c.isNew && c.flap) {
			rt.Fatalf("call %d on key %d was handed endpoint #%d which is dead/closed (dead=%v closeCalls=%d)\nhistory: %s",
				c.id, c.key, ep.serial, ue.dead.Load(), conn.closeCalls.Load(), w.tail())
		}
		for _, other := range w.eps {
			if other != ep && other.key == c.key && other.live() {
				rt.Fatalf("key %d: endpoint #%d is still live but call %d was handed a different endpoint #%d\nhistory: %s", c.key, other.serial, c.id, ep.serial, w.tail())
			}
		}
		w.cur[c.key] = ep
		w.tr("call%d(k%d)=>ep#%d new=%v", c.id, c.key, ep.serial, c.isNew)
	}
	perKey := map[int]int{}
	for _, d := range w.dials {
		if d.parked {
			perKey[d.call.key]++
		}
		if d.processed {
			continue
		}
		d.processed = true
		if now.Before(w.negUntil[d.call.key]) {
			what := "a caller"
			if d.call.raced {
				what = "a caller that was queued behind the failing first caller"
			}
			rt.Fatalf("key %d: %s (call %d) started another dial %v before the end of the 2s negative-cache window of a failed dial: concurrent first packets must cause a single dial and a recently failed key must not be dialled again\nhistory: %s",
				d.call.key, what, d.call.id, w.negUntil[d.call.key].Sub(now), w.tail())
		}
		for _, ep := range w.eps {
			if ep.key == d.call.key && ep.live() {
				rt.Fatalf("key %d: call %d started a dial although endpoint #%d of that key is live\nhistory: %s", d.call.key, d.call.id, ep.serial, w.tail())
			}
		}
	}
	for k, n := range perKey {
		if n > 1 {
			rt.Fatalf("key %d: %d dials in flight at the same time (concurrent first packets must cause a single dial)\nhistory: %s", k, n, w.tail())
		}
	}
	for _, c := range w.conns {
		if n := c.closeCalls.Load(); n > 1 {
			rt.Fatalf("conn %d (key %d) was closed %d times\nhistory: %s", c.id, c.key, n, w.tail())
		}
	}
}

// checkOwners compares tracker tables and drain counts with the model. Only
// meaningful at a quiescent point.
func (w *c13EpWorld) checkOwners(rt *rapid.T, what string) {
	type tk struct {
		tr *udpConnStateTracker
		k  bpfTuplesKey
	}
	want := map[tk]int{}
	drains := make([]int, len(w.gens))
	for _, ep := range w.eps {
		if ep.closed() {
			continue
		}
		if ep.drain >= 0 {
			drains[ep.drain]++
		}
		if ep.owner < 0 {
			continue
		}
		tr := w.gens[ep.owner].tracker
		for k := range ep.tuples {
			want[tk{tr, k}]++
		}
	}
	seen := map[*udpConnStateTracker]bool{}
	for gi, g := range w.gens {
		if got := g.drain.Count(); got != drains[gi] {
			rt.Fatalf("after %s: drain tracker of generation %d counts %d sessions, %d endpoints of it are open\nhistory: %s", what, gi, got, drains[gi], w.tail())
		}
		tr := g.tracker
		if seen[tr] {
			continue
		}
		seen[tr] = true
		tr.mu.Lock()
		for k, e := range tr.entries {
			if e.deleting || e.refs != want[tk{tr, k}] {
				n := want[tk{tr, k}]
				tr.mu.Unlock()
				rt.Fatalf("after %s: tracker of generation %d holds tuple sport=%d dport=%d with refs=%d deleting=%v; %d open endpoint(s) own it\nhistory: %s",
					what, gi, k.Sport, k.Dport, e.refs, e.deleting, n, w.tail())
			}
		}
		for key, n := range want {
			if key.tr != tr {
				continue
			}
			if _, ok := tr.entries[key.k]; !ok {
				tr.mu.Unlock()
				rt.Fatalf("after %s: tuple sport=%d dport=%d is owned by %d open endpoint(s) of generation %d but is gone from its tracker (kernel entry deleted too early)\nhistory: %s",
					what, key.k.Sport, key.k.Dport, n, gi, w.tail())
			}
		}
		tr.mu.Unlock()
	}
}

func (w *c13EpWorld) releaseDial(d *c13EpDial) {
	w.mu.Lock()
	d.parked = false
	w.mu.Unlock()
	close(d.proceed)
}

func (w *c13EpWorld) teardown() {
	close(w.down)
	w.mu.Lock()
	calls := append([]*c13EpCall(nil), w.calls...)
	w.mu.Unlock()
	for _, c := range calls {
		c.cancel()
	}
	for i := 0; i < 1000; i++ {
		w.mu.Lock()
		var pd []*c13EpDial
		for _, d := range w.dials {
			if d.parked {
				pd = append(pd, d)
			}
		}
		w.mu.Unlock()
		for _, d := range pd {
			w.releaseDial(d)
		}
		all := true
		for _, c := range calls {
			if !c.isDone() {
				all = false
			}
		}
		if all {
			break
		}
		runtime.Gosched()
	}
	w.pool.Close()
	w.mu.Lock()
	for _, c := range w.conns {
		if c.closeCalls.Load() == 0 {
			close(c.closeCh)
			c.closeCalls.Store(1000)
		}
	}
	for _, di := range w.dialers {
		if di.tdone != nil {
			close(di.tdone)
			di.tdone = nil
		}
	}
	w.mu.Unlock()
	for _, di := range w.dialers {
		_ = di.d.Close()
	}
	sharedUdpConnStateTrackerRegistry.mu.Lock()
	for _, b := range w.bpfs {
		delete(sharedUdpConnStateTrackerRegistry.entries, b)
	}
	sharedUdpConnStateTrackerRegistry.mu.Unlock()
	synctest.Wait()
}

var c13EpSleeps = []time.Duration{
	100 * time.Millisecond, udpEndpointJanitorInterval, time.Second, 2 * time.Second, 2*time.Second + udpEndpointJanitorInterval,
	consts.DefaultDialTimeout, DefaultNatTimeout - time.Second, DefaultNatTimeout + time.Second, QuicNatTimeout + time.Second,
}

func c13EndpointCase(rt *rapid.T) {
	shared := rapid.Bool().Draw(rt, "sharedTracker")
	w := c13NewEpWorld(shared)
	defer w.teardown()
	nSteps := rapid.IntRange(6, 70).Draw(rt, "nSteps")
	allowReset := rapid.IntRange(0, 3).Draw(rt, "allowReset") == 0
	allowRemove := rapid.IntRange(0, 2).Draw(rt, "allowRemove") == 0
	// per key dial scripts, consumed in order by whichever call creates next
	optKinds := []string{"ok", "ok", "ok", "ok", "ok", "ok", "noalive", "opterr"}
	dialKinds := []string{"ok", "ok", "ok", "ok", "err", "unreach", "unreach", "transient"}
	for range w.keys {
		var scs []c13EpScript
		n := rapid.IntRange(0, 8).Draw(rt, "nScripts")
		for i := 0; i < n; i++ {
			scs = append(scs, c13EpScript{
				opt:       rapid.SampledFrom(optKinds).Draw(rt, "opt"),
				dialer:    rapid.IntRange(0, 1).Draw(rt, "dialer"),
				dial:      rapid.SampledFrom(dialKinds).Draw(rt, "dial"),
				lifecycle: rapid.IntRange(0, 2).Draw(rt, "lifecycle") == 0,
				deaf:      rapid.IntRange(0, 2).Draw(rt, "deaf_dial") == 0,
			})
		}
		w.scripts = append(w.scripts, scs)
	}
	nats := []time.Duration{0, DefaultNatTimeout, QuicNatTimeout}
	wrAddrs := []netip.AddrPort{netip.MustParseAddrPort("198.51.100.1:53"), netip.MustParseAddrPort("198.51.100.2:123")}
	tupleSrc := []netip.AddrPort{netip.MustParseAddrPort("10.13.2.1:3000"), netip.MustParseAddrPort("10.13.2.1:3000")}
	tupleDst := []netip.AddrPort{netip.MustParseAddrPort("192.0.2.13:443"), netip.MustParseAddrPort("192.0.2.14:443")}

	pickEp := func(label string, wantLive bool) *c13Ep {
		var cands []*c13Ep
		for _, ep := range w.eps {
			if !wantLive || ep.live() {
				cands = append(cands, ep)
			}
		}
		if len(cands) == 0 {
			return nil
		}
		return cands[rapid.IntRange(0, len(cands)-1).Draw(rt, label)]
	}
	expectRetired := func(ep *c13Ep, why string) {
		ep.retired = why
		if ep.live() {
			rt.Fatalf("endpoint #%d (key %d) is still live after %s\nhistory: %s", ep.serial, ep.key, why, w.tail())
		}
	}

	blocked := 0
	for step := 0; step < nSteps; step++ {
		blocked = w.settle(rt)
		w.process(rt)
		if blocked == 0 {
			w.checkOwners(rt, "step")
		}
		acts := []string{}
		if w.inflight() < 5 {
			acts = append(acts, "call", "call", "call", "call")
		}
		w.mu.Lock()
		var parkedDials []*c13EpDial
		for _, d := range w.dials {
			if d.parked {
				parkedDials = append(parkedDials, d)
			}
		}
		w.mu.Unlock()
		sort.Slice(parkedDials, func(i, j int) bool { return parkedDials[i].call.key < parkedDials[j].call.key })
		if len(parkedDials) > 0 {
			acts = append(acts, "release", "release", "release", "cancel")
		}
		var flapDials []*c13EpDial
		for _, d := range parkedDials {
			if d.script.dial == "ok" {
				flapDials = append(flapDials, d)
			}
		}
		if len(flapDials) > 0 {
			acts = append(acts, "release_flap", "release_flap")
		}
		if blocked == 0 && w.shared && !w.gens[0].closed && step >= nSteps/3 {
			old := false
			for _, c := range w.calls {
				if !c.isDone() && c.gen == 0 {
					old = true
				}
			}
			if !old {
				acts = append(acts, "closecore")
			}
		}
		if blocked == 0 {
			acts = append(acts, "sleep", "sleep")
			if len(w.eps) > 0 {
				acts = append(acts, "read", "read", "read", "write", "write", "write", "track", "track", "track", "track", "track", "invalidate", "transport")
				if allowRemove {
					acts = append(acts, "remove")
				}
			}
			if allowReset {
				acts = append(acts, "reset")
			}
		}
		act := rapid.SampledFrom(acts).Draw(rt, "act")
		switch act {
		case "call":
			key := rapid.IntRange(0, len(w.keys)-1).Draw(rt, "key")
			if w.inflightOn(key) >= 3 {
				continue
			}
			gen := rapid.SampledFrom([]int{0, 0, 0, 0, 1, 1, 1, -1}).Draw(rt, "gen")
			// racing callers of one key share the generation: which of them adopts
			// last is up to the mutex hand-off and would not be predictable
			if gen == 0 && w.gens[0].closed {
				gen = 1 // the old generation no longer handles packets after its core was closed
			}
			for _, c := range w.calls {
				if !c.isDone() && c.key == key {
					gen = c.gen
				}
			}
			nat := rapid.SampledFrom(nats).Draw(rt, "nat")
			raced := w.parkedDial(key) != nil
			if raced {
				w.classes["racing_callers"] = true
			}
			c := w.startCall(key, gen, nat)
			c.raced = raced
			w.tr("call%d(k%d,g%d)", c.id, key, gen)
		case "release":
			d := parkedDials[rapid.IntRange(0, len(parkedDials)-1).Draw(rt, "dial")]
			w.tr("dial(call%d,k%d)->%s", d.call.id, d.call.key, d.script.dial)
			w.releaseDial(d)
		case "release_flap":
			// The dial succeeds; the new endpoint captures its dialer generation and is
			// then held up right before it is published (the harness keeps the shard's
			// read lock, the creator waits for the write lock). A health change of its
			// dialer lands in that window, then the endpoint is published.
			d := flapDials[rapid.IntRange(0, len(flapDials)-1).Draw(rt, "fdial")]
			sh := w.pool.shardFor(w.keys[d.call.key])
			sh.mu.RLock()
			w.releaseDial(d)
			reached := false
			for spin := 0; spin < 2000000 && !d.call.isDone(); spin++ {
				// waiting for the shard's write lock inside createEndpointLocked (behind
				// another pending writer the wait reason is that of the inner mutex,
				// so the frames decide, not the wait reason)
				blk := c13GoroutineBlock(c13StackBuf, d.call.gid.Load())
				if strings.Contains(blk, "sync.(*RWMutex).Lock") && strings.Contains(blk, "createEndpointLocked") &&
					(strings.Contains(blk, "[sync.RWMutex.Lock") || strings.Contains(blk, "[sync.Mutex.Lock")) {
					reached = true
					break
				}
				runtime.Gosched()
			}
			nt := w.netType
			busy := false
			for _, ep := range w.eps {
				if ep.dialer == d.script.dialer && !ep.closed() {
					busy = true
				}
			}
			n := 0
			if reached {
				n = w.pool.InvalidateDialerNetworkType(w.dialers[d.script.dialer].d, &nt)
				d.call.flap = true
				w.classes["flap_between_build_and_publish"] = true
				if !busy {
					w.classes["flap_between_build_and_publish_empty_index"] = true
				}
			}
			sh.mu.RUnlock()
			w.tr("dial(call%d,k%d)->ok+flap(d%d,reached=%v)=%d", d.call.id, d.call.key, d.script.dialer, reached, n)
		case "closecore":
			// reload hand-over finished: the old generation's core is closed while
			// endpoints it still owns (never adopted) live on and release later
			outlive, sharedT := 0, false
			for _, ep := range w.eps {
				if ep.owner == 0 && !ep.closed() {
					outlive++
					if len(ep.tuples) > 0 {
						w.classes["old_endpoints_with_tuples_outlive_core_close"] = true
					}
					for k := range ep.tuples {
						for _, o := range w.eps {
							if o.owner == 1 && !o.closed() && o.tuples[k] {
								sharedT = true
							}
						}
					}
				}
			}
			_ = w.gens[0].core.Close()
			w.gens[0].closed = true
			w.tr("closeOldCore(open old endpoints=%d)", outlive)
			w.classes["old_core_closed"] = true
			if outlive > 0 {
				w.classes["old_endpoints_outlive_core_close"] = true
			}
			if sharedT {
				w.classes["old_core_closed_with_tuple_shared_across_generations"] = true
			}
		case "cancel":
			var cands []*c13EpDial
			for _, pd := range parkedDials {
				if !pd.call.cancelled {
					cands = append(cands, pd)
				}
			}
			if len(cands) == 0 {
				continue
			}
			d := cands[rapid.IntRange(0, len(cands)-1).Draw(rt, "dial")]
			w.tr("cancel(call%d,k%d)", d.call.id, d.call.key)
			d.call.cancelled = true
			if d.script.deaf && d.script.dial == "ok" {
				// the dial goes on regardless and is released like any other: whatever
				// it returns (a live transport included) still has an owner to find
				w.classes["cancelled_while_dial_completes_anyway"] = true
				d.call.cancel()
				continue
			}
			// the dial is no longer "parked" from now on: settle must wait for the call
			w.mu.Lock()
			d.parked = false
			w.mu.Unlock()
			d.call.cancel()
		case "sleep":
			dur := rapid.SampledFrom(c13EpSleeps).Draw(rt, "sleep")
			w.tr("sleep(%v)", dur)
			time.Sleep(dur)
			if dur >= DefaultNatTimeout {
				w.classes["nat_timeout_crossed"] = true
			}
		case "read":
			ep := pickEp("ep", true)
			if ep == nil {
				continue
			}
			kind := rapid.SampledFrom([]string{"reply", "reply", "reply_stranger", "reply_handler_err", "soft", "hard", "eof"}).Draw(rt, "read")
			var r c13EpRead
			accepted := false
			switch kind {
			case "reply", "reply_handler_err", "reply_stranger":
				from := netip.MustParseAddrPort("203.0.113.99:9")
				if kind != "reply_stranger" {
					switch {
					case ep.lastTo.IsValid():
						from = ep.lastTo
					case w.keys[ep.key].Dst.IsValid():
						from = w.keys[ep.key].Dst
					}
				}
				accepted = ep.replied || w.dialers[ep.dialer].proxy || from == ep.lastTo || (w.keys[ep.key].Dst.IsValid() && from == w.keys[ep.key].Dst)
				r = c13EpRead{data: []byte("c13-reply"), from: from}
				ep.conn.handlerErr.Store(kind == "reply_handler_err")
			case "soft":
				r = c13EpRead{err: errors.New("cipher: message authentication failed")}
			case "hard":
				r = c13EpRead{err: errors.New("c13: upstream reset")}
			case "eof":
				r = c13EpRead{err: io.EOF}
			}
			delivered := false
			select {
			case ep.conn.reads <- r:
				delivered = true
			default:
			}
			w.tr("read(ep#%d,%s,delivered=%v)", ep.serial, kind, delivered)
			synctest.Wait()
			if !delivered {
				continue
			}
			switch kind {
			case "reply", "reply_stranger":
				if accepted {
					ep.replied = true
				}
			case "reply_handler_err":
				if accepted {
					ep.replied = true
					expectRetired(ep, "a reply could not be forwarded to the client (handler error)")
					w.classes["handler_error"] = true
				}
			case "hard":
				expectRetired(ep, "a hard read error")
				w.classes["hard_read_error"] = true
			case "eof":
				if w.dialers[ep.dialer].proxy {
					expectRetired(ep, "a normal close of a proxy-backed session")
				}
				w.classes["reply_loop_exit_soft"] = true
			}
		case "write":
			ep := pickEp("ep", false)
			if ep == nil {
				continue
			}
			mode := rapid.SampledFrom([]int32{0, 0, 0, 1, 2}).Draw(rt, "wmode")
			to := wrAddrs[rapid.IntRange(0, len(wrAddrs)-1).Draw(rt, "to")]
			wasLive := ep.live()
			ep.conn.writeMode.Store(mode)
			_, err := ep.ue.WriteTo([]byte("c13-data"), to.String())
			ep.conn.writeMode.Store(0)
			w.tr("write(ep#%d,mode=%d)=>%v", ep.serial, mode, err)
			synctest.Wait()
			if wasLive {
				ep.lastTo = to
				if mode != 1 {
					ep.sent = true
				}
				if mode != 0 {
					if err == nil {
						rt.Fatalf("WriteTo on endpoint #%d reported success for a failed/short write\nhistory: %s", ep.serial, w.tail())
					}
					expectRetired(ep, "a write error")
					w.classes["write_error"] = true
				} else if err != nil {
					rt.Fatalf("WriteTo on live endpoint #%d failed: %v\nhistory: %s", ep.serial, err, w.tail())
				}
			} else if err == nil && ep.ue.dead.Load() {
				rt.Fatalf("WriteTo on dead endpoint #%d succeeded\nhistory: %s", ep.serial, w.tail())
			}
		case "track":
			ep := pickEp("ep", rapid.IntRange(0, 4).Draw(rt, "trackAny") > 0)
			if ep == nil {
				continue
			}
			s := tupleSrc[rapid.IntRange(0, 1).Draw(rt, "tsrc")]
			d := tupleDst[rapid.SampledFrom([]int{0, 0, 0, 1}).Draw(rt, "tdst")]
			wasClosed := ep.closed()
			ep.ue.TrackUdpConnStateTuplePair(s, d)
			w.tr("track(ep#%d,%v,%v)", ep.serial, s, d)
			if !wasClosed && ep.owner >= 0 {
				ep.tuples[bpfTuplesKeyFromAddrPorts(s, d, uint8(syscall.IPPROTO_UDP))] = true
				ep.tuples[bpfTuplesKeyFromAddrPorts(d, s, uint8(syscall.IPPROTO_UDP))] = true
				for _, o := range w.eps {
					if o != ep && !o.closed() && o.tuples[bpfTuplesKeyFromAddrPorts(s, d, uint8(syscall.IPPROTO_UDP))] {
						w.classes["tuple_shared_by_endpoints"] = true
					}
				}
			}
		case "invalidate":
			di := rapid.IntRange(0, len(w.dialers)-1).Draw(rt, "inv")
			nt := w.netType
			var must []*c13Ep
			for _, ep := range w.eps {
				if ep.dialer == di && ep.live() && !ep.sent && !ep.replied {
					must = append(must, ep)
				}
			}
			n := w.pool.InvalidateDialerNetworkType(w.dialers[di].d, &nt)
			w.tr("invalidate(d%d)=%d", di, n)
			synctest.Wait()
			for _, ep := range must {
				expectRetired(ep, "a health invalidation before it carried traffic")
				w.classes["invalidated_before_traffic"] = true
			}
			for _, ep := range w.eps {
				if ep.dialer == di && ep.live() {
					w.classes["survived_invalidation"] = true
				}
			}
		case "remove":
			ep := pickEp("ep", false)
			if ep == nil {
				continue
			}
			_ = w.pool.Remove(w.keys[ep.key], ep.ue)
			w.tr("remove(ep#%d)", ep.serial)
			synctest.Wait()
			expectRetired(ep, "Remove")
		case "transport":
			di := rapid.IntRange(0, len(w.dialers)-1).Draw(rt, "td")
			w.mu.Lock()
			ch := w.dialers[di].tdone
			w.dialers[di].tdone = nil
			w.mu.Unlock()
			if ch == nil {
				continue
			}
			var must []*c13Ep
			for _, ep := range w.eps {
				if ep.conn.tdone == ch && ep.live() {
					must = append(must, ep)
				}
			}
			close(ch)
			w.tr("transportDone(d%d)", di)
			synctest.Wait()
			for _, ep := range must {
				expectRetired(ep, "the end of its transport")
				w.classes["transport_done"] = true
			}
		case "reset":
			w.tr("Reset")
			w.pool.Reset()
			for k := range w.negUntil {
				w.negUntil[k] = time.Time{} // Reset drops negative-cache entries too
			}
			synctest.Wait()
			w.classes["reset"] = true
			for _, ep := range w.eps {
				if ep.live() && w.parkedDial(ep.key) == nil {
					rt.Fatalf("endpoint #%d survived Reset\nhistory: %s", ep.serial, w.tail())
				}
			}
		}
	}

	// ---- resolve everything that is still in flight
	for i := 0; ; i++ {
		blocked = w.settle(rt)
		w.process(rt)
		w.mu.Lock()
		var pd *c13EpDial
		for _, d := range w.dials {
			if d.parked && (pd == nil || d.call.key < pd.call.key) {
				pd = d
			}
		}
		w.mu.Unlock()
		if pd == nil {
			if w.inflight() > 0 {
				rt.Fatalf("GetOrCreate call stuck with no dial in flight\nhistory: %s", w.tail())
			}
			break
		}
		if i > 200 {
			rt.Fatalf("dials keep coming after %d rounds\nhistory: %s", i, w.tail())
		}
		w.tr("dial(call%d,k%d)->%s", pd.call.id, pd.call.key, pd.script.dial)
		w.releaseDial(pd)
	}
	w.checkOwners(rt, "resolving all calls")

	// ---- idle: every endpoint must expire, be closed once, leave no trace
	time.Sleep(QuicNatTimeout + 2*time.Second)
	synctest.Wait()
	w.process(rt)
	w.checkOwners(rt, "idling past every NAT timeout")
	for _, c := range w.conns {
		if n := c.closeCalls.Load(); n != 1 {
			rt.Fatalf("conn %d of key %d was closed %d times after every flow idled past its NAT timeout (want exactly 1)\nhistory: %s", c.id, c.key, n, w.tail())
		}
	}
	if n := w.pool.Len(); n != 0 {
		rt.Fatalf("%d entries left in the pool after every flow idled past its NAT timeout (leak)\nhistory: %s", n, w.tail())
	}
	for gi, g := range w.gens {
		if n := g.drain.Count(); n != 0 {
			rt.Fatalf("drain tracker of generation %d still counts %d sessions at quiescence\nhistory: %s", gi, n, w.tail())
		}
		tr := g.tracker
		tr.mu.Lock()
		n := len(tr.entries)
		tr.mu.Unlock()
		if n != 0 {
			rt.Fatalf("tracker of generation %d still holds %d tuples at quiescence\nhistory: %s", gi, n, w.tail())
		}
	}
	w.pool.Close()
	synctest.Wait()
	for _, c := range w.conns {
		if n := c.closeCalls.Load(); n != 1 {
			rt.Fatalf("conn %d of key %d was closed %d times after pool Close (want exactly 1)\nhistory: %s", c.id, c.key, n, w.tail())
		}
	}

	cl := []string{}
	for c := range w.classes {
		cl = append(cl, c)
	}
	sort.Strings(cl)
	if shared {
		cl = append(cl, "shared_tracker")
	}
	nt := ""
	if w.classes["dial_failure"] || w.classes["racing_callers"] || w.classes["adoption"] || w.classes["no_alive"] || w.classes["cancelled"] || w.classes["negative_cache_hit"] {
		nt = strings.Join(w.trace, ";")
	}
	vkCase(c13UnitEp, nt, func() any {
		return map[string]any{"endpoints": len(w.eps), "conns": len(w.conns), "calls": len(w.calls), "history": w.tail()}
	}, cl...)
}

func TestC13_Endpoint(t *testing.T) {
	rapid.Check(t, func(rt *rapid.T) {
		c13InBubble(t, func() { c13EndpointCase(rt) })
	})
}

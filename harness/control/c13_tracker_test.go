package control

// C13 (c) — udpConnStateTracker alone, as a rapid state machine against a
// reference-count model: Retain / BeginRelease / FinalizeRelease / Forget on a
// small tuple universe, with Retain and Forget calls parked on an in-flight
// deletion (they run in goroutines of a synctest bubble; synctest.Wait decides
// "blocked"). After every step the tracker's table must equal the model, and
// BeginRelease must hand out exactly the tuples whose last owner just went away.

import (
	"fmt"
	"net/netip"
	"sort"
	"strings"
	"syscall"
	"testing"
	"testing/synctest"

	"pgregory.net/rapid"
)

const c13UnitTracker = "C13.tracker"

type c13TrkEntry struct {
	refs     int
	deleting bool
}

type c13TrkBatch struct {
	rel       []udpConnStateTrackedRelease
	keys      []int
	finalized bool
}

type c13TrkWaiter struct {
	kind string // "retain" | "forget"
	key  int
	done bool
}

// c13TrkOutcomes enumerates the reference counts (0 = entry absent) reachable
// when r parked Retain calls and f parked Forget calls resume in any order on an
// entry that has just been removed.
func c13TrkOutcomes(state, r, f int, out map[int]bool) {
	if r == 0 && f == 0 {
		out[state] = true
		return
	}
	if r > 0 {
		c13TrkOutcomes(state+1, r-1, f, out)
	}
	if f > 0 {
		next := 0
		if state > 1 {
			next = state - 1
		}
		c13TrkOutcomes(next, r, f-1, out)
	}
}

func c13TrackerCase(rt *rapid.T) {
	nKeys := rapid.IntRange(1, 4).Draw(rt, "nKeys")
	keys := make([]bpfTuplesKey, nKeys)
	for i := range keys {
		keys[i] = bpfTuplesKeyFromAddrPorts(
			netip.AddrPortFrom(netip.MustParseAddr("10.13.1.1"), uint16(4000+i)),
			netip.AddrPortFrom(netip.MustParseAddr("192.0.2.13"), 443), uint8(syscall.IPPROTO_UDP))
	}
	idx := map[bpfTuplesKey]int{}
	for i, k := range keys {
		idx[k] = i
	}
	tr := newUdpConnStateTracker()
	model := map[int]*c13TrkEntry{}
	var batches []*c13TrkBatch
	var waiters []*c13TrkWaiter
	classes := map[string]bool{}
	var trace []string
	released := 0

	defer func() {
		// release every parked goroutine before the bubble ends
		for _, b := range batches {
			if !b.finalized {
				tr.FinalizeRelease(b.rel)
			}
		}
		synctest.Wait()
	}()

	drawKeys := func(label string, nonDeleting bool) []int {
		n := rapid.IntRange(1, 3).Draw(rt, label+"_n")
		var ks []int
		for i := 0; i < n; i++ {
			k := rapid.IntRange(0, nKeys-1).Draw(rt, label)
			if nonDeleting {
				if e := model[k]; e != nil && e.deleting {
					continue
				}
			}
			ks = append(ks, k)
		}
		return ks
	}
	toKeys := func(ks []int) []bpfTuplesKey {
		out := make([]bpfTuplesKey, len(ks))
		for i, k := range ks {
			out[i] = keys[k]
		}
		return out
	}
	compare := func(what string) {
		tr.mu.Lock()
		defer tr.mu.Unlock()
		for k, e := range tr.entries {
			i := idx[k]
			m := model[i]
			if m == nil {
				rt.Fatalf("after %s: tracker holds tuple %d (refs=%d deleting=%v) that has no owner\nhistory: %s", what, i, e.refs, e.deleting, strings.Join(trace, " ; "))
			}
			if e.refs != m.refs || e.deleting != m.deleting {
				rt.Fatalf("after %s: tuple %d has refs=%d deleting=%v, model says refs=%d deleting=%v\nhistory: %s", what, i, e.refs, e.deleting, m.refs, m.deleting, strings.Join(trace, " ; "))
			}
		}
		for i, m := range model {
			if _, ok := tr.entries[keys[i]]; !ok {
				rt.Fatalf("after %s: tuple %d (model refs=%d deleting=%v) is missing from the tracker\nhistory: %s", what, i, m.refs, m.deleting, strings.Join(trace, " ; "))
			}
		}
	}
	deletingKeys := func() []int {
		var ks []int
		for k, e := range model {
			if e.deleting {
				ks = append(ks, k)
			}
		}
		sort.Ints(ks)
		return ks
	}

	nOps := rapid.IntRange(4, 60).Draw(rt, "nOps")
	for op := 0; op < nOps; op++ {
		choices := []string{"retain", "retain", "release", "release", "forget"}
		open := []int{}
		closedB := []int{}
		for i, b := range batches {
			if b.finalized {
				closedB = append(closedB, i)
			} else {
				open = append(open, i)
			}
		}
		if len(open) > 0 {
			choices = append(choices, "finalize", "finalize")
			if len(waiters) < 4 {
				choices = append(choices, "parked_retain", "parked_retain", "parked_forget")
			}
		}
		if len(closedB) > 0 {
			choices = append(choices, "refinalize")
		}
		what := rapid.SampledFrom(choices).Draw(rt, "op")
		switch what {
		case "retain":
			ks := drawKeys("k", true)
			trace = append(trace, fmt.Sprintf("Retain%v", ks))
			tr.Retain(toKeys(ks))
			for _, k := range ks {
				if model[k] == nil {
					model[k] = &c13TrkEntry{}
				}
				model[k].refs++
				if model[k].refs > 1 {
					classes["shared_tuple"] = true
				}
			}
		case "forget":
			ks := drawKeys("k", true)
			trace = append(trace, fmt.Sprintf("Forget%v", ks))
			tr.Forget(toKeys(ks))
			for _, k := range ks {
				if e := model[k]; e != nil {
					if e.refs > 1 {
						e.refs--
					} else {
						delete(model, k)
					}
				}
			}
		case "release":
			ks := drawKeys("k", false)
			trace = append(trace, fmt.Sprintf("BeginRelease%v", ks))
			rel := tr.BeginRelease(toKeys(ks))
			var want []int
			for _, k := range ks {
				e := model[k]
				if e == nil || e.deleting {
					continue
				}
				if e.refs > 1 {
					e.refs--
				} else {
					e.refs = 0
					e.deleting = true
					want = append(want, k)
				}
			}
			var got []int
			for _, r := range rel {
				got = append(got, idx[r.key])
			}
			if fmt.Sprint(got) != fmt.Sprint(want) {
				rt.Fatalf("BeginRelease%v handed out tuples %v for deletion, the last owner went away for %v\nhistory: %s", ks, got, want, strings.Join(trace, " ; "))
			}
			if len(rel) > 0 {
				batches = append(batches, &c13TrkBatch{rel: rel, keys: want})
				released += len(rel)
			}
		case "parked_retain", "parked_forget":
			dk := deletingKeys()
			if len(dk) == 0 {
				continue
			}
			k := rapid.SampledFrom(dk).Draw(rt, "pk")
			w := &c13TrkWaiter{kind: strings.TrimPrefix(what, "parked_"), key: k}
			waiters = append(waiters, w)
			trace = append(trace, fmt.Sprintf("go %s[%d]", w.kind, k))
			classes["parked_"+w.kind] = true
			go func() {
				if w.kind == "retain" {
					tr.Retain([]bpfTuplesKey{keys[k]})
				} else {
					tr.Forget([]bpfTuplesKey{keys[k]})
				}
				w.done = true
			}()
			synctest.Wait()
			if w.done {
				rt.Fatalf("%s of tuple %d returned while its kernel deletion was still in flight\nhistory: %s", w.kind, k, strings.Join(trace, " ; "))
			}
		case "finalize":
			bi := rapid.SampledFrom(open).Draw(rt, "batch")
			b := batches[bi]
			trace = append(trace, fmt.Sprintf("Finalize#%d%v", bi, b.keys))
			tr.FinalizeRelease(b.rel)
			b.finalized = true
			synctest.Wait()
			for _, k := range b.keys {
				delete(model, k)
				r, f := 0, 0
				var rest []*c13TrkWaiter
				for _, w := range waiters {
					if w.key != k {
						rest = append(rest, w)
						continue
					}
					if !w.done {
						rt.Fatalf("%s of tuple %d is still blocked after FinalizeRelease\nhistory: %s", w.kind, k, strings.Join(trace, " ; "))
					}
					if w.kind == "retain" {
						r++
					} else {
						f++
					}
				}
				waiters = rest
				if r+f == 0 {
					continue
				}
				poss := map[int]bool{}
				c13TrkOutcomes(0, r, f, poss)
				tr.mu.Lock()
				got := 0
				if e := tr.entries[keys[k]]; e != nil {
					got = e.refs
					if e.deleting {
						got = -1
					}
				}
				tr.mu.Unlock()
				if !poss[got] {
					rt.Fatalf("tuple %d: %d parked Retain and %d parked Forget resumed after the deletion, tracker refs=%d is not reachable (possible %v)\nhistory: %s", k, r, f, got, poss, strings.Join(trace, " ; "))
				}
				if got > 0 {
					model[k] = &c13TrkEntry{refs: got}
					classes["reretained_after_delete"] = true
				}
			}
		case "refinalize":
			// a stale finalize must not remove an entry that was retained again
			bi := rapid.SampledFrom(closedB).Draw(rt, "batch")
			trace = append(trace, fmt.Sprintf("Finalize-again#%d%v", bi, batches[bi].keys))
			tr.FinalizeRelease(batches[bi].rel)
			classes["stale_finalize"] = true
		}
		compare(trace[len(trace)-1])
	}
	for _, b := range batches {
		if !b.finalized {
			tr.FinalizeRelease(b.rel)
			b.finalized = true
		}
	}
	synctest.Wait()
	for _, w := range waiters {
		if !w.done {
			rt.Fatalf("%s of tuple %d never resumed\nhistory: %s", w.kind, w.key, strings.Join(trace, " ; "))
		}
	}
	nt := ""
	if classes["parked_retain"] || classes["parked_forget"] || classes["shared_tuple"] && released > 0 {
		nt = strings.Join(trace, ";")
	}
	cl := []string{}
	for c := range classes {
		cl = append(cl, c)
	}
	sort.Strings(cl)
	vkCase(c13UnitTracker, nt, func() any { return strings.Join(trace, " ; ") }, cl...)
}

func TestC13_Tracker(t *testing.T) {
	rapid.Check(t, func(rt *rapid.T) {
		c13InBubble(t, func() { c13TrackerCase(rt) })
	})
}

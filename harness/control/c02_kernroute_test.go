package control

// C02 — the kernel routing function and the userspace matcher decide identically.
// Generated routing programs (shared_rules_test.go, same generator as C01) go through
// the production path text -> builder; BuildKernspace runs with the verif Kernspace
// sink, so the harness receives exactly the _bpfLpmKey batches, the ring-rewritten
// bpfMatchSets and the active length buildRoutingKernspace would write. They are
// serialised with cilium/ebpf's marshalling rule and loaded into kernsim (real
// tproxy.c). For every generated packet the destination's domain bitmap is installed
// the way the control plane keys it, and the real route() is compared with
// RoutingMatcher.Match. Build mode "real" (production bpf_utils.go encoders).

import (
	"encoding/binary"
	"fmt"
	"net/netip"
	"sort"
	"strings"
	"testing"

	"github.com/daeuniverse/dae/common"
	"github.com/daeuniverse/dae/common/consts"
	"pgregory.net/rapid"
)

type c02Capture struct {
	lpm   []lpmMapResult
	rules []bpfMatchSet
	n     uint32
	used  []uint32
}

// c02BuildKernspace runs the production BuildKernspace of a compiled program with the
// maps replaced by the verif sink.
func c02BuildKernspace(t ksTB, snap *routingKernspaceSnapshot) c02Capture {
	var cp c02Capture
	got := false
	verifSetHooks(&verifHooks{Kernspace: func(lpm []lpmMapResult, kernRules []bpfMatchSet, routingsLen uint32) {
		got = true
		cp.lpm = lpm
		cp.rules = append([]bpfMatchSet(nil), kernRules...)
		cp.n = routingsLen
	}})
	defer verifSetHooks(nil)
	used, err := snap.BuildKernspace(vrLogger(), &bpfObjects{})
	if err != nil {
		t.Fatalf("BuildKernspace failed on a well-formed program: %v", err)
	}
	if !got {
		t.Fatalf("BuildKernspace did not reach the map-writing stage")
	}
	cp.used = used
	return cp
}

// c02Install writes a capture into kernsim the way buildRoutingKernspace writes the maps.
func c02Install(t ksTB, k *ksSim, cp c02Capture) {
	for _, r := range cp.lpm {
		if len(r.keys) != len(r.values) {
			t.Fatalf("lpm batch %d: %d keys, %d values", r.index, len(r.keys), len(r.values))
		}
		keys := make([][]byte, len(r.keys))
		for i := range r.keys {
			keys[i] = ksMarshal(&r.keys[i])
		}
		if ret := k.LpmSlotInstall(r.lpmIndex, keys, r.values); ret != 0 {
			t.Fatalf("kernel rejected LPM batch for lpm_array_map[%d]: %d", r.lpmIndex, ret)
		}
	}
	for i := range cp.rules {
		if ret := k.MapUpdate("routing_map", ksMarshal(uint32(i)), ksMarshal(&cp.rules[i]), 0); ret != 0 {
			t.Fatalf("routing_map[%d] update: %d", i, ret)
		}
	}
	if ret := k.MapUpdate("routing_meta_map", ksMarshal(uint32(0)), ksMarshal(cp.n), 0); ret != 0 {
		t.Fatalf("routing_meta_map update: %d", ret)
	}
}

func c02ProgramClasses(p vrProgram) []string {
	cl := map[string]bool{}
	for _, r := range p.Rules {
		if r.Out.Name == "must_rules" {
			cl["prog_must_rules"] = true
		}
		if len(r.Conds) > 1 {
			cl["prog_and_rule"] = true
		}
		for _, c := range r.Conds {
			cl["fn_"+vrCanonFunc(c.Func)] = true
			if c.Not {
				cl["prog_negation"] = true
			}
		}
	}
	out := make([]string, 0, len(cl))
	for c := range cl {
		out = append(out, c)
	}
	sort.Strings(out)
	return out
}

func c02RuleBacked(p vrProgram, rule int) (lpm, domain bool) {
	if rule < 0 || rule >= len(p.Rules) {
		return
	}
	for _, c := range p.Rules[rule].Conds {
		switch vrCanonFunc(c.Func) {
		case "ip", "sip", "mac":
			lpm = true
		case "domain":
			domain = true
		}
	}
	return
}

// c02RoutePacket evaluates one packet on both sides: installs the destination's domain
// bitmap (keyed and encoded like BatchUpdateDomainRouting), asks RoutingMatcher.Match,
// and calls the real route() with inputs built as its call sites build them.
func c02RoutePacket(t ksTB, k *ksSim, kc map[string]int64, m *RoutingMatcher, pk vrPacket, wan bool, installedp *[]byte, text string) (kret int64, ob consts.OutboundIndex, mark uint32, must bool) {
	installed := *installedp
	defer func() { *installedp = installed }()
	v4 := pk.Dst.Addr().Unmap().Is4()
	dst16, src16 := pk.Dst.Addr().As16(), pk.Src.Addr().As16()
	if installed != nil {
		k.MapDelete("domain_routing_map", installed)
		installed = nil
	}
	// domain bitmap of the destination, keyed and encoded like BatchUpdateDomainRouting
	if pk.Domain != "" {
		bm := m.domainMatcher.MatchDomainBitmap(pk.Domain)
		var val bpfDomainRouting
		if len(bm) != len(val.Bitmap) {
			t.Fatalf("domain bitmap length not sync with kern program: %d vs %d", len(bm), len(val.Bitmap))
		}
		copy(val.Bitmap[:], bm)
		zero := true
		for _, w := range bm {
			zero = zero && w == 0
		}
		if !zero { // syncOwner skips all-zero bitmaps
			key := common.Ipv6ByteSliceToUint32Array(dst16[:])
			installed = ksMarshal(&key)
			if ret := k.MapUpdate("domain_routing_map", installed, ksMarshal(&val), 0); ret != 0 {
				t.Fatalf("domain_routing_map update: %d", ret)
			}
		}
	}

	// userspace
	var uerr error
	ob, mark, must, uerr = vrMatchDirect(m, pk)
	if uerr != nil {
		t.Fatalf("userspace matcher failed: %v\npacket %v\n%s", uerr, pk, text)
	}

	// kernel: route() inputs as the call sites build them
	in := ksRouteIn{NoLog: true, Saddr: src16, Daddr: dst16}
	if pk.L4 == "tcp" {
		in.Flag[0] = uint32(kc["L4ProtoType_TCP"])
	} else {
		in.Flag[0] = uint32(kc["L4ProtoType_UDP"])
	}
	if v4 {
		in.Flag[1] = uint32(kc["IpVersionType_4"])
	} else {
		in.Flag[1] = uint32(kc["IpVersionType_6"])
	}
	for j := 0; j < 4; j++ {
		in.Flag[2+j] = binary.LittleEndian.Uint32(pk.Pname[4*j:]) // __builtin_memcpy(&flag[2], pname, 16)
	}
	in.Flag[6] = uint32(pk.Dscp)
	if wan {
		in.Flag[7] = 1
	}
	copy(in.Mac[10:], pk.Mac[:]) // mac_be = {0, 0, htonl(m0<<8|m1), htonl(m2..m5)}
	in.L4Hdr = c02L4Hdr(pk.Src.Port(), pk.Dst.Port())
	out := k.Route(in)

	return out.Ret, ob, mark, must
}

func c02Check(t *rapid.T, unit string, o vrOpts, npk int) {
	k := ksGet(t)
	k.Reset()
	kc := k.Info().Consts
	maxSets := uint32(consts.MaxMatchSetLen)
	// reload ring: start anywhere (aimed at the wrap), then 0-3 earlier generations whose
	// tries and rules stay behind in the maps, as after hot reloads.
	start := uint32(rapid.OneOf(rapid.SampledFrom([]int{0, 1, 1000, 1018, 1020, 1022, 1023}), rapid.IntRange(0, int(maxSets)-1)).Draw(t, "ring_start"))
	globalNextLpmIndex.Store(start)
	rounds := rapid.IntRange(0, 3).Draw(t, "earlier_generations")
	if o.Sweep {
		rounds = 0
	}
	for i := 0; i < rounds; i++ {
		p0 := vrGenProgram(t, vrOpts{MaxRules: 6, Funcs: []string{"dip", "sip", "mac", "dport", "domain"}})
		c0, err := vrCompile(vrRender(p0), vrCompileOpts{})
		if err != nil {
			t.Fatalf("well-formed routing program rejected: %v\n%s", err, vrRender(p0))
		}
		c02Install(t, k, c02BuildKernspace(t, c0.Builder.KernspaceSnapshot()))
	}
	p := vrGenProgram(t, o)
	text := vrRender(p)
	// production order (control_plane.go): snapshot, BuildKernspace, then BuildUserspace
	c, err := vrCompile(text, vrCompileOpts{})
	if err != nil {
		t.Fatalf("well-formed routing program rejected: %v\n%s", err, text)
	}
	snap := c.Builder.KernspaceSnapshot()
	before := globalNextLpmIndex.Load()
	var cp c02Capture
	var m *RoutingMatcher
	if rapid.Bool().Draw(t, "staged_reload_order") {
		// staged reload (control_plane.go: the retained snapshot is loaded into the kernel
		// after the userspace matcher was built)
		if m, err = c.Builder.BuildUserspace(); err == nil {
			cp = c02BuildKernspace(t, snap)
		}
		vkClass(unit, "order_userspace_then_kernspace")
	} else {
		cp = c02BuildKernspace(t, snap)
		m, err = c.Builder.BuildUserspace()
		vkClass(unit, "order_kernspace_then_userspace")
	}
	if err != nil {
		t.Fatalf("BuildUserspace: %v\n%s", err, text)
	}
	for i := 0; i < p.ExcludedF1; i++ {
		vkExcluded(unit, "F1")
	}
	for i := 0; i < p.ExcludedF2; i++ {
		vkExcluded(unit, "F2")
	}
	c02Install(t, k, cp)
	vkClass(unit, c02ProgramClasses(p)...)
	if len(cp.lpm) > 0 && before+uint32(len(cp.lpm)) > maxSets {
		vkClass(unit, "ring_wrapped")
	}
	if rounds > 0 {
		vkClass(unit, "after_reloads")
	}
	// the slots the rules reference are slots this generation wrote
	own := map[uint32]bool{}
	for _, r := range cp.lpm {
		own[r.lpmIndex] = true
	}
	for i, r := range cp.rules {
		switch consts.MatchType(r.Type) {
		case consts.MatchType_IpSet, consts.MatchType_SourceIpSet, consts.MatchType_Mac:
			if idx := binary.LittleEndian.Uint32(r.Value[:4]); !own[idx] {
				t.Fatalf("kernel rule %d references lpm_array_map[%d], which this BuildKernspace did not write (own slots %v)\n%s", i, idx, cp.used, text)
			}
		}
	}
	if int(cp.n) != len(m.compiledMatches) {
		t.Fatalf("kernel program has %d match sets, userspace matcher %d\n%s", cp.n, len(m.compiledMatches), text)
	}
	switch {
	case cp.n > 992:
		vkClass(unit, "sets_gt992")
	case cp.n > 64:
		vkClass(unit, "sets_65_992")
	case cp.n > 32:
		vkClass(unit, "sets_33_64")
	}

	seeds := vrDomainSeeds(p)
	var installed []byte
	for i := 0; i < npk; i++ {
		pk := vrGenPacketSeeds(t, p, seeds)
		// one frame has one address family: the destination's
		if v4 := pk.Dst.Addr().Unmap().Is4(); pk.Src.Addr().Unmap().Is4() != v4 {
			if v4 {
				pk.Src = netip.AddrPortFrom(netip.AddrFrom4([4]byte{10, 1, 2, 3}), pk.Src.Port())
			} else {
				pk.Src = netip.AddrPortFrom(netip.MustParseAddr("2001:db8::1"), pk.Src.Port())
			}
			vkClass(unit, "pk_family_coerced")
		}
		if rapid.IntRange(0, 5).Draw(t, "dns53") == 0 {
			pk.Dst = netip.AddrPortFrom(pk.Dst.Addr(), 53)
		}
		wan := rapid.Bool().Draw(t, "wan")
		if !wan {
			pk.Pname = [16]byte{} // LAN packets carry no process name
		}

		kret, ob, mark, must := c02RoutePacket(t, k, kc, m, pk, wan, &installed, text)
		if kret < 0 {
			t.Fatalf("kernel route() returned %d\npacket %v wan=%v\n--- config ---\n%s", kret, pk, wan, text)
		}
		v4 := pk.Dst.Addr().Unmap().Is4()
		kob, kmark, kmust := ksRouteDecode(kret)
		wob, wmark, wmust := uint8(ob), mark, must
		dns := pk.Dst.Port() == 53
		if dns && !must {
			// the only intended difference: DNS not covered by a must rule is handed to the
			// control plane, with the matched rule's mark
			wob, wmust = uint8(kc["OUTBOUND_CONTROL_PLANE_ROUTING"]), false
		}
		if kob != wob || kmark != wmark || kmust != wmust {
			t.Fatalf("kernel route() = (outbound %d, mark %d, must %v), userspace matcher = (outbound %d %s, mark %d, must %v)%s\npacket %v wan=%v\n--- config ---\n%s--- written rule list says ---\n%v",
				kob, kmark, kmust, ob, c.Id2Name[uint8(ob)], mark, must, map[bool]string{true: " [dport 53: expected control-plane routing unless must]", false: ""}[dns], pk, wan, text, vrInterpret(p, pk))
		}
		want := vrInterpret(p, pk)
		cls := []string{}
		nt := ""
		lpmB, domB := c02RuleBacked(p, want.Rule)
		if want.Rule >= 0 && (lpmB || domB) || dns {
			nt = text + "\x00" + pk.String() + fmt.Sprint(wan)
			cls = append(cls, "nontrivial")
		}
		if lpmB {
			cls = append(cls, "pk_decided_by_lpm_backed_rule")
		}
		if domB {
			cls = append(cls, "pk_decided_by_domain_rule")
		}
		if dns {
			cls = append(cls, "pk_port53")
			if must {
				cls = append(cls, "pk_port53_must")
			}
		}
		if want.Rule < 0 {
			cls = append(cls, "pk_fallback")
		}
		if wan {
			cls = append(cls, "pk_wan")
		} else {
			cls = append(cls, "pk_lan")
		}
		if v4 {
			cls = append(cls, "pk_v4")
		} else {
			cls = append(cls, "pk_v6")
		}
		if mark != 0 {
			cls = append(cls, "pk_mark")
		}
		if must {
			cls = append(cls, "pk_must")
		}
		if installed != nil {
			cls = append(cls, "pk_domain_bitmap_installed")
		}
		vkCase(unit, nt, func() any {
			return map[string]any{"config": strings.TrimSpace(text), "packet": pk.String(), "wan": wan,
				"decision": fmt.Sprintf("outbound=%d mark=%d must=%v", kob, kmark, kmust), "match_sets": cp.n, "lpm_slots": cp.used}
		}, cls...)
	}
}

func c02L4Hdr(sport, dport uint16) []byte {
	h := make([]byte, 20)
	binary.BigEndian.PutUint16(h[0:], sport)
	binary.BigEndian.PutUint16(h[2:], dport)
	return h
}

func TestC02_KernRoute(t *testing.T) {
	npk := 16
	if vkThorough() {
		npk = 32
	}
	rapid.Check(t, func(t *rapid.T) { c02Check(t, "C02.route", vrOpts{}, npk) })
}

// Size sweep: ~1000-1024 match sets (bitmap word boundaries, bpf_loop bound).
func TestC02_SizeSweep(t *testing.T) {
	rapid.Check(t, func(t *rapid.T) { c02Check(t, "C02.sweep", vrOpts{Sweep: true}, 24) })
}

// F2 (pkg/trie Prefix2bin128: a zero-length IPv6 prefix matches only "::" in the
// userspace trie) shows here as a kernel/userspace disagreement: the kernel LPM trie
// handles ::/0 correctly. While F2 is listed as known the generator avoids the shape;
// once it is fixed this test demands agreement.
func TestC02_Finding_F2(t *testing.T) {
	k := ksGet(t)
	k.Reset()
	kc := k.Info().Consts
	globalNextLpmIndex.Store(0)
	p := vrProgram{
		Groups:      []string{"g0"},
		Rules:       []vrRule{{Conds: []vrCond{{Func: "dip", Vals: []vrValue{{Val: "::/0", Quote: '\''}}}}, Out: vrOutbound{Name: "block"}}},
		Fallback:    vrOutbound{Name: "direct"},
		FallbackPos: 1,
	}
	text := vrRender(p)
	c, err := vrCompile(text, vrCompileOpts{})
	if err != nil {
		t.Fatalf("build: %v", err)
	}
	cp := c02BuildKernspace(t, c.Builder.KernspaceSnapshot())
	m, err := c.Builder.BuildUserspace()
	if err != nil {
		t.Fatalf("BuildUserspace: %v", err)
	}
	c02Install(t, k, cp)
	var installed []byte
	bad := []string{}
	for _, a := range []string{"2001:db8::1", "::1", "ffff::", "::"} {
		pk := vrPacket{Src: netip.MustParseAddrPort("[fe80::1]:1000"), Dst: netip.AddrPortFrom(netip.MustParseAddr(a), 443), L4: "tcp"}
		kret, ob, mark, must := c02RoutePacket(t, k, kc, m, pk, false, &installed, text)
		if kret < 0 {
			t.Fatalf("kernel route() returned %d", kret)
		}
		kob, kmark, kmust := ksRouteDecode(kret)
		if kob != uint8(kc["OUTBOUND_BLOCK"]) {
			t.Fatalf("kernel: dip('::/0') -> block did not match %s (outbound %d)", a, kob)
		}
		if kob != uint8(ob) || kmark != mark || kmust != must {
			bad = append(bad, fmt.Sprintf("dst %s: kernel outbound %d, userspace outbound %d", a, kob, ob))
		}
	}
	if vkKnown("F2") {
		if len(bad) > 0 {
			vkKnownReproduced("F2")
			t.Logf("known finding F2 still reproduces as a kernel/userspace split: %v", bad)
		} else {
			t.Logf("known finding F2 no longer reproduces")
		}
		vkCase("C02.finding_f2", "f2-known", nil)
		return
	}
	if len(bad) > 0 {
		t.Fatalf("dip('::/0') -> block: kernel and userspace disagree (F2): %v", bad)
	}
	vkCase("C02.finding_f2", "f2", nil)
}

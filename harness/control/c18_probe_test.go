package control

// C18 unit "probe": same table, but the "verified" / "negatively cached" knowledge
// is produced by the production path: ChooseDialTarget -> triggerRealDomainProbe ->
// singleflight -> probeAndUpdateRealDomain -> (stubbed) bootstrap resolver, inside
// the bubble; the negative cache ages with the virtual clock (10 s).

import (
	"net/netip"
	"strings"
	"testing"
	"testing/synctest"
	"time"

	"github.com/daeuniverse/dae/common/consts"
	"pgregory.net/rapid"
)

const c18UnitProbe = "C18.probe"

// c18AbsorbProbes folds the probes that ran since `from` into the model, exactly
// as probeAndUpdateRealDomain is specified to cache them.
func (w *c18World) c18AbsorbProbes(from int, at time.Time) {
	for _, host := range w.probeCalls[from:] {
		if containsAnyC18(host) {
			continue // stub fails both families: nothing is cached
		}
		truth, ok := w.probeTruth[c18BareName(host)]
		if !ok {
			truth = "ee"
		}
		if w.resolver2.IsValid() && !strings.Contains(truth, "r") {
			// the bootstrap resolvers are asked in order until one has a record: a name
			// the first one does not know (or fails on) is decided by the second
			t2, ok2 := w.probeTruth2[c18BareName(host)]
			if !ok2 {
				t2 = "ee"
			}
			switch {
			case strings.Contains(t2, "r"):
				truth = t2
				vkClass(c18UnitProbe, "probe_decided_by_second_resolver")
			case truth == "ee":
				truth = t2 // first failed outright: whatever the second says
			case truth == "nn" && t2 != "nn":
				truth = "ne" // not a clean double no-record any more: no negative-cache claim
			}
		}
		switch {
		case strings.Contains(truth, "r") && !strings.Contains(truth, "e"):
			// a record and no failure: the name is verified
			w.verified[host] = true
			delete(w.neg, host)
			vkClass(c18UnitProbe, "probe_outcome_record_"+truth)
		case strings.Contains(truth, "r"):
			// a record from one family, the other lookup failed: either
			w.maybeVerified[host] = true
			delete(w.neg, host)
			vkClass(c18UnitProbe, "probe_outcome_record_"+truth)
		case truth == "ee":
			vkClass(c18UnitProbe, "probe_outcome_failed")
		default:
			// no record from either family ("nn", or half-failed "ne"/"en"): never
			// verified. Whether it is negatively cached does not matter for the
			// target (the destination either way); the model notes it for "nn".
			if truth == "nn" {
				w.neg[host] = at.Add(realDomainNegativeCacheTTL)
			}
			vkClass(c18UnitProbe, "probe_outcome_norecord_"+truth)
		}
	}
}

func containsAnyC18(host string) bool {
	for i := 0; i < len(host); i++ {
		switch host[i] {
		case ':', '[', ']', ' ':
			return true
		}
	}
	return false
}

func TestC18_Probe(t *testing.T) {
	saved := resolveIp46ForRealDomainProbe
	defer func() { resolveIp46ForRealDomainProbe = saved }()
	rapid.Check(t, func(rt *rapid.T) {
		c18Bubble(t, func(cleanup *[]func()) {
			resolvers := []netip.AddrPort{netip.MustParseAddrPort("192.0.2.53:53")}
			two := rapid.Bool().Draw(rt, "two_bootstrap_resolvers")
			if two {
				resolvers = append(resolvers, netip.MustParseAddrPort("192.0.2.54:53"))
			}
			w := c18NewWorld(consts.DialMode_Domain, resolvers, false)
			if two {
				w.resolver2 = resolvers[1]
				vkClass(c18UnitProbe, "two_bootstrap_resolvers")
			}
			*cleanup = append(*cleanup, func() { w.close(); resolveIp46ForRealDomainProbe = saved })
			resolveIp46ForRealDomainProbe = w.c18StubResolver()
			for _, n := range c18PoolNames {
				w.probeTruth[n] = rapid.SampledFrom(c18ProbeOutcomes).Draw(rt, "truth")
				if two {
					w.probeTruth2[n] = rapid.SampledFrom(c18ProbeOutcomes).Draw(rt, "truth2")
				}
			}
			ctr := 0
			nops := rapid.IntRange(20, 50).Draw(rt, "nops")
			for i := 0; i < nops; i++ {
				switch k := rapid.IntRange(0, 99).Draw(rt, "op"); {
				case k < 70:
					q := c18GenQuery(rt, c18PoolNames, w.focus, &ctr, k >= 62)
					if rapid.IntRange(0, 2).Draw(rt, "force_domain") < 2 {
						q.Mode = consts.DialMode_Domain
					}
					before := len(w.probeCalls)
					at := time.Now()
					w.c18Ask(rt, c18UnitProbe, q)
					synctest.Wait()
					if time.Now() != at {
						rt.Fatalf("harness: virtual clock moved during a probe")
					}
					if len(w.probeCalls) > before {
						vkClass(c18UnitProbe, "probe_ran")
					}
					w.c18AbsorbProbes(before, at)
				case k < 85:
					d := time.Duration(rapid.SampledFrom([]int{1, 5, 9, 10, 11, 20, 31, 60, 300}).Draw(rt, "sleep_s")) * time.Second
					if rapid.IntRange(0, 5).Draw(rt, "nudge") == 0 {
						d += rapid.SampledFrom([]time.Duration{-1, 1}).Draw(rt, "nudge_ns")
					}
					time.Sleep(d)
				case k < 93:
					in := c18GenInsert(rt, c18PoolNames)
					if err := w.insert(in); err != nil {
						rt.Fatalf("production cache insert failed for %+v: %v", in, err)
					}
				default:
					n := rapid.SampledFrom(c18PoolNames).Draw(rt, "truth_name")
					if two && rapid.Bool().Draw(rt, "at_second_resolver") {
						w.probeTruth2[n] = rapid.SampledFrom(c18ProbeOutcomes).Draw(rt, "truth")
					} else {
						w.probeTruth[n] = rapid.SampledFrom(c18ProbeOutcomes).Draw(rt, "truth")
					}
					vkClass(c18UnitProbe, "op_truth_change")
				}
			}
		})
	})
}

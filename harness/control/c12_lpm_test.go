package control

// C12 — address sets match by CIDR containment, kernel key form and builder half.
// Built in mode "real": the production control/bpf_utils.go (cidrToBpfLpmKey) is
// compiled.
//
//   - TestC12_LpmKeys: the _bpfLpmKey values cidrToBpfLpmKey emits for a generated
//     prefix set (or MAC set) are loaded, as the raw bytes the kernel would see, into a
//     Go transcription of kernel/bpf/lpm_trie.c and queried with the /128 key route()
//     builds; answer must equal containment and the userspace trie's answer.
//   - TestC12_Builder: rules with ip()/sip()/mac() conditions through
//     NewRoutingMatcherBuilder: every condition's LPM index denotes exactly its own
//     address set (so two conditions share an index only if their sets are equal), in
//     simulatedLpmTries and in the keys handed to the kernel (Kernspace hook, ring
//     index rewrite included); RoutingMatcher.Match outcomes follow containment.
//   - TestC12_DedupCollision: the dedup map is pre-seeded with a colliding hash.
//   - TestC12_Finding_F2: `::/0` at rule level.

import (
	"encoding/binary"
	"fmt"
	"io"
	"math/bits"
	"net/netip"
	"sort"
	"strings"
	"testing"
	"unsafe"

	"github.com/daeuniverse/dae/common/consts"
	"github.com/daeuniverse/dae/component/routing"
	"github.com/daeuniverse/dae/pkg/config_parser"
	"github.com/daeuniverse/dae/pkg/trie"
	"github.com/sirupsen/logrus"
	"pgregory.net/rapid"
)

// ---------------------------------------------------------------- kernel LPM trie
//
// Transcription of kernel/bpf/lpm_trie.c (trie_update_elem / trie_lookup_elem /
// longest_prefix_match / extract_bit) for data_size = 16, max_prefixlen = 128. Keys
// are the raw 20 bytes of struct lpm_key { __u32 prefixlen; __be32 data[4]; }.

const c12KeySize = 20 // sizeof(struct lpm_key) in control/kern/tproxy.c
const c12MaxPrefixLen = 128

type c12KNode struct {
	child     [2]*c12KNode
	prefixlen uint32
	im        bool // LPM_TREE_NODE_FLAG_IM
	data      [16]byte
}

type c12KTrie struct {
	root *c12KNode
	n    int
}

func c12ExtractBit(data []byte, index uint32) int {
	if data[index/8]&(1<<(7-(index%8))) != 0 {
		return 1
	}
	return 0
}

func c12LongestPrefixMatch(node *c12KNode, keyPrefixlen uint32, keyData []byte) uint32 {
	limit := node.prefixlen
	if keyPrefixlen < limit {
		limit = keyPrefixlen
	}
	var prefixlen uint32
	for i := 0; i < 16; i++ {
		b := node.data[i] ^ keyData[i]
		prefixlen += uint32(8 - bits.Len8(b)) // 8 - fls(b)
		if prefixlen >= limit {
			return limit
		}
		if b != 0 {
			break
		}
	}
	return prefixlen
}

// update = trie_update_elem(BPF_ANY). Returns an error where the kernel returns one.
func (tr *c12KTrie) update(raw [c12KeySize]byte) error {
	keyPrefixlen := binary.NativeEndian.Uint32(raw[:4])
	keyData := raw[4:]
	if keyPrefixlen > c12MaxPrefixLen {
		return fmt.Errorf("EINVAL: prefixlen %d > max_prefixlen %d", keyPrefixlen, c12MaxPrefixLen)
	}
	newNode := &c12KNode{prefixlen: keyPrefixlen}
	copy(newNode.data[:], keyData)
	slot := &tr.root
	var node *c12KNode
	var matchlen uint32
	for {
		node = *slot
		if node == nil {
			break
		}
		matchlen = c12LongestPrefixMatch(node, keyPrefixlen, keyData)
		if node.prefixlen != matchlen || node.prefixlen == keyPrefixlen {
			break
		}
		slot = &node.child[c12ExtractBit(keyData, node.prefixlen)]
	}
	if node == nil {
		*slot = newNode
		tr.n++
		return nil
	}
	if node.prefixlen == matchlen {
		// exact replacement
		if node.im {
			tr.n++
		}
		newNode.child = node.child
		*slot = newNode
		return nil
	}
	tr.n++
	if matchlen == keyPrefixlen {
		// the new node becomes an ancestor of node
		newNode.child[c12ExtractBit(node.data[:], matchlen)] = node
		*slot = newNode
		return nil
	}
	im := &c12KNode{prefixlen: matchlen, im: true, data: node.data}
	if c12ExtractBit(keyData, matchlen) == 1 {
		im.child[0], im.child[1] = node, newNode
	} else {
		im.child[0], im.child[1] = newNode, node
	}
	*slot = im
	return nil
}

// lookup = trie_lookup_elem. found=false ⇔ NULL.
func (tr *c12KTrie) lookup(raw [c12KeySize]byte) (found bool, foundLen uint32) {
	keyPrefixlen := binary.NativeEndian.Uint32(raw[:4])
	keyData := raw[4:]
	if keyPrefixlen > c12MaxPrefixLen {
		return false, 0
	}
	var hit *c12KNode
	for node := tr.root; node != nil; {
		matchlen := c12LongestPrefixMatch(node, keyPrefixlen, keyData)
		if matchlen == c12MaxPrefixLen {
			hit = node
			break
		}
		if matchlen < node.prefixlen {
			break
		}
		if !node.im {
			hit = node
		}
		node = node.child[c12ExtractBit(keyData, node.prefixlen)]
	}
	if hit == nil {
		return false, 0
	}
	return true, hit.prefixlen
}

// c12KSpec: the documented semantics stated independently — entries are
// (prefixlen, first prefixlen bits of data); a lookup returns the entry with the
// longest prefixlen ≤ key.prefixlen whose bits equal the key's leading bits.
type c12KSpec map[string]bool

func c12SpecKey(prefixlen uint32, data []byte) string {
	var sb strings.Builder
	for i := uint32(0); i < prefixlen; i++ {
		sb.WriteByte('0' + byte(c12ExtractBit(data, i)))
	}
	return sb.String()
}

func (s c12KSpec) update(raw [c12KeySize]byte) {
	s[c12SpecKey(binary.NativeEndian.Uint32(raw[:4]), raw[4:])] = true
}

func (s c12KSpec) lookup(raw [c12KeySize]byte) (bool, uint32) {
	pl := binary.NativeEndian.Uint32(raw[:4])
	full := c12SpecKey(pl, raw[4:])
	for l := int(pl); l >= 0; l-- {
		if s[full[:l]] {
			return true, uint32(l)
		}
	}
	return false, 0
}

// c12Kern bundles both models; they must always agree (harness self-check).
type c12Kern struct {
	lit  c12KTrie
	spec c12KSpec
}

func c12NewKern() *c12Kern { return &c12Kern{spec: c12KSpec{}} }

// c12RawKey: the bytes the bpf(2) syscall would copy for this Go value.
func c12RawKey(k _bpfLpmKey) (raw [c12KeySize]byte, err error) {
	if unsafe.Sizeof(k) != c12KeySize {
		return raw, fmt.Errorf("sizeof(_bpfLpmKey) = %d, kernel key_size = sizeof(struct lpm_key) = %d", unsafe.Sizeof(k), c12KeySize)
	}
	copy(raw[:], (*[c12KeySize]byte)(unsafe.Pointer(&k))[:])
	return raw, nil
}

func (k *c12Kern) load(keys []_bpfLpmKey) error {
	for _, key := range keys {
		raw, err := c12RawKey(key)
		if err != nil {
			return err
		}
		if err := k.lit.update(raw); err != nil {
			return fmt.Errorf("kernel would reject key %+v: %v", key, err)
		}
		k.spec.update(raw)
	}
	if k.lit.n != len(k.spec) {
		panic(fmt.Sprintf("c12 harness bug: kernel trie transcription holds %d entries, spec model %d", k.lit.n, len(k.spec)))
	}
	return nil
}

// query builds the key as route() does: prefixlen = 128, data = memcpy of the 16
// address bytes (network order; IPv4 as ::ffff:a.b.c.d; MAC in bytes 10..15).
func (k *c12Kern) query(a [16]byte) bool {
	var raw [c12KeySize]byte
	binary.NativeEndian.PutUint32(raw[:4], 128)
	copy(raw[4:], a[:])
	f1, l1 := k.lit.lookup(raw)
	f2, l2 := k.spec.lookup(raw)
	if f1 != f2 || l1 != l2 {
		panic(fmt.Sprintf("c12 harness bug: kernel trie transcription (%v,/%d) and spec model (%v,/%d) disagree for %x", f1, l1, f2, l2, a))
	}
	return f1
}

// ---------------------------------------------------------------- helpers

func c12Log() *logrus.Logger {
	l := logrus.New()
	l.SetOutput(io.Discard)
	return l
}

func c12HasV6Len0(set []netip.Prefix) bool {
	for _, p := range set {
		if !p.Addr().Is4() && p.Bits() == 0 {
			return true
		}
	}
	return false
}

func c12Mac16(m [6]byte) (a [16]byte) {
	copy(a[10:], m[:])
	return a
}

func c12MacPrefix(m [6]byte) netip.Prefix {
	return netip.PrefixFrom(netip.AddrFrom16(c12Mac16(m)), 128)
}

func c12MacString(m [6]byte) string {
	return fmt.Sprintf("%02x:%02x:%02x:%02x:%02x:%02x", m[0], m[1], m[2], m[3], m[4], m[5])
}

func c12GenMac(t *rapid.T, pool [][6]byte) [6]byte {
	if len(pool) > 0 && rapid.IntRange(0, 2).Draw(t, "macnear") > 0 {
		m := rapid.SampledFrom(pool).Draw(t, "macbase")
		switch rapid.IntRange(0, 3).Draw(t, "macvary") {
		case 0:
			return m
		case 1:
			i := rapid.IntRange(0, 47).Draw(t, "macflip")
			m[i/8] ^= 1 << (7 - uint(i%8))
			return m
		case 2:
			a, _ := c12Inc(c12Mac16(m))
			copy(m[:], a[10:])
			return m
		default:
			a, _ := c12Dec(c12Mac16(m))
			copy(m[:], a[10:])
			return m
		}
	}
	if rapid.IntRange(0, 5).Draw(t, "macspecial") == 0 {
		return rapid.SampledFrom([][6]byte{{}, {0xff, 0xff, 0xff, 0xff, 0xff, 0xff}, {0, 0, 0, 0, 0, 1}, {0x80, 0, 0, 0, 0, 0}}).Draw(t, "macsp")
	}
	var m [6]byte
	copy(m[:], rapid.SliceOfN(rapid.Byte(), 6, 6).Draw(t, "macraw"))
	return m
}

// ---------------------------------------------------------------- aggregated sets
//
// Two prefix lists denote the same address set iff their aggregated forms (covered
// prefixes removed, sibling pairs merged, repeated to a fixed point) are equal.

type c12NP struct {
	n int
	a [16]byte
}

func c12Norm(p netip.Prefix) c12NP {
	q := c12As6(p)
	return c12NP{q.Bits(), q.Addr().As16()}
}

func c12Agg(set []netip.Prefix) string {
	cur := map[c12NP]bool{}
	for _, p := range set {
		cur[c12Norm(p)] = true
	}
	covers := func(x, y c12NP) bool { // x ⊋ y
		if x.n >= y.n {
			return false
		}
		for i := 0; i < x.n; i++ {
			if c12BitAt(x.a, i) != c12BitAt(y.a, i) {
				return false
			}
		}
		return true
	}
	for changed := true; changed; {
		changed = false
		for y := range cur {
			for x := range cur {
				if covers(x, y) {
					delete(cur, y)
					changed = true
					break
				}
			}
		}
		for x := range cur {
			if x.n == 0 || !cur[x] {
				continue
			}
			sib := x
			sib.a[(x.n-1)/8] ^= 1 << (7 - uint((x.n-1)%8))
			if cur[sib] {
				delete(cur, x)
				delete(cur, sib)
				par := x
				par.n = x.n - 1
				par.a[(x.n-1)/8] &^= 1 << (7 - uint((x.n-1)%8))
				cur[par] = true
				changed = true
			}
		}
	}
	out := make([]string, 0, len(cur))
	for x := range cur {
		out = append(out, fmt.Sprintf("%x/%d", x.a, x.n))
	}
	sort.Strings(out)
	return strings.Join(out, ",")
}

// ---------------------------------------------------------------- unit: lpmkeys

func TestC12_LpmKeys(t *testing.T) {
	known := vkKnown("F2")
	rapid.Check(t, func(t *rapid.T) {
		g := c12NewGen(t, false) // `::/0` stays in: the kernel key form handles it
		var set []netip.Prefix
		var probes [][16]byte
		nb := 0
		isMac := rapid.IntRange(0, 5).Draw(t, "macset") == 0
		if isMac {
			// exactly the prefixes addSourceMac builds
			var pool [][6]byte
			n := rapid.IntRange(1, 8).Draw(t, "nmac")
			for i := 0; i < n; i++ {
				m := c12GenMac(t, pool)
				pool = append(pool, m)
				set = append(set, c12MacPrefix(m))
			}
			np := rapid.IntRange(4, 16).Draw(t, "nmacprobes")
			for i := 0; i < np; i++ {
				probes = append(probes, c12Mac16(c12GenMac(t, pool)))
			}
			nb = len(probes)
		} else {
			maxN := 12
			if rapid.IntRange(0, 4).Draw(t, "big") == 0 {
				maxN = 30
			}
			if vkThorough() && rapid.IntRange(0, 99).Draw(t, "huge") == 0 {
				maxN = 300
			}
			set = g.set(t, maxN)
			probes, nb = g.probes(t, set, rapid.IntRange(4, 12).Draw(t, "nrand"))
		}

		keys := make([]_bpfLpmKey, len(set))
		for i, p := range set {
			keys[i] = cidrToBpfLpmKey(p)
		}
		kern := c12NewKern()
		if err := kern.load(keys); err != nil {
			t.Fatalf("set %v: %v", set, err)
		}
		// insertion order must not matter to the kernel trie either.
		kern2 := c12NewKern()
		permKeys := rapid.Permutation(keys).Draw(t, "permkeys")
		if err := kern2.load(permKeys); err != nil {
			t.Fatalf("set %v (permuted): %v", set, err)
		}

		userOK := !(known && c12HasV6Len0(set))
		var ut *trie.Trie
		if userOK {
			var err error
			if ut, err = trie.NewTrieFromPrefixes(set); err != nil {
				t.Fatalf("NewTrieFromPrefixes(%v): %v", set, err)
			}
		} else {
			vkExcluded("C12.lpmkeys", "F2")
		}

		hit, miss := 0, 0
		for _, a16 := range probes {
			a := netip.AddrFrom16(a16)
			want := c12SetContains(set, a)
			if got := kern.query(a16); got != want {
				t.Fatalf("set %v probe %v: kernel LPM lookup over the emitted keys = %v, containment = %v\nkeys=%+v", set, a, got, want, keys)
			}
			if got := kern2.query(a16); got != want {
				t.Fatalf("set %v probe %v: kernel LPM lookup (permuted insertion) = %v, containment = %v", set, a, got, want)
			}
			if userOK {
				if got := ut.HasPrefix(trie.Prefix2bin128(netip.PrefixFrom(a, 128))); got != want {
					t.Fatalf("set %v probe %v: userspace trie = %v, kernel keys/containment = %v", set, a, got, want)
				}
			}
			if want {
				hit++
			} else {
				miss++
			}
		}
		cl := c12SetClasses(set)
		if isMac {
			cl = append(cl, "mac_set")
		}
		key := ""
		if hit > 0 && miss > 0 && nb > 0 {
			key = c12SetKey(set)
			cl = append(cl, "hit_and_miss")
		}
		vkCase("C12.lpmkeys", key, func() any {
			return map[string]any{"set": c12SetKey(set), "probes": len(probes), "hit": hit, "miss": miss}
		}, cl...)
	})
}

// ---------------------------------------------------------------- unit: builder

type c12Cond struct {
	Fn   string // "ip" (destination), "sip", "mac"
	Not  bool
	Set  []netip.Prefix
	Macs [][6]byte
	Base int // which base set it was derived from (-1 for mac)
	How  string
}

func (c c12Cond) prefixes() []netip.Prefix {
	if c.Fn != "mac" {
		return c.Set
	}
	out := make([]netip.Prefix, len(c.Macs))
	for i, m := range c.Macs {
		out[i] = c12MacPrefix(m)
	}
	return out
}

// holds evaluates the condition literally; judged=false where the statement is
// silent (zero MAC against a negated mac()).
func (c c12Cond) holds(src, dst, mac [16]byte) (val bool, judged bool) {
	var in bool
	switch c.Fn {
	case "ip":
		in = c12SetContains(c.Set, netip.AddrFrom16(dst))
	case "sip":
		in = c12SetContains(c.Set, netip.AddrFrom16(src))
	default:
		if c.Not && mac == [16]byte{} {
			return false, false
		}
		in = c12SetContains(c.prefixes(), netip.AddrFrom16(mac))
	}
	return in != c.Not, true
}

func (c c12Cond) function() *config_parser.Function {
	f := &config_parser.Function{Name: c.Fn, Not: c.Not}
	if c.Fn == "mac" {
		for _, m := range c.Macs {
			f.Params = append(f.Params, &config_parser.Param{Val: c12MacString(m)})
		}
		return f
	}
	for _, p := range c.Set {
		s := p.String()
		// host routes may be written without a length, as users do
		if a16 := p.Addr().As16(); p.Bits() == p.Addr().BitLen() && a16[15]%2 == 0 {
			s = p.Addr().String()
		}
		f.Params = append(f.Params, &config_parser.Param{Val: s})
	}
	return f
}

func (c c12Cond) String() string {
	n := ""
	if c.Not {
		n = "!"
	}
	if c.Fn == "mac" {
		ms := make([]string, len(c.Macs))
		for i, m := range c.Macs {
			ms[i] = c12MacString(m)
		}
		return n + "mac(" + strings.Join(ms, ",") + ")"
	}
	ss := make([]string, len(c.Set))
	for i, p := range c.Set {
		ss[i] = p.String()
	}
	return n + c.Fn + "(" + strings.Join(ss, ",") + ")"
}

type c12RuleT struct {
	Conds []c12Cond
	Out   string
}

// c12Variant derives a condition's set from a base set: equal, permuted, with
// duplicates, or with one edit that changes the denoted addresses.
func c12Variant(t *rapid.T, g *c12Gen, base []netip.Prefix) ([]netip.Prefix, string) {
	s := append([]netip.Prefix(nil), base...)
	switch rapid.IntRange(0, 8).Draw(t, "variant") {
	case 0:
		return s, "same"
	case 1:
		return rapid.Permutation(s).Draw(t, "vperm"), "permuted"
	case 2:
		s = append(s, rapid.SampledFrom(s).Draw(t, "vdup"))
		return rapid.Permutation(s).Draw(t, "vperm"), "dup+permuted"
	case 3:
		if len(s) > 1 {
			i := rapid.IntRange(0, len(s)-1).Draw(t, "vdrop")
			return append(s[:i:i], s[i+1:]...), "dropped one"
		}
		return s, "same"
	case 4:
		return append(s, g.prefix(t)), "added one"
	case 5: // length of one prefix ± 1
		i := rapid.IntRange(0, len(s)-1).Draw(t, "vi")
		p := s[i]
		n := p.Bits() + rapid.SampledFrom([]int{-1, 1}).Draw(t, "vdelta")
		if n < 0 || n > p.Addr().BitLen() {
			return s, "same"
		}
		if g.noV60 && n == 0 && !p.Addr().Is4() {
			return s, "same"
		}
		s[i] = netip.PrefixFrom(p.Addr(), n)
		return s, "len±1"
	case 6: // same prefix with other host bits: same addresses, other value
		i := rapid.IntRange(0, len(s)-1).Draw(t, "vi")
		s[i] = s[i].Masked()
		return s, "masked one"
	case 7: // the IPv4 prefix written as v4-mapped IPv6 (same addresses)
		i := rapid.IntRange(0, len(s)-1).Draw(t, "vi")
		if s[i].Addr().Is4() {
			s[i] = netip.PrefixFrom(netip.AddrFrom16(s[i].Addr().As16()), s[i].Bits()+96)
			return s, "v4 as mapped literal"
		}
		return s, "same"
	default: // flip the last significant bit of one prefix: sibling
		i := rapid.IntRange(0, len(s)-1).Draw(t, "vi")
		p := s[i]
		if p.Bits() == 0 {
			return s, "same"
		}
		if p.Addr().Is4() {
			a := p.Addr().As4()
			a[(p.Bits()-1)/8] ^= 1 << (7 - uint((p.Bits()-1)%8))
			s[i] = netip.PrefixFrom(netip.AddrFrom4(a), p.Bits())
		} else {
			a := p.Addr().As16()
			a[(p.Bits()-1)/8] ^= 1 << (7 - uint((p.Bits()-1)%8))
			s[i] = netip.PrefixFrom(netip.AddrFrom16(a), p.Bits())
		}
		return s, "sibling"
	}
}

func c12GenRules(t *rapid.T, g *c12Gen) (rules []c12RuleT, bases [][]netip.Prefix, macPool [][6]byte) {
	nb := rapid.IntRange(1, 3).Draw(t, "nbasesets")
	for i := 0; i < nb; i++ {
		bases = append(bases, g.set(t, rapid.SampledFrom([]int{1, 2, 4, 8, 30}).Draw(t, "basemax")))
	}
	nr := rapid.IntRange(1, 8).Draw(t, "nrules")
	for r := 0; r < nr; r++ {
		rule := c12RuleT{Out: fmt.Sprintf("g%d", r+3)}
		nc := rapid.SampledFrom([]int{1, 1, 1, 2, 2, 3}).Draw(t, "nconds")
		for c := 0; c < nc; c++ {
			cond := c12Cond{Not: rapid.IntRange(0, 3).Draw(t, "not") == 0, Base: -1}
			switch rapid.IntRange(0, 6).Draw(t, "fn") {
			case 0:
				cond.Fn = "mac"
				n := rapid.IntRange(1, 4).Draw(t, "nmac")
				for i := 0; i < n; i++ {
					m := c12GenMac(t, macPool)
					macPool = append(macPool, m)
					cond.Macs = append(cond.Macs, m)
				}
			case 1, 2, 3:
				cond.Fn = "ip"
			default:
				cond.Fn = "sip"
			}
			if cond.Fn != "mac" {
				cond.Base = rapid.IntRange(0, len(bases)-1).Draw(t, "base")
				cond.Set, cond.How = c12Variant(t, g, bases[cond.Base])
			}
			rule.Conds = append(rule.Conds, cond)
		}
		rules = append(rules, rule)
	}
	return
}

func c12OutboundMap(nrules int) map[string]uint8 {
	m := map[string]uint8{"direct": 0, "block": 1, "fb": 2}
	for r := 0; r < nrules; r++ {
		m[fmt.Sprintf("g%d", r+3)] = uint8(r + 3)
	}
	return m
}

func c12ConfigRules(rules []c12RuleT) []*config_parser.RoutingRule {
	var out []*config_parser.RoutingRule
	for _, r := range rules {
		cr := &config_parser.RoutingRule{Outbound: config_parser.Function{Name: r.Out}}
		for _, c := range r.Conds {
			cr.AndFunctions = append(cr.AndFunctions, c.function())
		}
		out = append(out, cr)
	}
	return out
}

// c12Expect: first rule all of whose conditions hold, else the fallback (id 2).
func c12Expect(rules []c12RuleT, src, dst, mac [16]byte) (out uint8, judged bool) {
	for r, rule := range rules {
		all := true
		for _, c := range rule.Conds {
			v, j := c.holds(src, dst, mac)
			if !j {
				return 0, false
			}
			if !v {
				all = false
				break
			}
		}
		if all {
			return uint8(r + 3), true
		}
	}
	return 2, true
}

func c12RulesString(rules []c12RuleT) string {
	var sb strings.Builder
	for _, r := range rules {
		cs := make([]string, len(r.Conds))
		for i, c := range r.Conds {
			cs[i] = c.String()
		}
		fmt.Fprintf(&sb, "%s -> %s; ", strings.Join(cs, " && "), r.Out)
	}
	return sb.String()
}

// c12SameAddrs: does the stored prefix list denote exactly the condition's set?
func c12SameAddrs(c c12Cond, stored []netip.Prefix) bool {
	want := c.prefixes()
	got := c12Agg(stored)
	if got == c12Agg(want) {
		return true
	}
	if c.Fn == "mac" && c.Not {
		// the builder may add the all-zero MAC to a negated mac() set
		return got == c12Agg(append(append([]netip.Prefix(nil), want...), c12MacPrefix([6]byte{})))
	}
	return false
}

func TestC12_Builder(t *testing.T) {
	known := vkKnown("F2")
	maxEntries := uint32(consts.MaxMatchSetLen)
	rapid.Check(t, func(t *rapid.T) {
		defer verifSetHooks(nil)
		g := c12NewGen(t, false)
		rules, bases, macPool := c12GenRules(t, g)
		var conds []c12Cond
		for _, r := range rules {
			conds = append(conds, r.Conds...)
		}
		// process-global ring cursor: reset per case, aimed at the wrap.
		start := uint32(0)
		switch rapid.IntRange(0, 3).Draw(t, "ringstart") {
		case 1:
			start = maxEntries - uint32(rapid.IntRange(1, len(conds)+1).Draw(t, "ringback"))
		case 2:
			start = uint32(rapid.IntRange(0, int(maxEntries)-1).Draw(t, "ringany"))
		}
		globalNextLpmIndex.Store(start)

		log := c12Log()
		b, err := NewRoutingMatcherBuilder(log, c12ConfigRules(rules), c12OutboundMap(len(rules)), &bpfObjects{}, "fb")
		if err != nil {
			t.Fatalf("NewRoutingMatcherBuilder(%s): %v", c12RulesString(rules), err)
		}
		if len(b.rules) != len(conds)+1 || len(b.compiledRules) != len(b.rules) {
			t.Fatalf("expected one match set per condition + fallback: %d conditions, %d rules, %d compiled", len(conds), len(b.rules), len(b.compiledRules))
		}

		// (1) every condition's LPM index denotes its own address set.
		idx := make([]uint32, len(conds))
		stored := append([][]netip.Prefix(nil), b.simulatedLpmTries...)
		shared := false
		for i, c := range conds {
			ms := b.rules[i]
			wantType := map[string]consts.MatchType{"ip": consts.MatchType_IpSet, "sip": consts.MatchType_SourceIpSet, "mac": consts.MatchType_Mac}[c.Fn]
			if consts.MatchType(ms.Type) != wantType || (ms.Not != 0) != c.Not {
				t.Fatalf("condition %d %s lowered to type %d not %d", i, c, ms.Type, ms.Not)
			}
			idx[i] = binary.LittleEndian.Uint32(ms.Value[:4])
			if b.compiledRules[i].lpmIndex != idx[i] {
				t.Fatalf("condition %d %s: kernel match set says LPM index %d, compiled userspace match says %d", i, c, idx[i], b.compiledRules[i].lpmIndex)
			}
			if int(idx[i]) >= len(stored) {
				t.Fatalf("condition %d %s: LPM index %d out of range (%d tries)", i, c, idx[i], len(stored))
			}
			if !c12SameAddrs(c, stored[idx[i]]) {
				t.Fatalf("condition %d %s uses LPM index %d which holds %v — not the condition's address set\nrules: %s", i, c, idx[i], stored[idx[i]], c12RulesString(rules))
			}
		}
		for i := range conds {
			for j := i + 1; j < len(conds); j++ {
				if idx[i] == idx[j] {
					shared = true
					zero := c12MacPrefix([6]byte{})
					pi, pj := conds[i].prefixes(), conds[j].prefixes()
					eq := c12Agg(pi) == c12Agg(pj)
					if !eq && (conds[i].Fn == "mac" || conds[j].Fn == "mac") {
						// a negated mac() set may carry the all-zero MAC in addition
						eq = c12Agg(append(pi[:len(pi):len(pi)], zero)) == c12Agg(append(pj[:len(pj):len(pj)], zero))
					}
					if !eq {
						t.Fatalf("conditions %s and %s share LPM index %d but denote different address sets", conds[i], conds[j], idx[i])
					}
				}
			}
		}

		// (2) what would be written to the kernel (LPM maps + rewritten rules).
		var gotLpm []lpmMapResult
		var gotRules []bpfMatchSet
		var gotLen uint32
		delivered := 0
		verifSetHooks(&verifHooks{Kernspace: func(lpm []lpmMapResult, kernRules []bpfMatchSet, routingsLen uint32) {
			gotLpm, gotRules, gotLen = lpm, kernRules, routingsLen
			delivered++
		}})
		if _, err := b.BuildKernspace(log); err != nil {
			t.Fatalf("BuildKernspace: %v", err)
		}
		verifSetHooks(nil)
		if delivered != 1 || int(gotLen) != len(conds)+1 || len(gotRules) != len(conds)+1 {
			t.Fatalf("kernspace sink: delivered %d times, routingsLen %d, %d rules; want 1, %d, %d", delivered, gotLen, len(gotRules), len(conds)+1, len(conds)+1)
		}
		slots := map[uint32]*c12Kern{}
		for _, r := range gotLpm {
			if r.lpmIndex >= maxEntries {
				t.Fatalf("lpm_array_map slot %d out of range", r.lpmIndex)
			}
			if slots[r.lpmIndex] != nil {
				t.Fatalf("two LPM tries written to lpm_array_map slot %d in one build", r.lpmIndex)
			}
			if len(r.values) != len(r.keys) {
				t.Fatalf("slot %d: %d keys, %d values", r.lpmIndex, len(r.keys), len(r.values))
			}
			k := c12NewKern()
			if err := k.load(r.keys); err != nil {
				t.Fatalf("slot %d: %v", r.lpmIndex, err)
			}
			slots[r.lpmIndex] = k
		}
		kernOf := make([]*c12Kern, len(conds))
		for i, c := range conds {
			kslot := binary.LittleEndian.Uint32(gotRules[i].Value[:4])
			kernOf[i] = slots[kslot]
			if kernOf[i] == nil {
				t.Fatalf("condition %d %s: kernel rule points at lpm_array_map slot %d, which this build did not write (ring start %d)", i, c, kslot, start)
			}
			if gotRules[i].Type != b.rules[i].Type || gotRules[i].Not != b.rules[i].Not || gotRules[i].Outbound != b.rules[i].Outbound {
				t.Fatalf("kernel rule %d differs from the userspace rule beyond the LPM index", i)
			}
		}

		// (3) userspace matcher.
		userOK := true
		for _, c := range conds {
			if c.Fn != "mac" && known && c12HasV6Len0(c.Set) {
				userOK = false
			}
		}
		var m *RoutingMatcher
		if userOK {
			if m, err = b.BuildUserspace(); err != nil {
				t.Fatalf("BuildUserspace: %v", err)
			}
		} else {
			vkExcluded("C12.builder", "F2")
		}

		// probes: boundary addresses of every condition's set, combined into tuples.
		var addrPool [][16]byte
		for _, c := range conds {
			if c.Fn != "mac" {
				ps, _ := g.probes(t, c.Set, 0)
				addrPool = append(addrPool, ps...)
			}
		}
		for _, bs := range bases {
			ps, _ := g.probes(t, bs, 1)
			addrPool = append(addrPool, ps...)
		}
		nt := rapid.IntRange(8, 40).Draw(t, "ntuples")
		outs := map[uint8]bool{}
		for k := 0; k < nt; k++ {
			src := rapid.SampledFrom(addrPool).Draw(t, "src")
			dst := rapid.SampledFrom(addrPool).Draw(t, "dst")
			mac := c12Mac16(c12GenMac(t, macPool))
			// per condition: the kernel's LPM answer is containment
			for i, c := range conds {
				var key [16]byte
				switch c.Fn {
				case "ip":
					key = dst
				case "sip":
					key = src
				default:
					key = mac
				}
				if c.Fn == "mac" && c.Not && mac == [16]byte{} {
					continue
				}
				want := c12SetContains(c.prefixes(), netip.AddrFrom16(key))
				if got := kernOf[i].query(key); got != want {
					t.Fatalf("condition %d %s, address %v: kernel LPM slot answers %v, containment %v\nrules: %s", i, c, netip.AddrFrom16(key), got, want, c12RulesString(rules))
				}
			}
			if !userOK {
				continue
			}
			want, judged := c12Expect(rules, src, dst, mac)
			if !judged {
				continue
			}
			ipv := consts.IpVersion_6
			if c12Is4In6(dst) {
				ipv = consts.IpVersion_4
			}
			got, _, _, err := m.Match(src, dst, 1234, 443, ipv, consts.L4ProtoType_TCP, "", [16]uint8{}, 0, mac)
			if err != nil {
				t.Fatalf("Match: %v", err)
			}
			if uint8(got) != want {
				t.Fatalf("src %v dst %v mac %x: Match -> outbound %d, containment says %d\nrules: %s", netip.AddrFrom16(src), netip.AddrFrom16(dst), mac[10:], got, want, c12RulesString(rules))
			}
			outs[want] = true
		}

		cl := []string{}
		if shared {
			cl = append(cl, "index_shared")
		}
		if len(stored) >= 4 {
			cl = append(cl, "parallel_keys_path")
		}
		if len(stored) > 4 {
			cl = append(cl, "parallel_trie_path")
		}
		if start+uint32(len(stored)) > maxEntries {
			cl = append(cl, "ring_wrap")
		}
		related := false
		hows := map[string]bool{}
		for i, c := range conds {
			if c.Fn == "mac" {
				hows["mac"] = true
				continue
			}
			hows["variant_"+c.How] = true
			for j := 0; j < i; j++ {
				if conds[j].Base == c.Base && conds[j].Fn != "mac" {
					related = true
				}
			}
		}
		for h := range hows {
			cl = append(cl, h)
		}
		if len(outs) > 1 {
			cl = append(cl, "several_outcomes")
		}
		sort.Strings(cl)
		key := ""
		if related {
			key = c12RulesString(rules)
		}
		vkCase("C12.builder", key, func() any {
			return map[string]any{"rules": c12RulesString(rules), "lpm_tries": len(stored), "ring_start": start}
		}, cl...)
	})
}

// ---------------------------------------------------------------- unit: collision

// The dedup map is keyed by a 64-bit hash; a real collision cannot be generated, so
// the map is pre-seeded as if set A hashed like set B. B must not be given A's trie
// unless both denote the same addresses.
func TestC12_DedupCollision(t *testing.T) {
	known := vkKnown("F2")
	rapid.Check(t, func(t *rapid.T) {
		g := c12NewGen(t, known)
		A := g.set(t, 6)
		B, how := c12Variant(t, g, A)
		if rapid.IntRange(0, 3).Draw(t, "unrelated") == 0 {
			B, how = g.set(t, 6), "unrelated"
		}
		b := &RoutingMatcherBuilder{
			log:                 c12Log(),
			outboundName2Id:     map[string]uint8{"direct": 0, "block": 1, "fb": 2, "ga": 3, "gb": 4, "gc": 5},
			lpmDedup:            make(map[uint64]lpmDedupEntry),
			referencedOutbounds: make(map[string]struct{}),
		}
		add := func(fn string, set []netip.Prefix, out string) uint32 {
			f := &config_parser.Function{Name: fn}
			var err error
			if fn == "ip" {
				err = b.addIp(f, append([]netip.Prefix(nil), set...), &routing.Outbound{Name: out})
			} else {
				err = b.addSourceIp(f, append([]netip.Prefix(nil), set...), &routing.Outbound{Name: out})
			}
			if err != nil {
				t.Fatalf("add %s(%v): %v", fn, set, err)
			}
			return binary.LittleEndian.Uint32(b.rules[len(b.rules)-1].Value[:4])
		}
		fnA := rapid.SampledFrom([]string{"ip", "sip"}).Draw(t, "fnA")
		fnB := rapid.SampledFrom([]string{"ip", "sip"}).Draw(t, "fnB")
		idxA := add(fnA, A, "ga")
		// forge the collision: B's hash slot already holds A's entry.
		canonB := canonicalizePrefixes(append([]netip.Prefix(nil), B...))
		entryA, ok := b.lpmDedup[hashLpmSet(canonicalizePrefixes(append([]netip.Prefix(nil), A...)))]
		if !ok {
			t.Fatalf("harness: dedup entry for A not found (builder internals changed?)")
		}
		b.lpmDedup[hashLpmSet(canonB)] = entryA
		idxB := add(fnB, B, "gb")
		idxA2 := add(fnA, A, "gc")
		same := c12Agg(A) == c12Agg(B)
		for _, x := range []struct {
			name string
			idx  uint32
			set  []netip.Prefix
		}{{"A", idxA, A}, {"B", idxB, B}, {"A again", idxA2, A}} {
			if int(x.idx) >= len(b.simulatedLpmTries) {
				t.Fatalf("%s: LPM index %d out of range", x.name, x.idx)
			}
			if c12Agg(b.simulatedLpmTries[x.idx]) != c12Agg(x.set) {
				t.Fatalf("forged hash collision (%s): set %s = %v got LPM index %d holding %v\nA=%v B=%v", how, x.name, x.set, x.idx, b.simulatedLpmTries[x.idx], A, B)
			}
		}
		if idxA == idxB && !same {
			t.Fatalf("forged hash collision: A=%v and B=%v share LPM index %d", A, B, idxA)
		}
		if err := b.addFallback("fb"); err != nil {
			t.Fatalf("addFallback: %v", err)
		}
		m, err := b.BuildUserspace()
		if err != nil {
			t.Fatalf("BuildUserspace: %v", err)
		}
		rules := []c12RuleT{
			{Conds: []c12Cond{{Fn: fnA, Set: A}}},
			{Conds: []c12Cond{{Fn: fnB, Set: B}}},
			{Conds: []c12Cond{{Fn: fnA, Set: A}}},
		}
		pa, _ := g.probes(t, A, 2)
		pb, _ := g.probes(t, B, 2)
		pool := append(pa, pb...)
		for k := 0; k < 16; k++ {
			src := rapid.SampledFrom(pool).Draw(t, "src")
			dst := rapid.SampledFrom(pool).Draw(t, "dst")
			want, _ := c12Expect(rules, src, dst, [16]byte{})
			got, _, _, err := m.Match(src, dst, 1, 2, consts.IpVersion_X, consts.L4ProtoType_UDP, "", [16]uint8{}, 0, [16]byte{})
			if err != nil {
				t.Fatalf("Match: %v", err)
			}
			if uint8(got) != want {
				t.Fatalf("forged hash collision (%s): src %v dst %v -> outbound %d, containment says %d\nA=%v B=%v", how, netip.AddrFrom16(src), netip.AddrFrom16(dst), got, want, A, B)
			}
		}
		if g.exclN > 0 {
			vkExcluded("C12.collision", "F2")
		}
		key := ""
		if !same {
			key = c12SetKey(A) + "|" + c12SetKey(B)
		}
		cl := []string{"how_" + how}
		if same {
			cl = append(cl, "same_addresses")
		}
		if idxA == idxB {
			cl = append(cl, "shared")
		}
		vkCase("C12.collision", key, func() any {
			return map[string]any{"A": c12SetKey(A), "B": c12SetKey(B), "how": how}
		}, cl...)
	})
}

// ---------------------------------------------------------------- finding F2

// `ip(::/0) -> g3`: the kernel key (prefixlen 0) matches every destination; the
// userspace matcher must too.
func TestC12_Finding_F2(t *testing.T) {
	set := []netip.Prefix{netip.MustParsePrefix("::/0")}
	rules := []c12RuleT{{Conds: []c12Cond{{Fn: "ip", Set: set}}, Out: "g3"}}
	globalNextLpmIndex.Store(0)
	b, err := NewRoutingMatcherBuilder(c12Log(), c12ConfigRules(rules), c12OutboundMap(1), &bpfObjects{}, "fb")
	if err != nil {
		t.Fatalf("builder: %v", err)
	}
	kern := c12NewKern()
	if err := kern.load([]_bpfLpmKey{cidrToBpfLpmKey(set[0])}); err != nil {
		t.Fatal(err)
	}
	m, err := b.BuildUserspace()
	if err != nil {
		t.Fatalf("BuildUserspace: %v", err)
	}
	var wrong []string
	for _, s := range []string{"::", "2001:db8::1", "::ffff:8.8.8.8", "ffff::"} {
		dst := netip.MustParseAddr(s).As16()
		if !kern.query(dst) {
			t.Fatalf("kernel key for ::/0 does not match %s", s)
		}
		got, _, _, err := m.Match([16]byte{}, dst, 1, 2, consts.IpVersion_6, consts.L4ProtoType_TCP, "", [16]uint8{}, 0, [16]byte{})
		if err != nil {
			t.Fatalf("Match: %v", err)
		}
		if got != 3 {
			wrong = append(wrong, fmt.Sprintf("%s->%d", s, got))
		}
	}
	if vkKnown("F2") {
		if len(wrong) > 0 {
			vkKnownReproduced("F2")
			t.Logf("KNOWN F2 reproduced at rule level: ip(::/0)->g3, userspace outcomes %v (kernel keys match all)", wrong)
		} else {
			t.Logf("F2 is listed as known but ip(::/0) now matches every destination in userspace")
		}
		vkCase("C12.finding_f2_routing", "f2", func() any { return map[string]any{"wrong": wrong} })
		return
	}
	if len(wrong) > 0 {
		t.Fatalf("rule ip(::/0) -> g3 (id 3), fallback id 2: kernel LPM key matches every destination, userspace Match gives %v", wrong)
	}
	vkCase("C12.finding_f2_routing", "f2", func() any { return "ip(::/0) matches every destination in both views" })
}

package control

// C18 unit "e2e": routeDial -> chooseProxyDialer -> (Route) -> ChooseDialTarget with
// four recording dialer groups: the string the node dialer receives, and which
// group's node received it (re-routing), against the same table.

import (
	"context"
	"fmt"
	"io"
	"net/netip"
	"strings"
	"testing"
	"time"

	"github.com/daeuniverse/dae/common/consts"
	ob "github.com/daeuniverse/dae/component/outbound"
	componentdialer "github.com/daeuniverse/dae/component/outbound/dialer"
	"github.com/daeuniverse/outbound/netproxy"
	"pgregory.net/rapid"
)

const c18UnitE2E = "C18.e2e"

type c18Dial struct {
	Group   int
	Network string
	Addr    string
}

type c18RecDialer struct {
	group int
	log   *[]c18Dial
}

type c18NopConn struct{}

func (c18NopConn) Read([]byte) (int, error)         { return 0, io.EOF }
func (c18NopConn) Write(b []byte) (int, error)      { return len(b), nil }
func (c18NopConn) Close() error                     { return nil }
func (c18NopConn) SetDeadline(time.Time) error      { return nil }
func (c18NopConn) SetReadDeadline(time.Time) error  { return nil }
func (c18NopConn) SetWriteDeadline(time.Time) error { return nil }

func (d *c18RecDialer) DialContext(_ context.Context, network, addr string) (netproxy.Conn, error) {
	*d.log = append(*d.log, c18Dial{Group: d.group, Network: network, Addr: addr})
	return c18NopConn{}, nil
}

// c18Matcher: a routing.DomainMatcher that matches bit 0 for names with a label
// "match", and records what it was asked.
type c18Matcher struct{ asked []string }

func (m *c18Matcher) AddSet(int, []string, consts.RoutingDomainKey) {}
func (m *c18Matcher) Build() error                                   { return nil }
func (m *c18Matcher) MatchDomainBitmap(domain string) []uint32 {
	m.asked = append(m.asked, domain)
	if c18Matches(domain) {
		return []uint32{1}
	}
	return []uint32{0}
}

func c18Matches(domain string) bool {
	return strings.HasPrefix(strings.ToLower(domain), "match.")
}

func c18Group(idx int, log *[]c18Dial) (*ob.DialerGroup, *componentdialer.Dialer) {
	l := c18Log()
	opt := &componentdialer.GlobalOption{Log: l, CheckInterval: time.Second}
	d := componentdialer.NewDialer(&c18RecDialer{group: idx, log: log}, opt, componentdialer.InstanceOption{DisableCheck: true}, &componentdialer.Property{})
	g := ob.NewDialerGroup(opt, fmt.Sprintf("c18-g%d", idx), []*componentdialer.Dialer{d}, []*componentdialer.Annotation{{}},
		ob.DialerSelectionPolicy{Policy: consts.DialerSelectionPolicy_Fixed, FixedIndex: 0},
		func(bool, *componentdialer.NetworkType, bool) {})
	return g, d
}

func TestC18_E2E(t *testing.T) {
	rapid.Check(t, func(rt *rapid.T) {
		c18Bubble(t, func(cleanup *[]func()) {
			w := c18NewWorld(consts.DialMode_Ip, nil, false)
			*cleanup = append(*cleanup, w.close)
			var dials []c18Dial
			groups := make([]*ob.DialerGroup, 4)
			for i := range groups {
				g, d := c18Group(i, &dials)
				groups[i] = g
				*cleanup = append(*cleanup, func() { _ = g.Close(); _ = d.Close() })
			}
			// routing: domain(match.*) -> X ; fallback -> Y
			obs := []consts.OutboundIndex{consts.OutboundDirect, consts.OutboundBlock, 2, 3}
			X := rapid.SampledFrom(obs).Draw(rt, "rule_outbound")
			Y := rapid.SampledFrom(obs).Draw(rt, "fallback_outbound")
			m := &c18Matcher{}
			w.cp.outbounds = groups
			w.cp.routingMatcher = &RoutingMatcher{
				domainMatcher: m,
				compiledMatches: []compiledRoutingMatch{
					{matchType: consts.MatchType_DomainSet, outbound: X},
					{matchType: consts.MatchType_Fallback, outbound: Y},
				},
			}
			w.cp.soMarkFromDae = 0x80
			ctr := 0
			nops := rapid.IntRange(15, 40).Draw(rt, "nops")
			for i := 0; i < nops; i++ {
				switch k := rapid.IntRange(0, 99).Draw(rt, "op"); {
				case k < 70:
					w.c18E2EStep(rt, m, &dials, X, Y, &ctr)
				case k < 84:
					in := c18GenInsert(rt, c18PoolNames)
					if err := w.insert(in); err != nil {
						rt.Fatalf("production cache insert failed for %+v: %v", in, err)
					}
				case k < 93:
					time.Sleep(time.Duration(rapid.SampledFrom([]int{1, 5, 10, 11, 30, 60, 120, 300, 3600}).Draw(rt, "sleep_s")) * time.Second)
				default:
					n := rapid.SampledFrom(c18PoolNames).Draw(rt, "rd_name")
					if rapid.Bool().Draw(rt, "rd_real") {
						w.verify(n)
					} else if !w.verified[n] {
						w.negCache(n)
					}
				}
			}
		})
	})
}

func (w *c18World) c18E2EStep(rt *rapid.T, m *c18Matcher, dials *[]c18Dial, X, Y consts.OutboundIndex, ctr *int) {
	mode := rapid.SampledFrom([]consts.DialMode{consts.DialMode_DomainCao, consts.DialMode_Domain, consts.DialMode_DomainPlus, consts.DialMode_Domain, consts.DialMode_Ip}).Draw(rt, "mode")
	in := rapid.SampledFrom([]consts.OutboundIndex{2, 3, consts.OutboundControlPlaneRouting, 2, 3, consts.OutboundBlock, consts.OutboundDirect}).Draw(rt, "outbound")
	dst := c18GenDst(rt)
	sn := c18GenSniff(rt, c18PoolNames, w.focus, dst, ctr)
	network := rapid.SampledFrom([]string{"tcp", "tcp", "udp"}).Draw(rt, "network")
	src := netip.MustParseAddrPort("192.168.1.7:40000")
	if !dst.Addr().Is4() {
		src = netip.MustParseAddrPort("[fd00::7]:40000")
	}
	now := time.Now()
	w.cp.dialMode = mode
	*dials = (*dials)[:0]
	m.asked = m.asked[:0]
	conn, res, err := w.cp.routeDial(context.Background(), &proxyDialParam{
		Outbound: in, Domain: sn.S, Src: src, Dest: dst, Network: network,
	})
	ctx := fmt.Sprintf("mode=%q outbound=%d dst=%v sniffed=%q (%s) rule->%d fallback->%d", mode, in, dst, sn.S, sn.Kind, X, Y)
	if err != nil {
		rt.Fatalf("C18 e2e: routeDial failed: %v (%s)", err, ctx)
	}
	_ = conn.Close()
	if len(*dials) != 1 {
		rt.Fatalf("C18 e2e: node dialers were called %d times, want 1 (%s)", len(*dials), ctx)
	}
	d := (*dials)[0]
	if res == nil || res.DialTarget != d.Addr {
		rt.Fatalf("C18 e2e: node dialer received %q, chooseProxyDialer reported %+v (%s)", d.Addr, res, ctx)
	}

	// where would routing by the sniffed value go?
	routed := Y
	if sn.S != "" && c18Matches(sn.S) {
		routed = X
	}
	v0 := w.c18Expect(mode, in.IsReserved(), dst, sn, now)
	var final consts.OutboundIndex
	switch {
	case in == consts.OutboundControlPlaneRouting:
		final = routed // control-plane routing always routes here
	case v0.Reroute > 0:
		final = routed
	case v0.Reroute < 0:
		final = in
	default:
		// unconstrained: either the original or the re-routed outbound
		switch consts.OutboundIndex(d.Group) {
		case in:
			final = in
		case routed:
			final = routed
		default:
			rt.Fatalf("C18 e2e: dialed through group %d, neither the requested outbound %d nor the routed one %d (%s)", d.Group, in, routed, ctx)
		}
	}
	if consts.OutboundIndex(d.Group) != final {
		why := "no re-routing is allowed here"
		if final == routed && (v0.Reroute > 0 || in == consts.OutboundControlPlaneRouting) {
			why = "the flow must be routed again using the sniffed name"
		}
		rt.Fatalf("C18 e2e violated: dialed through group %d, want %d: %s (%s)", d.Group, final, why, ctx)
	}
	if sn.S != "" && (v0.Reroute > 0 || in == consts.OutboundControlPlaneRouting || final != in) {
		// routed again *using that name*
		found := false
		for _, a := range m.asked {
			if a == sn.S {
				found = true
			}
		}
		if !found {
			rt.Fatalf("C18 e2e violated: routing towards %d had to use the sniffed name, but the routing matcher was asked about %q, not %q (%s)", final, m.asked, sn.S, ctx)
		}
	}
	// the table for the outbound finally used
	v := w.c18Expect(mode, final.IsReserved(), dst, sn, now)
	v.Reroute = 0 // the flag is not observable here; the group is
	took, lpd, jerr := c18Judge(v, c18Got{Target: d.Addr, DialIp: res.IsDialIp}, dst, sn)
	if jerr != nil {
		rt.Fatalf("C18 e2e violated: node dialer of group %d received %q (dialIp=%v): %v (%s)\nmodel: dns=%v verified=%v neg=%v", d.Group, d.Addr, res.IsDialIp, jerr, ctx, w.dns[sn.Bare], w.verified, w.neg)
	}
	key := ""
	if mode != consts.DialMode_Ip && sn.S != "" && !in.IsReserved() {
		key = fmt.Sprintf("%s|%d>%d|%v|%q|%s|%s", mode, in, final, dst, sn.S, v.Cell, took)
	}
	classes := []string{"mode_" + string(mode), "sniff_" + sn.Kind, "cell_" + v.Cell, "took_" + took, "net_" + network}
	if final != in {
		classes = append(classes, "rerouted_"+string(mode))
		if final.IsReserved() {
			classes = append(classes, "rerouted_to_builtin")
		}
	}
	if in == consts.OutboundControlPlaneRouting {
		classes = append(classes, "in_control_plane_routing")
	}
	if lpd {
		classes = append(classes, "literal_port_dialIp_false")
	}
	vkCase(c18UnitE2E, key, func() any {
		return map[string]any{"mode": string(mode), "outbound": int(in), "final": int(final), "dst": dst.String(), "sniffed": sn.S, "dialed": d.Addr, "group": d.Group}
	}, classes...)
}

package control

// C10 — the kernel's address→domain table always mirrors the live DNS cache.
//
// Shared pieces of the two C10 levels: the shadow of domain_routing_map folded
// from the batches seen by the verif observer hook in syncOwner, the bitmap and
// address vocabularies, and the comparison "shadow == OR of the bitmaps of the
// live owners that list the address".

import (
	"fmt"
	"net/netip"
	"sort"
	"strings"
	"sync"

	"github.com/daeuniverse/dae/common"
	"pgregory.net/rapid"
)

type c10Key = [4]uint32

// c10Shadow is what the kernel hash map would contain had every batch issued by
// syncOwner been applied (updates = BPF_ANY writes, deletes = key removal).
type c10Shadow struct {
	mu      sync.Mutex
	m       map[c10Key]bpfDomainRouting
	errs    []string
	batches int // observer invocations
	nonNoop int // invocations carrying at least one key
	updates int
	deletes int
}

func c10NewShadow() *c10Shadow { return &c10Shadow{m: map[c10Key]bpfDomainRouting{}} }

// observe is the DomainRoutingSync hook. It may run on any goroutine (janitor,
// async BPF worker, caller), so it only records; the step check reports.
func (s *c10Shadow) observe(owner string, updKeys [][4]uint32, updVals []bpfDomainRouting, delKeys [][4]uint32) {
	s.mu.Lock()
	defer s.mu.Unlock()
	s.batches++
	if len(updKeys)+len(delKeys) > 0 {
		s.nonNoop++
	}
	if len(updKeys) != len(updVals) {
		s.errs = append(s.errs, fmt.Sprintf("owner %q: %d update keys but %d update values", owner, len(updKeys), len(updVals)))
		return
	}
	inUpd := make(map[c10Key]bool, len(updKeys))
	for i, k := range updKeys {
		inUpd[k] = true
		s.m[k] = updVals[i]
		s.updates++
	}
	for _, k := range delKeys {
		if inUpd[k] {
			s.errs = append(s.errs, fmt.Sprintf("owner %q: one batch both updates and deletes address %s", owner, c10KeyString(k)))
		}
		delete(s.m, k)
		s.deletes++
	}
}

func (s *c10Shadow) takeErrs() []string {
	s.mu.Lock()
	defer s.mu.Unlock()
	e := s.errs
	s.errs = nil
	return e
}

func (s *c10Shadow) snapshot() map[c10Key]bpfDomainRouting {
	s.mu.Lock()
	defer s.mu.Unlock()
	out := make(map[c10Key]bpfDomainRouting, len(s.m))
	for k, v := range s.m {
		out[k] = v
	}
	return out
}

func c10AddrKey(a netip.Addr) c10Key {
	b := a.As16()
	return common.Ipv6ByteSliceToUint32Array(b[:])
}

// c10KeyString renders a map key as an address for messages (inverse of the
// production conversion, found by search over the vocabulary, else raw words).
func c10KeyString(k c10Key) string {
	for _, a := range c10AllAddrs {
		if c10AddrKey(a) == k {
			return a.String()
		}
	}
	return fmt.Sprintf("%08x:%08x:%08x:%08x", k[0], k[1], k[2], k[3])
}

// Address vocabulary: six routable addresses (three v4 — keyed as v4-mapped —
// and three v6), the v4-mapped v6 spelling of the first one (same map key), and
// the two unspecified addresses (never to be written to the table).
var (
	c10V4            = []netip.Addr{netip.MustParseAddr("1.1.1.1"), netip.MustParseAddr("1.1.1.2"), netip.MustParseAddr("10.0.0.1")}
	c10V6            = []netip.Addr{netip.MustParseAddr("2001:db8::1"), netip.MustParseAddr("2001:db8::2"), netip.MustParseAddr("fe80::1")}
	c10V4MappedFirst = netip.MustParseAddr("::ffff:1.1.1.1")
	c10Unspec4       = netip.MustParseAddr("0.0.0.0")
	c10Unspec6       = netip.MustParseAddr("::")
	c10AllAddrs      = append(append(append([]netip.Addr{}, c10V4...), c10V6...), c10V4MappedFirst, c10Unspec4, c10Unspec6)
)

func c10SixKeys() []c10Key {
	out := make([]c10Key, 0, 6)
	for _, a := range c10V4 {
		out = append(out, c10AddrKey(a))
	}
	for _, a := range c10V6 {
		out = append(out, c10AddrKey(a))
	}
	return out
}

// Bitmap vocabulary: zero, single bits at word boundaries, multi-word, and
// mutually overlapping ones.
func c10Bits(bits ...int) bpfDomainRouting {
	var b bpfDomainRouting
	for _, i := range bits {
		b.Bitmap[i/32] |= 1 << (uint(i) % 32)
	}
	return b
}

var c10BitmapPool = []struct {
	name string
	bm   bpfDomainRouting
}{
	{"zero", c10Bits()},
	{"bit0", c10Bits(0)},
	{"bit5", c10Bits(5)},
	{"bit31", c10Bits(31)},
	{"bit32", c10Bits(32)},
	{"bit1023", c10Bits(1023)},
	{"multi_0_32_1023", c10Bits(0, 32, 1023)},
	{"multi_5_64_511", c10Bits(5, 64, 511)},
	{"overlap_0_5", c10Bits(0, 5)},
	{"overlap_5_32", c10Bits(5, 32)},
	{"overlap_0_31_32", c10Bits(0, 31, 32)},
}

func c10DrawBitmap(t *rapid.T, label string) (string, bpfDomainRouting) {
	// zero is interesting but must not dominate.
	i := rapid.IntRange(0, len(c10BitmapPool)+3).Draw(t, label)
	if i >= len(c10BitmapPool) {
		i = 1 + (i % (len(c10BitmapPool) - 1))
	}
	e := c10BitmapPool[i]
	return e.name, e.bm
}

func c10IsZero(b bpfDomainRouting) bool { return b == bpfDomainRouting{} }

func c10Or(a, b bpfDomainRouting) bpfDomainRouting {
	for i := range a.Bitmap {
		a.Bitmap[i] |= b.Bitmap[i]
	}
	return a
}

func c10BitmapString(b bpfDomainRouting) string {
	var bits []string
	for w, word := range b.Bitmap {
		for i := 0; i < 32; i++ {
			if word&(1<<uint(i)) != 0 {
				bits = append(bits, fmt.Sprint(w*32+i))
			}
		}
	}
	return "{" + strings.Join(bits, ",") + "}"
}

// c10Owner is the oracle's view of one live owner (cache entry): its bitmap and
// the non-unspecified addresses it lists.
type c10Owner struct {
	bitmap bpfDomainRouting
	addrs  map[c10Key]bool
}

// c10Compare is the oracle: for every address, shadow[a] (absent ≡ all-zero) must
// equal the OR of the bitmaps of the live owners listing a; an address listed by
// nobody must be absent. Returns "" when the shadow mirrors the owners.
func c10Compare(shadow map[c10Key]bpfDomainRouting, owners map[string]c10Owner) string {
	want := map[c10Key]bpfDomainRouting{}
	listed := map[c10Key]bool{}
	for _, o := range owners {
		for a := range o.addrs {
			listed[a] = true
			want[a] = c10Or(want[a], o.bitmap)
		}
	}
	var diffs []string
	for a, w := range want {
		got, present := shadow[a]
		if got != w { // absent reads as all-zero
			diffs = append(diffs, fmt.Sprintf("address %s: table has %s (present=%v), live cache entries give %s", c10KeyString(a), c10BitmapString(got), present, c10BitmapString(w)))
		}
	}
	for a, got := range shadow {
		if !listed[a] {
			diffs = append(diffs, fmt.Sprintf("address %s: table holds %s but no live cache entry lists it", c10KeyString(a), c10BitmapString(got)))
		}
	}
	sort.Strings(diffs)
	return strings.Join(diffs, "\n")
}

// c10SharedDiff reports whether some address is listed by ≥2 owners with
// different (non-equal) bitmaps — the non-triviality criterion of DESIGN.md.
func c10SharedDiff(owners map[string]c10Owner) bool {
	first := map[c10Key]bpfDomainRouting{}
	seen := map[c10Key]bool{}
	for _, o := range owners {
		for a := range o.addrs {
			if seen[a] && first[a] != o.bitmap {
				return true
			}
			if !seen[a] {
				seen[a] = true
				first[a] = o.bitmap
			}
		}
	}
	return false
}

// c10Shrank reports (partial, removed): some owner kept living but lost an
// address / some owner that listed addresses disappeared.
func c10Shrank(before, after map[string]c10Owner) (partial, removed bool) {
	for k, b := range before {
		a, ok := after[k]
		if !ok {
			if len(b.addrs) > 0 {
				removed = true
			}
			continue
		}
		for addr := range b.addrs {
			if !a.addrs[addr] {
				partial = true
			}
		}
	}
	return
}

func c10OwnersString(owners map[string]c10Owner) string {
	keys := make([]string, 0, len(owners))
	for k := range owners {
		keys = append(keys, k)
	}
	sort.Strings(keys)
	var sb strings.Builder
	for _, k := range keys {
		o := owners[k]
		var as []string
		for a := range o.addrs {
			as = append(as, c10KeyString(a))
		}
		sort.Strings(as)
		fmt.Fprintf(&sb, "  %q bitmap=%s addrs=%v\n", k, c10BitmapString(o.bitmap), as)
	}
	return sb.String()
}

package control

// C13 — finding F-C13-1: per-flow order is lost when a flow's channel fills up
// while its convoy sits between "channel is empty" and popOverflowTask.

import (
	"fmt"
	"net/netip"
	"os"
	"runtime"
	"strconv"
	"sync"
	"sync/atomic"
	"testing"
	"testing/synctest"
	"time"
)

// c13OverflowStress emits rounds of n tasks for one flow from one goroutine while
// the convoy drains concurrently; it returns the first reordering it sees.
func c13OverflowStress(rounds, n int, budget time.Duration) (round, pos, got int, found bool) {
	p := NewUdpTaskPool()
	defer p.Close()
	key := UdpFlowKey{Src: netip.MustParseAddrPort("10.13.9.1:999"), Dst: netip.MustParseAddrPort("192.0.2.13:443")}
	deadline := time.Now().Add(budget)
	for r := 0; r < rounds && time.Now().Before(deadline); r++ {
		var mu sync.Mutex
		order := make([]int, 0, n)
		var ran atomic.Int32
		for i := 0; i < n; i++ {
			i := i
			p.EmitTask(key, func() {
				mu.Lock()
				order = append(order, i)
				mu.Unlock()
				ran.Add(1)
			})
		}
		for ran.Load() < int32(n) {
			if time.Now().After(deadline.Add(5 * time.Second)) {
				return r, -1, int(ran.Load()), true // lost tasks
			}
			runtime.Gosched()
		}
		mu.Lock()
		for i, v := range order {
			if v != i {
				mu.Unlock()
				return r, i, v, true
			}
		}
		mu.Unlock()
	}
	return 0, 0, 0, false
}

// c13OverflowReplay drives the interleaving of F-C13-1 with the scheduler: the
// worker has seen its channel empty (parked at convoy.beforeOverflowPop), then
// one producer emits 130 tasks (128 fill the channel, 2 spill to the overflow
// list), then the worker goes on. hooked=false if the yield point does not exist.
func c13OverflowReplay(t *testing.T) (hooked, bad bool, detail string) {
	c13InBubble(t, func() {
		s := c13NewSched(1)
		defer s.teardown()
		verifSetHooks(&verifHooks{Yield: s.yield})
		sc := &c13Script{s: s, none: map[string]bool{}}
		t0 := sc.emit(0, 1)[0]
		// let the worker run task 0 and come back to an empty channel
		for i := 0; i < 20 && t0.runs == 0; i++ {
			p := sc.parkedAt("convoy.beforeOverflowPop")
			if p == nil {
				break
			}
			s.resume(p)
			synctest.Wait()
		}
		synctest.Wait()
		if sc.parkedAt("convoy.beforeOverflowPop") == nil {
			return
		}
		hooked = true
		if t0.runs != 1 {
			bad, detail = true, fmt.Sprintf("setup failed: first task ran %d times", t0.runs)
			return
		}
		burst := sc.emit(0, UdpTaskQueueLength+2)
		done := sc.runUntil("")
		s.mu.Lock()
		defer s.mu.Unlock()
		var order []int
		for _, e := range s.execs {
			order = append(order, e.task.id)
		}
		inOrder := len(order) == len(burst)+1
		for i, id := range order {
			if id != i {
				inOrder = false
			}
		}
		bad = !inOrder || s.failMsg != "" || !done
		if len(order) > 6 {
			order = order[:6]
		}
		detail = fmt.Sprintf("%d tasks emitted while the worker sat between its empty-channel check and popOverflowTask; first executions %v, in order: %v, oracle: %q", len(burst), order, inOrder, s.failMsg)
	})
	return
}

// TestC13_Finding_FC131: tasks of one flow must run in acceptance order also when
// the channel fills up and spills while the worker is between "channel empty"
// and popOverflowTask. First the scheduled replay (needs the yield point
// convoy.beforeOverflowPop), then a short real-time stress run (one goroutine
// emits 400 tasks per round for one flow while the convoy drains them).
func TestC13_Finding_FC131(t *testing.T) {
	known := vkKnown("F-C13-1")
	hooked, bad, detail := c13OverflowReplay(t)
	verifSetHooks(nil)
	if !hooked {
		t.Logf("yield point convoy.beforeOverflowPop not present: scheduled replay skipped")
	} else if bad {
		if known {
			vkKnownReproduced("F-C13-1")
			t.Logf("known finding F-C13-1 still reproduces (scheduled replay): %s", detail)
			return
		}
		t.Fatalf("F-C13-1: per-flow order lost: %s", detail)
	}
	rounds, budget := 2000, 8*time.Second
	if vkThorough() {
		rounds, budget = 40000, 60*time.Second
	}
	if s := os.Getenv("C13_STRESS_ROUNDS"); s != "" {
		rounds, _ = strconv.Atoi(s)
	}
	r, pos, got, found := c13OverflowStress(rounds, 400, budget)
	if found && pos < 0 {
		// tasks never ran: that is F5's shape (idle GC racing EmitTask), not this one
		if vkKnown("F5") {
			t.Logf("round %d: only %d of 400 tasks ran (known finding F5 hit by the stress run)", r, got)
			return
		}
		t.Fatalf("round %d: only %d of 400 accepted tasks of one flow ever ran", r, got)
	}
	if known {
		if found {
			vkKnownReproduced("F-C13-1")
			t.Logf("known finding F-C13-1 still reproduces (stress): round %d, execution #%d was task %d", r, pos, got)
		} else {
			t.Logf("known finding F-C13-1 no longer reproduces (replay ok=%v, %d stress rounds)", hooked && !bad, rounds)
		}
		return
	}
	if found {
		t.Fatalf("F-C13-1: tasks of one flow ran out of acceptance order: round %d, execution #%d was task %d (an overflow task overtook the %d tasks waiting in the channel)", r, pos, got, UdpTaskQueueLength)
	}
}

package control

// C13 — finding F-C13-1: per-flow order is lost when a flow's channel fills up
// while its convoy sits between "channel is empty" and popOverflowTask.

import (
	"net/netip"
	"os"
	"runtime"
	"strconv"
	"sync"
	"sync/atomic"
	"testing"
	"time"
)

// c13OverflowStress emits rounds of n tasks for one flow from one goroutine while
// the convoy drains concurrently; it returns the first reordering it sees.
func c13OverflowStress(rounds, n int, budget time.Duration) (round, pos, got int, found bool) {
	p := NewUdpTaskPool()
	defer p.Close()
	key := UdpFlowKey{Src: netip.MustParseAddrPort("10.13.9.1:999"), Dst: netip.MustParseAddrPort("192.0.2.13:443")}
	deadline := time.Now().Add(budget)
	for r := 0; r < rounds && time.Now().Before(deadline); r++ {
		var mu sync.Mutex
		order := make([]int, 0, n)
		var ran atomic.Int32
		for i := 0; i < n; i++ {
			i := i
			p.EmitTask(key, func() {
				mu.Lock()
				order = append(order, i)
				mu.Unlock()
				ran.Add(1)
			})
		}
		for ran.Load() < int32(n) {
			if time.Now().After(deadline.Add(5 * time.Second)) {
				return r, -1, int(ran.Load()), true // lost tasks
			}
			runtime.Gosched()
		}
		mu.Lock()
		for i, v := range order {
			if v != i {
				mu.Unlock()
				return r, i, v, true
			}
		}
		mu.Unlock()
	}
	return 0, 0, 0, false
}

// TestC13_Finding_FC131: one goroutine emits 400 tasks per round for one flow
// while the convoy drains them; they must run in emission order. The reordering
// needs the convoy to be delayed between its "channel empty" check and
// popOverflowTask while >128 tasks arrive, so this is a bounded stress run (real
// time, outside any bubble), not a scheduled replay.
func TestC13_Finding_FC131(t *testing.T) {
	verifSetHooks(nil)
	rounds, budget := 4000, 15*time.Second
	if vkThorough() {
		rounds, budget = 40000, 60*time.Second
	}
	if s := os.Getenv("C13_STRESS_ROUNDS"); s != "" {
		rounds, _ = strconv.Atoi(s)
	}
	r, pos, got, found := c13OverflowStress(rounds, 400, budget)
	if found && pos < 0 {
		// tasks never ran: that is F5's shape (idle GC racing EmitTask), not this one
		if vkKnown("F5") {
			t.Logf("round %d: only %d of 400 tasks ran (known finding F5 hit by the stress run)", r, got)
			return
		}
		t.Fatalf("round %d: only %d of 400 accepted tasks of one flow ever ran", r, got)
	}
	if vkKnown("F-C13-1") {
		if found {
			vkKnownReproduced("F-C13-1")
			t.Logf("known finding F-C13-1 still reproduces: round %d, execution #%d was task %d", r, pos, got)
		} else {
			t.Logf("known finding F-C13-1 not hit in this stress run (%d rounds)", rounds)
		}
		return
	}
	if found {
		t.Fatalf("F-C13-1: tasks of one flow ran out of acceptance order: round %d, execution #%d was task %d (an overflow task overtook the %d tasks waiting in the channel)", r, pos, got, UdpTaskQueueLength)
	}
}

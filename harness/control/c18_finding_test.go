package control

// C18 finding F-C18-1: in domain+/domain++ a sniffed "literal:port" is passed on
// verbatim with dialIp=false (a literal IP reported as a domain target).

import (
	"net/netip"
	"testing"

	"github.com/daeuniverse/dae/common/consts"
)

func TestC18_Finding_FC181(t *testing.T) {
	type res struct {
		target string
		dialIp bool
	}
	var got []res
	inputs := []struct {
		mode    consts.DialMode
		sniffed string
		ip      string
	}{
		{consts.DialMode_DomainPlus, "1.2.3.4:8443", "1.2.3.4"},
		{consts.DialMode_DomainPlus, "[2001:db8::1]:8443", "2001:db8::1"},
		{consts.DialMode_DomainCao, "[2001:db8::1]:8443", "2001:db8::1"},
	}
	dst := netip.MustParseAddrPort("203.0.113.9:443")
	c18Bubble(t, func(cleanup *[]func()) {
		w := c18NewWorld(consts.DialMode_DomainPlus, nil, false)
		*cleanup = append(*cleanup, w.close)
		for _, in := range inputs {
			w.cp.dialMode = in.mode
			target, _, dialIp := w.cp.ChooseDialTarget(consts.OutboundUserDefinedMin, dst, in.sniffed)
			got = append(got, res{target, dialIp})
		}
	})
	reproduced := 0
	for i, in := range inputs {
		g := got[i]
		h, _, lit, err := c18WellFormed(g.target)
		if err != nil {
			t.Fatalf("mode %s sniffed %q: malformed target: %v", in.mode, in.sniffed, err)
		}
		if !lit.IsValid() || lit != netip.MustParseAddr(in.ip) {
			t.Fatalf("mode %s sniffed %q: target %q host %q is not the sniffed literal", in.mode, in.sniffed, g.target, h)
		}
		if !g.dialIp {
			reproduced++
			t.Logf("mode %s sniffed %q -> target %q dialIp=false", in.mode, in.sniffed, g.target)
		}
	}
	if vkKnown(c18FindingLiteralPort) {
		if reproduced > 0 {
			vkKnownReproduced(c18FindingLiteralPort)
		} else {
			t.Logf("finding %s is listed as known but no longer reproduces", c18FindingLiteralPort)
		}
		return
	}
	if reproduced > 0 {
		t.Fatalf("C18 violated: %d of %d literal:port sniffed values were returned as address literals with dialIp=false (a literal IP sent as a domain)", reproduced, len(inputs))
	}
}

package control

// C04 — rule normalisation never changes meaning (traffic routing pipeline).
// Rule lists biased to what the optimisers of control_plane.go touch (alias
// rewriting, geodata expansion from tiny generated .dat files, merging of
// neighbouring single-condition rules, sorting, de-duplication) are compiled with the
// production chain; every probe must be decided exactly as the *written* list is
// decided by the independent interpreter (which has its own alias and geodata
// expansion). Also: the optimisers must not mutate the rule list they are given.

import (
	"net/netip"
	"os"
	"sort"
	"strings"
	"testing"

	"pgregory.net/rapid"
)

const c04Unit = "C04.traffic"

// c04Touched reports, per written rule, which normalisation steps act on it,
// computed from the written program only.
func c04Touched(p vrProgram) (touched []map[string]bool) {
	touched = make([]map[string]bool, len(p.Rules))
	for i := range touched {
		touched[i] = map[string]bool{}
	}
	mergeable := func(a, b vrRule) bool {
		return len(a.Conds) == 1 && len(b.Conds) == 1 &&
			vrCanonFunc(a.Conds[0].Func) == vrCanonFunc(b.Conds[0].Func) &&
			a.Conds[0].Not == b.Conds[0].Not && vrOutboundCanon(a.Out) == vrOutboundCanon(b.Out)
	}
	for i, r := range p.Rules {
		if i > 0 && mergeable(p.Rules[i-1], r) {
			touched[i]["merged"] = true
			touched[i-1]["merged"] = true
		}
		names := []string{}
		for _, c := range r.Conds {
			names = append(names, vrCanonFunc(c.Func))
			if c.Func != vrCanonFunc(c.Func) {
				touched[i]["alias"] = true
			}
			seen := map[string]bool{}
			sorted := true
			for j, v := range c.Vals {
				key := v.Key
				if c.Func == "domain" {
					switch key {
					case "", "domain":
						key = "suffix"
						touched[i]["alias"] = true
					case "contains":
						key = "keyword"
						touched[i]["alias"] = true
					}
				}
				if key == "geosite" || key == "geoip" || key == "ext" {
					touched[i]["geodata"] = true
				}
				if seen[key+":"+v.Val] {
					touched[i]["dedup"] = true
				}
				seen[key+":"+v.Val] = true
				if j > 0 && (c.Vals[j-1].Key > v.Key || (c.Vals[j-1].Key == v.Key && c.Vals[j-1].Val > v.Val)) {
					sorted = false
				}
			}
			if !sorted {
				touched[i]["sorted_values"] = true
			}
		}
		if !sort.StringsAreSorted(names) {
			touched[i]["sorted_conditions"] = true
		}
	}
	return
}

func c04Check(t *rapid.T, unit string, o vrOpts, npk int) {
	geoDir, err := vrGeoDir()
	if err != nil {
		t.Fatalf("harness: cannot write geodata: %v", err)
	}
	p := vrGenProgram(t, o)
	text := vrRender(p)
	// ONE parsed configuration object, compiled twice with the production chain (a
	// reload, or a second pipeline, re-compiling the same parsed config). After each
	// compilation the object must be exactly as parsed (own snapshot, no production
	// clone helper involved) and every probe must be decided as written.
	conf, err := vrParseConf(text)
	if err != nil {
		t.Fatalf("well-formed routing program rejected: %v\n%s", err, text)
	}
	parsed := vrSnapshotRouting(conf)
	const nCompile = 2
	var ms [nCompile]*RoutingMatcher
	var cs [nCompile]*vrCompiled
	for n := 0; n < nCompile; n++ {
		cs[n], err = vrCompileConf(conf, vrCompileOpts{GeoDir: geoDir})
		if err == nil {
			ms[n], err = cs[n].Builder.BuildUserspace()
		}
		if err != nil {
			t.Fatalf("compilation #%d of the same parsed configuration failed: %v\n%s", n+1, err, text)
		}
		if now := vrSnapshotRouting(conf); now != parsed && os.Getenv("VERIF_C04_DECISIONS_ONLY") == "" { // knob for sensitivity runs only
			t.Fatalf("compilation #%d changed the parsed configuration object (the optimiser chain must work on its own copy)\n--- config ---\n%s--- as parsed ---\n%s--- now ---\n%s", n+1, text, parsed, now)
		}
	}
	c := cs[0]
	for i := 0; i < p.ExcludedF1; i++ {
		vkExcluded(unit, "F1")
	}
	for i := 0; i < p.ExcludedF2; i++ {
		vkExcluded(unit, "F2")
	}
	touched := c04Touched(p)
	progTouched := map[string]bool{}
	for _, tm := range touched {
		for k := range tm {
			progTouched[k] = true
		}
	}
	if len(c.Program.Rules) < len(p.Rules) {
		progTouched["fewer_rules_after"] = true
	}
	for _, r := range p.Rules {
		for _, cnd := range r.Conds {
			for _, v := range cnd.Vals {
				if v.Key == "regex" && v.Val != strings.ToLower(v.Val) {
					progTouched["case_significant_regex"] = true
				}
			}
		}
	}
	for k := range progTouched {
		vkClass(unit, "prog_"+k)
	}
	seeds := vrDomainSeeds(p)
	if o.Geo {
		seeds = append(seeds, "example.com", "ads.example.com", "x-1.net", "ab.x", "co", "b.co", "aa.net", "9z.com")
	}
	for i := 0; i < npk; i++ {
		k := vrGenPacketSeeds(t, p, seeds)
		if o.Geo && i%5 == 4 {
			// aim at the geoip tables
			pf := []string{}
			for _, codes := range vrGeoIps {
				for _, ps := range codes {
					pf = append(pf, ps...)
				}
			}
			sort.Strings(pf)
			k.Dst = netip.AddrPortFrom(vrGenAddrNear(t, "geo_dst", pf), k.Dst.Port())
		}
		want := vrInterpret(p, k)
		for n := 0; n < nCompile; n++ {
			ob, mark, must, err := vrRoute(ms[n], k)
			if ok, got := vrAgree(cs[n], want, ob, mark, must, err); !ok {
				var opt strings.Builder
				for _, r := range cs[n].Program.Rules {
					opt.WriteString("    " + r.String(false, false, true) + "\n")
				}
				t.Fatalf("compilation #%d of the parsed configuration: the compiled (normalised) program decides %s, the written rule list says %s\npacket %v\n--- config ---\n%s--- normalised rules ---\n%s--- triage (fresh parse) ---\n%s",
					n+1, got, want, k, text, opt.String(), vrTriage(p, k, geoDir))
			}
		}
		nt := ""
		cls := []string{}
		if want.Rule >= 0 && len(touched[want.Rule]) > 0 {
			nt = text + "\x00" + k.String()
			for kk := range touched[want.Rule] {
				cls = append(cls, "decided_by_"+kk)
			}
			sort.Strings(cls)
		} else if want.Rule < 0 {
			cls = append(cls, "pk_fallback")
		} else {
			cls = append(cls, "pk_untouched_rule")
		}
		kk := k
		vkCase(unit, nt, func() any {
			return map[string]any{"config": text, "packet": kk.String(), "decision": want.String()}
		}, cls...)
	}
}

func TestC04_Traffic(t *testing.T) {
	npk := 16
	if vkThorough() {
		npk = 32
	}
	spent := vrBudget(t)
	rapid.Check(t, func(t *rapid.T) {
		if spent() {
			vkClass(c04Unit, "skipped_wall_clock_budget")
			return
		}
		c04Check(t, c04Unit, vrOpts{MergeBias: true, Geo: true, MaxRules: 10}, npk)
	})
}

// Finding F1: MergeAndSortRulesOptimizer joins neighbouring single-condition rules
// that are both negated; not-a OR not-b becomes not-(a OR b).
func TestC04_Finding_F1(t *testing.T) {
	neg := func(v string) vrRule {
		return vrRule{Conds: []vrCond{{Func: "dip", Not: true, Vals: []vrValue{{Val: v}}}}, Out: vrOutbound{Name: "g0"}}
	}
	p := vrProgram{Groups: []string{"g0"}, Rules: []vrRule{neg("1.0.0.0/8"), neg("2.0.0.0/8")}, Fallback: vrOutbound{Name: "direct"}, FallbackPos: 2}
	m, c, err := vrBuildMatcher(vrRender(p), vrCompileOpts{})
	if err != nil {
		t.Fatalf("build: %v", err)
	}
	k := vrPacket{Src: netip.MustParseAddrPort("10.0.0.1:1000"), Dst: netip.MustParseAddrPort("1.1.1.1:443"), L4: "tcp"}
	want := vrInterpret(p, k)
	if want.Outbound != "g0" || want.Rule != 1 {
		t.Fatalf("reference interpreter: expected g0 by rule 1, got %v", want)
	}
	ob, mark, must, err := vrRoute(m, k)
	ok, got := vrAgree(c, want, ob, mark, must, err)
	if vkKnown("F1") {
		if !ok {
			vkKnownReproduced("F1")
			t.Logf("known finding F1 still reproduces: 1.1.1.1 decided %s, written rules say %s; normalised: %s", got, want, c.Program.Rules[0].String(false, false, true))
		} else {
			t.Logf("known finding F1 no longer reproduces")
		}
		vkCase("C04.finding_f1", "f1-known", nil)
		return
	}
	if !ok {
		t.Fatalf("`!dip(1.0.0.0/8) -> g0; !dip(2.0.0.0/8) -> g0`: 1.1.1.1 decided %s, written rules say %s (F1); normalised: %s", got, want, c.Program.Rules[0].String(false, false, true))
	}
	vkCase("C04.finding_f1", "f1", nil)
}

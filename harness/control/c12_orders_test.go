package control

// C12 — build orders. control_plane.go sequences the routing builder in several ways:
//
//	cold start:     New… → KernspaceSnapshot → snapshot.BuildKernspace → BuildUserspace
//	staged reload:  New… → KernspaceSnapshot → BuildUserspace → (later) snapshot.BuildKernspace   (CommitPreparedDatapath)
//	rollback:       … → snapshot.BuildKernspace once more                                        (RebuildReloadDatapath)
//
// "The userspace trie and the LPM keys written for the kernel describe the same
// sets" must hold in every one of them. rapid draws the order (several snapshots,
// userspace built between them, kernspace built from the builder or from any
// snapshot, repeatedly); after every kernspace build the keys delivered through the
// Kernspace hook are checked against containment, and once the userspace matcher
// exists, the rule outcome derived from the kernel keys against Match.

import (
	"encoding/binary"
	"fmt"
	"net/netip"
	"sort"
	"strings"
	"testing"

	"github.com/daeuniverse/dae/common/consts"
	"pgregory.net/rapid"
)

// c12Deliver runs one kernspace build with the sink installed and returns, per
// condition, the kernel LPM model of the slot its rewritten rule points at.
func c12Deliver(t *rapid.T, what string, conds []c12Cond, build func() error) []*c12Kern {
	maxEntries := uint32(consts.MaxMatchSetLen)
	var gotLpm []lpmMapResult
	var gotRules []bpfMatchSet
	var gotLen uint32
	delivered := 0
	verifSetHooks(&verifHooks{Kernspace: func(lpm []lpmMapResult, kernRules []bpfMatchSet, routingsLen uint32) {
		gotLpm, gotRules, gotLen = lpm, kernRules, routingsLen
		delivered++
	}})
	err := build()
	verifSetHooks(nil)
	if err != nil {
		t.Fatalf("%s: %v", what, err)
	}
	if delivered != 1 || int(gotLen) != len(conds)+1 || len(gotRules) != len(conds)+1 {
		t.Fatalf("%s: sink delivered %d times, routingsLen %d, %d rules; want 1, %d, %d", what, delivered, gotLen, len(gotRules), len(conds)+1, len(conds)+1)
	}
	if gotRules[len(conds)].Type != uint8(consts.MatchType_Fallback) {
		t.Fatalf("%s: last kernel rule is not the fallback", what)
	}
	slots := map[uint32]*c12Kern{}
	for _, r := range gotLpm {
		if r.lpmIndex >= maxEntries || slots[r.lpmIndex] != nil {
			t.Fatalf("%s: lpm_array_map slot %d out of range or written twice", what, r.lpmIndex)
		}
		if len(r.values) != len(r.keys) {
			t.Fatalf("%s: slot %d: %d keys, %d values", what, r.lpmIndex, len(r.keys), len(r.values))
		}
		k := c12NewKern()
		if err := k.load(r.keys); err != nil {
			t.Fatalf("%s: slot %d: %v", what, r.lpmIndex, err)
		}
		slots[r.lpmIndex] = k
	}
	kernOf := make([]*c12Kern, len(conds))
	for i, c := range conds {
		wantType := map[string]consts.MatchType{"ip": consts.MatchType_IpSet, "sip": consts.MatchType_SourceIpSet, "mac": consts.MatchType_Mac}[c.Fn]
		if consts.MatchType(gotRules[i].Type) != wantType || (gotRules[i].Not != 0) != c.Not {
			t.Fatalf("%s: kernel rule %d is type %d not %d, condition is %s", what, i, gotRules[i].Type, gotRules[i].Not, c)
		}
		slot := binary.LittleEndian.Uint32(gotRules[i].Value[:4])
		if kernOf[i] = slots[slot]; kernOf[i] == nil {
			t.Fatalf("%s: condition %d %s: kernel rule points at lpm_array_map slot %d, which this build did not write", what, i, c, slot)
		}
	}
	return kernOf
}

// c12KernOutcome evaluates the rules with every ip()/sip()/mac() condition answered
// by the kernel LPM model (what route() would conclude from the written keys).
func c12KernOutcome(rules []c12RuleT, kernOf []*c12Kern, src, dst, mac [16]byte) uint8 {
	i := 0
	for r, rule := range rules {
		all := true
		for _, c := range rule.Conds {
			var key [16]byte
			switch c.Fn {
			case "ip":
				key = dst
			case "sip":
				key = src
			default:
				key = mac
			}
			if kernOf[i].query(key) == c.Not {
				all = false
			}
			i++
		}
		if all {
			return uint8(r + 3)
		}
	}
	return 2
}

func TestC12_BuildOrders(t *testing.T) {
	known := vkKnown("F2")
	maxEntries := uint32(consts.MaxMatchSetLen)
	rapid.Check(t, func(t *rapid.T) {
		defer verifSetHooks(nil)
		g := c12NewGen(t, known) // the userspace matcher is always part of these cases
		rules, bases, macPool := c12GenRules(t, g)
		var conds []c12Cond
		for _, r := range rules {
			conds = append(conds, r.Conds...)
		}
		start := uint32(0)
		if rapid.Bool().Draw(t, "ringnearwrap") {
			start = maxEntries - uint32(rapid.IntRange(1, 2*len(conds)+2).Draw(t, "ringback"))
		}
		globalNextLpmIndex.Store(start)
		log := c12Log()
		b, err := NewRoutingMatcherBuilder(log, c12ConfigRules(rules), c12OutboundMap(len(rules)), &bpfObjects{}, "fb")
		if err != nil {
			t.Fatalf("NewRoutingMatcherBuilder(%s): %v", c12RulesString(rules), err)
		}

		// probe tuples, fixed for the whole case
		var addrPool [][16]byte
		for _, c := range conds {
			if c.Fn != "mac" {
				ps, _ := g.probes(t, c.Set, 0)
				addrPool = append(addrPool, ps...)
			}
		}
		for _, bs := range bases {
			ps, _ := g.probes(t, bs, 1)
			addrPool = append(addrPool, ps...)
		}
		type tuple struct{ src, dst, mac [16]byte }
		tuples := make([]tuple, rapid.IntRange(6, 24).Draw(t, "ntuples"))
		for i := range tuples {
			tuples[i] = tuple{rapid.SampledFrom(addrPool).Draw(t, "src"), rapid.SampledFrom(addrPool).Draw(t, "dst"), c12Mac16(c12GenMac(t, macPool))}
		}

		var m *RoutingMatcher
		var snaps []*routingKernspaceSnapshot
		var trace []string
		kernBuilds, kernAfterUser, rollback := 0, 0, 0
		lastSnapBuilt := -1

		checkKern := func(what string, kernOf []*c12Kern) {
			for _, tp := range tuples {
				i := 0
				judged := true
				for _, rule := range rules {
					for _, c := range rule.Conds {
						var key [16]byte
						switch c.Fn {
						case "ip":
							key = tp.dst
						case "sip":
							key = tp.src
						default:
							key = tp.mac
						}
						if c.Fn == "mac" && c.Not && tp.mac == [16]byte{} {
							judged = false
							i++
							continue
						}
						want := c12SetContains(c.prefixes(), netip.AddrFrom16(key))
						if got := kernOf[i].query(key); got != want {
							t.Fatalf("order %v, after %s: condition %d %s, address %v: keys written for the kernel answer %v, containment %v\nrules: %s",
								trace, what, i, c, netip.AddrFrom16(key), got, want, c12RulesString(rules))
						}
						i++
					}
				}
				if m == nil || !judged {
					continue
				}
				kout := c12KernOutcome(rules, kernOf, tp.src, tp.dst, tp.mac)
				ipv := consts.IpVersion_6
				if c12Is4In6(tp.dst) {
					ipv = consts.IpVersion_4
				}
				uout, _, _, err := m.Match(tp.src, tp.dst, 1234, 443, ipv, consts.L4ProtoType_TCP, "", [16]uint8{}, 0, tp.mac)
				if err != nil {
					t.Fatalf("Match: %v", err)
				}
				want, _ := c12Expect(rules, tp.src, tp.dst, tp.mac)
				if uint8(uout) != kout || kout != want {
					t.Fatalf("order %v, after %s: src %v dst %v mac %x: kernel keys -> outbound %d, userspace Match -> %d, containment -> %d\nrules: %s",
						trace, what, netip.AddrFrom16(tp.src), netip.AddrFrom16(tp.dst), tp.mac[10:], kout, uout, want, c12RulesString(rules))
				}
			}
		}

		// control_plane.go always takes the first snapshot right after construction.
		if rapid.IntRange(0, 9).Draw(t, "firstsnap") > 0 {
			snaps = append(snaps, b.KernspaceSnapshot())
			trace = append(trace, "snapshot")
		}
		nops := rapid.IntRange(2, 7).Draw(t, "nops")
		for op := 0; op < nops; op++ {
			choices := []string{}
			if m == nil {
				choices = append(choices, "snapshot", "userspace", "kern(builder)")
				if len(snaps) == 0 {
					// a snapshot taken after BuildUserspace is empty by design; never
					// build userspace before something holds the kernel view.
					choices = []string{"snapshot", "kern(builder)"}
				}
			}
			for range snaps {
				choices = append(choices, "kern(snapshot)")
			}
			if len(snaps) > 0 && m != nil {
				choices = append(choices, "kern(snapshot)", "kern(snapshot)")
			}
			switch rapid.SampledFrom(choices).Draw(t, "op") {
			case "snapshot":
				snaps = append(snaps, b.KernspaceSnapshot())
				trace = append(trace, "snapshot")
			case "userspace":
				if m, err = b.BuildUserspace(); err != nil {
					t.Fatalf("order %v: BuildUserspace: %v", trace, err)
				}
				trace = append(trace, "userspace")
			case "kern(builder)":
				trace = append(trace, "kern(builder)")
				checkKern("builder.BuildKernspace", c12Deliver(t, "builder.BuildKernspace", conds, func() error { _, e := b.BuildKernspace(log); return e }))
				kernBuilds++
			default:
				si := rapid.IntRange(0, len(snaps)-1).Draw(t, "whichsnap")
				what := fmt.Sprintf("kern(snapshot#%d)", si)
				trace = append(trace, what)
				checkKern(what, c12Deliver(t, what, conds, func() error { _, e := snaps[si].BuildKernspace(log, &bpfObjects{}); return e }))
				kernBuilds++
				if m != nil {
					kernAfterUser++
				}
				if lastSnapBuilt == si {
					rollback++
				}
				lastSnapBuilt = si
			}
		}
		// every case ends like a reload: userspace exists, then commit and rollback.
		if len(snaps) > 0 {
			if m == nil {
				if m, err = b.BuildUserspace(); err != nil {
					t.Fatalf("order %v: BuildUserspace: %v", trace, err)
				}
				trace = append(trace, "userspace")
			}
			si := rapid.IntRange(0, len(snaps)-1).Draw(t, "finalsnap")
			for _, what := range []string{fmt.Sprintf("commit kern(snapshot#%d)", si), fmt.Sprintf("rollback kern(snapshot#%d)", si)} {
				trace = append(trace, what)
				checkKern(what, c12Deliver(t, what, conds, func() error { _, e := snaps[si].BuildKernspace(log, &bpfObjects{}); return e }))
				kernBuilds++
				kernAfterUser++
			}
			rollback++
		}
		if g.exclN > 0 {
			vkExcluded("C12.orders", "F2")
		}
		cl := []string{}
		if kernAfterUser > 0 {
			cl = append(cl, "kern_after_userspace")
		}
		if rollback > 0 {
			cl = append(cl, "same_snapshot_twice")
		}
		if len(snaps) > 1 {
			cl = append(cl, "several_snapshots")
		}
		if len(snaps) == 0 {
			cl = append(cl, "no_snapshot")
		}
		if strings.Contains(strings.Join(trace, ">"), "kern(builder)") {
			cl = append(cl, "kern_from_builder")
		}
		if len(trace) > 1 && strings.HasPrefix(strings.Join(trace, ">"), "snapshot>kern(snapshot#0)") {
			cl = append(cl, "cold_start_order")
		}
		if len(trace) > 1 && strings.HasPrefix(strings.Join(trace, ">"), "snapshot>userspace") {
			cl = append(cl, "staged_reload_order")
		}
		sort.Strings(cl)
		key := ""
		if kernBuilds > 0 {
			key = strings.Join(trace, ">") + "|" + c12RulesString(rules)
		}
		vkCase("C12.orders", key, func() any {
			return map[string]any{"order": strings.Join(trace, " > "), "rules": c12RulesString(rules)}
		}, cl...)
	})
}

// ---------------------------------------------------------------- generations
//
// Several programs (generations) share ONE lpm_array_map and ONE routing_map.
// buildRoutingKernspace first writes the new LPM slots and only then swaps
// routing_map, so while a build runs the previously written rules are still live
// ("hot-reload windows where old and new rules may overlap briefly", comment on
// globalNextLpmIndex). The slots those rules point at must therefore still hold
// their own sets after the next build's LPM writes; and after the swap the new
// rules must resolve, in the shared array, to their own sets. Production sequences:
// prepare generation N+1 (New… → KernspaceSnapshot → BuildUserspace) while N is
// live, commit it (snapshot.BuildKernspace), roll back (rebuild N), rebuild the same
// generation twice. Ring assumption taken from the code: MaxMatchSetLen (1024)
// slots handed out consecutively; a slot may legitimately be reused only once the
// cursor has wrapped, i.e. when two consecutive builds together need more than
// MaxMatchSetLen slots — never the case here (≤ ~30 per program), asserted below.

type c12Generation struct {
	rules []c12RuleT
	conds []c12Cond
	snap  *routingKernspaceSnapshot
	m     *RoutingMatcher
}

type c12Delivery struct {
	gen   int
	rules []bpfMatchSet            // rewritten rules as written to routing_map
	slots map[uint32][]netip.Prefix // slot -> set handed to the kernel (decoded keys)
}

func c12KeysToPrefixes(keys []_bpfLpmKey) ([]netip.Prefix, error) {
	out := make([]netip.Prefix, 0, len(keys))
	for _, k := range keys {
		raw, err := c12RawKey(k)
		if err != nil {
			return nil, err
		}
		pl := binary.NativeEndian.Uint32(raw[:4])
		if pl > c12MaxPrefixLen {
			return nil, fmt.Errorf("kernel would reject key %+v: prefixlen %d", k, pl)
		}
		var a [16]byte
		copy(a[:], raw[4:])
		out = append(out, netip.PrefixFrom(netip.AddrFrom16(a), int(pl)))
	}
	return out, nil
}

func TestC12_Generations(t *testing.T) {
	known := vkKnown("F2")
	maxEntries := uint32(consts.MaxMatchSetLen)
	rapid.Check(t, func(t *rapid.T) {
		defer verifSetHooks(nil)
		g := c12NewGen(t, known)
		log := c12Log()
		start := uint32(0)
		switch rapid.IntRange(0, 2).Draw(t, "ringstart") {
		case 1:
			start = maxEntries - uint32(rapid.IntRange(1, 40).Draw(t, "ringback"))
		case 2:
			start = uint32(rapid.IntRange(0, int(maxEntries)-1).Draw(t, "ringany"))
		}
		globalNextLpmIndex.Store(start)

		ngen := rapid.IntRange(2, 4).Draw(t, "ngen")
		gens := make([]*c12Generation, ngen)
		var macPoolAll [][6]byte
		var addrPool [][16]byte
		hasMac := false
		for gi := range gens {
			rules, bases, macPool := c12GenRules(t, g)
			if rapid.IntRange(0, 2).Draw(t, "addmac") > 0 {
				// mac() sets take an LPM trie without a dedup entry
				cond := c12Cond{Fn: "mac", Not: rapid.IntRange(0, 3).Draw(t, "macnot") == 0, Base: -1}
				for i, n := 0, rapid.IntRange(1, 3).Draw(t, "nmac"); i < n; i++ {
					mm := c12GenMac(t, macPool)
					macPool = append(macPool, mm)
					cond.Macs = append(cond.Macs, mm)
				}
				pos := rapid.IntRange(0, len(rules)).Draw(t, "macpos")
				nr := c12RuleT{Conds: []c12Cond{cond}}
				rules = append(rules[:pos:pos], append([]c12RuleT{nr}, rules[pos:]...)...)
			}
			for r := range rules {
				rules[r].Out = fmt.Sprintf("g%d", r+3)
			}
			gen := &c12Generation{rules: rules}
			for _, r := range rules {
				for _, c := range r.Conds {
					gen.conds = append(gen.conds, c)
					if c.Fn == "mac" {
						hasMac = true
					} else {
						ps, _ := g.probes(t, c.Set, 0)
						addrPool = append(addrPool, ps...)
					}
				}
			}
			for _, bs := range bases {
				ps, _ := g.probes(t, bs, 1)
				addrPool = append(addrPool, ps...)
			}
			macPoolAll = append(macPoolAll, macPool...)
			// prepare, as newControlPlane does with delayDatapathCommit
			b, err := NewRoutingMatcherBuilder(log, c12ConfigRules(rules), c12OutboundMap(len(rules)), &bpfObjects{}, "fb")
			if err != nil {
				t.Fatalf("NewRoutingMatcherBuilder(%s): %v", c12RulesString(rules), err)
			}
			gen.snap = b.KernspaceSnapshot()
			if gen.m, err = b.BuildUserspace(); err != nil {
				t.Fatalf("BuildUserspace: %v", err)
			}
			gens[gi] = gen
		}
		type tuple struct{ src, dst, mac [16]byte }
		tuples := make([]tuple, rapid.IntRange(6, 20).Draw(t, "ntuples"))
		for i := range tuples {
			tuples[i] = tuple{rapid.SampledFrom(addrPool).Draw(t, "src"), rapid.SampledFrom(addrPool).Draw(t, "dst"), c12Mac16(c12GenMac(t, macPoolAll))}
		}

		// the shared kernel state
		array := map[uint32][]netip.Prefix{} // lpm_array_map: slot -> latest set
		var live *c12Delivery                // whose rules routing_map holds
		var trace []string

		// resolve checks that delivery d's rules, looked up in the shared array,
		// denote the sets of its generation's conditions.
		resolve := func(d *c12Delivery, when string) {
			gen := gens[d.gen]
			for i, c := range gen.conds {
				slot := binary.LittleEndian.Uint32(d.rules[i].Value[:4])
				cur, ok := array[slot]
				if !ok {
					t.Fatalf("builds %v, %s: generation %d condition %d %s points at lpm_array_map slot %d, which is empty", trace, when, d.gen, i, c, slot)
				}
				if !c12SameAddrs(c, cur) {
					t.Fatalf("builds %v, %s: generation %d condition %d %s resolves through lpm_array_map slot %d to %v — another set (it was given %v)\nprogram: %s",
						trace, when, d.gen, i, c, slot, cur, d.slots[slot], c12RulesString(gen.rules))
				}
			}
		}

		nbuilds := rapid.IntRange(2, 5).Draw(t, "nbuilds")
		rebuilt, switched := 0, 0
		for bi := 0; bi < nbuilds; bi++ {
			gi := rapid.IntRange(0, ngen-1).Draw(t, "buildgen")
			if live != nil && rapid.IntRange(0, 3).Draw(t, "rollback") == 0 {
				gi = live.gen // RebuildReloadDatapath: same generation again
			}
			gen := gens[gi]
			what := fmt.Sprintf("gen%d", gi)
			trace = append(trace, what)
			var gotLpm []lpmMapResult
			var gotRules []bpfMatchSet
			delivered := 0
			verifSetHooks(&verifHooks{Kernspace: func(lpm []lpmMapResult, kernRules []bpfMatchSet, routingsLen uint32) {
				gotLpm, gotRules = lpm, append([]bpfMatchSet(nil), kernRules...)
				delivered++
			}})
			_, err := gen.snap.BuildKernspace(log, &bpfObjects{})
			verifSetHooks(nil)
			if err != nil || delivered != 1 || len(gotRules) != len(gen.conds)+1 {
				t.Fatalf("builds %v: BuildKernspace err=%v delivered=%d rules=%d (want %d)", trace, err, delivered, len(gotRules), len(gen.conds)+1)
			}
			d := &c12Delivery{gen: gi, rules: gotRules, slots: map[uint32][]netip.Prefix{}}
			for _, r := range gotLpm {
				if r.lpmIndex >= maxEntries {
					t.Fatalf("builds %v: slot %d out of range", trace, r.lpmIndex)
				}
				if _, dup := d.slots[r.lpmIndex]; dup {
					t.Fatalf("builds %v: slot %d written twice in one build", trace, r.lpmIndex)
				}
				ps, err := c12KeysToPrefixes(r.keys)
				if err != nil {
					t.Fatalf("builds %v: slot %d: %v", trace, r.lpmIndex, err)
				}
				d.slots[r.lpmIndex] = ps
			}
			if live != nil && len(live.slots)+len(d.slots) > int(maxEntries) {
				t.Skip("harness assumption broken: two consecutive builds exceed the ring")
			}
			// step 1 of the build: LPM slots are written; routing_map still holds the
			// previous rules.
			for slot, ps := range d.slots {
				array[slot] = ps
			}
			if live != nil {
				resolve(live, fmt.Sprintf("while build #%d (%s) has written its LPM slots and the rules of the previous build (gen%d) are still in routing_map", bi, what, live.gen))
				if live.gen == gi {
					rebuilt++
				} else {
					switched++
				}
			}
			// step 2: routing_map is swapped.
			live = d
			resolve(live, fmt.Sprintf("after build #%d (%s)", bi, what))
			// outcomes: route() over the shared array vs containment vs this
			// generation's userspace matcher.
			kernOf := make([]*c12Kern, len(gen.conds))
			for i := range gen.conds {
				slot := binary.LittleEndian.Uint32(d.rules[i].Value[:4])
				for _, r := range gotLpm {
					if r.lpmIndex == slot {
						k := c12NewKern()
						if err := k.load(r.keys); err != nil {
							t.Fatalf("builds %v: slot %d: %v", trace, slot, err)
						}
						kernOf[i] = k
					}
				}
				if kernOf[i] == nil {
					t.Fatalf("builds %v: generation %d rule %d points at slot %d, not written by its own build", trace, gi, i, slot)
				}
			}
			for _, tp := range tuples {
				want, judged := c12Expect(gen.rules, tp.src, tp.dst, tp.mac)
				if !judged {
					continue
				}
				kout := c12KernOutcome(gen.rules, kernOf, tp.src, tp.dst, tp.mac)
				ipv := consts.IpVersion_6
				if c12Is4In6(tp.dst) {
					ipv = consts.IpVersion_4
				}
				uout, _, _, err := gen.m.Match(tp.src, tp.dst, 1, 2, ipv, consts.L4ProtoType_UDP, "", [16]uint8{}, 0, tp.mac)
				if err != nil {
					t.Fatalf("Match: %v", err)
				}
				if kout != want || uint8(uout) != want {
					t.Fatalf("builds %v: gen%d src %v dst %v mac %x: kernel keys -> %d, userspace -> %d, containment -> %d\nprogram: %s",
						trace, gi, netip.AddrFrom16(tp.src), netip.AddrFrom16(tp.dst), tp.mac[10:], kout, uout, want, c12RulesString(gen.rules))
				}
			}
		}
		if g.exclN > 0 {
			vkExcluded("C12.generations", "F2")
		}
		cl := []string{}
		if hasMac {
			cl = append(cl, "has_mac_set")
		}
		if rebuilt > 0 {
			cl = append(cl, "rebuild_same_generation")
		}
		if switched > 0 {
			cl = append(cl, "switch_generation")
		}
		if start+64 > maxEntries {
			cl = append(cl, "ring_near_wrap")
		}
		key := ""
		if hasMac || switched > 0 {
			ps := []string{}
			for _, gen := range gens {
				ps = append(ps, c12RulesString(gen.rules))
			}
			key = strings.Join(trace, ">") + "|" + strings.Join(ps, "||")
		}
		vkCase("C12.generations", key, func() any {
			return map[string]any{"builds": strings.Join(trace, " > "), "generations": ngen, "ring_start": start}
		}, cl...)
	})
}

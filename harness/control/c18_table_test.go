package control

// C18 unit "table": ChooseDialTarget against the statement's table. One rapid case =
// one world in a bubble driven by a short history of production-path insertions,
// real-domain verdicts, virtual-clock jumps and queries.

import (
	"fmt"
	"net/netip"
	"sort"
	"strings"
	"testing"
	"time"

	"github.com/daeuniverse/dae/common/consts"
	dnsmessage "github.com/miekg/dns"
	"pgregory.net/rapid"
)

const c18UnitTable = "C18.table"

func c18GenInsert(t *rapid.T, names []string) c18Insert {
	n := rapid.SampledFrom(names).Draw(t, "ins_name")
	in := c18Insert{Name: n}
	if rapid.IntRange(0, 9).Draw(t, "ins_othertype") < 7 {
		in.Qtype = rapid.SampledFrom([]uint16{dnsmessage.TypeA, dnsmessage.TypeAAAA}).Draw(t, "ins_qtype")
	} else {
		in.Qtype = rapid.SampledFrom(c18OtherQtypes).Draw(t, "ins_qtype")
	}
	in.Ttl = rapid.SampledFrom([]uint32{0, 1, 5, 9, 10, 11, 30, 60, 120, 300, 3600, 40000000}).Draw(t, "ins_ttl")
	in.QName = n + "."
	if rapid.IntRange(0, 4).Draw(t, "ins_case") == 0 {
		in.QName = c18MixCase(t, n) + "."
	}
	switch k := rapid.IntRange(0, 19).Draw(t, "ins_shape"); {
	case k < 11:
		in.Shape = "addr"
	case k < 14:
		in.Shape = "cname+addr"
	case k < 16:
		in.Shape = "nodata"
	case k < 18:
		in.Shape = "nxdomain"
	case k < 19:
		in.Shape = "servfail"
	default:
		in.Shape = "addr"
		in.ViaHost = c18IsAddrType(in.Qtype)
	}
	in.Scope = rapid.SampledFrom([]string{"", "", "upstream@udp://8.8.8.8:53", "asis@1.1.1.1:53", "asis"}).Draw(t, "ins_scope")
	return in
}

type c18Query struct {
	Mode   consts.DialMode
	Ob     consts.OutboundIndex
	ObKind string
	Dst    netip.AddrPort
	Sn     c18Sniff
}

func c18GenQuery(t *rapid.T, names []string, focus []string, ctr *int, pipeline bool) c18Query {
	q := c18Query{}
	q.Mode = rapid.SampledFrom([]consts.DialMode{consts.DialMode_Domain, consts.DialMode_Domain, consts.DialMode_Domain, consts.DialMode_DomainCao, consts.DialMode_DomainPlus, consts.DialMode_Ip}).Draw(t, "mode")
	q.Ob, q.ObKind = c18GenOutbound(t)
	q.Dst = c18GenDst(t)
	if pipeline {
		q.Sn = c18Pipeline(c18GenRawHost(t, names, focus, q.Dst, ctr))
	} else {
		q.Sn = c18GenSniff(t, names, focus, q.Dst, ctr)
	}
	return q
}

// c18Ask runs one query against the world and judges it. Returns classes + ntKey.
func (w *c18World) c18Ask(t *rapid.T, unit string, q c18Query) {
	now := time.Now()
	v := w.c18Expect(q.Mode, q.Ob.IsReserved(), q.Dst, q.Sn, now)
	w.cp.dialMode = q.Mode
	target, reroute, dialIp := w.cp.ChooseDialTarget(q.Ob, q.Dst, q.Sn.S)
	got := c18Got{Target: target, Reroute: reroute, DialIp: dialIp}
	took, lpd, err := c18Judge(v, got, q.Dst, q.Sn)
	if err != nil {
		t.Fatalf("C18 violated: mode=%q outbound=%d(%s) dst=%v sniffed=%q (%s): got target=%q reroute=%v dialIp=%v: %v\nmodel: dns=%v verified=%v neg=%v now=%v",
			q.Mode, q.Ob, q.ObKind, q.Dst, q.Sn.S, q.Sn.Kind, target, reroute, dialIp, err, w.dns[q.Sn.Bare], w.verified, w.neg, now)
	}
	classes := []string{
		"mode_" + string(q.Mode), "ob_" + q.ObKind, "dst_" + c18DstFamily(q.Dst.Addr()), "sniff_" + q.Sn.Kind,
		"cell_" + v.Cell, "want_" + v.Want.String() + "_took_" + took,
	}
	switch q.Dst.Port() {
	case 1, 53, 443, 65535:
		classes = append(classes, fmt.Sprintf("port_%d", q.Dst.Port()))
	}
	if reroute {
		classes = append(classes, "reroute_"+string(q.Mode))
	}
	if lpd {
		classes = append(classes, "literal_port_dialIp_false")
	}
	key := ""
	if v.NonTrivia {
		key = fmt.Sprintf("%s|%d|%v|%q|%s|%s", q.Mode, q.Ob, q.Dst, q.Sn.S, v.Cell, took)
	}
	vkCase(unit, key, func() any {
		return map[string]any{"mode": string(q.Mode), "outbound": int(q.Ob), "dst": q.Dst.String(), "sniffed": q.Sn.S, "cell": v.Cell,
			"target": target, "reroute": reroute, "dialIp": dialIp}
	}, classes...)
}

// c18AdvanceToEdge: jump next to a deadline the model knows about.
func (w *c18World) c18Deadlines(now time.Time) []time.Time {
	var ds []time.Time
	for _, name := range c18PoolNames {
		qts := make([]int, 0, len(w.dns[name]))
		for qt := range w.dns[name] {
			qts = append(qts, int(qt))
		}
		sort.Ints(qts)
		for _, qt := range qts {
			for _, e := range w.dns[name][uint16(qt)] {
				if e.exp.After(now) && e.exp.Sub(now) <= 2*time.Hour {
					ds = append(ds, e.exp)
				}
				if e.sureUntil.After(now) && e.sureUntil.Before(e.exp) && e.sureUntil.Sub(now) <= 2*time.Hour {
					ds = append(ds, e.sureUntil)
				}
			}
		}
	}
	// neg entries in a deterministic order
	for _, name := range c18PoolNames {
		for _, s := range []string{name, name + ".", strings.ToUpper(name)} {
			if e, ok := w.neg[s]; ok && e.After(now) {
				ds = append(ds, e)
			}
		}
	}
	return ds
}

func TestC18_Table(t *testing.T) {
	rapid.Check(t, func(rt *rapid.T) {
		c18Bubble(t, func(cleanup *[]func()) {
			fixed := map[string]int{}
			if rapid.IntRange(0, 3).Draw(rt, "usefixed") > 0 {
				// fixed_domain_ttl shorter and longer than the answers' TTLs
				fixed[c18PoolNames[0]] = rapid.SampledFrom([]int{1, 5, 0, 30}).Draw(rt, "fixed_short")
				fixed[c18PoolNames[1]] = rapid.SampledFrom([]int{3600, 600, 86400}).Draw(rt, "fixed_long")
				fixed[c18PoolNames[2]] = rapid.SampledFrom([]int{5, 600, 60}).Draw(rt, "fixed_mid")
			}
			w := c18NewWorldFixed(consts.DialMode_Ip, nil, rapid.Bool().Draw(rt, "optimistic"), fixed)
			*cleanup = append(*cleanup, w.close)
			ctr := 0
			nops := rapid.IntRange(20, 60).Draw(rt, "nops")
			for i := 0; i < nops; i++ {
				switch k := rapid.IntRange(0, 99).Draw(rt, "op"); {
				case k < 64:
					q := c18GenQuery(rt, c18PoolNames, w.focus, &ctr, k >= 54)
					w.c18Ask(rt, c18UnitTable, q)
				case k < 78:
					in := c18GenInsert(rt, c18PoolNames)
					if err := w.insert(in); err != nil {
						rt.Fatalf("production cache insert failed for %+v: %v", in, err)
					}
					vkClass(c18UnitTable, "op_insert_"+in.Shape)
				case k < 90:
					var d time.Duration
					ds := w.c18Deadlines(time.Now())
					if len(ds) > 0 && rapid.IntRange(0, 2).Draw(rt, "toedge") > 0 {
						e := ds[rapid.IntRange(0, len(ds)-1).Draw(rt, "edge")]
						d = e.Sub(time.Now()) + rapid.SampledFrom([]time.Duration{-time.Second, -1, 0, 1, time.Second}).Draw(rt, "edgedelta")
						vkClass(c18UnitTable, "op_sleep_to_deadline")
					} else {
						d = time.Duration(rapid.SampledFrom([]int{1, 4, 5, 6, 9, 10, 11, 29, 30, 31, 60, 119, 120, 121, 299, 300, 301, 3600, 7200}).Draw(rt, "sleep_s")) * time.Second
						vkClass(c18UnitTable, "op_sleep")
					}
					if d > 0 {
						time.Sleep(d)
					}
				case k < 93:
					w.c18ShadowScenario(rt)
				case k < 95:
					fresh := rapid.Bool().Draw(rt, "reload_fresh")
					if err := w.reload(fresh); err != nil {
						rt.Fatalf("reload (fresh=%v) failed: %v", fresh, err)
					}
					vkClass(c18UnitTable, fmt.Sprintf("op_reload_fresh_%v", fresh))
				case k < 97:
					w.c18ReloadScenario(rt)
				default:
					// a real-domain probe verdict for some spelling of a pool name
					n := rapid.SampledFrom(c18PoolNames).Draw(rt, "rd_name")
					s := rapid.SampledFrom([]string{n, n, n, n + ".", strings.ToUpper(n)}).Draw(rt, "rd_form")
					if rapid.Bool().Draw(rt, "rd_real") {
						w.verify(s)
						vkClass(c18UnitTable, "op_verify")
					} else if !w.verified[s] {
						w.negCache(s)
						vkClass(c18UnitTable, "op_negcache")
					}
				}
			}
		})
	})
}

// c18ShadowScenario: a short-lived address answer and a longer-lived answer of
// another record type whose number shares its leading digits (A=1: 16, 15, 12, 10,
// 11, 13, 19, 100; AAAA=28: 280, 281) for the same name, in either order; then the
// clock passes the address answer's expiry and one or two janitor rounds (30 s),
// and the name is asked for in domain mode with a destination of that family.
func (w *c18World) c18ShadowScenario(rt *rapid.T) {
	name := rapid.SampledFrom(c18PoolNames).Draw(rt, "sh_name")
	v6 := rapid.Bool().Draw(rt, "sh_v6")
	addr := c18Insert{Name: name, QName: name + ".", Qtype: dnsmessage.TypeA, Shape: "addr",
		Ttl: rapid.SampledFrom([]uint32{1, 5, 9, 30}).Draw(rt, "sh_ttl")}
	other := c18Insert{Name: name, QName: name + ".", Shape: "addr",
		Ttl: rapid.SampledFrom([]uint32{300, 3600, 120}).Draw(rt, "sh_other_ttl")}
	if v6 {
		addr.Qtype = dnsmessage.TypeAAAA
		other.Qtype = rapid.SampledFrom([]uint16{280, 281, 16, 65}).Draw(rt, "sh_other")
	} else {
		other.Qtype = rapid.SampledFrom([]uint16{16, 15, 12, 10, 11, 13, 19, 100, 257}).Draw(rt, "sh_other")
	}
	addr.Scope = rapid.SampledFrom([]string{"", "upstream@udp://8.8.8.8:53"}).Draw(rt, "sh_scope")
	other.Scope = rapid.SampledFrom([]string{"", "upstream@udp://8.8.8.8:53", "asis"}).Draw(rt, "sh_other_scope")
	order := []c18Insert{addr, other}
	if rapid.Bool().Draw(rt, "sh_otherfirst") {
		order = []c18Insert{other, addr}
	}
	for _, in := range order {
		if err := w.insert(in); err != nil {
			rt.Fatalf("production cache insert failed for %+v: %v", in, err)
		}
	}
	vkClass(c18UnitTable, "op_shadow_scenario")
	dst := netip.MustParseAddrPort("203.0.113.9:443")
	if v6 {
		dst = netip.MustParseAddrPort("[2001:db8::1]:443")
	}
	ask := func() {
		q := c18Query{Mode: consts.DialMode_Domain, Ob: consts.OutboundUserDefinedMin, ObKind: "user", Dst: dst, Sn: c18Classify(name, "name")}
		w.c18Ask(rt, c18UnitTable, q)
	}
	ask() // while the address answer is live
	time.Sleep(time.Duration(addr.Ttl)*time.Second + time.Duration(rapid.SampledFrom([]int{31, 61, 1, 95}).Draw(rt, "sh_wait"))*time.Second)
	ask() // after expiry (and usually eviction) of the address answer
}

// c18ReloadScenario: a name with a fixed_domain_ttl entry is resolved through dae,
// the configuration is reloaded, and the name is asked for between the fixed
// deadline and the answer's own deadline (whichever comes first) and after both.
func (w *c18World) c18ReloadScenario(rt *rapid.T) {
	if len(w.fixed) == 0 {
		return
	}
	idx := rapid.IntRange(0, 2).Draw(rt, "rl_name")
	name := c18PoolNames[idx]
	fixed := w.fixed[name]
	v6 := rapid.Bool().Draw(rt, "rl_v6")
	in := c18Insert{Name: name, QName: name + ".", Qtype: dnsmessage.TypeA, Shape: "addr",
		Ttl:   rapid.SampledFrom([]uint32{300, 1, 5, 60, 0}).Draw(rt, "rl_ttl"),
		Scope: rapid.SampledFrom([]string{"", "upstream@udp://8.8.8.8:53"}).Draw(rt, "rl_scope")}
	dst := netip.MustParseAddrPort("203.0.113.9:443")
	if v6 {
		in.Qtype = dnsmessage.TypeAAAA
		dst = netip.MustParseAddrPort("[2001:db8::1]:443")
	}
	if err := w.insert(in); err != nil {
		rt.Fatalf("production cache insert failed for %+v: %v", in, err)
	}
	ask := func() {
		q := c18Query{Mode: consts.DialMode_Domain, Ob: consts.OutboundUserDefinedMin, ObKind: "user", Dst: dst, Sn: c18Classify(name, "name")}
		w.c18Ask(rt, c18UnitTable, q)
	}
	ask()
	if rapid.IntRange(0, 3).Draw(rt, "rl_presleep") == 0 {
		time.Sleep(time.Second)
	}
	fresh := rapid.Bool().Draw(rt, "rl_fresh")
	if err := w.reload(fresh); err != nil {
		rt.Fatalf("reload (fresh=%v) failed: %v", fresh, err)
	}
	vkClass(c18UnitTable, fmt.Sprintf("op_reload_scenario_fresh_%v", fresh))
	ask()
	lo, hi := time.Duration(fixed)*time.Second, time.Duration(in.Ttl)*time.Second
	if lo > hi {
		lo, hi = hi, lo
	}
	// into the window between the two deadlines, then past both
	time.Sleep(lo + time.Second + time.Duration(rapid.IntRange(0, 2).Draw(rt, "rl_in"))*time.Second)
	ask()
	if hi-lo < 2*time.Hour {
		time.Sleep(hi - lo + 31*time.Second)
		ask()
	}
}

package control

// C18 — dial target per dial_mode. Shared machinery: a world (ControlPlane literal +
// real DnsController inside a testing/synctest bubble), a reference model of what
// dae can know about a name, the generators and the oracle (the statement's table).

import (
	"context"
	"fmt"
	"io"
	"net"
	"net/netip"
	"strconv"
	"strings"
	"testing"
	"testing/synctest"
	"time"

	"github.com/bits-and-blooms/bloom/v3"
	"github.com/daeuniverse/dae/common/consts"
	"github.com/daeuniverse/dae/common/netutils"
	"github.com/daeuniverse/dae/component/sniffing"
	"github.com/daeuniverse/outbound/netproxy"
	dnsmessage "github.com/miekg/dns"
	"github.com/sirupsen/logrus"
	"pgregory.net/rapid"
)

// ---------------------------------------------------------------------------
// bubble helper: run body inside a synctest bubble, recover a rapid failure
// there, tear down inside the bubble, re-raise on rapid's goroutine.

func c18Bubble(t *testing.T, body func(cleanup *[]func())) {
	var pv any
	synctest.Test(t, func(*testing.T) {
		var cl []func()
		func() {
			defer func() { pv = recover() }()
			body(&cl)
		}()
		for i := len(cl) - 1; i >= 0; i-- {
			cl[i]()
		}
		synctest.Wait()
	})
	// rapid's shrinker identifies "the same failure" by the traceback of the panic
	// site, so the three kinds of panic are re-raised from three different lines
	// (otherwise an "invalid data" abort of a shrink candidate is mistaken for the
	// original failure).
	switch fmt.Sprintf("%T", pv) {
	case "<nil>":
	case "rapid.invalidData":
		panic(pv)
	case "rapid.stopTest":
		panic(pv)
	default:
		panic(pv)
	}
}

// ---------------------------------------------------------------------------
// world

type c18Fresh int

const (
	c18Expired  c18Fresh = iota // strictly past its deadline (or never known)
	c18Boundary                 // now == deadline: statement does not settle it
	c18Live                     // strictly before its deadline
)

type c18DnsEntry struct {
	exp       time.Time // original deadline of the answer (what knowledge follows)
	hasAnswer bool      // false: NOERROR/NODATA (no record of that type)
	// sureUntil: until then the knowledge certainly exists. It is earlier than exp
	// when fixed_domain_ttl lets the cache entry be evicted before its original
	// TTL (eviction forgets the knowledge; when the janitor gets there is not
	// modelled), and for an entry whose cache key was overwritten by a later
	// answer (its contribution survives only until the next knowledge re-sync).
	// Between sureUntil and exp either behaviour is accepted.
	sureUntil time.Time
	scope     string
	replaced  bool
}

type c18World struct {
	cp  *ControlPlane
	dc  *DnsController
	ctx context.Context
	// model ---------------------------------------------------------------
	// what was resolved through dae: bare lower-case name -> qtype -> entries
	dns map[string]map[uint16][]c18DnsEntry
	// strings the real-domain probe verified / negatively cached (exact strings)
	verified map[string]bool
	// spellings whose probe got a record from one family and an error from the
	// other: the statement does not settle whether that verifies the name
	maybeVerified map[string]bool
	neg           map[string]time.Time
	// probe unit only: what the stub resolver says about a bare name
	probeTruth map[string]string // see c18ProbeOutcomes (first bootstrap resolver)
	// second bootstrap resolver, when the world has two: its own view of each name
	probeTruth2 map[string]string
	resolver2   netip.AddrPort
	probeCalls  []string
	focus       []string       // recently touched spellings (generator aid only)
	fixed       map[string]int // fixed_domain_ttl
	optimistic  bool
	opt         *DnsControllerOption
	reloads     int
}

func (w *c18World) touch(s string) {
	for i, f := range w.focus {
		if f == s {
			w.focus = append(w.focus[:i], w.focus[i+1:]...)
			break
		}
	}
	w.focus = append([]string{s}, w.focus...)
	if len(w.focus) > 4 {
		w.focus = w.focus[:4]
	}
}

func c18Log() *logrus.Logger {
	l := logrus.New()
	l.SetOutput(io.Discard)
	return l
}

// c18NewWorld must be called inside a bubble. No bootstrap resolvers unless given.
func c18NewWorld(mode consts.DialMode, resolvers []netip.AddrPort, optimistic bool) *c18World {
	return c18NewWorldFixed(mode, resolvers, optimistic, nil)
}

const c18OptimisticTtl = 3600

// c18NewWorldFixed additionally configures dns.fixed_domain_ttl.
func c18NewWorldFixed(mode consts.DialMode, resolvers []netip.AddrPort, optimistic bool, fixed map[string]int) *c18World {
	log := c18Log()
	ctx, cancel := context.WithCancel(context.Background())
	opt := &DnsControllerOption{
		Log:              log,
		LifecycleContext: ctx,
		NewCache: func(fqdn string, answers, ns, extra []dnsmessage.RR, deadline time.Time, originalDeadline time.Time) (*DnsCache, error) {
			// as ControlPlane.dnsControllerOption does, minus the routing bitmap
			return &DnsCache{NS: ns, Extra: extra, Answer: answers, Deadline: deadline, OriginalDeadline: originalDeadline}, nil
		},
	}
	opt.FixedDomainTtl = fixed
	if optimistic {
		opt.OptimisticCache = true
		opt.OptimisticCacheTtl = c18OptimisticTtl
	}
	dc, err := NewDnsController(nil, opt)
	if err != nil {
		panic(fmt.Sprintf("c18: NewDnsController: %v", err))
	}
	cp := &ControlPlane{
		log:           log,
		ctx:           ctx,
		cancel:        cancel,
		realDomainSet: bloom.NewWithEstimates(2048, 0.001),
		controlPlaneGenerationState: controlPlaneGenerationState{
			dialMode:           mode,
			bootstrapResolvers: resolvers,
		},
		controlPlaneDNSRuntime: controlPlaneDNSRuntime{dnsController: dc},
	}
	return &c18World{
		cp: cp, dc: dc, ctx: ctx, fixed: fixed, optimistic: optimistic, opt: opt,
		dns:           map[string]map[uint16][]c18DnsEntry{},
		verified:      map[string]bool{},
		maybeVerified: map[string]bool{},
		neg:           map[string]time.Time{},
		probeTruth:    map[string]string{},
		probeTruth2:   map[string]string{},
	}
}

func (w *c18World) close() {
	synctest.Wait()
	_ = w.dc.Close()
	w.cp.cancel()
	synctest.Wait()
}

func c18BareName(s string) string {
	return strings.ToLower(strings.TrimSuffix(s, "."))
}

// ---- injection through the production paths --------------------------------

type c18Insert struct {
	Name    string // bare lower-case name
	QName   string // as it appears in the question (fqdn, maybe mixed case)
	Qtype   uint16
	Ttl     uint32
	Shape   string // "addr", "cname+addr", "nodata", "nxdomain", "servfail"
	Scope   string // "", "upstream@…", "asis"
	ViaHost bool   // use UpdateDnsCacheTtl (the dnsUpstreamReadyCallback path)
}

func c18RR(name string, qtype uint16, ttl uint32, n int) dnsmessage.RR {
	hdr := dnsmessage.RR_Header{Name: name, Rrtype: qtype, Class: dnsmessage.ClassINET, Ttl: ttl}
	switch qtype {
	case dnsmessage.TypeA:
		return &dnsmessage.A{Hdr: hdr, A: net.IPv4(192, 0, 2, byte(1+n)).To4()}
	case dnsmessage.TypeAAAA:
		ip := net.ParseIP("2001:db8::100")
		ip[15] = byte(1 + n)
		return &dnsmessage.AAAA{Hdr: hdr, AAAA: ip}
	case dnsmessage.TypeTXT:
		return &dnsmessage.TXT{Hdr: hdr, Txt: []string{"c18"}}
	case dnsmessage.TypeMX:
		return &dnsmessage.MX{Hdr: hdr, Preference: 10, Mx: "mx.c18-elsewhere.test."}
	case dnsmessage.TypePTR:
		return &dnsmessage.PTR{Hdr: hdr, Ptr: "ptr.c18-elsewhere.test."}
	case dnsmessage.TypeNS:
		return &dnsmessage.NS{Hdr: hdr, Ns: "ns.c18-elsewhere.test."}
	default: // any other type number: opaque RDATA (RFC 3597)
		return &dnsmessage.RFC3597{Hdr: hdr, Rdata: "c018"}
	}
}

// record types other than A/AAAA whose decimal number starts with "1" (A) or
// "28" (AAAA), plus a few common ones: knowledge is per exact type.
var c18OtherQtypes = []uint16{16, 15, 12, 10, 11, 13, 19, 100, 280, 281, 2, 65, 257}

func c18IsAddrType(q uint16) bool { return q == dnsmessage.TypeA || q == dnsmessage.TypeAAAA }

// insert applies one DNS answer through the production cache-insert path and
// updates the model.
func (w *c18World) insert(in c18Insert) error {
	now := time.Now()
	if in.ViaHost {
		// ControlPlane.dnsUpstreamReadyCallback path: host without trailing dot, ttl int.
		rr := c18RR(dnsmessage.CanonicalName(in.Name), in.Qtype, 0, 0)
		if err := w.dc.UpdateDnsCacheTtl(in.Name, in.Qtype, []dnsmessage.RR{rr}, nil, nil, int(in.Ttl)); err != nil {
			return err
		}
		w.remember(in, now, now.Add(time.Duration(in.Ttl)*time.Second), true)
		return nil
	}
	msg := new(dnsmessage.Msg)
	msg.SetQuestion(in.QName, in.Qtype)
	msg.Response = true
	msg.RecursionAvailable = true
	switch in.Shape {
	case "addr":
		msg.Answer = []dnsmessage.RR{c18RR(in.QName, in.Qtype, in.Ttl, 0), c18RR(in.QName, in.Qtype, in.Ttl+7, 1)}
	case "cname+addr":
		cn := &dnsmessage.CNAME{Hdr: dnsmessage.RR_Header{Name: in.QName, Rrtype: dnsmessage.TypeCNAME, Class: dnsmessage.ClassINET, Ttl: in.Ttl}, Target: "cdn.c18-elsewhere.test."}
		msg.Answer = []dnsmessage.RR{cn, c18RR("cdn.c18-elsewhere.test.", in.Qtype, in.Ttl+100, 0)}
	case "nodata":
	case "nxdomain":
		msg.Rcode = dnsmessage.RcodeNameError
	case "servfail":
		msg.Rcode = dnsmessage.RcodeServerFailure
	}
	key := w.dc.cacheKey(in.QName, in.Qtype)
	if in.Scope != "" {
		key += "|" + in.Scope
	}
	if err := w.dc.NormalizeAndCacheDnsResp_(msg, key); err != nil {
		return err
	}
	switch in.Shape {
	case "addr", "cname+addr":
		ttl := in.Ttl
		if ttl > 31536000 {
			ttl = 31536000
		}
		w.remember(in, now, now.Add(time.Duration(ttl)*time.Second), true)
	case "nodata":
		w.remember(in, now, now.Add(minFirefoxCacheTtl*time.Second), false)
	}
	return nil
}

func (w *c18World) remember(in c18Insert, now, exp time.Time, hasAnswer bool) {
	name, qtype := in.Name, in.Qtype
	w.touch(name)
	m := w.dns[name]
	if m == nil {
		m = map[uint16][]c18DnsEntry{}
		w.dns[name] = m
	}
	scope := in.Scope
	if in.ViaHost {
		scope = ""
	}
	// a later answer under the same cache key overwrites the entry
	for i := range m[qtype] {
		e := &m[qtype][i]
		if e.scope == scope && !e.replaced {
			e.replaced = true
			if now.Before(e.sureUntil) {
				e.sureUntil = now
			}
		}
	}
	sure := exp
	if f, ok := w.fixed[name]; ok {
		// the cache entry lives until now+fixed (plus the stale window when the
		// optimistic cache is on); after that the janitor may evict it and the
		// knowledge goes with it. (Whether a differently-cased question name gets
		// the fixed TTL at all is F-C08-1's business: the earlier bound is used.)
		evictable := now.Add(time.Duration(f) * time.Second)
		if w.optimistic {
			evictable = evictable.Add(c18OptimisticTtl * time.Second)
		}
		if evictable.Before(sure) {
			sure = evictable
		}
	}
	m[qtype] = append(m[qtype], c18DnsEntry{exp: exp, hasAnswer: hasAnswer, sureUntil: sure, scope: scope})
}

// reload performs what a configuration reload does to the DNS knowledge: the old
// generation's cache is cloned (CloneCacheForReload) and restored
// (RestoreReloadCache) into the controller of the new generation, which either
// shares the old store (ReuseForReload, the normal path) or is brand new (reuse
// failed). A reload must not change when a name stops being known.
func (w *c18World) reload(fresh bool) error {
	clones := w.dc.CloneCacheForReload()
	now := time.Now()
	if fresh {
		ndc, err := NewDnsController(nil, w.opt)
		if err != nil {
			return err
		}
		ndc.RestoreReloadCache(clones, nil, now)
		old := w.dc
		w.dc = ndc
		w.cp.dnsController = ndc
		_ = old.Close()
		// overwritten entries were not in the cache any more: their contribution
		// to the knowledge does not survive into a fresh store.
		for _, m := range w.dns {
			for qt, es := range m {
				kept := es[:0]
				for _, e := range es {
					if !e.replaced {
						kept = append(kept, e)
					}
				}
				m[qt] = kept
			}
		}
	} else {
		ndc, err := w.dc.ReuseForReload(w.opt, nil)
		if err != nil {
			return err
		}
		ndc.RestoreReloadCache(clones, nil, now)
		w.dc = ndc
		w.cp.dnsController = ndc
	}
	w.reloads++
	return nil
}

// verify / negCache mirror exactly what probeAndUpdateRealDomain writes.
func (w *c18World) verify(s string) {
	w.cp.muRealDomainSet.Lock()
	w.cp.realDomainSet.AddString(s)
	w.cp.muRealDomainSet.Unlock()
	w.cp.realDomainNegSet.Delete(s)
	w.verified[s] = true
	delete(w.neg, s)
	w.touch(s)
}

func (w *c18World) negCache(s string) {
	exp := time.Now().Add(realDomainNegativeCacheTTL)
	w.cp.realDomainNegSet.Store(s, exp.UnixNano())
	w.neg[s] = exp
	w.touch(s)
}

// ---- model queries -----------------------------------------------------------

func c18FreshAt(exp, now time.Time) c18Fresh {
	switch {
	case exp.After(now):
		return c18Live
	case exp.Equal(now):
		return c18Boundary
	default:
		return c18Expired
	}
}

// dnsState: best (answer-bearing) and best (any) freshness for name/qtype.
func (w *c18World) dnsState(name string, qtype uint16, now time.Time) (withAnswer, any c18Fresh) {
	for _, e := range w.dns[name][qtype] {
		f := c18FreshAt(e.exp, now)
		if f == c18Live && !now.Before(e.sureUntil) {
			f = c18Boundary // may already have been forgotten: either
		}
		if f > any {
			any = f
		}
		if e.hasAnswer && f > withAnswer {
			withAnswer = f
		}
	}
	return
}

// anyDns: any A or AAAA knowledge (NODATA included, boundary included) that a
// reader could call "resolved through dae and not yet expired". Knowledge is
// per exact record type: a TXT/MX/... answer says nothing about the address the
// connection goes to, so other types do not count.
func (w *c18World) anyDns(name string, now time.Time) bool {
	for qt, es := range w.dns[name] {
		if !c18IsAddrType(qt) {
			continue
		}
		for _, e := range es {
			if c18FreshAt(e.exp, now) != c18Expired {
				return true
			}
		}
	}
	return false
}

// ---------------------------------------------------------------------------
// sniffed values

type c18Sniff struct {
	S    string // the string handed to ChooseDialTarget
	Kind string // class label
	// name-like:
	Bare    string // lower-case name without dot/port ("" for IP-like)
	Host    string // host part as sniffed (S minus ":port")
	Port    string // sniffed port, "" if none
	IP      netip.Addr
	IPLike  bool
	Variant bool // differs from Bare (case / trailing dot / port)
}

var c18PoolNames = []string{
	"a.c18.test", "www.b.c18.test", "match.c18.test", "xn--p1ai.c18.test", "c-d.e.f.c18.test", "localhost",
	"match.other.c18.test", "1e100.c18.test",
}

var c18V4Lits = []string{"1.2.3.4", "10.0.0.1", "255.255.255.255", "0.0.0.0", "127.0.0.1"}
var c18V6Lits = []string{"2606:4700:20::681a:d1f", "::1", "2001:db8::1", "fe80::1", "::ffff:1.2.3.4", "2001:0db8:0000:0000:0000:0000:0000:0001", "2001:DB8::A", "::", "fe80::1%eth0"}

func c18MixCase(t *rapid.T, s string) string {
	b := []byte(s)
	changed := false
	for i := range b {
		if b[i] >= 'a' && b[i] <= 'z' && rapid.Bool().Draw(t, "up") {
			b[i] -= 32
			changed = true
		}
	}
	if !changed {
		return strings.ToUpper(s)
	}
	return string(b)
}

func c18ValidPort(t *rapid.T, dstPort uint16) string {
	switch rapid.IntRange(0, 3).Draw(t, "portkind") {
	case 0:
		return strconv.Itoa(int(dstPort))
	case 1:
		return rapid.SampledFrom([]string{"1", "53", "80", "443", "8443", "65535"}).Draw(t, "port")
	default:
		return strconv.Itoa(rapid.IntRange(1, 65535).Draw(t, "port"))
	}
}

// c18Classify builds the oracle's view of a sniffed string of one of the listed
// forms: empty, name, NAME, name., name:port, literal, [literal], literal:port,
// [literal]:port.
func c18Classify(s, kind string) c18Sniff {
	if s == "" {
		return c18Sniff{Kind: kind}
	}
	inner := s
	if strings.HasPrefix(inner, "[") && strings.HasSuffix(inner, "]") {
		inner = inner[1 : len(inner)-1]
	}
	if a, err := netip.ParseAddr(inner); err == nil {
		return c18Sniff{S: s, Kind: kind, IPLike: true, IP: a, Host: inner}
	}
	if h, p, err := net.SplitHostPort(s); err == nil {
		if a, err := netip.ParseAddr(h); err == nil {
			return c18Sniff{S: s, Kind: kind, IPLike: true, IP: a, Host: h, Port: p}
		}
		return c18Sniff{S: s, Kind: kind, Bare: c18BareName(h), Host: h, Port: p, Variant: true}
	}
	return c18Sniff{S: s, Kind: kind, Bare: c18BareName(s), Host: s, Variant: s != c18BareName(s)}
}

// c18GenSniff draws a sniffed value. names = the pool of names with (possibly)
// some state; focus = spellings that were touched recently (so that short-lived
// states such as the 10 s negative cache are actually queried); fresh unknown
// names are made unique with ctr. rapid's integer draws favour small values, so
// the buckets are ordered by how much they matter.
func c18GenSniff(t *rapid.T, names []string, focus []string, dst netip.AddrPort, ctr *int) c18Sniff {
	name := func() string {
		if len(focus) > 0 && rapid.IntRange(0, 2).Draw(t, "usefocus") < 2 {
			return c18BareOf(focus[rapid.IntRange(0, len(focus)-1).Draw(t, "focus")])
		}
		if rapid.IntRange(0, 9).Draw(t, "unknownname") == 9 {
			*ctr++
			return fmt.Sprintf("never-%d.c18-unknown.test", *ctr)
		}
		return rapid.SampledFrom(names).Draw(t, "name")
	}
	k := rapid.IntRange(0, 99).Draw(t, "sniffkind")
	switch {
	case k < 26:
		return c18Classify(name(), "name")
	case k < 36:
		if len(focus) > 0 {
			// exactly the spelling a verdict / insert was made for
			return c18Classify(focus[rapid.IntRange(0, len(focus)-1).Draw(t, "focus")], "focus_spelling")
		}
		return c18Classify(name(), "name")
	case k < 44:
		return c18Classify(c18MixCase(t, name()), "name_upper")
	case k < 51:
		return c18Classify(name()+".", "name_dot")
	case k < 54:
		return c18Classify(c18MixCase(t, name())+".", "name_upper_dot")
	case k < 63:
		return c18Classify(name()+":"+c18ValidPort(t, dst.Port()), "name_port")
	case k < 69:
		l := rapid.SampledFrom(c18V4Lits).Draw(t, "v4")
		if rapid.IntRange(0, 3).Draw(t, "own") == 0 && dst.Addr().Is4() {
			l = dst.Addr().String()
		}
		return c18Classify(l, "ip4")
	case k < 75:
		return c18Classify(rapid.SampledFrom(c18V6Lits).Draw(t, "v6"), "ip6")
	case k < 81:
		return c18Classify("["+rapid.SampledFrom(c18V6Lits).Draw(t, "v6")+"]", "ip6_bracket")
	case k < 83:
		return c18Classify("["+rapid.SampledFrom(c18V4Lits).Draw(t, "v4")+"]", "ip4_bracket")
	case k < 89:
		return c18Classify("["+rapid.SampledFrom(c18V6Lits).Draw(t, "v6")+"]:"+c18ValidPort(t, dst.Port()), "ip6_bracket_port")
	case k < 94:
		return c18Classify(rapid.SampledFrom(c18V4Lits).Draw(t, "v4")+":"+c18ValidPort(t, dst.Port()), "ip4_port")
	default:
		return c18Sniff{Kind: "empty"}
	}
}

// c18Pipeline: what the sniffers hand to the control plane for a raw host value
// (component/sniffing.NormalizeDomain), re-classified for the oracle.
func c18Pipeline(raw string) c18Sniff {
	s := sniffing.NormalizeDomain(raw)
	sn := c18Classify(s, "")
	switch {
	case s == "":
		sn.Kind = "pipe_empty"
	case sn.IPLike && sn.Port != "":
		sn.Kind = "pipe_ip_port"
	case sn.IPLike:
		sn.Kind = "pipe_ip"
	case sn.Port != "":
		sn.Kind = "pipe_name_port"
	default:
		sn.Kind = "pipe_name"
	}
	return sn
}

// raw host values as a client may put them on the wire (Host header / SNI).
func c18GenRawHost(t *rapid.T, names []string, focus []string, dst netip.AddrPort, ctr *int) string {
	sn := c18GenSniff(t, names, focus, dst, ctr)
	raw := sn.S
	switch rapid.IntRange(0, 5).Draw(t, "rawtwist") {
	case 0:
		if !sn.IPLike && sn.Port == "" && raw != "" {
			raw += rapid.SampledFrom([]string{":0", ":99999", ":", ":http", ":65536", ":-1", ":00443"}).Draw(t, "badport")
		}
	case 1:
		raw = " " + raw + "\t"
	case 2:
		raw = strings.ToUpper(raw)
	}
	return raw
}

// ---------------------------------------------------------------------------
// destinations and outbounds

var c18Dsts = []string{"1.2.3.4", "10.0.0.1", "203.0.113.9", "2001:db8::1", "::1", "2606:4700:4700::1111", "::ffff:1.2.3.4", "::ffff:203.0.113.9"}

func c18GenDst(t *rapid.T) netip.AddrPort {
	a := netip.MustParseAddr(rapid.SampledFrom(c18Dsts).Draw(t, "dstip"))
	var p int
	if rapid.IntRange(0, 4).Draw(t, "edgeport") > 0 {
		p = rapid.SampledFrom([]int{1, 53, 443, 65535}).Draw(t, "dstport")
	} else {
		p = rapid.IntRange(1, 65535).Draw(t, "dstport")
	}
	return netip.AddrPortFrom(a, uint16(p))
}

func c18DstFamily(a netip.Addr) string {
	switch {
	case a.Is4():
		return "v4"
	case a.Is4In6():
		return "v4mapped"
	default:
		return "v6"
	}
}

func c18GenOutbound(t *rapid.T) (consts.OutboundIndex, string) {
	switch k := rapid.IntRange(0, 19).Draw(t, "obkind"); {
	case k < 12:
		return rapid.SampledFrom([]consts.OutboundIndex{consts.OutboundUserDefinedMin, 3, 4, 127, 128, consts.OutboundIndex(consts.OutboundUserDefinedMax)}).Draw(t, "ob"), "user"
	case k < 14:
		return consts.OutboundControlPlaneRouting, "cpr"
	case k < 16:
		return consts.OutboundBlock, "block"
	case k < 17:
		return rapid.SampledFrom([]consts.OutboundIndex{consts.OutboundMustRules, consts.OutboundLogicalOr, consts.OutboundLogicalAnd}).Draw(t, "ob"), "reserved_other"
	default:
		return consts.OutboundDirect, "direct"
	}
}

var c18Modes = []consts.DialMode{consts.DialMode_Ip, consts.DialMode_Domain, consts.DialMode_DomainPlus, consts.DialMode_DomainCao}

// ---------------------------------------------------------------------------
// oracle

type c18Want int

const (
	c18WantDst    c18Want = iota // original destination IP:port
	c18WantName                  // the sniffed name (or normalised literal)
	c18WantEither                // statement does not settle the cell
)

func (w c18Want) String() string { return [...]string{"dst", "name", "either"}[w] }

type c18Verdict struct {
	Want      c18Want
	Reroute   int // +1 required, -1 forbidden, 0 unconstrained
	Cell      string
	NonTrivia bool
}

// c18Expect is the statement's table.
func (w *c18World) c18Expect(mode consts.DialMode, reserved bool, dst netip.AddrPort, sn c18Sniff, now time.Time) c18Verdict {
	if mode == consts.DialMode_Ip {
		return c18Verdict{Want: c18WantDst, Reroute: -1, Cell: "ip_mode"}
	}
	if sn.S == "" {
		return c18Verdict{Want: c18WantDst, Reroute: -1, Cell: "no_name"}
	}
	if reserved {
		return c18Verdict{Want: c18WantDst, Reroute: -1, Cell: "builtin_outbound"}
	}
	switch mode {
	case consts.DialMode_DomainPlus:
		return c18Verdict{Want: c18WantName, Cell: "domain+", NonTrivia: true}
	case consts.DialMode_DomainCao:
		v := c18Verdict{Want: c18WantName, Reroute: +1, Cell: "domain++", NonTrivia: true}
		if sn.IPLike {
			v.Reroute = 0 // there is no name to route by; statement silent
			v.Cell = "domain++_literal"
		}
		return v
	}
	// ---- domain mode
	if sn.IPLike {
		// an address literal is not a name that can be known genuine
		return c18Verdict{Want: c18WantDst, Cell: "domain_literal", NonTrivia: true}
	}
	// destination family's record type
	var famLive bool // must-name needs every plausible family reading live
	fam := c18DstFamily(dst.Addr())
	a4, _ := w.dnsState(sn.Bare, dnsmessage.TypeA, now)
	a6, _ := w.dnsState(sn.Bare, dnsmessage.TypeAAAA, now)
	switch fam {
	case "v4":
		famLive = a4 == c18Live
	case "v6":
		famLive = a6 == c18Live
	default: // v4-mapped: which record type is "the destination family's" is not settled
		famLive = a4 == c18Live && a6 == c18Live
	}
	verifiedExact := w.verified[sn.S]
	verifiedOtherForm := false
	for v := range w.verified {
		if v != sn.S && c18BareOf(v) == sn.Bare {
			verifiedOtherForm = true
		}
	}
	for v := range w.maybeVerified {
		if c18BareOf(v) == sn.Bare {
			verifiedOtherForm = true
		}
	}
	negExact := c18Expired
	if e, ok := w.neg[sn.S]; ok {
		negExact = c18FreshAt(e, now)
	}
	switch {
	case famLive && sn.Port == "":
		return c18Verdict{Want: c18WantName, Cell: "domain_resolved", NonTrivia: true}
	case verifiedExact:
		return c18Verdict{Want: c18WantName, Cell: "domain_verified", NonTrivia: true}
	case !w.anyDns(sn.Bare, now) && !verifiedOtherForm:
		cell := "domain_unknown"
		if negExact == c18Live {
			cell = "domain_negcached"
		} else if len(w.dns[sn.Bare]) > 0 {
			cell = "domain_expired"
		}
		return c18Verdict{Want: c18WantDst, Cell: cell, NonTrivia: true}
	default:
		// only the other family's record (or a NODATA answer for A/AAAA, or an
		// entry exactly at its deadline, or a differently spelled verified form,
		// or name:port of a known name): either is accepted.
		return c18Verdict{Want: c18WantEither, Cell: "domain_unsettled", NonTrivia: true}
	}
}

// bare name of an arbitrary sniffed spelling (strip port, dot, case)
func c18BareOf(s string) string {
	if h, _, err := net.SplitHostPort(s); err == nil {
		s = h
	}
	return c18BareName(s)
}

type c18Got struct {
	Target  string
	Reroute bool
	DialIp  bool
}

// c18IsDst: target denotes the original destination (mapped/unmapped spelling of
// the same address accepted).
func c18IsDst(target string, dst netip.AddrPort) bool {
	ap, err := netip.ParseAddrPort(target)
	if err != nil {
		return false
	}
	return ap.Port() == dst.Port() && ap.Addr().Unmap() == dst.Addr().Unmap()
}

// c18WellFormed checks the target string itself; returns host, whether host is a literal.
func c18WellFormed(target string) (host string, port int, lit netip.Addr, err error) {
	h, p, e := net.SplitHostPort(target)
	if e != nil {
		return "", 0, netip.Addr{}, fmt.Errorf("net.SplitHostPort(%q): %v", target, e)
	}
	n, e := strconv.ParseUint(p, 10, 32)
	if e != nil || n < 1 || n > 65535 {
		return "", 0, netip.Addr{}, fmt.Errorf("target %q: port %q not in 1..65535", target, p)
	}
	if h == "" {
		return "", 0, netip.Addr{}, fmt.Errorf("target %q: empty host", target)
	}
	if a, e := netip.ParseAddr(h); e == nil {
		lit = a
	}
	return h, int(n), lit, nil
}

// c18IsName: target carries the sniffed value, normalised.
func c18IsName(target string, dst netip.AddrPort, sn c18Sniff) error {
	h, p, lit, err := c18WellFormed(target)
	if err != nil {
		return err
	}
	okPort := p == int(dst.Port()) || (sn.Port != "" && strconv.Itoa(p) == sn.Port)
	if !okPort {
		return fmt.Errorf("target %q: port is neither the destination port %d nor the sniffed port %q", target, dst.Port(), sn.Port)
	}
	if sn.IPLike {
		if !lit.IsValid() || lit != sn.IP {
			return fmt.Errorf("target %q: host is not the sniffed literal %v", target, sn.IP)
		}
		return nil
	}
	if lit.IsValid() {
		return fmt.Errorf("target %q: host is an address literal but the sniffed value %q is a name", target, sn.S)
	}
	if h != sn.Host && !strings.EqualFold(strings.TrimSuffix(h, "."), strings.TrimSuffix(sn.Host, ".")) {
		return fmt.Errorf("target %q: host %q is not the sniffed host %q", target, h, sn.Host)
	}
	return nil
}

// c18Judge applies the table + well-formedness. Returns the kind actually taken
// ("dst"/"name") and an error describing a violation.
func c18Judge(v c18Verdict, got c18Got, dst netip.AddrPort, sn c18Sniff) (took string, literalPortAsDomain bool, err error) {
	if _, _, _, e := c18WellFormed(got.Target); e != nil {
		return "", false, e
	}
	isDst := c18IsDst(got.Target, dst)
	nameErr := c18IsName(got.Target, dst, sn)
	switch v.Want {
	case c18WantDst:
		if !isDst {
			return "", false, fmt.Errorf("cell %s: target %q, want the original destination %v", v.Cell, got.Target, dst)
		}
		took = "dst"
	case c18WantName:
		if nameErr != nil {
			if isDst {
				return "", false, fmt.Errorf("cell %s: target %q is the destination, want the sniffed value %q", v.Cell, got.Target, sn.S)
			}
			return "", false, fmt.Errorf("cell %s: %v", v.Cell, nameErr)
		}
		took = "name"
	default:
		switch {
		case isDst:
			took = "dst"
		case nameErr == nil:
			took = "name"
		default:
			return "", false, fmt.Errorf("cell %s: target %q is neither the destination %v nor the sniffed value %q (%v)", v.Cell, got.Target, dst, sn.S, nameErr)
		}
	}
	// a literal IP is never sent as a "domain"
	_, _, lit, _ := c18WellFormed(got.Target)
	if lit.IsValid() && !got.DialIp {
		if sn.IPLike && sn.Port != "" && took == "name" {
			// sniffed literal:port / [literal]:port handed on with dialIp=false: the
			// statement does not speak about the flag for this shape; accepted
			// (counted as a class only).
			literalPortAsDomain = true
		} else {
			return "", false, fmt.Errorf("cell %s: target %q is an address literal but dialIp=false (sent as a domain)", v.Cell, got.Target)
		}
	}
	if took == "dst" && !got.DialIp {
		return "", false, fmt.Errorf("cell %s: target is the destination but dialIp=false", v.Cell)
	}
	switch {
	case v.Reroute > 0 && !got.Reroute:
		return "", false, fmt.Errorf("cell %s: shouldReroute=false, domain++ must route again", v.Cell)
	case v.Reroute < 0 && got.Reroute:
		return "", false, fmt.Errorf("cell %s: shouldReroute=true, forbidden here", v.Cell)
	}
	return took, literalPortAsDomain, nil
}

// ---------------------------------------------------------------------------
// stub resolver for the probe unit

// probeTruth values are two letters, the outcome of the A and of the AAAA lookup:
// 'r' a record, 'n' answered without a record, 'e' the lookup failed.
var c18ProbeOutcomes = []string{"rn", "nr", "rr", "nn", "ne", "en", "ee", "re", "er"}

func (w *c18World) c18StubResolver() func(ctx context.Context, d netproxy.Dialer, dns netip.AddrPort, host string, network string, race bool) (*netutils.Ip46, error, error) {
	return func(ctx context.Context, d netproxy.Dialer, dns netip.AddrPort, host string, network string, race bool) (*netutils.Ip46, error, error) {
		w.probeCalls = append(w.probeCalls, host)
		if addr, perr := netip.ParseAddr(host); perr == nil {
			// like the production resolver (common/netutils resolve): an address
			// literal is answered locally with itself, no lookup and no error
			ip46 := &netutils.Ip46{}
			if addr.Is4() || addr.Is4In6() {
				ip46.Ip4 = addr.Unmap()
			} else {
				ip46.Ip6 = addr
			}
			return ip46, nil, nil
		}
		truth := "ee"
		if !strings.ContainsAny(host, ":[] ") {
			tm := w.probeTruth
			if w.resolver2.IsValid() && dns == w.resolver2 {
				tm = w.probeTruth2
			}
			if t, ok := tm[c18BareName(host)]; ok {
				truth = t
			}
		}
		ip46 := &netutils.Ip46{}
		var err4, err6 error
		switch truth[0] {
		case 'r':
			ip46.Ip4 = netip.MustParseAddr("192.0.2.77")
		case 'e':
			err4 = fmt.Errorf("c18 stub: A lookup for %q timed out", host)
		}
		switch truth[1] {
		case 'r':
			ip46.Ip6 = netip.MustParseAddr("2001:db8::77")
		case 'e':
			err6 = fmt.Errorf("c18 stub: AAAA lookup for %q timed out", host)
		}
		return ip46, err4, err6
	}
}

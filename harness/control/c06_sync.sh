#!/bin/sh
# Re-creates the package-agnostic C06 generator/encoder files of package control from
# their originals in harness/component/sniffing (only the package clause differs).
cd "$(dirname "$0")/.." || exit 1
for f in c06_gen_test.go c06_quicenc_test.go c06_quicgen_test.go; do
  { echo "// Code generated from harness/component/sniffing/$f (package clause rewritten); DO NOT EDIT — edit the original and run harness/control/c06_sync.sh."
    sed 's/^package sniffing$/package control/' component/sniffing/$f; } > control/$f
done

package control

// C07 (b) — controller flow. A real DnsController (NewDnsController) over the real
// component/dns router, fake upstreams behind the dnsForwarderFactory seam (each
// answers from a generated table), a capturing response writer, all inside a
// testing/synctest bubble. Histories: ask, advance time, switch the live rule set
// (ReuseForReload), seed cache entries through the production insert path.
//
// Oracle (reference interpreter of c07_model_test.go + a small model of what was
// cached under which route):
//   * the upstreams that receive the query are exactly the chain the rules name:
//     first matching request rule (or fallback), then per answer the first matching
//     response rule: accept -> forwarded, reject -> emptied, upstream -> asked there;
//   * a question routed to reject gets RCODE 0 + empty answer, no upstream is asked,
//     whatever the cache holds, and no cache entry of that question survives;
//   * at most MaxDnsLookupDepth upstream queries per client query; a rule set that
//     keeps bouncing ends in an error, within bounded virtual time (watchdog);
//   * no upstream asked at all is only acceptable when an answer cached for exactly
//     this route may still be fresh, and then that answer is what the client gets.

import (
	"context"
	"errors"
	"fmt"
	"io"
	"net"
	"net/netip"
	"net/url"
	"sort"
	"strconv"
	"strings"
	"sync"
	"testing"
	"testing/synctest"
	"time"

	"github.com/daeuniverse/dae/common/consts"
	componentdns "github.com/daeuniverse/dae/component/dns"
	dnsmessage "github.com/miekg/dns"
	"github.com/sirupsen/logrus"
	"pgregory.net/rapid"
)

type c07RR struct {
	Type uint16
	Data string
}

type c07Ans struct {
	Rcode int
	TTL   uint32
	RRs   []c07RR
}

type c07Op struct {
	Kind  string // query | advance | switch | seed
	Name  string // query: as asked (FQDN, any case); seed: pool name
	QType uint16
	ID    uint16
	D     time.Duration
	Prog  int
	Scope string // seed: route | bare | reject | asis | up:<i>
	TTL   int
}

type c07Scenario struct {
	Progs   []*c07Program
	Names   []string
	Table   map[string]c07Ans
	Ops     []c07Op
	RealDst netip.AddrPort
	Latency time.Duration
}

func c07TableKey(from, name string, qt uint16) string {
	return from + "|" + strings.ToLower(dnsmessage.Fqdn(name)) + "|" + strconv.Itoa(int(qt))
}

var c07FlowQTypes = []uint16{dnsmessage.TypeA, dnsmessage.TypeA, dnsmessage.TypeAAAA, dnsmessage.TypeTXT, dnsmessage.TypeHTTPS}

func c07GenAns(t *rapid.T, qt uint16, v4, v6 []netip.Addr) c07Ans {
	a := c07Ans{Rcode: dnsmessage.RcodeSuccess, TTL: rapid.SampledFrom([]uint32{30, 60, 300}).Draw(t, "ttl")}
	if rapid.IntRange(0, 9).Draw(t, "nx") == 0 {
		a.Rcode = dnsmessage.RcodeNameError
		return a
	}
	n := rapid.IntRange(0, 3).Draw(t, "nrr")
	for i := 0; i < n; i++ {
		kind := qt
		if rapid.IntRange(0, 7).Draw(t, "mix") == 0 {
			kind = rapid.SampledFrom([]uint16{dnsmessage.TypeA, dnsmessage.TypeAAAA, dnsmessage.TypeCNAME, dnsmessage.TypeTXT}).Draw(t, "mixkind")
		}
		switch kind {
		case dnsmessage.TypeA:
			a.RRs = append(a.RRs, c07RR{kind, rapid.SampledFrom(v4).Draw(t, "a").String()})
		case dnsmessage.TypeAAAA:
			a.RRs = append(a.RRs, c07RR{kind, rapid.SampledFrom(v6).Draw(t, "aaaa").String()})
		case dnsmessage.TypeCNAME:
			a.RRs = append(a.RRs, c07RR{kind, "cdn.example.net."})
		case dnsmessage.TypeTXT:
			a.RRs = append(a.RRs, c07RR{kind, "v=" + strconv.Itoa(rapid.IntRange(0, 9).Draw(t, "txt"))})
		}
	}
	return a
}

func c07GenScenario(t *rapid.T, unit string) *c07Scenario {
	sc := &c07Scenario{Table: map[string]c07Ans{}}
	sc.RealDst = netip.MustParseAddrPort(rapid.SampledFrom([]string{"9.9.9.9:53", "192.0.2.53:53", "[2001:db8:53::53]:53"}).Draw(t, "realdst"))
	sc.Latency = rapid.SampledFrom([]time.Duration{0, 5 * time.Millisecond, 300 * time.Millisecond}).Draw(t, "latency")
	nn := rapid.IntRange(2, 4).Draw(t, "nnames")
	seen := map[string]bool{}
	for len(sc.Names) < nn {
		n := c07GenName(t, "name")
		if !seen[n] && c07ValidName(n) {
			seen[n] = true
			sc.Names = append(sc.Names, n)
		}
	}
	o := &c07GenOpts{
		MinUpstreams: 1, MaxUpstreams: 4, SimpleSchemes: true, Names: sc.Names,
		AvoidNegMerge: c07KnownNegMerge(),
		AvoidV6Zero:   true, // matcher-level concern (unit matcher / F-C07-2)
		MaxRules:      5,
		Excluded: func(id string) {
			if id == "F-C07-1" {
				vkExcluded(unit, id)
			}
		},
	}
	base := c07GenProgram(t, o)
	sc.Progs = []*c07Program{base}
	np := rapid.IntRange(1, 3).Draw(t, "nprogs")
	for len(sc.Progs) < np {
		p := &c07Program{Upstreams: base.Upstreams}
		c07GenRouting(t, p, o)
		sc.Progs = append(sc.Progs, p)
	}
	var v4, v6 []netip.Addr
	for _, p := range sc.Progs {
		a, b := c07EdgeAddrs(p)
		v4, v6 = append(v4, a...), append(v6, b...)
	}
	froms := []string{"asis"}
	for _, u := range base.Upstreams {
		froms = append(froms, u.Tag)
	}
	for _, f := range froms {
		for _, n := range sc.Names {
			for _, qt := range []uint16{dnsmessage.TypeA, dnsmessage.TypeAAAA, dnsmessage.TypeTXT, dnsmessage.TypeHTTPS} {
				sc.Table[c07TableKey(f, n, qt)] = c07GenAns(t, qt, v4, v6)
			}
		}
	}
	nops := rapid.IntRange(4, 24).Draw(t, "nops")
	for i := 0; i < nops; i++ {
		switch k := rapid.IntRange(0, 19).Draw(t, "opkind"); {
		case k < 11:
			n := rapid.SampledFrom(sc.Names).Draw(t, "qn")
			sc.Ops = append(sc.Ops, c07Op{Kind: "query", Name: c07Mangle(t, n) + ".", QType: rapid.SampledFrom(c07FlowQTypes).Draw(t, "qt"),
				ID: uint16(rapid.IntRange(0, 65535).Draw(t, "id"))})
		case k < 14:
			sc.Ops = append(sc.Ops, c07Op{Kind: "advance", D: rapid.SampledFrom([]time.Duration{time.Second, 7 * time.Second, 29 * time.Second, 31 * time.Second, 61 * time.Second, 125 * time.Second, 10 * time.Minute}).Draw(t, "adv")})
		case k < 16 && len(sc.Progs) > 1:
			sc.Ops = append(sc.Ops, c07Op{Kind: "switch", Prog: rapid.IntRange(0, len(sc.Progs)-1).Draw(t, "prog")})
		default:
			scopes := []string{"route", "route", "bare", "reject", "asis"}
			for j := range base.Upstreams {
				scopes = append(scopes, "up:"+strconv.Itoa(j))
			}
			sc.Ops = append(sc.Ops, c07Op{Kind: "seed", Name: rapid.SampledFrom(sc.Names).Draw(t, "sn"),
				QType: rapid.SampledFrom([]uint16{dnsmessage.TypeA, dnsmessage.TypeA, dnsmessage.TypeAAAA, dnsmessage.TypeTXT}).Draw(t, "sqt"),
				Scope: rapid.SampledFrom(scopes).Draw(t, "scope"), TTL: rapid.SampledFrom([]int{20, 60, 600}).Draw(t, "sttl")})
		}
	}
	return sc
}

// ---------------------------------------------------------------- fakes

type c07Upcall struct {
	From  string
	Name  string
	QType uint16
}

type c07Env struct {
	sc     *c07Scenario
	mu     sync.Mutex
	calls  []c07Upcall
	fromOf map[string]string // Upstream.String() -> tag / "asis"
}

type c07Fwd struct {
	env  *c07Env
	from string
}

func c07BuildRRs(owner string, a c07Ans) []dnsmessage.RR {
	var out []dnsmessage.RR
	for _, r := range a.RRs {
		h := dnsmessage.RR_Header{Name: owner, Rrtype: r.Type, Class: dnsmessage.ClassINET, Ttl: a.TTL}
		switch r.Type {
		case dnsmessage.TypeA:
			out = append(out, &dnsmessage.A{Hdr: h, A: net.IP(netip.MustParseAddr(r.Data).AsSlice())})
		case dnsmessage.TypeAAAA:
			out = append(out, &dnsmessage.AAAA{Hdr: h, AAAA: net.IP(netip.MustParseAddr(r.Data).AsSlice())})
		case dnsmessage.TypeCNAME:
			out = append(out, &dnsmessage.CNAME{Hdr: h, Target: r.Data})
		case dnsmessage.TypeTXT:
			out = append(out, &dnsmessage.TXT{Hdr: h, Txt: []string{r.Data}})
		}
	}
	return out
}

func (f *c07Fwd) ForwardDNS(ctx context.Context, data []byte) (*dnsmessage.Msg, error) {
	var q dnsmessage.Msg
	if err := q.Unpack(data); err != nil || len(q.Question) != 1 {
		return nil, fmt.Errorf("c07 fake upstream: bad query: %v", err)
	}
	qq := q.Question[0]
	f.env.mu.Lock()
	f.env.calls = append(f.env.calls, c07Upcall{f.from, qq.Name, qq.Qtype})
	n := len(f.env.calls)
	f.env.mu.Unlock()
	if n > 4*MaxDnsLookupDepth+8 {
		return nil, errors.New("c07 fake upstream: runaway re-ask loop cut by the harness")
	}
	if f.env.sc.Latency > 0 {
		tm := time.NewTimer(f.env.sc.Latency)
		defer tm.Stop()
		select {
		case <-tm.C:
		case <-ctx.Done():
			return nil, ctx.Err()
		}
	}
	ans, ok := f.env.sc.Table[c07TableKey(f.from, qq.Name, qq.Qtype)]
	if !ok {
		return nil, fmt.Errorf("c07 fake upstream %s: no table entry for %s/%d", f.from, qq.Name, qq.Qtype)
	}
	resp := new(dnsmessage.Msg)
	resp.SetReply(&q)
	resp.Rcode = ans.Rcode
	resp.RecursionAvailable = true
	resp.Answer = c07BuildRRs(qq.Name, ans)
	return resp, nil
}

func (f *c07Fwd) Close() error { return nil }

type c07Writer struct {
	mu   sync.Mutex
	msgs []*dnsmessage.Msg
}

func (w *c07Writer) LocalAddr() net.Addr       { return nil }
func (w *c07Writer) RemoteAddr() net.Addr      { return nil }
func (w *c07Writer) TsigStatus() error         { return nil }
func (w *c07Writer) TsigTimersOnly(bool)       {}
func (w *c07Writer) Hijack()                   {}
func (w *c07Writer) Close() error              { return nil }
func (w *c07Writer) Write([]byte) (int, error) { return 0, nil }
func (w *c07Writer) WriteMsg(m *dnsmessage.Msg) error {
	w.mu.Lock()
	defer w.mu.Unlock()
	w.msgs = append(w.msgs, m.Copy())
	return nil
}

func c07UpstreamString(u c07Upstream) string {
	pu, err := url.Parse(u.URL)
	if err != nil {
		panic(err)
	}
	sch, host, port, path, err := componentdns.ParseRawUpstream(pu)
	if err != nil {
		panic(err)
	}
	return (&componentdns.Upstream{Scheme: sch, Hostname: host, Port: port, Path: path}).String()
}

func c07FlowLog() *logrus.Logger {
	l := logrus.New()
	l.SetOutput(io.Discard)
	l.SetLevel(logrus.ErrorLevel)
	return l
}

// ---------------------------------------------------------------- model

type c07Entry struct {
	RRs      []c07RR
	Deadline time.Time
}

type c07Model struct {
	sc    *c07Scenario
	prog  int
	upStr map[string]string // tag -> Upstream.String()
	cache map[string]*c07Entry
}

func c07BaseKey(name string, qt uint16) string {
	return strings.ToLower(dnsmessage.Fqdn(name)) + strconv.Itoa(int(qt))
}

func (m *c07Model) scopeOf(out string) string {
	switch out {
	case "reject":
		return "reject"
	case "asis":
		return "asis@" + m.sc.RealDst.String()
	}
	return "upstream@" + m.upStr[out]
}

type c07Expect struct {
	First   string
	Reject  bool
	Calls   []string // upstream tags / "asis" in the order they must be asked
	TooDeep bool
	Final   c07Ans // what the client must receive (when !TooDeep)
	Decided bool   // some non-fallback rule decided a step
	Reasks  int
}

func c07AnsIPs(a c07Ans) []netip.Addr {
	var ips []netip.Addr
	for _, r := range a.RRs {
		if r.Type == dnsmessage.TypeA || r.Type == dnsmessage.TypeAAAA {
			ips = append(ips, netip.MustParseAddr(r.Data))
		}
	}
	return ips
}

func (m *c07Model) expect(name string, qt uint16) c07Expect {
	p := m.sc.Progs[m.prog]
	out, ri := c07RefRequest(p, name, qt)
	e := c07Expect{First: out, Decided: ri >= 0}
	if out == "reject" {
		e.Reject = true
		return e
	}
	cur := out
	for depth := 0; ; depth++ {
		if depth >= MaxDnsLookupDepth {
			e.TooDeep = true
			return e
		}
		e.Calls = append(e.Calls, cur)
		ans := m.sc.Table[c07TableKey(cur, name, qt)]
		next, rj := c07RefResponse(p, name, qt, c07AnsIPs(ans), cur)
		if rj >= 0 {
			e.Decided = true
		}
		switch next {
		case "accept":
			e.Final = ans
			return e
		case "reject":
			ans.RRs = nil
			e.Final = ans
			return e
		}
		cur = next
		e.Reasks++
	}
}

func c07MsgRRs(m *dnsmessage.Msg) []c07RR {
	var out []c07RR
	for _, rr := range m.Answer {
		switch b := rr.(type) {
		case *dnsmessage.A:
			a, _ := netip.AddrFromSlice(b.A)
			out = append(out, c07RR{dnsmessage.TypeA, a.Unmap().String()})
		case *dnsmessage.AAAA:
			a, _ := netip.AddrFromSlice(b.AAAA)
			out = append(out, c07RR{dnsmessage.TypeAAAA, a.String()})
		case *dnsmessage.CNAME:
			out = append(out, c07RR{dnsmessage.TypeCNAME, b.Target})
		case *dnsmessage.TXT:
			out = append(out, c07RR{dnsmessage.TypeTXT, strings.Join(b.Txt, "")})
		default:
			out = append(out, c07RR{rr.Header().Rrtype, rr.String()})
		}
	}
	return out
}

func c07SameRRs(a, b []c07RR) bool {
	if len(a) != len(b) {
		return false
	}
	for i := range a {
		if a[i] != b[i] {
			return false
		}
	}
	return true
}

// ---------------------------------------------------------------- the run

type c07Stats struct {
	classes map[string]bool
	nt      strings.Builder
}

func c07RunScenario(sc *c07Scenario, st *c07Stats) (failure string) {
	log := c07FlowLog()
	env := &c07Env{sc: sc, fromOf: map[string]string{}}
	m := &c07Model{sc: sc, upStr: map[string]string{}, cache: map[string]*c07Entry{}}
	for _, u := range sc.Progs[0].Upstreams {
		s := c07UpstreamString(u)
		m.upStr[u.Tag] = s
		env.fromOf[s] = u.Tag
	}
	asisStr := (&componentdns.Upstream{Scheme: "udp", Hostname: sc.RealDst.Addr().String(), Port: sc.RealDst.Port()}).String()
	if _, clash := env.fromOf[asisStr]; clash {
		return "harness: as-is resolver collides with an upstream"
	}
	env.fromOf[asisStr] = "asis"

	origFactory := dnsForwarderFactory
	defer func() { dnsForwarderFactory = origFactory }()
	dnsForwarderFactory = func(up *componentdns.Upstream, _ dialArgument, _ *logrus.Logger) (DnsForwarder, error) {
		from, ok := env.fromOf[up.String()]
		if !ok {
			from = "?" + up.String()
		}
		return &c07Fwd{env: env, from: from}, nil
	}

	routings := make([]*componentdns.Dns, len(sc.Progs))
	for i, p := range sc.Progs {
		r, err := componentdns.New(p.Config(), &componentdns.NewOption{
			Logger:                log,
			UpstreamReadyCallback: func(*componentdns.Upstream) error { return nil },
		})
		if err != nil {
			return fmt.Sprintf("dns.New failed on a valid program: %v\n%s", err, p)
		}
		routings[i] = r
	}
	lifeCtx, lifeCancel := context.WithCancel(context.Background())
	defer lifeCancel()
	option := &DnsControllerOption{
		Log:                 log,
		LifecycleContext:    lifeCtx,
		CacheAccessCallback: func(*DnsCache) error { return nil },
		CacheRemoveCallback: func(*DnsCache) error { return nil },
		NewCache: func(fqdn string, answers, ns, extra []dnsmessage.RR, deadline, originalDeadline time.Time) (*DnsCache, error) {
			return &DnsCache{Answer: answers, NS: ns, Extra: extra, Deadline: deadline, OriginalDeadline: originalDeadline}, nil
		},
		BestDialerChooser: func(ctx context.Context, req *udpRequest, up *componentdns.Upstream) (*dialArgument, error) {
			da := &dialArgument{l4proto: consts.L4ProtoStr_UDP, ipversion: consts.IpVersionStr_4}
			if up.Scheme == componentdns.UpstreamScheme_TCP {
				da.l4proto = consts.L4ProtoStr_TCP
			}
			ip := up.Ip4
			if !ip.IsValid() {
				ip = up.Ip6
				da.ipversion = consts.IpVersionStr_6
			}
			da.bestTarget = netip.AddrPortFrom(ip, up.Port)
			return da, nil
		},
		TimeoutExceedCallback: func(*dialArgument, error) {},
		OptimisticCache:       false,
	}
	ctrl, err := NewDnsController(routings[0], option)
	if err != nil {
		return fmt.Sprintf("NewDnsController: %v", err)
	}
	defer func() {
		_ = ctrl.Close()
		synctest.Wait()
	}()
	req := &udpRequest{
		realSrc:       netip.MustParseAddrPort("192.0.2.10:41000"),
		realDst:       sc.RealDst,
		src:           netip.MustParseAddrPort("192.0.2.10:41000"),
		routingResult: &bpfRoutingResult{},
	}

	for opi, op := range sc.Ops {
		where := fmt.Sprintf("op #%d %+v (live rule set %d)", opi, op, m.prog)
		switch op.Kind {
		case "advance":
			time.Sleep(op.D)
			synctest.Wait()
		case "switch":
			next, err := ctrl.ReuseForReload(option, routings[op.Prog])
			if err != nil || next == nil {
				return fmt.Sprintf("%s: ReuseForReload: %v", where, err)
			}
			ctrl = next
			m.prog = op.Prog
			st.classes["rule_set_switched"] = true
		case "seed":
			p := sc.Progs[m.prog]
			fq := strings.ToLower(dnsmessage.Fqdn(op.Name))
			base := c07BaseKey(op.Name, op.QType)
			var key string
			switch {
			case op.Scope == "bare":
				key = base
			case op.Scope == "reject":
				key = base + "|reject"
			case op.Scope == "asis":
				key = base + "|" + m.scopeOf("asis")
			case op.Scope == "route":
				out, _ := c07RefRequest(p, fq, op.QType)
				key = base + "|" + m.scopeOf(out)
			default:
				i, _ := strconv.Atoi(strings.TrimPrefix(op.Scope, "up:"))
				key = base + "|" + m.scopeOf(p.Upstreams[i].Tag)
			}
			var rr c07RR
			switch op.QType {
			case dnsmessage.TypeA:
				rr = c07RR{dnsmessage.TypeA, fmt.Sprintf("203.0.113.%d", opi+1)}
			case dnsmessage.TypeAAAA:
				rr = c07RR{dnsmessage.TypeAAAA, fmt.Sprintf("2001:db8:ffff::%x", opi+1)}
			default:
				rr = c07RR{dnsmessage.TypeTXT, fmt.Sprintf("seed-%d", opi)}
			}
			ans := c07Ans{TTL: uint32(op.TTL), RRs: []c07RR{rr}}
			if err := ctrl.UpdateDnsCacheTtlWithKey(key, fq, op.QType, c07BuildRRs(fq, ans), nil, nil, op.TTL); err != nil {
				return fmt.Sprintf("%s: UpdateDnsCacheTtlWithKey(%q): %v", where, key, err)
			}
			m.cache[key] = &c07Entry{RRs: ans.RRs, Deadline: time.Now().Add(time.Duration(op.TTL) * time.Second)}
		case "query":
			exp := m.expect(op.Name, op.QType)
			base := c07BaseKey(op.Name, op.QType)
			key := base + "|" + m.scopeOf(exp.First)
			q := new(dnsmessage.Msg)
			q.SetQuestion(op.Name, op.QType)
			q.Id = op.ID
			w := &c07Writer{}
			env.mu.Lock()
			env.calls = nil
			env.mu.Unlock()
			hadFamily := false
			for k, e := range m.cache {
				if dnsCacheBaseKey(k) == base && time.Now().Before(e.Deadline) {
					hadFamily = true
				}
			}
			done := make(chan error, 1)
			go func(c *DnsController) {
				done <- c.HandleWithResponseWriter_(context.Background(), q, req, w)
			}(ctrl)
			var herr error
			watchdog := time.NewTimer(3 * time.Minute)
			select {
			case herr = <-done:
				watchdog.Stop()
			case <-watchdog.C:
				return fmt.Sprintf("%s: client query did not terminate within 3 virtual minutes (upstream calls so far: %v)\n%s", where, env.calls, sc.Progs[m.prog])
			}
			synctest.Wait()
			now := time.Now()
			env.mu.Lock()
			calls := append([]c07Upcall(nil), env.calls...)
			env.mu.Unlock()
			var got []string
			for _, c := range calls {
				got = append(got, c.From)
				if !strings.EqualFold(c.Name, op.Name) || c.QType != op.QType {
					return fmt.Sprintf("%s: upstream %s was asked %s/%d instead of the client's question", where, c.From, c.Name, c.QType)
				}
			}
			if len(calls) > MaxDnsLookupDepth {
				return fmt.Sprintf("%s: %d upstream queries for one client query (bound %d): %v\n%s", where, len(calls), MaxDnsLookupDepth, got, sc.Progs[m.prog])
			}
			w.mu.Lock()
			msgs := w.msgs
			w.mu.Unlock()
			if len(msgs) > 1 {
				return fmt.Sprintf("%s: %d replies written for one query", where, len(msgs))
			}
			checkReply := func(wantRcode int, wantRRs []c07RR, what string) string {
				if herr != nil {
					return fmt.Sprintf("%s: %s expected, handler returned error: %v\n%s", where, what, herr, sc.Progs[m.prog])
				}
				if len(msgs) != 1 {
					return fmt.Sprintf("%s: %s expected, nothing was written to the client\n%s", where, what, sc.Progs[m.prog])
				}
				r := msgs[0]
				if !r.Response || r.Id != op.ID {
					return fmt.Sprintf("%s: reply header response=%v id=%#x want id %#x", where, r.Response, r.Id, op.ID)
				}
				if len(r.Question) != 1 || !strings.EqualFold(r.Question[0].Name, op.Name) || r.Question[0].Qtype != op.QType {
					return fmt.Sprintf("%s: reply question %v, want %s/%d", where, r.Question, op.Name, op.QType)
				}
				if r.Rcode != wantRcode {
					return fmt.Sprintf("%s: %s: rcode %d want %d\n%s", where, what, r.Rcode, wantRcode, sc.Progs[m.prog])
				}
				if g := c07MsgRRs(r); !c07SameRRs(g, wantRRs) {
					return fmt.Sprintf("%s: %s: answer %v want %v (upstreams asked: %v, model chain: %v)\n%s", where, what, g, wantRRs, got, exp.Calls, sc.Progs[m.prog])
				}
				return ""
			}
			switch {
			case exp.Reject:
				if len(calls) != 0 {
					return fmt.Sprintf("%s: question routed to reject was sent to %v\n%s", where, got, sc.Progs[m.prog])
				}
				if f := checkReply(dnsmessage.RcodeSuccess, nil, "reject (RCODE 0, empty answer)"); f != "" {
					return f
				}
				var left []string
				ctrl.dnsCache.Range(func(k, _ any) bool {
					if ks, ok := k.(string); ok && dnsCacheBaseKey(ks) == base {
						left = append(left, ks)
					}
					return true
				})
				if len(left) > 0 {
					sort.Strings(left)
					return fmt.Sprintf("%s: after a rejected question cache entries of it survive: %v", where, left)
				}
				for k := range m.cache {
					if dnsCacheBaseKey(k) == base {
						delete(m.cache, k)
					}
				}
				st.classes["reject"] = true
				if hadFamily {
					st.classes["reject_with_fresh_cache"] = true
				}
			case len(calls) == 0 && herr == nil:
				// answered without asking anybody: only from a cached answer of this route
				e := m.cache[key]
				if e == nil || now.After(e.Deadline.Add(time.Second)) {
					return fmt.Sprintf("%s: no upstream was asked (rules name %v) and no fresh cached answer exists for route key %q (model cache: %v)\n%s", where, exp.Calls, key, c07CacheKeys(m.cache), sc.Progs[m.prog])
				}
				if f := checkReply(dnsmessage.RcodeSuccess, e.RRs, "cached answer of this route"); f != "" {
					return f
				}
				st.classes["cache_hit"] = true
			default:
				if strings.Join(got, ",") != strings.Join(exp.Calls, ",") {
					return fmt.Sprintf("%s: upstreams asked %v, the rules name %v (handler err=%v)\n%s", where, got, exp.Calls, herr, sc.Progs[m.prog])
				}
				if exp.TooDeep {
					if herr == nil {
						return fmt.Sprintf("%s: bouncing rule set: expected an error after %d upstream queries, got success (%d replies)\n%s", where, MaxDnsLookupDepth, len(msgs), sc.Progs[m.prog])
					}
					st.classes["bounce_loop_cut"] = true
				} else {
					what := "accepted answer of " + exp.Calls[len(exp.Calls)-1]
					if f := checkReply(exp.Final.Rcode, exp.Final.RRs, what); f != "" {
						return f
					}
					if exp.Final.Rcode == dnsmessage.RcodeSuccess {
						ttl := uint32(minFirefoxCacheTtl)
						if len(exp.Final.RRs) > 0 {
							ttl = exp.Final.TTL
						}
						m.cache[key] = &c07Entry{RRs: exp.Final.RRs, Deadline: now.Add(time.Duration(ttl) * time.Second)}
					}
					if e := m.cache[key]; e != nil && len(exp.Final.RRs) == 0 && len(m.sc.Table[c07TableKey(exp.Calls[len(exp.Calls)-1], op.Name, op.QType)].RRs) > 0 {
						st.classes["response_rejected_emptied"] = true
					}
				}
				if exp.Reasks > 0 {
					st.classes["reask_ge1"] = true
				}
				if exp.Reasks > 1 {
					st.classes["reask_ge2"] = true
				}
				if exp.First == "asis" {
					st.classes["asis"] = true
				}
			}
			if exp.Decided {
				fmt.Fprintf(&st.nt, "%d:%s/%d>%v;", m.prog, strings.ToLower(op.Name), op.QType, exp.Calls)
			}
		}
	}
	return ""
}

func c07CacheKeys(c map[string]*c07Entry) []string {
	var ks []string
	for k, e := range c {
		ks = append(ks, k+"@"+e.Deadline.Format("15:04:05"))
	}
	sort.Strings(ks)
	return ks
}

func TestC07_Flow(t *testing.T) {
	const unit = "C07.flow"
	rapid.Check(t, func(rt *rapid.T) {
		sc := c07GenScenario(rt, unit)
		st := &c07Stats{classes: map[string]bool{}}
		var failure string
		func() {
			// a failed scenario may leave a blocked handler behind; synctest then
			// panics at bubble exit — keep the scenario's own message.
			defer func() {
				if r := recover(); r != nil {
					if failure == "" {
						failure = fmt.Sprintf("panic at bubble exit: %v", r)
					} else {
						failure += fmt.Sprintf(" [bubble exit: %v]", r)
					}
				}
			}()
			synctest.Test(t, func(*testing.T) {
				defer func() {
					if r := recover(); r != nil {
						failure = fmt.Sprintf("panic in scenario: %v", r)
					}
				}()
				failure = c07RunScenario(sc, st)
			})
		}()
		if failure != "" {
			rt.Fatalf("%s", failure)
		}
		key := ""
		if st.nt.Len() > 0 {
			ps := make([]string, len(sc.Progs))
			for i, p := range sc.Progs {
				ps[i] = p.String()
			}
			key = strings.Join(ps, "||") + "#" + st.nt.String()
		}
		cl := []string{fmt.Sprintf("rule_sets_%d", len(sc.Progs))}
		for c := range st.classes {
			cl = append(cl, c)
		}
		sort.Strings(cl)
		vkCase(unit, key, func() any {
			return map[string]any{"rule_sets": len(sc.Progs), "live0": sc.Progs[0].String(), "decided": st.nt.String()}
		}, cl...)
	})
}

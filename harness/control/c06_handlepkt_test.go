package control

// C06 (control side) — "buffered datagrams are replayed in ingress order after the
// sniff completes": the real handlePkt is driven on a minimal ControlPlane (one user
// outbound with a fixed fake dialer) with generated QUIC client flights; the fake
// upstream connection records every datagram handed to the relay.

import (
	"bytes"
	"context"
	"fmt"
	"io"
	"net/netip"
	"sync"
	"testing"
	"time"

	"github.com/daeuniverse/dae/common/consts"
	ob "github.com/daeuniverse/dae/component/outbound"
	componentdialer "github.com/daeuniverse/dae/component/outbound/dialer"
	D "github.com/daeuniverse/outbound/dialer"
	"github.com/daeuniverse/outbound/netproxy"
	"github.com/sirupsen/logrus"
	"pgregory.net/rapid"
)

// c06Relay collects, in order, every datagram any upstream connection of the case
// was asked to send.
type c06Relay struct {
	mu      sync.Mutex
	writes  [][]byte
	targets []string
	conns   []*c06UpConn
	dials   []string
}

type c06UpConn struct {
	relay   *c06Relay
	closeCh chan struct{}
	once    sync.Once
}

func (c *c06UpConn) Read([]byte) (int, error)  { return 0, io.EOF }
func (c *c06UpConn) Write([]byte) (int, error) { return 0, netproxy.UnsupportedTunnelTypeError }
func (c *c06UpConn) ReadFrom([]byte) (int, netip.AddrPort, error) {
	<-c.closeCh
	return 0, netip.AddrPort{}, io.EOF
}
func (c *c06UpConn) WriteTo(b []byte, target string) (int, error) {
	select {
	case <-c.closeCh:
		return 0, io.ErrClosedPipe
	default:
	}
	c.relay.mu.Lock()
	defer c.relay.mu.Unlock()
	c.relay.writes = append(c.relay.writes, append([]byte(nil), b...))
	c.relay.targets = append(c.relay.targets, target)
	return len(b), nil
}
func (c *c06UpConn) Close() error                     { c.once.Do(func() { close(c.closeCh) }); return nil }
func (c *c06UpConn) SetDeadline(time.Time) error      { return nil }
func (c *c06UpConn) SetReadDeadline(time.Time) error  { return nil }
func (c *c06UpConn) SetWriteDeadline(time.Time) error { return nil }

// every dial gets a fresh connection (an endpoint that handlePkt tears down closes its own)
func (r *c06Relay) DialContext(_ context.Context, network, addr string) (netproxy.Conn, error) {
	r.mu.Lock()
	defer r.mu.Unlock()
	c := &c06UpConn{relay: r, closeCh: make(chan struct{})}
	r.conns = append(r.conns, c)
	r.dials = append(r.dials, network+"|"+addr)
	return c, nil
}

type c06LogHook struct {
	mu     sync.Mutex
	panics []string
}

func (h *c06LogHook) Levels() []logrus.Level {
	return []logrus.Level{logrus.ErrorLevel, logrus.PanicLevel, logrus.FatalLevel}
}
func (h *c06LogHook) Fire(e *logrus.Entry) error {
	h.mu.Lock()
	defer h.mu.Unlock()
	h.panics = append(h.panics, fmt.Sprintf("%s %v", e.Message, e.Data))
	return nil
}

type c06World struct {
	cp      *ControlPlane
	conn    *c06Relay
	hook    *c06LogHook
	restore func()
}

func c06NewWorld() *c06World {
	w := &c06World{conn: &c06Relay{}, hook: &c06LogHook{}}
	logger := logrus.New()
	logger.SetOutput(io.Discard)
	logger.AddHook(w.hook)
	gopt := &componentdialer.GlobalOption{Log: logger, CheckInterval: time.Second}
	d := componentdialer.NewDialer(w.conn, gopt, componentdialer.InstanceOption{DisableCheck: true},
		&componentdialer.Property{Property: D.Property{Name: "c06", Address: "proxy.example:443", Protocol: "hysteria2"}})
	group := ob.NewDialerGroup(gopt, "c06-fixed", []*componentdialer.Dialer{d}, []*componentdialer.Annotation{{}},
		ob.DialerSelectionPolicy{Policy: consts.DialerSelectionPolicy_Fixed, FixedIndex: 0}, func(bool, *componentdialer.NetworkType, bool) {})
	outbounds := make([]*ob.DialerGroup, int(consts.OutboundUserDefinedMin)+1)
	outbounds[consts.OutboundUserDefinedMin] = group
	w.cp = &ControlPlane{log: logger, controlPlaneGenerationState: controlPlaneGenerationState{outbounds: outbounds}}

	oldUdp, oldAny, oldSn, oldFailed := DefaultUdpEndpointPool, DefaultAnyfromPool, DefaultPacketSnifferSessionMgr, getFailedQuicDcidCache()
	DefaultUdpEndpointPool = NewUdpEndpointPool()
	ap := &AnyfromPool{}
	for i := range anyfromPoolShardCount {
		ap.shards[i].pool = make(map[netip.AddrPort]*Anyfrom, 16)
	}
	DefaultAnyfromPool = ap
	DefaultPacketSnifferSessionMgr = NewPacketSnifferPool()
	SetFailedQuicDcidCache(newFailedQuicDcidCache(failedQuicDcidCacheShardCount))
	w.restore = func() {
		DefaultUdpEndpointPool.Reset()
		DefaultUdpEndpointPool = oldUdp
		DefaultAnyfromPool.Reset()
		DefaultAnyfromPool = oldAny
		DefaultPacketSnifferSessionMgr.Close()
		DefaultPacketSnifferSessionMgr = oldSn
		SetFailedQuicDcidCache(oldFailed)
		w.conn.mu.Lock()
		for _, c := range w.conn.conns {
			_ = c.Close()
		}
		w.conn.mu.Unlock()
	}
	return w
}

func c06PrimeAnyfrom(src, dst netip.AddrPort) {
	bindAddr, _ := normalizeSendPktAddrFamily(dst, src)
	af := &Anyfrom{ttl: AnyfromTimeout}
	af.RefreshTtl()
	shard := DefaultAnyfromPool.shardFor(bindAddr)
	shard.mu.Lock()
	shard.pool[bindAddr] = af
	shard.mu.Unlock()
}

func TestC06_HandlePktReplay(t *testing.T) {
	src := netip.MustParseAddrPort("192.168.89.3:42687")
	dst := netip.MustParseAddrPort("52.199.194.44:443")
	rapid.Check(t, func(rt *rapid.T) {
		p := c06GenQuicPlan(rt)
		c06GenContinuation(rt, p, true) // the flow's history goes on after the first verdict
		second := false
		for _, f := range p.Flight {
			second = second || f != 0
		}
		t0 := time.Now()
		w := c06NewWorld()
		defer w.restore()
		c06PrimeAnyfrom(src, dst)
		var covered [][2]int
		completeAt, poisoned := -1, false
		used := make([]bool, len(p.Datagrams))
		var relayedIdx []int
		lastClean := [2]int{-1, -1}
		lost := 0
		reorderedAfterCorruption := false
		for i, d := range p.Datagrams {
			if p.Events[i] == "endpoint_lost" {
				// the UDP endpoint of the flow goes away (health check / NAT expiry) while the
				// compacted sniffer session is still alive: later Initials are sniffed again.
				for _, k := range []UdpEndpointKey{{Src: src, Dst: dst}, {Src: src}} {
					if ue, ok := DefaultUdpEndpointPool.Get(k); ok && ue != nil {
						_ = DefaultUdpEndpointPool.Remove(k, ue)
						lost++
					}
				}
			}
			// capacity == length: a read past the end of the datagram (even inside spare
			// capacity, which plain slicing would allow) becomes a visible panic
			in := append(make([]byte, 0, len(d)), d...)
			rr := &bpfRoutingResult{Outbound: uint8(consts.OutboundUserDefinedMin)}
			err, escaped := func() (err error, escaped any) {
				defer func() { escaped = recover() }()
				decision := ClassifyUdpFlow(src, dst, in).EnsureSnifferSession()
				return w.cp.handlePkt(nil, in, src, dst, rr, decision, false), nil
			}()
			if escaped != nil {
				rt.Fatalf("PANIC escaped ClassifyUdpFlow/handlePkt at datagram %d (%d bytes, %s, corrupt sequence %v): %v", i, len(in), fmt.Sprintf("%x", in[:min(len(in), 32)]), p.Corrupt[:i+1], escaped)
			}
			if err != nil {
				rt.Fatalf("handlePkt(datagram %d): %v", i, err)
			}
			if !bytes.Equal(in, d) {
				rt.Fatalf("handlePkt modified the ingress buffer of datagram %d", i)
			}
			if p.Corrupt[i] != "" {
				poisoned = true
			}
			covered = append(covered, p.Ranges[i]...)
			if completeAt < 0 && c06Covered(append([][2]int(nil), covered...), len(p.Hello)) {
				completeAt = i
			}
			// Every datagram handed to the relay is an ingress datagram, byte for byte, at
			// most once; the datagrams of the flight itself (the ones the sniffer buffers)
			// come out in ingress order. Datagrams that are not QUIC Initials are by
			// design forwarded at once and may overtake buffered ones.
			w.conn.mu.Lock()
			got := append([][]byte(nil), w.conn.writes...)
			w.conn.mu.Unlock()
			for _, g := range got[len(relayedIdx):] {
				m := -1
				for j := 0; j <= i; j++ {
					if !used[j] && bytes.Equal(g, p.Datagrams[j]) {
						m = j
						break
					}
				}
				if m < 0 {
					rt.Fatalf("REPLAY: a datagram of %d bytes reached the relay that is not (or no longer) an ingress datagram: altered or duplicated", len(g))
				}
				used[m] = true
				if p.Corrupt[m] == "" {
					if m < lastClean[p.Flight[m]] {
						if !poisoned {
							rt.Fatalf("REPLAY: buffered datagram %d was relayed after datagram %d: ingress order not preserved (flight %v, relayed so far %v)", m, lastClean[p.Flight[m]], p.Ranges, relayedIdx)
						}
						// after a foreign/corrupted datagram on the same 4-tuple the order of the
						// remaining ones is not demanded (UDP gives no such guarantee); counted.
						reorderedAfterCorruption = true
					}
					lastClean[p.Flight[m]] = max(lastClean[p.Flight[m]], m)
				}
				relayedIdx = append(relayedIdx, m)
			}
		}
		if len(w.hook.panics) > 0 {
			rt.Fatalf("handlePkt logged an error/panic: %v", w.hook.panics)
		}
		stalled := time.Since(t0) > 2*time.Second // sniffer sessions expire after 5 s of real time
		w.conn.mu.Lock()
		relayed := len(w.conn.writes)
		w.conn.mu.Unlock()
		outcome := "all_relayed"
		v2 := p.Version == c06QuicV2
		// What is still withheld sits in the live sniffer session of the flow. Waiting is
		// legitimate only while that buffer does not hold the whole ClientHello: once it
		// does, the verdict is final and everything must have been handed on.
		tailComplete, heldInSession := false, 0
		firstClean := p.Datagrams[0]
		for j := range p.Datagrams {
			if p.Corrupt[j] == "" && p.Flight[j] == 0 {
				firstClean = p.Datagrams[j]
				break
			}
		}
		if ps := DefaultPacketSnifferSessionMgr.Get(NewPacketSnifferKey(src, dst, firstClean)); ps != nil {
			ps.Mu.Lock()
			var tail [][2]int
			if dd := ps.Data(); len(dd) > 1 {
				for _, h := range dd[1:] {
					heldInSession++
					for j := range p.Datagrams {
						if p.Corrupt[j] == "" && p.Flight[j] == 0 && bytes.Equal(h, p.Datagrams[j]) {
							tail = append(tail, p.Ranges[j]...)
							break
						}
					}
				}
			}
			ps.Mu.Unlock()
			tailComplete = c06Covered(tail, len(p.Hello))
		}
		if !poisoned && !second && !stalled && len(p.Datagrams)-relayed != heldInSession {
			rt.Fatalf("BUFFER MISMATCH: %d of %d datagrams of an intact flight were not relayed but the flow's sniffer session buffers %d (fewer: datagrams disappeared; more: an already relayed datagram is still buffered and would be replayed again)", len(p.Datagrams)-relayed, len(p.Datagrams), heldInSession)
		}
		switch {
		case relayed == len(p.Datagrams):
		case stalled:
			outcome = "stalled(inconclusive)"
		case second:
			outcome = "second_connection_on_same_tuple(earlier session may be dropped)"
		case !tailComplete:
			outcome = "still_waiting(incomplete_or_corrupted_flight)"
		case p.Want == "" && !v2 && vkKnown("F-C06-3"):
			outcome = "withheld(known F-C06-3)"
			vkExcluded("C06.handlepkt", "F-C06-3")
		case p.NoExt && vkKnown("F-C06-4"):
			outcome = "withheld(known F-C06-4)"
			vkExcluded("C06.handlepkt", "F-C06-4")
		default:
			rt.Fatalf("WITHHELD: the flight is complete after datagram %d (name carried %q, version %#x) but only %d of %d datagrams reached the relay",
				completeAt, p.Want, p.Version, relayed, len(p.Datagrams))
		}
		// the name the endpoint was created with
		domain := ""
		if ue, ok := DefaultUdpEndpointPool.Get(UdpEndpointKey{Src: src, Dst: dst}); ok && ue != nil {
			domain = ue.SniffedDomain
		}
		if domain != "" && !(p.Want != "" && c06SameName(domain, p.Want)) && !(second && p.Want2 != "" && c06SameName(domain, p.Want2)) {
			rt.Fatalf("WRONG NAME: endpoint carries sniffed domain %q, the flight carries %q (second connection: %q)", domain, p.Want, p.Want2)
		}
		if outcome == "all_relayed" && !poisoned && !second && completeAt >= 0 && p.Want != "" && domain == "" && !(v2 && vkKnown("F-C06-1")) && !stalled {
			rt.Fatalf("MUST FIND: complete flight carrying %q (version %#x) was relayed without a sniffed domain", p.Want, p.Version)
		}
		key := ""
		if len(p.Datagrams) >= 2 || p.Mutated {
			key = fmt.Sprintf("%x|%v|%v", p.DCID, p.Ranges, p.Corrupt)
			for _, d := range p.Datagrams {
				key += fmt.Sprintf("|%x", d[:min(len(d), 40)])
			}
		}
		vkCase("C06.handlepkt", key, func() any {
			return map[string]any{"version": fmt.Sprintf("%#x", p.Version), "want": p.Want, "datagrams": len(p.Datagrams), "ranges": fmt.Sprint(p.Ranges), "corrupt": p.Corrupt, "relayed": relayed, "relay_order": fmt.Sprint(relayedIdx), "domain": domain, "outcome": outcome}
		}, "outcome:"+outcome, fmt.Sprintf("version:%#x", p.Version), fmt.Sprintf("datagrams:%d", min(len(p.Datagrams), 5)), fmt.Sprintf("domain_found:%v", domain != ""),
			fmt.Sprintf("reordered_after_corruption:%v", reorderedAfterCorruption), fmt.Sprintf("history_after_first_flight:%d", min(len(p.Datagrams)-p.Primary, 4)), fmt.Sprintf("endpoints_lost:%d", min(lost, 3)),
			fmt.Sprintf("second_connection:%v", second), "variant:real_handlePkt_on_minimal_ControlPlane")
	})
}

package control

// C16 (kernel-bit half, build mode "stub").
//
//  1. TestC16_ConnKey: outboundConnectivityMapKey is the documented layout
//     outbound*6 + domain*2 + ipversion (domain 0 TCP incl. TCP-DNS, 1 DNS UDP,
//     2 data UDP), stays below the map's max_entries declared in tproxy.c and is
//     injective over (outbound, domain, family).
//  2. TestC16_Conn: a ControlPlane literal whose outbounds are real DialerGroups
//     (ids 0/1 = direct/block with fixed policy, then user groups sharing nodes).
//     Each group's alive-change callback is the body of the production closure
//     controlPlaneCore.outboundAliveChangeCallback with the final
//     ebpf.Map.Update(key, value) replaced by a store into a fake array - the
//     production closure cannot run without a kernel map; its key arithmetic
//     (outboundConnectivityMapKey) is the part reused. Histories of forced
//     reports, traffic failures up to the thresholds, data-UDP traffic success,
//     reload-fallback revivals and reloads through the *real*
//     ControlPlane.InheritDialerHealthFrom. Oracle after every call: the slot of
//     (outbound, type) is 0 exactly when a latency-policy group has no alive node
//     of that type, every other slot is untouched; after a reload nothing that was
//     alive is dead, and every group still has a selectable node per type.
//  3. TestC16_Finding_FC162: the reload floor of a group is undone by a later
//     group that shares the floor node.

import (
	"context"
	"errors"
	"fmt"
	"io"
	"os"
	"path/filepath"
	"regexp"
	"sort"
	"strconv"
	"strings"
	"testing"
	"testing/synctest"
	"time"

	"github.com/cilium/ebpf"
	"github.com/daeuniverse/dae/common/consts"
	"github.com/daeuniverse/dae/component/outbound"
	"github.com/daeuniverse/dae/component/outbound/dialer"
	D "github.com/daeuniverse/outbound/dialer"
	"github.com/daeuniverse/outbound/protocol/direct"
	"github.com/sirupsen/logrus"
	"pgregory.net/rapid"
)

const (
	c16CUnit    = "C16.conn"
	c16CKeyUnit = "C16.connkey"
	c16CF1      = "F-C16-1"
	c16CF2      = "F-C16-2"
	c16CSlots   = 256 * 6
)

var c16CDomNames = [6]string{"tcp4", "tcp6", "dnsudp4", "dnsudp6", "dataudp4", "dataudp6"}

func c16CTypes(dom int) []*dialer.NetworkType {
	ip := consts.IpVersionStr_4
	if dom%2 == 1 {
		ip = consts.IpVersionStr_6
	}
	switch dom / 2 {
	case 0:
		return []*dialer.NetworkType{
			{L4Proto: consts.L4ProtoStr_TCP, IpVersion: ip},
			{L4Proto: consts.L4ProtoStr_TCP, IpVersion: ip, IsDns: true},
			{L4Proto: consts.L4ProtoStr_TCP, IpVersion: ip, IsDns: true, UdpHealthDomain: dialer.UdpHealthDomainDns},
		}
	case 1:
		return []*dialer.NetworkType{
			{L4Proto: consts.L4ProtoStr_UDP, IpVersion: ip, IsDns: true, UdpHealthDomain: dialer.UdpHealthDomainDns},
		}
	default:
		return []*dialer.NetworkType{
			{L4Proto: consts.L4ProtoStr_UDP, IpVersion: ip, UdpHealthDomain: dialer.UdpHealthDomainData},
			{L4Proto: consts.L4ProtoStr_UDP, IpVersion: ip},
		}
	}
}

func c16CType(dom int) *dialer.NetworkType { return c16CTypes(dom)[0] }

// c16CMaxEntries reads max_entries of outbound_connectivity_map from the kernel
// source of the tree under test.
func c16CMaxEntries() (int, error) {
	repo := os.Getenv("VERIF_REPO")
	if repo == "" {
		repo = "/repo"
	}
	b, err := os.ReadFile(filepath.Join(repo, "control", "kern", "tproxy.c"))
	if err != nil {
		return 0, err
	}
	re := regexp.MustCompile(`(?s)__uint\(max_entries,\s*(\d+)\);[^}]*\}\s*outbound_connectivity_map\s+SEC`)
	m := re.FindSubmatch(b)
	if m == nil {
		return 0, errors.New("outbound_connectivity_map definition not found in tproxy.c")
	}
	return strconv.Atoi(string(m[1]))
}

func TestC16_ConnKey(tt *testing.T) {
	maxEntries, err := c16CMaxEntries()
	if err != nil {
		tt.Skipf("harness: %v", err)
	}
	rapid.Check(tt, func(t *rapid.T) {
		ob := uint8(rapid.SampledFrom([]int{0, 1, 2, 3, 127, 128, 254, 255, rapid.IntRange(0, 255).Draw(t, "ob_any")}).Draw(t, "outbound"))
		dom := rapid.IntRange(0, 5).Draw(t, "dom")
		types := c16CTypes(dom)
		nt := types[rapid.IntRange(0, len(types)-1).Draw(t, "variant")]
		key := outboundConnectivityMapKey(ob, nt)
		want := uint32(ob)*6 + uint32(dom/2)*2 + uint32(dom%2)
		if key != want {
			t.Fatalf("key(outbound=%d, %+v) = %d, documented layout gives %d", ob, *nt, key, want)
		}
		if int(key) >= maxEntries {
			t.Fatalf("key %d is outside outbound_connectivity_map (max_entries %d)", key, maxEntries)
		}
		ob2 := uint8(rapid.IntRange(0, 255).Draw(t, "outbound2"))
		dom2 := rapid.IntRange(0, 5).Draw(t, "dom2")
		if (ob2 != ob || dom2 != dom) && outboundConnectivityMapKey(ob2, c16CType(dom2)) == key {
			t.Fatalf("key collision: (%d,%s) and (%d,%s) -> %d", ob, c16CDomNames[dom], ob2, c16CDomNames[dom2], key)
		}
		vkCase(c16CKeyUnit, fmt.Sprintf("%d/%d/%+v", ob, dom, *nt), func() any {
			return map[string]any{"outbound": ob, "type": fmt.Sprintf("%+v", *nt), "key": key}
		}, "dom_"+c16CDomNames[dom])
	})
}

// ---- end-to-end with a fake connectivity array -------------------------------------

type c16CCfg struct {
	policy  outbound.DialerSelectionPolicy
	members []int
}

type c16CGen struct {
	cp      *ControlPlane
	nodes   []*dialer.Dialer
	extra   []*dialer.Dialer // direct / block
	retired bool
	core    *controlPlaneCore // real-map mode only
}

// Real-map mode: when bpf(2) is usable, the connectivity array is a real BPF array
// map and every group's callback is the *production* closure
// controlPlaneCore.outboundAliveChangeCallback (ip dial mode, i.e. dryrun=false) of a
// controlPlaneCore that holds that map; generations share the map and are retired
// with the production ControlPlane.MarkRetired. After each callback the whole array
// is read back and folded into h.fake. Otherwise (no bpf(2)) the fake array is used.
var c16CRealUnavailable error

func c16CTryRealMap() *ebpf.Map {
	if c16CRealUnavailable != nil {
		return nil
	}
	m, err := ebpf.NewMap(&ebpf.MapSpec{Name: "c16_conn", Type: ebpf.Array, KeySize: 4, ValueSize: 4, MaxEntries: c16CSlots})
	if err != nil {
		c16CRealUnavailable = err
		vkNote(c16CUnit, "real BPF array map unavailable (%v): production closure body transcribed over a fake array", err)
		return nil
	}
	return m
}

func (h *c16CH) syncFromReal() {
	keys := make([]uint32, c16CSlots)
	vals := make([]uint32, c16CSlots)
	var cur ebpf.MapBatchCursor
	got := 0
	for got < c16CSlots {
		n, err := h.real.BatchLookup(&cur, keys[got:], vals[got:], nil)
		got += n
		if err != nil {
			if errors.Is(err, ebpf.ErrKeyNotExist) {
				break
			}
			// batch ops unsupported: fall back to single lookups
			got = 0
			for k := uint32(0); k < c16CSlots; k++ {
				keys[k] = k
				if e := h.real.Lookup(k, &vals[k]); e != nil {
					h.failf("harness: lookup of slot %d: %v", k, e)
				}
			}
			got = c16CSlots
			break
		}
	}
	for i := 0; i < got; i++ {
		k := keys[i]
		if k >= c16CSlots {
			h.failf("harness: batch lookup returned key %d", k)
		}
		if h.fake[k] != vals[i] {
			h.fake[k] = vals[i]
			h.writes[k]++
		}
	}
}

type c16CH struct {
	fatalf  func(format string, args ...any)
	names   []string // node name per instance (clones repeat a name)
	log     *logrus.Logger
	nn      int
	gcfg    []c16CCfg // user groups; outbound id = index + 2
	cur     *c16CGen
	fake    [c16CSlots]uint32
	writes  map[uint32]int
	alive   [][6]bool
	tf      [][6]int
	taint   map[[2]int]bool
	prevCt  map[[2]int]int
	hist    []string
	classes map[string]bool
	nt      bool
	knownF1 bool
	knownF2 bool
	after   bool
	real    *ebpf.Map
	prev     *c16CGen // retired generation that is still draining
	drainOld bool
}

// evOldGen: a health event inside the retired, still draining generation. The
// connectivity bits belong to the current generation now: nothing may change.
func (h *c16CH) evOldGen(n, dom, variant int, revive bool) {
	if h.prev == nil {
		return
	}
	types := c16CTypes(dom)
	nt := types[variant%len(types)]
	if revive {
		h.logf("old generation: revive #%d %s", n, c16CDomNames[dom])
		h.prev.nodes[n].MarkAliveForReloadFallback(nt)
	} else {
		h.logf("old generation: forced #%d %s", n, c16CDomNames[dom])
		h.prev.nodes[n].ReportUnavailableForced(nt, errors.New("proxy dial failed"))
	}
	h.class("event_in_draining_old_generation")
	h.nt = true
	h.verify()
}

func (h *c16CH) class(c string) { h.classes[c] = true }

// name of node instance i. Instances are distinct *Dialer objects; a group with a
// per-group check override holds its own clones, which carry the node's name
// (ControlPlane clones dialers per group via CloneWithGlobalOptionContext), so
// several instances may share one name. Reload matches by group name + node name.
func (h *c16CH) name(i int) string {
	if i < len(h.names) {
		return h.names[i]
	}
	return fmt.Sprintf("n%d", i)
}
func (h *c16CH) logf(f string, a ...any) {
	h.hist = append(h.hist, fmt.Sprintf(f, a...))
}
func (h *c16CH) cfgString() string {
	var s []string
	for i, c := range h.gcfg {
		var ms []string
		for _, m := range c.members {
			ms = append(ms, fmt.Sprintf("#%d=%s", m, h.name(m)))
		}
		s = append(s, fmt.Sprintf("ob%d{%s/%d members=%v}", i+2, c.policy.Policy, c.policy.FixedIndex, ms))
	}
	return strings.Join(s, " ")
}
func (h *c16CH) failf(f string, a ...any) {
	h.fatalf("%s\ngroups: %s\nhistory (%d steps):\n  %s", fmt.Sprintf(f, a...), h.cfgString(), len(h.hist), strings.Join(h.hist, "\n  "))
}

func c16CLatency(p consts.DialerSelectionPolicy) bool {
	switch p {
	case consts.DialerSelectionPolicy_MinLastLatency, consts.DialerSelectionPolicy_MinAverage10Latencies, consts.DialerSelectionPolicy_MinMovingAverageLatencies:
		return true
	}
	return false
}

// callback = production closure body with Map.Update replaced by the fake array.
func (h *c16CH) callback(gen *c16CGen, ob uint8) func(alive bool, nt *dialer.NetworkType, isInit bool) {
	if h.real != nil {
		prod := gen.core.outboundAliveChangeCallback(ob, false)
		return func(alive bool, nt *dialer.NetworkType, isInit bool) {
			prod(alive, nt, isInit)
			h.syncFromReal()
		}
	}
	return func(alive bool, nt *dialer.NetworkType, isInit bool) {
		if gen.retired {
			return
		}
		value := uint32(0)
		if alive {
			value = 1
		}
		key := outboundConnectivityMapKey(ob, nt)
		if key >= c16CSlots {
			h.failf("callback of outbound %d wrote key %d outside the map", ob, key)
		}
		h.fake[key] = value
		h.writes[key]++
	}
}

func (h *c16CH) build() *c16CGen {
	gen := &c16CGen{}
	if h.real != nil {
		ctx, cancel := context.WithCancel(context.Background())
		gen.core = &controlPlaneCore{log: h.log, outboundId2Name: map[uint8]string{}, closed: ctx, close: cancel}
		gen.core.bpf.Store(&bpfObjects{bpfMaps: bpfMaps{OutboundConnectivityMap: h.real}})
	}
	opt := &dialer.GlobalOption{Log: h.log, CheckInterval: 30 * time.Second}
	mk := func(name string) *dialer.Dialer {
		return dialer.NewDialer(direct.SymmetricDirect, opt, dialer.InstanceOption{DisableCheck: true}, &dialer.Property{Property: D.Property{Name: name}})
	}
	for i := 0; i < h.nn; i++ {
		gen.nodes = append(gen.nodes, mk(h.name(i)))
	}
	gen.extra = []*dialer.Dialer{mk("direct"), mk("block")}
	fixed0 := outbound.DialerSelectionPolicy{Policy: consts.DialerSelectionPolicy_Fixed}
	obs := []*outbound.DialerGroup{
		outbound.NewDialerGroup(opt, "direct", gen.extra[:1], []*dialer.Annotation{{}}, fixed0, h.callback(gen, 0)),
		outbound.NewDialerGroup(opt, "block", gen.extra[1:], []*dialer.Annotation{{}}, fixed0, h.callback(gen, 1)),
	}
	for gi, cfg := range h.gcfg {
		ds := make([]*dialer.Dialer, len(cfg.members))
		annos := make([]*dialer.Annotation, len(cfg.members))
		for i, n := range cfg.members {
			ds[i] = gen.nodes[n]
			annos[i] = &dialer.Annotation{}
		}
		obs = append(obs, outbound.NewDialerGroup(opt, fmt.Sprintf("g%d", gi), ds, annos, cfg.policy, h.callback(gen, uint8(len(obs)))))
	}
	gen.cp = &ControlPlane{core: gen.core, controlPlaneGenerationState: controlPlaneGenerationState{outbounds: obs}}
	return gen
}

// markRetired is what the reload worker does first with the outgoing generation
// (ControlPlane.MarkRetired); the generation itself keeps running while it drains.
func (h *c16CH) markRetired(gen *c16CGen) {
	gen.retired = true
	if gen.core != nil {
		gen.cp.MarkRetired()
	}
}

func (h *c16CH) retire(gen *c16CGen) {
	h.markRetired(gen)
	if gen.core != nil {
		defer gen.core.close()
	}
	for _, g := range gen.cp.outbounds {
		_ = g.Close()
	}
	for _, d := range append(append([]*dialer.Dialer{}, gen.nodes...), gen.extra...) {
		_ = d.Close()
	}
}

func (h *c16CH) count(cfg c16CCfg, dom int) int {
	c := 0
	for _, n := range cfg.members {
		if h.alive[n][dom] {
			c++
		}
	}
	return c
}

func (h *c16CH) hasLatency(n, dom int, policy consts.DialerSelectionPolicy) bool {
	c := h.cur.nodes[n].HealthSnapshot().Collections[c16CType(dom).Index()]
	if policy == consts.DialerSelectionPolicy_MinMovingAverageLatencies {
		return c.MovingAverage > 0
	}
	return len(c.Latencies.Latencies) > 0
}

func (h *c16CH) verify() {
	synctest.Wait()
	for n, d := range h.cur.nodes {
		for dom := 0; dom < 6; dom++ {
			for _, nt := range c16CTypes(dom) {
				if got := d.MustGetAlive(nt); got != h.alive[n][dom] {
					h.failf("node #%d %s alive=%v, model says %v", n, c16CDomNames[dom], got, h.alive[n][dom])
				}
			}
		}
	}
	want := map[uint32]uint32{}
	for ob := 0; ob < 2+len(h.gcfg); ob++ {
		for dom := 0; dom < 6; dom++ {
			key := uint32(ob)*6 + uint32(dom/2)*2 + uint32(dom%2)
			want[key] = 1
			if ob < 2 {
				continue
			}
			cfg := h.gcfg[ob-2]
			if cfg.policy.Policy == consts.DialerSelectionPolicy_Fixed {
				continue
			}
			cnt := h.count(cfg, dom)
			set := h.cur.cp.outbounds[ob].MustGetAliveDialerSet(c16CType(dom))
			if set == nil || set.Len() != cnt {
				h.failf("outbound %d %s: alive set disagrees with its members' state (want %d alive)", ob, c16CDomNames[dom], cnt)
			}
			if !c16CLatency(cfg.policy.Policy) {
				// random policy: the statement speaks about latency-policy groups only.
				want[key] = h.fake[key]
				continue
			}
			k := [2]int{ob, dom}
			if cnt == 0 {
				want[key] = 0
				h.taint[k] = false
			}
			if h.fake[key] != want[key] && h.knownF1 && h.fake[key] == 0 && h.prevCt[k] == 0 && cnt > 0 && !h.taint[k] {
				// single revival: the revived node(s) carry no latency sample. A reload
				// revives and re-kills several nodes in one step (floor of this group, floors
				// and restores of other groups): there it is enough that some member lacks
				// a sample - it may have been the floor candidate that left the bit stale.
				none, some := true, false
				for _, n := range cfg.members {
					if !h.hasLatency(n, dom, cfg.policy.Policy) {
						some = true
					} else if h.alive[n][dom] {
						none = false
					}
				}
				if none || (h.after && some) {
					h.taint[k] = true
					vkExcluded(c16CUnit, c16CF1)
				}
			}
			if h.taint[k] {
				want[key] = h.fake[key]
			}
			h.prevCt[k] = cnt
		}
	}
	for key := uint32(0); key < c16CSlots; key++ {
		w, used := want[key]
		if !used {
			if h.writes[key] != 0 {
				h.failf("slot %d belongs to no outbound but was written", key)
			}
			continue
		}
		if h.fake[key] != w {
			ob, dom := key/6, key%6
			h.failf("connectivity slot %d (outbound %d, %s) = %d, want %d", key, ob, c16CDomNames[dom], h.fake[key], w)
		}
	}
}

func (h *c16CH) evForced(n, dom, variant int) {
	types := c16CTypes(dom)
	h.logf("forced #%d %s v%d", n, c16CDomNames[dom], variant%len(types))
	h.cur.nodes[n].ReportUnavailableForced(types[variant%len(types)], errors.New("proxy dial failed"))
	if h.alive[n][dom] {
		h.alive[n][dom] = false
		h.class("forced_death")
		h.nt = true
	}
	h.verify()
}

func (h *c16CH) evTrafficFail(n, dom, variant, rep int) {
	types := c16CTypes(dom)
	thr := 10
	if dom >= 2 {
		thr = 50
	}
	for i := 0; i < rep; i++ {
		h.logf("traffic_fail #%d %s v%d (%d/%d)", n, c16CDomNames[dom], variant%len(types), i+1, rep)
		h.cur.nodes[n].ReportUnavailable(types[variant%len(types)], errors.New("i/o timeout"))
		if h.alive[n][dom] {
			h.tf[n][dom]++
			if h.tf[n][dom] >= thr {
				h.alive[n][dom] = false
				h.class("cross_traffic_threshold")
				h.nt = true
			}
		}
		h.verify()
	}
}

func (h *c16CH) evTrafficOK(n, dom int) {
	h.logf("traffic_ok #%d %s", n, c16CDomNames[dom])
	h.cur.nodes[n].ReportAvailableTraffic(c16CType(dom))
	h.tf[n][dom] = 0
	if dom >= 4 {
		if !h.alive[n][dom] {
			h.class("revive_by_data_udp_traffic")
		}
		h.alive[n][dom] = true
	}
	h.verify()
}

func (h *c16CH) evFallback(n, dom int, lat time.Duration) {
	h.logf("reload_fallback #%d %s lat=%v", n, c16CDomNames[dom], lat)
	nt := c16CType(dom)
	if lat > 0 {
		h.cur.nodes[n].MustGetLatencies10(nt).AppendLatency(lat)
		h.class("revive_with_latency_sample")
	}
	h.cur.nodes[n].MarkAliveForReloadFallback(nt)
	h.alive[n][dom] = true
	h.tf[n][dom] = 0
	h.verify()
}

func c16CSelectable(g *outbound.DialerGroup, nt *dialer.NetworkType) bool {
	if d, _, err := g.Select(nt, false); err == nil && d != nil {
		return true
	}
	d, _, err := g.Select(nt, true)
	return err == nil && d != nil
}

func (h *c16CH) sharesWithLater(gi int) bool {
	for _, m := range h.gcfg[gi].members {
		for gj := gi + 1; gj < len(h.gcfg); gj++ {
			for _, x := range h.gcfg[gj].members {
				if x == m {
					return true
				}
			}
		}
	}
	return false
}

func (h *c16CH) evReload() {
	h.logf("reload")
	dialer.ResetGlobalProxyStateForReload()
	old := h.cur
	oldAlive := make([][6]bool, h.nn)
	copy(oldAlive, h.alive)
	for i := 0; i < h.nn; i++ {
		for j := i + 1; j < h.nn; j++ {
			if h.name(i) == h.name(j) && h.alive[i] != h.alive[j] {
				h.class("reload_same_name_instances_differ")
			}
		}
	}
	next := h.build() // init callbacks announce every slot alive
	overlap := next.cp.InheritDialerHealthFrom(old.cp)
	if !overlap {
		h.failf("InheritDialerHealthFrom reported no overlapping dialer")
	}
	if h.drainOld {
		// the outgoing generation keeps draining: retired, but its nodes and groups
		// stay alive and may still report health events (evOldGen).
		h.markRetired(old)
		if h.prev != nil {
			h.retire(h.prev)
		}
		h.prev = old
	} else {
		h.retire(old)
	}
	h.cur = next
	synctest.Wait()

	inGroup := make([]bool, h.nn)
	for _, cfg := range h.gcfg {
		for _, n := range cfg.members {
			inGroup[n] = true
		}
	}
	for n := 0; n < h.nn; n++ {
		for dom := 0; dom < 6; dom++ {
			now := h.cur.nodes[n].MustGetAlive(c16CType(dom))
			was := oldAlive[n][dom]
			switch {
			case !inGroup[n]:
				if !now {
					h.failf("reload: ungrouped fresh node #%d %s is dead", n, c16CDomNames[dom])
				}
			case was && !now:
				h.failf("reload: #%d %s was alive in the old generation but is dead in the new one", n, c16CDomNames[dom])
			case !was && now:
				justified := false
				for _, cfg := range h.gcfg {
					if cfg.policy.Policy == consts.DialerSelectionPolicy_Fixed {
						continue
					}
					member, oldCount := false, 0
					for _, m := range cfg.members {
						if m == n {
							member = true
						}
						if oldAlive[m][dom] {
							oldCount++
						}
					}
					if member && oldCount == 0 {
						justified = true
					}
				}
				if !justified {
					h.failf("reload: #%d %s was dead, is alive in the new generation, and no group needed a floor", n, c16CDomNames[dom])
				}
				h.class("reload_floor_revived_node")
			}
			h.alive[n][dom] = now
			h.tf[n][dom] = 0
		}
		for idx, c := range h.cur.nodes[n].HealthSnapshot().Collections {
			if c.FailCount != 0 || c.TrafficFailCount != 0 {
				h.failf("reload: #%d collection %d inherited fail counts %d/%d", n, idx, c.FailCount, c.TrafficFailCount)
			}
		}
	}
	for gi, cfg := range h.gcfg {
		g := h.cur.cp.outbounds[gi+2]
		for dom := 0; dom < 6; dom++ {
			k := [2]int{gi + 2, dom}
			oc := 0
			for _, m := range cfg.members {
				if oldAlive[m][dom] {
					oc++
				}
			}
			h.prevCt[k] = 0
			if oc > 0 {
				h.prevCt[k] = h.count(cfg, dom)
			}
			h.taint[k] = false
			if c16CSelectable(g, c16CType(dom)) {
				continue
			}
			if h.knownF2 && h.sharesWithLater(gi) {
				vkExcluded(c16CUnit, c16CF2)
				h.class("known_f2_shape")
				continue
			}
			h.failf("reload: outbound %d (%s, members %v) has no selectable node for %s", gi+2, cfg.policy.Policy, cfg.members, c16CDomNames[dom])
		}
	}
	h.class("reload")
	h.nt = true
	h.after = true
	h.verify()
	h.after = false
}

func c16CNewH(fatalf func(format string, args ...any)) *c16CH {
	log := logrus.New()
	log.SetOutput(io.Discard)
	log.SetLevel(logrus.ErrorLevel)
	return &c16CH{fatalf: fatalf, log: log, classes: map[string]bool{}, writes: map[uint32]int{}, taint: map[[2]int]bool{}, prevCt: map[[2]int]int{},
		knownF1: vkKnown(c16CF1), knownF2: vkKnown(c16CF2)}
}

func (h *c16CH) start() {
	h.alive = make([][6]bool, h.nn)
	h.tf = make([][6]int, h.nn)
	for n := range h.alive {
		for d := 0; d < 6; d++ {
			h.alive[n][d] = true
		}
	}
	h.cur = h.build()
	for gi, cfg := range h.gcfg {
		for dom := 0; dom < 6; dom++ {
			h.prevCt[[2]int{gi + 2, dom}] = len(cfg.members)
		}
	}
	for ob := 0; ob < 2+len(h.gcfg); ob++ {
		for slot := 0; slot < 6; slot++ {
			if h.writes[uint32(ob*6+slot)] < 1 || h.fake[ob*6+slot] != 1 {
				h.failf("outbound %d slot %d not announced alive at init (writes=%d value=%d)", ob, slot, h.writes[uint32(ob*6+slot)], h.fake[ob*6+slot])
			}
		}
	}
}

func c16CCase(t *rapid.T) {
	dialer.ResetGlobalProxyStateForReload()
	h := c16CNewH(t.Fatalf)
	if h.real = c16CTryRealMap(); h.real != nil {
		defer h.real.Close()
		vkClass(c16CUnit, "production_closure_on_real_bpf_array")
	} else {
		vkClass(c16CUnit, "fake_array")
	}
	nb := rapid.IntRange(1, 4).Draw(t, "nodes")
	h.nn = nb
	for i := 0; i < nb; i++ {
		h.names = append(h.names, fmt.Sprintf("n%d", i))
	}
	ng := rapid.IntRange(1, 4).Draw(t, "groups")
	for g := 0; g < ng; g++ {
		var cfg c16CCfg
		for n := 0; n < nb; n++ {
			if rapid.Bool().Draw(t, "member") {
				cfg.members = append(cfg.members, n)
			}
		}
		if len(cfg.members) == 0 {
			cfg.members = []int{rapid.IntRange(0, nb-1).Draw(t, "member1")}
		}
		// a group with its own check option holds clones of its nodes: same names,
		// separate Dialer objects with their own health history.
		if rapid.IntRange(0, 2).Draw(t, "cloned") == 0 {
			for i, n := range cfg.members {
				h.names = append(h.names, fmt.Sprintf("n%d", n))
				cfg.members[i] = h.nn
				h.nn++
			}
			h.class("group_holds_clones")
		}
		p := rapid.SampledFrom([]consts.DialerSelectionPolicy{
			consts.DialerSelectionPolicy_MinLastLatency, consts.DialerSelectionPolicy_MinLastLatency, consts.DialerSelectionPolicy_MinAverage10Latencies,
			consts.DialerSelectionPolicy_MinMovingAverageLatencies, consts.DialerSelectionPolicy_Random, consts.DialerSelectionPolicy_Fixed,
		}).Draw(t, "policy")
		cfg.policy = outbound.DialerSelectionPolicy{Policy: p}
		if p == consts.DialerSelectionPolicy_Fixed {
			cfg.policy.FixedIndex = rapid.IntRange(0, len(cfg.members)-1).Draw(t, "fixed")
		}
		h.gcfg = append(h.gcfg, cfg)
	}
	h.drainOld = rapid.Bool().Draw(t, "old_generation_drains")
	h.start()
	defer func() {
		if h.prev != nil {
			h.retire(h.prev)
		}
		h.retire(h.cur)
	}()
	h.verify()

	maxSteps := 25
	if vkThorough() {
		maxSteps = 50
	}
	steps := rapid.IntRange(3, maxSteps).Draw(t, "steps")
	fdom := rapid.IntRange(0, 5).Draw(t, "focus_dom")
	events := []string{"forced", "forced", "forced", "kill_all", "kill_group", "kill_group", "traffic_fail", "traffic_ok", "traffic_ok", "fallback", "fallback_lat", "reload", "reload", "old_gen", "old_gen"}
	for s := 0; s < steps; s++ {
		ev := rapid.SampledFrom(events).Draw(t, "ev")
		n := rapid.IntRange(0, h.nn-1).Draw(t, "n")
		dom := fdom
		if rapid.IntRange(0, 9).Draw(t, "off") < 4 {
			dom = rapid.IntRange(0, 5).Draw(t, "dom")
		}
		variant := rapid.IntRange(0, 2).Draw(t, "variant")
		switch ev {
		case "forced":
			h.evForced(n, dom, variant)
		case "kill_all":
			for x := 0; x < h.nn; x++ {
				h.evForced(x, dom, variant)
			}
			if rapid.Bool().Draw(t, "other_family_too") {
				for x := 0; x < h.nn; x++ {
					h.evForced(x, dom^1, variant)
				}
			}
			h.class("all_nodes_dead_for_a_type")
		case "kill_group":
			// every node object of one group dies (clones held by other groups do not).
			cfg := h.gcfg[rapid.IntRange(0, len(h.gcfg)-1).Draw(t, "kg")]
			both := rapid.Bool().Draw(t, "other_family_too")
			for _, x := range cfg.members {
				h.evForced(x, dom, variant)
				if both {
					h.evForced(x, dom^1, variant)
				}
			}
			h.class("all_nodes_of_a_group_dead_for_a_type")
		case "traffic_fail":
			thr := 10
			if dom >= 2 {
				thr = 50
			}
			need := thr - h.tf[n][dom]
			rep := rapid.SampledFrom([]int{1, need - 1, need, need, need + 1}).Draw(t, "rep")
			if rep < 1 {
				rep = 1
			}
			h.evTrafficFail(n, dom, variant, rep)
		case "traffic_ok":
			if rapid.IntRange(0, 3).Draw(t, "data") > 0 {
				dom = 4 + dom%2
			}
			h.evTrafficOK(n, dom)
		case "fallback":
			h.evFallback(n, dom, 0)
		case "fallback_lat":
			h.evFallback(n, dom, time.Duration(rapid.IntRange(1, 900).Draw(t, "lat"))*time.Millisecond)
		case "reload":
			h.evReload()
		case "old_gen":
			if h.prev == nil {
				h.evReload()
			}
			if h.prev != nil {
				// whole-type kills are what would clear a bit if the retired
				// generation could still write
				if rapid.Bool().Draw(t, "old_kill_all") {
					for x := 0; x < h.nn; x++ {
						h.evOldGen(x, dom, variant, false)
					}
				} else {
					h.evOldGen(n, dom, variant, rapid.Bool().Draw(t, "old_revive"))
				}
			}
		}
	}
	for _, g := range h.gcfg {
		h.class("policy_" + string(g.policy.Policy))
	}
	key := ""
	if h.nt {
		key = h.cfgString() + "|" + strings.Join(h.hist, ";")
	}
	cl := make([]string, 0, len(h.classes))
	for c := range h.classes {
		cl = append(cl, c)
	}
	sort.Strings(cl)
	hist := h.hist
	vkCase(c16CUnit, key, func() any {
		if len(hist) > 60 {
			hist = hist[:60]
		}
		return map[string]any{"groups": h.cfgString(), "history": hist}
	}, cl...)
}

func c16CInBubble(tt *testing.T, f func()) {
	var (
		pv       any
		panicked bool
	)
	synctest.Test(tt, func(_ *testing.T) {
		defer func() {
			if r := recover(); r != nil {
				pv, panicked = r, true
			}
		}()
		f()
	})
	if panicked {
		if fmt.Sprintf("%T", pv) == "rapid.invalidData" {
			c16CReraiseInvalid(pv)
		}
		panic(pv)
	}
}

//go:noinline
func c16CReraiseInvalid(pv any) { panic(pv) }

func TestC16_Conn(tt *testing.T) {
	rapid.Check(tt, func(t *rapid.T) {
		c16CInBubble(tt, func() { c16CCase(t) })
	})
}

// TestC16_Finding_FC162: groups A{min: n0,n1} and B{fixed(0): n0}; every node is
// dead for tcp4 and tcp6 in the old generation. InheritDialerHealthFrom gives A a
// floor (n0), then B restores n0 from the old snapshot again: A is left with no
// alive node and nothing selectable.
func TestC16_Finding_FC162(tt *testing.T) {
	var selectable [2]bool
	var aliveA [2]int
	c16CInBubble(tt, func() {
		dialer.ResetGlobalProxyStateForReload()
		h := c16CNewH(func(f string, a ...any) { panic(fmt.Sprintf(f, a...)) })
		h.nn = 2
		h.gcfg = []c16CCfg{
			{policy: outbound.DialerSelectionPolicy{Policy: consts.DialerSelectionPolicy_MinLastLatency}, members: []int{0, 1}},
			{policy: outbound.DialerSelectionPolicy{Policy: consts.DialerSelectionPolicy_Fixed}, members: []int{0}},
		}
		h.start()
		for n := 0; n < 2; n++ {
			for dom := 0; dom < 2; dom++ {
				h.cur.nodes[n].ReportUnavailableForced(c16CType(dom), errors.New("proxy dial failed"))
			}
		}
		old := h.cur
		next := h.build()
		next.cp.InheritDialerHealthFrom(old.cp)
		h.retire(old)
		h.cur = next
		defer h.retire(next)
		a := next.cp.outbounds[2]
		for dom := 0; dom < 2; dom++ {
			selectable[dom] = c16CSelectable(a, c16CType(dom))
			aliveA[dom] = a.MustGetAliveDialerSet(c16CType(dom)).Len()
		}
	})
	broken := !selectable[0] || !selectable[1]
	if vkKnown(c16CF2) {
		if broken {
			vkKnownReproduced(c16CF2)
			tt.Logf("known finding %s reproduced: group A selectable tcp4/tcp6 = %v, alive entries = %v", c16CF2, selectable, aliveA)
		} else {
			tt.Logf("known finding %s no longer reproduces", c16CF2)
		}
		return
	}
	if broken {
		tt.Fatalf("after reload group A{min: n0,n1} (sharing n0 with the later group B{fixed: n0}) has no selectable node: selectable tcp4/tcp6 = %v, alive entries = %v", selectable, aliveA)
	}
}

package control

// C15 (caller level) — the REAL ControlPlane.chooseProxyDialer / routeDial selection
// path over a generated dialer group (1-4 nodes, all five policies), generated
// per-node / per-health-type alive states and latency samples, destinations and
// sources of both families, sniffed values (none, domain, domain:port, IP literals
// of either family) under dial modes ip / domain+ / domain++ (the strictness is
// whatever the caller derives from them), direct or control-plane-routed outbound,
// and an Excluded node (none, any node, the node an unexcluded call returns = the
// failover retry, a foreign dialer). routeDial additionally sees scripted node dial
// results (ok, "network is unreachable" once/always, refused), i.e. its own
// force-mark-and-retry loop.
//
// Oracle: the validity predicate of the group unit applied to what the caller
// finally hands out: the node is recorded alive for the first type, in the
// documented order (requested family: data-UDP -> DNS-UDP -> TCP for UDP, TCP for
// TCP; then the same list of the other family, which chooseProxyDialer itself
// retries), that has an eligible (alive, not excluded) node; the excluded node is
// never returned unless the policy is fixed or it is the group's only node; an
// error only if no tried type has an eligible node; fixed(i) -> node i; min
// policies: no other eligible measured node beats the pick by >= tolerance.
// Back-off level stays 0 (forced kills only).

import (
	"context"
	"errors"
	"fmt"
	"io"
	"net/netip"
	"strings"
	"testing"
	"testing/synctest"
	"time"

	"github.com/daeuniverse/dae/common/consts"
	ob "github.com/daeuniverse/dae/component/outbound"
	cdialer "github.com/daeuniverse/dae/component/outbound/dialer"
	D "github.com/daeuniverse/outbound/dialer"
	"github.com/daeuniverse/outbound/netproxy"
	"github.com/sirupsen/logrus"
	"pgregory.net/rapid"
)

const c15DialUnit = "C15.dial"

var c15dPolicies = []consts.DialerSelectionPolicy{
	consts.DialerSelectionPolicy_Random,
	consts.DialerSelectionPolicy_Fixed,
	consts.DialerSelectionPolicy_MinLastLatency,
	consts.DialerSelectionPolicy_MinAverage10Latencies,
	consts.DialerSelectionPolicy_MinMovingAverageLatencies,
}

// slots follow dialer.StandardHealthKeys(): 0 dns-udp4, 1 dns-udp6, 2 tcp4, 3 tcp6,
// 4 data-udp4, 5 data-udp6.
var c15dSlotNames = [6]string{"dnsudp4", "dnsudp6", "tcp4", "tcp6", "udp4", "udp6"}

type c15dConn struct{}

func (c15dConn) Read([]byte) (int, error)         { return 0, io.EOF }
func (c15dConn) Write(b []byte) (int, error)      { return len(b), nil }
func (c15dConn) Close() error                     { return nil }
func (c15dConn) SetDeadline(time.Time) error      { return nil }
func (c15dConn) SetReadDeadline(time.Time) error  { return nil }
func (c15dConn) SetWriteDeadline(time.Time) error { return nil }

const (
	c15dDialOK = iota
	c15dDialUnreachOnce
	c15dDialUnreachAlways
	c15dDialRefused
)

type c15dNodeDialer struct {
	idx   int
	mode  int
	fails int
	log   *[]int // node indices in dial order
}

func (d *c15dNodeDialer) DialContext(context.Context, string, string) (netproxy.Conn, error) {
	*d.log = append(*d.log, d.idx)
	switch d.mode {
	case c15dDialUnreachOnce:
		if d.fails == 0 {
			d.fails++
			return nil, errors.New("dial tcp: connect: network is unreachable")
		}
	case c15dDialUnreachAlways:
		return nil, errors.New("dial tcp: connect: network is unreachable")
	case c15dDialRefused:
		return nil, errors.New("dial tcp: connect: connection refused")
	}
	return c15dConn{}, nil
}

type c15dMatcher struct{}

func (c15dMatcher) AddSet(int, []string, consts.RoutingDomainKey) {}
func (c15dMatcher) Build() error                                  { return nil }
func (c15dMatcher) MatchDomainBitmap(string) []uint32             { return []uint32{0} }

type c15dNode struct {
	d     *cdialer.Dialer
	nd    *c15dNodeDialer
	name  string
	off   time.Duration
	alive [6]bool
	lats  [6][]time.Duration
}

type c15dWorld struct {
	t      *rapid.T
	cp     *ControlPlane
	g      *ob.DialerGroup
	policy ob.DialerSelectionPolicy
	tol    time.Duration
	nodes  []*c15dNode
	byD    map[*cdialer.Dialer]*c15dNode
	types  [6]*cdialer.NetworkType
	dials  []int
	hist   []string
	sticky bool // the sets still are in the state the checked selection saw
}

func (w *c15dWorld) logf(f string, a ...any) { w.hist = append(w.hist, fmt.Sprintf(f, a...)) }

func (w *c15dWorld) dump() string {
	var b strings.Builder
	for _, n := range w.nodes {
		fmt.Fprintf(&b, "  %s off=%v dial=%d:", n.name, n.off, n.nd.mode)
		for s := range n.alive {
			fmt.Fprintf(&b, " %s[alive=%v lats=%v]", c15dSlotNames[s], n.alive[s], n.lats[s])
		}
		b.WriteString("\n")
	}
	return b.String()
}

func (w *c15dWorld) fatalf(f string, a ...any) {
	w.t.Helper()
	w.t.Fatalf("C15 violation (caller level): %s\npolicy=%s(%d) tol=%v\nnodes:\n%s\nhistory:\n  %s",
		fmt.Sprintf(f, a...), w.policy.Policy, w.policy.FixedIndex, w.tol, w.dump(), strings.Join(w.hist, "\n  "))
}

func (w *c15dWorld) pub(n *c15dNode, s int) (time.Duration, bool) {
	l := n.lats[s]
	switch w.policy.Policy {
	case consts.DialerSelectionPolicy_MinLastLatency:
		if len(l) > 0 {
			return l[len(l)-1] + n.off, true
		}
	case consts.DialerSelectionPolicy_MinAverage10Latencies:
		if len(l) > 0 {
			var sum time.Duration
			for _, x := range l {
				sum += x
			}
			return sum/time.Duration(len(l)) + n.off, true
		}
	}
	return 0, false // min_moving_avg: no moving average is ever published here
}

func (w *c15dWorld) eligible(s int, ex *c15dNode) []*c15dNode {
	var r []*c15dNode
	for _, n := range w.nodes {
		if n.alive[s] && n != ex {
			r = append(r, n)
		}
	}
	return r
}

// c15dTried: the documented order for the caller: requested family first, then the
// other family (chooseProxyDialer retries it itself whatever the strictness).
func c15dTried(udp bool, fam int) []int {
	list := func(f int) []int {
		if udp {
			return []int{4 + f, 0 + f, 2 + f}
		}
		return []int{2 + f}
	}
	return append(list(fam), list(1-fam)...)
}

func c15dSlotOf(nt *cdialer.NetworkType) int {
	switch nt.Index() {
	case cdialer.IdxDnsUdp4:
		return 0
	case cdialer.IdxDnsUdp6:
		return 1
	case cdialer.IdxTcp4, cdialer.IdxDnsTcp4:
		return 2
	case cdialer.IdxTcp6, cdialer.IdxDnsTcp6:
		return 3
	case cdialer.IdxUdp4:
		return 4
	case cdialer.IdxUdp6:
		return 5
	}
	return -1
}

type c15dQuery struct {
	network string
	src     netip.AddrPort
	dst     netip.AddrPort
	domain  string
	mode    consts.DialMode
	out     consts.OutboundIndex
	ex      *c15dNode
	exD     *cdialer.Dialer
}

func (q *c15dQuery) String() string {
	ex := "<nil>"
	if q.ex != nil {
		ex = q.ex.name
	} else if q.exD != nil {
		ex = "<foreign>"
	}
	return fmt.Sprintf("%s %v->%v sniffed=%q mode=%s outbound=%d excluded=%s", q.network, q.src, q.dst, q.domain, q.mode, q.out, ex)
}

// selFamily: TCP selects by the destination family, UDP by the client's family.
func (q *c15dQuery) selFamily() int {
	a := q.dst.Addr()
	if q.network == "udp" {
		a = q.src.Addr()
	}
	if a.Is4() || a.Is4In6() {
		return 0
	}
	return 1
}

// checkChoice applies the validity predicate to one outcome of the selection.
func (w *c15dWorld) checkChoice(what string, q *c15dQuery, got *cdialer.Dialer, res *proxyDialResult, err error) (classes []string, nontrivial bool) {
	what = what + " [" + q.String() + "]"
	if w.policy.Policy == consts.DialerSelectionPolicy_Fixed {
		if err != nil || got != w.nodes[w.policy.FixedIndex].d {
			w.fatalf("%s under fixed(%d) returned (%v, %v)", what, w.policy.FixedIndex, w.name(got), err)
		}
		return []string{"fixed"}, false
	}
	udp := q.network == "udp"
	tried := c15dTried(udp, q.selFamily())
	first := -1
	for _, s := range tried {
		if len(w.eligible(s, q.ex)) > 0 {
			first = s
			break
		}
	}
	if first < 0 {
		if err == nil {
			if len(w.nodes) == 1 && got == w.nodes[0].d {
				return []string{"single_last_resort"}, false
			}
			w.fatalf("%s returned %s although no tried type has an eligible alive node", what, w.name(got))
		}
		if !errors.Is(err, ob.ErrNoAliveDialer) {
			w.fatalf("%s: unexpected error %v", what, err)
		}
		cl := []string{"no_alive"}
		if q.ex != nil {
			for _, s := range tried {
				if q.ex.alive[s] {
					cl = append(cl, "no_alive_only_excluded_left")
					nontrivial = true
					break
				}
			}
		}
		return cl, nontrivial
	}
	if err != nil {
		w.fatalf("%s returned %v although %s has an eligible alive node", what, err, c15dSlotNames[first])
	}
	if len(w.nodes) == 1 && got == w.nodes[0].d {
		// the only node: alive for a tried type, or the documented last resort
		return []string{"single_node"}, first != tried[0]
	}
	g := w.byD[got]
	if g == nil {
		w.fatalf("%s returned nil/foreign dialer without error", what)
	}
	if g == q.ex && len(w.nodes) > 1 {
		w.fatalf("%s returned the excluded node %s", what, g.name)
	}
	if !g.alive[first] {
		if len(w.nodes) == 1 {
			return []string{"single_last_resort"}, false
		}
		w.fatalf("%s returned %s which is not recorded alive for %s, the first tried type with an eligible node (order %v)", what, g.name, c15dSlotNames[first], tried)
	}
	if res != nil {
		adm := res.AdmissionNetworkTypeObj
		if adm == nil {
			w.fatalf("%s reported no admission network type", what)
		}
		if s := c15dSlotOf(adm); s < 0 || !g.alive[s] {
			w.fatalf("%s admitted %s through %s for which it is not recorded alive", what, g.name, adm.String())
		}
		if sel := res.SelectionNetworkTypeObj; sel == nil || sel.IpVersion != adm.IpVersion {
			w.fatalf("%s: selection type %v does not carry the admitted family %v", what, sel, adm.IpVersion)
		}
	}
	switch {
	case first == tried[0]:
		classes = append(classes, "primary")
	case first%2 == tried[0]%2:
		classes, nontrivial = append(classes, "fallback_type"), true
	default:
		classes, nontrivial = append(classes, "fallback_family"), true
		if res != nil && res.IsDialIp {
			classes = append(classes, "fallback_family_while_dialIp")
		}
	}
	if q.ex != nil && q.ex.alive[tried[0]] {
		classes, nontrivial = append(classes, "excluded_was_candidate"), true
	}
	// sticky choice (min policies): excluding a node other than the current choice
	// of the set that serves the request must not change the answer.
	if w.sticky && q.exD != nil && (w.policy.Policy == consts.DialerSelectionPolicy_MinLastLatency ||
		w.policy.Policy == consts.DialerSelectionPolicy_MinAverage10Latencies ||
		w.policy.Policy == consts.DialerSelectionPolicy_MinMovingAverageLatencies) {
		if best, _ := w.g.MustGetAliveDialerSet(w.types[first]).GetMinLatency(nil); best != nil && best != q.exD {
			if got != best {
				w.fatalf("%s returned %s although the excluded node is not the current choice %s of %s: the choice may only change for the licensed reasons, not because some other node is excluded", what, g.name, w.name(best), c15dSlotNames[first])
			}
			classes, nontrivial = append(classes, "sticky_under_other_exclusion"), true
		}
	}
	// min policies: nobody eligible and measured beats the pick by the tolerance.
	if gp, gm := w.pub(g, first); gm {
		for _, e := range w.eligible(first, q.ex) {
			ep, em := w.pub(e, first)
			if e == g || !em {
				continue
			}
			if (w.tol == 0 && ep < gp) || (w.tol > 0 && gp-ep >= w.tol) {
				w.fatalf("%s returned %s (%v) for %s although alive measured %s (%v) beats it by the tolerance or more", what, g.name, gp, c15dSlotNames[first], e.name, ep)
			}
		}
	}
	return classes, nontrivial
}

func (w *c15dWorld) name(d *cdialer.Dialer) string {
	if d == nil {
		return "<nil>"
	}
	if n := w.byD[d]; n != nil {
		return n.name
	}
	return "<foreign>"
}

func (w *c15dWorld) readBackAlive() {
	for _, n := range w.nodes {
		for s := range n.alive {
			n.alive[s] = n.d.MustGetAlive(w.types[s])
		}
	}
}

func c15dGenAddr(t *rapid.T, fam int, label string) netip.AddrPort {
	v4 := []string{"1.2.3.4", "10.0.0.7", "203.0.113.9"}
	v6 := []string{"2001:db8::1", "fd00::7", "2606:4700::1111"}
	port := rapid.SampledFrom([]uint16{80, 443, 53, 40000}).Draw(t, label+"_port")
	if fam == 0 {
		return netip.AddrPortFrom(netip.MustParseAddr(rapid.SampledFrom(v4).Draw(t, label)), port)
	}
	return netip.AddrPortFrom(netip.MustParseAddr(rapid.SampledFrom(v6).Draw(t, label)), port)
}

func c15RunDialCase(t *rapid.T, cleanup *[]func()) {
	cdialer.ResetGlobalProxyStateForReload()
	nNodes := rapid.IntRange(1, 4).Draw(t, "nodes")
	tol := rapid.SampledFrom([]time.Duration{0, time.Millisecond, 50 * time.Millisecond}).Draw(t, "tolerance")
	log := logrus.New()
	log.SetOutput(io.Discard)
	log.SetLevel(logrus.ErrorLevel)
	if rapid.IntRange(0, 7).Draw(t, "logtrace") == 0 {
		log.SetLevel(logrus.TraceLevel)
	}
	opt := &cdialer.GlobalOption{Log: log, CheckInterval: 30 * time.Second, CheckTolerance: tol}
	w := &c15dWorld{t: t, tol: tol, byD: map[*cdialer.Dialer]*c15dNode{}}
	for i, k := range cdialer.StandardHealthKeys() {
		w.types[i] = k.NetworkType()
	}
	w.policy = ob.DialerSelectionPolicy{Policy: rapid.SampledFrom(c15dPolicies).Draw(t, "policy")}
	if w.policy.Policy == consts.DialerSelectionPolicy_Fixed {
		w.policy.FixedIndex = rapid.IntRange(0, nNodes-1).Draw(t, "fixedIndex")
	}
	var dialers []*cdialer.Dialer
	var annos []*cdialer.Annotation
	for i := 0; i < nNodes; i++ {
		name := fmt.Sprintf("n%d", i)
		nd := &c15dNodeDialer{idx: i, log: &w.dials, mode: rapid.SampledFrom([]int{c15dDialOK, c15dDialOK, c15dDialOK, c15dDialUnreachOnce, c15dDialUnreachAlways, c15dDialRefused}).Draw(t, name+"_dial")}
		d := cdialer.NewDialer(nd, opt, cdialer.InstanceOption{DisableCheck: true}, &cdialer.Property{Property: D.Property{Name: name}})
		n := &c15dNode{d: d, nd: nd, name: name, off: rapid.SampledFrom([]time.Duration{0, 0, -tol, tol, -500 * time.Millisecond, time.Millisecond}).Draw(t, name+"_off")}
		// alive matrix: whole families / whole nodes dead often, so that the caller's
		// family fallback and the "only the excluded node is left" shape are common.
		famDead := [2]bool{rapid.IntRange(0, 2).Draw(t, name+"_v4dead") == 0, rapid.IntRange(0, 2).Draw(t, name+"_v6dead") == 0}
		for s := range n.alive {
			n.alive[s] = !famDead[s%2] && rapid.IntRange(0, 4).Draw(t, name+"_slotdead") != 0
			for k := rapid.IntRange(0, 2).Draw(t, name+"_nsamples"); k > 0; k-- {
				l := time.Duration(rapid.IntRange(1, 8).Draw(t, name+"_lat"))*max(tol, time.Millisecond)/2 + time.Duration(rapid.IntRange(-1, 1).Draw(t, name+"_jit"))
				d.MustGetLatencies10(w.types[s]).AppendLatency(l)
				n.lats[s] = append(n.lats[s], l)
			}
			if !n.alive[s] {
				d.ReportUnavailableForced(w.types[s], nil)
			}
		}
		w.nodes = append(w.nodes, n)
		w.byD[d] = n
		dialers = append(dialers, d)
		annos = append(annos, &cdialer.Annotation{AddLatency: n.off})
		*cleanup = append(*cleanup, func() { _ = d.Close() })
	}
	foreign := cdialer.NewDialer(&c15dNodeDialer{idx: -1, log: &w.dials}, opt, cdialer.InstanceOption{DisableCheck: true}, &cdialer.Property{Property: D.Property{Name: "foreign"}})
	*cleanup = append(*cleanup, func() { _ = foreign.Close() })
	noCb := func(bool, *cdialer.NetworkType, bool) {}
	mkBuiltin := func(name string) *ob.DialerGroup {
		d := cdialer.NewDialer(&c15dNodeDialer{idx: -2, log: &w.dials}, opt, cdialer.InstanceOption{DisableCheck: true}, &cdialer.Property{Property: D.Property{Name: name}})
		g := ob.NewDialerGroup(opt, name, []*cdialer.Dialer{d}, []*cdialer.Annotation{{}}, ob.DialerSelectionPolicy{Policy: consts.DialerSelectionPolicy_Fixed}, noCb)
		*cleanup = append(*cleanup, func() { _ = g.Close(); _ = d.Close() })
		return g
	}
	w.g = ob.NewDialerGroup(opt, "c15", dialers, annos, w.policy, noCb)
	*cleanup = append(*cleanup, func() { _ = w.g.Close() })
	w.logf("group policy=%s(%d) tol=%v nodes=%d", w.policy.Policy, w.policy.FixedIndex, tol, nNodes)

	cp := &ControlPlane{log: log}
	cp.outbounds = []*ob.DialerGroup{mkBuiltin("direct"), mkBuiltin("block"), w.g}
	cp.routingMatcher = &RoutingMatcher{
		domainMatcher:   c15dMatcher{},
		compiledMatches: []compiledRoutingMatch{{matchType: consts.MatchType_Fallback, outbound: 2}},
	}
	cp.soMarkFromDae = 0x80
	w.cp = cp

	var classes []string
	nontrivial := false
	nq := rapid.IntRange(3, 8).Draw(t, "queries")
	for i := 0; i < nq; i++ {
		q := &c15dQuery{network: rapid.SampledFrom([]string{"tcp", "udp", "udp"}).Draw(t, "network")}
		dfam := rapid.IntRange(0, 1).Draw(t, "dstFamily")
		sfam := dfam
		if q.network == "udp" && rapid.IntRange(0, 3).Draw(t, "srcOtherFamily") == 0 {
			sfam = 1 - dfam
		}
		q.dst = c15dGenAddr(t, dfam, "dst")
		q.src = c15dGenAddr(t, sfam, "src")
		q.domain = rapid.SampledFrom([]string{"", "", "example.com", "a.example.org", "example.com:8443", "1.2.3.4", "2001:db8::1", "[2001:db8::1]"}).Draw(t, "sniffed")
		q.mode = rapid.SampledFrom([]consts.DialMode{consts.DialMode_Ip, consts.DialMode_Ip, consts.DialMode_DomainPlus, consts.DialMode_DomainCao}).Draw(t, "dialMode")
		q.out = rapid.SampledFrom([]consts.OutboundIndex{2, 2, 2, consts.OutboundControlPlaneRouting}).Draw(t, "outbound")
		cp.dialMode = q.mode
		param := func() *proxyDialParam {
			return &proxyDialParam{Outbound: q.out, Domain: q.domain, Src: q.src, Dest: q.dst, Network: q.network, Excluded: q.exD}
		}
		switch rapid.IntRange(0, 6).Draw(t, "exclKind") {
		case 0, 1:
		case 2:
			q.ex = w.nodes[rapid.IntRange(0, nNodes-1).Draw(t, "excl")]
		case 3, 4, 5:
			// failover retry: exclude what an unexcluded call hands out. Under random
			// that is not reproducible, so a drawn candidate of the first tried type
			// stands in.
			if w.policy.Policy == consts.DialerSelectionPolicy_Random {
				if el := w.eligible(c15dTried(q.network == "udp", q.selFamily())[0], nil); len(el) > 0 {
					q.ex = el[rapid.IntRange(0, len(el)-1).Draw(t, "exclCandidate")]
				}
			} else if res, err := cp.chooseProxyDialer(context.Background(), param()); err == nil && res != nil {
				q.ex = w.byD[res.Dialer]
			}
		case 6:
			q.exD = foreign
		}
		if q.ex != nil {
			q.exD = q.ex.d
		}
		p := param()
		if rapid.IntRange(0, 3).Draw(t, "viaRouteDial") != 0 {
			res, err := cp.chooseProxyDialer(context.Background(), p)
			w.logf("choose %s", q)
			var got *cdialer.Dialer
			if res != nil {
				got = res.Dialer
			}
			if err != nil {
				got = nil
			}
			w.sticky = true
			cl, nt := w.checkChoice("chooseProxyDialer", q, got, res, err)
			classes, nontrivial = append(classes, cl...), nontrivial || nt
			if res != nil && res.Outbound != w.g {
				w.fatalf("chooseProxyDialer [%s] selected from group %q", q, res.Outbound.Name)
			}
		} else {
			w.dials = w.dials[:0]
			// states: before the call, and (read back) after routeDial's own
			// force-mark of the first node on an unreachable error.
			pre := make([][6]bool, nNodes)
			for j, n := range w.nodes {
				pre[j] = n.alive
			}
			conn, res, err := cp.routeDial(context.Background(), p)
			if conn != nil {
				_ = conn.Close()
			}
			if w.policy.Policy == consts.DialerSelectionPolicy_Random {
				w.logf("routeDial %s -> %d dial(s) err=%v", q, len(w.dials), err != nil) // keep messages reproducible
			} else {
				w.logf("routeDial %s -> dialed %v err=%v", q, w.dials, err != nil)
			}
			classes = append(classes, "routeDial")
			for _, idx := range w.dials {
				if idx < 0 {
					w.fatalf("routeDial [%s] dialed a node outside the group (dials %v)", q, w.dials)
				}
			}
			if len(w.dials) == 0 {
				// selection itself failed
				if err == nil {
					w.fatalf("routeDial [%s] succeeded without dialing any node", q)
				}
				cl, nt := w.checkChoice("routeDial(no dial)", q, nil, nil, err)
				classes, nontrivial = append(classes, cl...), nontrivial || nt
			} else {
				real := make([][6]bool, nNodes)
				for j, n := range w.nodes {
					for s := range real[j] {
						real[j][s] = n.d.MustGetAlive(w.types[s])
					}
				}
				w.sticky = fmt.Sprint(pre) == fmt.Sprint(real) // no force-mark happened in between
				cl, nt := w.checkChoice("routeDial attempt 1", q, w.nodes[w.dials[0]].d, nil, nil)
				w.sticky = true
				classes, nontrivial = append(classes, cl...), nontrivial || nt
				if len(w.dials) > 2 {
					w.fatalf("routeDial [%s] dialed %d times", q, len(w.dials))
				}
				post := make([][6]bool, nNodes)
				w.readBackAlive()
				for j, n := range w.nodes {
					post[j] = n.alive
				}
				if len(w.dials) == 2 {
					classes, nontrivial = append(classes, "routeDial_retry"), true
					if w.nodes[w.dials[0]].nd.mode != c15dDialUnreachOnce && w.nodes[w.dials[0]].nd.mode != c15dDialUnreachAlways {
						w.fatalf("routeDial [%s] retried after an error that is not an unreachable-network error", q)
					}
					cl, _ := w.checkChoice("routeDial attempt 2", q, w.nodes[w.dials[1]].d, nil, nil)
					classes = append(classes, cl...)
				} else if fmt.Sprint(pre) != fmt.Sprint(post) {
					// one dial: either success, a non-retryable error, or the retry's
					// selection failed after the force-mark.
					classes = append(classes, "routeDial_marked_then_failed")
					if err == nil {
						w.fatalf("routeDial [%s] changed health state on a successful dial", q)
					}
					cl, _ := w.checkChoice("routeDial attempt 2 (no dial)", q, nil, nil, err)
					classes = append(classes, cl...)
				}
				if res != nil && err == nil && res.Dialer != w.nodes[w.dials[len(w.dials)-1]].d {
					w.fatalf("routeDial [%s] reports node %s but dialed %v", q, w.name(res.Dialer), w.dials)
				}
			}
		}
	}
	for _, n := range w.nodes {
		for i, r := range n.d.HealthSnapshot().Recovery {
			if r.BackoffLevel != 0 {
				w.fatalf("harness assumption broken: back-off level of %s domain %d is %d", n.name, i, r.BackoffLevel)
			}
		}
	}
	key := ""
	if nontrivial {
		key = strings.Join(w.hist, ";") + w.dump()
	}
	classes = append(classes, "policy_"+string(w.policy.Policy), fmt.Sprintf("nodes_%d", nNodes))
	seen := map[string]bool{}
	var uniq []string
	for _, c := range classes {
		if !seen[c] {
			seen[c] = true
			uniq = append(uniq, c)
		}
	}
	vkCase(c15DialUnit, key, func() any {
		return map[string]any{"nodes": nNodes, "policy": string(w.policy.Policy), "history": w.hist}
	}, uniq...)
}

// The body runs in a synctest bubble; failures are recovered there and re-raised
// from three different lines (rapid's shrinker compares tracebacks).
func TestC15_Dial(t *testing.T) {
	rapid.Check(t, func(rt *rapid.T) {
		var pv any
		synctest.Test(t, func(*testing.T) {
			var cl []func()
			func() {
				defer func() { pv = recover() }()
				c15RunDialCase(rt, &cl)
			}()
			for i := len(cl) - 1; i >= 0; i-- {
				cl[i]()
			}
			synctest.Wait()
		})
		switch fmt.Sprintf("%T", pv) {
		case "<nil>":
		case "rapid.invalidData":
			panic(pv)
		case "rapid.stopTest":
			panic(pv)
		default:
			panic(pv)
		}
	})
}

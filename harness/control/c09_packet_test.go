package control

// C09 (e) — the raw-UDP reply path (no ResponseWriter): DnsController.Handle_ ->
// dialSend / writeCachedResponse -> sendRuntimeTrackedPkt -> sendPkt, over real loopback
// sockets (byte-level facts only, no bubble, no timing assertions). The reply socket dae
// would bind transparently to the DNS server's address is pre-seeded into a private
// AnyfromPool, the way the in-tree loopback test does it.
//
// 2-8 queries from up to three client sockets, asked one after the other (cold miss,
// then cache hits), with transaction IDs from the whole 16-bit range and answers whose
// packed size is aimed at the 1024-byte pooled-buffer boundary of writeCachedResponse
// (<=1023, 1024, 1025, 1026, 1.5k, 2.5k, 4k; long TXT or many address records).
//
// Oracle: the datagram the client socket receives comes from the DNS server's address,
// unpacks, carries that client's ID and question, only records answering it, and as many
// of them as the upstream answer had.

import (
	"context"
	"fmt"
	"net"
	"net/netip"
	"sort"
	"strings"
	"sync"
	"testing"
	"time"

	componentdns "github.com/daeuniverse/dae/component/dns"
	dnsmessage "github.com/miekg/dns"
	"github.com/sirupsen/logrus"
	"pgregory.net/rapid"
)

const c09UnitPkt = "C09.packet"

// c09SizedAnswer builds the right answer to q whose packed size is as close to target
// as the record granularity allows (target 0: a plain one-record answer).
func c09SizedAnswer(q dnsmessage.Question, id uint16, target int) *dnsmessage.Msg {
	m := c09BuildAnswer(q, id, c09AnsAddr)
	m.Compress = true
	if target <= 0 {
		return m
	}
	size := func() int { b, _ := m.Pack(); return len(b) }
	switch q.Qtype {
	case dnsmessage.TypeA, dnsmessage.TypeAAAA:
		for size() < target && len(m.Answer) < 400 {
			m.Answer = append(m.Answer, c09TaggedRR(q.Name, q.Name, q.Qtype, 60))
		}
	default:
		txt := m.Answer[0].(*dnsmessage.TXT)
		pad := 0
		setPad := func(n int) {
			txt.Txt = txt.Txt[:1]
			for n > 0 {
				k := min(n, 255)
				txt.Txt = append(txt.Txt, strings.Repeat("p", k))
				n -= k
			}
		}
		for i := 0; i < 12; i++ {
			d := target - size()
			if d == 0 {
				break
			}
			pad += d
			if pad < 0 {
				pad = 0
			}
			setPad(pad)
		}
	}
	return m
}

// c09PlanFwd answers at once, with the size planned for the question.
type c09PlanFwd struct {
	mu    *sync.Mutex
	plan  map[string]int // lower(name)/qtype -> target size
	calls *int
}

func (f *c09PlanFwd) ForwardDNS(ctx context.Context, data []byte) (*dnsmessage.Msg, error) {
	var req dnsmessage.Msg
	if err := req.Unpack(data); err != nil || len(req.Question) != 1 {
		return nil, errC09Upstream
	}
	q := req.Question[0]
	f.mu.Lock()
	*f.calls++
	target := f.plan[strings.ToLower(q.Name)+"/"+fmt.Sprint(q.Qtype)]
	f.mu.Unlock()
	return c09SizedAnswer(q, req.Id, target), nil
}
func (f *c09PlanFwd) Close() error { return nil }

type c09PktFixture struct {
	reply    *net.UDPConn
	listener *net.UDPConn
	clients  []*net.UDPConn
	restore  func()
}

func c09NewPktFixture(tt *testing.T) *c09PktFixture {
	listen := func() *net.UDPConn {
		c, err := net.ListenUDP("udp4", &net.UDPAddr{IP: net.IPv4(127, 0, 0, 1)})
		if err != nil {
			tt.Skipf("harness: no loopback UDP: %v", err)
		}
		return c
	}
	fx := &c09PktFixture{reply: listen(), listener: listen()}
	for i := 0; i < 3; i++ {
		fx.clients = append(fx.clients, listen())
	}
	oldPool := DefaultAnyfromPool
	pool := &AnyfromPool{}
	for i := range anyfromPoolShardCount {
		pool.shards[i].pool = make(map[netip.AddrPort]*Anyfrom, 4)
	}
	DefaultAnyfromPool = pool
	replyAddr := fx.reply.LocalAddr().(*net.UDPAddr).AddrPort()
	af := &Anyfrom{UDPConn: fx.reply, ttl: AnyfromTimeout}
	af.RefreshTtl()
	shard := pool.shardFor(replyAddr)
	shard.mu.Lock()
	shard.pool[replyAddr] = af
	shard.mu.Unlock()
	origFactory := dnsForwarderFactory
	fx.restore = func() {
		dnsForwarderFactory = origFactory
		DefaultAnyfromPool.Reset()
		DefaultAnyfromPool = oldPool
		_ = fx.reply.Close()
		_ = fx.listener.Close()
		for _, c := range fx.clients {
			_ = c.Close()
		}
	}
	return fx
}

func c09PacketCase(t *rapid.T, fx *c09PktFixture) {
	routing, err := c09Routing("asis")
	if err != nil {
		t.Fatalf("harness: %v", err)
	}
	ctl, err := NewDnsController(routing, &DnsControllerOption{
		Log:               c09Log(),
		LifecycleContext:  context.Background(),
		NewCache:          c09NewCacheFn,
		BestDialerChooser: c09BestDialer,
	})
	if err != nil {
		t.Fatalf("harness: %v", err)
	}
	defer func() { _ = ctl.Close() }()
	var mu sync.Mutex
	plan := map[string]int{}
	calls := 0
	dnsForwarderFactory = func(*componentdns.Upstream, dialArgument, *logrus.Logger) (DnsForwarder, error) {
		return &c09PlanFwd{mu: &mu, plan: plan, calls: &calls}, nil
	}
	replyAddr := fx.reply.LocalAddr().(*net.UDPAddr).AddrPort()
	// nothing of an earlier case may sit in a client socket
	drain := make([]byte, 65536)
	for _, c := range fx.clients {
		for {
			_ = c.SetReadDeadline(time.Now().Add(-time.Second))
			if _, _, derr := c.ReadFromUDPAddrPort(drain); derr != nil {
				break
			}
		}
	}

	n := rapid.IntRange(2, 8).Draw(t, "nQueries")
	nNames := rapid.IntRange(1, 2).Draw(t, "nNames")
	types := []uint16{dnsmessage.TypeTXT, dnsmessage.TypeA, 257, dnsmessage.TypeAAAA}
	nTypes := rapid.IntRange(1, 2).Draw(t, "nTypes")
	typeRot := rapid.IntRange(0, len(types)-1).Draw(t, "typeRot")
	sizes := []int{0, 512, 1000, 1023, 1024, 1025, 1026, 1100, 1500, 2500, 4000}
	var trace []string
	classes := map[string]bool{}
	fail := func(format string, a ...any) {
		t.Fatalf("C09 violated (raw-UDP reply path): %s\nqueries:\n  %s", fmt.Sprintf(format, a...), strings.Join(trace, "\n  "))
	}
	big := false
	for i := 0; i < n; i++ {
		base := c09Names[rapid.IntRange(0, nNames-1).Draw(t, "name")]
		name := base
		if rapid.IntRange(0, 3).Draw(t, "mixedCase") == 0 {
			name = c09MangleCase(base, rapid.Uint32().Draw(t, "caseMask"))
		}
		qtype := types[(typeRot+rapid.IntRange(0, nTypes-1).Draw(t, "qtype"))%len(types)]
		var id uint16
		if rapid.IntRange(0, 2).Draw(t, "idFromPool") == 0 {
			id = rapid.SampledFrom(c09IDs).Draw(t, "id")
		} else {
			id = rapid.Uint16().Draw(t, "id")
		}
		key := base + "/" + fmt.Sprint(qtype)
		mu.Lock()
		target, planned := plan[key]
		if !planned {
			target = rapid.SampledFrom(sizes).Draw(t, "answerSize")
			plan[key] = target
		}
		before := calls
		mu.Unlock()
		cli := fx.clients[rapid.IntRange(0, len(fx.clients)-1).Draw(t, "client")]
		req := &udpRequest{
			realSrc:       cli.LocalAddr().(*net.UDPAddr).AddrPort(),
			realDst:       replyAddr,
			lConn:         fx.listener,
			routingResult: &bpfRoutingResult{},
		}
		req.src = req.realSrc
		q := new(dnsmessage.Msg)
		q.Id = id
		q.RecursionDesired = true
		q.Question = []dnsmessage.Question{{Name: name, Qtype: qtype, Qclass: dnsmessage.ClassINET}}
		trace = append(trace, fmt.Sprintf("query %d: %s/%d id=%#04x planned answer size %d", i, name, qtype, id, target))
		if herr := ctl.Handle_(context.Background(), q, req); herr != nil {
			fail("query %d: Handle_ failed: %v", i, herr)
		}
		buf := make([]byte, 65536)
		// the datagram was written before Handle_ returned; the deadline only guards
		// against hanging forever
		_ = cli.SetReadDeadline(time.Now().Add(20 * time.Second))
		nb, from, rerr := cli.ReadFromUDPAddrPort(buf)
		if rerr != nil {
			fail("query %d: the client socket received nothing: %v", i, rerr)
		}
		if from != replyAddr {
			fail("query %d: the reply came from %v, want the DNS server's address %v", i, from, replyAddr)
		}
		var m dnsmessage.Msg
		if uerr := m.Unpack(buf[:nb]); uerr != nil {
			fail("query %d: the %d-byte reply does not unpack: %v", i, nb, uerr)
		}
		if cerr := c09CheckReply(&m, true, id, name, qtype); cerr != nil {
			fail("query %d (%d-byte reply): %v", i, nb, cerr)
		}
		want := c09SizedAnswer(dnsmessage.Question{Name: name, Qtype: qtype, Qclass: dnsmessage.ClassINET}, id, target)
		if len(m.Answer) != len(want.Answer) {
			fail("query %d: the reply has %d answer records, the upstream answer has %d", i, len(m.Answer), len(want.Answer))
		}
		mu.Lock()
		fromCache := calls == before
		mu.Unlock()
		where := "miss"
		if fromCache {
			where = "hit"
		}
		switch {
		case nb > 1024:
			classes[where+":>1024"] = true
			big = true
		case nb == 1024:
			classes[where+":==1024"] = true
			big = true
		default:
			classes[where+":<1024"] = true
		}
		if nb == 1025 {
			classes[where+":==1025"] = true
		}
		trace[len(trace)-1] += fmt.Sprintf(" -> %d bytes (%s)", nb, where)
	}
	nt := ""
	if big {
		nt = strings.Join(trace, "\n")
	}
	cls := make([]string, 0, len(classes))
	for k := range classes {
		cls = append(cls, k)
	}
	sort.Strings(cls)
	vkCase(c09UnitPkt, nt, func() any { return map[string]any{"queries": trace} }, cls...)
}

func TestC09_PacketPath(tt *testing.T) {
	fx := c09NewPktFixture(tt)
	defer fx.restore()
	rapid.Check(tt, func(t *rapid.T) { c09PacketCase(t, fx) })
}

package control

// C09 (b) — transport level: the real DoUDP (pooled sockets) and the real DoTCP /
// pipelinedConn / connPool code over in-memory packet / stream conns. The harness
// plays the upstream server: at rapid-chosen steps it delivers to a socket the right
// answer of any request ever seen on it (so: late answers after a timeout, duplicates,
// answers arriving while the pooled socket serves the next request whose ID may be the
// same), an answer to a different question under the right ID, TC=1, a wrong ID, runt
// and garbage datagrams, or closes the stream mid-flight.
//
// Oracle: whatever ForwardDNS hands back carries the request's question (and, for UDP,
// its ID) and only records that answer it; every call returns once its deadline has
// passed.

import (
	"context"
	"encoding/binary"
	"errors"
	"fmt"
	"io"
	"net"
	"net/netip"
	"os"
	"sort"
	"strconv"
	"strings"
	"sync"
	"testing"
	"testing/synctest"
	"time"

	"github.com/daeuniverse/dae/common/consts"
	componentdialer "github.com/daeuniverse/dae/component/outbound/dialer"
	"github.com/daeuniverse/outbound/netproxy"
	dnsmessage "github.com/miekg/dns"
	"pgregory.net/rapid"
)

const (
	c09UnitUDP = "C09.udp"
	c09UnitTCP = "C09.tcp"
)

// every request carries its serial in an additional TXT record so that the harness can
// tell which request a datagram / frame seen by the server belongs to.
const c09MarkerName = "req.c09."

func c09BuildQuery(serial int, name string, qtype uint16, id uint16) []byte {
	m := new(dnsmessage.Msg)
	m.Id = id
	m.RecursionDesired = true
	m.Question = []dnsmessage.Question{{Name: name, Qtype: qtype, Qclass: dnsmessage.ClassINET}}
	m.Extra = []dnsmessage.RR{&dnsmessage.TXT{
		Hdr: dnsmessage.RR_Header{Name: c09MarkerName, Rrtype: dnsmessage.TypeTXT, Class: dnsmessage.ClassINET},
		Txt: []string{strconv.Itoa(serial)},
	}}
	b, err := m.Pack()
	if err != nil {
		panic(err)
	}
	return b
}

func c09QuerySerial(m *dnsmessage.Msg) int {
	for _, rr := range m.Extra {
		if t, ok := rr.(*dnsmessage.TXT); ok && t.Hdr.Name == c09MarkerName && len(t.Txt) == 1 {
			if n, err := strconv.Atoi(t.Txt[0]); err == nil {
				return n
			}
		}
	}
	return -1
}

type c09TReq struct {
	idx     int
	name    string
	qtype   uint16
	id      uint16
	timeout time.Duration
	data    []byte

	mu      sync.Mutex
	started bool
	done    bool
	msg     *dnsmessage.Msg
	err     error
	endAt   time.Time
	startAt time.Time
}

func (r *c09TReq) isDone() bool {
	r.mu.Lock()
	defer r.mu.Unlock()
	return r.done
}

func (r *c09TReq) String() string {
	return fmt.Sprintf("req%d{%s/%d id=%#04x to=%s}", r.idx, r.name, r.qtype, r.id, r.timeout)
}

func c09GenTReqs(t *rapid.T, lo, hi int, ids []uint16) []*c09TReq {
	n := rapid.IntRange(lo, hi).Draw(t, "nReqs")
	nNames := rapid.IntRange(1, 3).Draw(t, "nNames")
	nTypes := rapid.IntRange(1, 2).Draw(t, "nTypes")
	out := make([]*c09TReq, n)
	for i := range out {
		base := c09Names[rapid.IntRange(0, nNames-1).Draw(t, "name")]
		mask := uint32(0)
		if rapid.IntRange(0, 3).Draw(t, "mixedCase") == 0 {
			mask = rapid.Uint32().Draw(t, "caseMask")
		}
		r := &c09TReq{
			idx:     i,
			name:    c09MangleCase(base, mask),
			qtype:   c09Qtypes[rapid.IntRange(0, nTypes-1).Draw(t, "qtype")],
			id:      rapid.SampledFrom(ids).Draw(t, "id"),
			timeout: rapid.SampledFrom([]time.Duration{2 * time.Second, 5 * time.Second, 0}).Draw(t, "timeout"),
		}
		r.data = c09BuildQuery(i, r.name, r.qtype, r.id)
		out[i] = r
	}
	return out
}

func c09StartTReq(r *c09TReq, fwd DnsForwarder) {
	r.mu.Lock()
	r.started = true
	r.startAt = time.Now()
	r.mu.Unlock()
	go func() {
		ctx := context.Background()
		var cancel context.CancelFunc = func() {}
		if r.timeout > 0 {
			ctx, cancel = context.WithTimeout(ctx, r.timeout)
		}
		// forwardWithDialArg hands the forwarder its own copy of the packet
		msg, err := fwd.ForwardDNS(ctx, append([]byte(nil), r.data...))
		cancel()
		r.mu.Lock()
		r.done, r.msg, r.err, r.endAt = true, msg, err, time.Now()
		r.mu.Unlock()
	}()
}

func c09CheckTReqResult(r *c09TReq, checkID bool, checkDeadline bool) error {
	r.mu.Lock()
	defer r.mu.Unlock()
	if !r.done {
		return fmt.Errorf("%s never returned", r)
	}
	limit := r.timeout
	if limit == 0 {
		limit = consts.DefaultDialTimeout
	}
	if el := r.endAt.Sub(r.startAt); checkDeadline && el > limit+time.Second {
		return fmt.Errorf("%s returned %s after it started, its deadline was %s", r, el, limit)
	}
	if r.msg == nil {
		if r.err == nil {
			return fmt.Errorf("%s returned neither a message nor an error", r)
		}
		return nil
	}
	if r.err != nil && !errors.Is(r.err, ErrDNSTruncated) {
		return nil // message alongside a real error is ignored by every caller
	}
	if r.err == nil && r.msg.Truncated {
		return fmt.Errorf("%s: a TC=1 upstream reply (%d records) was returned as a complete answer instead of ErrDNSTruncated, so it would be cached and a tcp+udp upstream would never be retried over TCP", r, len(r.msg.Answer))
	}
	if err := c09CheckReply(r.msg, checkID, r.id, r.name, r.qtype); err != nil {
		return fmt.Errorf("%s was handed an answer that is not its own: %v\n    answer: %s", r, err, strings.ReplaceAll(r.msg.String(), "\n", "\n    "))
	}
	return nil
}

// ---------------------------------------------------------------- UDP

type c09Dgram struct {
	raw  []byte
	id   uint16
	q    *dnsmessage.Question // nil: not parseable as a DNS message with one question
	desc string
}

type c09PktConn struct {
	net        *c09UDPNet
	id         int
	mu         sync.Mutex
	queue      []c09Dgram
	notify     chan struct{}
	closedCh   chan struct{}
	closed     bool
	closeCalls int
	deadline   time.Time
	cur        *c09UDPSent // last request written on this socket
}

type c09UDPSent struct {
	conn *c09PktConn
	req  *c09TReq
	msg  *dnsmessage.Msg
}

type c09UDPNet struct {
	mu         sync.Mutex
	conns      []*c09PktConn
	sent       []*c09UDPSent
	reqs       []*c09TReq
	violations []string
	target     netip.AddrPort
}

func (n *c09UDPNet) dial(context.Context) (netproxy.Conn, error) {
	n.mu.Lock()
	defer n.mu.Unlock()
	c := &c09PktConn{net: n, id: len(n.conns), notify: make(chan struct{}, 1), closedCh: make(chan struct{})}
	n.conns = append(n.conns, c)
	return c, nil
}

func (c *c09PktConn) Read([]byte) (int, error)  { return 0, errors.New("c09: stream Read on a packet conn") }
func (c *c09PktConn) Write([]byte) (int, error) { return 0, errors.New("c09: stream Write on a packet conn") }

func (c *c09PktConn) WriteTo(p []byte, addr string) (int, error) {
	m := new(dnsmessage.Msg)
	uerr := m.Unpack(p)
	c.net.mu.Lock()
	defer c.net.mu.Unlock()
	c.mu.Lock()
	defer c.mu.Unlock()
	if c.closed {
		return 0, net.ErrClosed
	}
	if addr != c.net.target.String() {
		c.net.violations = append(c.net.violations, "datagram sent to "+addr+" instead of "+c.net.target.String())
	}
	serial := -1
	if uerr == nil {
		serial = c09QuerySerial(m)
	}
	if serial < 0 || serial >= len(c.net.reqs) || len(m.Question) != 1 {
		c.net.violations = append(c.net.violations, fmt.Sprintf("socket %d sent something that is not one of the requests (%v)", c.id, uerr))
		return len(p), nil
	}
	s := &c09UDPSent{conn: c, req: c.net.reqs[serial], msg: m}
	if m.Id != s.req.id {
		c.net.violations = append(c.net.violations, fmt.Sprintf("%s went out under ID %#04x", s.req, m.Id))
	}
	c.net.sent = append(c.net.sent, s)
	c.cur = s
	if vkKnown("F4") {
		// known F4: keep a buffered datagram with this ID but another question away
		// from the new borrower of the socket.
		kept := c.queue[:0]
		for _, d := range c.queue {
			if d.q != nil && d.id == m.Id && !c09SameQuestion(*d.q, m.Question[0]) {
				vkExcluded(c09UnitUDP, "F4")
				continue
			}
			kept = append(kept, d)
		}
		c.queue = kept
	}
	return len(p), nil
}

func c09SameQuestion(a, b dnsmessage.Question) bool {
	return strings.EqualFold(a.Name, b.Name) && a.Qtype == b.Qtype && a.Qclass == b.Qclass
}

func (c *c09PktConn) ReadFrom(p []byte) (int, netip.AddrPort, error) {
	for {
		c.mu.Lock()
		if c.closed {
			c.mu.Unlock()
			return 0, netip.AddrPort{}, net.ErrClosed
		}
		if len(c.queue) > 0 {
			d := c.queue[0]
			c.queue = c.queue[1:]
			c.mu.Unlock()
			return copy(p, d.raw), c.net.target, nil
		}
		dl := c.deadline
		c.mu.Unlock()
		var timerC <-chan time.Time
		var tm *time.Timer
		if !dl.IsZero() {
			d := time.Until(dl)
			if d <= 0 {
				return 0, netip.AddrPort{}, os.ErrDeadlineExceeded
			}
			tm = time.NewTimer(d)
			timerC = tm.C
		}
		select {
		case <-c.notify:
		case <-c.closedCh:
		case <-timerC:
		}
		if tm != nil {
			tm.Stop()
		}
	}
}

func (c *c09PktConn) Close() error {
	c.mu.Lock()
	defer c.mu.Unlock()
	c.closeCalls++
	if !c.closed {
		c.closed = true
		close(c.closedCh)
	}
	return nil
}

func (c *c09PktConn) SetDeadline(t time.Time) error {
	c.mu.Lock()
	c.deadline = t
	c.mu.Unlock()
	// wake a blocked reader so that it re-arms its timer
	select {
	case c.notify <- struct{}{}:
	default:
	}
	return nil
}
func (c *c09PktConn) SetReadDeadline(t time.Time) error  { return c.SetDeadline(t) }
func (c *c09PktConn) SetWriteDeadline(t time.Time) error { return nil }

// deliver enqueues d on the socket unless (known F4) it would be taken by a waiting
// request with the same ID and another question. Reports whether it was enqueued.
func (c *c09PktConn) deliver(d c09Dgram, unit string) bool {
	c.mu.Lock()
	defer c.mu.Unlock()
	if c.closed {
		return false
	}
	if vkKnown("F4") && d.q != nil && c.cur != nil && !c.cur.req.isDone() &&
		c.cur.msg.Id == d.id && !c09SameQuestion(*d.q, c.cur.msg.Question[0]) {
		vkExcluded(unit, "F4")
		return false
	}
	c.queue = append(c.queue, d)
	select {
	case c.notify <- struct{}{}:
	default:
	}
	return true
}

const (
	c09SrvRight = iota
	c09SrvTrunc
	c09SrvForeign
	c09SrvWrongID
	c09SrvRunt
	c09SrvGarbage
)

var c09SrvNames = []string{"right", "tc", "foreign", "wrongid", "runt", "garbage"}

func c09MakeDgram(t *rapid.T, reqMsg *dnsmessage.Msg, kind int) c09Dgram {
	q := reqMsg.Question[0]
	var m *dnsmessage.Msg
	switch kind {
	case c09SrvRight:
		m = c09BuildAnswer(q, reqMsg.Id, rapid.IntRange(0, c09AnsKinds-1).Draw(t, "answerShape"))
	case c09SrvTrunc:
		m = c09BuildTruncated(q, reqMsg.Id, rapid.IntRange(0, 2).Draw(t, "partialRecords"))
	case c09SrvForeign:
		m = c09BuildAnswer(c09OtherQuestion(t, q), reqMsg.Id, c09AnsAddr)
	case c09SrvWrongID:
		m = c09BuildAnswer(q, reqMsg.Id^uint16(rapid.SampledFrom([]int{1, 2, 0x100}).Draw(t, "idFlip")), c09AnsAddr)
	case c09SrvRunt:
		return c09Dgram{raw: []byte{byte(reqMsg.Id >> 8)}, desc: "runt"}
	case c09SrvGarbage:
		return c09Dgram{raw: []byte{byte(reqMsg.Id >> 8), byte(reqMsg.Id), 0x81, 0x80, 0xff, 0xff, 0, 0, 0, 0, 0, 0, 3, 'x'}, id: reqMsg.Id, desc: "garbage"}
	}
	raw, err := m.Pack()
	if err != nil {
		panic(err)
	}
	qq := m.Question[0]
	return c09Dgram{raw: raw, id: m.Id, q: &qq, desc: c09SrvNames[kind]}
}

func c09UDPCase(t *rapid.T) {
	c09ResetGlobals()
	ids := []uint16{7, 8}
	if rapid.IntRange(0, 3).Draw(t, "oneID") == 0 {
		ids = []uint16{7}
	}
	reqs := c09GenTReqs(t, 2, 8, ids)
	nw := &c09UDPNet{reqs: reqs, target: netip.MustParseAddrPort("10.9.0.1:53")}
	maxActive := rapid.IntRange(1, 3).Draw(t, "maxActive")
	maxIdle := rapid.IntRange(1, maxActive).Draw(t, "maxIdle")
	discardOnTimeout := rapid.Bool().Draw(t, "discardOnTimeout")
	d := &DoUDP{
		dialArgument: dialArgument{l4proto: consts.L4ProtoStr_UDP, ipversion: consts.IpVersionStr_4, bestTarget: nw.target},
		profile: UdpLifecycleProfile{
			Kind:                       UdpLifecycleKindDnsTransactional,
			HealthDomain:               componentdialer.UdpHealthDomainDns,
			DiscardPooledConnOnTimeout: discardOnTimeout,
			PooledConnIdleTTL:          dnsUdpDirectPoolMaxIdleTime,
		},
		pool: newUdpConnPool(maxIdle, maxActive, nw.dial),
	}
	defer func() { _ = d.Close() }()

	var trace []string
	classes := map[string]bool{}
	fail := func(format string, a ...any) {
		t.Fatalf("C09 violated (DoUDP): %s\nmaxActive=%d maxIdle=%d discardOnTimeout=%v\nschedule:\n  %s", fmt.Sprintf(format, a...), maxActive, maxIdle, discardOnTimeout, strings.Join(trace, "\n  "))
	}
	check := func() {
		nw.mu.Lock()
		v := nw.violations
		nw.mu.Unlock()
		if len(v) > 0 {
			fail("%s", strings.Join(v, "; "))
		}
		for _, r := range reqs {
			if r.isDone() {
				if err := c09CheckTReqResult(r, true, true); err != nil {
					fail("%v", err)
				}
			}
		}
	}
	sentSorted := func() []*c09UDPSent {
		nw.mu.Lock()
		defer nw.mu.Unlock()
		out := append([]*c09UDPSent(nil), nw.sent...)
		sort.SliceStable(out, func(i, j int) bool { return out[i].req.idx < out[j].req.idx })
		return out
	}
	faulty := false
	started := 0
	for step := 0; step < 60; step++ {
		synctest.Wait()
		check()
		sent := sentSorted()
		var opts []string
		if started < len(reqs) {
			opts = append(opts, "start", "start")
		}
		if len(sent) > 0 {
			opts = append(opts, "deliver", "deliver", "deliver")
		}
		if len(opts) == 0 {
			break
		}
		opts = append(opts, "advance")
		switch rapid.SampledFrom(opts).Draw(t, "step") {
		case "start":
			r := reqs[started]
			started++
			trace = append(trace, "start "+r.String())
			c09StartTReq(r, d)
		case "deliver":
			s := sent[rapid.IntRange(0, len(sent)-1).Draw(t, "which")]
			kinds := []int{c09SrvRight, c09SrvRight, c09SrvRight, c09SrvTrunc, c09SrvForeign, c09SrvForeign, c09SrvWrongID, c09SrvRunt, c09SrvGarbage}
			kind := rapid.SampledFrom(kinds).Draw(t, "dgram")
			if kind == c09SrvForeign && vkKnown("F4") {
				vkExcluded(c09UnitUDP, "F4")
				kind = c09SrvRight
			}
			dg := c09MakeDgram(t, s.msg, kind)
			late := s.req.isDone()
			ok := s.conn.deliver(dg, c09UnitUDP)
			if kind != c09SrvRight || late {
				faulty = true
			}
			classes["dgram:"+c09SrvNames[kind]] = true
			if late {
				classes["late-or-dup"] = true
				if s.conn.cur != nil && s.conn.cur != s && !s.conn.cur.req.isDone() {
					classes["late-into-next-borrower"] = true
					if s.conn.cur.msg.Id == dg.id {
						classes["late-same-id"] = true
					}
				}
			}
			trace = append(trace, fmt.Sprintf("deliver %s for %s on socket %d late=%v enqueued=%v", dg.desc, s.req, s.conn.id, late, ok))
		case "advance":
			dd := rapid.SampledFrom([]time.Duration{10 * time.Millisecond, time.Second, 3 * time.Second, 9 * time.Second, 31 * time.Second}).Draw(t, "sleep")
			trace = append(trace, "advance "+dd.String())
			time.Sleep(dd)
		}
	}
	for started < len(reqs) {
		r := reqs[started]
		started++
		trace = append(trace, "start "+r.String())
		c09StartTReq(r, d)
		synctest.Wait()
		check()
	}
	time.Sleep(consts.DefaultDialTimeout + 2*time.Second)
	synctest.Wait()
	for _, r := range reqs {
		if !r.isDone() {
			fail("%s did not return within its deadline", r)
		}
	}
	check()
	nw.mu.Lock()
	nconns := len(nw.conns)
	reuse := len(nw.sent) > nconns
	nw.mu.Unlock()
	if reuse {
		classes["socket-reused"] = true
	}
	nAns := 0
	for _, r := range reqs {
		if r.msg != nil {
			nAns++
		}
	}
	if nAns > 0 {
		classes["answered"] = true
	}
	nt := ""
	if faulty || reuse {
		nt = strings.Join(trace, "\n")
	}
	cls := make([]string, 0, len(classes))
	for k := range classes {
		cls = append(cls, k)
	}
	sort.Strings(cls)
	vkCase(c09UnitUDP, nt, func() any {
		return map[string]any{"maxActive": maxActive, "discardOnTimeout": discardOnTimeout, "schedule": trace}
	}, cls...)
}

func TestC09_TransportUDP(tt *testing.T) {
	rapid.Check(tt, func(t *rapid.T) {
		c09RunBubble(tt, func() { c09UDPCase(t) })
	})
}

// ---------------------------------------------------------------- TCP (pipelined)

type c09StreamConn struct {
	net        *c09TCPNet
	id         int
	mu         sync.Mutex
	inbox      []byte // client -> server
	outbox     []byte // server -> client
	notify     chan struct{}
	closedCh   chan struct{}
	closed     bool
	srvClosed  bool
	closeCalls int
	parsed     int // frames parsed from inbox so far
}

type c09TCPFrame struct {
	conn *c09StreamConn
	req  *c09TReq
	seq  int // n-th frame of that request (retries)
	msg  *dnsmessage.Msg
}

type c09TCPNet struct {
	mu         sync.Mutex
	conns      []*c09StreamConn
	frames     []*c09TCPFrame
	reqs       []*c09TReq
	violations []string
}

func (n *c09TCPNet) dial(context.Context) (netproxy.Conn, error) {
	n.mu.Lock()
	defer n.mu.Unlock()
	c := &c09StreamConn{net: n, id: len(n.conns), notify: make(chan struct{}, 1), closedCh: make(chan struct{})}
	n.conns = append(n.conns, c)
	return c, nil
}

func (c *c09StreamConn) Read(b []byte) (int, error) {
	for {
		c.mu.Lock()
		if len(c.outbox) > 0 {
			n := copy(b, c.outbox)
			c.outbox = c.outbox[n:]
			c.mu.Unlock()
			return n, nil
		}
		if c.closed {
			c.mu.Unlock()
			return 0, net.ErrClosed
		}
		if c.srvClosed {
			c.mu.Unlock()
			return 0, io.EOF
		}
		c.mu.Unlock()
		select {
		case <-c.notify:
		case <-c.closedCh:
		}
	}
}

func (c *c09StreamConn) Write(b []byte) (int, error) {
	c.mu.Lock()
	defer c.mu.Unlock()
	if c.closed {
		return 0, net.ErrClosed
	}
	if c.srvClosed {
		return 0, errors.New("c09: broken pipe")
	}
	c.inbox = append(c.inbox, b...)
	return len(b), nil
}

func (c *c09StreamConn) Close() error {
	c.mu.Lock()
	defer c.mu.Unlock()
	c.closeCalls++
	if !c.closed {
		c.closed = true
		close(c.closedCh)
	}
	return nil
}
func (c *c09StreamConn) SetDeadline(time.Time) error      { return nil }
func (c *c09StreamConn) SetReadDeadline(time.Time) error  { return nil }
func (c *c09StreamConn) SetWriteDeadline(time.Time) error { return nil }

func (c *c09StreamConn) wake() {
	select {
	case c.notify <- struct{}{}:
	default:
	}
}

// collect parses the complete frames the clients wrote since the last call.
func (n *c09TCPNet) collect() {
	n.mu.Lock()
	defer n.mu.Unlock()
	perReq := map[int]int{}
	for _, f := range n.frames {
		perReq[f.req.idx]++
	}
	for _, c := range n.conns {
		c.mu.Lock()
		for {
			if len(c.inbox) < 2 {
				break
			}
			l := int(binary.BigEndian.Uint16(c.inbox))
			if len(c.inbox) < 2+l {
				break
			}
			body := c.inbox[2 : 2+l]
			c.inbox = c.inbox[2+l:]
			m := new(dnsmessage.Msg)
			if err := m.Unpack(body); err != nil || len(m.Question) != 1 {
				n.violations = append(n.violations, fmt.Sprintf("conn %d carried an unparsable frame: %v", c.id, err))
				continue
			}
			serial := c09QuerySerial(m)
			if serial < 0 || serial >= len(n.reqs) {
				n.violations = append(n.violations, fmt.Sprintf("conn %d carried a frame that is none of the requests", c.id))
				continue
			}
			r := n.reqs[serial]
			if !c09SameQuestion(m.Question[0], dnsmessage.Question{Name: r.name, Qtype: r.qtype, Qclass: dnsmessage.ClassINET}) {
				n.violations = append(n.violations, fmt.Sprintf("%s went out with question %v", r, m.Question[0]))
			}
			n.frames = append(n.frames, &c09TCPFrame{conn: c, req: r, seq: perReq[serial], msg: m})
			perReq[serial]++
		}
		c.mu.Unlock()
	}
}

func (n *c09TCPNet) framesSorted() []*c09TCPFrame {
	n.mu.Lock()
	defer n.mu.Unlock()
	out := append([]*c09TCPFrame(nil), n.frames...)
	sort.SliceStable(out, func(i, j int) bool {
		if out[i].req.idx != out[j].req.idx {
			return out[i].req.idx < out[j].req.idx
		}
		return out[i].seq < out[j].seq
	})
	return out
}

// pendingOn: the question of the request that currently waits on conn under pipeline
// ID id (nil if none).
func (n *c09TCPNet) pendingOn(conn *c09StreamConn, id uint16) *dnsmessage.Question {
	n.mu.Lock()
	defer n.mu.Unlock()
	// the newest frame with that ID on that conn decides
	for i := len(n.frames) - 1; i >= 0; i-- {
		f := n.frames[i]
		if f.conn == conn && f.msg.Id == id {
			if f.req.isDone() {
				return nil
			}
			// only the last frame of the request is the one being waited on
			last := true
			for _, g := range n.frames {
				if g.req == f.req && g.seq > f.seq {
					last = false
				}
			}
			if !last {
				return nil
			}
			q := f.msg.Question[0]
			return &q
		}
	}
	return nil
}

func (c *c09StreamConn) send(raw []byte) bool {
	c.mu.Lock()
	defer c.mu.Unlock()
	if c.closed || c.srvClosed {
		return false
	}
	var hdr [2]byte
	binary.BigEndian.PutUint16(hdr[:], uint16(len(raw)))
	c.outbox = append(c.outbox, hdr[:]...)
	c.outbox = append(c.outbox, raw...)
	c.wake()
	return true
}

func c09TCPCase(t *rapid.T) {
	c09ResetGlobals()
	reqs := c09GenTReqs(t, 2, 8, []uint16{7, 8})
	nw := &c09TCPNet{reqs: reqs}
	maxConns := rapid.IntRange(1, 2).Draw(t, "maxConns")
	d := &DoTCP{dialArgument: dialArgument{l4proto: consts.L4ProtoStr_TCP, ipversion: consts.IpVersionStr_4, bestTarget: netip.MustParseAddrPort("10.9.0.1:53")}}
	d.getOrInit(func() *connPool { return newConnPool(maxConns, nw.dial) })
	closedFwd := false
	defer func() {
		if !closedFwd {
			_ = d.Close()
		}
	}()

	var trace []string
	classes := map[string]bool{}
	fail := func(format string, a ...any) {
		t.Fatalf("C09 violated (DoTCP/pipeline): %s\nmaxConns=%d\nschedule:\n  %s", fmt.Sprintf(format, a...), maxConns, strings.Join(trace, "\n  "))
	}
	check := func() {
		nw.collect()
		nw.mu.Lock()
		v := nw.violations
		nw.mu.Unlock()
		if len(v) > 0 {
			fail("%s", strings.Join(v, "; "))
		}
		for _, r := range reqs {
			if r.isDone() {
				if err := c09CheckTReqResult(r, false, r.timeout > 0); err != nil {
					fail("%v", err)
				}
			}
		}
	}
	faulty := false
	started := 0
	for step := 0; step < 60; step++ {
		synctest.Wait()
		check()
		frames := nw.framesSorted()
		var opts []string
		if started < len(reqs) {
			opts = append(opts, "start", "start")
		}
		if len(frames) > 0 {
			opts = append(opts, "answer", "answer", "answer", "srvclose")
		}
		if len(opts) == 0 {
			break
		}
		opts = append(opts, "advance")
		switch rapid.SampledFrom(opts).Draw(t, "step") {
		case "start":
			r := reqs[started]
			started++
			trace = append(trace, "start "+r.String())
			c09StartTReq(r, d)
		case "answer":
			f := frames[rapid.IntRange(0, len(frames)-1).Draw(t, "which")]
			kinds := []int{c09SrvRight, c09SrvRight, c09SrvRight, c09SrvRight, c09SrvForeign, c09SrvForeign, c09SrvWrongID, c09SrvGarbage}
			kind := rapid.SampledFrom(kinds).Draw(t, "frame")
			if kind == c09SrvForeign && vkKnown("F4") {
				vkExcluded(c09UnitTCP, "F4")
				kind = c09SrvRight
			}
			var raw []byte
			var id uint16
			var q *dnsmessage.Question
			desc := c09SrvNames[kind]
			switch kind {
			case c09SrvWrongID:
				// an ID nobody uses (>= 4096), or another small one
				alt := rapid.SampledFrom([]uint16{4096, 0xffff, 0, 1, 2}).Draw(t, "altID")
				m := c09BuildAnswer(f.msg.Question[0], alt, c09AnsAddr)
				raw, _ = m.Pack()
				id, q = alt, &m.Question[0]
			case c09SrvGarbage:
				raw = []byte{0, 0, 0x81, 0x80, 0xff, 0xff, 0, 0, 0, 0, 0, 0, 3, 'x'}
			default:
				dg := c09MakeDgram(t, f.msg, kind)
				raw, id, q = dg.raw, dg.id, dg.q
			}
			late := f.req.isDone()
			if q != nil && vkKnown("F4") {
				if pq := nw.pendingOn(f.conn, id); pq != nil && !c09SameQuestion(*pq, *q) {
					// a duplicate / late / foreign frame that would land on the request
					// now holding this pipeline ID with another question: known F4.
					vkExcluded(c09UnitTCP, "F4")
					trace = append(trace, fmt.Sprintf("(skipped %s for %s#%d on conn %d: known F4 shape)", desc, f.req, f.seq, f.conn.id))
					break
				}
			}
			ok := f.conn.send(raw)
			if kind != c09SrvRight || late {
				faulty = true
			}
			classes["frame:"+desc] = true
			if late && ok {
				classes["dup-or-late"] = true
				if nw.pendingOn(f.conn, id) != nil {
					classes["dup-onto-reused-id"] = true
				}
			}
			trace = append(trace, fmt.Sprintf("answer %s (id %d) for %s#%d on conn %d late=%v sent=%v", desc, id, f.req, f.seq, f.conn.id, late, ok))
		case "srvclose":
			f := frames[rapid.IntRange(0, len(frames)-1).Draw(t, "which")]
			f.conn.mu.Lock()
			was := f.conn.srvClosed || f.conn.closed
			f.conn.srvClosed = true
			f.conn.wake()
			f.conn.mu.Unlock()
			if !was {
				faulty = true
				classes["server-close"] = true
			}
			trace = append(trace, fmt.Sprintf("server closes conn %d", f.conn.id))
		case "advance":
			dd := rapid.SampledFrom([]time.Duration{10 * time.Millisecond, time.Second, 3 * time.Second, 9 * time.Second}).Draw(t, "sleep")
			trace = append(trace, "advance "+dd.String())
			time.Sleep(dd)
		}
	}
	for started < len(reqs) {
		r := reqs[started]
		started++
		trace = append(trace, "start "+r.String())
		c09StartTReq(r, d)
		synctest.Wait()
		check()
	}
	// requests without their own deadline wait for the transport: close it.
	time.Sleep(6 * time.Second)
	synctest.Wait()
	check()
	closedFwd = true
	_ = d.Close()
	synctest.Wait()
	for _, r := range reqs {
		if !r.isDone() {
			fail("%s did not return after its deadline passed and the forwarder was closed", r)
		}
	}
	check()
	var badClose []string
	nw.mu.Lock()
	for _, c := range nw.conns {
		c.mu.Lock()
		if c.closeCalls != 1 {
			badClose = append(badClose, fmt.Sprintf("stream conn %d was closed %d times after the forwarder was closed (want exactly once)", c.id, c.closeCalls))
		}
		c.mu.Unlock()
	}
	if len(nw.frames) > len(reqs) {
		classes["retry"] = true
	}
	nw.mu.Unlock()
	if len(badClose) > 0 {
		fail("%s", strings.Join(badClose, "; "))
	}
	nt := ""
	if faulty {
		nt = strings.Join(trace, "\n")
	}
	cls := make([]string, 0, len(classes))
	for k := range classes {
		cls = append(cls, k)
	}
	sort.Strings(cls)
	vkCase(c09UnitTCP, nt, func() any {
		return map[string]any{"maxConns": maxConns, "schedule": trace}
	}, cls...)
}

func TestC09_TransportTCP(tt *testing.T) {
	rapid.Check(tt, func(t *rapid.T) {
		c09RunBubble(tt, func() { c09TCPCase(t) })
	})
}

// ---------------------------------------------------------------- 4096 in-flight IDs

// c09PipelineFullCase: one pipelined connection with more concurrent round trips than
// it has IDs. Exactly 4096 requests go out under 4096 distinct IDs, the rest fail
// cleanly; answers come back in a rapid-chosen order (a stride permutation), some
// twice; every caller gets the answer to its own question.
func c09PipelineFullCase(t *rapid.T) {
	c09ResetGlobals()
	extra := rapid.IntRange(0, 40).Draw(t, "extra")
	total := dnsPipelineMaxIDs + extra
	reqs := make([]*c09TReq, total)
	for i := range reqs {
		r := &c09TReq{idx: i, name: fmt.Sprintf("n%d.%s", i, c09Names[i%len(c09Names)]), qtype: c09Qtypes[i%2], id: uint16(i), timeout: 30 * time.Second}
		r.data = c09BuildQuery(i, r.name, r.qtype, r.id)
		reqs[i] = r
	}
	nw := &c09TCPNet{reqs: reqs}
	raw, _ := nw.dial(context.Background())
	conn := raw.(*c09StreamConn)
	pc := newPipelinedConn(conn)
	defer pc.Close()
	type res struct {
		msg *dnsmessage.Msg
		err error
	}
	results := make([]res, total)
	var wg sync.WaitGroup
	for i := range reqs {
		wg.Add(1)
		go func(i int) {
			defer wg.Done()
			ctx, cancel := context.WithTimeout(context.Background(), 30*time.Second)
			defer cancel()
			m, err := pc.RoundTrip(ctx, append([]byte(nil), reqs[i].data...))
			results[i] = res{m, err}
		}(i)
	}
	synctest.Wait()
	nw.collect()
	if len(nw.violations) > 0 {
		t.Fatalf("C09 violated (pipeline): %s", strings.Join(nw.violations, "; "))
	}
	if len(nw.frames) != dnsPipelineMaxIDs {
		t.Fatalf("C09 violated (pipeline): %d requests were written with %d callers, want %d", len(nw.frames), total, dnsPipelineMaxIDs)
	}
	seen := map[uint16]bool{}
	for _, f := range nw.frames {
		if f.msg.Id >= dnsPipelineMaxIDs || seen[f.msg.Id] {
			t.Fatalf("C09 violated (pipeline): pipeline ID %d used twice or out of range", f.msg.Id)
		}
		seen[f.msg.Id] = true
	}
	stride := rapid.IntRange(0, 2047).Draw(t, "stride")*2 + 1
	off := rapid.IntRange(0, dnsPipelineMaxIDs-1).Draw(t, "offset")
	dupEvery := rapid.IntRange(2, 50).Draw(t, "dupEvery")
	for k := 0; k < dnsPipelineMaxIDs; k++ {
		f := nw.frames[(off+k*stride)%dnsPipelineMaxIDs]
		m := c09BuildAnswer(f.msg.Question[0], f.msg.Id, c09AnsAddr)
		b, _ := m.Pack()
		conn.send(b)
		if k%dupEvery == 0 {
			conn.send(b)
		}
	}
	synctest.Wait()
	wg.Wait()
	nFail := 0
	for i, r := range reqs {
		if results[i].err != nil {
			nFail++
			continue
		}
		if err := c09CheckReply(results[i].msg, false, 0, r.name, r.qtype); err != nil {
			t.Fatalf("C09 violated (pipeline, 4096 in flight): %s got an answer that is not its own: %v", r, err)
		}
	}
	if nFail != extra {
		t.Fatalf("C09 violated (pipeline): %d callers failed, want exactly the %d that found no free ID", nFail, extra)
	}
	vkCase(c09UnitTCP+".full", fmt.Sprintf("%d/%d/%d/%d", extra, stride, off, dupEvery), nil, "pipeline-full")
}

func TestC09_PipelineFull(tt *testing.T) {
	rapid.Check(tt, func(t *rapid.T) {
		c09RunBubble(tt, func() { c09PipelineFullCase(t) })
	})
}

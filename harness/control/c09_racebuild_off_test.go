//go:build !race

package control

const c09RaceBuild = false

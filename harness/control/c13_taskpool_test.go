package control

// C13 (a) — UDP task pool: ordered, exactly-once task handling under a
// rapid-controlled schedule.
//
// Every case runs in a testing/synctest bubble. The verif yield hook parks the
// calling goroutine (producer inside EmitTask/acquireQueue, the per-flow convoy
// worker inside its idle GC, a task body) on a bubble channel. The scheduler loop
// is: synctest.Wait() -> evaluate the quiescent-point oracle -> rapid draws one of
// {resume parked goroutine i, start a new producer operation, sleep (virtual clock,
// around UdpTaskPoolAgingTime), Reset, Close}. The interleaving at the marked points
// is therefore a pure function of rapid's draws.
//
// Oracle (from the execution log): every accepted task ran exactly once; per flow
// key in acceptance order (acceptance = return of enqueue); never two tasks of a key
// at the same time; every task is run by the worker of the queue it was enqueued in
// (one worker per queue, one queue per worker); a queue whose worker has left holds
// no task; at quiescence no queue and no convoy goroutine is left and every channel
// that was ever handed out is empty.

import (
	"fmt"
	"hash/fnv"
	"net/netip"
	"os"
	"runtime"
	"sort"
	"strings"
	"sync"
	"testing"
	"testing/synctest"
	"time"

	"pgregory.net/rapid"
)

const (
	c13UnitTask     = "C13.taskpool"
	c13ClaimedRefs  = -1000000
	c13ConvoyMarker = "(*UdpTaskQueue).convoy"
)

// c13Gid returns the id of the calling goroutine (parsed from its stack header).
func c13Gid() uint64 {
	var buf [64]byte
	n := runtime.Stack(buf[:], false)
	const prefix = "goroutine "
	var id uint64
	for i := len(prefix); i < n; i++ {
		c := buf[i]
		if c < '0' || c > '9' {
			break
		}
		id = id*10 + uint64(c-'0')
	}
	return id
}

// c13ConvoyGoroutines counts live convoy goroutines in the process.
func c13ConvoyGoroutines() int {
	n := runtime.Stack(c13StackBuf, true)
	return strings.Count(string(c13StackBuf[:n]), c13ConvoyMarker+"(")
}

// c13HasPopHook reports whether the tree under test has the yield point
// convoy.beforeOverflowPop (a fresh convoy then parks there before anything else).
var c13HasPopHook = sync.OnceValue(func() bool {
	repo := os.Getenv("VERIF_REPO")
	if repo == "" {
		return false
	}
	b, err := os.ReadFile(repo + "/control/udp_task_pool.go")
	return err == nil && strings.Contains(string(b), `verifYield("convoy.beforeOverflowPop")`)
})

// c13StackBuf is shared by the (strictly sequential) cases of this package's C13 units.
var c13StackBuf = make([]byte, 1<<20)

// c13InBubble runs f in a synctest bubble; a panic raised inside (rapid failure,
// invalid data while shrinking) is carried out of the bubble and re-raised.
func c13InBubble(t *testing.T, f func()) {
	var caught any
	synctest.Test(t, func(_ *testing.T) {
		defer func() { caught = recover() }()
		f()
	})
	if caught != nil {
		// rapid's shrinker tells failures apart by the traceback of the panic, so an
		// "invalid data" panic (buffer overrun while shrinking) must not be re-raised
		// from the same line as a genuine failure.
		if fmt.Sprintf("%T", caught) == "rapid.invalidData" {
			c13RepanicInvalid(caught)
		}
		c13RepanicFailure(caught)
	}
}

//go:noinline
func c13RepanicInvalid(v any) { panic(v) }

//go:noinline
func c13RepanicFailure(v any) { panic(v) }

type c13QInfo struct {
	q      *UdpTaskQueue
	serial int
	key    int
	gid    uint64 // worker goroutine bound to this queue (0 = none seen yet)
	// goneChecked: the one-time "worker has left, queue must be empty" check was done
	// (afterwards the channel may legitimately belong to a younger queue).
	goneChecked bool
}

type c13Task struct {
	id       int
	key      int
	prod     int
	park     bool
	fn       UdpTask
	runs     int
	accepted bool
	qi       *c13QInfo // queue it was enqueued into
}

type c13Exec struct {
	task *c13Task
	gid  uint64
}

type c13Prod struct {
	id      int
	key     int
	tasks   []*c13Task
	burst   bool
	mask    map[string]bool
	candSet bool
	cand    *UdpTaskQueue
	qi      *c13QInfo
	cur     *c13Task
	freeRun bool
	done    bool
}

type c13Park struct {
	gid    uint64
	point  string
	name   string
	prod   *c13Prod
	task   *c13Task // the task being executed, for point "task.running"
	resume chan struct{}
}

type c13Sched struct {
	mu        sync.Mutex
	chMu      sync.Mutex
	pool      *UdpTaskPool
	keys      []UdpFlowKey
	parked    []*c13Park
	free      bool
	prodByGid map[uint64]*c13Prod
	prods     []*c13Prod
	queues    []*c13QInfo
	qByPtr    map[*UdpTaskQueue]*c13QInfo
	gidQueue  map[uint64]*c13QInfo
	taskByGid map[uint64]*c13Task
	// pendingFresh: a producer waits for the convoy of the queue it just created
	pendingFresh  chan struct{}
	pendingFreshQ *c13QInfo
	chans     []chan UdpTask
	tasks     []*c13Task
	accepted  [][]*c13Task // per key, in acceptance order
	accByQ    map[*c13QInfo][]*c13Task
	execs     []c13Exec
	execDone  int
	execByKey []int
	execByQ   map[*c13QInfo]int
	running   []int
	failMsg   string
	trace     []string
	classes   map[string]bool
	resetSeen bool
	closed    bool
	excluded  int
	stateHash uint64
}

func c13NewSched(nKeys int) *c13Sched {
	s := &c13Sched{
		prodByGid: map[uint64]*c13Prod{},
		qByPtr:    map[*UdpTaskQueue]*c13QInfo{},
		gidQueue:  map[uint64]*c13QInfo{},
		taskByGid: map[uint64]*c13Task{},
		accByQ:    map[*c13QInfo][]*c13Task{},
		execByQ:   map[*c13QInfo]int{},
		classes:   map[string]bool{},
	}
	for i := 0; i < nKeys; i++ {
		s.keys = append(s.keys, UdpFlowKey{
			Src: netip.AddrPortFrom(netip.MustParseAddr("10.13.0.1"), uint16(1000+i)),
			Dst: netip.AddrPortFrom(netip.MustParseAddr("192.0.2.13"), 443),
		})
	}
	s.accepted = make([][]*c13Task, nKeys)
	s.execByKey = make([]int, nKeys)
	s.running = make([]int, nKeys)
	s.pool = NewUdpTaskPool()
	s.pool.queueChPool.New = func() any {
		ch := make(chan UdpTask, UdpTaskQueueLength)
		s.chMu.Lock()
		s.chans = append(s.chans, ch)
		s.chMu.Unlock()
		return ch
	}
	return s
}

func (s *c13Sched) failf(format string, a ...any) {
	if s.failMsg == "" {
		s.failMsg = fmt.Sprintf(format, a...)
	}
}

func (s *c13Sched) mapEntry(key int) *UdpTaskQueue {
	if v, ok := s.pool.queues.Load(s.keys[key]); ok {
		return v.(*UdpTaskQueue)
	}
	return nil
}

func (s *c13Sched) qinfo(q *UdpTaskQueue, key int) *c13QInfo {
	if q == nil {
		return nil
	}
	if qi := s.qByPtr[q]; qi != nil {
		return qi
	}
	qi := &c13QInfo{q: q, serial: len(s.queues), key: key}
	s.queues = append(s.queues, qi)
	s.qByPtr[q] = qi
	if len(s.queues) > 1 {
		s.classes["queue_recreated"] = true
	}
	return qi
}

// yield is the verif hook. It first does the bookkeeping that must happen at the
// point itself (which queue a producer holds, acceptance of a task) and then parks
// the goroutine unless it is in free-run mode.
func (s *c13Sched) yield(point string) {
	gid := c13Gid()
	s.mu.Lock()
	pr := s.prodByGid[gid]
	if pr == nil && s.pendingFresh != nil && point == "convoy.beforeOverflowPop" && s.gidQueue[gid] == nil {
		s.gidQueue[gid] = s.pendingFreshQ
		s.pendingFreshQ.gid = gid
		close(s.pendingFresh)
		s.pendingFresh, s.pendingFreshQ = nil, nil
	}
	if pr != nil {
		switch point {
		case "acquire.afterLoad":
			// The producer has just loaded the map entry; it keeps retrying on that
			// same queue, so only the first yield of an EmitTask call tells which.
			if !pr.candSet {
				pr.candSet = true
				pr.cand = s.mapEntry(pr.key)
			}
		case "emit.afterAcquire":
			var q *UdpTaskQueue
			if pr.candSet && pr.cand != nil && pr.cand.refs.Load() >= 0 {
				q = pr.cand
			} else {
				q = s.mapEntry(pr.key)
				if pr.candSet && pr.cand != nil {
					s.classes["acquire_saw_claimed_queue"] = true
				}
			}
			if q == nil && pr.candSet && pr.cand != nil && !s.closed {
				// the only queue this producer can be holding is the claimed one
				q = pr.cand
				s.failf("EmitTask for key %d acquired queue #%d although it was already claimed for deletion (refs=%d): its task can never run", pr.key, s.qinfo(q, pr.key).serial, q.refs.Load())
			}
			known := q != nil && s.qByPtr[q] != nil
			pr.qi = s.qinfo(q, pr.key)
			if pr.qi == nil && !s.closed {
				s.failf("harness: producer %d holds no identifiable queue for key %d", pr.id, pr.key)
			}
			if pr.qi != nil && !known && pr.qi.gid == 0 && c13HasPopHook() && !s.free && !s.closed {
				// This producer has just created the queue. Its convoy is starting up
				// and parks at convoy.beforeOverflowPop when it finds the channel
				// empty; wait for that before enqueueing, so that the start-up order
				// is not left to the Go scheduler (and the worker is identified).
				arrived := false
				for _, q := range s.parked {
					if q.prod == nil && q.point == "convoy.beforeOverflowPop" && s.gidQueue[q.gid] == nil {
						s.gidQueue[q.gid] = pr.qi
						pr.qi.gid = q.gid
						arrived = true
						break
					}
				}
				if !arrived {
					wait := make(chan struct{})
					s.pendingFresh, s.pendingFreshQ = wait, pr.qi
					s.mu.Unlock()
					<-wait
					s.mu.Lock()
				}
			}
		case "emit.afterEnqueue":
			t := pr.cur
			if t != nil && !t.accepted {
				t.accepted = true
				t.qi = pr.qi
				s.accepted[t.key] = append(s.accepted[t.key], t)
				if pr.qi != nil {
					s.accByQ[pr.qi] = append(s.accByQ[pr.qi], t)
				}
			}
		}
	}
	if s.free || (pr != nil && (pr.freeRun || !pr.mask[point])) {
		s.mu.Unlock()
		return
	}
	p := &c13Park{gid: gid, point: point, prod: pr, resume: make(chan struct{})}
	if point == "task.running" {
		p.task = s.taskByGid[gid]
	}
	s.parked = append(s.parked, p)
	s.mu.Unlock()
	<-p.resume
}

func (s *c13Sched) newTask(key, prod int, park bool) *c13Task {
	t := &c13Task{id: len(s.tasks), key: key, prod: prod, park: park}
	s.tasks = append(s.tasks, t)
	t.fn = func() {
		gid := c13Gid()
		s.mu.Lock()
		t.runs++
		s.execs = append(s.execs, c13Exec{task: t, gid: gid})
		s.running[key]++
		if s.running[key] > 1 && !s.resetSeen && !s.closed {
			s.failf("two tasks of flow key %d were running at the same time (task %d started while another was still executing)", key, t.id)
		}
		if t.park {
			s.taskByGid[gid] = t
		}
		s.mu.Unlock()
		if t.park {
			s.yield("task.running")
		}
		s.mu.Lock()
		s.running[key]--
		s.mu.Unlock()
	}
	return t
}

func (s *c13Sched) startProducer(pr *c13Prod) {
	s.prods = append(s.prods, pr)
	go func() {
		gid := c13Gid()
		s.mu.Lock()
		s.prodByGid[gid] = pr
		s.mu.Unlock()
		for i, t := range pr.tasks {
			s.mu.Lock()
			if pr.burst && i == 1 {
				pr.freeRun = true
			}
			pr.cur = t
			pr.candSet = false
			pr.cand = nil
			pr.qi = nil
			s.mu.Unlock()
			s.pool.EmitTask(s.keys[pr.key], t.fn)
		}
		s.mu.Lock()
		pr.cur = nil
		pr.done = true
		delete(s.prodByGid, gid)
		s.mu.Unlock()
	}()
}

func (s *c13Sched) liveProducers() int {
	n := 0
	for _, pr := range s.prods {
		if !pr.done {
			n++
		}
	}
	return n
}

// bind computes worker<->queue bindings and verifies the execution log that was
// appended since the last quiescent point. Must be called at a quiescent point.
func (s *c13Sched) checkQuiescent(final bool) {
	s.mu.Lock()
	defer s.mu.Unlock()
	if s.pendingFresh != nil {
		// Every goroutine is blocked and the convoy of the queue just created has
		// still not reached its first empty-channel check: it found work in a
		// channel that should have been empty (recycled dirty). Let the producer go
		// on; the oracle below judges the rest.
		close(s.pendingFresh)
		s.pendingFresh, s.pendingFreshQ = nil, nil
		s.classes["fresh_convoy_found_work"] = true
	}
	defer s.nameParked()
	for ; s.execDone < len(s.execs); s.execDone++ {
		e := s.execs[s.execDone]
		t := e.task
		if t.runs > 1 {
			s.failf("task %d of key %d was executed %d times", t.id, t.key, t.runs)
		}
		if !t.accepted && !s.closed {
			s.failf("task %d of key %d ran but its enqueue never returned", t.id, t.key)
			continue
		}
		if s.closed {
			if t.qi != nil && s.gidQueue[e.gid] == nil {
				s.gidQueue[e.gid] = t.qi // naming only; nothing is judged after Close
			}
			continue
		}
		if !s.resetSeen {
			i := s.execByKey[t.key]
			if i >= len(s.accepted[t.key]) || s.accepted[t.key][i] != t {
				want := -1
				if i < len(s.accepted[t.key]) {
					want = s.accepted[t.key][i].id
				}
				s.failf("flow key %d: execution #%d was task %d, but acceptance order says task %d", t.key, i, t.id, want)
			}
			s.execByKey[t.key]++
		}
		if t.qi != nil {
			// one worker per queue, one queue per worker, task runs under its own queue
			if cur := s.gidQueue[e.gid]; cur == nil {
				s.gidQueue[e.gid] = t.qi
			} else if cur != t.qi {
				s.failf("task %d (key %d) was enqueued into queue #%d (key %d) but executed by the worker of queue #%d (key %d)",
					t.id, t.key, t.qi.serial, t.qi.key, cur.serial, cur.key)
			}
			if t.qi.gid == 0 {
				t.qi.gid = e.gid
			} else if t.qi.gid != e.gid && s.gidQueue[e.gid] == t.qi {
				s.failf("queue #%d (key %d) is served by two workers", t.qi.serial, t.qi.key)
			}
			i := s.execByQ[t.qi]
			acc := s.accByQ[t.qi]
			if i >= len(acc) || acc[i] != t {
				s.failf("queue #%d (key %d): execution #%d was task %d, not the next accepted one", t.qi.serial, t.qi.key, i, t.id)
			}
			s.execByQ[t.qi]++
		}
	}
	if s.closed {
		return
	}
	s.bindFresh()
	s.nameParked()

	workerParked := map[*c13QInfo]bool{}
	for _, p := range s.parked {
		if p.prod == nil {
			if qi := s.gidQueue[p.gid]; qi != nil {
				workerParked[qi] = true
			}
		}
	}
	liveCh := map[chan UdpTask]*c13QInfo{}
	for _, qi := range s.queues {
		refs := qi.q.refs.Load()
		if qi.q.overflowLen.Load() > 0 {
			s.classes["overflow"] = true
		}
		if refs >= 0 {
			if other := liveCh[qi.q.ch]; other != nil {
				s.failf("live queues #%d and #%d share one channel", other.serial, qi.serial)
			}
			liveCh[qi.q.ch] = qi
			continue
		}
		// claimed for deletion (or closed). Once its worker is gone nothing will
		// ever read it again: whatever it holds is lost (and its channel is recycled).
		if !workerParked[qi] && !qi.goneChecked {
			qi.goneChecked = true
			reused := false
			for _, other := range s.queues {
				if other != qi && other.q.ch == qi.q.ch && other.serial > qi.serial {
					reused = true
				}
			}
			n := int(qi.q.overflowLen.Load())
			if !reused {
				n += len(qi.q.ch)
			}
			if n > 0 {
				s.failf("queue #%d of key %d was deleted and its channel recycled while it still held %d accepted task(s): they are lost (or will run under whichever flow gets the channel next)",
					qi.serial, qi.key, n)
			}
		}
	}
	for k := range s.keys {
		if q := s.mapEntry(k); q != nil {
			if qi := s.qByPtr[q]; qi == nil {
				s.failf("harness: unknown queue mapped for key %d", k)
			} else if qi.key != k {
				s.failf("queue #%d of key %d is mapped under key %d", qi.serial, qi.key, k)
			}
		}
	}
}

// bindFresh identifies a convoy that parked before it ran any task.
func (s *c13Sched) bindFresh() {
	// A convoy that parks before it has run any task (convoy.beforeOverflowPop right
	// after its start) is identified by elimination: producers run one at a time, so
	// a step creates at most one queue and starts at most one worker.
	var freshG []uint64
	for _, p := range s.parked {
		if p.prod == nil && s.gidQueue[p.gid] == nil {
			dup := false
			for _, g := range freshG {
				dup = dup || g == p.gid
			}
			if !dup {
				freshG = append(freshG, p.gid)
			}
		}
	}
	var freshQ []*c13QInfo
	for _, qi := range s.queues {
		if qi.gid == 0 {
			freshQ = append(freshQ, qi)
		}
	}
	if len(freshG) == 1 && len(freshQ) == 1 {
		s.gidQueue[freshG[0]] = freshQ[0]
		freshQ[0].gid = freshG[0]
	}
}

// nameParked gives parked goroutines deterministic names and sorts them (also
// after Close, so that the drain order never depends on arrival order).
func (s *c13Sched) nameParked() {
	// name parked goroutines deterministically
	for _, p := range s.parked {
		if p.prod != nil {
			p.name = fmt.Sprintf("P%03d@%s", p.prod.id, p.point)
		} else if qi := s.gidQueue[p.gid]; qi != nil {
			p.name = fmt.Sprintf("C%03d@%s", qi.serial, p.point)
		} else {
			p.name = fmt.Sprintf("C???@%s", p.point)
		}
	}
	sort.SliceStable(s.parked, func(i, j int) bool { return s.parked[i].name < s.parked[j].name })
	if os.Getenv("C13_DEBUG_LOG") != "" && !s.closed {
		// determinism self-check: fingerprint of what is parked at every quiescent point
		h := fnv.New64a()
		fmt.Fprintf(h, "%x|", s.stateHash)
		for _, p := range s.parked {
			h.Write([]byte(p.name))
			h.Write([]byte{0})
		}
		for _, qi := range s.queues {
			if qi.q.refs.Load() < 0 {
				continue // a dead queue's channel may already serve a younger queue
			}
			fmt.Fprintf(h, "q%d:%d:%d:%d;", qi.serial, qi.q.refs.Load(), len(qi.q.ch), qi.q.overflowLen.Load())
		}
		s.stateHash = h.Sum64()
		if os.Getenv("C13_DEBUG_STEPS") != "" {
			var b strings.Builder
			for _, p := range s.parked {
				b.WriteString(p.name + ",")
			}
			for _, qi := range s.queues {
				fmt.Fprintf(&b, " q%d:%d:%d:%d", qi.serial, qi.q.refs.Load(), len(qi.q.ch), qi.q.overflowLen.Load())
			}
			last := ""
			if len(s.trace) > 0 {
				last = s.trace[len(s.trace)-1]
			}
			c13Debug("  step %d after %s: %s", len(s.trace), last, b.String())
		}
	}
}

// gcWindow returns the set of queues whose worker is parked between the idle
// emptiness check and the claiming CAS; unknown=true if a worker could not be
// identified.
func (s *c13Sched) gcWindow() (m map[*c13QInfo]bool, byKey map[int]bool, unknown bool) {
	m = map[*c13QInfo]bool{}
	byKey = map[int]bool{}
	for _, p := range s.parked {
		if p.prod == nil && p.point == "convoy.afterIdleCheck" {
			if qi := s.gidQueue[p.gid]; qi != nil {
				m[qi] = true
				byKey[qi.key] = true
			} else {
				unknown = true
			}
		}
	}
	return
}

// forbiddenF5 reports whether resuming p would complete an EmitTask on a queue
// whose worker sits between its emptiness check and the claiming CAS — the exact
// interleaving of known finding F5.
func (s *c13Sched) forbiddenF5(p *c13Park) bool {
	if p.prod == nil {
		return false
	}
	win, byKey, unknown := s.gcWindow()
	if len(win) == 0 && !unknown {
		return false
	}
	pr := p.prod
	if pr.burst {
		return unknown || byKey[pr.key]
	}
	if p.point != "emit.afterEnqueue" {
		return false
	}
	if unknown {
		return true
	}
	return pr.qi != nil && win[pr.qi] && pr.qi.q.refs.Load() == 1
}

// forbiddenOverflowRace reports whether resuming p would let a burst producer
// free-run while the convoy of its queue is not parked: whether the channel then
// fills up while the convoy sits between "channel empty" and popOverflowTask is a
// real-time race (known finding F-C13-1), not a scheduled one.
func (s *c13Sched) forbiddenOverflowRace(p *c13Park) bool {
	// the convoy may not leave the first task of a burst before the burst's
	// producer has emitted the rest (with the convoy parked the outcome is exact)
	if p.prod != nil || p.point != "task.running" || p.task == nil {
		return false
	}
	pr := s.prods[p.task.prod]
	return pr.burst && len(pr.tasks) > 0 && pr.tasks[0] == p.task && !pr.freeRun && !pr.done
}

type c13Action struct {
	kind string
	park *c13Park
	w    int
}

func (s *c13Sched) tr(format string, a ...any) {
	s.trace = append(s.trace, fmt.Sprintf(format, a...))
}

// parkTargetConvoy makes sure that the convoy which will receive a burst is parked
// before the burst's producer free-runs. An idle convoy (blocked in its select) is
// sent a spurious wake token — the code tolerates those by design — so that it
// loops to convoy.beforeOverflowPop and parks there; otherwise how far it gets
// while the producer fills the channel would be up to the Go scheduler.
func (s *c13Sched) parkTargetConvoy(pr *c13Prod) {
	if !c13HasPopHook() {
		return
	}
	s.mu.Lock()
	q := s.mapEntry(pr.key)
	nudge := false
	if q != nil && q.refs.Load() >= 0 && !s.closed {
		qi := s.qByPtr[q]
		parked := false
		for _, o := range s.parked {
			if o.prod == nil && qi != nil && s.gidQueue[o.gid] == qi {
				parked = true
			}
		}
		nudge = !parked
	}
	s.mu.Unlock()
	if nudge {
		select {
		case q.wake <- struct{}{}:
		default:
		}
		synctest.Wait()
		s.mu.Lock()
		s.classes["idle_convoy_parked_for_burst"] = true
		s.bindFresh()
		s.nameParked()
		s.mu.Unlock()
	}
}

func (s *c13Sched) resume(p *c13Park) {
	if p.prod != nil && p.prod.burst && !p.prod.freeRun && p.point == "emit.afterEnqueue" {
		s.parkTargetConvoy(p.prod)
	}
	s.mu.Lock()
	for i, q := range s.parked {
		if q == p {
			s.parked = append(s.parked[:i], s.parked[i+1:]...)
			break
		}
	}
	if p.prod != nil {
		for _, q := range s.parked {
			if q.prod == nil && strings.HasPrefix(q.point, "convoy.") {
				if q.point == "convoy.beforeOverflowPop" {
					s.classes["producer_step_inside_pop"] = true
				} else {
					s.classes["producer_step_inside_gc"] = true
				}
				s.classes["producer_step_at_"+q.point] = true
			}
		}
	}
	if p.prod == nil && p.point == "convoy.beforeOverflowPop" && !s.closed {
		// The convoy is about to reach its blocking select. A stale wake token (left
		// by an overflow enqueue whose task has been consumed meanwhile) together
		// with an expired idle timer would make that select a coin toss of the Go
		// runtime; the token only causes one spurious loop iteration, so take it out.
		if qi := s.gidQueue[p.gid]; qi != nil && qi.q.refs.Load() >= 0 {
			select {
			case <-qi.q.wake:
				s.classes["stale_wake_token_removed"] = true
			default:
			}
		}
	}
	s.mu.Unlock()
	s.tr("%s", p.name)
	close(p.resume)
}

func (s *c13Sched) teardown() {
	s.mu.Lock()
	s.free = true
	parked := s.parked
	s.parked = nil
	if s.pendingFresh != nil {
		close(s.pendingFresh)
		s.pendingFresh, s.pendingFreshQ = nil, nil
	}
	s.mu.Unlock()
	for _, p := range parked {
		close(p.resume)
	}
	s.pool.Close()
	for i := 0; i < 100; i++ {
		synctest.Wait()
		s.mu.Lock()
		qs := append([]*c13QInfo(nil), s.queues...)
		// queues the harness never identified
		for k := range s.keys {
			if q := s.mapEntry(k); q != nil && s.qByPtr[q] == nil {
				qs = append(qs, &c13QInfo{q: q})
			}
		}
		live := 0
		for _, pr := range s.prods {
			if !pr.done {
				live++
			}
		}
		s.mu.Unlock()
		for _, qi := range qs {
			qi.q.close()
		}
		synctest.Wait()
		if live == 0 && c13ConvoyGoroutines() == 0 {
			break
		}
		time.Sleep(UdpTaskPoolAgingTime)
	}
	verifSetHooks(nil)
}

var c13Sleeps = []time.Duration{
	UdpTaskPoolAgingTime / 2, UdpTaskPoolAgingTime - time.Nanosecond, UdpTaskPoolAgingTime,
	UdpTaskPoolAgingTime, UdpTaskPoolAgingTime + time.Nanosecond, 2*UdpTaskPoolAgingTime + time.Millisecond,
}

var c13Masks = [][]string{
	{"acquire.afterLoad", "emit.afterAcquire", "emit.afterEnqueue"},
	{"emit.afterEnqueue"},
	{"emit.afterAcquire", "emit.afterEnqueue"},
	{"acquire.afterLoad"},
	{"acquire.afterLoad", "emit.afterEnqueue"},
	{},
}

func (s *c13Sched) drawProducer(rt *rapid.T, known, knownOvf bool) *c13Prod {
	pr := &c13Prod{id: len(s.prods), key: rapid.IntRange(0, len(s.keys)-1).Draw(rt, "key"), mask: map[string]bool{}}
	for _, m := range rapid.SampledFrom(c13Masks).Draw(rt, "mask") {
		pr.mask[m] = true
	}
	if known {
		// keep the last step of EmitTask schedulable so F5's interleaving can be avoided
		pr.mask["emit.afterEnqueue"] = true
	}
	kind := rapid.SampledFrom([]string{"one", "one", "one", "one_nopark", "pair", "burst"}).Draw(rt, "kind")
	switch kind {
	case "one":
		pr.tasks = []*c13Task{s.newTask(pr.key, pr.id, true)}
	case "one_nopark":
		pr.tasks = []*c13Task{s.newTask(pr.key, pr.id, false)}
	case "pair":
		// one enqueue per scheduler step: whether the convoy sees the second task
		// before or after it finds its channel empty must not be left to the Go scheduler
		pr.mask["emit.afterEnqueue"] = true
		pr.tasks = []*c13Task{s.newTask(pr.key, pr.id, rapid.Bool().Draw(rt, "park0")), s.newTask(pr.key, pr.id, rapid.Bool().Draw(rt, "park1"))}
	case "burst":
		pr.burst = true
		sizes := []int{UdpTaskQueueLength - 1, UdpTaskQueueLength, UdpTaskQueueLength + 1, UdpTaskQueueLength + 2, UdpTaskQueueLength + 9, 2*UdpTaskQueueLength + 3}
		if vkThorough() {
			sizes = append(sizes, 5*UdpTaskQueueLength+1)
		}
		n := rapid.SampledFrom(sizes).Draw(rt, "burst")
		parkLast := rapid.Bool().Draw(rt, "parkLast")
		for i := 0; i < n; i++ {
			pr.tasks = append(pr.tasks, s.newTask(pr.key, pr.id, i == 0 || (parkLast && i == n-1)))
		}
		s.classes["burst"] = true
		// the convoy must be parked (in the first task or elsewhere) before the burst
		// free-runs: the free run then starts from a scheduler step
		pr.mask["emit.afterEnqueue"] = true
	}
	s.tr("emit(P%03d key=%d %s n=%d mask=%v)", pr.id, pr.key, kind, len(pr.tasks), c13SortedKeys(pr.mask))
	return pr
}

func c13SortedKeys(m map[string]bool) []string {
	out := []string{}
	for k := range m {
		out = append(out, k)
	}
	sort.Strings(out)
	return out
}

func (s *c13Sched) tail() string {
	tr := s.trace
	if len(tr) > 80 {
		tr = tr[len(tr)-80:]
	}
	return strings.Join(tr, " ; ")
}

func (s *c13Sched) mustHold(rt *rapid.T, final bool) {
	s.checkQuiescent(final)
	s.mu.Lock()
	msg := s.failMsg
	s.mu.Unlock()
	if msg != "" {
		c13Debug("FAIL %s | %s", msg, s.tail())
		rt.Fatalf("C13 task pool: %s\nschedule: %s", msg, s.tail())
	}
}

func c13Debug(format string, a ...any) {
	if p := os.Getenv("C13_DEBUG_LOG"); p != "" {
		if f, err := os.OpenFile(p, os.O_APPEND|os.O_CREATE|os.O_WRONLY, 0o644); err == nil {
			fmt.Fprintf(f, format+"\n", a...)
			f.Close()
		}
	}
}

func c13TaskPoolCase(rt *rapid.T) {
	known := vkKnown("F5")
	knownOvf := vkKnown("F-C13-1")
	excludedOvf := false
	nKeys := rapid.IntRange(1, 3).Draw(rt, "nKeys")
	nSteps := rapid.IntRange(8, 200).Draw(rt, "nSteps")
	maxProd := rapid.IntRange(1, 4).Draw(rt, "maxProd")
	allowReset := rapid.IntRange(0, 9).Draw(rt, "allowReset") == 0
	allowClose := rapid.IntRange(0, 11).Draw(rt, "allowClose") == 0
	maxOps := rapid.IntRange(1, 14).Draw(rt, "maxOps")

	s := c13NewSched(nKeys)
	defer s.teardown()
	verifSetHooks(&verifHooks{Yield: s.yield})

	excludedCase := false
	for step := 0; step < nSteps && !s.closed; step++ {
		synctest.Wait()
		s.mustHold(rt, false)
		var acts []c13Action
		s.mu.Lock()
		for _, p := range s.parked {
			if known && s.forbiddenF5(p) {
				excludedCase = true
				s.excluded++
				continue
			}
			if s.forbiddenOverflowRace(p) {
				// generator constraint (not an exclusion): a burst is emitted in one
				// step while its convoy is parked, so the outcome is exact
				if knownOvf {
					excludedOvf = true
				}
				continue
			}
			w := 3
			if p.prod == nil && strings.HasPrefix(p.point, "convoy.") {
				w = 2
			}
			acts = append(acts, c13Action{kind: "resume", park: p, w: w})
		}
		nparked := len(s.parked)
		s.mu.Unlock()
		if s.liveProducers() < maxProd && len(s.prods) < maxOps {
			acts = append(acts, c13Action{kind: "emit", w: 3})
		}
		sw := 2
		if nparked == 0 {
			sw = 4
		}
		acts = append(acts, c13Action{kind: "sleep", w: sw})
		if allowReset {
			// a Reset under a pending burst makes the burst continue on a brand-new
			// queue whose convoy is not parked: the unscheduled race of F-C13-1
			liveBurst := false
			for _, pr := range s.prods {
				if pr.burst && !pr.done {
					liveBurst = true
				}
			}
			if knownOvf && liveBurst {
				excludedOvf = true
			} else {
				acts = append(acts, c13Action{kind: "reset", w: 1})
			}
		}
		// Close is the shutdown-only path ("the pool must not be reused"): it is taken
		// only while no EmitTask is in flight. (A producer racing Close may create a
		// queue on a channel that Close recycled with tasks inside, and whether the
		// woken convoys run or drop what is left is a coin toss of select — outside
		// the statement, and not schedulable.)
		if allowClose && step > nSteps/2 && s.liveProducers() == 0 {
			acts = append(acts, c13Action{kind: "close", w: 1})
		}
		total := 0
		for _, a := range acts {
			total += a.w
		}
		pick := rapid.IntRange(0, total-1).Draw(rt, "act")
		var act c13Action
		for _, a := range acts {
			if pick < a.w {
				act = a
				break
			}
			pick -= a.w
		}
		switch act.kind {
		case "resume":
			s.resume(act.park)
		case "emit":
			s.startProducer(s.drawProducer(rt, known, knownOvf))
		case "sleep":
			d := rapid.SampledFrom(c13Sleeps).Draw(rt, "sleep")
			s.tr("sleep(%v)", d)
			time.Sleep(d)
		case "reset":
			s.tr("Reset")
			s.mu.Lock()
			s.resetSeen = true
			s.classes["reset"] = true
			s.mu.Unlock()
			s.pool.Reset()
		case "close":
			s.tr("Close")
			s.mu.Lock()
			s.closed = true
			s.classes["close"] = true
			s.mu.Unlock()
			s.pool.Close()
			// Shutdown: from here on nothing is scheduled any more (whether a woken
			// convoy still runs what is left in its channel is a coin toss of its
			// select); every parked goroutine is let go and only termination and
			// at-most-once execution are judged.
			s.mu.Lock()
			s.free = true
			parked := s.parked
			s.parked = nil
			s.mu.Unlock()
			for _, p := range parked {
				close(p.resume)
			}
		}
	}

	// ---- drain: resume everything (deterministically), let every queue idle out.
	idleRounds := 0
	for iter := 0; ; iter++ {
		synctest.Wait()
		s.mustHold(rt, false)
		if iter > 20000 {
			rt.Fatalf("C13 task pool: no quiescence after %d drain steps\nschedule: %s", iter, s.tail())
		}
		s.mu.Lock()
		var next *c13Park
		for _, p := range s.parked {
			if known && s.forbiddenF5(p) {
				excludedCase = true
				continue
			}
			if s.forbiddenOverflowRace(p) {
				continue
			}
			next = p
			break
		}
		nparked := len(s.parked)
		s.mu.Unlock()
		if next != nil {
			s.resume(next)
			idleRounds = 0
			continue
		}
		if nparked > 0 {
			rt.Fatalf("harness: %d parked goroutines but none may be resumed\nschedule: %s", nparked, s.tail())
		}
		if s.liveProducers() > 0 {
			rt.Fatalf("C13 task pool: a producer is stuck inside EmitTask with nothing left to schedule\nschedule: %s", s.tail())
		}
		if s.closed {
			break
		}
		s.mu.Lock()
		live := 0
		for _, qi := range s.queues {
			if qi.q.refs.Load() >= 0 {
				live++
			}
		}
		s.mu.Unlock()
		if live == 0 {
			break
		}
		idleRounds++
		if idleRounds > 6 {
			rt.Fatalf("C13 task pool: %d queue(s) of idle flows are still alive after %d idle periods (leaked worker/queue)\nschedule: %s", live, idleRounds, s.tail())
		}
		time.Sleep(UdpTaskPoolAgingTime + time.Millisecond)
	}

	// ---- final oracle
	synctest.Wait()
	s.mustHold(rt, true)
	s.mu.Lock()
	if !s.closed {
		for _, t := range s.tasks {
			if t.accepted && t.runs != 1 {
				s.failf("task %d of key %d was accepted but ran %d times (lost task)", t.id, t.key, t.runs)
			}
		}
		for k := range s.keys {
			if q := s.mapEntry(k); q != nil {
				s.failf("idle key %d still has a queue in the pool", k)
			}
		}
		for _, qi := range s.queues {
			if r := qi.q.refs.Load(); r != c13ClaimedRefs {
				s.failf("queue #%d of key %d ended with refs=%d (producer reference imbalance)", qi.serial, qi.key, r)
			}
			if n := len(qi.q.overflow); n > 0 {
				s.failf("queue #%d of key %d ended with %d tasks in its overflow list", qi.serial, qi.key, n)
			}
		}
		s.chMu.Lock()
		for i, ch := range s.chans {
			if len(ch) != 0 {
				s.failf("recycled channel #%d still holds %d task(s)", i, len(ch))
			}
		}
		s.chMu.Unlock()
		if n := c13ConvoyGoroutines(); n != 0 {
			s.failf("%d convoy goroutine(s) left after every flow went idle", n)
		}
	} else {
		for _, t := range s.tasks {
			if t.runs > 1 {
				s.failf("task %d ran %d times", t.id, t.runs)
			}
		}
	}
	msg := s.failMsg
	s.mu.Unlock()
	if msg != "" {
		rt.Fatalf("C13 task pool: %s\nschedule: %s", msg, s.tail())
	}

	c13Debug("CASE %016x steps=%d tasks=%d queues=%d closed=%v", s.stateHash, len(s.trace), len(s.tasks), len(s.queues), s.closed)
	cl := c13SortedKeys(s.classes)
	if excludedCase {
		vkExcluded(c13UnitTask, "F5")
		cl = append(cl, "f5_interleaving_excluded")
	}
	if excludedOvf {
		vkExcluded(c13UnitTask, "F-C13-1")
		cl = append(cl, "overflow_race_excluded")
	}
	nt := ""
	if s.classes["producer_step_inside_gc"] || s.classes["producer_step_inside_pop"] || s.classes["overflow"] {
		nt = strings.Join(s.trace, ";")
	}
	cl = append(cl, fmt.Sprintf("keys_%d", nKeys))
	vkCase(c13UnitTask, nt, func() any {
		return map[string]any{"keys": nKeys, "tasks": len(s.tasks), "queues": len(s.queues), "schedule": s.tail()}
	}, cl...)
}

func TestC13_TaskPool(t *testing.T) {
	rapid.Check(t, func(rt *rapid.T) {
		c13InBubble(t, func() { c13TaskPoolCase(rt) })
	})
}

// c13Script drives a c13Sched by hand for the deterministic finding replays.
type c13Script struct {
	s    *c13Sched
	none map[string]bool
}

// emit runs a whole sequence of EmitTask calls of one producer (it never parks).
func (sc *c13Script) emit(key, n int) []*c13Task {
	s := sc.s
	pr := &c13Prod{id: len(s.prods), key: key, mask: sc.none}
	for i := 0; i < n; i++ {
		pr.tasks = append(pr.tasks, s.newTask(key, pr.id, false))
	}
	s.startProducer(pr)
	synctest.Wait()
	return pr.tasks
}

func (sc *c13Script) parkedAt(point string) *c13Park {
	s := sc.s
	s.mu.Lock()
	defer s.mu.Unlock()
	for _, p := range s.parked {
		if p.prod == nil && p.point == point {
			return p
		}
	}
	return nil
}

// runUntil resumes parked workers (never one parked at stop) and lets idle time
// pass until a worker is parked at stop; stop == "" means until every queue is gone.
func (sc *c13Script) runUntil(stop string) bool {
	s := sc.s
	for i := 0; i < 400; i++ {
		synctest.Wait()
		s.checkQuiescent(false)
		if stop != "" && sc.parkedAt(stop) != nil {
			return true
		}
		s.mu.Lock()
		var next *c13Park
		for _, p := range s.parked {
			if stop == "" || p.point != stop {
				next = p
				break
			}
		}
		live := 0
		for _, qi := range s.queues {
			if qi.q.refs.Load() >= 0 {
				live++
			}
		}
		s.mu.Unlock()
		switch {
		case next != nil:
			s.resume(next)
		case stop == "" && live == 0:
			return true
		default:
			time.Sleep(UdpTaskPoolAgingTime + time.Millisecond)
		}
	}
	return false
}

// TestC13_Finding_F5 replays the schedule of finding F5: the worker of a flow has
// passed its idle emptiness check, a complete EmitTask runs, then the worker goes
// on to claim the queue. Correct behaviour: the task still runs exactly once, in
// order, under its own flow, and nothing is left behind. While F5 is listed as
// known the test only reports whether it still reproduces; otherwise a lost or
// misplaced task is a violation.
func TestC13_Finding_F5(t *testing.T) {
	var bad bool
	var detail string
	c13InBubble(t, func() {
		s := c13NewSched(2)
		defer s.teardown()
		verifSetHooks(&verifHooks{Yield: s.yield})
		sc := &c13Script{s: s, none: map[string]bool{}}
		t0 := sc.emit(0, 1)[0]
		if !sc.runUntil("convoy.afterIdleCheck") || t0.runs != 1 {
			bad, detail = true, fmt.Sprintf("setup failed: first task ran %d times, no worker reached convoy.afterIdleCheck (%s)", t0.runs, s.tail())
			return
		}
		// a whole EmitTask (acquire -> enqueue -> release) for the same flow
		t1 := sc.emit(0, 1)[0]
		// the worker goes on; every flow idles out
		done := sc.runUntil("")
		// another flow starts; with the defect it may receive the recycled channel
		t2 := sc.emit(1, 1)[0]
		done = sc.runUntil("") && done
		s.mu.Lock()
		defer s.mu.Unlock()
		foreign := false
		for _, e := range s.execs {
			if e.task == t1 {
				if t1.qi != nil && s.gidQueue[e.gid] != t1.qi {
					foreign = true
				}
				for _, e2 := range s.execs {
					if e2.task == t2 && e2.gid == e.gid {
						foreign = true
					}
				}
			}
		}
		bad = t1.runs != 1 || t2.runs != 1 || foreign || s.failMsg != "" || !done
		detail = fmt.Sprintf("task accepted between emptiness check and claim ran %d time(s), under a foreign worker: %v, all flows idled out: %v, oracle: %q; schedule: %s",
			t1.runs, foreign, done, s.failMsg, s.tail())
	})
	if vkKnown("F5") {
		if bad {
			vkKnownReproduced("F5")
			t.Logf("known finding F5 still reproduces: %s", detail)
		} else {
			t.Logf("known finding F5 no longer reproduces (%s)", detail)
		}
		return
	}
	if bad {
		t.Fatalf("F5: a task accepted between the convoy's idle emptiness check and its claim must run exactly once under its own flow: %s", detail)
	}
}

package control

// C10 level (a'), concurrent publications: histories over the tracker in which
// some steps are a *pair* of syncOwner calls for two different owners (biased to
// share addresses) issued from two goroutines.
//
// The observer hook sits where the batches are decided, i.e. right before the
// real code would write them to domain_routing_map. When the first call (P) of a
// pair reaches the hook, the harness probes tracker.mu with TryLock:
//   - lock held (the unchanged tree: the hook runs under t.mu): the calls are
//     serialised by the tracker. P's batch is written, P returns, then Q runs.
//   - lock free (batches decided under the lock but written outside it): another
//     publication can overtake P's pending write. The harness lets Q run to
//     completion while P is parked in the hook, then lets P's stale batch land.
// In both cases the shadow receives the batches in the order the real code would
// write them (the order in which the calls leave the hook), and the oracle is the
// usual one: shadow == OR over the live owners. No sleep or timeout decides an
// outcome; bounded waits only turn a stuck goroutine into "inconclusive".

import (
	"fmt"
	"sort"
	"strings"
	"sync"
	"testing"
	"time"

	"pgregory.net/rapid"
)

type c10PairOp struct {
	owner  string
	bmName string
	bm     bpfDomainRouting
	ips    map[c10Key]struct{}
}

func (o c10PairOp) String() string {
	return fmt.Sprintf("(%s,%s,%s)", o.owner, o.bmName, c10SetString(o.ips))
}

func (o c10PairOp) snapshot() domainRoutingOwnerSnapshot {
	s := domainRoutingOwnerSnapshot{bitmap: o.bm}
	if len(o.ips) > 0 {
		s.ips = make(map[c10Key]struct{}, len(o.ips))
		for k := range o.ips {
			s.ips[k] = struct{}{}
		}
	}
	return s
}

func TestC10_Overtake(t *testing.T) {
	const unit = "C10.overtake"
	six := c10SixKeys()
	rapid.Check(t, func(t *rapid.T) {
		shadow := c10NewShadow()
		tr := newDomainRoutingTracker()
		model := map[string]c10Owner{}
		var hist []string
		classes := map[string]bool{}
		nt := false
		inconclusive := ""

		// stage 0: plain (write at once); 1: armed, the next hook call is P's;
		// 2: P is in the hook, every other call (Q's) writes at once.
		var (
			stMu  sync.Mutex
			stage int
			runQ  func()
			qDone chan error
		)
		hook := func(owner string, updKeys [][4]uint32, updVals []bpfDomainRouting, delKeys [][4]uint32) {
			stMu.Lock()
			first := stage == 1
			if first {
				stage = 2
			}
			stMu.Unlock()
			if !first {
				shadow.observe(owner, updKeys, updVals, delKeys)
				return
			}
			if tr.mu.TryLock() {
				// P's batches are decided but the tracker admits other publications
				// before they are written: Q overtakes, then P's write lands.
				tr.mu.Unlock()
				classes["lock_free_at_decision"] = true
				go runQ()
				select {
				case err := <-qDone:
					qDone <- err
				case <-time.After(60 * time.Second):
					inconclusive = "second publication did not finish although the tracker was unlocked"
				}
				shadow.observe(owner, updKeys, updVals, delKeys)
				return
			}
			// serialised by the tracker: P writes, Q queues behind P.
			classes["serialised"] = true
			shadow.observe(owner, updKeys, updVals, delKeys)
			go runQ()
		}
		verifSetHooks(&verifHooks{DomainRoutingSync: hook})
		defer verifSetHooks(nil)

		applyModel := func(o c10PairOp) {
			if len(o.ips) == 0 {
				delete(model, o.owner)
				return
			}
			m := c10Owner{bitmap: o.bm, addrs: map[c10Key]bool{}}
			for k := range o.ips {
				m.addrs[k] = true
			}
			model[o.owner] = m
		}
		drawOp := func(t *rapid.T, label string, owner string, mustList *c10Key) c10PairOp {
			o := c10PairOp{owner: owner}
			if rapid.IntRange(0, 5).Draw(t, label+"_remove") == 5 {
				o.bmName = "zero"
				return o
			}
			o.bmName, o.bm = c10DrawBitmap(t, label+"_bitmap")
			o.ips = c10DrawKeySubset(t, label+"_ip", six, true)
			if mustList != nil {
				o.ips[*mustList] = struct{}{}
			}
			return o
		}
		note := func(before map[string]c10Owner) {
			partial, removed := c10Shrank(before, model)
			if partial || removed {
				classes["owner_shrank_or_removed"] = true
			}
			if c10SharedDiff(model) {
				classes["shared_addr_diff_bitmaps"] = true
			}
		}
		copyModel := func() map[string]c10Owner {
			b := make(map[string]c10Owner, len(model))
			for k, v := range model {
				b[k] = v
			}
			return b
		}

		t.Repeat(map[string]func(*rapid.T){
			"sync": func(t *rapid.T) {
				o := drawOp(t, "s", rapid.SampledFrom(c10TrackerOwners).Draw(t, "owner"), nil)
				hist = append(hist, "sync"+o.String())
				before := copyModel()
				if err := tr.syncOwner(nil, o.owner, o.snapshot()); err != nil {
					t.Fatalf("syncOwner: %v", err)
				}
				applyModel(o)
				note(before)
			},
			"pair": func(t *rapid.T) {
				if inconclusive != "" {
					t.Skip("inconclusive")
				}
				i := rapid.IntRange(0, len(c10TrackerOwners)-1).Draw(t, "p_owner")
				j := rapid.IntRange(0, len(c10TrackerOwners)-2).Draw(t, "q_owner")
				if j >= i {
					j++
				}
				var shared *c10Key
				if rapid.IntRange(0, 3).Draw(t, "share") != 3 {
					k := six[rapid.IntRange(0, len(six)-1).Draw(t, "shared_addr")]
					shared = &k
				}
				p := drawOp(t, "p", c10TrackerOwners[i], shared)
				q := drawOp(t, "q", c10TrackerOwners[j], shared)
				hist = append(hist, "pair{"+p.String()+" || "+q.String()+"}")
				before := copyModel()

				done := make(chan error, 2)
				stMu.Lock()
				stage = 1
				qDone = done
				runQ = func() { done <- tr.syncOwner(nil, q.owner, q.snapshot()) }
				stMu.Unlock()

				errP := tr.syncOwner(nil, p.owner, p.snapshot())
				stMu.Lock()
				reached := stage == 2
				stage = 0
				stMu.Unlock()
				if errP != nil {
					t.Fatalf("syncOwner(P): %v", errP)
				}
				if !reached {
					t.Fatalf("harness: the observer hook was not called by syncOwner")
				}
				if inconclusive == "" {
					select {
					case err := <-done:
						if err != nil {
							t.Fatalf("syncOwner(Q): %v", err)
						}
					case <-time.After(60 * time.Second):
						inconclusive = "second publication never finished"
					}
				}
				if inconclusive != "" {
					return
				}
				applyModel(p)
				applyModel(q)
				note(before)
				classes["pair"] = true
				for k := range p.ips {
					if _, ok := q.ips[k]; ok {
						classes["pair_shares_addr"] = true
						nt = true
					}
				}
			},
			"": func(t *rapid.T) {
				if inconclusive != "" {
					return
				}
				if errs := shadow.takeErrs(); len(errs) > 0 {
					t.Fatalf("bad batch after %v:\n%s", hist, strings.Join(errs, "\n"))
				}
				if d := c10Compare(shadow.snapshot(), model); d != "" {
					t.Fatalf("table does not mirror the owners after %d steps (pair{P || Q}: Q is published while P sits between deciding and writing its batches, if the tracker lets it)\nhistory: %v\nlive owners:\n%s%s", len(hist), hist, c10OwnersString(model), d)
				}
			},
		})

		if inconclusive != "" {
			vkNote(unit, "inconclusive history (not counted): %s", inconclusive)
			return
		}
		key := ""
		if nt {
			key = strings.Join(hist, ";")
		}
		cl := make([]string, 0, len(classes))
		for c := range classes {
			cl = append(cl, c)
		}
		sort.Strings(cl)
		vkCase(unit, key, func() any { return map[string]any{"history": hist} }, cl...)
	})
}

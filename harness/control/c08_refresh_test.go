package control

// C08 unit "refresh": the production backgroundRefresh of a stale entry is started
// (as the handler does after a stale hit) and parked inside its upstream selection
// (BestDialerChooser) under the virtual clock; meanwhile further lookups of the same
// key arrive at drawn instants. Inside the stale window they are still served the
// stale answer "at once" and ask for no second refresh; after the refresh attempt
// ended (here: the upstream could not be reached) the entry is still served until the
// window closes and may be flagged for a new refresh; beyond the window it is not
// served. Oracle = the C08 statement on a single key, with one refresh in flight.

import (
	"context"
	"errors"
	"fmt"
	"testing"
	"testing/synctest"
	"time"

	"github.com/daeuniverse/dae/common/consts"
	"github.com/daeuniverse/dae/component/dns"
	dnsmessage "github.com/miekg/dns"
	"pgregory.net/rapid"
)

const c08UnitRefresh = "C08.refresh"

func TestC08_RefreshInFlight(t *testing.T) {
	rapid.Check(t, func(rt *rapid.T) {
		ttl := rapid.SampledFrom([]uint32{1, 2, 30}).Draw(rt, "ttl")
		window := rapid.SampledFrom([]int{30, 60, 300}).Draw(rt, "optimistic_cache_ttl")
		// how long after expiry the first (refresh-starting) lookup comes, and the gaps
		// of the lookups that arrive while the refresh is parked
		first := time.Duration(rapid.IntRange(1, (window-2)*1000).Draw(rt, "first_stale_ms")) * time.Millisecond
		ngaps := rapid.IntRange(1, 4).Draw(rt, "lookups_during_refresh")
		var gaps []time.Duration
		for i := 0; i < ngaps; i++ {
			gaps = append(gaps, time.Duration(rapid.SampledFrom([]int{0, 1, 50, 900, 2500}).Draw(rt, "gap_ms"))*time.Millisecond)
		}
		var fail string
		var trace []string
		c08InBubble(t, func() {
			park := make(chan struct{})
			entered := make(chan struct{}, 4)
			log := c08Logger()
			opt := c08Option(log, c08Cfg{Opt: true, OptTtl: window})
			opt.BestDialerChooser = func(ctx context.Context, req *udpRequest, upstream *dns.Upstream) (*dialArgument, error) {
				entered <- struct{}{}
				select {
				case <-park:
				case <-ctx.Done():
				}
				return nil, errors.New("c08: upstream unreachable")
			}
			c, err := NewDnsController(nil, opt)
			if err != nil {
				fail = "harness: NewDnsController: " + err.Error()
				return
			}
			defer func() { _ = c.Close() }()
			synctest.Wait()
			p := &c08Probe{c: c, fq: "refresh.test."}
			sc := c08Scopes()[0]
			p.key = c.responseCacheKey(c.cacheKey(p.fq, dnsmessage.TypeA), sc.req, sc.idx, sc.up)
			p.insert(ttl)
			expiry := time.Now().Add(time.Duration(ttl) * time.Second)
			windowEnd := expiry.Add(time.Duration(window) * time.Second)
			time.Sleep(time.Until(expiry) + first)
			served, need := p.lookup()
			trace = append(trace, fmt.Sprintf("lookup %v after expiry: served=%v refresh=%v", first, served, need))
			if !served || !need {
				fail = fmt.Sprintf("stale entry %v after expiry (window %ds): served=%v needs-refresh=%v, want served at once and one refresh", first, window, served, need)
				return
			}
			// what the handler does with that answer: refresh in the background
			q := new(dnsmessage.Msg)
			q.SetQuestion(p.fq, dnsmessage.TypeA)
			done := make(chan struct{})
			go func() {
				defer close(done)
				c.backgroundRefresh(p.key, q, sc.req, consts.DnsRequestOutboundIndex_AsIs, nil)
			}()
			synctest.Wait()
			select {
			case <-entered:
			default:
				// the refresh did not reach the upstream selection (e.g. ended early): no
				// in-flight window to probe in this tree; the end-of-case checks still apply
				trace = append(trace, "refresh did not park")
			}
			ended := false
			for _, g := range gaps {
				time.Sleep(g)
				// the refresh has its own 5 s budget: let whatever is due at this very
				// instant finish before looking, so that a tie is not misread
				synctest.Wait()
				if !time.Now().Before(windowEnd.Add(-time.Second)) {
					break
				}
				select {
				case <-done:
					if !ended {
						trace = append(trace, "refresh ended by itself")
					}
					ended = true
				default:
				}
				served, need = p.lookup()
				trace = append(trace, fmt.Sprintf("+%v (refresh in flight): served=%v refresh=%v", g, served, need))
				if !served {
					fail = "a lookup inside the stale window was not served the stale answer while its refresh was in flight"
					return
				}
				if !ended && need {
					fail = "a second refresh was requested while one is in flight"
					return
				}
			}
			close(park)
			<-done
			synctest.Wait()
			if time.Now().Before(windowEnd.Add(-time.Second)) {
				served, _ = p.lookup()
				trace = append(trace, fmt.Sprintf("after the failed refresh: served=%v", served))
				if !served {
					fail = "after a refresh attempt that failed the stale answer is no longer served although the stale window is still open"
					return
				}
			}
			time.Sleep(time.Until(windowEnd) + 2*time.Second)
			if served, _ = p.lookup(); served {
				fail = "stale answer served after the stale window closed"
			}
		})
		if fail != "" {
			rt.Fatalf("%s\nttl=%d window=%d\n%v", fail, ttl, window, trace)
		}
		vkCase(c08UnitRefresh, fmt.Sprintf("%d/%d/%v/%v", ttl, window, first, gaps), func() any {
			return map[string]any{"ttl": ttl, "window": window, "trace": trace}
		}, "lookups_while_refresh_parked")
	})
}

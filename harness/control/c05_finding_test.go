package control

// Deterministic reproductions of the defects the C05 generators found on the
// unchanged tree. Each test: finding listed as known -> assert it still reproduces
// (vkKnownReproduced) ; not listed -> assert the correct behaviour (so an unrepaired or
// returning defect is a VIOLATION).

import (
	"fmt"
	"strings"
	"testing"
	"time"
)

type c05FindingCase struct {
	name string
	scn  func() *c05Scn
	// substring of the oracle's complaint while the defect is present
	symptom string
}

func c05NoKnown(mem bool) c05GenOpt { return c05GenOpt{Mem: mem} }

func c05W(n ...int) []c05Step {
	var s []c05Step
	for _, x := range n {
		s = append(s, c05Step{Op: c05OpWrite, N: x})
	}
	return s
}

func c05RunFinding(t *testing.T, id string, cases []c05FindingCase) {
	known := vkKnown(id)
	reproduced := 0
	for _, c := range cases {
		s := c.scn()
		var v c05Verdict
		if s.Mem {
			v = c05RunBubble(t, s, c05NoKnown(true))
		} else {
			var err error
			v, err = c05RunTCP(s, c05NoKnown(false))
			if err != nil {
				t.Fatalf("harness: loopback sockets unavailable: %v", err)
			}
		}
		if v.inconclusive != "" {
			t.Logf("%s/%s: inconclusive on the real clock (%s)", id, c.name, v.inconclusive)
		}
		switch {
		case known && v.fail != "" && strings.Contains(v.fail, c.symptom):
			reproduced++
			t.Logf("%s/%s: still reproduces: %s", id, c.name, strings.SplitN(v.fail, "\n", 2)[0])
		case known && v.fail != "":
			t.Fatalf("%s/%s: fails, but not with the listed symptom %q:\n%s", id, c.name, c.symptom, v.fail)
		case known:
			t.Logf("%s/%s: listed as known but no longer reproduces (repaired?)", id, c.name)
		case v.fail != "":
			t.Fatalf("%s/%s: %s", id, c.name, v.fail)
		}
		vkCase("C05.findings", id+"/"+c.name, func() any { return s.Summary() }, "finding_"+id)
	}
	if known && reproduced > 0 {
		vkKnownReproduced(id)
	}
}

// F6: a TLS ClientHello that arrives slowly (100 bytes, a pause longer than the
// sniffing timeout, the rest) on an otherwise healthy connection.
func TestC05_Finding_F6(t *testing.T) {
	mk := func(mem, handleConn bool) func() *c05Scn {
		return func() *c05Scn {
			hello := c05ClientHello("slow.c05.example", 1507, 42)
			s := &c05Scn{Mem: mem, HandleConn: handleConn, Stack: c05StackSniff, ReadChunk: [2]int{4096, 4096},
				SniffT: 100 * time.Millisecond, DnsT: TCPDNSFirstReadTimeout, FirstKind: "tls", Open: c05OpenSlow, Close: c05CloseClient,
				First: len(hello), C2U: hello, U2C: c05Fill(7, 900), Wrapped: true, ProbeTO: true, HeldPrefix: true}
			s.CSteps = c05W(100)
			if mem {
				s.CSteps = append(s.CSteps, c05Step{Op: c05OpSleep, D: 250 * time.Millisecond})
			} else {
				s.SniffT = 30 * time.Millisecond
				s.CSteps = append(s.CSteps, c05Step{Op: c05OpWaitRelay})
			}
			s.CSteps = append(s.CSteps, c05W(len(hello)-100)...)
			s.CSteps = append(s.CSteps, c05Step{Op: c05OpWaitRecv, N: 900}, c05Step{Op: c05OpCloseWrite})
			s.SSteps = append([]c05Step{{Op: c05OpWaitRecv, N: len(hello)}}, c05W(900)...)
			s.SSteps = append(s.SSteps, c05Step{Op: c05OpWaitEOF}, c05Step{Op: c05OpCloseWrite})
			return s
		}
	}
	c05RunFinding(t, "F6", []c05FindingCase{
		{"virtual-clock/composed", mk(true, false), "client->upstream truncated"},
		{"virtual-clock/handleConn", mk(true, true), "client->upstream truncated"},
		{"loopback/composed", mk(false, false), "client->upstream truncated"},
		{"loopback/handleConn", mk(false, true), "client->upstream truncated"},
	})
}

// F-C05-1: a flow to port 53 that is not a DNS query keeps the 5 s DNS-detection read
// deadline armed during the relay.
func TestC05_Finding_F_C05_1(t *testing.T) {
	// (i) detection declines at once (declared length < 12); the client goes on 6 s later
	idle := func(handleConn bool) func() *c05Scn {
		return func() *c05Scn {
			c2u := append([]byte{0, 5}, c05Fill(9, 198)...)
			s := &c05Scn{Mem: true, HandleConn: handleConn, Stack: c05StackPort53, ReadChunk: [2]int{4096, 4096},
				SniffT: 100 * time.Millisecond, DnsT: TCPDNSFirstReadTimeout, FirstKind: "dns-too-small", Open: c05OpenPrompt, Close: c05CloseClient,
				First: 100, C2U: c2u, U2C: c05Fill(8, 50), Wrapped: true, HeldPrefix: true}
			s.CSteps = append(c05W(100), c05Step{Op: c05OpSleep, D: 6 * time.Second})
			s.CSteps = append(s.CSteps, c05W(100)...)
			s.CSteps = append(s.CSteps, c05Step{Op: c05OpCloseWrite})
			s.SSteps = append([]c05Step{{Op: c05OpWaitEOF}}, c05W(50)...)
			s.SSteps = append(s.SSteps, c05Step{Op: c05OpCloseWrite})
			return s
		}
	}
	// (ii) an SSH session on port 53: 21-byte banner, detection waits its full 5 s, then
	// the server's banner comes back and the client continues
	ssh := func(handleConn bool) func() *c05Scn {
		return func() *c05Scn {
			banner := []byte("SSH-2.0-OpenSSH_9.6\r\n")
			c2u := append(append([]byte{}, banner...), c05Fill(5, 300)...)
			s := &c05Scn{Mem: true, HandleConn: handleConn, Stack: c05StackPort53, ReadChunk: [2]int{4096, 4096},
				SniffT: 100 * time.Millisecond, DnsT: TCPDNSFirstReadTimeout, FirstKind: "ssh-banner", Open: c05OpenSlow, Close: c05CloseClient,
				First: len(banner), C2U: c2u, U2C: c05Fill(6, 400), Wrapped: true, ProbeTO: true, HeldPrefix: true}
			s.CSteps = append(c05W(len(banner)), c05Step{Op: c05OpWaitRecv, N: 400})
			s.CSteps = append(s.CSteps, c05W(300)...)
			s.CSteps = append(s.CSteps, c05Step{Op: c05OpCloseWrite})
			s.SSteps = append([]c05Step{{Op: c05OpWaitRecv, N: len(banner)}}, c05W(400)...)
			s.SSteps = append(s.SSteps, c05Step{Op: c05OpWaitEOF}, c05Step{Op: c05OpCloseWrite})
			return s
		}
	}
	c05RunFinding(t, "F-C05-1", []c05FindingCase{
		{"idle-6s/composed", idle(false), "client->upstream truncated"},
		{"idle-6s/handleConn", idle(true), "client->upstream truncated"},
		{"ssh-banner/composed", ssh(false), "truncated"},
		{"ssh-banner/handleConn", ssh(true), "truncated"},
	})
}

// F-C05-2: the upstream's FIN is not passed on to the client when the relay's left
// side is one of dae's own wrappers.
func TestC05_Finding_F_C05_2(t *testing.T) {
	mk := func(stack, kind string, first []byte, handleConn bool) func() *c05Scn {
		return func() *c05Scn {
			c2u := append(append([]byte{}, first...), c05Fill(3, 64)...)
			s := &c05Scn{Mem: true, HandleConn: handleConn, Stack: stack, ReadChunk: [2]int{4096, 4096},
				SniffT: 100 * time.Millisecond, DnsT: TCPDNSFirstReadTimeout, FirstKind: kind, Open: c05OpenPrompt, Close: c05CloseServer,
				First: len(first), C2U: c2u, U2C: c05Fill(4, 2000), Wrapped: true, HeldPrefix: true, TailAfterFin: true}
			// request, response + FIN (HTTP/1.0 style), client sees the FIN and finishes
			s.CSteps = append(c05W(len(first)), c05Step{Op: c05OpWaitEOF})
			s.CSteps = append(s.CSteps, c05W(64)...)
			s.CSteps = append(s.CSteps, c05Step{Op: c05OpCloseWrite})
			s.SSteps = append([]c05Step{{Op: c05OpWaitRecv, N: len(first)}}, c05W(2000)...)
			s.SSteps = append(s.SSteps, c05Step{Op: c05OpCloseWrite})
			return s
		}
	}
	http := c05HTTPHead("GET", "fin.c05.example", 0, 1)
	rnd := c05Fill(11, 40)
	rnd[0] = 1
	c05RunFinding(t, "F-C05-2", []c05FindingCase{
		{"ConnSniffer/composed", mk(c05StackSniff, "http", http, false), "eof=true(+10"},
		{"ConnSniffer/handleConn", mk(c05StackSniff, "http", http, true), "eof=true(+10"},
		{"prefixedConn/composed", mk(c05StackSniff, "random", rnd, false), "eof=true(+10"},
		{"bufioConn/composed", mk(c05StackPort53, "dns-too-small", append([]byte{0, 3}, rnd...), false), ""},
	})
}

// F-C05-3: a well-formed DNS message that is not a query (QR set) is consumed by the
// port-53 detection and never forwarded.
func TestC05_Finding_F_C05_3(t *testing.T) {
	mk := func(mem, handleConn bool) func() *c05Scn {
		return func() *c05Scn {
			frame := c05DNSResponseFrame(0x51)
			c2u := append(append([]byte{}, frame...), c05Fill(2, 500)...)
			s := &c05Scn{Mem: mem, HandleConn: handleConn, Stack: c05StackPort53, ReadChunk: [2]int{4096, 4096},
				SniffT: time.Hour, DnsT: time.Hour, FirstKind: "dns-response", Open: c05OpenPrompt, Close: c05CloseClient,
				First: len(frame), C2U: c2u, U2C: c05Fill(1, 100), Wrapped: true, HeldPrefix: true}
			if mem {
				s.SniffT, s.DnsT = 100*time.Millisecond, TCPDNSFirstReadTimeout
			}
			s.CSteps = append(c05W(len(frame), 500), c05Step{Op: c05OpCloseWrite})
			s.SSteps = append([]c05Step{{Op: c05OpWaitEOF}}, c05W(100)...)
			s.SSteps = append(s.SSteps, c05Step{Op: c05OpCloseWrite})
			return s
		}
	}
	c05RunFinding(t, "F-C05-3", []c05FindingCase{
		{"virtual-clock/composed", mk(true, false), "client->upstream stream altered"},
		{"virtual-clock/handleConn", mk(true, true), "client->upstream stream altered"},
		{"loopback/composed", mk(false, false), "client->upstream stream altered"},
	})
}

// F-C05-4: a flow to port 53 whose first two bytes are 0xfffe or 0xffff (read as a
// DNS-over-TCP length, 2+length wraps in uint16) panics readDnsMsgFromBufio instead
// of being relayed.
func TestC05_Finding_F_C05_4(t *testing.T) {
	mk := func(hi byte, handleConn bool) func() *c05Scn {
		return func() *c05Scn {
			first := append([]byte{0xff, hi}, c05Fill(7, 60)...)
			c2u := append(append([]byte{}, first...), c05Fill(3, 300)...)
			s := &c05Scn{Mem: true, HandleConn: handleConn, Stack: c05StackPort53, ReadChunk: [2]int{4096, 4096},
				SniffT: 100 * time.Millisecond, DnsT: TCPDNSFirstReadTimeout, FirstKind: "dns-length-edge", Open: c05OpenPrompt, Close: c05CloseClient,
				First: len(first), C2U: c2u, U2C: c05Fill(8, 50), Wrapped: true, HeldPrefix: true}
			s.CSteps = append(c05W(len(first), 300), c05Step{Op: c05OpCloseWrite})
			s.SSteps = append([]c05Step{{Op: c05OpWaitEOF}}, c05W(50)...)
			s.SSteps = append(s.SSteps, c05Step{Op: c05OpCloseWrite})
			return s
		}
	}
	c05RunFinding(t, "F-C05-4", []c05FindingCase{
		{"0xfffe/composed", mk(0xfe, false), "panic on the relay path"},
		{"0xffff/composed", mk(0xff, false), "panic on the relay path"},
		{"0xffff/handleConn", mk(0xff, true), "panic on the relay path"},
	})
}

// The half-close grace boundary (regression for two harness false alarms): the
// upstream half-closes at once; the client sees it and writes 2 more bytes 1 ns
// before, exactly at, and 1 ns after the expiry of the 10 s grace period. Before:
// the bytes are due. At/after: they may be cut, the relay ends at the expiry.
func TestC05_Model_GraceBoundary(t *testing.T) {
	for _, handleConn := range []bool{false, true} {
		for _, off := range []time.Duration{-time.Millisecond, -1, 0, 1, time.Millisecond} {
			for _, lead := range []time.Duration{0, 104 * time.Millisecond} {
				s := &c05Scn{Mem: true, HandleConn: handleConn, Stack: c05StackPlain, ReadChunk: [2]int{1, 1},
					SniffT: 100 * time.Millisecond, DnsT: TCPDNSFirstReadTimeout, FirstKind: "none", Open: c05OpenPrompt, Close: c05CloseServer,
					C2U: c05Fill(1, 2), U2C: c05Fill(2, 1), TailAfterFin: true}
				// the client sleeps `lead` first (so it notices the FIN late), then pauses so
				// that its write lands at T1 + grace + off, T1 being the relay start.
				startDelay := time.Duration(0)
				if handleConn {
					startDelay = time.Duration(tcpRoutingLookupRetryAttempts-1) * tcpRoutingLookupRetryDelay
				}
				pause := startDelay + relayHalfCloseTimeout + off - max(lead, startDelay)
				s.CSteps = []c05Step{{Op: c05OpSleep, D: lead}, {Op: c05OpWaitEOF}, {Op: c05OpSleep, D: pause}, {Op: c05OpWrite, N: 2}, {Op: c05OpCloseWrite}}
				s.SSteps = []c05Step{{Op: c05OpWrite, N: 1}, {Op: c05OpCloseWrite}}
				v := c05RunBubble(t, s, c05NoKnown(true))
				if v.fail != "" {
					t.Fatalf("handleConn=%v off=%v lead=%v: %s", handleConn, off, lead, v.fail)
				}
				vkCase("C05.findings", fmt.Sprintf("grace|%v|%v|%v", handleConn, off, lead), func() any { return s.Summary() }, "model_grace_boundary")
			}
		}
	}
}

// A destination that cannot half-close (no CloseWrite, typical for proxied outbounds):
// the FIN cannot be passed on, but the opposite direction is still bounded by the
// grace period — the relay ends at exactly T1 + grace when the other side never closes,
// and at the other side's FIN when that comes in time.
func TestC05_Model_NoCloseWrite(t *testing.T) {
	for _, handleConn := range []bool{false, true} {
		for _, side := range []int{0, 1} { // 0: left cannot half-close (upstream FINs), 1: right (client FINs)
			for _, order := range []string{c05CloseServerNever, c05CloseClientNever, c05CloseClient, c05CloseServer} {
				firstIsClient := order == c05CloseServerNever || order == c05CloseClient
				if (side == 1) != firstIsClient {
					continue // the FIN must head for the side that cannot half-close
				}
				s := &c05Scn{Mem: true, HandleConn: handleConn, Stack: c05StackPlain, ReadChunk: [2]int{4096, 4096},
					SniffT: 100 * time.Millisecond, DnsT: TCPDNSFirstReadTimeout, FirstKind: "random", Open: c05OpenPrompt, Close: order,
					First: 40, C2U: c05Fill(1, 100), U2C: c05Fill(2, 100), TailAfterFin: true}
				s.NoCW[side] = true
				never := order == c05CloseServerNever || order == c05CloseClientNever
				first := []c05Step{{Op: c05OpWrite, N: 100}, {Op: c05OpCloseWrite}}
				second := []c05Step{{Op: c05OpWaitRecv, N: 100}, {Op: c05OpWrite, N: 60}, {Op: c05OpSleep, D: 3 * time.Second}, {Op: c05OpWrite, N: 40}}
				if !never {
					second = append(second, c05Step{Op: c05OpSleep, D: 2 * time.Second}, c05Step{Op: c05OpCloseWrite})
				}
				if firstIsClient {
					s.CSteps, s.SSteps = first, second
				} else {
					s.CSteps, s.SSteps = second, first
				}
				v := c05RunBubble(t, s, c05NoKnown(true))
				if v.fail != "" {
					t.Fatalf("handleConn=%v noCloseWrite=%v order=%s: %s", handleConn, s.NoCW, order, v.fail)
				}
				vkCase("C05.findings", fmt.Sprintf("nocw|%v|%d|%s", handleConn, side, order), func() any { return s.Summary() }, "model_no_closewrite")
			}
		}
	}
}

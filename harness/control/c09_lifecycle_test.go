package control

// C09 (c) — forwarder lifecycle. A state machine over the real DnsController forwarder
// cache (getOrCreateDnsForwarder / forwardWithDialArg / cachedDnsForwarder.beginUse /
// endUse / retire / closeNow / evictIdleDnsForwarders / ResetDnsForwarders /
// ReuseForReload / Close) with scripted fake forwarders: every ForwardDNS call (and,
// in half of the cases, every factory call) parks until the scheduler releases it, the
// janitor runs on the virtual clock.
//
// Oracle: Close of a fake forwarder happens at most once; never while an operation is
// inside its ForwardDNS (except under the controller's own final Close); no operation
// starts on a closed forwarder; a forwarder that was retired (reset / reload, or a
// failed UDP exchange) is closed as soon as nothing is in flight on it; after the
// controller is closed and everything has drained every forwarder ever created has
// been closed exactly once.
//
// TestC09_LifecycleStress additionally hammers beginUse/endUse/retire with real
// threads (no bubble). That is sampling, not exploration: the windows it aims at are
// between two atomic operations inside the helpers.

import (
	"context"
	"fmt"
	"net/netip"
	"runtime"
	"sort"
	"strings"
	"sync"
	"sync/atomic"
	"testing"
	"testing/synctest"
	"time"

	"github.com/daeuniverse/dae/common/consts"
	"github.com/daeuniverse/dae/common/netutils"
	componentdns "github.com/daeuniverse/dae/component/dns"
	dnsmessage "github.com/miekg/dns"
	"pgregory.net/rapid"
)

const c09UnitLife = "C09.lifecycle"

type c09LifeKey struct {
	name string
	up   *componentdns.Upstream
	da   *dialArgument
}

func c09LifeKeys() []c09LifeKey {
	mk := func(scheme componentdns.UpstreamScheme, ip string, l4 consts.L4ProtoStr) c09LifeKey {
		a := netip.MustParseAddr(ip)
		return c09LifeKey{
			name: string(scheme) + "://" + ip + "(" + string(l4) + ")",
			up:   &componentdns.Upstream{Scheme: scheme, Hostname: ip, Port: 53, Ip46: &netutils.Ip46{Ip4: a}},
			da:   &dialArgument{l4proto: l4, ipversion: consts.IpVersionStr_4, bestTarget: netip.AddrPortFrom(a, 53)},
		}
	}
	return []c09LifeKey{
		mk(componentdns.UpstreamScheme_UDP, "10.9.0.1", consts.L4ProtoStr_UDP),
		mk(componentdns.UpstreamScheme_TCP, "10.9.0.2", consts.L4ProtoStr_TCP),
		mk(componentdns.UpstreamScheme_TCP_UDP, "10.9.0.3", consts.L4ProtoStr_UDP),
	}
}

type c09LifeOp struct {
	idx  int
	key  int
	mu   sync.Mutex
	done bool
	err  error
}

type c09LifeHandle struct {
	key   int
	entry *cachedDnsForwarder
	fwd   *c09Fwd
}

func c09LifeOption() *DnsControllerOption {
	return &DnsControllerOption{
		Log:               c09Log(),
		LifecycleContext:  context.Background(),
		NewCache:          c09NewCacheFn,
		BestDialerChooser: c09BestDialer,
	}
}

func c09LifecycleCase(t *rapid.T) {
	c09ResetGlobals()
	w := c09NewWorld()
	w.parkFactory = rapid.Bool().Draw(t, "factoryParks")
	ctl, err := NewDnsController(nil, c09LifeOption())
	if err != nil {
		t.Fatalf("harness: %v", err)
	}
	orig := dnsForwarderFactory
	dnsForwarderFactory = w.factory
	closed := false
	defer func() {
		w.abort()
		synctest.Wait()
		if !closed {
			w.mu.Lock()
			w.shutdown = true
			w.mu.Unlock()
			_ = ctl.Close()
		}
		dnsForwarderFactory = orig
	}()
	keys := c09LifeKeys()

	var trace []string
	classes := map[string]bool{}
	if w.parkFactory {
		classes["factory-parks"] = true
	}
	fail := func(format string, a ...any) {
		t.Fatalf("C09 violated (forwarder lifecycle): %s\nschedule:\n  %s", fmt.Sprintf(format, a...), strings.Join(trace, "\n  "))
	}
	var ops []*c09LifeOp
	var handles []*c09LifeHandle
	retired := map[*c09Fwd]string{} // forwarder -> why it must be closed once idle
	fwdOfEntry := func(e *cachedDnsForwarder) *c09Fwd { f, _ := e.forwarder.(*c09Fwd); return f }

	quiesce := func() {
		synctest.Wait()
		w.failOnViolations(t, &trace)
		// never fail while holding a lock: collect under the lock, report afterwards
		var leaked []string
		w.mu.Lock()
		for f, why := range retired {
			if f.inside == 0 && f.closeCalls == 0 {
				// a handle that began on it keeps it alive only through inFlight, which
				// the fake mirrors as "inside"
				leaked = append(leaked, fmt.Sprintf("forwarder #%d (%s %s) was retired (%s) and has nothing in flight, but it was not closed", f.id, f.proto, f.upstream, why))
			}
		}
		w.mu.Unlock()
		if len(leaked) > 0 {
			sort.Strings(leaked)
			fail("%s", strings.Join(leaked, "; "))
		}
	}
	dropIdleHandles := func(why string) {
		if len(handles) == 0 {
			return
		}
		if vkKnown("F-C09-1") {
			for range handles {
				vkExcluded(c09UnitLife, "F-C09-1")
			}
			trace = append(trace, fmt.Sprintf("(dropped %d acquired-but-not-begun handle(s) before %s: known F-C09-1)", len(handles), why))
			handles = nil
		}
	}
	query := func(i int) []byte {
		return c09BuildQuery(i, c09Names[i%len(c09Names)], dnsmessage.TypeA, uint16(i))
	}
	sawRetireInFlight, sawEvict, sawLoser := false, false, false

	nSteps := rapid.IntRange(4, 40).Draw(t, "nSteps")
	for step := 0; step < nSteps; step++ {
		quiesce()
		parked := w.parked()
		fparked := w.parkedFactory()
		opts := []string{"start", "start", "reset", "advance", "evict"}
		if len(parked) > 0 {
			opts = append(opts, "finish", "finish", "finish")
		}
		if len(fparked) > 0 {
			opts = append(opts, "factory", "factory")
		}
		if !w.parkFactory {
			opts = append(opts, "acquire")
			if len(handles) > 0 {
				opts = append(opts, "begin", "begin")
			}
		}
		if step > 2 {
			opts = append(opts, "reload")
		}
		switch rapid.SampledFrom(opts).Draw(t, "step") {
		case "start":
			k := rapid.IntRange(0, len(keys)-1).Draw(t, "key")
			op := &c09LifeOp{idx: len(ops), key: k}
			ops = append(ops, op)
			trace = append(trace, fmt.Sprintf("start op%d on %s", op.idx, keys[k].name))
			c := ctl
			go func() {
				_, err := c.forwardWithDialArg(context.Background(), keys[k].up, keys[k].da, query(op.idx))
				op.mu.Lock()
				op.done, op.err = true, err
				op.mu.Unlock()
			}()
		case "finish":
			call := parked[rapid.IntRange(0, len(parked)-1).Draw(t, "which")]
			kinds := []int{c09ActOK, c09ActOK, c09ActError, c09ActError, c09ActCanceled}
			if call.fwd.proto == consts.L4ProtoStr_UDP {
				kinds = append(kinds, c09ActTrunc)
			}
			act := c09Action{kind: rapid.SampledFrom(kinds).Draw(t, "outcome"), respID: call.req.Id}
			trace = append(trace, fmt.Sprintf("finish call#%d on fwd#%d(%s %s) -> %s", call.serial, call.fwd.id, call.fwd.proto, call.fwd.upstream, c09ActNames[act.kind]))
			classes["outcome:"+c09ActNames[act.kind]] = true
			if act.kind == c09ActError && call.fwd.proto == consts.L4ProtoStr_UDP && !c09CallIsHandle(call) {
				// forwardWithDialArg retires a UDP forwarder after a failed exchange
				w.mu.Lock()
				if call.fwd.inside > 1 {
					sawRetireInFlight = true
				}
				w.mu.Unlock()
				if _, ok := retired[call.fwd]; !ok {
					retired[call.fwd] = "UDP exchange failed"
				}
			}
			w.release(call, act)
		case "factory":
			fc := fparked[rapid.IntRange(0, len(fparked)-1).Draw(t, "which")]
			var ferr error
			if rapid.IntRange(0, 4).Draw(t, "factoryFails") == 0 {
				ferr = errC09Upstream
			}
			trace = append(trace, fmt.Sprintf("factory for %s %s returns err=%v", fc.proto, fc.upstream, ferr))
			w.releaseFactory(fc, ferr)
		case "acquire":
			k := rapid.IntRange(0, len(keys)-1).Draw(t, "key")
			e, gerr := ctl.getOrCreateDnsForwarder(keys[k].up, keys[k].da)
			if gerr != nil {
				fail("getOrCreateDnsForwarder(%s): %v", keys[k].name, gerr)
			}
			h := &c09LifeHandle{key: k, entry: e, fwd: fwdOfEntry(e)}
			handles = append(handles, h)
			classes["handle"] = true
			trace = append(trace, fmt.Sprintf("acquire handle on fwd#%d (%s)", h.fwd.id, keys[k].name))
		case "begin":
			i := rapid.IntRange(0, len(handles)-1).Draw(t, "which")
			h := handles[i]
			handles = append(handles[:i], handles[i+1:]...)
			ok := h.entry.beginUse()
			trace = append(trace, fmt.Sprintf("beginUse on handle fwd#%d -> %v", h.fwd.id, ok))
			if ok {
				op := &c09LifeOp{idx: len(ops), key: h.key}
				ops = append(ops, op)
				go func() {
					_, err := h.entry.forwarder.ForwardDNS(c09HandleCtx, query(op.idx))
					h.entry.endUse()
					op.mu.Lock()
					op.done, op.err = true, err
					op.mu.Unlock()
				}()
				classes["handle-began"] = true
			} else {
				classes["handle-refused"] = true
			}
		case "reset":
			w.mu.Lock()
			for _, f := range w.fwds {
				if f.closeCalls == 0 {
					if _, ok := retired[f]; !ok {
						retired[f] = "ResetDnsForwarders"
					}
					if f.inside > 0 {
						sawRetireInFlight = true
					}
				}
			}
			w.mu.Unlock()
			trace = append(trace, "ResetDnsForwarders")
			if rerr := ctl.ResetDnsForwarders(); rerr != nil {
				fail("ResetDnsForwarders: %v", rerr)
			}
		case "reload":
			w.mu.Lock()
			for _, f := range w.fwds {
				if f.closeCalls == 0 {
					if _, ok := retired[f]; !ok {
						retired[f] = "ReuseForReload"
					}
					if f.inside > 0 {
						sawRetireInFlight = true
					}
				}
			}
			w.mu.Unlock()
			trace = append(trace, "ReuseForReload")
			next, rerr := ctl.ReuseForReload(c09LifeOption(), nil)
			if rerr != nil || next == nil {
				fail("ReuseForReload: %v", rerr)
			}
			ctl = next
			classes["reload"] = true
		case "advance":
			d := rapid.SampledFrom([]time.Duration{time.Second, 31 * time.Second, 125 * time.Second, 200 * time.Second}).Draw(t, "sleep")
			dropIdleHandles("advance")
			w.mu.Lock()
			before := 0
			for _, f := range w.fwds {
				before += f.closeCalls
			}
			w.mu.Unlock()
			trace = append(trace, "advance "+d.String())
			time.Sleep(d)
			synctest.Wait()
			w.mu.Lock()
			after := 0
			for _, f := range w.fwds {
				after += f.closeCalls
			}
			w.mu.Unlock()
			if after > before {
				sawEvict = true
			}
		case "evict":
			dropIdleHandles("evict")
			trace = append(trace, "evictIdleDnsForwarders(now)")
			ctl.evictIdleDnsForwarders(time.Now())
		}
	}
	quiesce()

	// ---- final phase
	closeWithParked := rapid.Bool().Draw(t, "closeWithOpsInFlight")
	drain := func(all bool) {
		for guard := 0; guard < 500; guard++ {
			synctest.Wait()
			w.failOnViolations(t, &trace)
			if fp := w.parkedFactory(); len(fp) > 0 {
				trace = append(trace, "drain: factory returns")
				w.releaseFactory(fp[0], nil)
				continue
			}
			if !all {
				return
			}
			if p := w.parked(); len(p) > 0 {
				act := c09Action{kind: rapid.SampledFrom([]int{c09ActOK, c09ActError}).Draw(t, "drainOutcome"), respID: p[0].req.Id}
				if act.kind == c09ActError && p[0].fwd.proto == consts.L4ProtoStr_UDP && !c09CallIsHandle(p[0]) && !closed {
					retired[p[0].fwd] = "UDP exchange failed"
				}
				trace = append(trace, fmt.Sprintf("drain: finish call#%d on fwd#%d -> %s", p[0].serial, p[0].fwd.id, c09ActNames[act.kind]))
				w.release(p[0], act)
				continue
			}
			return
		}
	}
	// handles that never began are simply forgotten (their goroutine would have
	// retried through getOrCreateDnsForwarder).
	handles = nil
	drain(!closeWithParked)
	quiesce()
	if closeWithParked && len(w.parked()) > 0 {
		classes["close-with-ops-in-flight"] = true
	}
	w.mu.Lock()
	w.shutdown = true
	w.mu.Unlock()
	trace = append(trace, "DnsController.Close")
	_ = ctl.Close()
	closed = true
	synctest.Wait()
	w.mu.Lock()
	w.shutdown = false
	w.mu.Unlock()
	drain(true)
	synctest.Wait()
	w.failOnViolations(t, &trace)
	for _, op := range ops {
		op.mu.Lock()
		d := op.done
		op.mu.Unlock()
		if !d {
			fail("op%d never returned", op.idx)
		}
	}
	var notOnce []string
	w.mu.Lock()
	nf := len(w.fwds)
	for _, f := range w.fwds {
		if f.closeCalls != 1 {
			notOnce = append(notOnce, fmt.Sprintf("forwarder #%d (%s %s, %d ops) was closed %d times by the end (want exactly once)", f.id, f.proto, f.upstream, f.callsStarted, f.closeCalls))
		}
		if f.callsStarted == 0 {
			sawLoser = true
		}
	}
	w.mu.Unlock()
	if len(notOnce) > 0 {
		fail("%s", strings.Join(notOnce, "; "))
	}
	if sawRetireInFlight {
		classes["retire-with-inflight"] = true
	}
	if sawEvict {
		classes["idle-evict"] = true
	}
	if sawLoser {
		classes["unused-forwarder-closed"] = true
	}
	nt := ""
	if sawRetireInFlight || sawEvict || sawLoser || classes["handle-refused"] || classes["close-with-ops-in-flight"] {
		nt = strings.Join(trace, "\n")
	}
	cls := make([]string, 0, len(classes))
	for k := range classes {
		cls = append(cls, k)
	}
	sort.Strings(cls)
	vkCase(c09UnitLife, nt, func() any {
		return map[string]any{"forwarders": nf, "schedule": trace}
	}, cls...)
}

type c09HandleCtxKey struct{}

// operations begun through a split handle carry this context so that the harness can
// tell them from forwardWithDialArg calls (which retire a UDP forwarder on error).
var c09HandleCtx = context.WithValue(context.Background(), c09HandleCtxKey{}, true)

func c09CallIsHandle(c *c09Call) bool {
	v, _ := c.ctx.Value(c09HandleCtxKey{}).(bool)
	return v
}

func TestC09_Lifecycle(tt *testing.T) {
	rapid.Check(tt, func(t *rapid.T) {
		c09RunBubble(tt, func() { c09LifecycleCase(t) })
	})
}

// ---------------------------------------------------------------- real-thread stress

type c09StressFwd struct {
	closed atomic.Int32
	inside atomic.Int32
	bad    atomic.Uint32
}

func (f *c09StressFwd) ForwardDNS(context.Context, []byte) (*dnsmessage.Msg, error) { return nil, nil }
func (f *c09StressFwd) Close() error {
	if f.closed.Add(1) > 1 {
		f.bad.Or(1)
	}
	if f.inside.Load() > 0 {
		f.bad.Or(2)
	}
	return nil
}
func (f *c09StressFwd) op(spin int) {
	f.inside.Add(1)
	if f.closed.Load() > 0 {
		f.bad.Or(4)
	}
	for i := 0; i < spin; i++ {
		runtime.Gosched()
	}
	if f.closed.Load() > 0 {
		f.bad.Or(8)
	}
	f.inside.Add(-1)
}

func c09StressCase(t *rapid.T) {
	rounds := 1500
	if vkThorough() {
		rounds = 6000
	}
	workers := runtime.GOMAXPROCS(0) - 1
	if workers > 6 {
		workers = 6
	}
	if workers < 2 {
		workers = 2
	}
	seed := rapid.Uint64().Draw(t, "spinSeed")
	maxSpin := rapid.SampledFrom([]int{1, 8, 64, 400}).Draw(t, "maxSpin")
	opSpin := rapid.IntRange(0, 2).Draw(t, "opYield")
	var cur atomic.Pointer[cachedDnsForwarder]
	var stop atomic.Bool
	var wg sync.WaitGroup
	for i := 0; i < workers; i++ {
		wg.Add(1)
		go func() {
			defer wg.Done()
			for !stop.Load() {
				e := cur.Load()
				if e == nil {
					runtime.Gosched()
					continue
				}
				if e.beginUse() {
					e.forwarder.(*c09StressFwd).op(opSpin)
					e.endUse()
				}
			}
		}()
	}
	fwds := make([]*c09StressFwd, rounds)
	x := seed | 1
	sink := 0
	for r := 0; r < rounds; r++ {
		f := &c09StressFwd{}
		fwds[r] = f
		e := newCachedDnsForwarder(f, time.Now())
		cur.Store(e)
		x ^= x << 13
		x ^= x >> 7
		x ^= x << 17
		for i := 0; i < int(x%uint64(maxSpin)); i++ {
			sink += i
		}
		_ = e.retire()
	}
	stop.Store(true)
	wg.Wait()
	_ = sink
	for r, f := range fwds {
		if c, b := f.closed.Load(), f.bad.Load(); c != 1 || b != 0 {
			var why []string
			if c != 1 {
				why = append(why, fmt.Sprintf("closed %d times", c))
			}
			if b&2 != 0 || b&8 != 0 {
				why = append(why, "closed while an operation was inside")
			}
			if b&4 != 0 {
				why = append(why, "an operation started after Close")
			}
			t.Fatalf("C09 violated (beginUse/endUse/retire under real concurrency, round %d of %d, %d workers): %s", r, rounds, workers, strings.Join(why, ", "))
		}
	}
	vkCase("C09.stress", "", nil, "stress-rounds")
}

func TestC09_LifecycleStress(tt *testing.T) {
	rapid.Check(tt, c09StressCase)
}

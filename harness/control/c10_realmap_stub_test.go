//go:build dae_stub_ebpf

package control

// Stub build: BpfMapBatchUpdate/Delete are inert there, so the C10 units run with a
// nil domain_routing_map (see c10_realmap_test.go for the real-map mode).

import "github.com/cilium/ebpf"

func c10TryRealMap(unit string) *ebpf.Map { return nil }
func c10ForceBatchMode(simulate bool)     {}
func c10DumpReal(m *ebpf.Map) (map[c10Key]bpfDomainRouting, error) {
	return nil, nil
}
